/* C18 - "feature/setting labels are the name-table strings": the record SELECTION half of the label path.
 *   NameTable::setPlatformEncoding (src/NameTable.cpp)  - finds the run of records of the (platform, encoding) pair
 *   NameTable::getName, first part                       - picks the record of the run for (nameId, languageId)
 * (the copy of the picked record: unit c01_getname_copy; the transcoding: units c18_getname_*).
 * Decided here, for every name table of 1, 2 or 3 records (one unit per size, exact-size table) with arbitrary field values:
 *   safety      : every record read has an index below `count` (the constructor admits only tables that hold `count` records)
 *   soundness   : a picked record lies in the run of the platform and carries the requested name id
 *   preference  : exact language match, else same primary language, else en-US, else any language
 *   completeness: when the run holds a record with the requested name id, a record is picked (a label that exists is returned)
 * Completeness is split into its own units because it failed in two situations: the run consists of a single record (repaired in
 * /repo, fix: 813866f6) and record 0 of the table is one of the candidates (index 0 doubles as 'none': known finding, not repaired).
 */
#include "types.h"
#ifndef NREC
#define NREC 3
#endif
/*@unit {'name':'c18_name_select_n1', 'props':['C18','C01'], 'entry':'h_select', 'kind':'bounded', 'unwind':5, 'defines':['NREC=1'],
  'bound':'name table of exactly 1 record(s) in an exact-size buffer, every field arbitrary',
  'replay':'c18_nameselect', 'witness_defines':['NREC=1'], 'witness_vars':['w_plat','w_enc','w_name','w_lang','w_want_name','w_want_lang'],
  'claims':'setPlatformEncoding + the selection loop of getName read only records below count; a picked record lies inside the platform run, has the requested name id, and no record of the run (other than record 0) with that name id has a better language match (exact > primary language > en-US > any)'}@*/
/*@unit {'name':'c18_name_select_complete_n1', 'props':['C18'], 'entry':'h_select', 'kind':'bounded', 'unwind':5, 'defines':['NREC=1','COMPLETE'],
  'bound':'name table of exactly 1 record(s) in an exact-size buffer, every field arbitrary',
  'replay':'c18_nameselect', 'witness_defines':['NREC=1','COMPLETE'], 'witness_vars':['w_plat','w_enc','w_name','w_lang','w_want_name','w_want_lang'],
  'claims':'completeness: whenever the records of the requested platform/encoding (a contiguous run) include one with the requested name id, getName picks a record'}@*/
/*@unit {'name':'c18_name_select_n2', 'props':['C18','C01'], 'entry':'h_select', 'kind':'bounded', 'unwind':5, 'defines':['NREC=2'],
  'bound':'name table of exactly 2 record(s) in an exact-size buffer, every field arbitrary',
  'replay':'c18_nameselect', 'witness_defines':['NREC=2'], 'witness_vars':['w_plat','w_enc','w_name','w_lang','w_want_name','w_want_lang'],
  'claims':'setPlatformEncoding + the selection loop of getName read only records below count; a picked record lies inside the platform run, has the requested name id, and no record of the run (other than record 0) with that name id has a better language match (exact > primary language > en-US > any)'}@*/
/*@unit {'name':'c18_name_select_complete_n2', 'props':['C18'], 'entry':'h_select', 'kind':'bounded', 'unwind':5, 'defines':['NREC=2','COMPLETE'],
  'bound':'name table of exactly 2 record(s) in an exact-size buffer, every field arbitrary',
  'replay':'c18_nameselect', 'witness_defines':['NREC=2','COMPLETE'], 'witness_vars':['w_plat','w_enc','w_name','w_lang','w_want_name','w_want_lang'],
  'claims':'completeness: whenever the records of the requested platform/encoding (a contiguous run) include one with the requested name id, getName picks a record'}@*/
/*@unit {'name':'c18_name_select_n3', 'props':['C18','C01'], 'entry':'h_select', 'kind':'bounded', 'unwind':5, 'defines':['NREC=3'],
  'bound':'name table of exactly 3 record(s) in an exact-size buffer, every field arbitrary',
  'replay':'c18_nameselect', 'witness_defines':['NREC=3'], 'witness_vars':['w_plat','w_enc','w_name','w_lang','w_want_name','w_want_lang'],
  'claims':'setPlatformEncoding + the selection loop of getName read only records below count; a picked record lies inside the platform run, has the requested name id, and no record of the run (other than record 0) with that name id has a better language match (exact > primary language > en-US > any)'}@*/
/*@unit {'name':'c18_name_select_complete_n3', 'props':['C18'], 'entry':'h_select', 'kind':'bounded', 'unwind':5, 'defines':['NREC=3','COMPLETE'],
  'bound':'name table of exactly 3 record(s) in an exact-size buffer, every field arbitrary',
  'replay':'c18_nameselect', 'witness_defines':['NREC=3','COMPLETE'], 'witness_vars':['w_plat','w_enc','w_name','w_lang','w_want_name','w_want_lang'],
  'claims':'completeness: whenever the records of the requested platform/encoding (a contiguous run) include one with the requested name id, getName picks a record'}@*/
/*@include endian.tc@*/
typedef struct NameRecord { uint16 platform_id, platform_specific_id, language_id, name_id, length, offset; } NameRecord;
typedef struct FontNames { uint16 format, count, string_offset; NameRecord name_record[NREC]; } FontNames;
typedef struct NameTable {
/*@extract {'kind':'members', 'file':'src/inc/NameTable.h', 'scope': r'class NameTable\s*\{', 'names':['m_platformId','m_encodingId','m_platformOffset','m_platformLastRecord','m_nameDataLength','m_table','m_nameData'],
   'subs':[[r'TtfUtil::Sfnt::', '', 0]]}@*/
} NameTable;
/*@extract {'file':'src/NameTable.cpp', 'sig': r'uint16 NameTable::setPlatformEncoding\(uint16 platformId, uint16 encodingID\)', 'emit':'uint16 NameTable_setPlatformEncoding(NameTable *self, uint16 platformId, uint16 encodingID)',
   'subs':[[r'be::swap<(\w+)>\(', r'be_swap_\1(', 0]],
   'self':['m_nameData','m_table','m_platformOffset','m_platformLastRecord','m_encodingId','m_platformId']}@*/
/*@extract {'file':'src/NameTable.cpp', 'kind':'range', 'scope': r'void\* NameTable::getName\(uint16& languageId, uint16 nameId, gr_encform enc, uint32& length\)',
   'start': r'uint16 anyLang = 0;', 'end': r'const TtfUtil::Sfnt::NameRecord & nameRecord',
   'pre':'int NameTable_getName_select(NameTable *self, uint16 *languageId, uint16 nameId, uint32 *length)\n{\n', 'post':'\n    return bestLang;\n}\n',
   'subs':[[r'be::swap<(\w+)>\(', r'be_swap_\1(', 0], [r'return NULL;', 'return -1;', 0]],
   'refs':['languageId','length'], 'self':['m_table','m_platformOffset','m_platformLastRecord']}@*/

unsigned nondet_unsigned(void);
static int rank(uint16 lang, uint16 want) { return lang == want ? 3 : ((lang & 0xFF) == (want & 0xFF)) ? 2 : lang == 0x409 ? 1 : 0; }
void h_select(void)
{
    NameTable *nt = malloc(sizeof(NameTable)); __CPROVER_assume(nt);
    const uint16 w_count = NREC;
    /* the table as the constructor admits it: exactly `count` records (the constructor test length > sizeof(FontNames) + (count-1) records) */
    FontNames *tbl = malloc(sizeof(FontNames)); __CPROVER_assume(tbl);
    uint16 w_plat[NREC], w_enc[NREC], w_name[NREC], w_lang[NREC];
    tbl->count = be_swap_uint16(w_count);
    for (int i = 0; i < NREC; ++i) if (i < w_count) {
        tbl->name_record[i].platform_id = be_swap_uint16(w_plat[i]); tbl->name_record[i].platform_specific_id = be_swap_uint16(w_enc[i]);
        tbl->name_record[i].name_id = be_swap_uint16(w_name[i]); tbl->name_record[i].language_id = be_swap_uint16(w_lang[i]); }
    uint8 data[1]; nt->m_table = tbl; nt->m_nameData = data; nt->m_nameDataLength = 1;
    nt->m_platformId = 0; nt->m_encodingId = 0; nt->m_platformOffset = 0; nt->m_platformLastRecord = 0;      /* constructor initialiser list */
    NameTable_setPlatformEncoding(nt, 3, 1);                                                                   /* Face::nameTable(): platform 3 (Microsoft), encoding 1 (Unicode BMP) */
    /* the run of the platform: first matching record and the records that follow it while they match */
    int first = -1, last = -1;
    for (int i = 0; i < NREC; ++i) if (i < w_count && first < 0 && w_plat[i] == 3 && w_enc[i] == 1) first = i;
    if (first >= 0) { last = first; for (int i = 0; i < NREC; ++i) if (i > first && i < w_count && last == i - 1 && w_plat[i] == 3 && w_enc[i] == 1) last = i; }
    uint16 w_want_name = (uint16)nondet_unsigned(), w_want_lang = (uint16)nondet_unsigned();
    uint16 lang = w_want_lang; uint32 length = 77;
    int pick = NameTable_getName_select(nt, &lang, w_want_name, &length);
#ifndef COMPLETE
    if (pick >= 0) {
        __CPROVER_assert(first >= 0 && pick >= first && pick <= last, "a picked record lies in the run of the requested platform/encoding");
        __CPROVER_assert(w_name[pick] == w_want_name, "a picked record carries the requested name id");
        for (int i = 1; i < NREC; ++i) if (i >= first && i <= last && w_name[i] == w_want_name)
            __CPROVER_assert(rank(w_lang[i], w_want_lang) <= rank(w_lang[pick], w_want_lang), "no record of the run (other than record 0) matches the requested language better than the picked one");
    } else __CPROVER_assert(lang == 0 && length == 0, "no record: language id and length are reset");
#else
    bool exists = false;
    for (int i = 0; i < NREC; ++i) if (first >= 0 && i >= first && i <= last && w_name[i] == w_want_name) exists = true;
    bool rec0 = first == 0 && w_name[0] == w_want_name;                  /* record 0 of the table is one of the candidates */
    if (exists && first != last && !rec0) __CPROVER_assert(pick >= 0, "a label present in a run of two or more records is found");
    if (exists && first == last && !rec0) __CPROVER_assert(pick >= 0, "a label present in a run of exactly one record is found");
    if (exists && rec0)                   __CPROVER_assert(pick >= 0, "a label is found when record 0 of the table is one of the candidates");
#endif
    CANARY();
}
