/* C17, clause 1 - "each shift the collision fixer computes keeps the glyph's accumulated collision offset inside the limit rectangle":
 * the two places where a resolved position is turned into the shift that is returned.
 *   KernCollider::resolve   (src/Collider.cpp)  - the kern is clamped so that offsetPrev + kern stays in [limit.bl.x, limit.tr.x]
 *   ShiftCollider::resolve  (src/Collider.cpp)  - the per-axis conversion of the free position found on axis i back into an (x,y) shift
 * Both clauses are stated in the DIFFERENCE form the code computes (limit - offset, no re-adding), which is exact in IEEE-754 single
 * precision; the re-added form of the statement is false at the ulp level (DESIGN.md section 4, C17).  Everything else in Collider.cpp
 * (initSlot, mergeSlot: which ranges are excluded) stays outside the claim.
 */
#include "types.h"
/*@unit {'name':'c17_kern_resolve', 'props':['C17'], 'entry':'h_kern', 'enforce':'KernCollider_resolve',
  'claims':'KernCollider::resolve: for finite limit, previous offset and gap with limit.bl.x - offsetPrev.x <= limit.tr.x - offsetPrev.x (a well-formed limit), the returned kern lies in [limit.bl.x - offsetPrev.x, limit.tr.x - offsetPrev.x] (so the accumulated offset stays inside the limit on the kern path), equals the kern needed whenever that lies in the interval, has no y component, and nothing is written'}@*/
/*@unit {'name':'c17_shift_axes', 'props':['C17'], 'entry':'h_axes', 'kind':'bounded', 'unwind':2, 'backend':'cadical', 'timeout':900,
  'bound':'current shift and free position are multiples of 1/2 with magnitude <= 32 (all sums and halves are then exact in single precision); every axis 0..3',
  'claims':'ShiftCollider::resolve, conversion of the free position found on axis i into the shift: axis 0 / 1 replace the x / y component and keep the other; on the sum diagonal x + y equals the free position and x - y is unchanged; on the difference diagonal x - y equals the free position and x + y is unchanged'}@*/
/*@unit {'name':'c17_shift_limits_a0', 'props':['C17'], 'entry':'h_limits', 'kind':'bounded', 'unwind':5, 'backend':'cadical', 'timeout':1200, 'defines':['LIMITS','AXIS=0'],
  'bound':'limit rectangle, current offset, current shift and the chosen position are multiples of 1/2 (position of the parity the axis produces) with magnitude <= 4, where single precision is exact; the target glyph already inside its limit; axis 0; right-to-left (no x mirroring)',
  'claims':'clause 1 end to end for one fixing step: ShiftCollider::initSlot gives the interval set of axis i the bounds [mn,mx] such that ANY position p in [mn,mx], turned into a shift by ShiftCollider::resolve (tbase subtraction and axis conversion, both extracted), keeps the shift inside the limit rectangle minus the current offset, i.e. the accumulated collision offset inside the limit rectangle'}@*/
/*@unit {'name':'c17_shift_limits_a1', 'props':['C17'], 'entry':'h_limits', 'kind':'bounded', 'unwind':5, 'backend':'cadical', 'timeout':1200, 'defines':['LIMITS','AXIS=1'],
  'bound':'limit rectangle, current offset, current shift and the chosen position are multiples of 1/2 (position of the parity the axis produces) with magnitude <= 4, where single precision is exact; the target glyph already inside its limit; axis 1; right-to-left (no x mirroring)',
  'claims':'clause 1 end to end for one fixing step: ShiftCollider::initSlot gives the interval set of axis i the bounds [mn,mx] such that ANY position p in [mn,mx], turned into a shift by ShiftCollider::resolve (tbase subtraction and axis conversion, both extracted), keeps the shift inside the limit rectangle minus the current offset, i.e. the accumulated collision offset inside the limit rectangle'}@*/
/*@unit {'name':'c17_shift_limits_a2', 'props':['C17'], 'entry':'h_limits', 'kind':'bounded', 'unwind':5, 'backend':'cadical', 'timeout':1200, 'defines':['LIMITS','AXIS=2'],
  'bound':'limit rectangle, current offset, current shift and the chosen position are multiples of 1/2 (position of the parity the axis produces) with magnitude <= 4, where single precision is exact; the target glyph already inside its limit; axis 2; right-to-left (no x mirroring)',
  'claims':'clause 1 end to end for one fixing step: ShiftCollider::initSlot gives the interval set of axis i the bounds [mn,mx] such that ANY position p in [mn,mx], turned into a shift by ShiftCollider::resolve (tbase subtraction and axis conversion, both extracted), keeps the shift inside the limit rectangle minus the current offset, i.e. the accumulated collision offset inside the limit rectangle'}@*/
/*@unit {'name':'c17_shift_limits_a3', 'props':['C17'], 'entry':'h_limits', 'kind':'bounded', 'unwind':5, 'backend':'cadical', 'timeout':1200, 'defines':['LIMITS','AXIS=3'],
  'bound':'limit rectangle, current offset, current shift and the chosen position are multiples of 1/2 (position of the parity the axis produces) with magnitude <= 4, where single precision is exact; the target glyph already inside its limit; axis 3; right-to-left (no x mirroring)',
  'claims':'clause 1 end to end for one fixing step: ShiftCollider::initSlot gives the interval set of axis i the bounds [mn,mx] such that ANY position p in [mn,mx], turned into a shift by ShiftCollider::resolve (tbase subtraction and axis conversion, both extracted), keeps the shift inside the limit rectangle minus the current offset, i.e. the accumulated collision offset inside the limit rectangle'}@*/
/*@unit {'name':'c17_merge_reach_a0', 'props':['C17'], 'entry':'h_reach', 'kind':'bounded', 'unwind':18, 'backend':'cadical', 'timeout':900, 'defines':['REACH','AXIS=0'],
  'bound':'limit rectangle, current offset/shift, glyph boxes and neighbour position are multiples of 1/2 with magnitude <= 4 (single precision is exact there); axis 0; the boxes of the neighbour are zero (they do not enter cmin, cmax)',
  'claims':'clause 2, reach test of ShiftCollider::mergeSlot (the per-axis switch, extracted): for every shift (x,y) inside the limit rectangle the coordinate of the shifted target on axis i (x, y, x+y, x-y, plus the current offset on that axis) lies in [cmin,cmax], so the early-out `vmax < cmin - margin || vmin > cmax + margin` can only skip a neighbour that the target cannot reach inside its limit rectangle (a neighbour within reach is never ignored)'}@*/
/*@unit {'name':'c17_merge_reach_a1', 'props':['C17'], 'entry':'h_reach', 'kind':'bounded', 'unwind':18, 'backend':'cadical', 'timeout':900, 'defines':['REACH','AXIS=1'],
  'bound':'limit rectangle, current offset/shift, glyph boxes and neighbour position are multiples of 1/2 with magnitude <= 4 (single precision is exact there); axis 1; the boxes of the neighbour are zero (they do not enter cmin, cmax)',
  'claims':'clause 2, reach test of ShiftCollider::mergeSlot (the per-axis switch, extracted): for every shift (x,y) inside the limit rectangle the coordinate of the shifted target on axis i (x, y, x+y, x-y, plus the current offset on that axis) lies in [cmin,cmax], so the early-out `vmax < cmin - margin || vmin > cmax + margin` can only skip a neighbour that the target cannot reach inside its limit rectangle (a neighbour within reach is never ignored)'}@*/
/*@unit {'name':'c17_merge_reach_a2', 'props':['C17'], 'entry':'h_reach', 'kind':'bounded', 'unwind':18, 'backend':'cadical', 'timeout':900, 'defines':['REACH','AXIS=2'],
  'bound':'limit rectangle, current offset/shift, glyph boxes and neighbour position are multiples of 1/2 with magnitude <= 4 (single precision is exact there); axis 2; the boxes of the neighbour are zero (they do not enter cmin, cmax)',
  'claims':'clause 2, reach test of ShiftCollider::mergeSlot (the per-axis switch, extracted): for every shift (x,y) inside the limit rectangle the coordinate of the shifted target on axis i (x, y, x+y, x-y, plus the current offset on that axis) lies in [cmin,cmax], so the early-out `vmax < cmin - margin || vmin > cmax + margin` can only skip a neighbour that the target cannot reach inside its limit rectangle (a neighbour within reach is never ignored)'}@*/
/*@unit {'name':'c17_merge_reach_a3', 'props':['C17'], 'entry':'h_reach', 'kind':'bounded', 'unwind':18, 'backend':'cadical', 'timeout':900, 'defines':['REACH','AXIS=3'],
  'bound':'limit rectangle, current offset/shift, glyph boxes and neighbour position are multiples of 1/2 with magnitude <= 4 (single precision is exact there); axis 3; the boxes of the neighbour are zero (they do not enter cmin, cmax)',
  'claims':'clause 2, reach test of ShiftCollider::mergeSlot (the per-axis switch, extracted): for every shift (x,y) inside the limit rectangle the coordinate of the shifted target on axis i (x, y, x+y, x-y, plus the current offset on that axis) lies in [cmin,cmax], so the early-out `vmax < cmin - margin || vmin > cmax + margin` can only skip a neighbour that the target cannot reach inside its limit rectangle (a neighbour within reach is never ignored)'}@*/
typedef struct Position { float x, y; } Position;
typedef struct Rect { Position bl, tr; } Rect;
typedef struct Segment Segment; typedef struct Slot Slot; typedef struct json json;
#define GRAPHITE2_NTRACING 1
#define GR_MAYBE_UNUSED
/*@extract {'file':'src/inc/Main.h', 'sig': r'inline T min\(const T a, const T b\)', 'emit':'static float min_f(const float a, const float b)'}@*/
/*@extract {'file':'src/inc/Main.h', 'sig': r'inline T max\(const T a, const T b\)', 'emit':'static float max_f(const float a, const float b)'}@*/
static Position mkpos(float x, float y) { Position p; p.x = x; p.y = y; return p; }

#ifdef UNIT_c17_kern_resolve
typedef struct KernCollider {
/*@extract {'kind':'members', 'file':'src/inc/Collider.h', 'scope': r'class KernCollider\s*\{', 'names':['_limit','_offsetPrev','_currShift','_mingap']}@*/
} KernCollider;
#define FIN(v) (!__CPROVER_isnanf(v) && !__CPROVER_isinff(v))
const KernCollider *g_kc;
Position KernCollider_resolve(const KernCollider *self, Segment *seg, Slot *slot, int dir, json *const dbgout)
__CPROVER_requires(self == g_kc && FIN(self->_limit.bl.x) && FIN(self->_limit.tr.x) && FIN(self->_offsetPrev.x) && FIN(self->_mingap))
__CPROVER_requires(FIN(self->_limit.bl.x - self->_offsetPrev.x) && FIN(self->_limit.tr.x - self->_offsetPrev.x))
__CPROVER_requires(self->_limit.bl.x - self->_offsetPrev.x <= self->_limit.tr.x - self->_offsetPrev.x)          /* well-formed limit */
__CPROVER_assigns()
__CPROVER_ensures(__CPROVER_return_value.x >= self->_limit.bl.x - self->_offsetPrev.x)
__CPROVER_ensures(__CPROVER_return_value.x <= self->_limit.tr.x - self->_offsetPrev.x)
__CPROVER_ensures(__CPROVER_return_value.y == 0.0f)
__CPROVER_ensures(((dir & 1) ? -self->_mingap : self->_mingap) >= self->_limit.bl.x - self->_offsetPrev.x && ((dir & 1) ? -self->_mingap : self->_mingap) <= self->_limit.tr.x - self->_offsetPrev.x
                  ==> __CPROVER_return_value.x == ((dir & 1) ? -self->_mingap : self->_mingap));
/*@extract {'file':'src/Collider.cpp', 'sig': r'Position KernCollider::resolve\(GR_MAYBE_UNUSED Segment \*seg, GR_MAYBE_UNUSED Slot \*slot,\s*int dir, GR_MAYBE_UNUSED json \* const dbgout\)',
   'emit':'Position KernCollider_resolve(const KernCollider *self, Segment *seg, Slot *slot, int dir, json *const dbgout)',
   'subs':[[r'\bmin\(', 'min_f(', 0], [r'\bmax\(', 'max_f(', 0], [r'return Position\(result, 0\.\);', 'return mkpos(result, 0.0f);', 0]],
   'self':['_limit','_offsetPrev','_currShift','_mingap']}@*/
int nondet_int(void);
void h_kern(void)
{
    KernCollider *k = malloc(sizeof(KernCollider)); __CPROVER_assume(k);
    g_kc = k;
    Position r = KernCollider_resolve(k, (Segment *)0, (Slot *)0, nondet_int(), (json *)0);
    (void)r;
    CANARY();
}
#endif

#ifdef UNIT_c17_shift_axes
/* the conversion switch of ShiftCollider::resolve, extracted as a range and wrapped into a function of (axis, free position, current shift) */
typedef struct ShiftCollider { Position _currShift; } ShiftCollider;
/*@extract {'file':'src/Collider.cpp', 'kind':'range', 'scope': r'Position ShiftCollider::resolve\(GR_MAYBE_UNUSED Segment \*seg, bool &isCol, GR_MAYBE_UNUSED json \* const dbgout\)',
   'start': r'switch \(i\) \{\s*case 0 : testp', 'end': r'case 3 : testp[^\n]*\n\s*\}', 'end_inclusive': True,
   'pre':'static Position ShiftCollider_axis_to_shift(const ShiftCollider *self, int i, float bestPos)\n{\n    Position testp = mkpos(0, 0);\n', 'post':'\n    return testp;\n}\n',
   'subs':[[r'Position\(', 'mkpos(', 0]], 'self':['_currShift']}@*/
int nondet_int(void);
void h_axes(void)
{
    ShiftCollider sc;
    int kx = nondet_int(), ky = nondet_int(), kb = nondet_int(), axis = nondet_int();
    __CPROVER_assume(kx >= -64 && kx <= 64 && ky >= -64 && ky <= 64 && kb >= -64 && kb <= 64 && axis >= 0 && axis <= 3);
    /* on the diagonals the free position and the other diagonal coordinate have the same parity in half units (both are sums of the same two coordinates) */
    float sx = 0.5f * (float)kx, sy = 0.5f * (float)ky, bp = 0.5f * (float)kb;
    sc._currShift.x = sx; sc._currShift.y = sy;
    Position t = ShiftCollider_axis_to_shift(&sc, axis, bp);
    if (axis == 0) __CPROVER_assert(t.x == bp && t.y == sy, "axis x: the shift takes the free position in x and keeps y");
    if (axis == 1) __CPROVER_assert(t.x == sx && t.y == bp, "axis y: the shift takes the free position in y and keeps x");
    if (axis == 2) __CPROVER_assert(t.x + t.y == bp && t.x - t.y == sx - sy, "sum diagonal: x + y is the free position, x - y is unchanged");
    if (axis == 3) __CPROVER_assert(t.x - t.y == bp && t.x + t.y == sx + sy, "difference diagonal: x - y is the free position, x + y is unchanged");
    CANARY();
}
#endif

#ifdef LIMITS
typedef struct ShiftCollider { Rect _limit; Position _currShift, _currOffset; float _len[4]; } ShiftCollider;
typedef struct BBoxS { float xi, yi, xa, ya; } BBox; typedef struct SlantBoxS { float si, di, sa, da; } SlantBox;
static float g_mn[4], g_mx[4];
static void Zones_initialise_rec(int i, float mn, float mx) { g_mn[i] = mn; g_mx[i] = mx; }          /* Zones::initialise: stores [xmin,xmax] as the bounds of the set (unit c17_initialise) */
#define ISQRT2 0.707106781f
/* the four cases of ShiftCollider::initSlot that compute the bounds of each axis from the limit rectangle */
/*@extract {'file':'src/Collider.cpp', 'kind':'range', 'scope': r'bool ShiftCollider::initSlot\(Segment \*seg, Slot \*aSlot, const Rect &limit, float margin, float marginWeight,',
   'start': r'for \(i = 0; i < 4; \+\+i\)\s*\{\s*switch \(i\) \{', 'end': r'_target = aSlot;',
   'pre':'static void ShiftCollider_initSlot_ranges(ShiftCollider *self, const Position currShift, const Position currOffset, float margin, float marginWeight, const BBox bb, const SlantBox sb)\n{\n    int i; float mx, mn; float a, shift;\n', 'post':'\n}\n',
   'subs':[[r'_ranges\[i\]\.initialise<(?:XY|SD)>\(mn, mx, [^;]*;', 'Zones_initialise_rec(i, mn, mx);', 0], [r'\bmin\(', 'min_f(', 0]],
   'self':['_limit','_len']}@*/
/* tbase of ShiftCollider::resolve */
/*@extract {'file':'src/Collider.cpp', 'kind':'range', 'scope': r'Position ShiftCollider::resolve\(GR_MAYBE_UNUSED Segment \*seg, bool &isCol, GR_MAYBE_UNUSED json \* const dbgout\)',
   'start': r'switch \(i\) \{\s*case 0 :\s*// x direction\s*tbase', 'end': r'tbase = _currOffset\.x - _currOffset\.y;\s*break;\s*\}', 'end_inclusive': True,
   'pre':'static float ShiftCollider_tbase(const ShiftCollider *self, int i)\n{\n    float tbase = 0;\n', 'post':'\n    return tbase;\n}\n', 'self':['_currOffset']}@*/
/*@extract {'file':'src/Collider.cpp', 'kind':'range', 'scope': r'Position ShiftCollider::resolve\(GR_MAYBE_UNUSED Segment \*seg, bool &isCol, GR_MAYBE_UNUSED json \* const dbgout\)',
   'start': r'switch \(i\) \{\s*case 0 : testp', 'end': r'case 3 : testp[^\n]*\n\s*\}', 'end_inclusive': True,
   'pre':'static Position ShiftCollider_axis_to_shift(const ShiftCollider *self, int i, float bestPos)\n{\n    Position testp = mkpos(0, 0);\n', 'post':'\n    return testp;\n}\n',
   'subs':[[r'Position\(', 'mkpos(', 0]], 'self':['_currShift']}@*/
int nondet_int(void);
#define H(k) (0.5f * (float)(k))
void h_limits(void)
{
    ShiftCollider sc; BBox bb; SlantBox sb;
    int blx = nondet_int(), bly = nondet_int(), trx = nondet_int(), try_ = nondet_int(), ox = nondet_int(), oy = nondet_int(), sx = nondet_int(), sy = nondet_int(), kp = nondet_int(), axis = nondet_int();
#define R(v) ((v) >= -8 && (v) <= 8)
    __CPROVER_assume(R(blx) && R(bly) && R(trx) && R(try_) && R(ox) && R(oy) && R(sx) && R(sy) && kp >= -100 && kp <= 100 && axis == AXIS);
    /* _limit = limit - currOffset (first statement of initSlot, here given directly); the glyph's current shift lies inside it */
    sc._limit.bl.x = H(blx); sc._limit.bl.y = H(bly); sc._limit.tr.x = H(trx); sc._limit.tr.y = H(try_);
    Position shiftp = mkpos(H(sx), H(sy)), offp = mkpos(H(ox), H(oy));
    __CPROVER_assume(blx <= sx && sx <= trx && bly <= sy && sy <= try_);
    bb.xi = bb.yi = bb.xa = bb.ya = 0; sb.si = sb.di = sb.sa = sb.da = 0;
    ShiftCollider_initSlot_ranges(&sc, shiftp, offp, 1.0f, 1.0f, bb, sb);
    sc._currShift = shiftp; sc._currOffset = offp;
    /* any position the interval set of this axis can offer: mn <= p <= mx (clause 3: closest() returns a point of a free interval, all inside the bounds).
       On the diagonals p - tbase has the parity of the other diagonal coordinate of the current shift (both are sums of the same two half-integers). */
    float p = H(kp);
    __CPROVER_assume(g_mn[axis] <= p && p <= g_mx[axis]);
    if (axis == 2) __CPROVER_assume(((kp - ox - oy) - (sx - sy)) % 2 == 0);
    if (axis == 3) __CPROVER_assume(((kp - ox + oy) - (sx + sy)) % 2 == 0);
    float bestPos = p - ShiftCollider_tbase(&sc, axis);
    Position t = ShiftCollider_axis_to_shift(&sc, axis, bestPos);
    __CPROVER_assert(sc._limit.bl.x <= t.x && t.x <= sc._limit.tr.x, "the shift keeps the accumulated x offset inside the limit rectangle");
    __CPROVER_assert(sc._limit.bl.y <= t.y && t.y <= sc._limit.tr.y, "the shift keeps the accumulated y offset inside the limit rectangle");
    CANARY();
}
#endif

#ifdef REACH
typedef struct ShiftCollider { Rect _limit; Position _currShift, _currOffset; float _margin; } ShiftCollider;
typedef struct BBoxS { float xi, yi, xa, ya; } BBox; typedef struct SlantBoxS { float si, di, sa, da; } SlantBox;
#define ISQRT2 0.707106781f
typedef struct AxisOut { float vmin, vmax, omin, omax, otmin, otmax, cmin, cmax, torg, lmargin; } AxisOut;
/* the per-axis switch of ShiftCollider::mergeSlot ("Process main bounding octabox"), extracted as a range */
/*@extract {'file':'src/Collider.cpp', 'kind':'range', 'scope': r'bool ShiftCollider::mergeSlot\(Segment \*seg, Slot \*slot, const SlotCollision \*cslot, const Position &currShift,',
   'start': r'switch \(i\) \{\s*case 0 :\s*// x direction\s*vmin', 'end': r'default :\s*continue;\s*\}', 'end_inclusive': True,
   'pre':'static AxisOut ShiftCollider_mergeSlot_axis(const ShiftCollider *self, int i, const BBox bb, const BBox tbb, const SlantBox sb, const SlantBox tsb, float sx, float sy, float sd, float ss, float tx, float ty, float td, float ts)\n{\n    float vmin = 0, vmax = 0, omin = 0, omax = 0, otmin = 0, otmax = 0, cmin = 0, cmax = 0, torg = 0, lmargin = 0;\n',
   'post':'\n    AxisOut o; o.vmin = vmin; o.vmax = vmax; o.omin = omin; o.omax = omax; o.otmin = otmin; o.otmax = otmax; o.cmin = cmin; o.cmax = cmax; o.torg = torg; o.lmargin = lmargin; return o;\n}\n',
   'subs':[[r'\bmin\(', 'min_f(', 0], [r'\bmax\(', 'max_f(', 0], [r'continue;', 'break;', 0]],
   'self':['_limit','_currOffset','_currShift','_margin']}@*/
int nondet_int(void);
#define H(k) (0.5f * (float)(k))
#define R(v) ((v) >= -8 && (v) <= 8)
void h_reach(void)
{
    ShiftCollider sc; BBox bb, tbb; SlantBox sb, tsb;
    int blx = nondet_int(), bly = nondet_int(), trx = nondet_int(), try_ = nondet_int(), ox = nondet_int(), oy = nondet_int(), cx = nondet_int(), cy = nondet_int();
    int gx = nondet_int(), gy = nondet_int(), axis = nondet_int(), nsx = nondet_int(), nsy = nondet_int();
    int b[16];
    __CPROVER_assume(R(blx) && R(bly) && R(trx) && R(try_) && R(ox) && R(oy) && R(cx) && R(cy) && R(nsx) && R(nsy) && axis == AXIS);
    __CPROVER_assume(blx <= trx && bly <= try_);                                   /* a well-formed limit rectangle */
    for (int k = 0; k < 16; ++k) { b[k] = nondet_int(); __CPROVER_assume(R(b[k])); if (k < 8) b[k] = 0; }
    bb.xi = H(b[0]); bb.yi = H(b[1]); bb.xa = H(b[2]); bb.ya = H(b[3]); sb.si = H(b[4]); sb.di = H(b[5]); sb.sa = H(b[6]); sb.da = H(b[7]);
    tbb.xi = H(b[8]); tbb.yi = H(b[9]); tbb.xa = H(b[10]); tbb.ya = H(b[11]); tsb.si = H(b[12]); tsb.di = H(b[13]); tsb.sa = H(b[14]); tsb.da = H(b[15]);
    __CPROVER_assume(b[8] <= b[10] && b[9] <= b[11] && b[12] <= b[14] && b[13] <= b[15]);      /* the target's boxes are well-formed (min <= max) */
    sc._limit.bl.x = H(blx); sc._limit.bl.y = H(bly); sc._limit.tr.x = H(trx); sc._limit.tr.y = H(try_);
    sc._currOffset = mkpos(H(ox), H(oy)); sc._currShift = mkpos(H(cx), H(cy)); sc._margin = 1.0f;
    const float sx = H(nsx), sy = H(nsy), tx = sc._currOffset.x + sc._currShift.x, ty = sc._currOffset.y + sc._currShift.y;
    AxisOut o = ShiftCollider_mergeSlot_axis(&sc, axis, bb, tbb, sb, tsb, sx, sy, sx - sy, sx + sy, tx, ty, tx - ty, tx + ty);
    /* ghost: any shift (x,y) of the target inside its limit rectangle (_limit is relative to the current offset, see initSlot) */
    __CPROVER_assume(blx <= gx && gx <= trx && bly <= gy && gy <= try_);
    const float x = H(gx), y = H(gy);
    float c = axis == 0 ? x + sc._currOffset.x : axis == 1 ? y + sc._currOffset.y : axis == 2 ? (x + y) + (sc._currOffset.x + sc._currOffset.y) : (x - y) + (sc._currOffset.x - sc._currOffset.y);
    __CPROVER_assert(o.cmin <= c, "reach: a position the target can take inside its limit rectangle is not below cmin on this axis");
    __CPROVER_assert(c <= o.cmax, "reach: a position the target can take inside its limit rectangle is not above cmax on this axis");
    __CPROVER_assert(o.lmargin > 0, "the margin used by the reach test is positive");
    CANARY();
}
#endif
