/* C02 / C01 - the bytecode LOADER's buffer management (src/Code.cpp): Machine::Code::Code(...), decoder::load,
 * emit_opcode, analyse_opcode, set_ref / set_noref / set_changed, apply_analysis, Code::failure / release_buffers.
 * (The per-opcode stack-depth lemma of fetch_opcode / validate_opcode is unit c02_fetch_opcode in c02_decoder.c; here
 * fetch_opcode is put under a second contract - unit c02_code_fetch - that states what the LOADER LOOP needs: where the
 * parameters lie, which opcodes can be accepted for which code kind, what an accepted NEXT / CNTXT_ITEM says.)
 *
 * What is decided, for arbitrary bytes [bytecode_begin, bytecode_end) in an exact-size buffer:
 *  1. every read of the bytecode stays inside it          (c02_code_fetch, c02_code_analyse, c02_code_emit, c02_code_load)
 *  2. every write of emit_opcode lands inside an instr area of n instrs / a data area of n bytes (separate exact-size
 *     objects), the constructor's block contains both areas, TEMP_COPY insertion, compaction and the terminating
 *     instruction stay inside the block                   (c02_code_emit, c02_code_load, c02_code_apply, c02_code_ctor_*)
 *  3. _contexts[] is never indexed outside [0, NUMCONTEXTS)   (c02_code_analyse, c02_code_apply: exact-size array object)
 *  4. failure paths release the buffer (freed when owned) and leave status != loaded; success: counts and pointers
 *     inside the (re)allocated block                      (c02_code_failure, c02_code_ctor_constraint / _action, leak check)
 * Composition: fetch/analyse/emit contracts -> loop contract of load (unbounded) -> constructor (load as a model with a
 * body that mirrors its contract clause by clause and fails through the real failure(); apply_analysis by contract).
 * Call-site facts used as preconditions (src/Pass.cpp): readRules refuses rules with sort > 63 or preContext >= sort
 * (line 232) and checks estimateCodeDataOut(ac+rc bytes, 2, sort) against the pool before building the pair (line 240);
 * readPass builds the pass constraint with _out == 0, is_constraint == true and an unchecked 16-bit rule_length (line 171).
 * Counting facts carried through the contracts: emitted <= consumed (per area), 3 instrs + 2 data bytes <= 3 bytecode
 * bytes, action code: instrs + data == bytecode bytes, a context that is changed and referenced implies >= 2 data bytes.
 * NOT decided: the debug assert `_instr_count <= n` after TEMP_COPY insertion for action code (see c02_code_ctor_action).
 */
#include "types.h"
#ifndef BCMAX
#define BCMAX 300          /* harness bound on the bytecode / area sizes (the contracts are size-agnostic) */
#endif

/*@unit {'name':'c02_code_fetch', 'props':['C02','C01'], 'backend':'cadical', 'entry':'h_fetch', 'enforce':'decoder_fetch_opcode', 'replace':['decoder_failure'], 'object_bits':11, 'min_loops':1, 'cost':60,
  'claims':'fetch_opcode (with validate_opcode, valid_upto, test_ref, test_context, Code::failure, release_buffers extracted): an accepted opcode is a table row implemented for this code kind whose parameter bytes lie strictly inside [bc, _max.bytecode); NEXT/COPY_NEXT is accepted only while _slotref <= rule_length; CNTXT_ITEM only when its skip stays inside the bytecode, not nested, and its slot lies in [0, rule_length); a refused opcode leaves the code object failed (status != loaded, buffers released); no cursor of the output buffers moves'}@*/

/*@unit {'name':'c02_code_failure', 'props':['C02','C01'], 'backend':'cadical', 'entry':'h_failure', 'enforce':'decoder_failure',
  'claims':'decoder::failure -> Code::failure -> release_buffers (all extracted, real free): status = s, _code = _data = 0, _own = false, operator bool false; the code buffer is freed exactly when the object owned it (pool programs are never freed)'}@*/
/*@unit {'name':'c02_code_analyse', 'props':['C02','C01'], 'backend':'cadical', 'entry':'h_analyse', 'enforce':'decoder_analyse_opcode',
  'claims':'analyse_opcode with set_ref/set_noref/set_changed and the context constructor: for every opcode fetch_opcode can accept, every access _contexts[...] hits the exact-size NUMCONTEXTS array (NEXT: 0 <= _slotref + 1 < NUMCONTEXTS because rule_length <= NUMCONTEXTS - 2 for action code and NEXT has no constraint implementation), argument bytes read are parameter bytes of the opcode, _slotref stays in its range, constraint code is never marked modifying/deleting'}@*/
/*@unit {'name':'c02_code_emit', 'props':['C02','C01'], 'backend':'cadical', 'defines':['BCMAX=24'], 'timeout':900, 'entry':'h_emit', 'enforce':'decoder_emit_opcode', 'replace':['decoder_load','decoder_failure'], 'object_bits':11,
  'claims':'emit_opcode (nested load of a CNTXT_ITEM replaced by the contract of load): the instruction is stored at _code[_instr_count] and the parameter bytes at _data[_data_size ..) inside exact-size instr / data areas provided there is room for one instruction and one data byte per remaining bytecode byte; parameter bytes are read inside the bytecode; counters and cursors advance together; emitted <= consumed'}@*/
/*@unit {'name':'c02_code_load', 'props':['C02','C01'], 'backend':'cadical', 'defines':['BCMAX=24','USE_FETCH_MODEL'], 'timeout':900, 'entry':'h_load', 'enforce':'decoder_load', 'replace':['decoder_analyse_opcode','decoder_emit_opcode','decoder_failure'], 'min_loops':1, 'object_bits':11,
  'claims':'decoder::load, loop contract over the decode loop (unbounded): the read cursor stays in [bc, bc_end], at most one instruction and one data byte are emitted per consumed bytecode byte (so n instrs + n bytes bound everything the loop emits), also 3 instrs + 2 data bytes per 3 consumed bytes, action code: instrs + data bytes == consumed bytes, a context flagged changed and referenced implies >= 2 data bytes, codeRef of every context <= _instr_count; the preconditions of fetch/analyse/emit hold at every iteration, false is returned exactly when the code object failed; fetch_opcode enters as a function that mirrors its contract (c02_code_fetch) clause by clause, analyse/emit by contract'}@*/
/*@unit {'name':'c02_code_apply', 'props':['C02','C01'], 'entry':'h_apply', 'enforce':'decoder_apply_analysis', 'backend':'cadical', 'min_loops':1, 'defines':['BCMAX=48','MODEL_MEM'], 'unwindset':['h_apply.0:258','h_apply.1:258'],
  'claims':'apply_analysis, loop contract over the context loop (unbounded in _slotref): every TEMP_COPY insertion (memmove of the tail by one instr + store) stays inside the instr area provided it has room for _instr_count + max(_slotref, 0) instrs; at most one insertion per context below _slotref; constraint code is left alone; the new _instr_count is the old one plus the number of insertions'}@*/
/*@unit {'name':'c02_code_ctor_constraint', 'props':['C02','C01'], 'entry':'h_ctor', 'replace':['decoder_apply_analysis'], 'backend':'cadical', 'checks':['--memory-leak-check'],
  'defines':['BCMAX=40','CTOR_WIRING','MODEL_MEM','USE_LOAD_MODEL','IS_CONSTRAINT=1'], 'unwindset':['decoder_ctor.0:258'], 'object_bits':11, 'timeout':900,
  'claims':'the constructor Machine::Code::Code for constraint code (is_constraint = true), any bytecode length (harness bound 40), load and apply_analysis replaced by their contracts: own allocation (_out = 0, pass constraint) or a pool holding estimateCodeDataOut(n,1,0) bytes: the block is large enough for the instr/data areas load needs, is_return reads a stored instruction, compaction memmove, realloc / *_out advance and the terminating RET_ZERO stay inside the block, the source asserts hold (_instr_count <= n, _data_size <= n, immutable), every failure path (allocation failure, load failure, missing return, realloc failure) leaves status != loaded with the buffers released and the owned block freed (leak check), the empty program releases its block, success leaves counts within the (re)allocated block'}@*/
/*@unit {'name':'c02_code_ctor_action', 'props':['C02','C01'], 'entry':'h_ctor', 'replace':['decoder_apply_analysis'], 'backend':'cadical', 'checks':['--memory-leak-check'],
  'defines':['BCMAX=40','CTOR_WIRING','MODEL_MEM','USE_LOAD_MODEL','IS_CONSTRAINT=0','NO_SRC_ASSERT'], 'unwindset':['decoder_ctor.0:258'], 'object_bits':11, 'timeout':900,
  'claims':'the constructor for action code written into the rule pool (_out != 0), pool room = estimateCodeDataOut(ac + rc, 2, sort) as checked by Pass::readRules, sort <= 63, preContext < sort, load as a model of its contract, apply_analysis by contract: all writes (TEMP_COPY insertion for up to _slotref <= sort + 1 contexts, compaction, terminator) stay inside the pool; *_out advances by the compacted size and by at most the share estimateCodeDataOut(ac, 1, sort) (uses: instrs + data bytes == bytecode bytes for action code, a TEMP_COPY implies >= 2 data bytes), so the constraint built next still has estimateCodeDataOut(rc, 1, 0) bytes - the precondition of c02_code_ctor_constraint; failure paths release without freeing the pool.  The debug assert _instr_count <= n after TEMP_COPY insertion is NOT shown (asserts are compiled out in this unit): it needs temps <= data bytes, a count over all contexts'}@*/

/* ---- types from Machine.h / Code.h (extracted) */
typedef struct Slot Slot;
typedef void * instr;
/*@extract {'file':'src/inc/Machine.h', 'kind':'range', 'start': r'enum \{VARARGS', 'end': r';', 'end_inclusive': True}@*/
/*@extract {'file':'src/inc/Machine.h', 'kind':'range', 'start': r'enum opcode \{', 'end': r'\};', 'end_inclusive': True, 'pre':'typedef ', 'subs':[[r'\};', '} opcode;', 0]]}@*/
/*@extract {'file':'src/inc/Machine.h', 'kind':'range', 'start': r'struct opcode_t\s*\{', 'end': r'\};', 'end_inclusive': True, 'pre':'typedef ', 'subs':[[r'\};', '} opcode_t;', 0]]}@*/
/*@extract {'file':'src/inc/Code.h', 'kind':'range', 'start': r'enum passtype \{', 'end': r'\};', 'end_inclusive': True}@*/
/*@extract {'file':'src/inc/Code.h', 'kind':'range', 'scope': r'class Machine::Code\s*\{', 'start': r'enum status_t\s*\{', 'end': r'\};', 'end_inclusive': True, 'pre':'typedef ', 'subs':[[r'\};', '} code_status_t;', 0]]}@*/
/*@extract {'file':'include/graphite2/Segment.h', 'kind':'range', 'start': r'enum gr_attrCode \{', 'end': r'\};', 'end_inclusive': True}@*/
/*@extract {'file':'src/inc/GlyphFace.h', 'kind':'range', 'start': r'enum metrics \{', 'end': r'\};', 'end_inclusive': True}@*/
typedef enum gr_attrCode attrCode;
#define attrCode(x) ((attrCode)(x))
#define opcode(x) ((opcode)(x))
#define status_t code_status_t

/* the real opcode table.  Every implementation name gets one address (do2(n) puts the same one in both columns, as the
   label / function addresses of the interpreters do), so is_return() and the NILOP tests mean what they mean in C++. */
/*@extract {'file':'src/inc/opcode_table.h', 'kind':'range', 'start': r'static const opcode_t opcode_table\[\] =', 'end': r'\};',
   'subs':[[r'static const opcode_t opcode_table\[\] =\s*\{', '', 0], [r'\{\{\s*([^{}]*?)\s*\}\s*,\s*\w+\s*,\s*"\w+"\s*\}\s*,?', r'\1 ;', 0], [r'\bNILOP\b', '', 0], [r',', '', 0],
           [r'do[2_]\((\w+)\)', r'extern char opimpl_\1;', 0]]}@*/
#define do_(name) ((instr)&opimpl_##name)
#include "inc/opcode_table.h"
#define PSZ_OF(k, nextbyte) (opcode_table[k].param_sz == VARARGS ? (size_t)(nextbyte) + 1 : (size_t)opcode_table[k].param_sz)

/* ---- class Machine::Code (data members copied from Code.h) */
typedef struct Code {
/*@extract {'kind':'members', 'file':'src/inc/Code.h', 'scope': r'class Machine::Code\s*\{', 'names':['_code','_data','_data_size','_instr_count','_max_ref','_status','_constraint','_modify','_delete','_own'],
   'subs':[[r'^mutable ', '', 0]]}@*/
} Code;
/* ---- struct context, class decoder, struct limits (Code.cpp) */
/*@extract {'file':'src/Code.cpp', 'kind':'range', 'start': r'struct context\s*\{', 'end': r'\};', 'end_inclusive': True, 'pre':'typedef ',
   'subs':[[r'context\(uint8 ref=0\)[^\n]*\n', '\n', 0], [r'\};', '} context;', 0]]}@*/
/*@extract {'file':'src/Code.cpp', 'kind':'range', 'scope': r'class Machine::Code::decoder\s*\{', 'start': r'static const int NUMCONTEXTS', 'end': r';', 'end_inclusive': True,
   'subs':[[r'static const int NUMCONTEXTS = (\d+);', r'enum { NUMCONTEXTS = \1 };', 0]]}@*/
typedef struct limits {
/*@extract {'kind':'members', 'file':'src/Code.cpp', 'scope': r'struct Machine::Code::decoder::limits\s*\{', 'names':['bytecode','pre_context','rule_length','classes','glyf_attrs','features','attrid'],
   'subs':[[r'^const uint8 ', 'uint8 ', 0], [r'^const uint16 ', 'uint16 ', 0], [r'^const byte attrid', 'byte attrid', 0]]}@*/
} limits;
/* _contexts is given its own exact-size object (NUMCONTEXTS elements) so that an index outside the array is a failing
   pointer obligation instead of a silent hit on a neighbouring member */
typedef struct decoder {
/*@extract {'kind':'members', 'file':'src/Code.cpp', 'scope': r'class Machine::Code::decoder\s*\{', 'names':['_code','_out_index','_out_length','_instr','_data','_max','_passtype','_stack_depth','_in_ctxt_item','_slotref','_contexts','_max_ref'],
   'subs':[[r'Code & _code', 'Code * _code_', 0], [r'limits & _max', 'limits * _max_', 0], [r'context _contexts\[NUMCONTEXTS\]', 'context * _contexts', 0]]}@*/
} decoder;

#define OLD(e) __CPROVER_old(e)
/* ---- ghost */
decoder *g_dec; Code *g_cod; limits *g_lim; context *g_ctx;
const byte *g_bcbuf; size_t g_bcn;      /* the bytecode buffer, exactly g_bcn bytes */
instr *g_code; size_t g_cap_i;          /* instr area: exactly g_cap_i instrs (its own object in the emit/load units) */
size_t g_cap_a;                         /* instrs available from g_code for TEMP_COPY insertion (apply_analysis) */
byte *g_data;  size_t g_cap_d;          /* data area:  exactly g_cap_d bytes */
size_t g_k;                             /* ghost index: an arbitrary, fixed context */
size_t g_j, g_j2;                       /* ghost indices: two arbitrary, fixed bytes of the data area (a caller instantiates g_j2, g_j stays arbitrary) */
#define KEPT(j)   (!((j) < OLD(DS) && (j) < g_cap_d) || g_data[j] == OLD(g_data[(j) < g_cap_d ? (j) : 0]))
bool g_own0;

/* the decoder state the loader loop maintains (all over the ghost objects, never over havocked pointers) */
#define IC        (g_cod->_instr_count)
#define DS        (g_cod->_data_size)
#define END       OFF(g_lim->bytecode)                  /* _max.bytecode: end of the (possibly nested) code being loaded */
#define WIRED(d)  ((d) == g_dec && g_dec->_code_ == g_cod && g_dec->_max_ == g_lim && g_dec->_contexts == g_ctx && g_cod->_code == g_code && g_cod->_data == g_data)
#define ENDOK     (SAME(g_lim->bytecode, g_bcbuf) && END <= g_bcn)
/* operator bool as an expression (loop invariants must be free of calls); the return statements use the extracted operator */
#define CODE_GOOD (g_cod->_code != (instr *)0 && g_cod->_status == loaded)
/* fill levels within the areas (stated on their own: size_t sums wrap) */
#define FITS      (IC <= g_cap_i && DS <= g_cap_d && g_cap_i <= 70000 && g_cap_d <= 70000)
#define CURSORS   (g_dec->_instr == g_code + IC && g_dec->_data == g_data + DS)
/* _slotref: action code walks 0 .. rule_length + 1 (NEXT is refused beyond rule_length; INSERT may take it to -1);
   constraint code only ever holds the int8 slot of a CNTXT_ITEM.  rule_length <= NUMCONTEXTS - 2 for action code is a
   call-site fact (Pass::readRules refuses sort > 63). */
#define SR_INV    (g_cod->_constraint ? (g_dec->_slotref >= -128 && g_dec->_slotref <= 127) \
                                      : (g_lim->rule_length <= NUMCONTEXTS - 2 && g_dec->_slotref >= -1 && g_dec->_slotref <= g_lim->rule_length + 1))
#define OI_INV    (g_dec->_out_index >= -200 && g_dec->_out_index <= 65535)
/* constraint code outside a context item sits at slot 0 of a 1-slot output (the `assert(_out_index == 0)` of emit_opcode) */
#define IDLE_INV  (!(g_cod->_constraint && !g_dec->_in_ctxt_item) || (g_dec->_out_index == 0 && g_dec->_out_length == 1 && g_dec->_slotref == 0))
#define SD_INV(n) ((long)g_dec->_stack_depth >= -2 * (long)(n) && (long)g_dec->_stack_depth <= (long)(n))
/* every context was last re-initialised by a NEXT that is (about to be) emitted: codeRef <= number of instructions */
#define CRK(n)    (g_k >= NUMCONTEXTS || g_ctx[g_k].codeRef <= (n))
/* a context flag is only ever set by an opcode that has parameter bytes: a flagged context means >= 1 data byte, a context
   that is both changed and referenced (the ones that get a TEMP_COPY) >= 2 (d = data bytes emitted or about to be) */
#define CHK(d)    (g_k >= NUMCONTEXTS || ((!(g_ctx[g_k].flags.changed || g_ctx[g_k].flags.referenced) || (d) >= 1) && (!(g_ctx[g_k].flags.changed && g_ctx[g_k].flags.referenced) || (d) >= 2)))

/* ---- Code::operator bool, Code::failure, release_buffers, decoder::failure (extracted) */
/*@extract {'file':'src/inc/Code.h', 'sig': r'operator bool \(\) const throw\(\)', 'scope': r'class Machine::Code\s*\{', 'emit':'static bool Code_ok(const Code *self)',
   'subs':[[r'status\(\)', 'self->_status', 0]], 'self':['_code']}@*/
/*@extract {'file':'src/Code.cpp', 'sig': r'void Machine::Code::release_buffers\(\) throw\(\)', 'emit':'void Code_release_buffers(Code *self)', 'self':['_own','_code','_data']}@*/
/*@extract {'file':'src/Code.cpp', 'sig': r'void Machine::Code::failure\(const status_t s\) throw\(\)', 'emit':'void Code_failure(Code *self, const status_t s)',
   'subs':[[r'release_buffers\(\)', 'Code_release_buffers(self)', 0]], 'self':['_status']}@*/
/* decoder::failure under two contracts.
   FAILR (unit c02_code_failure, real Code::failure / release_buffers / free): status = s, buffers released, freed when owned.
   FAILC (units that `replace` it): the projection of FAILR on _status.  CBMC needs minutes / runs out of memory when the
   47 failure sites of fetch_opcode each write four fields or call free(); Code::operator bool has the same value under
   both (status != loaded makes it false), and nothing in fetch/emit/load reads _code/_data/_own of the Code object
   otherwise (they are in no assigns clause of these units, so CBMC checks that only failure() writes them). */
void decoder_failure(const decoder *self, const status_t s)
#ifdef UNIT_c02_code_failure
__CPROVER_requires(self == g_dec && self->_code_ == g_cod && s != loaded && (!g_cod->_own || g_cod->_code == g_code))
__CPROVER_assigns(g_cod->_code, g_cod->_data, g_cod->_own, g_cod->_status)
__CPROVER_frees(g_code)
__CPROVER_ensures(g_cod->_status == s && g_cod->_code == (instr *)0 && g_cod->_data == (byte *)0 && g_cod->_own == false && !Code_ok(g_cod))
__CPROVER_ensures(g_own0 ==> __CPROVER_was_freed(g_code))
__CPROVER_ensures(!g_own0 ==> !__CPROVER_was_freed(g_code));
#else
__CPROVER_requires(self == g_dec && s != loaded)
__CPROVER_assigns(g_cod->_status)
__CPROVER_ensures(g_cod->_status == s);
#endif
/*@extract {'file':'src/Code.cpp', 'sig': r'void\s+failure\(const status_t s\) const throw\(\)', 'scope': r'class Machine::Code::decoder\s*\{', 'emit':'void decoder_failure(const decoder *self, const status_t s)',
   'subs':[[r'_code\.failure\(', 'Code_failure(self->_code_, ', 0]]}@*/
#define CODE_OK(c) Code_ok(c)

/* ---- the argument tests of the decoder (extracted) */
/*@extract {'file':'src/Code.cpp', 'sig': r'bool Machine::Code::decoder::valid_upto\(const uint16 limit, const uint16 x\) const throw\(\)', 'emit':'static bool decoder_valid_upto(const decoder *self, const uint16 limit, const uint16 x)',
   'subs':[[r'failure\(', 'decoder_failure(self, ', 0]]}@*/
/*@extract {'file':'src/Code.cpp', 'sig': r'bool Machine::Code::decoder::test_ref\(int8 index\) const throw\(\)', 'emit':'static bool decoder_test_ref(const decoder *self, int8 index)',
   'subs':[[r'failure\(', 'decoder_failure(self, ', 0], [r'_code\._constraint', 'self->_code_->_constraint', 0], [r'_max\.', 'self->_max_->', 0]], 'self':['_in_ctxt_item','_slotref']}@*/
/*@extract {'file':'src/Code.cpp', 'sig': r'bool Machine::Code::decoder::test_context\(\) const throw\(\)', 'emit':'static bool decoder_test_context(const decoder *self)',
   'subs':[[r'failure\(', 'decoder_failure(self, ', 0]], 'self':['_out_index','_out_length','_slotref']}@*/
/*@extract {'file':'src/Code.cpp', 'sig': r'bool Machine::Code::decoder::test_attr\(attrCode\) const throw\(\)', 'emit':'static bool decoder_test_attr(const decoder *self, attrCode attr)',
   'subs':[[r'failure\(', 'decoder_failure(self, ', 0]]}@*/


/* ================================================================== fetch_opcode: what the loader loop needs */
#define IS_NEXT(k) ((k) == NEXT || (k) == COPY_NEXT)
#define IMPL(k)    (opcode_table[k].impl[g_cod->_constraint])
/* The clauses are macros over (self, bc, r = returned opcode, sd0/oi0/ol0 = values on entry) so that the contract below
   (proved in c02_code_fetch) and fetch_model() (used where a `replace` inside unwound loops is too costly) are the same text. */
#define FQ1(self, bc)  (WIRED(self) && ENDOK && SAME(bc, g_bcbuf) && OFF(bc) < END)                     /* load: bc < bc_end */
#define FQ2(self, bc)  (CODE_GOOD && OI_INV && (self)->_stack_depth >= -200000 && (self)->_stack_depth <= 200000)
/* F1 accepted ==> a table row that has an implementation for this code kind; the code object is still good */
#define F1(self, bc, r) ((r) == MAX_OPCODE || ((r) == (bc)[0] && (bc)[0] < MAX_OPCODE && IMPL((bc)[0]) != (instr)0 && CODE_GOOD))
/* F2 refused ==> failure() was called: status != loaded (FAILR: buffers released) */
#define F2(self, bc, r) ((r) != MAX_OPCODE || g_cod->_status != loaded)
/* F3 accepted ==> the last parameter byte lies before the end: opcode position + param_sz < end */
#define F3a(self, bc, r) (!((r) != MAX_OPCODE && opcode_table[(bc)[0]].param_sz == VARARGS) || OFF(bc) + 1 < END)
#define F3(self, bc, r) ((r) == MAX_OPCODE || OFF(bc) + PSZ_OF((bc)[0], (bc)[1]) < END)
/* F4 an accepted NEXT / COPY_NEXT: the slot reference has not passed the rule length */
#define F4(self, bc, r) (!((r) != MAX_OPCODE && IS_NEXT((bc)[0])) || (self)->_slotref <= g_lim->rule_length)
/* F5 an accepted CNTXT_ITEM: skipped range inside the bytecode, not nested, slot below the rule length (as a 16-bit
   value: with rule_length > 65408 - only the pass constraint can have that - a negative slot passes valid_upto) */
#define F5(self, bc, r) ((r) != CNTXT_ITEM || (OFF(bc) + 3 + (bc)[2] < END && !(self)->_in_ctxt_item && (uint16)(g_lim->pre_context + (int8)(bc)[1]) < g_lim->rule_length))
/* F6 the analysed depth moves by -2..+1, the output index stays a 17-bit quantity */
#define F6(self, bc, r, sd0) ((self)->_stack_depth >= (sd0) - 2 && (self)->_stack_depth <= (sd0) + 1 && ((r) == MAX_OPCODE || OI_INV))
/* F7 constraint code never moves the output cursor (NEXT / INSERT / DELETE have no constraint implementation) */
#define F7(self, bc, r, oi0, ol0) (!((r) != MAX_OPCODE && g_cod->_constraint) || ((self)->_out_index == (oi0) && (self)->_out_length == (ol0)))
opcode decoder_fetch_opcode(decoder *self, const byte *bc)
__CPROVER_requires(FQ1(self, bc))
__CPROVER_requires(FQ2(self, bc))
__CPROVER_assigns(self->_stack_depth, self->_out_index, self->_out_length, g_cod->_status)
__CPROVER_ensures(F1(self, bc, __CPROVER_return_value))
__CPROVER_ensures(F2(self, bc, __CPROVER_return_value))
__CPROVER_ensures(F3a(self, bc, __CPROVER_return_value))
__CPROVER_ensures(F3(self, bc, __CPROVER_return_value))
__CPROVER_ensures(F4(self, bc, __CPROVER_return_value))
__CPROVER_ensures(F5(self, bc, __CPROVER_return_value))
__CPROVER_ensures(F6(self, bc, __CPROVER_return_value, OLD(self->_stack_depth)))
__CPROVER_ensures(F7(self, bc, __CPROVER_return_value, OLD(self->_out_index), OLD(self->_out_length)));
/* the same contract as a function with a body.  A refusal goes through the real (extracted) decoder::failure: in
   c02_code_fetch the status field is writable by failure() only, so "status != loaded" (F2) means failure() ran. */
int nondet_int(void); unsigned short nondet_ushort(void); bool nondet_bool(void);
static opcode fetch_model(decoder *self, const byte *bc)
{
    __CPROVER_assert(FQ1(self, bc), "fetch_opcode (model of the contract proved in c02_code_fetch): precondition 1");
    __CPROVER_assert(FQ2(self, bc), "fetch_opcode (model of the contract proved in c02_code_fetch): precondition 2");
    const int sd0 = self->_stack_depth, oi0 = self->_out_index; const uint16 ol0 = self->_out_length;
    self->_stack_depth = nondet_int(); self->_out_index = nondet_int(); self->_out_length = nondet_ushort();
    opcode r = (opcode)bc[0];
    if (nondet_bool()) { code_status_t s; __CPROVER_assume(s > loaded && s <= underfull_stack); decoder_failure(self, s); r = MAX_OPCODE; }
    __CPROVER_assume(F1(self, bc, r)); __CPROVER_assume(F2(self, bc, r)); __CPROVER_assume(F3a(self, bc, r)); __CPROVER_assume(F3(self, bc, r));
    __CPROVER_assume(F4(self, bc, r)); __CPROVER_assume(F5(self, bc, r)); __CPROVER_assume(F6(self, bc, r, sd0)); __CPROVER_assume(F7(self, bc, r, oi0, ol0));
    return r;
}
#ifdef USE_FETCH_MODEL
#define FETCH fetch_model
#else
#define FETCH decoder_fetch_opcode
#endif

bool decoder_validate_opcode(decoder *self, const byte opc, const byte *const bc);
/*@extract {'file':'src/Code.cpp', 'sig': r'bool Machine::Code::decoder::validate_opcode\(const byte opc, const byte \* const bc\)',
   'emit':'bool decoder_validate_opcode(decoder *self, const byte opc, const byte *const bc)',
   'subs':[[r'failure\(', 'decoder_failure(self, ', 0], [r'const opcode_t & op = Machine::getOpcodeTable\(\)\[opc\];', 'const opcode_t * op_ = &opcode_table[opc];', 0],
           [r'\bop\.', 'op_->', 0], [r'_code\._constraint', 'self->_code_->_constraint', 0], [r'_max\.', 'self->_max_->', 0]]}@*/
/*@extract {'file':'src/Code.cpp', 'sig': r'opcode Machine::Code::decoder::fetch_opcode\(const byte \* bc\)',
   'emit':'opcode decoder_fetch_opcode(decoder *self, const byte *bc)',
   'subs':[[r'validate_opcode\(', 'decoder_validate_opcode(self, ', 0], [r'failure\(', 'decoder_failure(self, ', 0],
           [r'valid_upto\(', 'decoder_valid_upto(self, ', 0], [r'test_ref\(', 'decoder_test_ref(self, ', 0],
           [r'test_context\(\)', 'decoder_test_context(self)', 0], [r'test_attr\(', 'decoder_test_attr(self, ', 0],
           [r'bool\(_code\)', 'CODE_OK(self->_code_)', 0], [r'_max\.', 'self->_max_->', 0]],
   'self':['_stack_depth','_out_index','_out_length','_passtype','_in_ctxt_item','_slotref'],
   'loops':{1: """__CPROVER_assigns(num, g_cod->_status)
                  __CPROVER_loop_invariant(num <= bc[0])
                  __CPROVER_decreases(num)"""} }@*/

/* ================================================================== analyse_opcode, set_ref / set_noref / set_changed */
/* context(uint8 ref = 0): the constructor of struct context */
/*@extract {'file':'src/Code.cpp', 'sig': r'context\(uint8 ref=0\)', 'scope': r'struct context\s*\{', 'ctor': True, 'emit':'static void context_init(context *self, uint8 ref)', 'self':['codeRef','flags']}@*/
static context context_ctor(uint8 ref) { context c; context_init(&c, ref); return c; }
/*@extract {'file':'src/Code.cpp', 'sig': r'void Machine::Code::decoder::set_ref\(int index\) throw\(\)', 'emit':'static void decoder_set_ref(decoder *self, int index)', 'self':['_slotref','_contexts','_max_ref']}@*/
/*@extract {'file':'src/Code.cpp', 'sig': r'void Machine::Code::decoder::set_noref\(int index\) throw\(\)', 'emit':'static void decoder_set_noref(decoder *self, int index)', 'self':['_slotref','_contexts','_max_ref']}@*/
/*@extract {'file':'src/Code.cpp', 'sig': r'void Machine::Code::decoder::set_changed\(int index\) throw\(\)', 'emit':'static void decoder_set_changed(decoder *self, int index)', 'self':['_slotref','_contexts','_max_ref']}@*/

void decoder_analyse_opcode(decoder *self, const opcode opc, const int8 *arg)
/* call site (load): opc was accepted by fetch_opcode at arg - 1 (F1, F3, F4) */
__CPROVER_requires(WIRED(self) && ENDOK && SAME(arg, g_bcbuf) && OFF(arg) >= 1 && OFF(arg) <= END)
__CPROVER_requires(opc == ((const byte *)arg)[-1] && opc < MAX_OPCODE && IMPL(opc) != (instr)0)
__CPROVER_requires((opcode_table[opc].param_sz != VARARGS || OFF(arg) < END) && OFF(arg) - 1 + PSZ_OF(opc, ((const byte *)arg)[0]) < END)
__CPROVER_requires(!IS_NEXT(opc) || self->_slotref <= g_lim->rule_length)
__CPROVER_requires(SR_INV && FITS && CRK(IC) && CHK(DS))
__CPROVER_assigns(self->_slotref, self->_max_ref, __CPROVER_object_whole(g_ctx), g_cod->_modify, g_cod->_delete)
__CPROVER_ensures(SR_INV && CRK(IC + 1))
__CPROVER_ensures(CHK(DS + PSZ_OF(opc, ((const byte *)arg)[0])))
/* constraint code is never marked as modifying or deleting (the constructor's assert(immutable())) */
__CPROVER_ensures(g_cod->_constraint ==> (g_cod->_modify == __CPROVER_old(g_cod->_modify) && g_cod->_delete == __CPROVER_old(g_cod->_delete) && self->_slotref == __CPROVER_old(self->_slotref)));
/*@extract {'file':'src/Code.cpp', 'sig': r'void Machine::Code::decoder::analyse_opcode\(const opcode opc, const int8  \* arg\) throw\(\)',
   'emit':'void decoder_analyse_opcode(decoder *self, const opcode opc, const int8 *arg)',
   'subs':[[r'_code\._', 'self->_code_->_', 0], [r'(?<!\w)set_changed\(', 'decoder_set_changed(self, ', 0], [r'(?<!\w)set_noref\(', 'decoder_set_noref(self, ', 0], [r'(?<!\w)set_ref\(', 'decoder_set_ref(self, ', 0],
           [r'= context\(', '= context_ctor(', 0]],
   'self':['_slotref','_contexts']}@*/

/* memmove: the C library model of CBMC, or (MODEL_MEM: units with symbolic sizes - a symbolic-size copy inside a loop
   contract or on a symbolic-size block exhausts CBMC's memory) a model that checks both regions and havocs the destination object -
   the instr / data contents play no role in the safety of the loader. */
#ifdef MODEL_MEM
static void *move_model(void *d, const void *s, size_t n)
{
    __CPROVER_assert(__CPROVER_r_ok(s, n), "memmove: source region readable");
    __CPROVER_assert(__CPROVER_w_ok(d, n), "memmove: destination region writable");
    __CPROVER_havoc_object(d);
    return d;
}
#define MEMMOVE move_model
#else
#define MEMMOVE memmove
#endif
#define MEMCPY memcpy          /* the parameter copy of emit_opcode: CBMC's library model */
/* ================================================================== emit_opcode */
bool decoder_load(decoder *self, const byte *bc, const byte *bc_end);
bool decoder_emit_opcode(decoder *self, opcode opc, const byte **bc)
/* call site (load): opc was accepted by fetch_opcode at *bc - 1 (F1, F3, F5) and analysed */
__CPROVER_requires(WIRED(self) && ENDOK && SAME(*bc, g_bcbuf) && OFF(*bc) >= 1 && OFF(*bc) <= END)
__CPROVER_requires(opc == (*bc)[-1] && opc < MAX_OPCODE && (opcode_table[opc].param_sz != VARARGS || OFF(*bc) < END) && OFF(*bc) - 1 + PSZ_OF(opc, (*bc)[0]) < END)
__CPROVER_requires(opc != CNTXT_ITEM || (OFF(*bc) + 2 + (*bc)[1] < END && !self->_in_ctxt_item))
__CPROVER_requires(Code_ok(g_cod) && CURSORS)
/* room: one instruction / one data byte per remaining bytecode byte (counted from the opcode byte) */
__CPROVER_requires(FITS && IC + (END - (OFF(*bc) - 1)) <= g_cap_i && DS + (END - (OFF(*bc) - 1)) <= g_cap_d)
__CPROVER_requires(SR_INV && OI_INV && IDLE_INV && SD_INV(IC + 1) && CRK(IC + 1) && CHK(DS + PSZ_OF(opc, (*bc)[0])))
__CPROVER_assigns(*bc, self->_instr, self->_data, self->_out_index, self->_out_length, self->_in_ctxt_item, self->_slotref, self->_stack_depth, self->_max_ref,
                  __CPROVER_object_whole(g_ctx), g_cod->_instr_count, g_cod->_data_size, g_cod->_status, g_cod->_modify, g_cod->_delete, g_lim->bytecode,
                  __CPROVER_object_whole(g_code), __CPROVER_object_whole(g_data))
__CPROVER_ensures(__CPROVER_return_value == Code_ok(g_cod))
/* E1 the read cursor moves forward inside the bytecode; what was emitted is bounded by what was consumed */
__CPROVER_ensures(__CPROVER_return_value ==> (SAME(*bc, g_bcbuf) && OFF(*bc) >= OFF(OLD(*bc)) && OFF(*bc) <= END && g_lim->bytecode == OLD(g_lim->bytecode)))
__CPROVER_ensures(__CPROVER_return_value ==> (IC >= OLD(IC) + 1 && IC - OLD(IC) <= OFF(*bc) - (OFF(OLD(*bc)) - 1) && DS >= OLD(DS) && DS - OLD(DS) <= OFF(*bc) - (OFF(OLD(*bc)) - 1)
                  && 3 * (IC - OLD(IC)) + 2 * (DS - OLD(DS)) <= 3 * (OFF(*bc) - (OFF(OLD(*bc)) - 1)) && self->_in_ctxt_item == OLD(self->_in_ctxt_item)))
/* E2 the write cursors stay the counted positions; the loop state is re-established */
__CPROVER_ensures(__CPROVER_return_value ==> (CURSORS && SR_INV && OI_INV && IDLE_INV && SD_INV(IC) && CRK(IC) && CHK(DS)))
/* action code (no CNTXT_ITEM): exactly one instr + p data bytes for 1 + p bytecode bytes */
__CPROVER_ensures(__CPROVER_return_value && !g_cod->_constraint ==> (IC - OLD(IC)) + (DS - OLD(DS)) == OFF(*bc) - (OFF(OLD(*bc)) - 1))
__CPROVER_ensures(g_cod->_constraint ==> (g_cod->_modify == OLD(g_cod->_modify) && g_cod->_delete == OLD(g_cod->_delete)))
__CPROVER_ensures(__CPROVER_return_value && !g_cod->_constraint ==> self->_slotref == OLD(self->_slotref))
/* E3 data bytes already emitted are not touched (ghost index g_j: the frame is the whole area, havocking a symbolic slice is too costly) */
__CPROVER_ensures(KEPT(g_j) && KEPT(g_j2));
#ifdef NO_SRC_ASSERT
#define assert(x) ((void)0)
#else
#define assert(x) __CPROVER_assert(x, "assert() in the source")
#endif
/*@extract {'file':'src/Code.cpp', 'sig': r'bool Machine::Code::decoder::emit_opcode\(opcode opc, const byte \* & bc\)',
   'emit':'bool decoder_emit_opcode(decoder *self, opcode opc, const byte **bc)',
   'subs':[[r'Machine::getOpcodeTable\(\)', 'opcode_table', 0], [r'const opcode_t & op\s*= op_to_fn\[opc\];', 'const opcode_t * op_ = &op_to_fn[opc];', 0], [r'\bop\.', 'op_->', 0],
           [r'bool\(_code\)', 'CODE_OK(self->_code_)', 0], [r'_code\._', 'self->_code_->_', 0], [r'failure\(', 'decoder_failure(self, ', 0], [r'_max\.', 'self->_max_->', 0],
           [r'byte & instr_skip = _data\[-1\];', 'byte * const instr_skip_p = &_data[-1];', 0], [r'byte & data_skip\s*= \*_data\+\+;', 'byte * const data_skip_p = _data++;', 0],
           [r'\binstr_skip\b', '(*instr_skip_p)', 0], [r'\bdata_skip\b', '(*data_skip_p)', 0], [r'(?<!\w)load\(', 'decoder_load(self, ', 0], [r'(?<!\w)memcpy\(', 'MEMCPY(', 0]],
   'refs':['bc'], 'self':['_instr','_data','_out_index','_out_length','_in_ctxt_item','_slotref']}@*/

/* ================================================================== load */
/* clauses as macros (shared by the contract, proved in c02_code_load, and by load_model() of the constructor units);
   r = result, ic0/ds0 = counters on entry, m0/d0/x0 = _modify/_delete/_in_ctxt_item on entry, len = OFF(bc_end) - OFF(bc) */
#define LQ1(self, bc, bc_end) (WIRED(self) && SAME(bc, g_bcbuf) && SAME(bc_end, g_bcbuf) && OFF(bc) <= OFF(bc_end) && OFF(bc_end) <= g_bcn)
#define LQ2(self, bc, bc_end) (CODE_GOOD && CURSORS && IC < g_cap_i && DS < g_cap_d)
#define LQ3(self, bc, bc_end) (FITS && IC + (OFF(bc_end) - OFF(bc)) <= g_cap_i && DS + (OFF(bc_end) - OFF(bc)) <= g_cap_d)
#define LQ4(self, bc, bc_end) (SR_INV && OI_INV && IDLE_INV && SD_INV(IC) && CRK(IC) && CHK(DS))
/* L1 true <=> nothing failed; false ==> status != loaded */
#define L1(r)  ((r) == CODE_GOOD)
/* L2 at most one instruction and one data byte per bytecode byte of the range (and 3 instrs + 2 data bytes weigh at most
   3 bytecode bytes: a CNTXT_ITEM turns 3 bytes into 1 instr + 3 data bytes, everything else 1 + p into 1 + p) */
#define L2(r, ic0, ds0, len) (!(r) || (IC >= (ic0) && IC - (ic0) <= (len) && DS >= (ds0) && DS - (ds0) <= (len) && 3 * (IC - (ic0)) + 2 * (DS - (ds0)) <= 3 * (len)))
/* L4 cursors at the counted positions, loop state re-established, a nested load returns inside its context item */
#define L4(self, bc_end, r, x0) (!(r) || (CURSORS && g_lim->bytecode == (bc_end) && SR_INV && OI_INV && IDLE_INV && SD_INV(IC) && CRK(IC) && CHK(DS) && (self)->_in_ctxt_item == (x0)))
#define L5(m0, d0) (!g_cod->_constraint || (g_cod->_modify == (m0) && g_cod->_delete == (d0)))
/* L6 action code: instrs + data bytes == bytecode bytes */
#define L6(r, ic0, ds0, len) (!((r) && !g_cod->_constraint) || (IC - (ic0)) + (DS - (ds0)) == (len))
bool decoder_load(decoder *self, const byte *bc, const byte *bc_end)
__CPROVER_requires(LQ1(self, bc, bc_end))
__CPROVER_requires(LQ2(self, bc, bc_end))
__CPROVER_requires(LQ3(self, bc, bc_end))
__CPROVER_requires(LQ4(self, bc, bc_end))
__CPROVER_assigns(self->_instr, self->_data, self->_out_index, self->_out_length, self->_in_ctxt_item, self->_slotref, self->_stack_depth, self->_max_ref,
                  __CPROVER_object_whole(g_ctx), g_cod->_instr_count, g_cod->_data_size, g_cod->_status, g_cod->_modify, g_cod->_delete, g_lim->bytecode,
                  __CPROVER_object_whole(g_code), __CPROVER_object_whole(g_data))
__CPROVER_ensures(L1(__CPROVER_return_value))
__CPROVER_ensures(L2(__CPROVER_return_value, OLD(IC), OLD(DS), OFF(bc_end) - OFF(bc)))
__CPROVER_ensures(L4(self, bc_end, __CPROVER_return_value, OLD(self->_in_ctxt_item)))
__CPROVER_ensures(L5(OLD(g_cod->_modify), OLD(g_cod->_delete)))
__CPROVER_ensures(L6(__CPROVER_return_value, OLD(IC), OLD(DS), OFF(bc_end) - OFF(bc)))
/* L3 data bytes emitted before the call are not touched (ghost indices) */
__CPROVER_ensures(KEPT(g_j) && KEPT(g_j2));
/*@extract {'file':'src/Code.cpp', 'sig': r'bool Machine::Code::decoder::load\(const byte \* bc, const byte \* bc_end\)',
   'emit':'bool decoder_load(decoder *self, const byte *bc, const byte *bc_end)',
   'subs':[[r'_max\.', 'self->_max_->', 0], [r'fetch_opcode\(', 'FETCH(self, ', 0], [r'analyse_opcode\(', 'decoder_analyse_opcode(self, ', 0], [r'emit_opcode\(opc, bc\)', 'decoder_emit_opcode(self, opc, &bc)', 0],
           [r'vm::MAX_OPCODE', 'MAX_OPCODE', 0], [r'bool\(_code\)', 'CODE_OK(self->_code_)', 0]],
   'casts': True,
   'loops':{1: """__CPROVER_assigns(bc, self->_instr, self->_data, self->_out_index, self->_out_length, self->_in_ctxt_item, self->_slotref, self->_stack_depth, self->_max_ref,
                  __CPROVER_object_whole(g_ctx), g_cod->_instr_count, g_cod->_data_size, g_cod->_status, g_cod->_modify, g_cod->_delete, g_lim->bytecode,
                  __CPROVER_object_whole(g_code), __CPROVER_object_whole(g_data))
                  __CPROVER_loop_invariant(SAME(bc, g_bcbuf) && OFF(bc) <= OFF(bc_end) && g_lim->bytecode == bc_end && CODE_GOOD && CURSORS)
                  __CPROVER_loop_invariant(FITS && IC >= g_ic0 && DS >= g_ds0 && IC + (OFF(bc_end) - OFF(bc)) <= g_ic0 + g_len0 && DS + (OFF(bc_end) - OFF(bc)) <= g_ds0 + g_len0 && 3 * (IC - g_ic0) + 2 * (DS - g_ds0) + 3 * (OFF(bc_end) - OFF(bc)) <= 3 * g_len0)
                  __CPROVER_loop_invariant(SR_INV && OI_INV && IDLE_INV && SD_INV(IC) && CRK(IC) && CHK(DS) && self->_in_ctxt_item == g_ctxt0)
                  __CPROVER_loop_invariant(g_cod->_constraint || (IC - g_ic0) + (DS - g_ds0) + (OFF(bc_end) - OFF(bc)) == g_len0)
                  __CPROVER_loop_invariant(!g_cod->_constraint || (g_cod->_modify == g_mod0 && g_cod->_delete == g_del0))
                  __CPROVER_loop_invariant((!(g_j < g_ds0 && g_j < g_cap_d) || g_data[g_j] == g_byte0) && (!(g_j2 < g_ds0 && g_j2 < g_cap_d) || g_data[g_j2] == g_byte2))
                  __CPROVER_decreases(OFF(bc_end) - OFF(bc))"""},
   'inserts':[[r'_max\.bytecode = bc_end;', 'const size_t g_ic0 = IC, g_ds0 = DS, g_len0 = OFF(bc_end) - OFF(bc); const bool g_mod0 = g_cod->_modify, g_del0 = g_cod->_delete, g_ctxt0 = self->_in_ctxt_item; const byte g_byte0 = g_j < g_cap_d ? g_data[g_j] : 0, g_byte2 = g_j2 < g_cap_d ? g_data[g_j2] : 0;', 'before'],
              [1, 'bc = g_bcbuf + (bc - g_bcbuf);      /* ghost: re-anchor the havocked read cursor on the bytecode buffer (identity by the invariant SAME(bc, g_bcbuf)); without it every bc[i] is resolved against every object */']]}@*/
/* the contract of load as a function with a body, for the constructor units: a failing load went through the real
   (extracted) decoder::failure - in c02_code_fetch / c02_code_emit / c02_code_load the status field is writable by
   failure() only - so the constructor sees the real released state, not only "status != loaded".  L3 is not needed. */
static bool load_model(decoder *self, const byte *bc, const byte *bc_end)
{
    __CPROVER_assert(LQ1(self, bc, bc_end), "load (model of the contract proved in c02_code_load): precondition 1");
    __CPROVER_assert(LQ2(self, bc, bc_end), "load (model of the contract proved in c02_code_load): precondition 2");
    __CPROVER_assert(LQ3(self, bc, bc_end), "load (model of the contract proved in c02_code_load): precondition 3");
    __CPROVER_assert(LQ4(self, bc, bc_end), "load (model of the contract proved in c02_code_load): precondition 4");
    const size_t ic0 = IC, ds0 = DS, len = OFF(bc_end) - OFF(bc); const bool m0 = g_cod->_modify, d0 = g_cod->_delete, x0 = self->_in_ctxt_item;
    /* the assigns clause */
    decoder hd; Code hc;
    self->_instr = hd._instr; self->_data = hd._data; self->_out_index = hd._out_index; self->_out_length = hd._out_length; self->_in_ctxt_item = nondet_bool();
    self->_slotref = hd._slotref; self->_stack_depth = hd._stack_depth; self->_max_ref = hd._max_ref;
    __CPROVER_havoc_object(g_ctx); __CPROVER_havoc_object(g_code);
    g_cod->_instr_count = hc._instr_count; g_cod->_data_size = hc._data_size; g_cod->_modify = nondet_bool(); g_cod->_delete = nondet_bool(); g_lim->bytecode = bc_end;
    bool r = true;
    if (nondet_bool()) { code_status_t st; __CPROVER_assume(st > loaded && st <= underfull_stack); decoder_failure(self, st); r = false; }
    else { self->_instr = g_code + IC; self->_data = g_data + DS; }
    __CPROVER_assume(L1(r)); __CPROVER_assume(L2(r, ic0, ds0, len)); __CPROVER_assume(L4(self, bc_end, r, x0)); __CPROVER_assume(L5(m0, d0)); __CPROVER_assume(L6(r, ic0, ds0, len));
    return r;
}
#ifdef USE_LOAD_MODEL
#define LOAD load_model
#else
#define LOAD decoder_load
#endif


/* ghost wiring inside the constructor (units that use fetch_model / the load contract there): the ghost names of the
   contracts are bound to the constructor's locals.  Layout facts of the constructor are asserted here: the instr area of
   n instrs and the data area of n bytes that c02_code_load needs both lie inside the block. */
#ifdef CTOR_WIRING
size_t nondet_size_t(void);
static void ctor_ghost(decoder *d, limits *l, Code *c, const byte *b, const byte *e)
{
    g_dec = d; g_lim = l; g_cod = c; g_ctx = d->_contexts; g_code = c->_code; g_data = c->_data; g_bcbuf = b; g_bcn = OFF(e) - OFF(b);
    g_cap_i = g_bcn; g_cap_d = g_bcn; g_cap_a = (OBJSZ(g_code) - OFF(g_code)) / sizeof(instr);
    __CPROVER_assert(SAME(b, e) && OFF(b) == 0 && g_bcn >= 1, "constructor: [bytecode_begin, bytecode_end) is a non-empty buffer");
    __CPROVER_assert(SAME(g_data, g_code) && OFF(g_data) == OFF(g_code) + g_bcn * sizeof(instr), "constructor: the data area starts after n instrs");
    __CPROVER_assert(OFF(g_data) + g_bcn <= OBJSZ(g_code), "constructor: n instrs + n data bytes fit in the block");
    g_k = nondet_size_t(); g_j = nondet_size_t(); g_j2 = nondet_size_t(); __CPROVER_assume(g_k < NUMCONTEXTS);
}
#define CTOR_GHOST(d, l, c) ctor_ghost(d, l, c, bytecode_begin, bytecode_end)
#else
#define CTOR_GHOST(d, l, c) ((void)0)
#endif
/* ================================================================== apply_analysis */
/* _slotref == -1 (an INSERT before any NEXT leaves it there): the loop bound is ce = _contexts - 1, a pointer one element
   BEFORE the array (undefined by the letter of [expr.add], harmless on flat address spaces: c < ce is false and the loop
   is not entered, which is what the contract says for that case).  CBMC keeps pointer offsets unsigned, so that case
   cannot be run through it: the harness of c02_code_apply excludes it (assumption, reported). */
void decoder_apply_analysis(decoder *self, instr *const code, instr *code_end)
/* call site (constructor): code = _code, code_end = _code + _instr_count after a successful load.  The contexts below
   _slotref were (re)initialised by NEXTs that are part of the emitted code: codeRef <= _instr_count - this is CRK of
   c02_code_load for every index (the ghost index there is arbitrary), assumed here for the whole array by the harness. */
__CPROVER_requires(WIRED(self) && code == g_code && code_end == g_code + IC && IC <= 70000 && g_cap_a <= 70000)
__CPROVER_requires(CRK(IC) && CHK(DS))                       /* for the arbitrary ghost index g_k, i.e. for every context (the harness of c02_code_apply assumes them for all 256) */
__CPROVER_requires(self->_slotref >= -1 && self->_slotref <= NUMCONTEXTS && IC + (self->_slotref > 0 && !g_cod->_constraint ? self->_slotref : 0) <= g_cap_a)
__CPROVER_assigns(g_cod->_instr_count, g_cod->_delete, __CPROVER_object_whole(g_code))
/* A1 at most one TEMP_COPY per context below _slotref; none for constraint code */
__CPROVER_ensures(IC >= OLD(IC) && IC - OLD(IC) <= (size_t)(OLD(self->_slotref) > 0 && !g_cod->_constraint ? OLD(self->_slotref) : 0))
__CPROVER_ensures(g_cod->_constraint ==> g_cod->_delete == OLD(g_cod->_delete))
/* A2 a TEMP_COPY is only inserted for a context that is changed and referenced: then there are >= 2 data bytes */
__CPROVER_ensures(IC > OLD(IC) ==> DS >= 2);
/*@extract {'file':'src/Code.cpp', 'sig': r'void Machine::Code::decoder::apply_analysis\(instr \* const code, instr \* code_end\)',
   'emit':'void decoder_apply_analysis(decoder *self, instr *const code, instr *code_end)',
   'subs':[[r'_code\._', 'self->_code_->_', 0], [r'Machine::getOpcodeTable\(\)', 'opcode_table', 0], [r'(?<!\w)memmove\(', 'MEMMOVE(', 0]], 'self':['_contexts','_slotref'],
   'loops':{1: """__CPROVER_assigns(c, tempcount, code_end, g_cod->_delete, __CPROVER_object_whole(g_code))
                  __CPROVER_loop_invariant(SAME(c, g_ctx) && OFF(c) % sizeof(context) == 0 && OFF(c) / sizeof(context) <= (size_t)(self->_slotref > 0 ? self->_slotref : 0))
                  __CPROVER_loop_invariant(tempcount >= 0 && (size_t)tempcount <= OFF(c) / sizeof(context) && code_end == g_code + (g_ic_in + tempcount) && (tempcount == 0 || DS >= 2))
                  __CPROVER_decreases((size_t)(self->_slotref > 0 ? self->_slotref : 0) - OFF(c) / sizeof(context))"""},
   'inserts':[[r'int tempcount = 0;', 'const size_t g_ic_in = IC;', 'before'], [1, 'c = (const context *)g_ctx + (c - (const context *)g_ctx);   /* ghost: re-anchor the havocked cursor on its array (identity) */']]}@*/

/* ================================================================== the constructors */
/* what the Silf / Face arguments contribute: four numbers (arbitrary) */
uint16 g_silf_numClasses, g_face_numAttrs, g_face_numFeatures; uint8 g_silf_numUser;
bool nondet_bool(void);
/* malloc / realloc may fail */
static void *gr_malloc(size_t n) { return nondet_bool() ? (void *)0 : malloc(n); }
#ifdef MODEL_MEM
/* realloc without the copy (symbolic-size copies are out of CBMC's reach; the contents play no role here): a new block of
   exactly n bytes, the old one freed; NULL and the old block untouched on failure */
static void *gr_realloc(void *p, size_t n) { if (nondet_bool()) return (void *)0; void *q = malloc(n); __CPROVER_assume(q != (void *)0); free(p); return q; }
#else
static void *gr_realloc(void *p, size_t n) { return nondet_bool() ? (void *)0 : realloc(p, n); }
#endif
/*@extract {'file':'src/Code.cpp', 'sig': r'inline bool is_return\(const instr i\)', 'emit':'static bool is_return(const instr i)', 'subs':[[r'Machine::getOpcodeTable\(\)', 'opcode_table', 0]]}@*/
/*@extract {'file':'src/inc/Code.h', 'sig': r'size_t\s+Machine::Code::estimateCodeDataOut\(size_t n_bc, int nRules, int nSlots\)', 'emit':'static size_t Code_estimateCodeDataOut(size_t n_bc, int nRules, int nSlots)'}@*/
/*@extract {'file':'src/inc/Code.h', 'sig': r'bool\s+immutable\(\) const throw\(\)', 'scope': r'class Machine::Code\s*\{', 'emit':'static bool Code_immutable(const Code *self)', 'self':['_delete','_modify']}@*/
/*@extract {'file':'src/inc/Code.h', 'sig': r'inline Machine::Code::Code\(\) throw\(\)', 'ctor': True, 'emit':'static void Code_default_ctor(Code *self)',
   'self':['_code','_data','_data_size','_instr_count','_max_ref','_status','_constraint','_modify','_delete','_own']}@*/
/*@extract {'file':'src/Code.cpp', 'sig': r'Machine::Code::~Code\(\) throw \(\)', 'emit':'static void Code_dtor(Code *self)', 'subs':[[r'release_buffers\(\)', 'Code_release_buffers(self)', 0]], 'self':['_own']}@*/
/*@extract {'file':'src/Code.cpp', 'sig': r'inline Machine::Code::decoder::decoder\(limits & lims, Code &code, enum passtype pt\) throw\(\)', 'ctor': True,
   'emit':'static void decoder_ctor_members(decoder *self, limits *lims, Code *code, enum passtype pt)',
   'subs':[[r'_code = \(code\);', 'self->_code_ = code;', 0], [r'_max = \(lims\);', 'self->_max_ = lims;', 0], [r'code\._', 'code->_', 0], [r'lims\.', 'lims->', 0]],
   'self':['_out_index','_out_length','_instr','_data','_passtype','_stack_depth','_in_ctxt_item','_slotref','_max_ref']}@*/
/* the member array _contexts[NUMCONTEXTS] is default-constructed element by element (context(uint8 ref = 0)) */
static void decoder_ctor(decoder *self, limits *lims, Code *code, enum passtype pt)
{
    for (int i = 0; i < NUMCONTEXTS; ++i) context_init(&self->_contexts[i], 0);
    decoder_ctor_members(self, lims, code, pt);
}
/*@extract {'file':'src/Code.cpp', 'sig': r'Machine::Code::Code\(bool is_constraint, const byte \* bytecode_begin, const byte \* const bytecode_end,\s*uint8 pre_context, uint16 rule_length, const Silf & silf, const Face & face,\s*enum passtype pt, byte \* \* const _out\)',
   'ctor': True, 'casts': True,
   'emit':'void Code_ctor(Code *self, bool is_constraint, const byte *bytecode_begin, const byte *const bytecode_end, uint8 pre_context, uint16 rule_length, enum passtype pt, byte **const _out)',
   'subs':[[r'(?<!\w)failure\(', 'Code_failure(self, ', 0], [r'(?<!\w)release_buffers\(\)', 'Code_release_buffers(self)', 0], [r'::new \(this\) Code\(\);', 'Code_default_ctor(self);', 0],
           [r'Machine::getOpcodeTable\(\)', 'opcode_table', 0], [r'(?<!\w)estimateCodeDataOut\(', 'Code_estimateCodeDataOut(', 0], [r'(?<!\w)malloc\(', 'gr_malloc(', 0], [r'(?<!\w)memmove\(', 'MEMMOVE(', 0], [r'(?<!\w)realloc\(', 'gr_realloc(', 0],
           [r'decoder::limits lims =', 'limits lims =', 0], [r'silf\.numClasses\(\)', 'g_silf_numClasses', 0], [r'face\.glyphs\(\)\.numAttrs\(\)', 'g_face_numAttrs', 0],
           [r'face\.numFeatures\(\)', 'g_face_numFeatures', 0], [r'silf\.numUser\(\)', 'g_silf_numUser', 0],
           [r'decoder dec\(lims, \*this, pt\);', 'decoder dec; context dec_contexts[NUMCONTEXTS]; dec._contexts = dec_contexts; CTOR_GHOST(&dec, &lims, self); decoder_ctor(&dec, &lims, self, pt);', 0],
           [r'dec\.load\(', 'LOAD(&dec, ', 0], [r'dec\.apply_analysis\(', 'decoder_apply_analysis(&dec, ', 0], [r'dec\.max_ref\(\)', 'dec._max_ref', 0], [r'(?<!\w)immutable\(\)', 'Code_immutable(self)', 0]],
   'self':['_code','_data','_data_size','_instr_count','_max_ref','_status','_constraint','_modify','_delete','_own']}@*/

/* ================================================================== harnesses */
int nondet_int(void); bool nondet_bool(void); unsigned char nondet_uchar(void); size_t nondet_size_t(void); short nondet_short(void);

/* decoder + code + limits + context objects with arbitrary contents (bools normalised) */
static decoder *mk_decoder(void)
{
    Code *code = malloc(sizeof(Code)); limits *lim = malloc(sizeof(limits)); decoder *d = malloc(sizeof(decoder));
    context *ctx = malloc(NUMCONTEXTS * sizeof(context));
    __CPROVER_assume(code && lim && d && ctx);
    d->_code_ = code; d->_max_ = lim; d->_contexts = ctx;
    code->_constraint = nondet_bool(); code->_modify = nondet_bool(); code->_delete = nondet_bool(); code->_own = nondet_bool();
    d->_in_ctxt_item = nondet_bool();
    g_dec = d; g_cod = code; g_lim = lim; g_ctx = ctx;
    return d;
}
/* exact-size bytecode buffer of `total` arbitrary bytes */
static byte *mk_bytecode(size_t total)
{
    byte *buf = malloc(total); __CPROVER_assume(buf != NULL);
    g_bcbuf = buf; g_bcn = total;
    return buf;
}
/* separate exact-size instr and data areas (stronger than the real layout, where they are two parts of one block:
   here even spilling from the instr area into the data area is a failing pointer obligation) */
static void mk_areas(size_t cap_i, size_t cap_d)
{
    g_code = malloc(cap_i * sizeof(instr)); g_data = malloc(cap_d); __CPROVER_assume(g_code != NULL && g_data != NULL);
    g_cap_i = cap_i; g_cap_d = cap_d;
    g_cod->_code = g_code; g_cod->_data = g_data; g_cod->_status = loaded;
}

#ifdef UNIT_c02_code_failure
void h_failure(void)
{
    decoder *d = mk_decoder();
    g_code = malloc(2 * sizeof(instr)); __CPROVER_assume(g_code != NULL);      /* the program block */
    g_cod->_code = nondet_bool() ? g_code : (instr *)0;                        /* an owner holds the block; a non-owner may or may not point at it */
    if (g_cod->_own) g_cod->_code = g_code;
    g_own0 = g_cod->_own;
    code_status_t s; __CPROVER_assume(s > loaded && s <= underfull_stack);
    decoder_failure(d, s);
    CANARY();
}
#endif

#ifdef UNIT_c02_code_fetch
void h_fetch(void)
{
    decoder *d = mk_decoder();
    size_t total = nondet_size_t(), at = nondet_size_t(), end = nondet_size_t();
    __CPROVER_assume(total >= 1 && total <= 300 && at < end && end <= total);
    byte *buf = mk_bytecode(total);
    g_lim->bytecode = buf + end;                               /* end of the (nested) code: anywhere up to the exact end of the buffer */
    mk_areas(1, 1);
    opcode r = decoder_fetch_opcode(d, buf + at);
    (void)r;
    CANARY();
}
#endif

#ifdef UNIT_c02_code_analyse
void h_analyse(void)
{
    decoder *d = mk_decoder();
    size_t total = nondet_size_t(), at = nondet_size_t(), end = nondet_size_t();
    __CPROVER_assume(total >= 1 && total <= 300 && at < end && end <= total);
    byte *buf = mk_bytecode(total);
    g_lim->bytecode = buf + end;
    mk_areas(1, 1);
    __CPROVER_assume(g_k < NUMCONTEXTS);
    decoder_analyse_opcode(d, (opcode)buf[at], (const int8 *)(buf + at + 1));
    CANARY();
}
#endif

#if defined(UNIT_c02_code_emit) || defined(UNIT_c02_code_load)
static void mk_load_state(size_t *total, size_t *end)
{
    *total = nondet_size_t(); *end = nondet_size_t();
    __CPROVER_assume(*total >= 1 && *total <= BCMAX && *end <= *total);
    byte *buf = mk_bytecode(*total);
    g_lim->bytecode = buf + *end;
    mk_areas(BCMAX, BCMAX);                   /* constant-size areas (symbolic-size objects with symbolic stores cost CBMC minutes); the fill level is arbitrary */
    __CPROVER_assume(g_k < NUMCONTEXTS);
    /* the write cursors are set by the harness (a pointer that is only constrained by an assumption has no value set) */
    __CPROVER_assume(IC <= BCMAX && DS <= BCMAX);
    g_dec->_instr = g_code + IC; g_dec->_data = g_data + DS;
}
#endif

#ifdef UNIT_c02_code_emit
void h_emit(void)
{
    decoder *d = mk_decoder();
    size_t total, end; mk_load_state(&total, &end);
    size_t at = nondet_size_t(); __CPROVER_assume(at < end);
    const byte *cur = g_bcbuf + at + 1;
    g_j2 = DS + 1;                                             /* the byte emit_opcode reads back after the nested load (CNTXT_ITEM skip); g_j stays arbitrary */
    bool r = decoder_emit_opcode(d, (opcode)g_bcbuf[at], &cur);
    (void)r;
    CANARY();
}
#endif

#ifdef UNIT_c02_code_load
void h_load(void)
{
    decoder *d = mk_decoder();
    size_t total, end; mk_load_state(&total, &end);
    size_t at = nondet_size_t(); __CPROVER_assume(at <= end);
    bool r = decoder_load(d, g_bcbuf + at, g_bcbuf + end);
    (void)r;
    CANARY();
}
#endif

#ifdef IS_CONSTRAINT
unsigned short nondet_ushort(void);
static void any_face(void) { g_silf_numClasses = nondet_ushort(); g_face_numAttrs = nondet_ushort(); g_face_numFeatures = nondet_ushort(); g_silf_numUser = nondet_uchar(); }
static enum passtype any_passtype(void) { enum passtype pt; __CPROVER_assume(pt >= PASS_TYPE_UNKNOWN && pt <= PASS_TYPE_JUSTIFICATION); return pt; }
#endif

#ifdef UNIT_c02_code_apply
void h_apply(void)
{
    decoder *d = mk_decoder();
    mk_areas(BCMAX, 1); g_cap_a = BCMAX;
    __CPROVER_assume(IC <= BCMAX);
    __CPROVER_assume(d->_slotref >= 0);                     /* -1: see the note at the contract (flat address space) */
    /* every context's codeRef <= _instr_count: unit c02_code_load proves CRK(_instr_count) for an arbitrary context index */
    for (int i = 0; i < NUMCONTEXTS; ++i) __CPROVER_assume(g_ctx[i].codeRef <= IC);
    /* ... and CHK(_data_size) */
    for (int i = 0; i < NUMCONTEXTS; ++i) __CPROVER_assume(!(g_ctx[i].flags.changed && g_ctx[i].flags.referenced) || DS >= 2);
    __CPROVER_assume(g_k < NUMCONTEXTS);
    decoder_apply_analysis(d, g_code, g_code + IC);
    CANARY();
}
#endif

#ifdef IS_CONSTRAINT
void h_ctor(void)
{
    any_face();
    size_t n = nondet_size_t(); __CPROVER_assume(n >= 1 && n <= BCMAX);
    byte *bc = malloc(n); Code *code = malloc(sizeof(Code)); __CPROVER_assume(bc && code);
    enum passtype pt = any_passtype();
    uint8 pre = nondet_uchar(); uint16 rl = nondet_ushort();
    byte *pool = (byte *)0, *pool_free = (byte *)0; size_t avail = 0;
#if IS_CONSTRAINT
    const bool own = nondet_bool();                                       /* pass constraint (Pass.cpp:171) / rule constraint (Pass.cpp:243) */
    if (!own) { __CPROVER_assume(rl <= 63 && pre < rl); avail = Code_estimateCodeDataOut(n, 1, 0); }
#else
    const bool own = false;                                               /* rule action (Pass.cpp:242) */
    size_t nc = nondet_size_t(); __CPROVER_assume(nc <= BCMAX && rl <= 63 && pre < rl);     /* Pass.cpp:232 */
    avail = Code_estimateCodeDataOut(n + nc, 2, rl);                      /* Pass.cpp:240 */
#endif
    if (!own) { pool = malloc(avail); __CPROVER_assume(pool); pool_free = pool; }
    Code_ctor(code, IS_CONSTRAINT, bc, bc + n, pre, rl, pt, own ? (byte **)0 : &pool_free);
    /* what the constructor leaves */
    if (code->_status != loaded)
        __CPROVER_assert(code->_code == (instr *)0 && code->_data == (byte *)0 && code->_own == false, "failed code: status != loaded, buffers released");
    else if (code->_code == (instr *)0)
        __CPROVER_assert(code->_instr_count == 0 && code->_data == (byte *)0 && code->_own == false, "empty code: no buffers");
    else {
        __CPROVER_assert(code->_own == own && code->_instr_count >= 1, "loaded code: owns its block exactly when it allocated it");
        __CPROVER_assert(code->_data == (byte *)(code->_code + code->_instr_count + 1), "loaded code: data follows the terminating instruction");
        __CPROVER_assert(__CPROVER_r_ok(code->_code, (code->_instr_count + 1) * sizeof(instr)) && __CPROVER_r_ok(code->_data, code->_data_size), "loaded code: _instr_count + 1 instrs and _data_size bytes lie inside the block");
#if IS_CONSTRAINT
        __CPROVER_assert(code->_instr_count <= n && code->_data_size <= n && !code->_modify && !code->_delete, "loaded constraint: counts bounded by the bytecode length, immutable");
        if (own) __CPROVER_assert(OBJSZ(code->_code) == ((code->_instr_count + 1) + (code->_data_size + sizeof(instr) - 1) / sizeof(instr)) * sizeof(instr), "loaded code: block shrunk to the compacted size");
#endif
    }
    if (!own) {
#if IS_CONSTRAINT
        __CPROVER_assert(SAME(pool_free, pool) && OFF(pool_free) <= avail, "constraint: *_out stays inside its share of the pool");
#endif
#if !IS_CONSTRAINT
        __CPROVER_assert(SAME(pool_free, pool) && OFF(pool_free) <= Code_estimateCodeDataOut(n, 1, rl), "action: *_out advances by at most its share estimateCodeDataOut(ac, 1, sort), so the constraint that follows has estimateCodeDataOut(rc, 1, 0) left");
#endif
        __CPROVER_assert(code->_status == loaded && code->_code != (instr *)0 ? OFF(pool_free) == ((code->_instr_count + 1) + (code->_data_size + sizeof(instr) - 1) / sizeof(instr)) * sizeof(instr) : OFF(pool_free) == 0, "*_out advances by the compacted size on success only");
    }
    Code_dtor(code); free(code); free(bc); if (pool) free(pool);
    CANARY();
}
#endif
