/* C16 / C01 - the orchestration layer of face creation and destruction: who owns what, in which order, on every failure path.
 *
 * Extracted from /repo on every run (whole functions, real bodies):
 *   gr_make_face_with_ops, load_face, gr_make_face, gr_make_face_with_seg_cache, gr_make_face_with_seg_cache_and_ops,
 *   gr_make_file_face, gr_make_file_face_with_seg_cache, gr_face_destroy                              src/gr_face.cpp
 *   Face::Face, Face::~Face, Face::readGlyphs, Face::readFeatures, Face::takeFileFace, Face::nameTable,
 *   Face::setLogger, Face::Table::release                                                              src/Face.cpp
 *   Face::error(Error), Face::error_context(unsigned), Face::Table::~Table, operator const byte*, size   src/inc/Face.h
 *   SillMap::readFace                                                                                  src/FeatureMap.cpp
 *   Error::Error, Error::test, Error::error                                                            src/inc/Error.h
 *   GlyphCache::numGlyphs / unitsPerEm (src/inc/GlyphCache.h), FileFace::operator bool (src/inc/FileFace.h), min (src/inc/Main.h),
 *   enum Tag::{...} (src/inc/TtfUtil.h), enum gr_face_options (include/graphite2/Font.h), the data members of Face and FileFace.
 * Spec code (what the compiler generates, no library logic):
 *   new T(args)      operator new of CLASS_NEW_DELETE is gralloc<byte>(size) = malloc: the block may be refused (NULL), then no constructor
 *                    runs (the reading under which the source's own `if (res && ...)', `!m_pGlyphFaceCache', `!m_cmap' tests are live;
 *                    under the strict ISO reading new never yields NULL and those branches are dead - both readings are covered);
 *                    exception: new FileFace (the source dereferences the result unconditionally, see `assumptions')
 *   delete p         p == 0: nothing; else the (virtual) destructor, the implicit member destructors (~SillMap for a Face), then free
 *   delete[] m_silfs the destructor on `cookie' elements, last to first, then free
 *   Face::Table x(face, tag, version) ... every return: the destructor of the local runs after the return value is computed
 * Contract stubs / ghost models of callees OUTSIDE this target (each parser is verified in its own units):
 *   Face::Table::Table(face,tag,version)  contract of c16_ctor: one get_table call; result empty / holding the borrow / owning a decompressed block
 *   GlyphCache::GlyphCache / ~GlyphCache  (c16_gcc_ctor_*, c16_glyphcache_dtor) any glyph count / em size; may own one block, freed by its destructor
 *   CachedCmap / DirectCmap ctor, operator bool, ~Cmap  (c13_*, c16_cmapcache) usable or not; may own one block, freed by its destructor
 *   FeatureMap::readFeats, SillMap::readSill, ~SillMap  (c16_readfeats, c18_sill) any result; each may leave one block owned by the SillMap
 *   Face::readGraphite, Silf::~Silf       (c01_silf ...) any result; may create m_silfs = new Silf[0..2], each Silf may own one block
 *   NameTable::NameTable / ~NameTable     (c18_namector) may own one block; reads the name table only while the borrow is live
 *   FileFace::FileFace / ~FileFace        (c01_fileface) valid or not; owns one block (file handle + directory), freed by its destructor
 *   FileFace::ops                         a get_table / release_table pair (only the addresses matter here)
 * Not in this source version: a gr_face_dumbRendering option (load_face refuses every font without a Silf table: obligation (2) of c16_mkface_life).
 * API preconditions assumed, not guarded by the source: ops->get_table != NULL and ops->size >= 16 (gr_make_face(handle, NULL, ..) calls through NULL in
 *   Face::Table::Table); every other input is arbitrary.
 * Configuration: GRAPHITE2_NTRACING defined (the default of CMakeLists.txt) (no json logger: setLogger and the logging block of load_face are empty), GRAPHITE2_NFILEFACE and
 *   GRAPHITE2_TELEMETRY not defined.
 */
#include "types.h"
#define assert(x) __CPROVER_assert((x), "source assert: " #x)
#define GRAPHITE2_NTRACING 1
bool nondet_bool(void); size_t nondet_size_t(void); unsigned nondet_unsigned(void);

/*@unit {'name':'c16_mkface_life', 'props':['C16','C01'], 'entry':'h_life', 'kind':'proof', 'unwind':4, 'defines':['MK=1'], 'checks':['--memory-leak-check'],
  'assumptions':['API precondition: the gr_face_ops handed in has a size field covering get_table (>= 16) and a non-NULL get_table (gr_make_face_with_ops guards only ops == NULL; Face::Table calls get_table unconditionally)',
                 'contracts of the stubbed callees as listed at the head of spec/c16_mkface.c (Table constructor, GlyphCache, Cmap, readFeats, readSill, readGraphite, NameTable): each may fail / refuse in any way and may leave one heap block owned by its object',
                 'new T: a refused allocation yields NULL without running the constructor (covers -fcheck-new; under strict ISO C++ the NULL branches are dead code)',
                 'built with GRAPHITE2_NTRACING (no json logger)'],
  'claims':'gr_make_face_with_ops (real body, with the real load_face, Face::Face, readGlyphs, readFeatures, SillMap::readFace, nameTable, ~Face) followed by gr_face_destroy on a returned face, for every ops (NULL included), every option word, whichever allocation fails and whatever each parser answers: (1) ops == NULL returns NULL without allocating or calling get_table; (2) the Silf table is requested first with version bound 0x00050000 and nothing else is built when it is absent; (3) the loaders run in the order readGlyphs -> readFeats -> readSill -> readGraphite, each at most once, each only if all earlier ones succeeded, readGraphite on the live Silf table; (4) NULL is returned iff the Face could not be allocated or a loader refused, and then the partially built Face has been deleted exactly once and every object it had come to own (glyph cache, cmap object, Silf array with its cookie count, name table, the blocks of the SillMap) has been destroyed exactly once, every table borrow has gone back to release_table, and no block is left allocated WHEN THE CALL RETURNS; (5) a non-NULL result is the Face that was allocated, not deleted, with a glyph cache (>= 1 glyph, em size != 0), a usable cmap object of the class the option gr_face_cacheCmap selects, and all four loaders succeeded; no table borrow is outstanding when the call returns; (6) gr_face_destroy then deletes the Face exactly once and each owned object exactly once: no allocation is left (memory-leak check), nothing is freed twice'}@*/
/*@unit {'name':'c16_mkface_dtor', 'props':['C16','C01'], 'entry':'h_dtor', 'kind':'proof', 'unwind':4, 'defines':['MK=1'], 'checks':['--memory-leak-check'],
  'assumptions':['destructor stubs of the owned objects (GlyphCache, Cmap, Silf, NameTable, FileFace, SillMap): each frees the one block its object may own', 'built with GRAPHITE2_NTRACING (no json logger)'],
  'claims':'Face::~Face (through gr_face_destroy) on a Face whose five owning pointers m_pGlyphFaceCache, m_cmap (either subclass), m_silfs (0..2 elements), m_pFileFace, m_pNames are each independently NULL or owning: every present object is destroyed exactly once through the matching form (delete / delete[] with the cookie count / virtual destructor), absent ones are not touched, the SillMap member is destroyed once, the Face block is freed once; gr_face_destroy(NULL) does nothing; no allocation is left, nothing is freed twice'}@*/
/*@unit {'name':'c16_mkface_readglyphs', 'props':['C16','C01'], 'entry':'h_readglyphs', 'kind':'proof', 'unwind':4, 'defines':['MK=1'], 'checks':['--memory-leak-check'],
  'assumptions':['contracts of the stubbed callees (GlyphCache, Cmap, Table constructor, NameTable) as in c16_mkface_life', 'built with GRAPHITE2_NTRACING (no json logger)'],
  'claims':'Face::readGlyphs on a freshly constructed Face, any options, any allocation failing: at most one GlyphCache and at most one cmap object are created, the cmap object only after the glyph cache was accepted and of the class selected by gr_face_cacheCmap (CachedCmap) / otherwise DirectCmap; whatever was created is stored in m_pGlyphFaceCache / m_cmap (owned by the Face) on EVERY path - nothing is deleted by readGlyphs itself and nothing is dropped; the name table is preloaded only on success and only with gr_face_preloadGlyphs, its borrow is released before the call returns; repeated Face::nameTable() calls afterwards create at most one NameTable (owned by the Face) and an existing one is returned without touching the client; true is returned only with >= 1 glyph, em size != 0 and a usable cmap; m_error is E_OUTOFMEM / E_NOGLYPHS / E_BADUPEM / E_BADCMAP exactly on the corresponding refusal; ~Face then frees everything exactly once'}@*/
/*@unit {'name':'c16_mkface_wrappers', 'props':['C16','C01'], 'entry':'h_wrappers', 'kind':'proof', 'unwind':4, 'defines':['MK=1','WRAP=1'],
  'assumptions':['gr_make_face_with_ops is replaced by a recording stub (its contract: unit c16_mkface_life)'],
  'claims':'gr_make_face and gr_make_face_with_seg_cache build a gr_face_ops {sizeof(gr_face_ops), tablefn, NULL} (so no release_table, full size) and pass it, the handle and the option word unchanged to gr_make_face_with_ops exactly once, returning its result unchanged; gr_make_face_with_seg_cache_and_ops passes handle, ops and options through; none of them allocates or keeps a pointer to the local ops'}@*/
/*@unit {'name':'c16_mkface_file', 'props':['C16','C01'], 'entry':'h_file', 'kind':'proof', 'unwind':4, 'defines':['MK=1','FILEFACE=1'], 'checks':['--memory-leak-check'],
  'assumptions':['the new-expression `new FileFace(filename)` does not yield NULL: FileFace::operator new (CLASS_NEW_DELETE) is not noexcept, a NULL result is undefined behaviour in C++ and the source dereferences the result unconditionally (`if (*pFileFace)`)',
                 'contracts of the stubbed callees as in c16_mkface_life; FileFace::FileFace leaves a valid or an invalid object owning one block', 'built with GRAPHITE2_NTRACING (no json logger)'],
  'claims':'gr_make_file_face / gr_make_file_face_with_seg_cache (real bodies on top of the real gr_make_face_with_ops chain) followed by gr_face_destroy: exactly one FileFace is created; an invalid FileFace makes no face at all; the face is made with the FileFace as its handle and FileFace::ops; on every failure the FileFace is deleted exactly once before NULL is returned (and the Face too, see c16_mkface_life); on success the FileFace is NOT deleted, it is owned by the returned face (m_pFileFace, through takeFileFace) and deleted exactly once by gr_face_destroy, after which no allocation is left'}@*/

#ifdef MK
/* ------------------------------------------------------------------ shim structs */
typedef struct gr_face_ops {
    size_t size;
    const void *(*get_table)(const void *appFaceHandle, unsigned int name, size_t *len);
    void (*release_table)(const void *appFaceHandle, const void *table_buffer);
} gr_face_ops;
typedef const void *(*gr_get_table_fn)(const void *appFaceHandle, unsigned int name, size_t *len);
typedef struct Face Face;
typedef Face gr_face;                                   /* struct gr_face : public graphite2::Face {} */
typedef struct Table { const Face *_f; const byte *_p; size_t _sz; bool _compressed; } Table;
typedef struct Error { int _e; } Error;
typedef struct json json;
typedef struct FILE_ FILE_;
/* ghost models of the owned objects: the fields the orchestration reads + one block standing for everything the object owns */
typedef struct GlyphCache { unsigned short _num_glyphs, _upem; void *blk; } GlyphCache;
typedef struct Cmap { int cls; bool ok; void *blk; } Cmap;                    /* cls: the dynamic type (vtable) */
enum { CLS_CACHED = 1, CLS_DIRECT = 2 };
typedef struct Silf { void *blk; } Silf;
typedef struct NameTable { void *blk; } NameTable;
typedef struct SillMap { void *feats_blk, *sill_blk; } SillMap;                /* m_FeatureMap's arrays / the language table */
typedef struct OffsetSubTable OffsetSubTable; typedef struct Entry Entry;
typedef struct FileFace {
/*@extract {'if':'MK=1', 'kind':'members', 'file':'src/inc/FileFace.h', 'scope': r'class FileFace\s*\{', 'names':['_file','_file_len','_header_tbl','_table_dir'],
            'subs':[[r'TtfUtil::Sfnt::OffsetSubTable::Entry', 'Entry'], [r'TtfUtil::Sfnt::OffsetSubTable', 'OffsetSubTable'], [r'\bFILE\b', 'FILE_']]}@*/
    void *blk;
} FileFace;
struct Face {
/*@extract {'if':'MK=1', 'kind':'members', 'file':'src/inc/Face.h', 'scope': r'class Face\s*\{',
            'names':['m_Sill','m_ops','m_appFaceHandle','m_pFileFace','m_pGlyphFaceCache','m_cmap','m_pNames','m_logger','m_error','m_errcntxt','m_silfs','m_numSilf','m_ascent','m_descent'],
            'subs':[[r'\bmutable\s+', '']]}@*/
};
/*@extract {'if':'MK=1', 'file':'include/graphite2/Font.h', 'kind':'range', 'start': r'enum gr_face_options \{', 'end': r'\};', 'end_inclusive': True}@*/
#define TTF_TAG(a,b,c,d) (((unsigned)(a) << 24) + ((b) << 16) + ((c) << 8) + (d))
/*@extract {'if':'MK=1', 'file':'src/inc/TtfUtil.h', 'scope': r'class Tag\s*\{', 'kind':'range', 'start': r'enum\s*\{', 'end': r'\};', 'end_inclusive': True,
            'subs':[[r'(\w+)(\s*)= TTF_TAG', r'TAG_\1\2= TTF_TAG', 1]]}@*/
enum { E_OUTOFMEM = 1, E_NOGLYPHS = 2, E_BADUPEM = 3, E_BADCMAP = 4, EC_READGLYPHS = 1 };       /* src/inc/Error.h */

/* ------------------------------------------------------------------ ghost state */
#define NB 2                                          /* the Silf table of load_face and the name table of nameTable() */
struct {
    struct { const void *ptr; bool out; unsigned tag; } b[NB];
    unsigned gets, rels;
} g_led;
unsigned g_face_news, g_face_dels, g_gc_news, g_gc_dels, g_cmap_news, g_cmap_dels, g_silfs_news, g_silfs_dels, g_silf_dtors,
         g_names_news, g_names_dels, g_ff_news, g_ff_dels, g_sill_dtors;
const Face *g_the_face; const GlyphCache *g_the_gc; const Cmap *g_the_cmap; const NameTable *g_the_names; const FileFace *g_the_ff;
const void *g_cookie_ptr; size_t g_cookie_n;          /* array cookie of new Silf[n] */
unsigned g_allocs, g_frees;                           /* blocks obtained by / handed back by the library side (objects and their blocks) */
unsigned g_stage;                                     /* loaders that have run: 0 none, 1 readGlyphs, 2 readFeats, 3 readSill, 4 readGraphite */
bool g_ok_glyphs, g_ok_feats, g_ok_sill, g_ok_graphite;
unsigned g_calls_glyphs, g_calls_feats, g_calls_sill, g_calls_graphite, g_calls_names;
const Table *g_silf_table;                            /* the local `silf' of load_face */
bool g_silf_present;
uint32 g_options;
const gr_face_ops *g_ops_in; const void *g_handle_in;

static void *lib_malloc(size_t n) { void *p = malloc(n); if (p) g_allocs++; return p; }
static void lib_free(void *p) { if (p) g_frees++; free(p); }
#define free(p) lib_free(p)                           /* every free() in the extracted code below */
static void *maybe_blk(void) { return nondet_bool() ? lib_malloc(1) : NULL; }

/* ------------------------------------------------------------------ the client: get_table / release_table */
static const void *client_get(const void *h, unsigned int name, size_t *len) { (void)h; (void)name; (void)len; return NULL; }   /* only its address is used */
static void client_release(const void *h, const void *p) { (void)h; (void)p; }
#define OUTSLOT(p, k) (g_led.b[k].out && g_led.b[k].ptr == (p))
void CB_release_table(const Face *f, const void *p)
{
    (void)f;
    const int k = OUTSLOT(p, 0) ? 0 : OUTSLOT(p, 1) ? 1 : -1;
    __CPROVER_assert(k >= 0, "release_table: the pointer is an outstanding borrow (obtained from get_table and not released before)");
    g_led.rels++;
    if (k >= 0) { g_led.b[k].out = 0; (free)((void *)p); }     /* poison: the client may unmap it now */
}

/* ------------------------------------------------------------------ extracted: Table release / destructor / accessors, Error, min */
/*@extract {'if':'MK=1', 'file':'src/Face.cpp', 'sig': r'void Face::Table::release\(\)', 'emit':'void Table_release(Table *self)', 'casts': True,
            'subs':[[r'\(\*_f->m_ops\.release_table\)\(_f->m_appFaceHandle, ', 'CB_release_table(_f, ', 0]],
            'self':['_f','_p','_sz','_compressed']}@*/
/*@extract {'if':'MK=1', 'file':'src/inc/Face.h', 'sig': r'Face::Table::~Table\(\) throw\(\)', 'emit':'void Table_dtor(Table *self)', 'subs':[[r'release\(\)', 'Table_release(self)', 0]]}@*/
/*@extract {'if':'MK=1', 'file':'src/inc/Face.h', 'sig': r'Face::Table::operator const byte \* \(\) const throw\(\)', 'emit':'static const byte *Table_ptr(const Table *self)', 'self':['_p']}@*/
/*@extract {'if':'MK=1', 'file':'src/inc/Face.h', 'sig': r'size_t\s+Face::Table::size\(\) const throw\(\)', 'emit':'static size_t Table_size(const Table *self)', 'self':['_sz']}@*/
/*@extract {'if':'MK=1', 'file':'src/inc/Error.h', 'scope': r'class Error\s*\{', 'sig': r'Error\(\)', 'ctor': True, 'emit':'static void Error_ctor(Error *self)', 'self':['_e']}@*/
/*@extract {'if':'MK=1', 'file':'src/inc/Error.h', 'scope': r'class Error\s*\{', 'sig': r'bool test\(bool pr, int err\)', 'emit':'static bool Error_test(Error *self, bool pr, int err)', 'self':['_e']}@*/
/*@extract {'if':'MK=1', 'file':'src/inc/Error.h', 'scope': r'class Error\s*\{', 'sig': r'int error\(\)', 'emit':'static int Error_error(Error *self)', 'self':['_e']}@*/
/*@extract {'if':'MK=1', 'file':'src/inc/Main.h', 'sig': r'inline T min\(const T a, const T b\)', 'emit':'static size_t min_size_t(const size_t a, const size_t b)'}@*/
/*@extract {'if':'MK=1', 'file':'src/inc/Face.h', 'scope': r'class Face\s*\{', 'sig': r'bool\s+error\(Error e\)', 'emit':'static bool Face_error(Face *self, Error e)',
            'subs':[[r'e\.error\(\)', 'Error_error(&e)', 0]], 'self':['m_error']}@*/
/*@extract {'if':'MK=1', 'file':'src/inc/Face.h', 'scope': r'class Face\s*\{', 'sig': r'void\s+error_context\(unsigned int errcntxt\)', 'emit':'static void Face_error_context(Face *self, unsigned int errcntxt)', 'self':['m_errcntxt']}@*/
/*@extract {'if':'MK=1', 'file':'src/inc/GlyphCache.h', 'sig': r'unsigned short GlyphCache::numGlyphs\(\) const throw\(\)', 'emit':'static unsigned short GlyphCache_numGlyphs(const GlyphCache *self)', 'self':['_num_glyphs']}@*/
/*@extract {'if':'MK=1', 'file':'src/inc/GlyphCache.h', 'sig': r'unsigned short\s+GlyphCache::unitsPerEm\(\) const throw\(\)', 'emit':'static unsigned short GlyphCache_unitsPerEm(const GlyphCache *self)', 'self':['_upem']}@*/
/*@extract {'if':'MK=1', 'file':'src/inc/FileFace.h', 'sig': r'FileFace::operator bool\(\) const throw\(\)', 'emit':'static bool FileFace_bool(const FileFace *self)', 'self':['_file','_header_tbl','_table_dir']}@*/

/* ------------------------------------------------------------------ stub: Face::Table::Table(face, tag, version)  (contract: unit c16_ctor) */
const void *g_client_keeps[NB];                       /* buffers handed to a face without release_table: the client frees them after the face is gone */
static Table Table_get(const Face *face, unsigned tag, uint32 version)
{
    Table t; t._f = face; t._p = NULL; t._sz = 0; t._compressed = 0;
    __CPROVER_assert(face->m_ops.get_table != NULL, "Face::Table: get_table is callable");
    __CPROVER_assert(tag == TAG_Silf || tag == TAG_name, "Face::Table: the orchestration layer asks for the Silf and the name table only");
    if (tag == TAG_Silf) __CPROVER_assert(version == 0x00050000, "the Silf table is opened with the decompression bound 0x00050000");
    else __CPROVER_assert(version == 0xffffffff, "the name table is opened with the default version bound");
    const unsigned k = tag == TAG_Silf ? 0 : 1;
    __CPROVER_assert(!g_led.b[k].out, "this table is not requested again while its borrow is outstanding");
    g_led.gets++;
    const unsigned kind = nondet_unsigned() % 3;
    if (kind == 1) {        /* holding the borrow */
        byte *b = malloc(4); __CPROVER_assume(b != NULL);
        g_led.b[k].ptr = b; g_led.b[k].out = 1; g_led.b[k].tag = tag;
        t._p = b; t._sz = 4;
        if (face->m_ops.release_table == NULL) { g_led.b[k].out = 0; (free)((void *)g_client_keeps[k]); g_client_keeps[k] = b; }   /* the face has no release_table: the buffer stays the client's, nothing to give back */
    } else if (kind == 2) { /* decompressed: the borrow was returned inside the constructor, the table owns a block */
        byte *b = lib_malloc(4); __CPROVER_assume(b != NULL);
        t._p = b; t._sz = 4; t._compressed = 1;
    }
    return t;
}

/* ------------------------------------------------------------------ stubs: the owned objects */
static GlyphCache *new_GlyphCache(Face *face, uint32 options)
{
    __CPROVER_assert(face == g_the_face && options == g_options, "new GlyphCache(*this, faceOptions)");
    GlyphCache *p = nondet_bool() ? NULL : lib_malloc(sizeof(GlyphCache));
    if (!p) return NULL;
    g_gc_news++; g_the_gc = p;
    unsigned short nondet_ushort(void);
    p->_num_glyphs = nondet_ushort(); p->_upem = nondet_ushort(); p->blk = maybe_blk();
    return p;
}
static void delete_GlyphCache(GlyphCache *p) { if (p) { __CPROVER_assert(p == g_the_gc, "delete m_pGlyphFaceCache: the object new GlyphCache returned"); g_gc_dels++; free(p->blk); free(p); } }
static Cmap *new_Cmap(Face *face, int cls)
{
    __CPROVER_assert(face == g_the_face, "new Cmap(*this)");
    Cmap *p = nondet_bool() ? NULL : lib_malloc(sizeof(Cmap));
    if (!p) return NULL;
    g_cmap_news++; g_the_cmap = p;
    p->cls = cls; p->ok = nondet_bool(); p->blk = maybe_blk();
    return p;
}
static Cmap *new_CachedCmap(Face *face) { return new_Cmap(face, CLS_CACHED); }
static Cmap *new_DirectCmap(Face *face) { return new_Cmap(face, CLS_DIRECT); }
static bool Cmap_bool(const Cmap *c) { return c->ok; }                      /* virtual operator bool */
static void delete_Cmap(Cmap *p) { if (p) { __CPROVER_assert(p == g_the_cmap, "delete m_cmap: the object new ...Cmap returned"); g_cmap_dels++; free(p->blk); free(p); } }
static NameTable *new_NameTable(const byte *data, size_t len)
{
    __CPROVER_assert(data != NULL && len == 4, "new NameTable(name, name.size()): a present table and its size");
    const byte first = data[0], last = data[len - 1]; (void)first; (void)last;          /* reads the table: it must still be alive */
    NameTable *p = nondet_bool() ? NULL : lib_malloc(sizeof(NameTable));
    if (!p) return NULL;
    g_names_news++; g_the_names = p; p->blk = maybe_blk();
    return p;
}
static void delete_NameTable(NameTable *p) { if (p) { __CPROVER_assert(p == g_the_names, "delete m_pNames: the object new NameTable returned"); g_names_dels++; free(p->blk); free(p); } }
static void Silf_dtor(Silf *s) { g_silf_dtors++; free(s->blk); }
static Silf *new_Silf_array(size_t n)
{
    Silf *p = nondet_bool() ? NULL : lib_malloc(n ? n * sizeof(Silf) : 1);
    if (!p) return NULL;
    g_silfs_news++; g_cookie_ptr = p; g_cookie_n = n;
    if (n > 0) p[0].blk = maybe_blk();
    if (n > 1) p[1].blk = maybe_blk();
    return p;
}
static void delete_Silf_array(Silf *p)
{
    if (!p) return;
    __CPROVER_assert(p == g_cookie_ptr, "delete[] m_silfs: the pointer is the block new Silf[] returned");
    g_silfs_dels++;
    if (g_cookie_n > 1) Silf_dtor(&p[1]);
    if (g_cookie_n > 0) Silf_dtor(&p[0]);
    free(p);
}
static void SillMap_ctor(SillMap *s) { s->feats_blk = NULL; s->sill_blk = NULL; }
static void SillMap_dtor(SillMap *s) { g_sill_dtors++; free(s->feats_blk); free(s->sill_blk); }
bool g_ff_valid;
static FileFace *new_FileFace(const char *filename)
{
    (void)filename;
    FileFace *p = lib_malloc(sizeof(FileFace)); __CPROVER_assume(p != NULL);           /* see `assumptions' of c16_mkface_file */
    g_ff_news++; g_the_ff = p;
    p->_file = nondet_bool() ? (FILE_ *)p : NULL; p->_file_len = nondet_size_t();
    p->_header_tbl = nondet_bool() ? (OffsetSubTable *)p : NULL; p->_table_dir = nondet_bool() ? (Entry *)p : NULL;   /* only tested against 0 here */
    p->blk = maybe_blk();
    g_ff_valid = FileFace_bool(p);
    return p;
}
static void delete_FileFace(FileFace *p) { if (p) { __CPROVER_assert(p == g_the_ff, "delete: the object new FileFace returned"); g_ff_dels++; free(p->blk); free(p); } }
static const gr_face_ops FileFace_ops = { sizeof(gr_face_ops), client_get, client_release };

/* ------------------------------------------------------------------ stubs: the parsers (loaders) */
static bool FeatureMap_readFeats(SillMap *sill, const Face *face)
{
    __CPROVER_assert(face == g_the_face && sill == &((Face *)face)->m_Sill, "m_FeatureMap.readFeats(face) on the SillMap of this face");
    __CPROVER_assert(g_stage == 1 && g_ok_glyphs, "readFeats runs after readGlyphs succeeded, before readSill and readGraphite");
    g_stage = 2; g_calls_feats++;
    if (nondet_bool()) sill->feats_blk = lib_malloc(1);
    return g_ok_feats = nondet_bool();
}
static bool SillMap_readSill(SillMap *sill, const Face *face)
{
    __CPROVER_assert(face == g_the_face && sill == &((Face *)face)->m_Sill, "readSill(face) on the SillMap of this face");
    __CPROVER_assert(g_stage == 2 && g_ok_feats, "readSill runs after readFeats succeeded, before readGraphite");
    g_stage = 3; g_calls_sill++;
    if (nondet_bool()) sill->sill_blk = lib_malloc(1);
    return g_ok_sill = nondet_bool();
}
static bool Face_readGraphite(Face *self, const Table *silf)
{
    __CPROVER_assert(self == g_the_face && silf == g_silf_table, "face.readGraphite(silf): the Silf table load_face opened");
    __CPROVER_assert(g_stage == 3 && g_ok_sill, "readGraphite runs last, after readGlyphs and readFeatures succeeded");
    __CPROVER_assert(silf->_p != NULL, "readGraphite is handed a present table");
    const byte first = silf->_p[0], last = silf->_p[silf->_sz - 1]; (void)first; (void)last;   /* reads the table: it must still be alive */
    g_stage = 4; g_calls_graphite++;
    if (nondet_bool()) {
        const uint16 n = nondet_unsigned() % 3;
        self->m_numSilf = n;
        self->m_silfs = new_Silf_array(n);
        if (!self->m_silfs) return g_ok_graphite = false;
    }
    return g_ok_graphite = nondet_bool();
}

/* ------------------------------------------------------------------ new Face / delete Face (spec code) */
static void delete_mismatch(void *p) { (void)p; __CPROVER_assert(0, "delete / delete[] matches the form of the new-expression that made the object"); }
#define DELETE(p) _Generic((p), GlyphCache *: delete_GlyphCache, Cmap *: delete_Cmap, NameTable *: delete_NameTable, FileFace *: delete_FileFace, Face *: delete_Face, default: delete_mismatch)(p)
#define DELETE_ARRAY(p) _Generic((p), Silf *: delete_Silf_array, default: delete_mismatch)(p)
static void delete_Face(Face *p);

/*@extract {'if':'MK=1', 'file':'src/Face.cpp', 'sig': r'void Face::setLogger\(FILE \* log_file GR_MAYBE_UNUSED\)', 'emit':'static void Face_setLogger(Face *self, FILE_ *log_file)', 'self':['m_logger']}@*/
/*@extract {'if':'MK=1', 'file':'src/Face.cpp', 'sig': r'Face::Face\(const void\* appFaceHandle/\*non-NULL\*/, const gr_face_ops & ops\)', 'ctor': True,
            'emit':'static void Face_ctor(Face *self, const void *appFaceHandle, const gr_face_ops *ops)', 'refs':['ops'],
            'subs':[[r'\bmin\(', 'min_size_t(', 0]],
            'self':['m_ops','m_appFaceHandle','m_pFileFace','m_pGlyphFaceCache','m_cmap','m_pNames','m_logger','m_error','m_errcntxt','m_silfs','m_numSilf','m_ascent','m_descent']}@*/
/*@extract {'if':'MK=1', 'file':'src/Face.cpp', 'sig': r'Face::~Face\(\)', 'emit':'static void Face_dtor(Face *self)',
            'subs':[[r'setLogger\(', 'Face_setLogger(self, ', 0], [r'delete\s*\[\]\s*([^;]+);', r'DELETE_ARRAY(\1);', 0], [r'delete\s+([^;]+);', r'DELETE(\1);', 0]],
            'self':['m_pFileFace','m_pGlyphFaceCache','m_cmap','m_pNames','m_silfs']}@*/
/*@extract {'if':'MK=1', 'file':'src/Face.cpp', 'sig': r'void Face::takeFileFace\(FileFace\* pFileFace GR_MAYBE_UNUSED/\*takes ownership\*/\)', 'emit':'static void Face_takeFileFace(Face *self, FileFace *pFileFace)',
            'subs':[[r'delete\s+([^;]+);', r'DELETE(\1);', 0]], 'self':['m_pFileFace']}@*/
#define EARLY_RETURN return
/*@extract {'if':'MK=1', 'file':'src/Face.cpp', 'sig': r'NameTable \* Face::nameTable\(\) const', 'emit':'static NameTable *Face_nameTable(Face *self)',
            'subs':[[r'if \(m_pNames\) return', 'if (m_pNames) EARLY_RETURN', 0],
                    [r'const Table name\(\*this, Tag::(\w+)\);', r'Table name = Table_get(self, TAG_\1, 0xffffffff); g_calls_names++;', 0],
                    [r'if \(name\)', 'if (Table_ptr(&name))', 0],
                    [r'new NameTable\(name, name\.size\(\)\)', 'new_NameTable(Table_ptr(&name), Table_size(&name))', 0],
                    [r'\breturn ([^;]+);', r'{ NameTable *r_ = (\1); Table_dtor(&name); return r_; }', 0]],
            'self':['m_pNames']}@*/
/*@extract {'if':'MK=1', 'file':'src/Face.cpp', 'sig': r'bool Face::readGlyphs\(uint32 faceOptions\)', 'emit':'bool Face_readGlyphs(Face *self, uint32 faceOptions)',
   'subs':[[r'Error e;', 'Error e; Error_ctor(&e);', 0], [r'e\.test\(', 'Error_test(&e, ', 0], [r'return error\(e\)', 'return Face_error(self, e)', 0],
           [r'error_context\(', 'Face_error_context(self, ', 0],
           [r'new GlyphCache\(\*this, faceOptions\)', 'new_GlyphCache(self, faceOptions)', 0], [r'new (CachedCmap|DirectCmap)\(\*this\)', r'new_\1(self)', 0],
           [r'm_pGlyphFaceCache->numGlyphs\(\)', 'GlyphCache_numGlyphs(self->m_pGlyphFaceCache)', 0], [r'm_pGlyphFaceCache->unitsPerEm\(\)', 'GlyphCache_unitsPerEm(self->m_pGlyphFaceCache)', 0],
           [r'!\*m_cmap', '!Cmap_bool(self->m_cmap)', 0], [r'\bnameTable\(\)', 'Face_nameTable(self)', 0],
           [r'delete\s+([^;]+);', r'DELETE(\1);', 0]],
   'self':['m_pGlyphFaceCache','m_cmap']}@*/
/*@extract {'if':'MK=1', 'file':'src/FeatureMap.cpp', 'sig': r'bool SillMap::readFace\(const Face & face\)', 'emit':'static bool SillMap_readFace(SillMap *self, const Face *face)',
            'subs':[[r'm_FeatureMap\.readFeats\(face\)', 'FeatureMap_readFeats(self, face)', 0], [r'\breadSill\(face\)', 'SillMap_readSill(self, face)', 0]]}@*/
/*@extract {'if':'MK=1', 'file':'src/Face.cpp', 'sig': r'bool Face::readFeatures\(\)', 'emit':'static bool Face_readFeatures(Face *self)',
            'subs':[[r'm_Sill\.readFace\(\*this\)', 'SillMap_readFace(&self->m_Sill, self)', 0]]}@*/

static bool readGlyphs_logged(Face *self, uint32 options)
{   /* face.readGlyphs(options) as called by load_face: records the call for the ordering obligations */
    __CPROVER_assert(self == g_the_face && options == g_options, "face.readGlyphs(options): this face, the caller's option word");
    __CPROVER_assert(g_stage == 0, "readGlyphs runs first and once");
    g_stage = 1; g_calls_glyphs++;
    return g_ok_glyphs = Face_readGlyphs(self, options);
}

static Face *new_Face(const void *appFaceHandle, const gr_face_ops *ops)
{
    Face *p = nondet_bool() ? NULL : lib_malloc(sizeof(Face));
    if (!p) return NULL;
    g_face_news++; g_the_face = p;
    SillMap_ctor(&p->m_Sill);                             /* member with a constructor */
    Face_ctor(p, appFaceHandle, ops);
    return p;
}
static void delete_Face(Face *p)
{
    if (!p) return;
    __CPROVER_assert(p == g_the_face, "delete: the Face new Face returned");
    g_face_dels++;
    Face_dtor(p);
    SillMap_dtor(&p->m_Sill);                             /* implicit member destructor */
    free(p);
}

/* ------------------------------------------------------------------ extracted: src/gr_face.cpp */
#ifndef WRAP
/*@extract {'if':'MK=1', 'file':'src/gr_face.cpp', 'sig': r'bool load_face\(Face & face, unsigned int options\)', 'emit':'static bool load_face(Face *face, unsigned int options)',
            'subs':[[r'Face::Table silf\(face, Tag::(\w+), (\w+)\);', r'Table silf = Table_get(face, TAG_\1, \2); g_silf_table = &silf; g_silf_present = Table_ptr(&silf) != 0;', 0],
                    [r'face\.readGraphite\(silf\)', 'Face_readGraphite(face, &silf)', 0],
                    [r'\(!silf\)', '(!Table_ptr(&silf))', 0], [r'\(silf\)', '(Table_ptr(&silf))', 0],
                    [r'face\.readGlyphs\(', 'readGlyphs_logged(face, ', 0], [r'face\.readFeatures\(\)', 'Face_readFeatures(face)', 0],
                    [r'\breturn ([^;]+);', r'{ const bool r_ = (\1); Table_dtor(&silf); return r_; }', 0]]}@*/
/*@extract {'if':'MK=1', 'file':'src/gr_face.cpp', 'sig': r'gr_face\* gr_make_face_with_ops\(const void\* appFaceHandle/\*non-NULL\*/, const gr_face_ops \*ops, unsigned int faceOptions\)\s*(?://[^\n]*\n\s*)*',
            'emit':'gr_face *gr_make_face_with_ops(const void *appFaceHandle, const gr_face_ops *ops, unsigned int faceOptions)', 'casts': True,
            'subs':[[r'new Face\((\w+), \*(\w+)\)', r'new_Face(\1, \2)', 0], [r'load_face\(\*(\w+),', r'load_face(\1,', 0],
                    [r'delete\s+([^;]+);', r'DELETE(\1);', 0]]}@*/
#else
/* recording stub (unit c16_mkface_wrappers) */
unsigned g_mk_calls; const void *g_mk_handle; const gr_face_ops *g_mk_ops; gr_face_ops g_mk_ops_copy; unsigned g_mk_options; gr_face *g_mk_result;
gr_face *gr_make_face_with_ops(const void *appFaceHandle, const gr_face_ops *ops, unsigned int faceOptions)
{
    g_mk_calls++; g_mk_handle = appFaceHandle; g_mk_ops = ops; if (ops) g_mk_ops_copy = *ops; g_mk_options = faceOptions;
    return g_mk_result;
}
#endif
/*@extract {'if':'MK=1', 'file':'src/gr_face.cpp', 'sig': r'void gr_face_destroy\(gr_face \*face\)', 'emit':'void gr_face_destroy(gr_face *face)', 'casts': True,
            'subs':[[r'delete\s+([^;]+);', r'DELETE(\1);', 0]]}@*/
/*@extract {'if':'WRAP=1', 'file':'src/gr_face.cpp', 'sig': r'gr_face\* gr_make_face\(const void\* appFaceHandle/\*non-NULL\*/, gr_get_table_fn tablefn, unsigned int faceOptions\)',
            'emit':'gr_face *gr_make_face(const void *appFaceHandle, gr_get_table_fn tablefn, unsigned int faceOptions)'}@*/
/*@extract {'if':'WRAP=1', 'file':'src/gr_face.cpp', 'sig': r'gr_face\* gr_make_face_with_seg_cache_and_ops\(const void\* appFaceHandle/\*non-NULL\*/, const gr_face_ops \*ops, unsigned int , unsigned int faceOptions\)',
            'emit':'gr_face *gr_make_face_with_seg_cache_and_ops(const void *appFaceHandle, const gr_face_ops *ops, unsigned int cache_, unsigned int faceOptions)'}@*/
/*@extract {'if':'WRAP=1', 'file':'src/gr_face.cpp', 'sig': r'gr_face\* gr_make_face_with_seg_cache\(const void\* appFaceHandle/\*non-NULL\*/, gr_get_table_fn tablefn, unsigned int, unsigned int faceOptions\)',
            'emit':'gr_face *gr_make_face_with_seg_cache(const void *appFaceHandle, gr_get_table_fn tablefn, unsigned int cache_, unsigned int faceOptions)'}@*/
/*@extract {'if':'FILEFACE=1', 'file':'src/gr_face.cpp', 'sig': r'gr_face\* gr_make_file_face\(const char \*filename, unsigned int faceOptions\)',
            'emit':'gr_face *gr_make_file_face(const char *filename, unsigned int faceOptions)',
            'subs':[[r'new FileFace\((\w+)\)', r'new_FileFace(\1)', 0], [r'if \(\*(\w+)\)', r'if (FileFace_bool(\1))', 0], [r'&FileFace::ops', '&FileFace_ops', 0],
                    [r'(\w+)->takeFileFace\(', r'Face_takeFileFace(\1, ', 0], [r'delete\s+([^;]+);', r'DELETE(\1);', 0]]}@*/
/*@extract {'if':'FILEFACE=1', 'file':'src/gr_face.cpp', 'sig': r'gr_face\* gr_make_file_face_with_seg_cache\(const char\* filename, unsigned int, unsigned int faceOptions\)\s*(?://[^\n]*\n\s*)*',
            'emit':'gr_face *gr_make_file_face_with_seg_cache(const char *filename, unsigned int cache_, unsigned int faceOptions)'}@*/

/* ------------------------------------------------------------------ harness helpers */
static void client_cleanup(void)
{   /* a client without release_table frees its own buffers after the face is gone */
    __CPROVER_assert(!g_led.b[0].out && !g_led.b[1].out, "no table borrow is outstanding at the end");
    (free)((void *)g_client_keeps[0]); (free)((void *)g_client_keeps[1]);
}
#define BALANCED() (g_face_dels == g_face_news && g_gc_dels == g_gc_news && g_cmap_dels == g_cmap_news && g_silfs_dels == g_silfs_news \
                    && g_names_dels == g_names_news && g_allocs == g_frees)
#define ATMOST1()  (g_face_news <= 1 && g_gc_news <= 1 && g_cmap_news <= 1 && g_silfs_news <= 1 && g_names_news <= 1)
#endif /* MK */

#ifdef UNIT_c16_mkface_life
/* a buffer handed out by a client that has no release_table is the client's: it is freed here, after the face is gone (never by the library) */
void h_life(void)
{
    const bool w_null_ops = nondet_bool(), w_has_release = nondet_bool();
    const unsigned w_options = nondet_unsigned();
    gr_face_ops *ops = NULL;
    if (!w_null_ops) {
        ops = malloc(sizeof(gr_face_ops)); __CPROVER_assume(ops != NULL);
        ops->size = nondet_size_t(); __CPROVER_assume(ops->size >= 16);               /* assumption: covers get_table */
        ops->get_table = client_get;                                                  /* assumption: non-NULL */
        ops->release_table = w_has_release ? client_release : NULL;
    }
    int handle;
    g_options = w_options;
    gr_face *face = gr_make_face_with_ops(&handle, ops, w_options);
    /* (1) */
    if (w_null_ops) __CPROVER_assert(face == NULL && g_face_news == 0 && g_allocs == 0 && g_led.gets == 0, "ops == NULL: NULL, nothing allocated, no get_table call");
    __CPROVER_assert(ATMOST1(), "at most one Face, glyph cache, cmap object, Silf array, name table is created");
    /* (2) */
    if (g_face_news == 1 && !g_silf_present) __CPROVER_assert(face == NULL && g_stage == 0 && g_gc_news == 0, "no Silf table: nothing is loaded, no face");
    /* (3) ordering is asserted inside the stubs; at most once each */
    __CPROVER_assert(g_calls_glyphs <= 1 && g_calls_feats <= 1 && g_calls_sill <= 1 && g_calls_graphite <= 1, "each loader runs at most once");
    /* no borrow survives the call (the Silf local and the name local are gone) */
    __CPROVER_assert(!g_led.b[0].out && !g_led.b[1].out, "no table borrow is outstanding when gr_make_face_with_ops returns");
    if (w_has_release || w_null_ops) __CPROVER_assert(g_led.rels <= g_led.gets, "never more releases than borrows");
    if (face == NULL) {
        /* (4) */
        __CPROVER_assert(g_face_dels == g_face_news, "failure: the partially built Face is deleted exactly once");
        __CPROVER_assert(BALANCED(), "failure: everything created has been destroyed exactly once before the call returns (objects and blocks)");
        __CPROVER_assert(g_sill_dtors == g_face_news, "failure: the SillMap member is destroyed with its Face");
        __CPROVER_assert(w_null_ops || g_face_news == 0 || !g_silf_present || !(g_ok_glyphs && g_ok_feats && g_ok_sill && g_ok_graphite), "NULL only if something refused");
    } else {
        /* (5) */
        __CPROVER_assert(face == g_the_face && g_face_news == 1 && g_face_dels == 0, "success: the result is the Face that was allocated; it has not been deleted");
        __CPROVER_assert(g_gc_dels == 0 && g_cmap_dels == 0 && g_silfs_dels == 0 && g_names_dels == 0 && g_sill_dtors == 0, "success: nothing the face owns has been destroyed");
        __CPROVER_assert(g_silf_present && g_stage == 4 && g_ok_glyphs && g_ok_feats && g_ok_sill && g_ok_graphite, "success: the Silf table was present and all four loaders ran and succeeded");
        __CPROVER_assert(face->m_pGlyphFaceCache == g_the_gc && g_the_gc != NULL && face->m_pGlyphFaceCache->_num_glyphs >= 1 && face->m_pGlyphFaceCache->_upem != 0, "success: a glyph cache with >= 1 glyph and a non-zero em size");
        __CPROVER_assert(face->m_cmap == g_the_cmap && g_the_cmap != NULL && face->m_cmap->ok, "success: a usable cmap object");
        __CPROVER_assert(face->m_cmap->cls == ((w_options & gr_face_cacheCmap) ? CLS_CACHED : CLS_DIRECT), "success: CachedCmap iff gr_face_cacheCmap");
        __CPROVER_assert(face->m_pFileFace == NULL, "success: no FileFace is owned by a face made from callbacks");
        __CPROVER_assert(face->m_appFaceHandle == &handle, "the face keeps the client's handle");
        __CPROVER_assert(face->m_ops.get_table == client_get && face->m_ops.size == ops->size, "the face works on its own copy of the ops");
        __CPROVER_assert(face->m_ops.release_table == ((w_has_release && ops->size >= sizeof(gr_face_ops)) ? client_release : NULL), "release_table is copied only if the client's ops.size covers it");
        (free)(ops); ops = NULL;                                                     /* the client's ops need not outlive the call */
        /* (6) */
        gr_face_destroy(face);
        __CPROVER_assert(g_face_dels == 1 && g_sill_dtors == 1, "gr_face_destroy deletes the Face exactly once");
        __CPROVER_assert(BALANCED(), "after gr_face_destroy everything created has been destroyed exactly once (objects and blocks)");
    }
    __CPROVER_assert(g_silf_dtors == (g_silfs_news ? g_cookie_n : 0), "every Silf of the array is destroyed exactly once");
    (free)(ops);
    client_cleanup();
    if (face != NULL && g_names_news == 1 && g_silfs_news == 1) CANARY();
}
#endif

#ifdef UNIT_c16_mkface_dtor
void h_dtor(void)
{
    if (nondet_bool()) { gr_face_destroy(NULL); __CPROVER_assert(g_frees == 0 && g_face_dels == 0, "gr_face_destroy(NULL) does nothing"); return; }
    gr_face_ops ops = { sizeof(gr_face_ops), client_get, client_release };
    int handle;
    Face *f = new_Face(&handle, &ops); __CPROVER_assume(f != NULL);
    __CPROVER_assert(f->m_pGlyphFaceCache == NULL && f->m_cmap == NULL && f->m_silfs == NULL && f->m_pFileFace == NULL && f->m_pNames == NULL && f->m_numSilf == 0, "Face::Face: owns nothing yet");
    g_options = nondet_unsigned();
    const bool w_gc = nondet_bool(), w_cmap = nondet_bool(), w_silfs = nondet_bool(), w_ff = nondet_bool(), w_names = nondet_bool();
    if (w_gc) { f->m_pGlyphFaceCache = new_GlyphCache(f, g_options); __CPROVER_assume(f->m_pGlyphFaceCache != NULL); }
    if (w_cmap) { f->m_cmap = nondet_bool() ? new_CachedCmap(f) : new_DirectCmap(f); __CPROVER_assume(f->m_cmap != NULL); }
    if (w_silfs) { f->m_numSilf = nondet_unsigned() % 3; f->m_silfs = new_Silf_array(f->m_numSilf); __CPROVER_assume(f->m_silfs != NULL); }
    if (w_ff) { f->m_pFileFace = new_FileFace("x"); }
    if (w_names) { byte *d = malloc(4); __CPROVER_assume(d != NULL); f->m_pNames = new_NameTable(d, 4); (free)(d); __CPROVER_assume(f->m_pNames != NULL); }
    if (nondet_bool()) f->m_Sill.feats_blk = lib_malloc(1);
    if (nondet_bool()) f->m_Sill.sill_blk = lib_malloc(1);
    gr_face_destroy(f);
    __CPROVER_assert(g_face_dels == 1 && g_sill_dtors == 1, "the Face is deleted once, its SillMap member destroyed once");
    __CPROVER_assert(g_gc_dels == (w_gc ? 1u : 0u), "m_pGlyphFaceCache: deleted exactly once if present");
    __CPROVER_assert(g_cmap_dels == (w_cmap ? 1u : 0u), "m_cmap: deleted exactly once if present");
    __CPROVER_assert(g_silfs_dels == (w_silfs ? 1u : 0u) && g_silf_dtors == (w_silfs ? g_cookie_n : 0), "m_silfs: delete[] exactly once if present, each element destroyed once");
    __CPROVER_assert(g_ff_dels == (w_ff ? 1u : 0u), "m_pFileFace: deleted exactly once if present");
    __CPROVER_assert(g_names_dels == (w_names ? 1u : 0u), "m_pNames: deleted exactly once if present");
    __CPROVER_assert(g_allocs == g_frees, "every block is freed (allocations == frees)");
    if (w_gc && w_cmap && w_silfs && w_ff && w_names) CANARY();
}
#endif

#ifdef UNIT_c16_mkface_readglyphs
void h_readglyphs(void)
{
    const bool w_has_release = nondet_bool();
    gr_face_ops ops = { sizeof(gr_face_ops), client_get, w_has_release ? client_release : NULL };
    int handle;
    Face *f = new_Face(&handle, &ops); __CPROVER_assume(f != NULL);
    const unsigned w_options = nondet_unsigned();
    g_options = w_options;
    const unsigned frees0 = g_frees;
    const bool ok = Face_readGlyphs(f, w_options);
    __CPROVER_assert(ATMOST1(), "at most one glyph cache, cmap object, name table");
    __CPROVER_assert(g_gc_dels == 0 && g_cmap_dels == 0 && g_names_dels == 0, "readGlyphs deletes nothing: what it created stays owned by the Face");
    __CPROVER_assert(f->m_pGlyphFaceCache == (g_gc_news ? (GlyphCache *)g_the_gc : NULL), "the glyph cache that was created is m_pGlyphFaceCache");
    __CPROVER_assert(f->m_cmap == (g_cmap_news ? (Cmap *)g_the_cmap : NULL), "the cmap object that was created is m_cmap");
    __CPROVER_assert(f->m_pNames == (g_names_news ? (NameTable *)g_the_names : NULL), "the name table that was created is m_pNames");
    __CPROVER_assert(g_cmap_news == 0 || (g_gc_news == 1 && g_the_gc->_num_glyphs != 0 && g_the_gc->_upem != 0), "the cmap object is created only after the glyph cache was accepted");
    __CPROVER_assert(g_cmap_news == 0 || g_the_cmap->cls == ((w_options & gr_face_cacheCmap) ? CLS_CACHED : CLS_DIRECT), "CachedCmap iff gr_face_cacheCmap, else DirectCmap");
    __CPROVER_assert(g_calls_names == ((ok && (w_options & gr_face_preloadGlyphs)) ? 1u : 0u), "the name table is preloaded exactly on success with gr_face_preloadGlyphs");
    __CPROVER_assert(!g_led.b[1].out, "the borrow of the name table has gone back before readGlyphs returns");
    __CPROVER_assert(!ok || (g_gc_news == 1 && g_the_gc->_num_glyphs >= 1 && g_the_gc->_upem != 0 && g_cmap_news == 1 && g_the_cmap->ok), "true only with glyphs, an em size and a usable cmap");
    __CPROVER_assert(ok || f->m_error == (g_gc_news == 0 ? E_OUTOFMEM : g_the_gc->_num_glyphs == 0 ? E_NOGLYPHS : g_the_gc->_upem == 0 ? E_BADUPEM : g_cmap_news == 0 ? E_OUTOFMEM : E_BADCMAP), "on refusal m_error names the reason");
    __CPROVER_assert(f->m_errcntxt == EC_READGLYPHS, "error context: reading glyphs");
    /* later lookups (languageForLocale, gr_fref_label ...) go through nameTable() again: the table object is created at most once */
    NameTable *const n1 = Face_nameTable(f);
    NameTable *const n2 = Face_nameTable(f);
    __CPROVER_assert(g_names_news <= 1 && g_names_dels == 0 && n2 == f->m_pNames && (n1 == NULL || n2 == n1) && !g_led.b[1].out, "nameTable(): at most one NameTable is ever created, it is owned by the Face; the borrow goes back at once");
    __CPROVER_assert(n2 == NULL || n2 == g_the_names, "nameTable() returns the object it created");
    gr_face_destroy(f);
    __CPROVER_assert(BALANCED() && g_face_dels == 1, "~Face frees what readGlyphs left, exactly once");
    client_cleanup();
    if (ok && g_names_news == 1) CANARY();
}
#endif

#ifdef UNIT_c16_mkface_wrappers
static const void *other_get(const void *h, unsigned int name, size_t *len) { (void)h; (void)name; (void)len; return NULL; }
void h_wrappers(void)
{
    int handle; Face dummy;
    const unsigned w_options = nondet_unsigned(), w_cache = nondet_unsigned(), w_which = nondet_unsigned() % 3;
    gr_get_table_fn fn = nondet_bool() ? client_get : nondet_bool() ? other_get : NULL;
    g_mk_result = nondet_bool() ? &dummy : NULL;
    gr_face_ops myops = { nondet_size_t(), fn, client_release };
    const gr_face_ops *w_ops = nondet_bool() ? &myops : NULL;
    gr_face *r;
    if (w_which == 0) r = gr_make_face(&handle, fn, w_options);
    else if (w_which == 1) r = gr_make_face_with_seg_cache(&handle, fn, w_cache, w_options);
    else r = gr_make_face_with_seg_cache_and_ops(&handle, w_ops, w_cache, w_options);
    __CPROVER_assert(g_mk_calls == 1, "exactly one call of gr_make_face_with_ops");
    __CPROVER_assert(r == g_mk_result, "its result is returned unchanged");
    __CPROVER_assert(g_mk_handle == &handle && g_mk_options == w_options, "handle and option word are passed through");
    if (w_which == 2) __CPROVER_assert(g_mk_ops == w_ops, "the client's ops are passed through");
    else __CPROVER_assert(g_mk_ops != NULL && g_mk_ops_copy.size == sizeof(gr_face_ops) && g_mk_ops_copy.get_table == fn && g_mk_ops_copy.release_table == NULL, "ops = {sizeof(gr_face_ops), tablefn, NULL}");
    CANARY();
}
#endif

#ifdef UNIT_c16_mkface_file
void h_file(void)
{
    const unsigned w_options = nondet_unsigned(), w_cache = nondet_unsigned();
    g_options = w_options;
    gr_face *face = nondet_bool() ? gr_make_file_face("font.ttf", w_options) : gr_make_file_face_with_seg_cache("font.ttf", w_cache, w_options);
    __CPROVER_assert(g_ff_news == 1, "exactly one FileFace is created");
    __CPROVER_assert(g_ff_valid || (face == NULL && g_face_news == 0 && g_led.gets == 0), "an invalid FileFace makes no face: nothing else is allocated, no table is requested");
    __CPROVER_assert(ATMOST1(), "at most one Face, glyph cache, cmap object, Silf array, name table");
    __CPROVER_assert(!g_led.b[0].out && !g_led.b[1].out, "no table borrow is outstanding when the call returns");
    if (face == NULL) {
        __CPROVER_assert(g_ff_dels == 1, "failure: the FileFace is deleted exactly once before NULL is returned");
        __CPROVER_assert(BALANCED() && g_allocs == g_frees, "failure: nothing is left allocated when the call returns");
    } else {
        __CPROVER_assert(g_ff_dels == 0, "success: the FileFace is not deleted");
        __CPROVER_assert(face == g_the_face && g_face_dels == 0 && face->m_pFileFace == g_the_ff, "success: the returned face owns the FileFace (takeFileFace)");
        __CPROVER_assert(face->m_appFaceHandle == g_the_ff && face->m_ops.get_table == client_get && face->m_ops.release_table == client_release, "the face reads its tables through FileFace::ops with the FileFace as handle");
        gr_face_destroy(face);
        __CPROVER_assert(g_ff_dels == 1 && g_face_dels == 1, "gr_face_destroy deletes the Face and its FileFace exactly once");
        __CPROVER_assert(BALANCED(), "after gr_face_destroy everything has been destroyed exactly once");
    }
    client_cleanup();
    if (face != NULL) CANARY();
}
#endif
