/* C11 - UTF-8/16/32 text is decoded exactly and never read past its end.
 * Functions under contract (extracted from /repo on every run; one build per encoding, selected by -DENC=8|16|32):
 *   _utf_codec<N>::get, _utf_codec<N>::validate          (src/inc/UtfCodec.h, tables from src/UtfCodec.cpp)
 *   _utf_iterator<C>::operator++ / operator== / operator!= / error() / validate()   (src/inc/UtfCodec.h)
 *   count_unicode_chars<utf_iter>                         (src/gr_segment.cpp)
 * Oracle: spec/utf_ref.h (Unicode Standard Table 3-7, D90, D91).
 */
#include "types.h"
#include "utf_ref.h"

/* ---------------- units: decode step (loop-free, full domain) */
/*@unit {'name':'c11_utf8_get',  'props':['C11','C12','C05'], 'entry':'h_get', 'enforce':'CODEC_get', 'defines':['ENC=8','REF_LENIENT_SURROGATES'], 'replay':'c11_utf', 'witness_defines':[], 'witness_vars':['w_avail','w_u'],
  'claims':'_utf_codec<8>::get agrees with the Unicode reference decoder on (well-formed?, scalar value, length), returns U+FFFD with a negative length on ill-formed input, skips only continuation bytes, and reads only the units the tail rule allows (exact-size buffer of 1..4 units)'}@*/
/*@unit {'name':'c11_utf16_get', 'props':['C11','C12','C05'], 'entry':'h_get', 'enforce':'CODEC_get', 'defines':['ENC=16','REF_LENIENT_SURROGATES'], 'replay':'c11_utf', 'witness_defines':[], 'witness_vars':['w_avail','w_u'],
  'claims':'_utf_codec<16>::get agrees with the reference decoder (D91), unpaired surrogates give U+FFFD/-1'}@*/
/*@unit {'name':'c11_utf32_get', 'props':['C11','C12','C05'], 'entry':'h_get', 'enforce':'CODEC_get', 'defines':['ENC=32','REF_LENIENT_SURROGATES'], 'replay':'c11_utf', 'witness_defines':[], 'witness_vars':['w_avail','w_u'],
  'claims':'_utf_codec<32>::get accepts exactly values below 0x110000 (surrogate values: see c11_utf32_get_strict)'}@*/
/*@unit {'name':'c11_utf8_get_strict',  'props':['C11'], 'entry':'h_get', 'enforce':'CODEC_get', 'defines':['ENC=8'], 'replay':'c11_utf', 'witness_defines':[], 'witness_vars':['w_avail','w_u'],
  'claims':'same contract with the strict reference (ED A0..BF xx, i.e. surrogate code points, are ill-formed per Table 3-7)'}@*/
/*@unit {'name':'c11_utf32_get_strict', 'props':['C11'], 'entry':'h_get', 'enforce':'CODEC_get', 'defines':['ENC=32'], 'replay':'c11_utf', 'witness_defines':[], 'witness_vars':['w_avail','w_u'],
  'claims':'same contract with the strict reference (D800..DFFF are not Unicode scalar values, D90)'}@*/
/* ---------------- units: validate */
/*@unit {'name':'c11_utf8_validate',  'props':['C11'], 'entry':'h_validate', 'enforce':'CODEC_validate', 'defines':['ENC=8'], 'replay':'c11_utf', 'witness_defines':[], 'witness_vars':['w_n','w_u','w_noerr'],
  'claims':'_utf_codec<8>::validate(s,e) reads only [s,e) and returns true iff the buffer does not end in a truncated multi-unit sequence (so every decode step inside it satisfies the tail rule)'}@*/
/*@unit {'name':'c11_utf16_validate', 'props':['C11'], 'entry':'h_validate', 'enforce':'CODEC_validate', 'defines':['ENC=16'], 'replay':'c11_utf', 'witness_defines':[], 'witness_vars':['w_n','w_u','w_noerr'], 'claims':'validate for UTF-16: last unit is not a high surrogate'}@*/
/*@unit {'name':'c11_utf32_validate', 'props':['C11'], 'entry':'h_validate', 'enforce':'CODEC_validate', 'defines':['ENC=32'], 'replay':'c11_utf', 'witness_defines':[], 'witness_vars':['w_n','w_u','w_noerr'], 'claims':'validate for UTF-32: s <= e'}@*/
/* ---------------- units: the counting loop (loop contracts; buffer length symbolic up to MAXN units) */
/*@unit {'name':'c11_count8_end',  'props':['C11'], 'entry':'h_count_end', 'enforce':'count_unicode_chars', 'replace':['CODEC_get','CODEC_validate'], 'defines':['ENC=8','REF_LENIENT_SURROGATES'], 'defines_quick':['ENC=8','REF_LENIENT_SURROGATES','MAXN=256'], 'min_loops':1, 'cost':30,
  'replay':'c11_utf', 'witness_defines':['WITNESS'], 'witness_vars':['w_n','w_u','w_noerr'],
  'claims':'gr_count_unicode_characters(utf8, begin, end): never reads outside [begin,end); returns the reference character count with *pError==NULL on well-formed text; reports an error exactly when the reference decoder meets an ill-formed sequence first; *pError inside the buffer; terminates'}@*/
/*@unit {'name':'c11_count16_end', 'props':['C11'], 'entry':'h_count_end', 'enforce':'count_unicode_chars', 'replace':['CODEC_get','CODEC_validate'], 'defines':['ENC=16','REF_LENIENT_SURROGATES'], 'defines_quick':['ENC=16','REF_LENIENT_SURROGATES','MAXN=256'], 'min_loops':1, 'cost':30, 'replay':'c11_utf', 'witness_defines':['WITNESS'], 'witness_vars':['w_n','w_u','w_noerr'], 'claims':'same for UTF-16'}@*/
/*@unit {'name':'c11_count32_end', 'props':['C11'], 'entry':'h_count_end', 'enforce':'count_unicode_chars', 'replace':['CODEC_get','CODEC_validate'], 'defines':['ENC=32','REF_LENIENT_SURROGATES'], 'defines_quick':['ENC=32','REF_LENIENT_SURROGATES','MAXN=256'], 'min_loops':1, 'cost':30, 'replay':'c11_utf', 'witness_defines':['WITNESS'], 'witness_vars':['w_n','w_u','w_noerr'], 'claims':'same for UTF-32'}@*/
/*@unit {'name':'c11_count8_nul',  'props':['C11'], 'entry':'h_count_nul', 'enforce':'count_unicode_chars', 'replace':['CODEC_get','CODEC_validate'], 'defines':['ENC=8','REF_LENIENT_SURROGATES'], 'defines_quick':['ENC=8','REF_LENIENT_SURROGATES','MAXN=256'], 'min_loops':1, 'cost':30, 'replay':'c11_utf', 'witness_defines':['WITNESS'], 'witness_vars':['w_n','w_u','w_noerr'],
  'claims':'gr_count_unicode_characters(utf8, begin, NULL) on a NUL-terminated string in an exact-size buffer: never reads past the terminating NUL; count and error as above'}@*/
/*@unit {'name':'c11_count16_nul', 'props':['C11'], 'entry':'h_count_nul', 'enforce':'count_unicode_chars', 'replace':['CODEC_get','CODEC_validate'], 'defines':['ENC=16','REF_LENIENT_SURROGATES'], 'defines_quick':['ENC=16','REF_LENIENT_SURROGATES','MAXN=256'], 'min_loops':1, 'cost':30, 'replay':'c11_utf', 'witness_defines':['WITNESS'], 'witness_vars':['w_n','w_u','w_noerr'], 'claims':'same for UTF-16'}@*/
/*@unit {'name':'c11_count32_nul', 'props':['C11'], 'entry':'h_count_nul', 'enforce':'count_unicode_chars', 'replace':['CODEC_get','CODEC_validate'], 'defines':['ENC=32','REF_LENIENT_SURROGATES'], 'defines_quick':['ENC=32','REF_LENIENT_SURROGATES','MAXN=256'], 'min_loops':1, 'cost':30, 'replay':'c11_utf', 'witness_defines':['WITNESS'], 'witness_vars':['w_n','w_u','w_noerr'], 'claims':'same for UTF-32'}@*/

/*@include utf_common.tc@*/

/* ghost state of the lock-step reference counter (updated only by inserted ghost statements) */
const void **g_errp;
const CU *g_pos;  size_t g_cnt;  bool g_stopped;  bool g_ill;  const CU *g_illpos;  bool g_nulmode; size_t g_n;
#define GHOST_STEP(itp) do { const CU *p_ = (itp)->cp; ref_t gr_ = REF(p_, AVAIL(p_)); \
      if (!gr_.ok)            { g_stopped = true; g_ill = true; g_illpos = p_; } \
      else if (gr_.usv == 0)  { g_stopped = true; } \
      else                    { g_pos = p_ + gr_.len; g_cnt++; } } while (0)

size_t count_unicode_chars(utf_iter first, const utf_iter last, const void **error)
__CPROVER_requires(first.cp == g_begin && first.sl == 1 && SAME(g_begin, g_end) && OFF(g_begin) <= OFF(g_end))
__CPROVER_requires(OFF(g_begin) == 0 && OFF(g_end) == (long)OBJSZ(g_end))
__CPROVER_requires(g_nulmode ? (last.cp == NULL && g_n + 1 == AVAIL(g_begin) && g_begin[g_n] == 0) : (last.cp == g_end && g_n == AVAIL(g_begin)))
__CPROVER_requires(g_n <= MAXN && g_cnt == 0 && !g_stopped && !g_ill && g_pos == g_begin)
__CPROVER_requires(error == g_errp)                      /* the caller's pError: a valid object or NULL */
__CPROVER_assigns(error != NULL: *error; g_pos, g_cnt, g_stopped, g_ill, g_illpos)
/* error pointer is NULL or inside the buffer */
__CPROVER_ensures(error == NULL || *error == NULL || (SAME(*error, g_begin) && OFF(*error) >= 0 && OFF(*error) < OFF(g_end)))
/* end-delimited buffer ending in a truncated sequence: error at the last unit, count 0 */
__CPROVER_ensures((!g_nulmode && TRUNCATED(g_begin, g_end, g_n)) ==> (__CPROVER_return_value == 0 && (error == NULL || *error == (const void *)(g_end - 1))))
/* otherwise: the count is the reference count, an error is reported iff the reference decoder met an ill-formed sequence
   before a NUL / the end, and it points at that sequence */
__CPROVER_ensures(!(!g_nulmode && TRUNCATED(g_begin, g_end, g_n)) ==>
      (__CPROVER_return_value == g_cnt && __CPROVER_return_value <= g_n
       && (error == NULL || (g_ill ? *error == (const void *)g_illpos : *error == NULL))
       && (g_stopped || g_nulmode || g_pos == g_end)));

/*@extract {'file':'src/gr_segment.cpp', 'sig': r'inline size_t count_unicode_chars\(utf_iter first, const utf_iter last, const void \*\*error\)',
   'emit':'size_t count_unicode_chars(utf_iter first, const utf_iter last, const void **error)',
   'brace_loops':[1],
   'subs':[ [r'first\.validate\(last\)', 'IT_validate(&first, &last)', 1],
            [r'if \(last\)', 'if (IT_ptr(&last))', 1],
            [r'last - 1', 'IT_ptr(&last) - 1', 1],
            [r'first != last', 'IT_ne(&first, &last)', 1],
            [r'\+\+first', 'IT_inc(&first)', 2],
            [r'\*first\b', 'IT_deref(&first)', 2],
            [r'first\.error\(\) \? first : 0', 'IT_error(&first) ? IT_ptr(&first) : 0', 1],
            [r'first\.error\(\)', 'IT_error(&first)', 2] ],
   'inserts':[ [1, 'GHOST_STEP(&first);'], [2, 'GHOST_STEP(&first);'],
               [r'if \(error\)\s*\*error = first', 'if (g_nulmode) GHOST_STEP(&first);   /* the while loop left through its condition: the reference meets the same stop */', 'before'] ],
   'loops':{ 1: """__CPROVER_assigns(first.cp, first.sl, n_chars, usv, g_pos, g_cnt, g_stopped, g_ill, g_illpos)
                   __CPROVER_loop_invariant(SAME(first.cp, g_begin) && OFF(first.cp) >= 0 && OFF(first.cp) <= OFF(g_end) && OFF(first.cp) % (long)sizeof(CU) == 0)
                   __CPROVER_loop_invariant(g_pos == first.cp && g_cnt == n_chars && !g_stopped && !g_ill && n_chars <= AVAIL(g_begin) - AVAIL(first.cp))
                   __CPROVER_loop_invariant(first.sl >= 1)
                   __CPROVER_decreases(OFF(g_end) - OFF(first.cp))""",
             2: """__CPROVER_assigns(first.cp, first.sl, n_chars, usv, g_pos, g_cnt, g_stopped, g_ill, g_illpos)
                   __CPROVER_loop_invariant(SAME(first.cp, g_begin) && OFF(first.cp) >= 0 && OFF(first.cp) <= (long)(g_n * sizeof(CU)) && OFF(first.cp) % (long)sizeof(CU) == 0)
                   __CPROVER_loop_invariant(g_pos == first.cp && g_cnt == n_chars && !g_stopped && !g_ill && n_chars <= AVAIL(g_begin) - AVAIL(first.cp))
                   __CPROVER_decreases(OFF(g_end) - OFF(first.cp))""" } }@*/

/* ------------------------------------------------------------------ harnesses */
size_t nondet_size_t(void); bool nondet_bool(void);
#define FILLW(p, n, b, K) do { for (int i_ = 0; i_ < (K); ++i_) if ((size_t)i_ < (n)) (p)[i_] = (b)[i_]; } while (0)

void h_get(void)
{
    size_t w_avail = nondet_size_t();
    CU w_u[4];
    __CPROVER_assume(w_avail >= 1 && w_avail <= 4);
    CU *buf = malloc(w_avail * sizeof(CU));      /* exactly the available units */
    __CPROVER_assume(buf != NULL);
    if (w_avail > 0) buf[0] = w_u[0];
    if (w_avail > 1) buf[1] = w_u[1];
    if (w_avail > 2) buf[2] = w_u[2];
    if (w_avail > 3) buf[3] = w_u[3];
    g_begin = buf; g_end = buf + w_avail;
    int8 l;
    uchar_t r = CODEC_get(buf, &l);
    (void)r;
    CANARY();
}

void h_validate(void)
{
    size_t w_n = nondet_size_t();
    CU w_u[4];
    __CPROVER_assume(w_n <= MAXN);
    CU *buf = malloc(w_n * sizeof(CU));
    __CPROVER_assume(buf != NULL);
    /* only the last <= 4 units matter; name them for the witness */
    if (w_n > 0) buf[w_n - 1] = w_u[3];
    if (w_n > 1) buf[w_n - 2] = w_u[2];
    if (w_n > 2) buf[w_n - 3] = w_u[1];
    if (w_n > 3) buf[w_n - 4] = w_u[0];
    g_begin = buf; g_end = buf + w_n;
    bool r = CODEC_validate(buf, buf + w_n);
    (void)r;
    CANARY();
}

#ifdef WITNESS
#define WN 6
#else
#define WN MAXN
#endif

void h_count_end(void)
{
    size_t w_n = nondet_size_t();
    __CPROVER_assume(w_n <= WN);
    CU *buf = malloc(w_n * sizeof(CU));           /* exactly [begin,end) */
    __CPROVER_assume(buf != NULL);
#ifdef WITNESS
    CU w_u[WN];
    if (w_n > 0) buf[0] = w_u[0]; if (w_n > 1) buf[1] = w_u[1]; if (w_n > 2) buf[2] = w_u[2];
    if (w_n > 3) buf[3] = w_u[3]; if (w_n > 4) buf[4] = w_u[4]; if (w_n > 5) buf[5] = w_u[5];
#endif
    g_begin = buf; g_end = buf + w_n; g_n = w_n; g_nulmode = false;
    g_pos = buf; g_cnt = 0; g_stopped = false; g_ill = false;
    utf_iter first = { buf, 1 }, last = { buf + w_n, 1 };
    const void *err; bool w_noerr = nondet_bool();
    g_errp = w_noerr ? (const void **)0 : &err;          /* pError may be NULL */
    size_t r = count_unicode_chars(first, last, g_errp);
    (void)r;
    CANARY();
}

void h_count_nul(void)
{
    size_t w_n = nondet_size_t();
    __CPROVER_assume(w_n <= WN);
    CU *buf = malloc((w_n + 1) * sizeof(CU));     /* exactly the string and its terminating NUL */
    __CPROVER_assume(buf != NULL);
#ifdef WITNESS
    CU w_u[WN];
    if (w_n > 0) buf[0] = w_u[0]; if (w_n > 1) buf[1] = w_u[1]; if (w_n > 2) buf[2] = w_u[2];
    if (w_n > 3) buf[3] = w_u[3]; if (w_n > 4) buf[4] = w_u[4]; if (w_n > 5) buf[5] = w_u[5];
#endif
    buf[w_n] = 0;
    g_begin = buf; g_end = buf + w_n + 1; g_n = w_n; g_nulmode = true;
    g_pos = buf; g_cnt = 0; g_stopped = false; g_ill = false;
    utf_iter first = { buf, 1 }, last = { NULL, 1 };
    const void *err; bool w_noerr = nondet_bool();
    g_errp = w_noerr ? (const void **)0 : &err;          /* pError may be NULL */
    size_t r = count_unicode_chars(first, last, g_errp);
    (void)r;
    CANARY();
}
