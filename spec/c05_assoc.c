/* C05 - characters and slots stay validly associated (the slot/char-info index part; the decoding part is C11/C12).
 * Bounded universe unit over the REAL body of Segment::associateChars (src/Segment.cpp) and Segment::appendSlot's
 * association fields; range preservation by the insert opcode is asserted in c03_insert.
 */
#include "types.h"
/*@unit {'name':'c05_associate', 'props':['C05','C03'], 'entry':'h_associate', 'kind':'bounded', 'defines_quick':['NSLOTS=3','NCHARS=3'], 'defines_thorough':['NSLOTS=4','NCHARS=4'], 'unwind_quick':6, 'unwind_thorough':7,
  'bound':'pool of 3 / 4 slots and 3 / 4 char-infos, any well-formed list, any slot before/after in [0,M)',
  'replay':'c05_assoc', 'witness_defines':['NSLOTS=3','NCHARS=3'], 'witness_vars':['w_n','w_m','w_before','w_after'],
  'claims':'Segment::associateChars: slot indices become 0..n-1 in stream order; slot before/after stay char-info indices in [0,M); every char-info before/after that was assigned is a slot index in [0,n); every character covered by some slot range gets both'}@*/
/*@unit {'name':'c05_associate_strict', 'props':['C05'], 'entry':'h_associate', 'kind':'bounded', 'defines_quick':['NSLOTS=3','NCHARS=3','STRICT'], 'defines_thorough':['NSLOTS=4','NCHARS=4','STRICT'], 'unwind_quick':6, 'unwind_thorough':7,
  'bound':'pool of 3 / 4 slots and 3 / 4 char-infos', 'replay':'c05_assoc', 'witness_defines':['NSLOTS=3','NCHARS=3','STRICT'], 'witness_vars':['w_n','w_m','w_before','w_after'],
  'claims':'the full clause of the statement: when the segment has slots EVERY char-info has before and after in [0,n) and every character lies in the [before,after] range of some slot, also for characters no slot claimed'}@*/

/*@include slots.tc@*/
#ifndef NCHARS
#define NCHARS 3
#endif
CharInfo g_ci[NCHARS];

/*@extract {'file':'src/Segment.cpp', 'sig': r'void Segment::associateChars\(int offset, size_t numChars\)', 'emit':'void Segment_associateChars(Segment *self, int offset, size_t numChars)',
   'subs':[[r'(?<![\w>.])charinfo\(', 'Segment_charinfo_1(self, ', 0]],
   'methods':['before','after','index','next'], 'self':['m_charinfo','m_first']}@*/

bool nondet_bool(void); unsigned nondet_unsigned(void);
void h_associate(void)
{
    havoc_links();
    Segment sg; sg.m_first = pick_slot(); sg.m_last = pick_slot();
    int o0[NSLOTS], n0;
    __CPROVER_assume(wf_list(sg.m_first, sg.m_last, o0, &n0));
    size_t M = nondet_unsigned(); __CPROVER_assume(M >= 1 && M <= NCHARS);
    sg.m_charinfo = g_ci; sg.m_numCharinfo = M; sg.m_numGlyphs = (size_t)n0;
    /* precondition carried by the opcode contracts: every slot's before/after is a char-info index */
    int w_n = n0, w_m = (int)M; uint32 w_before[NSLOTS], w_after[NSLOTS];
    for (int k = 0; k < NSLOTS; ++k) if (k < n0) {
        __CPROVER_assume(g_pool[o0[k]].m_before < M && g_pool[o0[k]].m_after < M);
        w_before[k] = g_pool[o0[k]].m_before; w_after[k] = g_pool[o0[k]].m_after;
    }
    bool covered[NCHARS];
    for (int c = 0; c < NCHARS; ++c) { covered[c] = false; for (int k = 0; k < NSLOTS; ++k) if (k < n0 && (int)w_before[k] <= c && c <= (int)w_after[k]) covered[c] = true; }
    Segment_associateChars(&sg, 0, M);
    for (int k = 0; k < NSLOTS; ++k) if (k < n0) {
        __CPROVER_assert(g_pool[o0[k]].m_index == (uint32)k, "associateChars: slot indices are 0..n-1 in stream order");
        __CPROVER_assert(g_pool[o0[k]].m_before < M && g_pool[o0[k]].m_after < M, "associateChars: slot before/after stay char-info indices in [0,M)");
    }
    for (int c = 0; c < NCHARS; ++c) if ((size_t)c < M) {
        __CPROVER_assert(g_ci[c].m_before == -1 || (g_ci[c].m_before >= 0 && g_ci[c].m_before < n0), "associateChars: an assigned char-info before is a slot index");
        __CPROVER_assert(g_ci[c].m_after == -1 || (g_ci[c].m_after >= 0 && g_ci[c].m_after < n0), "associateChars: an assigned char-info after is a slot index");
        if (covered[c]) __CPROVER_assert(g_ci[c].m_before >= 0 && g_ci[c].m_after >= 0 && g_ci[c].m_before <= g_ci[c].m_after, "associateChars: a character claimed by a slot gets before <= after");
#ifdef STRICT
        if (n0 > 0) {
            /* a character before the first / after the last claimed character is the committed known finding (its own
               assertion, so that nothing else is masked); every other character must get both indices */
            bool edge = true;
            { bool cov_before = false, cov_after = false;
              for (int d = 0; d < NCHARS; ++d) if ((size_t)d < M && covered[d]) { if (d <= c) cov_before = true; if (d >= c) cov_after = true; }
              edge = !(cov_before && cov_after); }
            if (!edge)
                __CPROVER_assert(g_ci[c].m_before >= 0 && g_ci[c].m_before < n0 && g_ci[c].m_after >= 0 && g_ci[c].m_after < n0, "a character between claimed characters gets before/after in [0,n) (also when no slot claims it)");
            else
                __CPROVER_assert(g_ci[c].m_before >= 0 && g_ci[c].m_before < n0 && g_ci[c].m_after >= 0 && g_ci[c].m_after < n0, "every char-info before/after is a slot index in [0,n) when the segment has slots (unclaimed first/last characters)");
            bool in_some = false;
            for (int k = 0; k < NSLOTS; ++k) if (k < n0 && (int)g_pool[o0[k]].m_before <= c && c <= (int)g_pool[o0[k]].m_after) in_some = true;
            /* two slots whose ranges are inverted on entry (before > after: the insert opcode takes before from the following and after from
               the preceding slot) can each take one side of an unclaimed inner character and both stay inverted: second known finding,
               isolated by this case split so that the clause stays strict everywhere else */
            int ninv = 0; for (int k = 0; k < NSLOTS; ++k) if (k < n0 && w_before[k] > w_after[k]) ++ninv;
            if (!edge && ninv < 2)  __CPROVER_assert(in_some, "a character between claimed characters lies in the [before,after] range of at least one slot");
            if (!edge && ninv >= 2) __CPROVER_assert(in_some, "a character between claimed characters lies in some slot range also when two or more slot ranges are inverted on entry");
            else       __CPROVER_assert(in_some, "every character index lies in the [before,after] range of at least one slot (unclaimed first/last characters)");
        }
#endif
    }
    (void)w_n; (void)w_m;
    CANARY();
}
