/* C01 / C03 - what "the library accepted the face" guarantees downstream: Face::readGlyphs (src/Face.cpp).
 * Font::Font divides by glyphs().unitsPerEm() (m_scale, src/Font.cpp) and every shaping path indexes glyph 0 .. numGlyphs-1 and calls
 * through m_cmap, so acceptance must imply: a glyph cache with at least one glyph and a non-zero em size, and a usable cmap.
 * GlyphCache / Cmap construction are stubs returning objects in any state (their own parsing: units c13_*, c14_*, c16_*).
 */
#include "types.h"
/*@unit {'name':'c01_readglyphs_accept', 'props':['C01','C03'], 'entry':'h_readglyphs', 'enforce':'Face_readGlyphs',
  'claims':'Face::readGlyphs returns true only with a glyph cache that has numGlyphs >= 1 and unitsPerEm != 0 (the divisor of Font::m_scale, so positions of a scaled font are finite) and a cmap object that reported itself usable; whatever state the GlyphCache / Cmap constructors leave their objects in'}@*/
typedef struct Error { int _e; } Error;
static bool Error_test(Error *e, bool pr, int err) { return (e->_e = pr ? err : 0); }      /* Error::test (src/inc/Error.h) */
enum { E_OUTOFMEM = 1, E_NOGLYPHS = 2, E_BADUPEM = 3, E_BADCMAP = 4, EC_READGLYPHS = 1 };
enum { gr_face_preloadGlyphs = 1, gr_face_cacheCmap = 2 };
typedef struct GlyphCache { unsigned short _num_glyphs, _upem; } GlyphCache;
typedef struct Cmap { bool ok; } Cmap;
typedef struct Face { GlyphCache *m_pGlyphFaceCache; Cmap *m_cmap; } Face;
bool nondet_bool(void);
static GlyphCache *GlyphCache_new(Face *f, uint32 opts) { (void)f; (void)opts; return nondet_bool() ? (GlyphCache *)0 : (GlyphCache *)malloc(sizeof(GlyphCache)); }
static Cmap *Cmap_new(Face *f) { (void)f; Cmap *c = nondet_bool() ? (Cmap *)0 : (Cmap *)malloc(sizeof(Cmap)); if (c) c->ok = nondet_bool(); return c; }
/*@extract {'file':'src/inc/GlyphCache.h', 'sig': r'unsigned short GlyphCache::numGlyphs\(\) const throw\(\)', 'emit':'static unsigned short GlyphCache_numGlyphs(const GlyphCache *self)', 'self':['_num_glyphs']}@*/
/*@extract {'file':'src/inc/GlyphCache.h', 'sig': r'unsigned short\s+GlyphCache::unitsPerEm\(\) const throw\(\)', 'emit':'static unsigned short GlyphCache_unitsPerEm(const GlyphCache *self)', 'self':['_upem']}@*/
static bool Cmap_bool(const Cmap *c) { return c->ok; }             /* Cmap::operator bool (virtual): whatever the subclass reports */
static bool Face_error(Face *f, Error *e) { (void)f; return !e->_e; }          /* Face::error(Error): true iff no error is set */
static void Face_nameTable(Face *f) { (void)f; }
#define error_context(x) ((void)0)
Face *g_face;
bool Face_readGlyphs(Face *self, uint32 faceOptions)
__CPROVER_requires(self == g_face)
__CPROVER_assigns(self->m_pGlyphFaceCache, self->m_cmap)
__CPROVER_ensures(__CPROVER_return_value ==> (self->m_pGlyphFaceCache != (GlyphCache *)0 && self->m_pGlyphFaceCache->_num_glyphs >= 1))
__CPROVER_ensures(__CPROVER_return_value ==> self->m_pGlyphFaceCache->_upem != 0)
__CPROVER_ensures(__CPROVER_return_value ==> (self->m_cmap != (Cmap *)0 && self->m_cmap->ok));
/*@extract {'file':'src/Face.cpp', 'sig': r'bool Face::readGlyphs\(uint32 faceOptions\)', 'emit':'bool Face_readGlyphs(Face *self, uint32 faceOptions)',
   'subs':[[r'Error e;', 'Error e_; Error *e = &e_; e_._e = 0;', 1], [r'e\.test\(', 'Error_test(e, ', 0], [r'return error\(e\)', 'return Face_error(self, e)', 0],
           [r'new GlyphCache\(\*this, faceOptions\)', 'GlyphCache_new(self, faceOptions)', 1], [r'new (?:CachedCmap|DirectCmap)\(\*this\)', 'Cmap_new(self)', 0],
           [r'm_pGlyphFaceCache->numGlyphs\(\)', 'GlyphCache_numGlyphs(self->m_pGlyphFaceCache)', 0], [r'm_pGlyphFaceCache->unitsPerEm\(\)', 'GlyphCache_unitsPerEm(self->m_pGlyphFaceCache)', 0],
           [r'!\*m_cmap', '!Cmap_bool(self->m_cmap)', 0], [r'\bnameTable\(\)', 'Face_nameTable(self)', 0]],
   'self':['m_pGlyphFaceCache','m_cmap']}@*/
unsigned nondet_unsigned(void);
void h_readglyphs(void)
{
    Face *f = malloc(sizeof(Face)); __CPROVER_assume(f);
    g_face = f;
    bool r = Face_readGlyphs(f, nondet_unsigned());
    (void)r;
    CANARY();
}
