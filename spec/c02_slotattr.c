/* C02 - indexed slot attributes: the user-attribute cells and the justification block of a slot are only ever indexed
 * inside their allocations.  Links of the chain:
 *   loader   : an accepted IATTR_* / PUSH_ISLOT_ATTR carries subindex < attrid[attr] (= numUser for gr_slatUserDefn) and the
 *              un-indexed forms never name gr_slatUserDefn                                   -> unit c02_fetch_opcode
 *   allocation: slot i of a block owns cells [i*numUser, (i+1)*numUser)                       -> unit c02_new_slot
 *   here     : Slot::setAttr / getAttr dispatch (head + user-attribute case), Slot::getJustify / setJustify,
 *              Segment::newJustify (block carving), SlotJustify::LoadSlot.
 * setAttr / getAttr are extracted as two consecutive 'range' pieces (function head up to `switch (ind)`, and the
 * gr_slatUserDefn case); the other cases of the switch do not index arrays by subindex (the attTo case: unit c04_attach_to;
 * charinfo(m_original): C05 range of `original`; collision cases: C17 territory) and are not part of this unit.
 */
#include "types.h"
/*@unit {'name':'c02_slot_userattr', 'props':['C02'], 'entry':'h_userattr',
  'claims':'Slot::setAttr / getAttr: for every attribute code and subindex that the loader lets through (gr_slatUserDefn only with subindex < numUser; gr_slatUserDefnV1 with any subindex) the user-attribute access is inside the slot\'s numUser cells (exact-size array), setAttr(UserDefnV1) on a font without user attributes writes nothing, getAttr guards the index itself; the justification range [JStretch, JStretch+20) minus JWidth is passed on as level = (ind-JStretch)/5 <= 3 and parameter (ind-JStretch)%5 < 5'}@*/
/*@unit {'name':'c02_slot_justify', 'props':['C02'], 'entry':'h_justify', 'kind':'bounded', 'unwind':5,
  'bound':'numJustLevels 0..3 (one call per value), slot block size m_bufSize 1..3; level and parameter arbitrary within the ranges setAttr/getAttr pass on',
  'claims':'Slot::getJustify / setJustify index m_justs->values only inside the SlotJustify::size_of(numJustLevels) bytes Segment::newJustify carves per slot (level 0 always exists, higher levels only below numJustLevels); newJustify hands out disjoint blocks chained through next; SlotJustify::LoadSlot fills only values[0 .. 5*numJustLevels)'}@*/
/*@include slots.tc@*/
/*@extract {'file':'include/graphite2/Segment.h', 'kind':'range', 'start': r'enum gr_attrCode \{', 'end': r'\};', 'end_inclusive': True}@*/
typedef enum gr_attrCode attrCode;
unsigned nondet_unsigned(void); bool nondet_bool(void);
static uint8 g_numUser;
static int Segment_numAttrs(const Segment *s) { (void)s; return g_numUser; }          /* Segment::numAttrs() { return m_silf->numUser(); } */

#ifdef UNIT_c02_slot_userattr
int g_level, g_param; bool g_just_called;
static void Slot_setJustify(Slot *self, Segment *seg, uint8 level, uint8 subindex, int16 value) { (void)self; (void)seg; (void)value; g_just_called = true; g_level = level; g_param = subindex; }
static int  Slot_getJustify(const Slot *self, const Segment *seg, uint8 level, uint8 subindex) { (void)self; (void)seg; g_just_called = true; g_level = level; g_param = subindex; return 0; }
/*@extract {'file':'src/Slot.cpp', 'kind':'range', 'scope': r'void Slot::setAttr\(Segment \*seg, attrCode ind, uint8 subindex, int16 value, const SlotMap & map\)',
   'start': r'if \(ind == gr_slatUserDefnV1\)', 'end': r'switch \(ind\)',
   'pre':'static void Slot_setAttr_user(Slot *self, Segment *seg, attrCode ind, uint8 subindex, int16 value)\n{\n', 'post':'\n    switch (ind) {\n',
   'subs':[[r'seg->numAttrs\(\)', 'Segment_numAttrs(seg)', 0], [r'return setJustify\(seg, ([^;]*)\);', r'{ Slot_setJustify(self, seg, \1); return; }', 0]]}@*/
/*@extract {'file':'src/Slot.cpp', 'kind':'range', 'scope': r'void Slot::setAttr\(Segment \*seg, attrCode ind, uint8 subindex, int16 value, const SlotMap & map\)',
   'start': r'case gr_slatUserDefn\s*:', 'end': r'break;', 'end_inclusive': True,
   'post':'\n    default: break;\n    }\n}\n', 'self':['m_userAttr']}@*/
/*@extract {'file':'src/Slot.cpp', 'kind':'range', 'scope': r'int Slot::getAttr\(const Segment \*seg, attrCode ind, uint8 subindex\) const',
   'start': r'if \(ind >= gr_slatJStretch', 'end': r'switch \(ind\)',
   'pre':'static int Slot_getAttr_user(const Slot *self, const Segment *seg, attrCode ind, uint8 subindex)\n{\n', 'post':'\n    switch (ind) {\n',
   'subs':[[r'return getJustify\(seg, ', 'return Slot_getJustify(self, seg, ', 0]]}@*/
/*@extract {'file':'src/Slot.cpp', 'kind':'range', 'scope': r'int Slot::getAttr\(const Segment \*seg, attrCode ind, uint8 subindex\) const',
   'start': r'case gr_slatUserDefnV1\s*:', 'end': r'case gr_slatSegSplit',
   'post':'\n    default: return 0;\n    }\n}\n',
   'subs':[[r'seg->numAttrs\(\)', 'Segment_numAttrs(seg)', 0], [r'GR_FALLTHROUGH;', '', 0]], 'self':['m_userAttr']}@*/

void h_userattr(void)
{
    Slot *s = malloc(sizeof(Slot)); __CPROVER_assume(s);
    g_numUser = (uint8)nondet_unsigned();
    int16 *cells = malloc(g_numUser * sizeof(int16));                           /* exactly numUser cells (unit c02_new_slot) */
    __CPROVER_assume(cells || g_numUser == 0);
    s->m_userAttr = cells;
    attrCode ind = (attrCode)(nondet_unsigned() % 256); uint8 sub = (uint8)nondet_unsigned(); int16 v = (int16)nondet_unsigned();
    /* what the loader lets through (postconditions of c02_fetch_opcode with attrid[gr_slatUserDefn] = numUser) */
    __CPROVER_assume(ind != gr_slatUserDefn || sub < g_numUser);
    g_just_called = false;
    if (nondet_bool()) {
        int16 before = (ind == gr_slatUserDefn || (ind == gr_slatUserDefnV1 && g_numUser)) ? 0 : 1;
        Slot_setAttr_user(s, (Segment *)0, ind, sub, v);
        if (ind == gr_slatUserDefn) __CPROVER_assert(cells[sub] == v, "setAttr(UserDefn, i) stores into cell i");
        if (ind == gr_slatUserDefnV1 && g_numUser) __CPROVER_assert(cells[0] == v, "setAttr(UserDefnV1) stores into cell 0");
        (void)before;
    } else {
        int r = Slot_getAttr_user(s, (const Segment *)0, ind, sub);
        if (ind == gr_slatUserDefn) __CPROVER_assert(r == cells[sub], "getAttr(UserDefn, i) reads cell i");
        if (ind == gr_slatUserDefnV1) __CPROVER_assert(r == (g_numUser ? cells[0] : 0), "getAttr(UserDefnV1) reads cell 0 or yields 0");
    }
    if (g_just_called) __CPROVER_assert(ind >= gr_slatJStretch && ind < gr_slatJStretch + 20 && ind != gr_slatJWidth && g_level <= 3 && g_param < 5 && g_level * 5 + g_param == (int)ind - (int)gr_slatJStretch,
                                        "the justification attributes are passed on as (level <= 3, parameter < 5)");
    else __CPROVER_assert(!(ind >= gr_slatJStretch && ind < gr_slatJStretch + 20 && ind != gr_slatJWidth), "every justification attribute code is dispatched to get/setJustify");
    CANARY();
}
#endif

#ifdef UNIT_c02_slot_justify
struct SlotJustify { struct SlotJustify *next; int16 values[1]; };               /* data members of struct SlotJustify (src/inc/Slot.h) */
/* `values[1]` is the pre-C99 struct hack: the code indexes it beyond its declared bound, inside the size_of() bytes of the block.
   The rewrite rules below turn `values[i]` into `(&values[0])[i]` (same address computation) so that the access is judged against the
   allocation, not against the declared one-element member. */
enum { NUMJUSTPARAMS = 5 };
/*@extract {'file':'src/inc/Slot.h', 'scope': r'struct SlotJustify\s*\{', 'sig': r'static size_t size_of\(size_t levels\)', 'emit':'static size_t SlotJustify_size_of(size_t levels)',
   'subs':[[r'sizeof\(SlotJustify\)', 'sizeof(struct SlotJustify)', 0]]}@*/
typedef struct Justinfo { uint8 m_astretch, m_ashrink, m_astep, m_aweight; } Justinfo;
static uint8 g_levels; static Justinfo g_jinfo[4];
static int16 Segment_glyphAttr(const Segment *s, uint16 gid, uint16 a) { (void)s; (void)gid; (void)a; return (int16)nondet_unsigned(); }
typedef struct SegJ { SlotJustify *m_freeJustifies; size_t m_bufSize; } SegJ;
static SegJ g_sj; static byte *g_block; static size_t g_block_size; static int g_pushes;
static byte *grzeroalloc_byte(size_t n) { if (nondet_bool()) return (byte *)0; byte *p = calloc(n, 1); if (!p) return p; g_block = p; g_block_size = n; return p; }
static void Rope_push_back(SlotJustify *p) { (void)p; ++g_pushes; }
/*@extract {'file':'src/Segment.cpp', 'sig': r'SlotJustify \*Segment::newJustify\(\)', 'emit':'static SlotJustify *Segment_newJustify(Segment *seg_)', 'casts': True,
   'subs':[[r'SlotJustify::size_of\(m_silf->numJustLevels\(\)\)', 'SlotJustify_size_of(g_levels)', 0], [r'grzeroalloc<byte>\(', 'grzeroalloc_byte(', 0],
           [r'm_justifies\.push_back\(', 'Rope_push_back(', 0], [r'\bm_freeJustifies\b', 'g_sj.m_freeJustifies', 0], [r'\bm_bufSize\b', 'g_sj.m_bufSize', 0]]}@*/
/*@extract {'file':'src/Slot.cpp', 'sig': r'void SlotJustify::LoadSlot\(const Slot \*s, const Segment \*seg\)', 'emit':'static void SlotJustify_LoadSlot(SlotJustify *self, const Slot *s, const Segment *seg)',
   'subs':[[r'seg->silf\(\)->numJustLevels\(\)', 'g_levels', 0], [r'seg->silf\(\)->justAttrs\(\)', 'g_jinfo', 0], [r'seg->glyphAttr\(', 'Segment_glyphAttr(seg, ', 0],
           [r'justs->attrStretch\(\)', 'justs->m_astretch', 0], [r'justs->attrShrink\(\)', 'justs->m_ashrink', 0], [r'justs->attrStep\(\)', 'justs->m_astep', 0], [r'justs->attrWeight\(\)', 'justs->m_aweight', 0], [r'\bvalues\b', '(&self->values[0])', 0]],
   'methods':['gid']}@*/
/*@extract {'file':'src/Slot.cpp', 'sig': r'void Slot::setJustify\(Segment \*seg, uint8 level, uint8 subindex, int16 value\)', 'emit':'static void Slot_setJustify(Slot *self, Segment *seg, uint8 level, uint8 subindex, int16 value)',
   'subs':[[r'seg->silf\(\)->numJustLevels\(\)', 'g_levels', 0], [r'seg->newJustify\(\)', 'Segment_newJustify(seg)', 0], [r'j->LoadSlot\(this, seg\)', 'SlotJustify_LoadSlot(j, self, seg)', 0],
           [r'SlotJustify::NUMJUSTPARAMS', 'NUMJUSTPARAMS', 0], [r'm_justs->values\[', '(&m_justs->values[0])[', 0]],
   'self':['m_justs']}@*/
/*@extract {'file':'src/Slot.cpp', 'sig': r'int Slot::getJustify\(const Segment \*seg, uint8 level, uint8 subindex\) const', 'emit':'static int Slot_getJustify(const Slot *self, const Segment *seg, uint8 level, uint8 subindex)',
   'subs':[[r'seg->silf\(\)->numJustLevels\(\)', 'g_levels', 0], [r'seg->silf\(\)->justAttrs\(\)', 'g_jinfo', 0], [r'seg->glyphAttr\(gid\(\), ', 'Segment_glyphAttr(seg, self->m_glyphid, ', 0],
           [r'jAttrs->attrStretch\(\)', 'jAttrs->m_astretch', 0], [r'jAttrs->attrShrink\(\)', 'jAttrs->m_ashrink', 0], [r'jAttrs->attrStep\(\)', 'jAttrs->m_astep', 0], [r'jAttrs->attrWeight\(\)', 'jAttrs->m_aweight', 0], [r'SlotJustify::NUMJUSTPARAMS', 'NUMJUSTPARAMS', 0], [r'm_justs->values\[', '(&m_justs->values[0])[', 0]],
   'self':['m_justs']}@*/

void h_justify(void)
{
    Slot *s = malloc(sizeof(Slot)), *s2 = malloc(sizeof(Slot)); __CPROVER_assume(s && s2);
    s->m_justs = (SlotJustify *)0; s2->m_justs = (SlotJustify *)0;
    unsigned lv = nondet_unsigned(), bs = nondet_unsigned();
    __CPROVER_assume(lv <= 3 && bs >= 1 && bs <= 3);
    uint8 level = (uint8)nondet_unsigned(), prm = (uint8)nondet_unsigned();
    __CPROVER_assume(level <= 3 && prm < 5);                                     /* what setAttr/getAttr pass on: unit c02_slot_userattr */
    int16 v = (int16)nondet_unsigned();
#define RUN(L, B) if (lv == (L) && bs == (B)) { g_levels = (L); g_sj.m_bufSize = (B); g_sj.m_freeJustifies = (SlotJustify *)0; g_pushes = 0; g_block = 0; \
        Slot_setJustify(s, (Segment *)0, level, prm, v); \
        if (s->m_justs) { \
            __CPROVER_assert((byte *)s->m_justs == g_block && g_pushes == 1, "newJustify: the first block of a fresh buffer, recorded for release"); \
            __CPROVER_assert(g_block_size == SlotJustify_size_of(L) * (B), "newJustify: m_bufSize blocks of size_of(numJustLevels) bytes"); \
            if (level == 0 || level < (L)) __CPROVER_assert(Slot_getJustify(s, (const Segment *)0, level, prm) == v, "getJustify reads back what setJustify stored"); \
            if ((B) > 1) { Slot_setJustify(s2, (Segment *)0, level, prm, (int16)(v + 1)); \
                __CPROVER_assert(s2->m_justs && (byte *)s2->m_justs == g_block + SlotJustify_size_of(L) && g_pushes == 1, "newJustify: the next slot gets the next block of the same buffer"); \
                if (level == 0 || level < (L)) __CPROVER_assert(Slot_getJustify(s, (const Segment *)0, level, prm) == v, "blocks are disjoint: the first slot's value is untouched"); } \
        } \
        /* a slot that owns a block, asked for / given any level: levels at or above numJustLevels (other than 0) are refused, never indexed */ \
        Slot_setJustify(s2, (Segment *)0, 0, prm, v); \
        if (s2->m_justs) { int r = Slot_getJustify(s2, (const Segment *)0, level, prm); \
            if (level != 0 && level >= (L)) __CPROVER_assert(r == 0, "getJustify: a level the font does not define reads as 0"); \
            Slot_setJustify(s2, (Segment *)0, level, prm, (int16)(v ^ 1)); \
            if (level != 0 && level >= (L)) __CPROVER_assert(Slot_getJustify(s2, (const Segment *)0, 0, prm) == v, "setJustify: a level the font does not define is ignored"); } \
        else (void)Slot_getJustify(s2, (const Segment *)0, level, prm); }
    RUN(0,1) RUN(1,2) RUN(2,1) RUN(2,3) RUN(3,2)
    CANARY();
}
#endif
