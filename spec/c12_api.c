/* C12 - the call chain in front of Segment::read_text (src/gr_segment.cpp): gr_make_seg -> makeAndInitialize -> read_text.
 * Glue lemma: the text pointer, the encoding and nChars reach Segment::Segment / read_text unchanged, a failed read_text or
 * runGraphite deletes the segment and returns NULL.  Collaborators are logging stubs (read_text: unit c12_read_text).
 */
#include "types.h"
/*@unit {'name':'c12_api_chain', 'props':['C12'], 'entry':'h_chain', 'enforce':'gr_make_seg', 'replace':['Segment_new','Segment_read_text','Segment_runGraphite','Segment_finalise','Segment_delete','SillMap_cloneFeatures0','FeatureVal_delete'],
  'claims':'gr_make_seg hands pStart, enc and nChars unchanged to Segment::Segment(nChars, ...) and Segment::read_text(face, feats, enc, pStart, nChars); NULL face gives NULL; when read_text or runGraphite fails the segment is deleted and NULL returned; default features are cloned and released when the caller passes none'}@*/
typedef struct Segment Segment; typedef struct Face Face; typedef struct Font Font; typedef struct Features Features;
typedef Segment gr_segment; typedef Face gr_face; typedef Font gr_font; typedef Features gr_feature_val; typedef Features FeatureVal;
typedef int gr_encform;
const void *g_text; size_t g_nchars; int g_enc; const Face *g_face;
bool g_new_ok, g_read_ok, g_run_ok; Segment *g_seg; bool g_deleted, g_read_called, g_finalised; Features *g_tmp; bool g_tmp_deleted;
Segment *Segment_new(size_t numchars, const Face *face, uint32 script, int dir)
__CPROVER_requires(numchars == g_nchars && face == g_face) __CPROVER_assigns() __CPROVER_ensures(__CPROVER_return_value == g_seg);
bool Segment_read_text(Segment *s, const Face *face, const Features *f, gr_encform enc, const void *pStart, size_t nChars)
__CPROVER_requires(s == g_seg && face == g_face && f != NULL && enc == g_enc && pStart == g_text && nChars == g_nchars)
__CPROVER_assigns(g_read_called) __CPROVER_ensures(g_read_called == true && __CPROVER_return_value == g_read_ok);
bool Segment_runGraphite(Segment *s) __CPROVER_requires(s == g_seg && g_read_called) __CPROVER_assigns() __CPROVER_ensures(__CPROVER_return_value == g_run_ok);
void Segment_finalise(Segment *s, const Font *font, bool reverse) __CPROVER_requires(s == g_seg) __CPROVER_assigns(g_finalised) __CPROVER_ensures(g_finalised == true);
void Segment_delete(Segment *s) __CPROVER_requires(s == g_seg && !g_deleted) __CPROVER_assigns(g_deleted) __CPROVER_ensures(g_deleted == true);
Features *SillMap_cloneFeatures0(const Face *face) __CPROVER_requires(face == g_face) __CPROVER_assigns() __CPROVER_ensures(__CPROVER_return_value == g_tmp);
void FeatureVal_delete(const Features *f) __CPROVER_requires(f == g_tmp) __CPROVER_assigns(g_tmp_deleted) __CPROVER_ensures(g_tmp_deleted == true);
#define M_read_text_5 Segment_read_text
#define M_runGraphite_0 Segment_runGraphite
#define M_finalise_2 Segment_finalise
gr_segment *makeAndInitialize(const Font *font, const Face *face, uint32 script, const Features *pFeats, gr_encform enc, const void *pStart, size_t nChars, int dir);
/*@extract {'file':'src/gr_segment.cpp', 'sig': r'gr_segment\* makeAndInitialize\(const Font \*font, const Face \*face, uint32 script, const Features\* pFeats(?:/\*[^*]*\*/)?, gr_encform enc, const void\* pStart, size_t nChars, int dir\)',
   'emit':'gr_segment *makeAndInitialize(const Font *font, const Face *face, uint32 script, const Features *pFeats, gr_encform enc, const void *pStart, size_t nChars, int dir)',
   'casts': True, 'subs':[[r'new Segment\(', 'Segment_new(', 0], [r'delete pRes;', 'Segment_delete(pRes);', 0]], 'methods':['read_text','runGraphite','finalise']}@*/
gr_segment *gr_make_seg(const gr_font *font, const gr_face *face, gr_uint32 script, const gr_feature_val *pFeats, gr_encform enc, const void *pStart, size_t nChars, int dir)
__CPROVER_requires(face == g_face && pStart == g_text && nChars == g_nchars && enc == g_enc && !g_deleted && !g_read_called && !g_tmp_deleted && (g_seg != NULL) )
__CPROVER_assigns(g_read_called, g_finalised, g_deleted, g_tmp_deleted)
__CPROVER_ensures(face == NULL ==> (__CPROVER_return_value == NULL && !g_read_called))
__CPROVER_ensures(face != NULL ==> (g_read_called && (__CPROVER_return_value != NULL) == (g_read_ok && g_run_ok) && g_deleted == !(g_read_ok && g_run_ok)
                                    && (__CPROVER_return_value == NULL || (__CPROVER_return_value == g_seg && g_finalised)) && g_tmp_deleted == (pFeats == NULL)));
/*@extract {'file':'src/gr_segment.cpp', 'sig': r'gr_segment\* gr_make_seg\(const gr_font \*font, const gr_face \*face, gr_uint32 script, const gr_feature_val\* pFeats, gr_encform enc, const void\* pStart, size_t nChars, int dir\)',
   'emit':'gr_segment *gr_make_seg(const gr_font *font, const gr_face *face, gr_uint32 script, const gr_feature_val *pFeats, gr_encform enc, const void *pStart, size_t nChars, int dir)',
   'subs':[[r'static_cast<const gr_feature_val\*>\(face->theSill\(\)\.cloneFeatures\(0\)\)', 'SillMap_cloneFeatures0(face)', 0], [r'delete static_cast<const FeatureVal\*>\(tmp_feats\);', 'if (tmp_feats) FeatureVal_delete(tmp_feats);', 0]]}@*/
unsigned nondet_unsigned(void); bool nondet_bool(void); size_t nondet_size_t(void); int nondet_int(void);
void h_chain(void)
{
    Face *face = nondet_bool() ? (Face *)0 : malloc(1); Segment *seg = malloc(1); Features *tmp = malloc(1), *mine = nondet_bool() ? (Features *)0 : malloc(1);
    __CPROVER_assume(seg && tmp);
    g_face = face; g_seg = seg; g_tmp = tmp; g_text = malloc(1); g_nchars = nondet_size_t(); g_enc = nondet_int();
    g_read_ok = nondet_bool(); g_run_ok = nondet_bool(); g_deleted = false; g_read_called = false; g_finalised = false; g_tmp_deleted = false;
    gr_segment *r = gr_make_seg((const Font *)0, face, nondet_unsigned(), mine, g_enc, g_text, g_nchars, nondet_int());
    (void)r;
    CANARY();
}
