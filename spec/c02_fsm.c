/* C02 - Pass::runFSM (src/Pass.cpp): the state-table walk that fills the slot map for one rule match.
 * PASS_WF, established at load time (Pass::readStates refuses start states and transitions >= numStates; Pass::readRanges
 * leaves every glyph column 0xFFFF or < numColumns - unit c01_readranges): used here as INSTANCES at the cells the walk
 * reads (three ghost statements `__CPROVER_assume(<loader-established fact for the cell just read>)`, listed as
 * assumptions; they are instances of universally quantified facts about immutable tables, not facts about the code).
 */
#include "types.h"
/*@unit {'name':'c02_run_fsm', 'props':['C02','C06'], 'entry':'h_fsm', 'enforce':'Pass_runFSM', 'replace':['FSM_reset','Rules_accumulate_rules'], 'min_loops':1, 'defines':['NSLOTS=3'],
  'assumptions':['PASS_WF instances (start state < numStates, transition < numStates, glyph column < numColumns) assumed at the three table reads: established by Pass::readStates / readRanges at load time',
                 'FiniteStateMachine::reset and Rules::accumulate_rules are contract stubs (accumulate_rules: C06 units)'],
  'claims':'Pass::runFSM: every table read (start states, glyph columns, transitions, success states) is in bounds, at most MAX_SLOTS slots plus the trailing one are pushed so the slot map (MAX_SLOTS+1 cells) is never overrun whatever the slot chain looks like (even cyclic), the walk starts in startStates[maxPreCtxt - context], accumulate_rules is called only for success states below numStates, and the loop terminates (free_slots decreases)'}@*/
/*@include slots.tc@*/
typedef struct RuleEntry RuleEntry;
typedef struct State { const RuleEntry *rules, *rules_end; } State;
typedef struct Rules Rules;
typedef struct FiniteStateMachine { SlotMap *slots_; Rules *rules_; } FiniteStateMachine;
typedef struct Pass {
/*@extract {'kind':'members', 'file':'src/inc/Pass.h', 'scope': r'class Pass\s*\{', 'names':['m_cols','m_startStates','m_transitions','m_states','m_numGlyphs','m_numStates','m_numTransition','m_successStart','m_numColumns','m_minPreCtxt','m_maxPreCtxt']}@*/
} Pass;
enum { MAX_SLOTS = 64 };
#define SlotMap__MAX_SLOTS MAX_SLOTS
const Pass *g_pass;
void FSM_reset(FiniteStateMachine *fsm, Slot **slot, unsigned short max_pre_ctxt)
__CPROVER_assigns(fsm->slots_->m_size, fsm->slots_->m_precontext, fsm->slots_->m_slot_map[0], *slot)
__CPROVER_ensures(fsm->slots_->m_size == 0 && fsm->slots_->m_precontext <= max_pre_ctxt
                  && SAME(*slot, g_pool) && OFF(*slot) % sizeof(Slot) == 0 && OFF(*slot) < sizeof(g_pool));
void Rules_accumulate_rules(Rules *r, const State *st)
__CPROVER_requires(SAME(st, g_pass->m_states) && OFF(st) % sizeof(State) == 0 && OFF(st) < (size_t)g_pass->m_numStates * sizeof(State))
__CPROVER_assigns() __CPROVER_ensures(1);
#define M_reset_2(f, s, m) FSM_reset(f, &(s), m)
#define M_accumulate_rules_1(r, st) Rules_accumulate_rules(r, &(st))
static unsigned short SlotMap_context_0(const SlotMap *m) { return m->m_precontext; }       /* SlotMap::context() { return m_precontext; } */
#define M_context_0 SlotMap_context_0
/*@extract {'file':'src/inc/Rule.h', 'sig': r'void SlotMap::pushSlot\(Slot\*const slot\)', 'emit':'static void SlotMap_pushSlot_1(SlotMap *self, Slot *const slot)', 'self':['m_slot_map','m_size']}@*/
#define M_pushSlot_1 SlotMap_pushSlot_1

bool Pass_runFSM(const Pass *self, FiniteStateMachine *fsm, Slot *slot)
__CPROVER_requires(self == g_pass && self->m_minPreCtxt <= self->m_maxPreCtxt && self->m_successStart <= self->m_numStates)
__CPROVER_requires(OFF(self->m_cols) == 0 && OBJSZ(self->m_cols) == (size_t)self->m_numGlyphs * 2)
__CPROVER_requires(OFF(self->m_startStates) == 0 && OBJSZ(self->m_startStates) == ((size_t)self->m_maxPreCtxt - self->m_minPreCtxt + 1) * 2)
__CPROVER_requires(OFF(self->m_transitions) == 0 && OBJSZ(self->m_transitions) == (size_t)self->m_numTransition * self->m_numColumns * 2)
__CPROVER_requires(OFF(self->m_states) == 0 && OBJSZ(self->m_states) == (size_t)self->m_numStates * sizeof(State))
__CPROVER_requires(SAME(slot, g_pool) && OFF(slot) % sizeof(Slot) == 0 && OFF(slot) < sizeof(g_pool))
__CPROVER_assigns(fsm->slots_->m_size, fsm->slots_->m_precontext, __CPROVER_object_whole(fsm->slots_->m_slot_map))
__CPROVER_ensures(fsm->slots_->m_size <= MAX_SLOTS)
/* C06: the walk gives a negative verdict (the accumulated rules are dropped by findNDoRule) only for lack of pre-context or because
   the match filled the slot map - never because of the glyph that follows the match (outside the range table, or without a column) */
__CPROVER_ensures(!__CPROVER_return_value ==> (fsm->slots_->m_precontext < self->m_minPreCtxt || fsm->slots_->m_size == MAX_SLOTS));
/*@extract {'file':'src/Pass.cpp', 'sig': r'bool Pass::runFSM\(FiniteStateMachine& fsm, Slot \* slot\) const', 'emit':'bool Pass_runFSM(const Pass *self, FiniteStateMachine *fsm, Slot *slot)',
   'subs':[[r'fsm\.slots\b', '(*fsm.slots_)', 0], [r'fsm\.rules\b', '(*fsm.rules_)', 0], [r'SlotMap::MAX_SLOTS', 'MAX_SLOTS', 0]],
   'methods':['reset','context','pushSlot','accumulate_rules','gid','next'], 'refs':['fsm'],
   'self':['m_maxPreCtxt','m_minPreCtxt','m_startStates','m_numGlyphs','m_cols','m_numTransition','m_transitions','m_numColumns','m_successStart','m_states'],
   'inserts':[[r'uint16 state = m_startStates\[[^;]*;', '__CPROVER_assume(state < self->m_numStates);   /* PASS_WF instance: readStates refuses start states >= numStates */', 'after'],
              [r'const uint16 \* transitions = ', '__CPROVER_assume(self->m_cols[M_gid_0(slot)] < self->m_numColumns);   /* PASS_WF instance: readRanges leaves 0xFFFF or a valid column */', 'before'],
              [r'state = transitions\[[^;]*;', '__CPROVER_assume(state < self->m_numStates);   /* PASS_WF instance: readStates refuses transitions >= numStates */', 'after']],
   'loops':{1: """__CPROVER_assigns(slot, state, free_slots, fsm.slots_->m_size, __CPROVER_object_whole(fsm.slots_->m_slot_map))
                  __CPROVER_loop_invariant(free_slots >= 1 && free_slots <= MAX_SLOTS && fsm.slots_->m_size + free_slots == MAX_SLOTS && state < self->m_numStates)
                  __CPROVER_loop_invariant(SAME(slot, g_pool) && OFF(slot) % sizeof(Slot) == 0 && OFF(slot) < sizeof(g_pool))
                  __CPROVER_decreases(free_slots)"""}}@*/
unsigned nondet_unsigned(void); size_t nondet_size_t(void);
void h_fsm(void)
{
    havoc_links();
    Pass *p = malloc(sizeof(Pass)); __CPROVER_assume(p);
    __CPROVER_assume(p->m_numGlyphs <= 64 && p->m_numStates <= 64 && p->m_numTransition <= 64 && p->m_numColumns <= 16 && p->m_minPreCtxt <= p->m_maxPreCtxt && p->m_successStart <= p->m_numStates);
    p->m_cols = malloc((size_t)p->m_numGlyphs * 2); p->m_startStates = malloc(((size_t)p->m_maxPreCtxt - p->m_minPreCtxt + 1) * 2);
    p->m_transitions = malloc((size_t)p->m_numTransition * p->m_numColumns * 2); p->m_states = malloc((size_t)p->m_numStates * sizeof(State));
    __CPROVER_assume(p->m_cols && p->m_startStates && p->m_transitions && p->m_states);
    g_pass = p;
    SlotMap *sm = malloc(sizeof(SlotMap)); Rules *rl = malloc(8); FiniteStateMachine *fsm = malloc(sizeof(FiniteStateMachine));
    __CPROVER_assume(sm && rl && fsm);
    fsm->slots_ = sm; fsm->rules_ = rl;
    Slot *s = pick_slot(); __CPROVER_assume(s);
    bool r = Pass_runFSM(p, fsm, s);
    (void)r;
    CANARY();
}
