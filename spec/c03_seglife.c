/* C03 / C04 / C19 / C02 - the life of a segment as the client sees it: glyph ids, the base chain, the observation points, release.
 *
 * (a) Slot::setGlyph (src/Slot.cpp)                                         units c03_setglyph, c03_setglyph_strict (proof, loop-free)
 * (b) Segment::linkClusters (src/Segment.cpp), quick-tier size               units c04_link_ltr, c04_link_rtl (bounded)
 * (c) Segment::newSlot x k, Segment::newJustify x j, Segment::~Segment, gr_seg_destroy
 *     (src/Segment.cpp, src/gr_segment.cpp) with Vector<T*>::push_back/reserve/begin/end/~Vector of src/inc/List.h
 *                                                                            units c19_seg_destroy_* (bounded, --memory-leak-check)
 * (d) the observation points of the properties: gr_slot_* (src/gr_slot.cpp), gr_seg_* (src/gr_segment.cpp),
 *     gr_cinfo_* (src/gr_char_info.cpp)                                      units c03_api_slot, c03_api_seg, c03_api_cinfo (proof, loop-free)
 *
 * The slot universe, struct shims and wf_list come from slots.tc; the forest predicate is the one of c04_forest.c.
 */
#include "types.h"

/*@unit {'name':'c03_setglyph', 'props':['C03','C02'], 'entry':'h_setglyph', 'enforce':'Slot_setGlyph',
  'replace':['GlyphCache_glyphSafe','GlyphFace_attr'], 'kind':'proof', 'unwind':4, 'defines':['SETGLYPH'],
  'replay':'seglife', 'witness_defines':[], 'witness_vars':['w_gid','w_ng','w_attr'],
  'assumptions':['GlyphCache::glyphSafe(gid) is NULL for gid >= numGlyphs and otherwise a function of gid that yields NULL or a valid GlyphFace (unit c02_gcc_glyphsafe)',
                 'sparse::operator[] (glyph attribute lookup) is a pure function of (glyph, attribute number) returning any 16-bit value (unit c01_sparse_lookup)',
                 'a non-NULL theGlyph argument is glyphSafe(glyphid) (call sites Segment::appendSlot and Segment::addLineEnd; all other callers pass NULL)',
                 'clause 1 only: the pseudo-glyph attribute of the glyph names a real glyph (value < numGlyphs) - the premise of the C03 statement'],
  'claims':'Slot::setGlyph for any glyph id, any number of glyphs, any attribute values: the id that gr_slot_gid reports afterwards (real body of gr_slot_gid run on the slot) is below numGlyphs whenever the requested id is and the pseudo-glyph attribute names a real glyph; m_glyphid is the requested id; the real-glyph id is the attribute or 0, 0 for a missing glyph and for attributes above numGlyphs; the advance is that of the real glyph (of the glyph itself when there is none) with y = 0, and (0,0) for a missing glyph; pass bits are only cleared, never set; nothing but glyph id, real glyph id, bidi class, advance of this slot and the pass bits is written'}@*/
/*@unit {'name':'c03_setglyph_strict', 'props':['PARKED_seglife'], 'tiers':['parked'], 'entry':'h_setglyph', 'enforce':'Slot_setGlyph',
  'replace':['GlyphCache_glyphSafe','GlyphFace_attr'], 'kind':'proof', 'unwind':4, 'defines':['SETGLYPH','STRICT'],
  'replay':'seglife', 'witness_defines':[], 'witness_vars':['w_gid','w_ng','w_attr'],
  'assumptions':['as c03_setglyph, without the premise on the pseudo-glyph attribute'],
  'claims':'(strict variant: the clamp alone protects the client) Slot::setGlyph accepts a real-glyph id from the pseudo-glyph attribute only when it is below numGlyphs, so that gr_slot_gid < numGlyphs whenever the requested id is, whatever the attribute says. EXPECTED TO FAIL on the current tree: the clamp tests `>` and lets attribute == numGlyphs through'}@*/

/*@unit {'name':'c04_link_ltr', 'props':['C04'], 'entry':'h_linkq', 'kind':'bounded', 'defines_quick':['NSLOTS=4','LINKQ','RTL=0'], 'defines_thorough':['NSLOTS=5','LINKQ','RTL=0'],
  'unwind_quick':7, 'unwind_thorough':8, 'bound':'pool of 4 (quick) / 5 (thorough) slots, streams of 1..4 (quick) / 1..5 (thorough) slots, every base / attached pattern (one run per pattern), any sibling links on attached slots and on slots outside the stream, left-to-right segment (m_dir even)',
  'assumptions':['symmetry reduction: the stream is laid out in pool order (slot 0, 1, .., n-1); slots are interchangeable because linkClusters never compares addresses for order - arbitrary layouts over 3 slots are covered by the thorough-tier unit c04_link_clusters',
                 'an attached slot names the following stream slot as its parent (concrete, so that the loops run on concrete links): linkClusters only ever asks isBase()',
                 'on entry no base carries a sibling link: linkClusters runs once, from Segment::finalise, and the rule-time mutators keep bases unlinked (units c04_attach_to, c04_free_slot)',
                 'first and last are non-NULL ends of the stream (the guard at the top of Segment::finalise)'],
  'claims':'Segment::linkClusters(first, last), left-to-right: following the sibling link from the first base of the stream visits every base exactly once, in stream order, and ends with NULL; a stream without bases is left alone; no parent or child link and no sibling link of an attached slot is written, slots outside the stream are untouched'}@*/
/*@unit {'name':'c04_link_rtl', 'props':['C04'], 'entry':'h_linkq', 'kind':'bounded', 'defines_quick':['NSLOTS=4','LINKQ','RTL=1'], 'defines_thorough':['NSLOTS=5','LINKQ','RTL=1'],
  'unwind_quick':7, 'unwind_thorough':8, 'bound':'pool of 4 (quick) / 5 (thorough) slots, streams of 1..4 (quick) / 1..5 (thorough) slots, every base / attached pattern (one run per pattern), any sibling links on attached slots and on slots outside the stream, right-to-left segment (m_dir odd)',
  'assumptions':['as c04_link_ltr'],
  'claims':'Segment::linkClusters(first, last), right-to-left: following the sibling link from the LAST base of the stream visits every base exactly once, in reverse stream order, and ends with NULL at the first base; no parent or child link and no sibling link of an attached slot is written, slots outside the stream are untouched'}@*/

/*@unit {'name':'c19_seg_destroy_b1', 'props':['C19','C02','C16'], 'entry':'h_destroy', 'kind':'bounded', 'unwind':5, 'defines':['DTOR','BUF=1','KS=2','KJ=2','NUSER=1'], 'checks':['--memory-leak-check'],
  'bound':'slot blocks of 1 slot with 1 user attribute; 0..2 newSlot calls and 0..2 newJustify calls (each allocates a block, so each rope grows to 2 entries through one reallocation); 1 justification level; 2 char-infos; with or without a collision array; every calloc may fail',
  'assumptions':['realloc(p, n) is malloc(n) + copy of the old elements + free(p), or NULL (Vector::reserve then aborts)',
                 'delete-expressions are modelled by spec code: `delete p` = destructor body, then the destructors of the rope members (extracted ~Vector), then operator delete = free (CLASS_NEW_DELETE); `delete[] m_charinfo` = free (CharInfo has a trivial destructor, no array cookie)',
                 'the member m_feats (Vector<Features>) is not modelled: its release is not covered here',
                 'the segment is in the state its constructor leaves: empty ropes, empty free lists (the constructor itself is not extracted)'],
  'claims':'gr_seg_destroy after any admissible history of Segment::newSlot / Segment::newJustify calls (real bodies, real Vector<T*>::push_back / reserve): every block those calls obtained and kept (slot blocks, attribute blocks, justify blocks), every rope buffer, the char-info array, the collision array and the segment itself are freed exactly once; nothing the segment does not own (face, silf) is freed; blocks of a failed newSlot are freed on the spot; no allocation is left (memory-leak check) and nothing is freed twice'}@*/
/*@unit {'name':'c19_seg_destroy_b2', 'props':['C19','C02','C16'], 'entry':'h_destroy', 'kind':'bounded', 'unwind':5, 'defines':['DTOR','BUF=2','KS=3','KJ=3','NUSER=0'], 'checks':['--memory-leak-check'],
  'bound':'slot blocks of 2 slots without user attributes; 0..3 newSlot calls and 0..3 newJustify calls (the third one allocates the second block after the free list ran empty); 1 justification level; 2 char-infos; with or without a collision array; every calloc may fail',
  'assumptions':['as c19_seg_destroy_b1'],
  'claims':'as c19_seg_destroy_b1 for blocks of two slots: the free-list pops between the two block allocations do not disturb the ropes; all blocks are freed exactly once by gr_seg_destroy'}@*/

/*@unit {'name':'c03_api_slot', 'props':['C03','C04','C02'], 'entry':'h_api_slot', 'kind':'proof', 'unwind':3, 'defines':['API'],
  'claims':'the gr_slot_* observation points return exactly the slot fields the internal invariants speak about and write nothing: next/prev_in_segment = m_next/m_prev, attached_to = m_parent, first_attachment = m_child, next_sibling_attachment = m_sibling, index = m_index, before/after/original = m_before/m_after/m_original, gid = the real glyph id when non-zero else the glyph id, origin/advance (no font) = the stored floats, can_insert_before = !(flags & INSERTED)'}@*/
/*@unit {'name':'c03_api_seg', 'props':['C03','C02'], 'entry':'h_api_seg', 'kind':'proof', 'unwind':3, 'defines':['API'],
  'claims':'the gr_seg_* observation points: n_slots = m_numGlyphs, first/last_slot = m_first/m_last, n_cinfo = m_numCharinfo, gr_seg_cinfo(i) = &m_charinfo[i] for i < m_numCharinfo and NULL otherwise (the exact-size char-info array is never indexed out of bounds), advance_X/Y the stored floats; nothing is written'}@*/
/*@unit {'name':'c03_api_cinfo', 'props':['C02','C05'], 'entry':'h_api_cinfo', 'kind':'proof', 'unwind':3, 'defines':['API'],
  'claims':'the gr_cinfo_* observation points return exactly m_char, m_break, m_before, m_after, m_base of the char-info and write nothing'}@*/

/*@include slots.tc@*/
bool nondet_bool(void); unsigned nondet_unsigned(void); size_t nondet_size_t(void); float nondet_float(void);
#define assert(x) __CPROVER_assert((x), "source assert: " #x)
static Position mkpos(float x, float y) { Position p; p.x = x; p.y = y; return p; }
/* bit-for-bit comparison of floats (NaN == NaN) */
#define SAMEF(a, b) ((__CPROVER_isnanf(a) && __CPROVER_isnanf(b)) || (a) == (b))

/* Slot::glyph(), origin() - accessors that slots.tc does not carry */
/*@extract {'kind':'accessors', 'file':'src/inc/Slot.h', 'scope': r'class Slot\s*\{', 'prefix':'Slot',
   'names':['glyph'], 'fields':['m_glyphid','m_realglyphid']}@*/
/*@extract {'file':'src/inc/Slot.h', 'scope': r'class Slot\s*\{', 'sig': r'Position origin\(\) const', 'emit':'static Position Slot_origin_0(const Slot *self)', 'self':['m_position']}@*/
#define M_origin_0 Slot_origin_0

/* ================================================================== (a) Slot::setGlyph */
#ifdef SETGLYPH
struct GlyphFace {
/*@extract {'if':'SETGLYPH', 'kind':'members', 'file':'src/inc/GlyphFace.h', 'scope': r'class GlyphFace\s*\{', 'names':['m_advance']}@*/
    uint16 ghost_attr[257];                  /* the value sparse::operator[] yields for attribute k of this glyph (k <= 255 + 1) */
};
struct Silf {
/*@extract {'if':'SETGLYPH', 'kind':'members', 'file':'src/inc/Silf.h', 'scope': r'class Silf\s*\{', 'names':['m_numPasses','m_aPseudo','m_aPassBits']}@*/
};
struct Face { int dummy; };
/*@extract {'if':'SETGLYPH', 'kind':'accessors', 'file':'src/inc/Silf.h', 'scope': r'class Silf\s*\{', 'prefix':'Silf',
   'names':['aPseudo','aPassBits','numPasses'], 'fields':['m_aPseudo','m_aPassBits','m_numPasses']}@*/
uint8 g_passBits;                            /* Segment::m_passBits (the Segment shim of slots.tc has no such member) */
/*@extract {'if':'SETGLYPH', 'kind':'accessors', 'file':'src/inc/Segment.h', 'scope': r'class Segment\s*\{', 'prefix':'Segment',
   'names':['silf','getFace','mergePassBits'], 'fields':['m_silf','m_face'], 'subs':[[r'm_passBits', 'g_passBits']]}@*/
/*@extract {'if':'SETGLYPH', 'file':'src/inc/GlyphFace.h', 'sig': r'const Position & GlyphFace::theAdvance\(\) const', 'emit':'static const Position *GlyphFace_theAdvance_0(const GlyphFace *self)',
   'subs':[[r'return m_advance;', 'return &m_advance;', 0]], 'self':['m_advance']}@*/

/* ---- ghost state: the glyph table as setGlyph can see it */
Slot *g_self; Segment *g_seg; const Face *g_face;
uint16 g_ng;                                 /* GlyphCache::numGlyphs() */
uint16 g_idA;                                /* the requested glyph id; every other id below g_ng maps to g_pB */
const GlyphFace *g_pA, *g_pB;                /* NULL or a valid glyph */
uint8 g_pb0;                                 /* pass bits before the call */
#define GLYPH_OF(gid) ((gid) >= g_ng ? (const GlyphFace *)0 : ((gid) == g_idA ? g_pA : g_pB))
/* the glyph the metrics come from, the pseudo attribute, as the statement reads them */
#define THE_GLYPH   (g_pA)
#define PSEUDO      (THE_GLYPH->ghost_attr[g_seg->m_silf->m_aPseudo])
#define REAL_GLYPH  ((g_self->m_realglyphid && GLYPH_OF(g_self->m_realglyphid)) ? GLYPH_OF(g_self->m_realglyphid) : THE_GLYPH)

static unsigned short GlyphCache_numGlyphs(const Face *f) { (void)f; return g_ng; }
const GlyphFace *GlyphCache_glyphSafe(const Face *f, unsigned short gid)
__CPROVER_requires(f == g_face)
__CPROVER_assigns()
__CPROVER_ensures(__CPROVER_return_value == GLYPH_OF(gid));
uint16 GlyphFace_attr(const GlyphFace *g, unsigned k)
__CPROVER_requires(g != (const GlyphFace *)0 && (g == g_pA || g == g_pB) && k <= 256)
__CPROVER_assigns()
__CPROVER_ensures(__CPROVER_return_value == g->ghost_attr[k]);

unsigned short gr_slot_gid(const Slot *p);
/* `uint16 << 16` on the promoted int: defined in C++ (CWG 1457: the value is representable in unsigned int), undefined in C, and the
   verifier follows C (FRAMEWORK.md item 18) - declared rewrite of that one shift, not an assumption */
#define CXX_SHL(a, n) ((int)((unsigned)(a) << (n)))

void Slot_setGlyph(Slot *self, Segment *seg, uint16 glyphid, const GlyphFace *theGlyph)
__CPROVER_requires(self == g_self && seg == g_seg && glyphid == g_idA && g_pb0 == g_passBits)
__CPROVER_requires(theGlyph == (const GlyphFace *)0 || theGlyph == GLYPH_OF(glyphid))                 /* call sites: NULL or glyphSafe(glyphid) */
__CPROVER_assigns(g_self->m_glyphid, g_self->m_realglyphid, g_self->m_bidiCls, g_self->m_advance, g_passBits)
/* 1: C03 - the id the client sees is a real glyph id */
#ifdef STRICT
__CPROVER_ensures(glyphid >= g_ng || gr_slot_gid(g_self) < g_ng)
__CPROVER_ensures(g_self->m_realglyphid == 0 || g_self->m_realglyphid < g_ng)
#else
__CPROVER_ensures((glyphid < g_ng && (GLYPH_OF(glyphid) == (const GlyphFace *)0 || PSEUDO < g_ng)) ==> gr_slot_gid(g_self) < g_ng)
#endif
/* 2: the slot carries the requested id, its bidi class is forgotten */
__CPROVER_ensures(g_self->m_glyphid == glyphid && g_self->m_bidiCls == -1)
/* 3: missing glyph (id >= numGlyphs, or not loadable): no real glyph, zero advance, pass bits untouched */
__CPROVER_ensures(GLYPH_OF(glyphid) != (const GlyphFace *)0 || (g_self->m_realglyphid == 0 && g_self->m_advance.x == 0 && g_self->m_advance.y == 0 && g_passBits == g_pb0))
/* 4: the real-glyph id is the pseudo attribute or 0; a real glyph is kept, an id above numGlyphs is dropped */
__CPROVER_ensures(GLYPH_OF(glyphid) == (const GlyphFace *)0 || g_self->m_realglyphid == 0 || g_self->m_realglyphid == PSEUDO)
__CPROVER_ensures(GLYPH_OF(glyphid) == (const GlyphFace *)0 || PSEUDO >= g_ng || g_self->m_realglyphid == PSEUDO)
__CPROVER_ensures(GLYPH_OF(glyphid) == (const GlyphFace *)0 || PSEUDO <= g_ng || g_self->m_realglyphid == 0)
/* 5: advance of the real glyph when it exists, of the glyph itself otherwise; no vertical advance */
__CPROVER_ensures(GLYPH_OF(glyphid) == (const GlyphFace *)0 || (SAMEF(g_self->m_advance.x, REAL_GLYPH->m_advance.x) && g_self->m_advance.y == 0))
/* 6: pass bits are only ever cleared; untouched when the font has no pass-bits attribute */
__CPROVER_ensures((g_passBits & ~g_pb0) == 0 && (g_seg->m_silf->m_aPassBits != 0 || g_passBits == g_pb0));

/*@extract {'if':'SETGLYPH', 'file':'src/Slot.cpp', 'sig': r'void Slot::setGlyph\(Segment \*seg, uint16 glyphid, const GlyphFace \* theGlyph\)',
   'emit':'void Slot_setGlyph(Slot *self, Segment *seg, uint16 glyphid, const GlyphFace *theGlyph)',
   'subs':[[r'seg->getFace\(\)->glyphs\(\)\.glyphSafe\(', 'GlyphCache_glyphSafe(Segment_getFace_0(seg), ', 0],
           [r'seg->getFace\(\)->glyphs\(\)\.numGlyphs\(\)', 'GlyphCache_numGlyphs(Segment_getFace_0(seg))', 0],
           [r'(\w+)->attrs\(\)\[([^\[\]]*)\]', r'GlyphFace_attr(\1, \2)', 0],
           [r'(GlyphFace_attr\(theGlyph, seg->silf\(\)->aPassBits\(\)\+1\)) << 16', r'CXX_SHL(\1, 16)', 0],
           [r'(\w+)->theAdvance\(\)', r'(*GlyphFace_theAdvance_0(\1))', 0],
           [r'= Position\(', '= mkpos(', 0]],
   'methods':['silf','aPseudo','aPassBits','numPasses','mergePassBits'],
   'self':['m_glyphid','m_bidiCls','m_realglyphid','m_advance']}@*/
/*@extract {'if':'SETGLYPH', 'file':'src/gr_slot.cpp', 'sig': r'unsigned short gr_slot_gid\(const gr_slot\* p(?:/\*[^*]*\*/)?\)', 'emit':'unsigned short gr_slot_gid(const Slot *p)',
   'methods':['glyph']}@*/

void h_setglyph(void)
{
    Slot *s = malloc(sizeof(Slot)); Segment *sg = malloc(sizeof(Segment)); Silf *sf = malloc(sizeof(Silf)); Face *fc = malloc(sizeof(Face));
    __CPROVER_assume(s && sg && sf && fc);
    sg->m_silf = sf; sg->m_face = fc;
    g_self = s; g_seg = sg; g_face = fc;
    GlyphFace *ga = malloc(sizeof(GlyphFace)), *gb = malloc(sizeof(GlyphFace));
    __CPROVER_assume(ga && gb);
    g_pA = nondet_bool() ? ga : (const GlyphFace *)0;       /* glyphSafe may yield NULL below numGlyphs too (glyph not loadable) */
    g_pB = nondet_bool() ? gb : (const GlyphFace *)0;
    g_ng = (uint16)nondet_unsigned(); g_idA = (uint16)nondet_unsigned();
    uint16 w_gid = g_idA, w_ng = g_ng, w_attr = ga->ghost_attr[sf->m_aPseudo];
    g_pb0 = g_passBits;
    const GlyphFace *arg = nondet_bool() ? (const GlyphFace *)0 : GLYPH_OF(w_gid);
    Slot_setGlyph(s, sg, w_gid, arg);
    (void)w_ng; (void)w_attr;
    CANARY();
}
#endif

/* ================================================================== (b) Segment::linkClusters, quick-tier size */
#ifdef LINKQ
static bool Slot_sibling_1(Slot *self, Slot *ap);
#define M_sibling_1 Slot_sibling_1
/*@extract {'if':'LINKQ', 'file':'src/Slot.cpp', 'sig': r'bool Slot::sibling\(Slot \*ap\)', 'emit':'static bool Slot_sibling_1(Slot *self, Slot *ap)',
   'subs':[[r'\bthis\b', 'self', 0]], 'methods':['sibling'], 'self':['m_sibling','m_child']}@*/
/*@extract {'if':'LINKQ', 'file':'src/Segment.cpp', 'sig': r'void Segment::linkClusters\(Slot \*s, Slot \* end\)', 'emit':'void Segment_linkClusters(Segment *self, Slot *s, Slot *end)',
   'methods':['next','isBase','sibling'], 'self':['m_dir']}@*/
/* the clause of the statement: "the bases are linked by next_sibling_attachment into one chain that contains each base exactly once" -
   walk the chain from `head`: only bases of the stream, no repetition, NULL-terminated, and as many as the stream has bases */
static bool base_chain(const Slot *head, const bool live[NSLOTS], int nbases)
{
    bool seen[NSLOTS]; for (int i = 0; i < NSLOTS; ++i) seen[i] = false;
    const Slot *c = head; int k = 0;
    for (; k < NSLOTS && c; ++k) {
        int i = IDX(c);
        if (!live[i] || seen[i] || c->m_parent) return false;
        seen[i] = true; c = c->m_sibling;
    }
    return c == (const Slot *)0 && k == nbases;
}
static void link_case(const int w_n, const unsigned w_mask)
{
    bool live[NSLOTS];
    havoc_links();                                             /* every field of every pool slot arbitrary ... */
    Segment sg;
    sg.m_dir = (int8)((nondet_unsigned() & ~1u) | RTL);
    /* ... except: the stream is pool slot 0, 1, .., n-1 in this order; slot i is a base iff bit i of the mask is set; an attached slot
       names the following stream slot as its parent (linkClusters only ever asks isBase()) - see `assumptions' */
    for (int i = 0; i < NSLOTS; ++i) if (i < w_n) {
        g_pool[i].m_next = (i + 1 < w_n) ? &g_pool[i + 1] : (Slot *)0; g_pool[i].m_prev = i ? &g_pool[i - 1] : (Slot *)0;
        if ((w_mask >> i) & 1) { g_pool[i].m_parent = (Slot *)0; g_pool[i].m_sibling = (Slot *)0; }            /* bases carry no sibling link yet */
        else g_pool[i].m_parent = &g_pool[(i + 1) % w_n];
    }
    sg.m_first = &g_pool[0]; sg.m_last = &g_pool[w_n - 1];
    int o0[NSLOTS], n0;
    __CPROVER_assert(wf_list(sg.m_first, sg.m_last, o0, &n0) && n0 == w_n, "harness: the stream is well-formed");
    for (int i = 0; i < NSLOTS; ++i) live[i] = i < w_n;
    Slot saved[NSLOTS]; for (int i = 0; i < NSLOTS; ++i) saved[i] = g_pool[i];
    Segment_linkClusters(&sg, sg.m_first, sg.m_last);
    int bases[NSLOTS], nb = 0;
    for (int k = 0; k < NSLOTS; ++k) if (k < w_n && !saved[k].m_parent) bases[nb++] = k;
    /* statement clause */
    const Slot *head = nb == 0 ? (const Slot *)0 : &g_pool[RTL ? bases[nb - 1] : bases[0]];
    __CPROVER_assert(base_chain(head, live, nb), "linkClusters: the sibling chain from the first base (last base for right-to-left) contains each base of the stream exactly once and ends");
    /* order */
    for (int j = 0; j < NSLOTS; ++j) if (j < nb) {
        int nxt = RTL ? (j > 0 ? bases[j - 1] : -1) : (j + 1 < nb ? bases[j + 1] : -1);
        __CPROVER_assert(g_pool[bases[j]].m_sibling == (nxt < 0 ? (Slot *)0 : &g_pool[nxt]), "linkClusters: each base's sibling link is the next base in stream order (the previous one for right-to-left); the chain ends at the last (first) base");
    }
    /* frame */
    for (int i = 0; i < NSLOTS; ++i) {
        __CPROVER_assert(g_pool[i].m_parent == saved[i].m_parent && g_pool[i].m_child == saved[i].m_child && g_pool[i].m_next == saved[i].m_next && g_pool[i].m_prev == saved[i].m_prev, "linkClusters: parent, child and stream links are not written");
        if (!live[i] || saved[i].m_parent) __CPROVER_assert(g_pool[i].m_sibling == saved[i].m_sibling, "linkClusters: attached slots and slots outside the stream keep their sibling link");
    }
}
#define CASE(N, M) if (w_n == (N) && w_mask == (M)) link_case((N), (M));
#define CASES2(N, M) CASE(N, M) CASE(N, (M) + 1)
#define CASES4(N, M) CASES2(N, M) CASES2(N, (M) + 2)
#define CASES8(N, M) CASES4(N, M) CASES4(N, (M) + 4)
#define CASES16(N, M) CASES8(N, M) CASES8(N, (M) + 8)
void h_linkq(void)
{
    int w_n = nondet_int(); __CPROVER_assume(w_n >= 1 && w_n <= NSLOTS);
    unsigned w_mask = nondet_unsigned(); __CPROVER_assume(w_mask < (1u << w_n));
    /* one run per concrete stream length and base pattern (FRAMEWORK.md item 14): the loops of linkClusters then run on concrete links */
    CASES2(1, 0) CASES4(2, 0) CASES8(3, 0)
#if NSLOTS >= 4
    CASES16(4, 0)
#endif
#if NSLOTS >= 5
    CASES16(5, 0) CASES16(5, 16)
#endif
    CANARY();
}
#endif

/* ================================================================== (c) newSlot x k, newJustify x j, ~Segment, gr_seg_destroy */
#ifdef DTOR
typedef Segment gr_segment;
struct SlotJustify {
/*@extract {'if':'DTOR', 'kind':'members', 'file':'src/inc/Slot.h', 'scope': r'struct SlotJustify\s*\{', 'names':['next','values']}@*/
};
/*@extract {'if':'DTOR', 'file':'src/inc/Slot.h', 'scope': r'struct SlotJustify\s*\{', 'kind':'range', 'start': r'static const int NUMJUSTPARAMS', 'end': r';', 'end_inclusive': True}@*/
struct Silf {
/*@extract {'if':'DTOR', 'kind':'members', 'file':'src/inc/Silf.h', 'scope': r'class Silf\s*\{', 'names':['m_aUser','m_numJusts']}@*/
};
struct Face { int dummy; };
/*@extract {'if':'DTOR', 'kind':'accessors', 'file':'src/inc/Silf.h', 'scope': r'class Silf\s*\{', 'prefix':'Silf',
   'names':['numUser','numJustLevels'], 'fields':['m_aUser','m_numJusts']}@*/
/*@extract {'if':'DTOR', 'file':'src/inc/Segment.h', 'kind':'define', 'name':'MAX_SEG_GROWTH_FACTOR'}@*/
/* Vector<T*> for the three ropes (T* = void *: the ropes only store and free the pointers) */
typedef void *vp_t;
typedef struct VecP {
/*@extract {'if':'DTOR', 'kind':'members', 'file':'src/inc/List.h', 'scope': r'class Vector\s*\{', 'names':['m_first','m_last','m_end'], 'subs':[[r'\bT\b', 'vp_t']]}@*/
} VecP;
typedef VecP SlotRope, AttributeRope, JustifyRope;
typedef struct SlotCollision SlotCollision;
/* the members of class Segment that the shim of slots.tc lacks (copied from the header); one segment per harness */
struct SegExt {
/*@extract {'if':'DTOR', 'kind':'members', 'file':'src/inc/Segment.h', 'scope': r'class Segment\s*\{', 'names':['m_slots','m_userAttrs','m_justifies','m_freeJustifies','m_collisions']}@*/
} g_ext;

/* ---- the ledger: every block the library obtains, and how often it hands it to free() */
#define MAXB 16
void *g_blk[MAXB]; int g_freecnt[MAXB]; int g_nblk;
static void *ledger_add(void *p)
{
    if (p) { __CPROVER_assert(g_nblk < MAXB, "bound: the ledger holds every block of this unit"); __CPROVER_assume(g_nblk < MAXB); g_blk[g_nblk] = p; g_freecnt[g_nblk] = 0; g_nblk++; }
    return p;
}
#define L1(k) if ((k) < g_nblk && g_blk[(k)] == p) idx = (k);
static void free_g(void *p)
{   /* free(), instrumented; the built-in obligations of free (double free, not a heap block) stay in force */
    if (p) {
        int idx = -1;
        L1(0) L1(1) L1(2) L1(3) L1(4) L1(5) L1(6) L1(7) L1(8) L1(9) L1(10) L1(11) L1(12) L1(13) L1(14) L1(15)
        __CPROVER_assert(idx >= 0, "only blocks the segment obtained (or was given to own) are freed: nothing else");
        if (idx >= 0) g_freecnt[idx]++;
    }
    free(p);
}
static void harness_free(void *p) { free(p); }
#define free(p) free_g(p)                    /* every free() in the extracted code below */
static void *CALLOC_g(size_t n, size_t sz) { if (nondet_bool()) return NULL; return ledger_add(calloc(n, sz)); }
/* libc realloc (assumption): NULL, or a fresh block with the old elements and the old block released.  Sizes are those this unit can
   reach (one or two pointers); anything else is a failed obligation */
static void *REALLOC_g(void *p, size_t n)
{
    if (nondet_bool()) return NULL;
    void **q;
    if (n == sizeof(void *)) { __CPROVER_assert(p == NULL, "bound: a rope grows from empty to one entry"); __CPROVER_assume(p == NULL); q = malloc(sizeof(void *)); }
    else if (n == 2 * sizeof(void *)) { q = malloc(2 * sizeof(void *)); }
    else { __CPROVER_assert(0, "bound: a rope holds at most two blocks in this unit"); __CPROVER_assume(0); return NULL; }
    __CPROVER_assume(q);
    ledger_add(q);
    if (p) { q[0] = ((void **)p)[0]; free_g(p); }
    return q;
}
/* C++ defines p - p == 0 for the null pointer (an empty Vector has m_first == m_last == m_end == 0); C, and the verifier, do not */
#define PDIFF(a, b) ((a) == (b) ? (ptrdiff_t)0 : (a) - (b))
static ptrdiff_t distance(void **first, void **last) { return PDIFF(last, first); }

/*@extract {'if':'DTOR', 'file':'src/inc/Main.h', 'sig': r'bool checked_mul\(const size_t a, const size_t b, size_t & t\)\s*(?=\{\s*return __builtin_mul_overflow)',
            'emit':'static bool checked_mul(const size_t a, const size_t b, size_t *t)', 'refs':['t']}@*/
/*@extract {'if':'DTOR', 'file':'src/inc/Main.h', 'sig': r'template <typename T> T \* grzeroalloc\(size_t n\)', 'emit':'static Slot *grzeroalloc_Slot(size_t n)', 'casts': True,
            'subs':[[r'\bT\b', 'Slot', 0], [r'\bcalloc\(', 'CALLOC_g(', 0]]}@*/
/*@extract {'if':'DTOR', 'file':'src/inc/Main.h', 'sig': r'template <typename T> T \* grzeroalloc\(size_t n\)', 'emit':'static int16 *grzeroalloc_int16(size_t n)', 'casts': True,
            'subs':[[r'\bT\b', 'int16', 0], [r'\bcalloc\(', 'CALLOC_g(', 0]]}@*/
/*@extract {'if':'DTOR', 'file':'src/inc/Main.h', 'sig': r'template <typename T> T \* grzeroalloc\(size_t n\)', 'emit':'static byte *grzeroalloc_byte(size_t n)', 'casts': True,
            'subs':[[r'\bT\b', 'byte', 0], [r'\bcalloc\(', 'CALLOC_g(', 0]]}@*/

/*@extract {'if':'DTOR', 'file':'src/inc/List.h', 'scope': r'class Vector\s*\{', 'sig': r'(?<![~\w])Vector\(\)', 'ctor': True, 'emit':'static void Vector_ctor(VecP *self)', 'self':['m_first','m_last','m_end']}@*/
/*@extract {'if':'DTOR', 'file':'src/inc/List.h', 'scope': r'class Vector\s*\{', 'sig': r'(?<!_)iterator\s+begin\(\)', 'emit':'static void **Vector_begin(VecP *self)', 'self':['m_first']}@*/
/*@extract {'if':'DTOR', 'file':'src/inc/List.h', 'scope': r'class Vector\s*\{', 'sig': r'(?<!_)iterator\s+end\(\)', 'emit':'static void **Vector_end(VecP *self)', 'self':['m_last']}@*/
/*@extract {'if':'DTOR', 'file':'src/inc/List.h', 'scope': r'class Vector\s*\{', 'sig': r'size_t\s+size\(\) const', 'emit':'static size_t Vector_size(const VecP *self)', 'subs':[[r'm_last - m_first', 'PDIFF(m_last, m_first)', 0]], 'self':['m_first','m_last','m_end']}@*/
/*@extract {'if':'DTOR', 'file':'src/inc/List.h', 'scope': r'class Vector\s*\{', 'sig': r'size_t\s+capacity\(\) const', 'emit':'static size_t Vector_capacity(const VecP *self)', 'subs':[[r'm_end - m_first', 'PDIFF(m_end, m_first)', 0]], 'self':['m_first','m_last','m_end']}@*/
/*@extract {'if':'DTOR', 'file':'src/inc/List.h', 'sig': r'void Vector<T>::reserve\(size_t n\)', 'emit':'static void Vector_reserve(VecP *self, size_t n)', 'casts': True,
            'subs':[[r'capacity\(\)', 'Vector_capacity(self)', 0], [r'size\(\)', 'Vector_size(self)', 0], [r'std::abort\(\)', 'abort()', 0],
                    [r'checked_mul\(n,sizeof\(T\), requested\)', 'checked_mul(n, sizeof(T), &requested)', 0], [r'\bT\b', 'vp_t', 0], [r'\brealloc\(', 'REALLOC_g(', 0]], 'self':['m_first','m_last','m_end']}@*/
/*@extract {'if':'DTOR', 'file':'src/inc/List.h', 'scope': r'class Vector\s*\{', 'sig': r'void\s+push_back\(const T &v\)', 'emit':'static void Vector_push_back(VecP *self, void *v)',
            'subs':[[r'\breserve\(size\(\)\+1\)', 'Vector_reserve(self, Vector_size(self)+1)', 0], [r'new \(m_last\+\+\) T\(v\);', '*m_last++ = v;', 0]], 'self':['m_last','m_end']}@*/
/*@extract {'if':'DTOR', 'file':'src/inc/List.h', 'sig': r'typename Vector<T>::iterator Vector<T>::erase\(iterator first, iterator last\)', 'emit':'static void **Vector_erase(VecP *self, void **first, void **last)',
            'subs':[[r'for \(iterator e = first;', 'for (void **e = first;', 0], [r'e->~T\(\);', '(void)e;', 0], [r'distance\(last,end\(\)\)', 'distance(last, self->m_last)', 0],
                    [r'\bT\b', 'vp_t', 0]], 'self':['m_first','m_last','m_end']}@*/
/*@extract {'if':'DTOR', 'file':'src/inc/List.h', 'scope': r'class Vector\s*\{', 'sig': r'void\s+clear\(\)', 'emit':'static void Vector_clear(VecP *self)',
            'subs':[[r'erase\(begin\(\), end\(\)\)', 'Vector_erase(self, Vector_begin(self), Vector_end(self))', 0]]}@*/
/*@extract {'if':'DTOR', 'file':'src/inc/List.h', 'scope': r'class Vector\s*\{', 'sig': r'~Vector\(\)', 'emit':'static void Vector_dtor(VecP *self)',
            'subs':[[r'clear\(\)', 'Vector_clear(self)', 0]], 'self':['m_first','m_last','m_end']}@*/
#define M_begin_0 Vector_begin
#define M_end_0 Vector_end
#define M_push_back_1 Vector_push_back

/*@extract {'if':'DTOR', 'file':'src/inc/Slot.h', 'scope': r'struct SlotJustify\s*\{', 'sig': r'static size_t size_of\(size_t levels\)', 'emit':'static size_t SlotJustify_size_of(size_t levels)'}@*/
/*@extract {'if':'DTOR', 'file':'src/Segment.cpp', 'sig': r'Slot \*Segment::newSlot\(\)', 'emit':'Slot *Segment_newSlot(Segment *self)',
   'subs':[[r'grzeroalloc<Slot>\(', 'grzeroalloc_Slot(', 0], [r'grzeroalloc<int16>\(', 'grzeroalloc_int16(', 0],
           [r'::new \(newSlots \+ i\) Slot\(', 'Slot_ctor(newSlots + i, ', 0], [r'\bm_slots\b', 'g_ext.m_slots', 0], [r'\bm_userAttrs\b', 'g_ext.m_userAttrs', 0]],
   'methods':['next','numUser','push_back'], 'self':['m_freeSlots','m_numGlyphs','m_numCharinfo','m_silf','m_face','m_bufSize']}@*/
/*@extract {'if':'DTOR', 'file':'src/Segment.cpp', 'sig': r'SlotJustify \*Segment::newJustify\(\)', 'emit':'SlotJustify *Segment_newJustify(Segment *self)', 'casts': True,
   'subs':[[r'SlotJustify::size_of\(', 'SlotJustify_size_of(', 0], [r'grzeroalloc<byte>\(', 'grzeroalloc_byte(', 0],
           [r'\bm_justifies\b', 'g_ext.m_justifies', 0], [r'\bm_freeJustifies\b', 'g_ext.m_freeJustifies', 0]],
   'methods':['numJustLevels','push_back'], 'self':['m_silf','m_bufSize']}@*/
/* `delete[] m_charinfo`: CharInfo has a trivial destructor (no array cookie); operator delete[] of CLASS_NEW_DELETE is free(p) */
static void DELETE_ARRAY_CharInfo(CharInfo *p) { free(p); }
/*@extract {'if':'DTOR', 'file':'src/Segment.cpp', 'sig': r'Segment::~Segment\(\)', 'emit':'void Segment_dtor(Segment *self)',
   'subs':[[r'(SlotRope|AttributeRope|JustifyRope)::iterator', 'void **', 0], [r'delete\[\] m_charinfo;', 'DELETE_ARRAY_CharInfo(m_charinfo);', 0],
           [r'\bm_slots\b', 'g_ext.m_slots', 0], [r'\bm_userAttrs\b', 'g_ext.m_userAttrs', 0], [r'\bm_justifies\b', 'g_ext.m_justifies', 0], [r'\bm_collisions\b', 'g_ext.m_collisions', 0]],
   'methods':['begin','end'], 'self':['m_charinfo']}@*/
/* `delete p` on a Segment (spec model of the delete-expression): destructor body, members destroyed in reverse order of declaration
   (m_feats is not modelled), then operator delete of CLASS_NEW_DELETE = free(p); deleting the null pointer does nothing */
static void DELETE_Segment(Segment *p)
{
    if (!p) return;
    Segment_dtor(p);
    Vector_dtor(&g_ext.m_justifies); Vector_dtor(&g_ext.m_userAttrs); Vector_dtor(&g_ext.m_slots);
    free(p);
}
/*@extract {'if':'DTOR', 'file':'src/gr_segment.cpp', 'sig': r'void gr_seg_destroy\(gr_segment\* p\)', 'emit':'void gr_seg_destroy(gr_segment *p)',
   'subs':[[r'delete static_cast<Segment\*>\(p\);', 'DELETE_Segment(p);', 0]]}@*/

#define CHK(k) if ((k) < g_nblk) __CPROVER_assert(g_freecnt[(k)] == 1, "every block the segment obtained is freed exactly once");
void h_destroy(void)
{
    Silf *sf = malloc(sizeof(Silf)); Face *fc = malloc(sizeof(Face)); __CPROVER_assume(sf && fc);        /* not owned by the segment */
    sf->m_aUser = NUSER; sf->m_numJusts = 1;
    g_nblk = 0;
    Segment *sg = ledger_add(malloc(sizeof(Segment))); __CPROVER_assume(sg);                                /* new Segment(..): operator new is gralloc<byte>(size) */
    Vector_ctor(&g_ext.m_slots); Vector_ctor(&g_ext.m_userAttrs); Vector_ctor(&g_ext.m_justifies);
    sg->m_freeSlots = (Slot *)0; g_ext.m_freeJustifies = (SlotJustify *)0;
    sg->m_silf = sf; sg->m_face = fc; sg->m_first = sg->m_last = (Slot *)0;
    sg->m_bufSize = BUF;
    sg->m_charinfo = ledger_add(malloc(2 * sizeof(CharInfo))); __CPROVER_assume(sg->m_charinfo); sg->m_numCharinfo = 2;    /* new CharInfo[numchars] */
    g_ext.m_collisions = nondet_bool() ? (SlotCollision *)ledger_add(malloc(16)) : (SlotCollision *)0;       /* Segment::initCollisions ran or not */
    int w_slots = nondet_int(), w_justs = nondet_int();
    __CPROVER_assume(0 <= w_slots && w_slots <= KS && 0 <= w_justs && w_justs <= KJ);
    int got = 0;
    for (int k = 0; k < KS; ++k) if (k < w_slots) { Slot *s = Segment_newSlot(sg); if (s) ++got; }
    for (int k = 0; k < KJ; ++k) if (k < w_justs) { SlotJustify *j = Segment_newJustify(sg); (void)j; }
    /* the ropes hold what the calls kept: one entry per block, slot and attribute ropes in step */
    __CPROVER_assert(Vector_size(&g_ext.m_slots) == Vector_size(&g_ext.m_userAttrs), "newSlot: a slot block and its attribute block are recorded together");
    __CPROVER_assert(got == 0 || Vector_size(&g_ext.m_slots) >= 1, "newSlot: a handed-out slot lives in a recorded block");
    gr_seg_destroy(sg);
    CHK(0) CHK(1) CHK(2) CHK(3) CHK(4) CHK(5) CHK(6) CHK(7) CHK(8) CHK(9) CHK(10) CHK(11) CHK(12) CHK(13) CHK(14) CHK(15)
    harness_free(sf); harness_free(fc);
    CANARY();
}
#undef free
#endif

/* ================================================================== (d) observation points */
#ifdef API
typedef Slot gr_slot; typedef Segment gr_segment; typedef CharInfo gr_char_info;
/*@extract {'if':'API', 'file':'src/gr_slot.cpp', 'sig': r'const gr_slot\* gr_slot_next_in_segment\(const gr_slot\* p(?:/\*[^*]*\*/)?\)', 'emit':'const gr_slot *gr_slot_next_in_segment(const gr_slot *p)', 'casts':True, 'methods':['next','prev','attachedTo','firstChild','nextSibling','glyph','gid','origin','before','after','index','original','isInsertBefore','isBase','isDeleted','isCopied']}@*/
/*@extract {'if':'API', 'file':'src/gr_slot.cpp', 'sig': r'const gr_slot\* gr_slot_prev_in_segment\(const gr_slot\* p(?:/\*[^*]*\*/)?\)', 'emit':'const gr_slot *gr_slot_prev_in_segment(const gr_slot *p)', 'casts':True, 'methods':['next','prev','attachedTo','firstChild','nextSibling','glyph','gid','origin','before','after','index','original','isInsertBefore','isBase','isDeleted','isCopied']}@*/
/*@extract {'if':'API', 'file':'src/gr_slot.cpp', 'sig': r'const gr_slot\* gr_slot_attached_to\(const gr_slot\* p(?:/\*[^*]*\*/)?\)', 'emit':'const gr_slot *gr_slot_attached_to(const gr_slot *p)', 'casts':True, 'methods':['next','prev','attachedTo','firstChild','nextSibling','glyph','gid','origin','before','after','index','original','isInsertBefore','isBase','isDeleted','isCopied']}@*/
/*@extract {'if':'API', 'file':'src/gr_slot.cpp', 'sig': r'const gr_slot\* gr_slot_first_attachment\(const gr_slot\* p(?:/\*[^*]*\*/)?\)', 'emit':'const gr_slot *gr_slot_first_attachment(const gr_slot *p)', 'casts':True, 'methods':['next','prev','attachedTo','firstChild','nextSibling','glyph','gid','origin','before','after','index','original','isInsertBefore','isBase','isDeleted','isCopied']}@*/
/*@extract {'if':'API', 'file':'src/gr_slot.cpp', 'sig': r'const gr_slot\* gr_slot_next_sibling_attachment\(const gr_slot\* p(?:/\*[^*]*\*/)?\)', 'emit':'const gr_slot *gr_slot_next_sibling_attachment(const gr_slot *p)', 'casts':True, 'methods':['next','prev','attachedTo','firstChild','nextSibling','glyph','gid','origin','before','after','index','original','isInsertBefore','isBase','isDeleted','isCopied']}@*/
/*@extract {'if':'API', 'file':'src/gr_slot.cpp', 'sig': r'unsigned short gr_slot_gid\(const gr_slot\* p(?:/\*[^*]*\*/)?\)', 'emit':'unsigned short gr_slot_gid(const gr_slot *p)', 'methods':['next','prev','attachedTo','firstChild','nextSibling','glyph','gid','origin','before','after','index','original','isInsertBefore','isBase','isDeleted','isCopied']}@*/
/*@extract {'if':'API', 'file':'src/gr_slot.cpp', 'sig': r'float gr_slot_origin_X\(const gr_slot\* p(?:/\*[^*]*\*/)?\)', 'emit':'float gr_slot_origin_X(const gr_slot *p)', 'methods':['next','prev','attachedTo','firstChild','nextSibling','glyph','gid','origin','before','after','index','original','isInsertBefore','isBase','isDeleted','isCopied']}@*/
/*@extract {'if':'API', 'file':'src/gr_slot.cpp', 'sig': r'float gr_slot_origin_Y\(const gr_slot\* p(?:/\*[^*]*\*/)?\)', 'emit':'float gr_slot_origin_Y(const gr_slot *p)', 'methods':['next','prev','attachedTo','firstChild','nextSibling','glyph','gid','origin','before','after','index','original','isInsertBefore','isBase','isDeleted','isCopied']}@*/
/*@extract {'if':'API', 'file':'src/gr_slot.cpp', 'sig': r'int gr_slot_before\(const gr_slot\* p(?:/\*[^*]*\*/)?\)', 'emit':'int gr_slot_before(const gr_slot *p)', 'methods':['next','prev','attachedTo','firstChild','nextSibling','glyph','gid','origin','before','after','index','original','isInsertBefore','isBase','isDeleted','isCopied']}@*/
/*@extract {'if':'API', 'file':'src/gr_slot.cpp', 'sig': r'int gr_slot_after\(const gr_slot\* p(?:/\*[^*]*\*/)?\)', 'emit':'int gr_slot_after(const gr_slot *p)', 'methods':['next','prev','attachedTo','firstChild','nextSibling','glyph','gid','origin','before','after','index','original','isInsertBefore','isBase','isDeleted','isCopied']}@*/
/*@extract {'if':'API', 'file':'src/gr_slot.cpp', 'sig': r'unsigned int gr_slot_index\(const gr_slot \*p(?:/\*[^*]*\*/)?\)', 'emit':'unsigned int gr_slot_index(const gr_slot *p)', 'methods':['next','prev','attachedTo','firstChild','nextSibling','glyph','gid','origin','before','after','index','original','isInsertBefore','isBase','isDeleted','isCopied']}@*/
/*@extract {'if':'API', 'file':'src/gr_slot.cpp', 'sig': r'int gr_slot_original\(const gr_slot\* p(?:/\*[^*]*\*/)?\)', 'emit':'int gr_slot_original(const gr_slot *p)', 'methods':['next','prev','attachedTo','firstChild','nextSibling','glyph','gid','origin','before','after','index','original','isInsertBefore','isBase','isDeleted','isCopied']}@*/
/*@extract {'if':'API', 'file':'src/gr_slot.cpp', 'sig': r'int gr_slot_can_insert_before\(const gr_slot\* p(?:/\*[^*]*\*/)?\)', 'emit':'int gr_slot_can_insert_before(const gr_slot *p)', 'methods':['next','prev','attachedTo','firstChild','nextSibling','glyph','gid','origin','before','after','index','original','isInsertBefore','isBase','isDeleted','isCopied']}@*/

/*@extract {'if':'API', 'file':'src/gr_segment.cpp', 'sig': r'unsigned int gr_seg_n_cinfo\(const gr_segment\* pSeg(?:/\*[^*]*\*/)?\)', 'emit':'unsigned int gr_seg_n_cinfo(const gr_segment *pSeg)', 'casts':True, 'methods':['charInfoCount','charinfo','slotCount','first','last']}@*/
/*@extract {'if':'API', 'file':'src/gr_segment.cpp', 'sig': r'const gr_char_info\* gr_seg_cinfo\(const gr_segment\* pSeg(?:/\*[^*]*\*/)?, unsigned int index(?:/\*[^*]*\*/)?\)', 'emit':'const gr_char_info *gr_seg_cinfo(const gr_segment *pSeg, unsigned int index)', 'casts':True, 'methods':['charInfoCount','charinfo','slotCount','first','last']}@*/
/*@extract {'if':'API', 'file':'src/gr_segment.cpp', 'sig': r'unsigned int gr_seg_n_slots\(const gr_segment\* pSeg(?:/\*[^*]*\*/)?\)', 'emit':'unsigned int gr_seg_n_slots(const gr_segment *pSeg)', 'casts':True, 'methods':['charInfoCount','charinfo','slotCount','first','last']}@*/
/*@extract {'if':'API', 'file':'src/gr_segment.cpp', 'sig': r'const gr_slot\* gr_seg_first_slot\(gr_segment\* pSeg(?:/\*[^*]*\*/)?\)', 'emit':'const gr_slot *gr_seg_first_slot(gr_segment *pSeg)', 'casts':True, 'methods':['charInfoCount','charinfo','slotCount','first','last']}@*/
/*@extract {'if':'API', 'file':'src/gr_segment.cpp', 'sig': r'const gr_slot\* gr_seg_last_slot\(gr_segment\* pSeg(?:/\*[^*]*\*/)?\)', 'emit':'const gr_slot *gr_seg_last_slot(gr_segment *pSeg)', 'casts':True, 'methods':['charInfoCount','charinfo','slotCount','first','last']}@*/

/*@extract {'if':'API', 'file':'src/gr_char_info.cpp', 'sig': r'unsigned int gr_cinfo_unicode_char\(const gr_char_info\* p(?:/\*[^*]*\*/)?\)', 'emit':'unsigned int gr_cinfo_unicode_char(const gr_char_info *p)', 'methods':['unicodeChar','breakWeight','after','before','base','fid','flags']}@*/
/*@extract {'if':'API', 'file':'src/gr_char_info.cpp', 'sig': r'int gr_cinfo_break_weight\(const gr_char_info\* p(?:/\*[^*]*\*/)?\)', 'emit':'int gr_cinfo_break_weight(const gr_char_info *p)', 'methods':['unicodeChar','breakWeight','after','before','base','fid','flags']}@*/
/*@extract {'if':'API', 'file':'src/gr_char_info.cpp', 'sig': r'int gr_cinfo_after\(const gr_char_info \*p(?:/\*[^*]*\*/)?\)', 'emit':'int gr_cinfo_after(const gr_char_info *p)', 'methods':['unicodeChar','breakWeight','after','before','base','fid','flags']}@*/
/*@extract {'if':'API', 'file':'src/gr_char_info.cpp', 'sig': r'int gr_cinfo_before\(const gr_char_info \*p(?:/\*[^*]*\*/)?\)', 'emit':'int gr_cinfo_before(const gr_char_info *p)', 'methods':['unicodeChar','breakWeight','after','before','base','fid','flags']}@*/
/*@extract {'if':'API', 'file':'src/gr_char_info.cpp', 'sig': r'size_t gr_cinfo_base\(const gr_char_info \*p(?:/\*[^*]*\*/)?\)', 'emit':'size_t gr_cinfo_base(const gr_char_info *p)', 'methods':['unicodeChar','breakWeight','after','before','base','fid','flags']}@*/

#define SLOT_SAME(a, b) ((a).m_next == (b).m_next && (a).m_prev == (b).m_prev && (a).m_glyphid == (b).m_glyphid && (a).m_realglyphid == (b).m_realglyphid \
    && (a).m_original == (b).m_original && (a).m_before == (b).m_before && (a).m_after == (b).m_after && (a).m_index == (b).m_index \
    && (a).m_parent == (b).m_parent && (a).m_child == (b).m_child && (a).m_sibling == (b).m_sibling && (a).m_flags == (b).m_flags \
    && SAMEF((a).m_position.x, (b).m_position.x) && SAMEF((a).m_position.y, (b).m_position.y) && (a).m_userAttr == (b).m_userAttr && (a).m_justs == (b).m_justs)

void h_api_slot(void)
{
    Slot *s = malloc(sizeof(Slot)); __CPROVER_assume(s);                   /* exact size, every field arbitrary */
    Slot saved = *s;
    __CPROVER_assert(gr_slot_next_in_segment(s) == saved.m_next, "gr_slot_next_in_segment is the next link");
    __CPROVER_assert(gr_slot_prev_in_segment(s) == saved.m_prev, "gr_slot_prev_in_segment is the prev link");
    __CPROVER_assert(gr_slot_attached_to(s) == saved.m_parent, "gr_slot_attached_to is the parent link");
    __CPROVER_assert(gr_slot_first_attachment(s) == saved.m_child, "gr_slot_first_attachment is the child link");
    __CPROVER_assert(gr_slot_next_sibling_attachment(s) == saved.m_sibling, "gr_slot_next_sibling_attachment is the sibling link");
    __CPROVER_assert(gr_slot_index(s) == saved.m_index, "gr_slot_index is the index assigned by associateChars");
    __CPROVER_assert(gr_slot_gid(s) == (saved.m_realglyphid ? saved.m_realglyphid : saved.m_glyphid), "gr_slot_gid is the real-glyph id when there is one, else the glyph id (the two ids setGlyph bounds)");
    __CPROVER_assert(gr_slot_before(s) == (int)saved.m_before && gr_slot_after(s) == (int)saved.m_after && gr_slot_original(s) == (int)saved.m_original, "gr_slot_before/after/original are the stored char-info indices");
    __CPROVER_assert(SAMEF(gr_slot_origin_X(s), saved.m_position.x) && SAMEF(gr_slot_origin_Y(s), saved.m_position.y), "gr_slot_origin_X/Y are the stored position");
    __CPROVER_assert(gr_slot_can_insert_before(s) == ((saved.m_flags & INSERTED) ? 0 : 1), "gr_slot_can_insert_before is the negated INSERTED flag");
    __CPROVER_assert(SLOT_SAME(*s, saved), "the observation points write nothing");
    CANARY();
}

void h_api_seg(void)
{
    Segment *sg = malloc(sizeof(Segment)); __CPROVER_assume(sg);
    size_t n = nondet_size_t(); __CPROVER_assume(n <= ((size_t)1 << 24));
    CharInfo *ci = malloc(n * sizeof(CharInfo)); __CPROVER_assume(ci);      /* exactly m_numCharinfo records, as new CharInfo[numchars] */
    sg->m_charinfo = ci; sg->m_numCharinfo = n;
    Segment saved = *sg;
    unsigned w_index = nondet_unsigned();
    __CPROVER_assert(gr_seg_n_slots(sg) == (unsigned)saved.m_numGlyphs, "gr_seg_n_slots is the slot count maintained by insert/delete");
    __CPROVER_assert(gr_seg_first_slot(sg) == saved.m_first && gr_seg_last_slot(sg) == saved.m_last, "gr_seg_first_slot/last_slot are the ends of the stream");
    __CPROVER_assert(gr_seg_n_cinfo(sg) == (unsigned)n, "gr_seg_n_cinfo is the number of char-infos");
    const gr_char_info *c = gr_seg_cinfo(sg, w_index);
    __CPROVER_assert(c == (w_index < n ? &ci[w_index] : (const CharInfo *)0), "gr_seg_cinfo(i) is record i, NULL for i >= n");
    if (c) { int b = gr_cinfo_before(c); (void)b; }                                          /* a returned record can be read */
    __CPROVER_assert(sg->m_first == saved.m_first && sg->m_last == saved.m_last && sg->m_numGlyphs == saved.m_numGlyphs && sg->m_numCharinfo == n && sg->m_charinfo == ci
                     && sg->m_freeSlots == saved.m_freeSlots && sg->m_dir == saved.m_dir, "the observation points write nothing");
    CANARY();
}

void h_api_cinfo(void)
{
    CharInfo *c = malloc(sizeof(CharInfo)); __CPROVER_assume(c);
    CharInfo saved = *c;
    __CPROVER_assert(gr_cinfo_unicode_char(c) == (unsigned)saved.m_char, "gr_cinfo_unicode_char is the stored code point");
    __CPROVER_assert(gr_cinfo_break_weight(c) == saved.m_break, "gr_cinfo_break_weight is the stored break weight");
    __CPROVER_assert(gr_cinfo_before(c) == saved.m_before && gr_cinfo_after(c) == saved.m_after, "gr_cinfo_before/after are the slot indices associateChars stored");
    __CPROVER_assert(gr_cinfo_base(c) == saved.m_base, "gr_cinfo_base is the stored text offset");
    __CPROVER_assert(c->m_char == saved.m_char && c->m_before == saved.m_before && c->m_after == saved.m_after && c->m_base == saved.m_base && c->m_break == saved.m_break
                     && c->m_featureid == saved.m_featureid && c->m_flags == saved.m_flags, "the observation points write nothing");
    CANARY();
}
#endif
