/* C06 / C02 - pass sequencing and the cursor protocol of a pass.
 *   Silf::runGraphite (src/Silf.cpp)                  unit c06_silf_run        (proof, loop contract)
 *   Segment::finalise direction clause (Segment.h)    unit c06_finalise_dir    (proof)
 *   Pass::testConstraint, doAction, testPassConstraint, runGraphite outside its rule loop (src/Pass.cpp)   proof units
 *   Pass::adjustSlot, SlotMap::collectGarbage (src/Pass.cpp)   bounded slot-universe units (spec/slots.tc)
 * Not here (covered elsewhere): the rule do-loop (c02_rule_loop), findNDoRule (c06_find), runFSM (c02_run_fsm), reverseSlots (c03_reverse).
 */
#include "types.h"

/*@unit {'name':'c06_silf_run', 'props':['C06','C02'], 'entry':'h_silf', 'enforce':'Silf_runGraphite', 'min_loops':1, 'defines_quick':['SILF','NPMAX=40'], 'defines_thorough':['SILF','NPMAX=128'],
  'assumptions':['Pass::runGraphite is a ghost model with a body (asserts = its call-site obligations; effect: may reverse the stream when asked to, may change the slot count, the machine status and its verdict arbitrarily); its head is unit c06_pass_head',
                 'Segment::reverseSlots is a stub that flips the reversed flag (bit 6 of m_dir) - its real body is unit c03_reverse; Segment::doMirror is a stub with a call counter',
                 'call sites (Face::runGraphite, Segment::justify) + loader (Silf::readGraphite): firstPass, lastPass <= m_numPasses <= 128, m_bPass == 0xFF or <= m_numPasses; slot count at entry <= SIZE_MAX / 64',
                 'EXCLUDED configuration (reported as a suspected defect): dobidi != 0 and the bidi position is exactly one behind the requested last pass (lastPass + 1 == m_bPass): the code then also runs pass number lastPass, outside the requested range'],
  'claims':'Silf::runGraphite: the passes firstPass .. L-1 (L = lastPass, or m_numPasses when lastPass is 0) are visited in increasing index order, each exactly once, a visited pass is run exactly once unless its skip bit is set in the segment pass bits (and it has no collision loops), no pass outside m_passes[0 .. m_numPasses) is touched; the bidi step happens exactly once, exactly between pass m_bPass-1 and pass m_bPass, iff that position is inside the range, and leaves the stream in the direction of the font (mirroring at most once, there); when the bidi position is not in the range every pass is asked to reverse exactly when the stream direction differs from the direction the font declares for the pass, so its rules see the declared direction; the slot map gets the segment, the font direction and a budget of 64 slots per slot at entry; the function stops at the first pass that fails, leaves the machine in a bad state or exceeds the budget, and returns false exactly then; a true result implies slot count <= 64 x the count at entry; only bit 6 of Segment::m_dir changes; the loop terminates'}@*/

#ifdef SILF
#define GRAPHITE2_NTRACING 1
#define assert(x) __CPROVER_assert((x), "source assert: " #x)
typedef struct Slot Slot;
typedef struct Segment {
/*@extract {'if':'SILF', 'kind':'members', 'file':'src/inc/Segment.h', 'scope': r'class Segment\s*\{', 'names':['m_numGlyphs','m_dir','m_passBits']}@*/
} Segment;
/*@extract {'if':'SILF', 'kind':'accessors', 'file':'src/inc/Segment.h', 'scope': r'class Segment\s*\{', 'prefix':'Segment',
   'names':['slotCount','dir','currdir','passBits'], 'fields':['m_numGlyphs','m_dir','m_passBits']}@*/
typedef struct Pass {
/*@extract {'if':'SILF', 'kind':'members', 'file':'src/inc/Pass.h', 'scope': r'class Pass\s*\{', 'names':['m_numCollRuns','m_isReverseDir']}@*/
} Pass;
/*@extract {'if':'SILF', 'kind':'accessors', 'file':'src/inc/Pass.h', 'scope': r'class Pass\s*\{', 'prefix':'Pass',
   'names':['collisionLoops','reverseDir'], 'fields':['m_numCollRuns','m_isReverseDir']}@*/
typedef struct Silf {
/*@extract {'if':'SILF', 'kind':'members', 'file':'src/inc/Silf.h', 'scope': r'class Silf\s*\{', 'names':['m_passes','m_numPasses','m_bPass','m_dir','m_aMirror']}@*/
} Silf;
typedef struct SlotMap {
    Segment *segment_;
/*@extract {'if':'SILF', 'kind':'members', 'file':'src/inc/Rule.h', 'scope': r'class SlotMap\s*\{', 'names':['m_slot_map','m_size','m_precontext','m_highwater','m_maxSize','m_dir','m_highpassed'],
   'subs':[[r'MAX_SLOTS', '64', 0]]}@*/
} SlotMap;
/*@extract {'if':'SILF', 'file':'src/inc/Machine.h', 'scope': r'class Machine\s*\{', 'kind':'range', 'start': r'enum status_t \{', 'end': r'\};', 'end_inclusive': True}@*/
typedef enum status_t status_t;
typedef struct Machine { SlotMap *_map; status_t _status; } Machine;                    /* the two data members the sequencing code reaches */
typedef struct FiniteStateMachine { SlotMap *slots; void *dbgout; } FiniteStateMachine;
/*@extract {'if':'SILF', 'kind':'define', 'file':'src/inc/Segment.h', 'name':'MAX_SEG_GROWTH_FACTOR'}@*/
/*@extract {'if':'SILF', 'file':'src/inc/Rule.h', 'ctor':True, 'sig': r'SlotMap::SlotMap\(Segment & seg, uint8 direction, size_t maxSize\)',
   'emit':'static void SlotMap_ctor(SlotMap *self, Segment *seg, uint8 direction, size_t maxSize)',
   'subs':[[r'\bsegment = \(seg\)', 'self->segment_ = (seg)', 1]],
   'self':['m_slot_map','m_size','m_precontext','m_highwater','m_maxSize','m_dir','m_highpassed']}@*/
/*@extract {'if':'SILF', 'file':'src/inc/Rule.h', 'ctor':True, 'sig': r'FiniteStateMachine::FiniteStateMachine\(SlotMap& map, json \* logger\)',
   'emit':'static void FiniteStateMachine_ctor(FiniteStateMachine *self, SlotMap *map, void *logger)', 'self':['slots','dbgout']}@*/
/*@extract {'if':'SILF', 'file':'src/inc/Machine.h', 'ctor':True, 'sig': r'inline Machine::Machine\(SlotMap & map\) throw\(\)',
   'emit':'static void Machine_ctor(Machine *self, SlotMap *map)',
   'subs':[[r'for \(size_t n = STACK_GUARD \+ 1; n; --n\)\s*_stack\[n-1\] = 0;', '/* stack guard initialisation: the operand stack is not part of this shim */', 0]],
   'self':['_map','_status']}@*/
/*@extract {'if':'SILF', 'file':'src/inc/Machine.h', 'sig': r'inline Machine::status_t Machine::status\(\) const throw\(\)', 'emit':'static status_t Machine_status_0(const Machine *self)', 'self':['_status']}@*/
#define M_status_0 Machine_status_0

/* ---- ghost state */
const Silf *g_silf; Segment *g_seg;
size_t g_n0;                 /* slot count at entry */
int8 g_dir0;                 /* Segment::m_dir at entry */
unsigned g_first, g_L;       /* the requested range [g_first, g_L) */
unsigned g_b;                /* bidi position when it lies in the range, else 0xFF */
unsigned g_next;             /* next pass index to be visited */
unsigned g_cur;              /* pass index being visited */
unsigned g_called;           /* runs of the visited pass */
unsigned g_bidi, g_mirror;   /* bidi steps / doMirror calls so far */
bool g_stop;                 /* a pass failed, the machine is bad or the budget is exceeded */
bool nondet_bool(void); size_t nondet_size_t(void);
#define CURRDIR(sg)   ((((sg)->m_dir >> 6) ^ (sg)->m_dir) & 1)        /* spec: reversed flag (bit 6) xor requested direction (bit 0) */
#define FONTDIR       (g_silf->m_dir & 1)
#define SKIPPED(k)    ((k) < 32 && (g_seg->m_passBits & (1u << (k))) != 0 && g_silf->m_passes[k].m_numCollRuns == 0)

static void Segment_reverseSlots_0(Segment *sg) { sg->m_dir = sg->m_dir ^ 64; }              /* contract stub: real body verified in unit c03_reverse */
static void Segment_doMirror_1(Segment *sg, uint16 aMirror)
{
    __CPROVER_assert(aMirror == g_silf->m_aMirror && aMirror != 0 && (sg->m_dir & 3) == 3, "doMirror only for a right-to-left segment that asks for mirroring, with the font's mirror attribute");
    g_mirror = g_mirror + 1;
}
#define M_reverseSlots_0 Segment_reverseSlots_0
#define M_doMirror_1 Segment_doMirror_1
/* ghost model of Pass::runGraphite(m, fsm, reverse) */
static bool Pass_runGraphite(const Pass *p, Machine *m, FiniteStateMachine *fsm, bool reverse)
{
    __CPROVER_assert(g_cur < g_silf->m_numPasses && p == &g_silf->m_passes[g_cur], "the pass that is run is m_passes[i], i < m_numPasses");
    __CPROVER_assert(g_called == 0 && !g_stop, "a visited pass is run at most once, and never after a failure");
    __CPROVER_assert(!SKIPPED(g_cur), "a pass whose skip bit is set in the pass bits (and that has no collision loops) is not run");
    __CPROVER_assert(m->_status == finished && fsm->slots == m->_map && m->_map->segment_ == g_seg, "the pass gets a healthy machine over the slot map of this segment");
    __CPROVER_assert(m->_map->m_maxSize == (int)(g_n0 * 64) && m->_map->m_dir == g_silf->m_dir, "slot map: budget of 64 slots per slot at entry, direction of the font");
    g_called = g_called + 1;
    const bool want = FONTDIR ^ (p->m_isReverseDir ? 1 : 0);        /* the direction the font declares for this pass */
    __CPROVER_assert(g_b != 0xFF || g_bidi != 0 || reverse == (CURRDIR(g_seg) != want), "no bidi step in this run: the pass is asked to reverse exactly when the stream direction is not the declared one");
    if (nondet_bool()) {                          /* the pass has slots and its pass constraint holds: rules run */
        if (reverse) Segment_reverseSlots_0(g_seg);
        __CPROVER_assert(g_b != 0xFF || g_bidi != 0 || CURRDIR(g_seg) == want, "the rules of the pass see the stream in the direction the font declares for the pass");
        g_seg->m_numGlyphs = nondet_size_t();     /* insertions / deletions */
        if (nondet_bool()) m->_status = died_early;
    }
    const bool ok = nondet_bool();
    if (!ok || m->_status != finished || (g_seg->m_numGlyphs && g_seg->m_numGlyphs > g_n0 * 64)) g_stop = true;
    return ok;
}
#define M_runGraphite_3(p, m, f, r) Pass_runGraphite(p, m, f, r)

#define EFF_L(self, last)        ((last) == 0 ? (self)->m_numPasses : (last))
#define EMPTY_CALL(self, f, l)   ((l) == 0 && (f) == 0 && (self)->m_bPass == 0xFF)
#define BIDI_IN(self, f, l, d)   (((f) < (self)->m_bPass || ((d) && (f) == (self)->m_bPass)) && EFF_L(self, l) >= (self)->m_bPass)
bool Silf_runGraphite(const Silf *self, Segment *seg, uint8 firstPass, uint8 lastPass, int dobidi)
__CPROVER_requires(self == g_silf && seg == g_seg && seg->m_numGlyphs == g_n0 && g_n0 <= SIZE_MAX / 64 && seg->m_dir == g_dir0)
__CPROVER_requires(self->m_numPasses <= 128 && (self->m_bPass == 0xFF || self->m_bPass <= self->m_numPasses) && firstPass <= self->m_numPasses && lastPass <= self->m_numPasses)
__CPROVER_requires(g_first == firstPass && g_L == (EMPTY_CALL(self, firstPass, lastPass) ? firstPass : EFF_L(self, lastPass)) && g_b == (BIDI_IN(self, firstPass, lastPass, dobidi) ? self->m_bPass : 0xFF))
__CPROVER_requires(!(dobidi && EFF_L(self, lastPass) + 1 == self->m_bPass))              /* excluded configuration, see assumptions */
__CPROVER_requires(g_next == firstPass && g_called == 0 && g_bidi == 0 && g_mirror == 0 && !g_stop)
__CPROVER_assigns(seg->m_dir, seg->m_numGlyphs, g_next, g_cur, g_called, g_bidi, g_mirror, g_stop)
/* font order: success = every pass of the range was visited (in order, each once: ghost asserts), none beyond it */
__CPROVER_ensures(__CPROVER_return_value ==> g_next == (g_first < g_L ? g_L : g_first))
__CPROVER_ensures(g_next <= (g_first < g_L ? g_L : g_first))
/* stops at the first failure, reports it, and only it */
__CPROVER_ensures(__CPROVER_return_value == !g_stop)
/* growth budget */
__CPROVER_ensures(__CPROVER_return_value ==> seg->m_numGlyphs <= 64 * g_n0)
/* bidi step: exactly once iff its position is in the range; afterwards the stream runs in the direction of the font */
__CPROVER_ensures(g_bidi <= 1 && (g_bidi == 1 ==> g_b != 0xFF) && ((__CPROVER_return_value && g_b != 0xFF) ==> g_bidi == 1))
__CPROVER_ensures(g_bidi == 1 ==> CURRDIR(seg) == FONTDIR)
__CPROVER_ensures(g_mirror == ((g_bidi == 1 && self->m_aMirror != 0 && (g_dir0 & 3) == 3) ? 1 : 0))
/* frame on the direction byte: only the reversed flag changes */
__CPROVER_ensures(((seg->m_dir ^ g_dir0) & ~64) == 0);

/* declared rewrite `(1 << i)` -> `((int)(1u << i))`: 1 << 31 shifts into the sign bit, implementation-defined since CWG1457 (DESIGN 10.1); the shift distance stays checked */
#define INV_PHASE (g_bidi == 0 ? (lbidi == g_b && lastPass == g_L + (g_b != 0xFF ? 1 : 0) && (g_b == 0xFF || g_next <= g_b)) \
                               : (g_bidi == 1 && g_b != 0xFF && lbidi == g_L + 1 && lastPass == g_L && g_next >= g_b && CURRDIR(seg) == FONTDIR))
/*@extract {'if':'SILF', 'file':'src/Silf.cpp', 'sig': r'bool Silf::runGraphite\(Segment \*seg, uint8 firstPass, uint8 lastPass, int dobidi\) const',
   'emit':'bool Silf_runGraphite(const Silf *self, Segment *seg, uint8 firstPass, uint8 lastPass, int dobidi)',
   'subs':[[r'SlotMap\s+map\(\*seg, m_dir, maxSize\);', 'SlotMap map; SlotMap_ctor(&map, seg, m_dir, maxSize);', 0],
           [r'FiniteStateMachine fsm\(map, seg->getFace\(\)->logger\(\)\);', 'FiniteStateMachine fsm; FiniteStateMachine_ctor(&fsm, &map, (void *)0);', 0],
           [r'vm::Machine\s+m\(map\);', 'Machine m; Machine_ctor(&m, &map);', 0],
           [r'vm::Machine::finished', 'finished', 0],
           [r'runGraphite\(m, fsm, reverse\)', 'runGraphite(&m, &fsm, reverse)', 0],
           [r'\(1 << i\)', '((int)(1u << i))', 0]],
   'methods':['slotCount','currdir','dir','passBits','reverseSlots','doMirror','reverseDir','collisionLoops','runGraphite','status'],
   'self':['m_passes','m_numPasses','m_bPass','m_dir','m_aMirror'],
   'inserts':[[r'if \(\s*i\s*\S+\s*lbidi\s*\)\s*\{', '__CPROVER_assert(g_bidi == 0 && !g_stop && g_b != 0xFF && g_next == g_b && i == g_b, "the bidi step happens once, after pass m_bPass-1 and before pass m_bPass"); g_bidi = g_bidi + 1;', 'after'],
              [r'bool reverse =', '__CPROVER_assert(i == g_next && g_next < g_L && !g_stop, "passes are visited in increasing index order, each once, inside the requested range"); g_cur = g_next; g_next = g_next + 1; g_called = 0;', 'before'],
              [1, '__CPROVER_assert(g_called == (SKIPPED(g_cur) ? 0 : 1), "a visited pass is run exactly once unless it is skipped by the pass bits");', 'body_end']],
   'loops':{1: """__CPROVER_assigns(i, lastPass, lbidi, seg->m_dir, seg->m_numGlyphs, m._status, g_next, g_cur, g_called, g_bidi, g_mirror, g_stop)
                  __CPROVER_loop_invariant(i == g_next && g_first <= g_next && !g_stop && m._status == finished)
                  __CPROVER_loop_invariant(g_next <= (g_first < g_L ? g_L : g_first) || (g_bidi == 0 && g_b != 0xFF && g_next <= g_b))
                  __CPROVER_loop_invariant(INV_PHASE)
                  __CPROVER_loop_invariant(g_mirror == ((g_bidi == 1 && self->m_aMirror != 0 && (g_dir0 & 3) == 3) ? 1 : 0))
                  __CPROVER_loop_invariant(((seg->m_dir ^ g_dir0) & ~64) == 0 && seg->m_numGlyphs <= 64 * g_n0)
                  __CPROVER_decreases((size_t)lastPass - i)"""}}@*/

#ifndef NPMAX
#define NPMAX 128
#endif
unsigned char nondet_uchar(void); int nondet_int(void);
void h_silf(void)
{
    Silf *sf = malloc(sizeof(Silf)); Segment *sg = malloc(sizeof(Segment)); __CPROVER_assume(sf && sg);
    __CPROVER_assume(sf->m_numPasses <= NPMAX && (sf->m_bPass == 0xFF || sf->m_bPass <= sf->m_numPasses));        /* Silf::readGraphite: E_BADNUMPASSES (<= 128), E_BADBPASS */
    sf->m_passes = malloc((size_t)sf->m_numPasses * sizeof(Pass)); __CPROVER_assume(sf->m_passes);                /* exactly m_numPasses passes */
    for (unsigned k = 0; k < NPMAX; ++k) if (k < sf->m_numPasses) sf->m_passes[k].m_isReverseDir = nondet_bool();      /* bool fields of a malloc'd object must be normalised (FRAMEWORK 12) */
    uint8 w_first = nondet_uchar(), w_last = nondet_uchar(); int w_dobidi = nondet_int();
    __CPROVER_assume(w_first <= sf->m_numPasses && w_last <= sf->m_numPasses);
    __CPROVER_assume(sg->m_numGlyphs <= SIZE_MAX / 64);
    __CPROVER_assume(!(w_dobidi && EFF_L(sf, w_last) + 1 == sf->m_bPass));
    g_silf = sf; g_seg = sg; g_n0 = sg->m_numGlyphs; g_dir0 = sg->m_dir;
    g_first = w_first; g_L = EMPTY_CALL(sf, w_first, w_last) ? w_first : EFF_L(sf, w_last); g_b = BIDI_IN(sf, w_first, w_last, w_dobidi) ? sf->m_bPass : 0xFF;
    g_next = w_first; g_called = 0; g_bidi = 0; g_mirror = 0; g_stop = false;
    bool r = Silf_runGraphite(sf, sg, w_first, w_last, w_dobidi);
    (void)r;
    CANARY();
}
#endif /* SILF */

/* ================================================================== Pass.cpp: the cursor protocol of one pass */
/*@unit {'name':'c06_test_constraint', 'props':['C06','C02'], 'entry':'h_tc', 'enforce':'Pass_testConstraint', 'min_loops':1, 'defines':['PASS','TC'],
  'assumptions':['Machine::Code::run is a ghost model with a body (asserts = call-site obligations; verdict and machine status from a truth table indexed by the map position); constraint code cannot move the map cursor (no constraint implementation of NEXT / COPY_NEXT / INSERT / DELETE in opcode_table.h: units c02_fetch_opcode / c07), so the model leaves it alone',
                 'SlotMap::m_size <= MAX_SLOTS (unit c02_run_fsm)'],
  'claims':'Pass::testConstraint: a rule is refused without running code when its pre-context exceeds the context of the map, when it does not fit into the slots the FSM matched, or when its last slot is missing; every map cell it reads lies inside SlotMap::m_slot_map; the constraint code is run once per non-NULL matched slot, in stream order, at map positions context-preContext .. +sort-1 only, on a healthy machine; the result is true exactly when every run yields non-zero and leaves the machine healthy (a rule without constraint code is accepted); the first failing run ends the test; the loop terminates'}@*/
/*@unit {'name':'c06_do_action', 'props':['C06','C02'], 'entry':'h_da', 'enforce':'Pass_doAction', 'defines':['PASS','DA'], 'unwind':8,
  'assumptions':['Machine::Code::run is a ghost model with a body (moves the map cursor anywhere inside the slot map, stores the current slot there as Machine::run does, arbitrary verdict and status)',
                 'm_precontext <= m_size <= MAX_SLOTS (units c02_run_fsm, c06_test_constraint)'],
  'claims':'Pass::doAction: an empty action returns 0 and touches nothing; otherwise the passed flag is cleared, the action code is run exactly once with the map cursor on the rule position (cell context of the slot map); when the machine fails the cursor is set to NULL, the high-water mark is dropped and 0 is returned; otherwise the cursor becomes the slot the action left under the map cursor and the advance the code returned is handed on unchanged'}@*/
/*@unit {'name':'c06_pass_constraint', 'props':['C06','C02'], 'entry':'h_pc', 'enforce':'Pass_testPassConstraint', 'defines':['PASS','PC'], 'unwind':8,
  'assumptions':['Machine::Code::run is a ghost model with a body (arbitrary verdict and status, no cursor movement: constraint code)', 'call site Pass::runGraphite: the segment has a first slot'],
  'claims':'Pass::testPassConstraint: a pass without constraint is accepted without touching the slot map; otherwise the slot map is reset to exactly one slot, the first slot of the stream, with no pre-context (cell 0 = its predecessor), the constraint is run once at that slot, and the pass is accepted iff the code yields non-zero and the machine stays healthy'}@*/
/*@unit {'name':'c06_pass_head', 'props':['C06','C02'], 'entry':'h_ph', 'enforce':'Pass_runGraphite', 'defines':['PASS','PH'], 'unwind':8,
  'assumptions':['the rule do-loop is cut out (R13) and replaced by a ghost model with its entry obligations - the loop itself is unit c02_rule_loop, its body findNDoRule unit c06_find',
                 'testPassConstraint (unit c06_pass_constraint), Segment::reverseSlots (unit c03_reverse), positionSlots, collisionShift / collisionKern / collisionFinish, hasCollisionInfo are ghost models with a call log'],
  'claims':'Pass::runGraphite outside its rule loop: an empty stream or a failing pass constraint leaves everything alone (no reversal, no rule, no collision work) and reports success; the stream is reversed exactly when asked to, once, before any rule runs; rules run iff the pass has rules, starting at the first slot of the (possibly reversed) stream with the high-water mark on the slot after it and the passed flag clear; a failed rule loop ends the pass with false; collision fixing runs only when the pass declares collision or kerning loops and the segment carries collision data, in the order position (only if not yet initialised) - shift - kern - finish, each at most once, and any failure is reported'}@*/
/*@unit {'name':'c06_adjust_slot', 'props':['C06','C02'], 'entry':'h_adj', 'kind':'bounded', 'defines_quick':['PASS','ADJ','NSLOTS=3'], 'defines_thorough':['PASS','ADJ','NSLOTS=4'],
  'unwind_quick':8, 'unwind_thorough':9, 'bound':'pool of 3 (quick) / 4 (thorough) slots, every well-formed stream, every cursor (a slot of the stream or NULL), every high-water mark (any pool slot or NULL), delta in [-NSLOTS-2, NSLOTS+2]',
  'claims':'Pass::adjustSlot: the cursor ends exactly delta positions from where it was (a NULL cursor counts as the position after the last slot when the high-water mark was passed or is NULL too, else as the position before the first slot), NULL when that leaves the stream; NULL is never dereferenced; the stream and the high-water mark are not written; the passed flag is set when the cursor moves forward off the high-water mark and cleared when it moves back onto it, as coded'}@*/
/*@unit {'name':'c06_collect_garbage', 'props':['C06','C03'], 'entry':'h_gc', 'kind':'bounded', 'defines_quick':['PASS','GC','NSLOTS=3','MS=3'], 'defines_thorough':['PASS','GC','NSLOTS=4','MS=4'],
  'unwind_quick':6, 'unwind_thorough':7, 'bound':'pool of 3 / 4 slots, slot map with 1 .. 3 / 4 cells in use naming any pool slots (repeats allowed), any deleted / copied marks, any cursor',
  'assumptions':['Segment::freeSlot is a ghost model (clears the marks and links of the slot, pushes it on the free list, moves first/last off it); its real body is verified in the C03/C04 freeSlot units',
                 'the prev/next links of a slot that is freed in this call do not lead to another slot freed in this call (delete_ repairs the neighbours of each slot it unlinks)',
                 'call site findNDoRule: the map holds at least one slot (m_size >= 1) - with m_size == 0 the loop bound end()-1 lies before begin()'],
  'claims':'SlotMap::collectGarbage frees exactly the slots marked deleted or copied that are named by cells 1 .. m_size-1 of the slot map (never the trailing slot, never cell 0, never a live slot), each once even if named twice; a cursor on a freed slot moves to the predecessor it had, else its successor, and ends on a slot that is not freed; any other cursor, the map cells and the map size are not written; every cell read lies inside the map'}@*/
/*@unit {'name':'c06_finalise_dir', 'props':['C06','C19','C02'], 'entry':'h_fin', 'enforce':'Segment_finalise', 'defines':['PASS','FIN'], 'unwind':8,
  'assumptions':['positionSlots, reverseSlots (unit c03_reverse), linkClusters and Silf::dir are ghost models with a call log'],
  'claims':'Segment::finalise (the step after the last pass): when the caller asks for it the stream is turned round at most once, after the final positions were computed, so that at return its direction equals the requested one (reversed flag xor direction bit = direction bit); only the reversed flag of m_dir changes; an empty stream is left alone; clusters are linked last, over the stream as handed out'}@*/

#ifdef PASS
/*@include slots.tc@*/
#define assert(x) __CPROVER_assert((x), "source assert: " #x)
typedef void * instr;
/*@extract {'if':'PASS', 'file':'src/inc/Machine.h', 'scope': r'class Machine\s*\{', 'kind':'range', 'start': r'enum status_t \{', 'end': r'\};', 'end_inclusive': True}@*/
typedef struct Machine { SlotMap *_map; enum status_t _status; } Machine;              /* the two data members the pass code reaches */
/*@extract {'if':'PASS', 'file':'src/inc/Machine.h', 'sig': r'inline Machine::status_t Machine::status\(\) const throw\(\)', 'emit':'static enum status_t Machine_status_0(const Machine *self)', 'self':['_status']}@*/
static SlotMap *Machine_slotMap_0(const Machine *m) { return m->_map; }                /* Machine::slotMap() { return _map; } */
/*@extract {'if':'PASS', 'file':'src/inc/Code.h', 'scope': r'class Machine::Code\s*\{', 'kind':'range', 'start': r'enum status_t\s*\{', 'end': r'\};', 'end_inclusive': True,
   'subs':[[r'enum status_t', 'enum code_status_t', 1]]}@*/
typedef enum code_status_t status_t;                                                    /* Machine::Code::status_t, the only status_t the extracted Code members name */
typedef struct Code {
/*@extract {'if':'PASS', 'kind':'members', 'file':'src/inc/Code.h', 'scope': r'class Machine::Code\s*\{', 'names':['_code','_status','_constraint'], 'subs':[[r'mutable ', '', 0]]}@*/
} Code;
/*@extract {'if':'PASS', 'kind':'accessors', 'file':'src/inc/Code.h', 'scope': r'class Machine::Code\s*\{', 'prefix':'Code', 'names':['status','constraint'], 'fields':['_status','_constraint']}@*/
/*@extract {'if':'PASS', 'file':'src/inc/Code.h', 'scope': r'class Machine::Code\s*\{', 'sig': r'operator bool \(\) const throw\(\)', 'emit':'static bool Code_bool(const Code *self)',
   'subs':[[r'\bstatus\(\)', 'Code_status_0(self)', 0]], 'self':['_code']}@*/
typedef struct Rule {
/*@extract {'if':'PASS', 'kind':'members', 'file':'src/inc/Rule.h', 'scope': r'struct Rule\s*\{', 'names':['constraint','action','sort','preContext'], 'subs':[[r'vm::Machine::Code', 'Code', 0]]}@*/
} Rule;
typedef struct Pass {
/*@extract {'if':'PASS', 'kind':'members', 'file':'src/inc/Pass.h', 'scope': r'class Pass\s*\{', 'names':['m_cPConstraint','m_numRules','m_iMaxLoop','m_numCollRuns','m_kernColls'], 'subs':[[r'vm::Machine::Code', 'Code', 0]]}@*/
} Pass;
typedef struct FiniteStateMachine { SlotMap *slots; void *dbgout; } FiniteStateMachine;
/*@extract {'if':'PASS', 'file':'src/inc/Rule.h', 'sig': r'size_t SlotMap::size\(\) const', 'emit':'static size_t SlotMap_size_0(const SlotMap *self)', 'self':['m_size']}@*/
/*@extract {'if':'PASS', 'file':'src/inc/Rule.h', 'sig': r'short unsigned int SlotMap::context\(\) const', 'emit':'static unsigned short SlotMap_context_0(const SlotMap *self)', 'self':['m_precontext']}@*/
/*@extract {'if':'PASS', 'file':'src/inc/Rule.h', 'sig': r'Slot \* \* SlotMap::begin\(\)', 'emit':'static Slot **SlotMap_begin_0(SlotMap *self)', 'self':['m_slot_map','m_size']}@*/
/*@extract {'if':'PASS', 'file':'src/inc/Rule.h', 'sig': r'Slot \* & SlotMap::operator\[\]\(int n\)', 'emit':'static Slot **SlotMap_cell(SlotMap *self, int n)', 'subs':[[r'return m_slot_map', 'return &m_slot_map', 1]], 'self':['m_slot_map']}@*/
/*@extract {'if':'PASS', 'file':'src/inc/Rule.h', 'sig': r'void SlotMap::reset\(Slot & slot, short unsigned int ctxt\)', 'emit':'static void SlotMap_reset_2(SlotMap *self, Slot *slot, unsigned short ctxt)',
   'methods':['prev'], 'refs':['slot'], 'self':['m_slot_map','m_size','m_precontext']}@*/
/*@extract {'if':'PASS', 'file':'src/inc/Rule.h', 'sig': r'void SlotMap::pushSlot\(Slot\*const slot\)', 'emit':'static void SlotMap_pushSlot_1(SlotMap *self, Slot *const slot)', 'self':['m_slot_map','m_size']}@*/
#define M_size_0 SlotMap_size_0
#define M_context_0 SlotMap_context_0
#define M_begin_0 SlotMap_begin_0
#define M_reset_2(sm, s, c) SlotMap_reset_2(sm, &(s), c)
#define M_pushSlot_1 SlotMap_pushSlot_1
bool nondet_bool(void); unsigned nondet_unsigned(void); int32 nondet_int32(void);
Machine *g_m; SlotMap *g_sm; const Pass *g_pass;
#define CELL(k) (&g_sm->m_slot_map[k])
#define TICK(x, what) { __CPROVER_assert((x) == 0, what ": at most once"); g_seq = g_seq + 1; (x) = g_seq; }

/* ------------------------------------------------------------------ testConstraint */
#ifdef TC
const Rule *g_rule; const Code *g_code;
unsigned g_base;                 /* cell index of the first matched slot of the rule: 1 + context - preContext */
unsigned g_runs, g_nextpos;      /* constraint runs so far; lowest rule position (0-based) that may still be run */
bool g_tc[64], g_bad[64];        /* per rule position: the code yields non-zero / leaves the machine unhealthy */
unsigned g_k; bool g_seen_k;     /* ghost position and whether the code was run there */
unsigned g_failpos;              /* position whose run ended the test (64 = none) */
static int32 Code_run(const Code *c, Machine *m, slotref **mapp)
{
    __CPROVER_assert(c == g_code && m == g_m && m->_status == finished && g_failpos == 64, "the rule's constraint code runs on a healthy machine, never after a failed run");
    __CPROVER_assert(SAME(*mapp, g_sm) && OFF(*mapp) >= OFF(CELL(g_base)) && (OFF(*mapp) - OFF(CELL(g_base))) % sizeof(Slot *) == 0, "map cursor on a cell at or after the first matched slot");
    const unsigned pos = (unsigned)((OFF(*mapp) - OFF(CELL(g_base))) / sizeof(Slot *));
    __CPROVER_assert(pos >= g_nextpos && pos < g_rule->sort && pos < 64, "runs go through the matched slots in stream order, once per slot, inside the rule");
    __CPROVER_assert(**mapp != (Slot *)0, "no run on an empty cell");
    g_nextpos = pos + 1; g_runs = g_runs + 1;
    if (pos == g_k) g_seen_k = true;
    if (g_bad[pos]) m->_status = died_early;
    if (!g_tc[pos] || g_bad[pos]) g_failpos = pos;
    return g_tc[pos] ? 1 + (int32)(nondet_unsigned() % 1000) : 0;
}
#define FITS(r)   (g_sm->m_precontext >= (r)->preContext && (unsigned)((r)->sort + g_sm->m_precontext - (r)->preContext) <= g_sm->m_size)
#define LASTCELL(r) (g_sm->m_slot_map[g_base + (r)->sort - 1])
bool Pass_testConstraint(const Pass *self, const Rule *r, Machine *m)
__CPROVER_requires(r == g_rule && m == g_m && m->_map == g_sm && r->constraint == g_code && m->_status == finished && g_sm->m_size <= 64)
__CPROVER_requires(g_base == 1u + g_sm->m_precontext - r->preContext && g_runs == 0 && g_nextpos == 0 && !g_seen_k && g_failpos == 64)
__CPROVER_assigns(m->_status, g_runs, g_nextpos, g_seen_k, g_failpos)
/* refused without running code */
__CPROVER_ensures((!FITS(r) || LASTCELL(r) == (Slot *)0) ==> (!__CPROVER_return_value && g_runs == 0 && m->_status == finished))
/* accepted without running code: no constraint */
__CPROVER_ensures((FITS(r) && LASTCELL(r) != (Slot *)0 && !Code_bool(r->constraint)) ==> (__CPROVER_return_value && g_runs == 0))
/* accepted: every matched slot (ghost position g_k) passed its run */
__CPROVER_ensures((__CPROVER_return_value && Code_bool(r->constraint) && g_k < r->sort) ==> (g_sm->m_slot_map[g_base + g_k] == (Slot *)0 || (g_seen_k && g_tc[g_k] && !g_bad[g_k])))
__CPROVER_ensures(__CPROVER_return_value ==> (m->_status == finished && g_failpos == 64))
/* refused after the pre-checks: some run failed */
__CPROVER_ensures((!__CPROVER_return_value && FITS(r) && LASTCELL(r) != (Slot *)0) ==> (g_failpos < r->sort && (!g_tc[g_failpos] || g_bad[g_failpos])));
/*@extract {'if':'TC', 'file':'src/Pass.cpp', 'sig': r'bool Pass::testConstraint\(const Rule & r, Machine & m\) const', 'emit':'bool Pass_testConstraint(const Pass *self, const Rule *r, Machine *m)',
   'subs':[[r'm\.slotMap\(\)', '(*Machine_slotMap_0(m))', 0], [r'm\.status\(\)', 'Machine_status_0(m)', 0], [r'Machine::finished', 'finished', 0], [r'vm::slotref', 'slotref', 0],
           [r'!\*r\.constraint', '!Code_bool(r.constraint)', 0], [r'r\.constraint->constraint\(\)', 'Code_constraint_0(r.constraint)', 0],
           [r'r\.constraint->run\(m, map\)', 'Code_run(r.constraint, m, &map)', 0], [r'\br\.', 'r->', 0]],
   'methods':['context','size','begin'],
   'loops':{1: """__CPROVER_assigns(n, map, m->_status, g_runs, g_nextpos, g_seen_k, g_failpos)
                  __CPROVER_loop_invariant(n >= 0 && n <= r->sort && map == CELL(g_base + (r->sort - n)) && m->_status == finished && g_failpos == 64)
                  __CPROVER_loop_invariant(g_nextpos <= (unsigned)(r->sort - n))
                  __CPROVER_loop_invariant(g_k >= (unsigned)(r->sort - n) || g_sm->m_slot_map[g_base + g_k] == (Slot *)0 || (g_seen_k && g_tc[g_k] && !g_bad[g_k]))
                  __CPROVER_decreases(n)"""}}@*/
void h_tc(void)
{
    SlotMap *sm = malloc(sizeof(SlotMap)); Machine *m = malloc(sizeof(Machine)); Rule *r = malloc(sizeof(Rule)); Code *c = malloc(sizeof(Code)); Pass *ps = malloc(1);
    __CPROVER_assume(sm && m && r && c && ps && sm->m_size <= 64);
    m->_map = sm; m->_status = finished; r->constraint = c; c->_constraint = true;        /* Pass::readRules builds r->constraint with is_constraint = true */
    g_m = m; g_sm = sm; g_rule = r; g_code = c;
    g_base = 1u + sm->m_precontext - r->preContext; g_runs = 0; g_nextpos = 0; g_seen_k = false; g_failpos = 64;
    for (int i = 0; i < 64; ++i) { g_tc[i] = nondet_bool(); g_bad[i] = nondet_bool(); }
    g_k = nondet_unsigned();
    bool ok = Pass_testConstraint(ps, r, m);
    (void)ok;
    CANARY();
}
#endif /* TC */

/* ------------------------------------------------------------------ doAction */
#ifdef DA
const Code *g_code; Slot **g_outp; Slot *g_out0;
unsigned g_runs; int32 g_ret; Slot *g_is; unsigned g_newcell; bool g_fails;
bool g_hp0; Slot *g_hw0;
static int32 Code_run(const Code *c, Machine *m, slotref **mapp)
{
    __CPROVER_assert(c == g_code && m == g_m && g_runs == 0, "the action code of the rule is run once");
    __CPROVER_assert(*mapp == CELL(1 + g_sm->m_precontext), "the map cursor starts on the rule position: cell context() of the slot map");
    __CPROVER_assert(g_sm->m_highpassed == false && g_sm->m_highwater == g_hw0, "the passed flag is cleared before the action runs, the high-water mark is kept");
    g_runs = g_runs + 1;
    *mapp = CELL(g_newcell); **mapp = g_is;                 /* Machine::run: map = reg.map; *map = reg.is; */
    if (g_fails) m->_status = slot_offset_out_bounds;
    return g_ret;
}
int Pass_doAction(const Pass *self, const Code *codeptr, Slot **slot_out, Machine *m)
__CPROVER_requires(codeptr == g_code && slot_out == g_outp && *slot_out == g_out0 && m == g_m && m->_map == g_sm && m->_status == finished && g_runs == 0)
__CPROVER_requires(g_sm->m_highpassed == g_hp0 && g_sm->m_highwater == g_hw0 && g_sm->m_precontext <= g_sm->m_size && g_sm->m_size <= 64 && g_newcell <= 64)
__CPROVER_assigns(*slot_out, m->_status, g_sm->m_highpassed, g_sm->m_highwater, __CPROVER_object_whole(g_sm->m_slot_map), g_runs)
__CPROVER_ensures(!Code_bool(codeptr) ==> (__CPROVER_return_value == 0 && g_runs == 0 && *slot_out == g_out0 && g_sm->m_highpassed == g_hp0 && g_sm->m_highwater == g_hw0))
__CPROVER_ensures(Code_bool(codeptr) ==> g_runs == 1)
__CPROVER_ensures((Code_bool(codeptr) && g_fails) ==> (__CPROVER_return_value == 0 && *slot_out == (Slot *)0 && g_sm->m_highwater == (Slot *)0 && g_sm->m_highpassed == false))
__CPROVER_ensures((Code_bool(codeptr) && !g_fails) ==> (__CPROVER_return_value == g_ret && *slot_out == g_is && g_sm->m_highwater == g_hw0 && m->_status == finished));
/*@extract {'if':'DA', 'file':'src/Pass.cpp', 'sig': r'int Pass::doAction\(const Code \*codeptr, Slot \* & slot_out, vm::Machine & m\) const', 'emit':'int Pass_doAction(const Pass *self, const Code *codeptr, Slot **slot_out, Machine *m)',
   'subs':[[r'SlotMap   & smap = m\.slotMap\(\);', 'SlotMap *const smap_p = Machine_slotMap_0(m);', 0], [r'\bsmap\b', '(*smap_p)', 0],
           [r'&\(\*smap_p\)\[([^\]]*)\]', r'SlotMap_cell(smap_p, \1)', 0],
           [r'!\*codeptr', '!Code_bool(codeptr)', 0], [r'codeptr->run\(m, map\)', 'Code_run(codeptr, m, &map)', 0],
           [r'm\.status\(\)', 'Machine_status_0(m)', 0], [r'Machine::finished', 'finished', 0], [r'vm::slotref', 'slotref', 0]],
   'methods':['context','highpassed','highwater'], 'refs':['slot_out']}@*/
void h_da(void)
{
    havoc_links();
    SlotMap *sm = malloc(sizeof(SlotMap)); Machine *m = malloc(sizeof(Machine)); Code *c = malloc(sizeof(Code)); Pass *ps = malloc(1); Slot **out = malloc(sizeof(Slot *));
    __CPROVER_assume(sm && m && c && ps && out && sm->m_size <= 64 && sm->m_precontext <= sm->m_size);
    m->_map = sm; m->_status = finished; sm->m_highpassed = nondet_bool(); sm->m_highwater = pick_slot(); *out = pick_slot();
    g_m = m; g_sm = sm; g_code = c; g_outp = out; g_out0 = *out; g_hp0 = sm->m_highpassed; g_hw0 = sm->m_highwater;
    g_runs = 0; g_ret = nondet_int32(); g_is = pick_slot(); g_newcell = nondet_unsigned() % 65; g_fails = nondet_bool();
    int r = Pass_doAction(ps, c, out, m);
    (void)r;
    CANARY();
}
#endif /* DA */

/* ------------------------------------------------------------------ testPassConstraint */
#ifdef PC
Slot *g_first; unsigned g_runs; int32 g_ret; bool g_fails;
static int32 Code_run(const Code *c, Machine *m, slotref **mapp)
{
    __CPROVER_assert(c == &g_pass->m_cPConstraint && m == g_m && g_runs == 0 && m->_status == finished, "the pass constraint is run once, on a healthy machine");
    __CPROVER_assert(*mapp == CELL(1) && g_sm->m_size == 1 && g_sm->m_precontext == 0 && g_sm->m_slot_map[1] == g_first && g_sm->m_slot_map[0] == g_first->m_prev,
                     "the slot map holds exactly the first slot of the stream, no pre-context, cell 0 = its predecessor; the map cursor is on it");
    g_runs = g_runs + 1;
    if (g_fails) m->_status = stack_underflow;
    return g_ret;
}
bool Pass_testPassConstraint(const Pass *self, Machine *m)
__CPROVER_requires(self == g_pass && m == g_m && m->_map == g_sm && m->_status == finished && g_sm->segment_->m_first == g_first && g_first != (Slot *)0 && g_runs == 0)
__CPROVER_assigns(m->_status, g_sm->m_size, g_sm->m_precontext, g_sm->m_slot_map[0], g_sm->m_slot_map[1], g_runs)
__CPROVER_ensures(!Code_bool(&self->m_cPConstraint) ==> (__CPROVER_return_value && g_runs == 0 && g_sm->m_size == __CPROVER_old(g_sm->m_size)))
__CPROVER_ensures(Code_bool(&self->m_cPConstraint) ==> (g_runs == 1 && __CPROVER_return_value == (g_ret != 0 && !g_fails)));
/*@extract {'if':'PC', 'file':'src/Pass.cpp', 'sig': r'bool Pass::testPassConstraint\(Machine & m\) const', 'emit':'bool Pass_testPassConstraint(const Pass *self, Machine *m)',
   'subs':[[r'm\.slotMap\(\)\.segment\b', '(*Machine_slotMap_0(m)->segment_)', 0], [r'm\.slotMap\(\)', '(*Machine_slotMap_0(m))', 0],
           [r'!m_cPConstraint', '!Code_bool(&m_cPConstraint)', 0], [r'm_cPConstraint\.constraint\(\)', 'Code_constraint_0(&m_cPConstraint)', 0],
           [r'm_cPConstraint\.run\(m, map\)', 'Code_run(&m_cPConstraint, m, &map)', 0],
           [r'm\.status\(\)', 'Machine_status_0(m)', 0], [r'Machine::finished', 'finished', 0], [r'vm::slotref', 'slotref', 0]],
   'methods':['first','reset','pushSlot','begin'], 'self':['m_cPConstraint']}@*/
void h_pc(void)
{
    havoc_links();
    SlotMap *sm = malloc(sizeof(SlotMap)); Machine *m = malloc(sizeof(Machine)); Pass *ps = malloc(sizeof(Pass)); Segment *sg = malloc(sizeof(Segment));
    __CPROVER_assume(sm && m && ps && sg);
    m->_map = sm; m->_status = finished; sm->segment_ = sg; sg->m_first = pick_slot(); __CPROVER_assume(sg->m_first);
    ps->m_cPConstraint._constraint = true;                       /* Pass::readPass builds m_cPConstraint with is_constraint = true */
    g_m = m; g_sm = sm; g_pass = ps; g_first = sg->m_first; g_runs = 0; g_ret = nondet_int32(); g_fails = nondet_bool();
    bool ok = Pass_testPassConstraint(ps, m);
    (void)ok;
    CANARY();
}
#endif /* PC */

/* ------------------------------------------------------------------ Pass::runGraphite outside the rule loop */
#ifdef PH
/*@extract {'if':'PH', 'file':'src/inc/Segment.h', 'scope': r'class Segment\s*\{', 'kind':'range', 'start': r'enum \{\s*SEG_INITCOLLISIONS', 'end': r'\};', 'end_inclusive': True}@*/
/*@extract {'if':'PH', 'kind':'accessors', 'file':'src/inc/Segment.h', 'scope': r'class Segment\s*\{', 'prefix':'Segment', 'names':['flags'], 'generic':['flags'], 'fields':['m_flags']}@*/
unsigned g_seq;                                              /* call clock */
unsigned g_at_pc, g_at_rev, g_at_loop, g_at_pos, g_at_shift, g_at_kern, g_at_fin;    /* time of the (single) call, 0 = not called */
bool g_pc_ok, g_loop_ok, g_shift_ok, g_kern_ok, g_fin_ok, g_hascoll, g_reverse;
Segment *g_seg; Slot *g_first0, *g_newfirst; FiniteStateMachine *g_fsm;
static bool Pass_testPassConstraint(const Pass *self, Machine *m)
{
    TICK(g_at_pc, "testPassConstraint");
    __CPROVER_assert(self == g_pass && m == g_m && g_seg->m_first != (Slot *)0 && g_seq == 1, "the pass constraint is tested first, on a non-empty stream");
    return g_pc_ok;
}
static void Segment_reverseSlots_0(Segment *sg)
{
    TICK(g_at_rev, "reverseSlots");
    __CPROVER_assert(sg == g_seg && g_reverse && g_at_loop == 0, "the stream is reversed only when asked to, before any rule runs");
    sg->m_dir = sg->m_dir ^ 64; sg->m_first = g_newfirst;                 /* the old last slot becomes the first (unit c03_reverse) */
}
static bool rule_loop_model(const Pass *self, Machine *m, FiniteStateMachine *fsm, Slot *s)
{
    TICK(g_at_loop, "rule loop");
    __CPROVER_assert(self->m_numRules != 0 && m == g_m && fsm == g_fsm && m->_status == finished, "rules run only in a pass that has rules");
    __CPROVER_assert(g_reverse == (g_at_rev != 0), "rules run on the reversed stream exactly when reversal was asked for");
    __CPROVER_assert(s != (Slot *)0 && s == g_seg->m_first, "the rule loop starts at the first slot of the stream as it is now");
    __CPROVER_assert(m->_map->m_highwater == s->m_next && m->_map->m_highpassed == false, "the high-water mark starts on the slot after the first, not passed");
    if (!g_loop_ok) m->_status = died_early;
    return g_loop_ok;
}
static bool Segment_hasCollisionInfo_0(const Segment *sg) { (void)sg; return g_hascoll; }       /* (m_flags & SEG_HASCOLLISIONS) && m_collisions: collision data was set up by initCollisions */
static Position Segment_positionSlots_5(Segment *sg, const void *font, Slot *a, Slot *b, bool rtl, bool final)
{
    TICK(g_at_pos, "positionSlots");
    __CPROVER_assert(sg == g_seg && font == (void *)0 && a == (Slot *)0 && b == (Slot *)0 && final && rtl == (g_sm->m_dir != 0) && !(sg->m_flags & SEG_INITCOLLISIONS), "whole stream, final positions, in the direction of the pass, only while collision data is not initialised");
    return POS0;
}
static bool Pass_collisionShift(const Pass *self, Segment *sg, int dir, void *dbg)
{ TICK(g_at_shift, "collisionShift"); __CPROVER_assert(self->m_numCollRuns != 0 && sg == g_seg && dir == g_sm->m_dir, "shift only in a pass with collision loops"); return g_shift_ok; }
static bool Pass_collisionKern(const Pass *self, Segment *sg, int dir, void *dbg)
{ TICK(g_at_kern, "collisionKern"); __CPROVER_assert(self->m_kernColls != 0 && sg == g_seg && dir == g_sm->m_dir, "kern only in a pass with kerning loops"); return g_kern_ok; }
static bool Pass_collisionFinish(const Pass *self, Segment *sg, void *dbg)
{ TICK(g_at_fin, "collisionFinish"); __CPROVER_assert(sg == g_seg, "finish on this segment"); return g_fin_ok; }
#define M_reverseSlots_0 Segment_reverseSlots_0
#define M_hasCollisionInfo_0 Segment_hasCollisionInfo_0
#define M_positionSlots_5 Segment_positionSlots_5

#define RUNS        (g_first0 != (Slot *)0 && g_pc_ok)
#define COLL(self)  (RUNS && (self->m_numRules == 0 || g_loop_ok) && (self->m_numCollRuns || self->m_kernColls) && g_hascoll)
bool Pass_runGraphite(const Pass *self, Machine *m, FiniteStateMachine *fsm, bool reverse)
__CPROVER_requires(self == g_pass && m == g_m && fsm == g_fsm && m->_map == g_sm && g_sm->segment_ == g_seg && g_seg->m_first == g_first0 && reverse == g_reverse && m->_status == finished)
__CPROVER_requires(g_seq == 0 && g_at_pc == 0 && g_at_rev == 0 && g_at_loop == 0 && g_at_pos == 0 && g_at_shift == 0 && g_at_kern == 0 && g_at_fin == 0)
__CPROVER_assigns(m->_status, g_sm->m_highwater, g_sm->m_highpassed, g_seg->m_dir, g_seg->m_first, g_seq, g_at_pc, g_at_rev, g_at_loop, g_at_pos, g_at_shift, g_at_kern, g_at_fin)
/* nothing to do: empty stream or pass constraint false */
__CPROVER_ensures(!RUNS ==> (__CPROVER_return_value && g_at_rev == 0 && g_at_loop == 0 && g_at_pos == 0 && g_at_shift == 0 && g_at_kern == 0 && g_at_fin == 0 && g_seg->m_first == g_first0 && m->_status == finished))
__CPROVER_ensures((g_first0 != (Slot *)0) == (g_at_pc != 0))
/* reversal and rules */
__CPROVER_ensures(RUNS ==> ((g_at_rev != 0) == g_reverse && (g_at_loop != 0) == (self->m_numRules != 0)))
__CPROVER_ensures((RUNS && self->m_numRules != 0 && !g_loop_ok) ==> (!__CPROVER_return_value && g_at_pos == 0 && g_at_shift == 0 && g_at_kern == 0 && g_at_fin == 0))
/* collision fixing */
__CPROVER_ensures(!COLL(self) ==> (g_at_pos == 0 && g_at_shift == 0 && g_at_kern == 0 && g_at_fin == 0))
__CPROVER_ensures((RUNS && (self->m_numRules == 0 || g_loop_ok) && !COLL(self)) ==> __CPROVER_return_value)
__CPROVER_ensures(COLL(self) ==> ((g_at_shift != 0) == (self->m_numCollRuns != 0) && (g_at_pos != 0) == (self->m_numCollRuns != 0 && !(g_seg->m_flags & SEG_INITCOLLISIONS))))
__CPROVER_ensures(COLL(self) ==> ((g_at_pos == 0 || g_at_pos < g_at_shift) && (g_at_kern == 0 || g_at_shift < g_at_kern) && (g_at_fin == 0 || (g_at_shift < g_at_fin && g_at_kern < g_at_fin))))
__CPROVER_ensures(COLL(self) ==> ((g_at_kern != 0) == (self->m_kernColls != 0 && (self->m_numCollRuns == 0 || g_shift_ok))))
__CPROVER_ensures(COLL(self) ==> ((g_at_fin != 0) == ((self->m_numCollRuns == 0 || g_shift_ok) && (self->m_kernColls == 0 || g_kern_ok))))
__CPROVER_ensures(COLL(self) ==> (__CPROVER_return_value == ((self->m_numCollRuns == 0 || g_shift_ok) && (self->m_kernColls == 0 || g_kern_ok) && g_fin_ok)));
/*@extract {'if':'PH', 'file':'src/Pass.cpp', 'sig': r'bool Pass::runGraphite\(vm::Machine & m, FiniteStateMachine & fsm, bool reverse\) const',
   'emit':'bool Pass_runGraphite(const Pass *self, Machine *m, FiniteStateMachine *fsm, bool reverse)',
   'cuts':[[r'int lc = m_iMaxLoop;', r'\}\s*const bool collisions', 'if (!rule_loop_model(self, m, fsm, s)) return false;']],
   'subs':[[r'm\.slotMap\(\)\.segment\.flags\(\)', 'Segment_flags_0(Machine_slotMap_0(m)->segment_)', 0],
           [r'&m\.slotMap\(\)\.segment\b', 'Machine_slotMap_0(m)->segment_', 0],
           [r'm\.slotMap\(\)\.segment\b', 'Machine_slotMap_0(m)->segment_[0]', 0], [r'm\.slotMap\(\)', 'Machine_slotMap_0(m)[0]', 0],
           [r'testPassConstraint\(m\)', 'Pass_testPassConstraint(self, m)', 0], [r'Segment::SEG_INITCOLLISIONS', 'SEG_INITCOLLISIONS', 0],
           [r'\bcollision(Shift|Kern|Finish)\(', r'Pass_collision\1(self, ', 0], [r'fsm\.dbgout', 'fsm->dbgout', 0]],
   'methods':['first','next','reverseSlots','highwater','hasCollisionInfo','positionSlots','dir'],
   'self':['m_numRules','m_iMaxLoop','m_numCollRuns','m_kernColls']}@*/
void h_ph(void)
{
    havoc_links();
    SlotMap *sm = malloc(sizeof(SlotMap)); Machine *m = malloc(sizeof(Machine)); Pass *ps = malloc(sizeof(Pass)); Segment *sg = malloc(sizeof(Segment)); FiniteStateMachine *fsm = malloc(sizeof(FiniteStateMachine));
    __CPROVER_assume(sm && m && ps && sg && fsm);
    m->_map = sm; m->_status = finished; sm->segment_ = sg; sm->m_highpassed = nondet_bool(); fsm->slots = sm;
    sg->m_first = pick_slot(); g_newfirst = pick_slot(); __CPROVER_assume(g_newfirst);           /* reversing a non-empty stream leaves it non-empty */
    g_m = m; g_sm = sm; g_pass = ps; g_seg = sg; g_fsm = fsm; g_first0 = sg->m_first;
    g_pc_ok = nondet_bool(); g_loop_ok = nondet_bool(); g_shift_ok = nondet_bool(); g_kern_ok = nondet_bool(); g_fin_ok = nondet_bool(); g_hascoll = nondet_bool(); g_reverse = nondet_bool();
    g_seq = 0; g_at_pc = g_at_rev = g_at_loop = g_at_pos = g_at_shift = g_at_kern = g_at_fin = 0;
    bool r = Pass_runGraphite(ps, m, fsm, g_reverse);
    (void)r;
    CANARY();
}
#endif /* PH */

/* ------------------------------------------------------------------ adjustSlot (bounded slot universe) */
#ifdef ADJ
/*@extract {'if':'ADJ', 'file':'src/Pass.cpp', 'sig': r'void Pass::adjustSlot\(int delta, Slot \* & slot_out, SlotMap & smap\) const', 'emit':'void Pass_adjustSlot(const Pass *self, int delta, Slot **slot_out, SlotMap *smap)',
   'subs':[[r'smap\.segment\b', '(*smap.segment_)', 0]],
   'methods':['highpassed','highwater','last','first','prev','next'], 'refs':['slot_out','smap']}@*/
static int pos_of(const int o[NSLOTS], int n, const Slot *s) { for (int k = 0; k < NSLOTS; ++k) if (k < n && &g_pool[o[k]] == s) return k; return -1; }
int nondet_int(void);
void h_adj(void)
{
    Segment sg; SlotMap sm; Pass *ps = malloc(1);
    havoc_links();
    sg.m_first = pick_slot(); sg.m_last = pick_slot();
    int o[NSLOTS], n;
    __CPROVER_assume(wf_list(sg.m_first, sg.m_last, o, &n));
    sm.segment_ = &sg; sm.m_highwater = pick_slot(); sm.m_highpassed = nondet_bool();
    Slot *cur = pick_slot();
    __CPROVER_assume(cur == (Slot *)0 || in_order(o, n, IDX(cur)));                /* the cursor an action leaves is a slot of the stream or NULL (off the stream) */
    int w_delta = nondet_int(); __CPROVER_assume(w_delta >= -(NSLOTS + 2) && w_delta <= NSLOTS + 2);
    Slot *const cur0 = cur, *const hw = sm.m_highwater; const bool hp0 = sm.m_highpassed;
    Slot saved[NSLOTS]; for (int i = 0; i < NSLOTS; ++i) saved[i] = g_pool[i];
    /* ---- reference: positions on the stream.  -1 = before the first slot, n = after the last */
    const bool at_end = hp0 || hw == (Slot *)0;
    const int p0 = cur0 ? pos_of(o, n, cur0) : (at_end ? n : -1);
    const int t = p0 + w_delta;
    Slot *const expect = (t >= 0 && t < n) ? &g_pool[o[t]] : (Slot *)0;
    /* passed flag, as coded: walking forward off the high-water mark sets it, walking back onto the mark (or, with no mark, off the front) clears it */
    bool hp = hp0; int start = p0, d = w_delta;
    if (!cur0) {
        if (at_end) { start = n - 1; d = w_delta + 1; if (!hw || (n > 0 && hw == &g_pool[o[n - 1]])) hp = false; }
        else        { start = 0;     d = w_delta - 1; }
    }
    if (n == 0 && !cur0) d = 0;                                                  /* empty stream: nothing to walk */
    for (int j = 0; j < NSLOTS + 4; ++j) {
        if (d < 0 && j < -d && start - j >= 0 && start - j < n) { const int q = start - j - 1; Slot *sq = q >= 0 ? &g_pool[o[q]] : (Slot *)0; if (hp && hw == sq) hp = false; }
        if (d > 0 && j < d && start + j >= 0 && start + j < n)  { if (&g_pool[o[start + j]] == hw) hp = true; }
    }
    Pass_adjustSlot(ps, w_delta, &cur, &sm);
    __CPROVER_assert(cur == expect, "adjustSlot: the cursor ends delta positions from where it was; NULL when that is off the stream");
    __CPROVER_assert(sm.m_highwater == hw && sm.segment_ == &sg && sg.m_first == (n ? &g_pool[o[0]] : (Slot *)0) && sg.m_last == (n ? &g_pool[o[n - 1]] : (Slot *)0), "adjustSlot: high-water mark and stream ends are not written");
    for (int i = 0; i < NSLOTS; ++i) __CPROVER_assert(g_pool[i].m_next == saved[i].m_next && g_pool[i].m_prev == saved[i].m_prev && g_pool[i].m_flags == saved[i].m_flags, "adjustSlot: no slot is written");
    __CPROVER_assert(sm.m_highpassed == hp, "adjustSlot: the passed flag follows the walk (set when leaving the high-water mark forwards, cleared when reaching it backwards)");
    CANARY();
}
#endif /* ADJ */

/* ------------------------------------------------------------------ SlotMap::collectGarbage (bounded slot universe) */
#ifdef GC
/*@extract {'if':'GC', 'file':'src/inc/Rule.h', 'sig': r'Slot \* \* SlotMap::end\(\)', 'emit':'static Slot **SlotMap_end_0(SlotMap *self)', 'self':['m_slot_map','m_size']}@*/
bool g_freed[NSLOTS];
/* ghost model of Segment::freeSlot (real body: units c03_free_slot / c04_free_slot): the slot is reset (marks and links cleared) and pushed on the free list */
static void Segment_freeSlot_1(Segment *sg, Slot *a)
{
    __CPROVER_assert(a != (Slot *)0 && SAME(a, g_pool), "freeSlot gets a slot");
    __CPROVER_assert(!g_freed[IDX(a)], "a slot is freed at most once");
    __CPROVER_assert((a->m_flags & (DELETED | COPIED)) != 0, "only deleted slots and temporary copies are freed");
    g_freed[IDX(a)] = true;
    if (sg->m_last == a) sg->m_last = a->m_prev;
    if (sg->m_first == a) sg->m_first = a->m_next;
    a->m_flags = 0; a->m_prev = (Slot *)0;                  /* Slot::Slot resets every field; only the marks and links matter here */
    a->m_next = sg->m_freeSlots; sg->m_freeSlots = a;
}
/*@extract {'if':'GC', 'file':'src/Pass.cpp', 'sig': r'void SlotMap::collectGarbage\(Slot \* &aSlot\)', 'emit':'void SlotMap_collectGarbage(SlotMap *self, Slot **aSlot)',
   'subs':[[r'Slot \*& slot = \*s;', 'Slot **slot_p = s;', 0], [r'\bslot\b', '(*slot_p)', 0], [r'\bbegin\(\)', 'SlotMap_begin_0(self)', 0], [r'\bend\(\)', 'SlotMap_end_0(self)', 0],
           [r'segment\.freeSlot\(', 'Segment_freeSlot_1(self->segment_, ', 0]],
   'methods':['isDeleted','isCopied','prev','next'], 'refs':['aSlot']}@*/
#ifndef MS
#define MS 4              /* cells in use: m_size <= MS */
#endif
void h_gc(void)
{
    Segment sg; SlotMap sm;
    havoc_links();
    sg.m_first = pick_slot(); sg.m_last = pick_slot(); sg.m_freeSlots = (Slot *)0;
    sm.segment_ = &sg;
    unsigned w_size = nondet_unsigned(); __CPROVER_assume(w_size >= 1 && w_size <= MS);      /* after a rule matched the map holds at least one slot (runFSM pushes before it tests) */
    sm.m_size = (unsigned short)w_size;
    for (int k = 0; k <= MS; ++k) sm.m_slot_map[k] = pick_slot();
    Slot *cur = pick_slot(); Slot *const cur0 = cur;
    bool garbage[NSLOTS], inrange[NSLOTS];
    for (int i = 0; i < NSLOTS; ++i) { g_freed[i] = false; garbage[i] = (g_pool[i].m_flags & (DELETED | COPIED)) != 0; inrange[i] = false; }
    for (int k = 1; k < MS; ++k) if ((unsigned)k < w_size && sm.m_slot_map[k]) inrange[IDX(sm.m_slot_map[k])] = true;       /* cells 1 .. m_size-1: the matched slots without the trailing one */
    /* links of a slot that is about to be freed lead to slots that stay (or nowhere): delete_ unlinks one slot at a time and repairs its neighbours */
    for (int i = 0; i < NSLOTS; ++i) if (garbage[i] && inrange[i]) {
        __CPROVER_assume(g_pool[i].m_prev == (Slot *)0 || !(garbage[IDX(g_pool[i].m_prev)] && inrange[IDX(g_pool[i].m_prev)]));
        __CPROVER_assume(g_pool[i].m_next == (Slot *)0 || !(garbage[IDX(g_pool[i].m_next)] && inrange[IDX(g_pool[i].m_next)]));
    }
    Slot *const moved = cur0 ? (cur0->m_prev ? cur0->m_prev : cur0->m_next) : (Slot *)0;
    Slot *cells[MS + 1]; for (int k = 0; k <= MS; ++k) cells[k] = sm.m_slot_map[k];
    SlotMap_collectGarbage(&sm, &cur);
    for (int i = 0; i < NSLOTS; ++i) __CPROVER_assert(g_freed[i] == (garbage[i] && inrange[i]), "collectGarbage frees exactly the deleted / copied slots named by cells 1 .. m_size-1 of the map");
    if (cur0 && garbage[IDX(cur0)] && inrange[IDX(cur0)])
        __CPROVER_assert(cur == moved && (cur == (Slot *)0 || !g_freed[IDX(cur)]), "the cursor moves off a freed slot to its predecessor, else its successor, which is not freed");
    else
        __CPROVER_assert(cur == cur0, "a cursor that is not freed stays");
    for (int k = 0; k <= MS; ++k) __CPROVER_assert(sm.m_slot_map[k] == cells[k], "the map cells are not written");
    __CPROVER_assert(sm.m_size == w_size, "the map size is not written");
    CANARY();
}
#endif /* GC */

/* ------------------------------------------------------------------ Segment::finalise: the reversal that restores the requested direction */
#ifdef FIN
unsigned g_seq, g_at_pos, g_at_rev, g_at_link; Segment *g_seg; Slot *g_first0, *g_last0; int8 g_dir0; Position g_adv; uint8 g_silfdir;
#define CURRDIR(sg)   ((((sg)->m_dir >> 6) ^ (sg)->m_dir) & 1)        /* spec: reversed flag (bit 6) xor requested direction (bit 0) */
static uint8 Silf_dir_0(const Silf *sf) { (void)sf; return g_silfdir; }
static Position Segment_positionSlots_5(Segment *sg, const void *font, Slot *a, Slot *b, bool rtl, bool final)
{
    TICK(g_at_pos, "positionSlots");
    __CPROVER_assert(sg == g_seg && a == g_first0 && b == g_last0 && final && rtl == (g_silfdir != 0) && g_at_rev == 0, "final positions over the whole stream, in the direction of the font, before the stream is turned round");
    return POS0;
}
static void Segment_reverseSlots_0(Segment *sg)
{
    TICK(g_at_rev, "reverseSlots");
    sg->m_dir = sg->m_dir ^ 64; Slot *t = sg->m_first; sg->m_first = sg->m_last; sg->m_last = t;             /* unit c03_reverse */
}
static void Segment_linkClusters_2(Segment *sg, Slot *a, Slot *b)
{
    TICK(g_at_link, "linkClusters");
    __CPROVER_assert(sg == g_seg && a == sg->m_first && b == sg->m_last, "clusters are linked over the stream as it is handed out");
}
void Segment_finalise(Segment *self, const void *font, bool reverse)
__CPROVER_requires(self == g_seg && self->m_first == g_first0 && self->m_last == g_last0 && self->m_dir == g_dir0 && g_seq == 0 && g_at_pos == 0 && g_at_rev == 0 && g_at_link == 0)
__CPROVER_assigns(self->m_dir, self->m_first, self->m_last, g_adv, g_seq, g_at_pos, g_at_rev, g_at_link)
/* at return the stream runs in the direction the caller asked for */
__CPROVER_ensures((g_first0 && g_last0 && reverse) ==> CURRDIR(self) == (self->m_dir & 1))
__CPROVER_ensures(((self->m_dir ^ g_dir0) & ~64) == 0 && (!reverse ==> self->m_dir == g_dir0))
__CPROVER_ensures((g_first0 && g_last0) ==> (g_at_pos != 0 && g_at_link != 0 && g_at_pos < g_at_link && (g_at_rev == 0 || (g_at_pos < g_at_rev && g_at_rev < g_at_link))))
__CPROVER_ensures(!(g_first0 && g_last0) ==> (g_seq == 0 && self->m_dir == g_dir0));
/*@extract {'if':'FIN', 'file':'src/inc/Segment.h', 'sig': r'void Segment::finalise\(const Font \*font, bool reverse\)', 'emit':'void Segment_finalise(Segment *self, const void *font, bool reverse)',
   'subs':[[r'm_advance = ', 'g_adv = ', 0], [r'm_silf->dir\(\)', 'Silf_dir_0(m_silf)', 0], [r'\bcurrdir\(\)', 'Segment_currdir_0(self)', 0], [r'\breverseSlots\(\)', 'Segment_reverseSlots_0(self)', 0],
           [r'\bpositionSlots\(', 'Segment_positionSlots_5(self, ', 0], [r'\blinkClusters\(', 'Segment_linkClusters_2(self, ', 0]],
   'self':['m_first','m_last','m_dir','m_silf']}@*/
void h_fin(void)
{
    havoc_links();
    Segment *sg = malloc(sizeof(Segment)); __CPROVER_assume(sg);
    sg->m_first = pick_slot(); sg->m_last = pick_slot();
    g_seg = sg; g_first0 = sg->m_first; g_last0 = sg->m_last; g_dir0 = sg->m_dir; g_silfdir = nondet_bool() ? 1 : 0;
    g_seq = 0; g_at_pos = g_at_rev = g_at_link = 0;
    Segment_finalise(sg, (void *)0, nondet_bool());
    CANARY();
}
#endif /* FIN */
#endif /* PASS */
