/* C18 - "feature/setting labels are the name-table strings, identical in all three encodings and NUL-terminated":
 * the second half of NameTable::getName (src/NameTable.cpp, from `switch (enc)` to the end of the function), i.e. the
 * transcoding of the host-order UTF-16 copy of the name record (made by the first half: unit c01_getname_copy) into the
 * encoding the caller of gr_fref_label / gr_fref_value_label asked for.
 * Code under proof (extracted from /repo on every run, nothing retyped):
 *   the switch statement + tail of NameTable::getName                         src/NameTable.cpp   (range extraction)
 *   _utf_codec<16>::get, _utf_codec<8>::put, _utf_codec<32>::put              src/inc/UtfCodec.h
 *   _utf_iterator: constructor, operator++, ==, !=, operator codeunit_type*,
 *                  reference::operator value_type, reference::operator=       src/inc/UtfCodec.h
 *   (the iterator template is instantiated three times: const uint16 / uint8 / uint32; overloaded operator syntax in the
 *    loop is mapped onto the extracted operator bodies by declared `subs` rules, dispatch on the iterator type by _Generic)
 * Oracle: spec/utf_ref.h (ref16 / ref8 written from the Unicode Standard, strict: no surrogate code points in UTF-8).
 * Bounded units (the loop stores symbolic values through a pointer, FRAMEWORK.md item 5): one call per concrete length
 * 0..6 UTF-16 units, every unit value arbitrary (so: BMP characters, up to three surrogate pairs, a pair with neighbours on
 * both sides, lone / reversed / trailing surrogates, embedded U+0000), allocation failure of the output buffer nondeterministic.
 */
#include "types.h"
#include "utf_ref.h"

/*@unit {'name':'c18_getname_utf8', 'props':['C18'], 'entry':'h_getname_conv', 'kind':'bounded', 'unwind':9, 'defines':['ENCSEL=1'],
  'checks':['--memory-leak-check'], 'timeout':900,
  'bound':'utf16Length <= 6 UTF-16 units (all unit values arbitrary, exact-size utf16Name of utf16Length+1 units); gralloc may fail',
  'replay':'c18_names', 'witness_defines':['WITNESS'], 'witness_vars':['w_len','w_u','w_enc','w_fail'],
  'claims':'NameTable::getName, gr_utf8 branch: every write stays inside the 3*utf16Length+1 byte buffer it allocates and every read inside utf16Name; the returned length is the number of bytes written, buffer[length] == 0, and the bytes below length are exactly the well-formed shortest-form UTF-8 encoding of the scalar values the reference UTF-16 decoder yields for utf16Name (U+FFFD per ill-formed unit) - hence no unwritten byte before the terminator; utf16Name is freed exactly once, languageId untouched; on allocation failure NULL, languageId = 0, length = 0, utf16Name freed, nothing leaks'}@*/
/*@unit {'name':'c18_getname_utf32', 'props':['C18'], 'entry':'h_getname_conv', 'kind':'bounded', 'unwind':9, 'defines':['ENCSEL=4'],
  'checks':['--memory-leak-check'], 'timeout':900,
  'bound':'utf16Length <= 6 UTF-16 units (all unit values arbitrary, exact-size utf16Name of utf16Length+1 units); gralloc may fail',
  'replay':'c18_names', 'witness_defines':['WITNESS'], 'witness_vars':['w_len','w_u','w_enc','w_fail'],
  'claims':'NameTable::getName, gr_utf32 branch: writes stay inside the utf16Length+1 unit buffer; the returned length is the number of code points written (not the number of UTF-16 units), buffer[length] == 0 and buffer[0..length) is exactly the scalar-value sequence of the reference UTF-16 decoder (the same sequence the utf8 unit compares against, so the renderings denote the same text); utf16Name freed exactly once; allocation failure handled as in the utf8 unit'}@*/
/*@unit {'name':'c18_getname_utf16', 'props':['C18'], 'entry':'h_getname_conv', 'kind':'bounded', 'unwind':9, 'defines':['ENCSEL=2'],
  'checks':['--memory-leak-check'], 'timeout':900,
  'bound':'utf16Length <= 6 UTF-16 units; enc = gr_utf16 or any value that is none of the three encodings',
  'replay':'c18_names', 'witness_defines':['WITNESS'], 'witness_vars':['w_len','w_u','w_enc','w_fail'],
  'claims':'NameTable::getName, gr_utf16 branch: utf16Name itself is returned unmodified, not freed, length = utf16Length, terminator in place, no allocation; any enc value that is not one of the three encodings: utf16Name freed, languageId = 0, length = 0, NULL'}@*/

typedef int gr_encform;
enum { gr_utf8 = 1, gr_utf16 = 2, gr_utf32 = 4 };                  /* include/graphite2/Types.h */

/* ------------------------------------------------------------------ code-unit types: the typedefs of the three codecs */
/*@extract {'file':'src/inc/UtfCodec.h', 'scope': r'struct _utf_codec<8>',  'kind':'range', 'start': r'typedef\s+\w+\s+codeunit_t', 'end': r';', 'end_inclusive': True, 'subs':[[r'\bcodeunit_t\b', 'utf8_codeunit_t', 1]]}@*/
/*@extract {'file':'src/inc/UtfCodec.h', 'scope': r'struct _utf_codec<16>', 'kind':'range', 'start': r'typedef\s+\w+\s+codeunit_t', 'end': r';', 'end_inclusive': True, 'subs':[[r'\bcodeunit_t\b', 'utf16_codeunit_t', 1]]}@*/
/*@extract {'file':'src/inc/UtfCodec.h', 'scope': r'struct _utf_codec<32>', 'kind':'range', 'start': r'typedef\s+\w+\s+codeunit_t', 'end': r';', 'end_inclusive': True, 'subs':[[r'\bcodeunit_t\b', 'utf32_codeunit_t', 1]]}@*/

/* the iterator object: exactly the two data members of _utf_iterator<C>, for C = const uint16, uint8, uint32 */
typedef struct { const utf16_codeunit_t *cp; int8 sl; } it16c;      /* utf16::const_iterator */
typedef struct { utf8_codeunit_t  *cp; int8 sl; } it8;               /* utf8::iterator        */
typedef struct { utf32_codeunit_t *cp; int8 sl; } it32;              /* utf32::iterator       */

/* ------------------------------------------------------------------ the codec functions the loop reaches */
/*@extract {'file':'src/inc/UtfCodec.h', 'scope': r'struct _utf_codec<16>', 'kind':'range', 'start': r'static const int32\s+lead_offset', 'end': r'surrogate_offset\s*=[^;]*;', 'end_inclusive': True}@*/
/*@extract {'file':'src/inc/UtfCodec.h', 'scope': r'struct _utf_codec<16>', 'sig': r'static uchar_t get\(const codeunit_t \* cp, int8 & l\) throw\(\)',
            'emit':'static uchar_t U16_get(const utf16_codeunit_t * cp, int8 * l)', 'refs':['l']}@*/
/*@extract {'file':'src/inc/UtfCodec.h', 'scope': r'struct _utf_codec<8>', 'sig': r'static void put\(codeunit_t \* cp, const uchar_t usv, int8 & l\) throw\(\)',
            'emit':'static void U8_put(utf8_codeunit_t * cp, const uchar_t usv, int8 * l)', 'refs':['l']}@*/
/*@extract {'file':'src/inc/UtfCodec.h', 'scope': r'struct _utf_codec<32>', 'sig': r'static void put\(codeunit_t \* cp, const uchar_t usv, int8 & l\) throw\(\)',
            'emit':'static void U32_put(utf32_codeunit_t * cp, const uchar_t usv, int8 * l)', 'refs':['l']}@*/

/* ------------------------------------------------------------------ the iterator's operators, one extraction per instantiation */
/* _utf_iterator(const void * us=0) : cp(reinterpret_cast<C *>(const_cast<void *>(us))), sl(1) { } */
/*@extract {'file':'src/inc/UtfCodec.h', 'scope': r'class _utf_iterator\s*\{', 'sig': r'_utf_iterator\(const void \* us=0\)', 'ctor':True, 'casts':True,
            'emit':'static void IT16_ctor(it16c *self, const void * us)', 'subs':[[r'\(C \*\)', '(const utf16_codeunit_t *)', 1]], 'self':['cp','sl']}@*/
/*@extract {'file':'src/inc/UtfCodec.h', 'scope': r'class _utf_iterator\s*\{', 'sig': r'_utf_iterator\(const void \* us=0\)', 'ctor':True, 'casts':True,
            'emit':'static void IT8_ctor(it8 *self, const void * us)', 'subs':[[r'\(C \*\)', '(utf8_codeunit_t *)', 1]], 'self':['cp','sl']}@*/
/*@extract {'file':'src/inc/UtfCodec.h', 'scope': r'class _utf_iterator\s*\{', 'sig': r'_utf_iterator\(const void \* us=0\)', 'ctor':True, 'casts':True,
            'emit':'static void IT32_ctor(it32 *self, const void * us)', 'subs':[[r'\(C \*\)', '(utf32_codeunit_t *)', 1]], 'self':['cp','sl']}@*/
/* operator ++ () */
/*@extract {'file':'src/inc/UtfCodec.h', 'scope': r'class _utf_iterator\s*\{', 'sig': r'_utf_iterator\s*&\s*operator \+\+ \(\)', 'emit':'static void IT16_inc(it16c *self)',
            'self':['cp','sl'], 'subs':[[r'return \*this;', 'return;', 1]]}@*/
/*@extract {'file':'src/inc/UtfCodec.h', 'scope': r'class _utf_iterator\s*\{', 'sig': r'_utf_iterator\s*&\s*operator \+\+ \(\)', 'emit':'static void IT8_inc(it8 *self)',
            'self':['cp','sl'], 'subs':[[r'return \*this;', 'return;', 1]]}@*/
/*@extract {'file':'src/inc/UtfCodec.h', 'scope': r'class _utf_iterator\s*\{', 'sig': r'_utf_iterator\s*&\s*operator \+\+ \(\)', 'emit':'static void IT32_inc(it32 *self)',
            'self':['cp','sl'], 'subs':[[r'return \*this;', 'return;', 1]]}@*/
/* operator == / != (only the source iterator is compared) */
/*@extract {'file':'src/inc/UtfCodec.h', 'scope': r'class _utf_iterator\s*\{', 'sig': r'bool operator == \(const _utf_iterator & rhs\) const throw\(\)', 'emit':'static bool IT16_eq(const it16c *self, const it16c *rhs)',
            'subs':[[r'rhs\.cp', 'rhs->cp', 1]], 'self':['cp','sl']}@*/
/*@extract {'file':'src/inc/UtfCodec.h', 'scope': r'class _utf_iterator\s*\{', 'sig': r'bool operator != \(const _utf_iterator & rhs\) const throw\(\)', 'emit':'static bool IT16_ne(const it16c *self, const it16c *rhs)',
            'subs':[[r'operator==\(rhs\)', 'IT16_eq(self, rhs)', 1]]}@*/
/* operator* -> reference -> operator value_type(): { return codec::get(_i.cp, _i.sl); }   (sl is mutable) */
/*@extract {'file':'src/inc/UtfCodec.h', 'scope': r'class _utf_iterator\s*\{', 'sig': r'operator value_type \(\) const throw \(\)', 'emit':'static uchar_t IT16_deref(it16c *_i)',
            'subs':[[r'codec::get\(_i\.cp, _i\.sl\)', 'U16_get(_i->cp, &_i->sl)', 1]]}@*/
/* operator* -> reference -> operator=(usv): { codec::put(_i.cp, usv, _i.sl); return *this; } */
/*@extract {'file':'src/inc/UtfCodec.h', 'scope': r'class _utf_iterator\s*\{', 'sig': r'reference & operator = \(const value_type usv\) throw\(\)', 'emit':'static void IT8_assign(it8 *_i, const uchar_t usv)',
            'subs':[[r'codec::put\(_i\.cp, usv, _i\.sl\)', 'U8_put(_i->cp, usv, &_i->sl)', 1], [r'return \*this;', 'return;', 1]]}@*/
/*@extract {'file':'src/inc/UtfCodec.h', 'scope': r'class _utf_iterator\s*\{', 'sig': r'reference & operator = \(const value_type usv\) throw\(\)', 'emit':'static void IT32_assign(it32 *_i, const uchar_t usv)',
            'subs':[[r'codec::put\(_i\.cp, usv, _i\.sl\)', 'U32_put(_i->cp, usv, &_i->sl)', 1], [r'return \*this;', 'return;', 1]]}@*/
/* operator codeunit_type * () */
/*@extract {'file':'src/inc/UtfCodec.h', 'scope': r'class _utf_iterator\s*\{', 'sig': r'operator codeunit_type \* \(\) const throw\(\)', 'emit':'static utf8_codeunit_t * IT8_ptr(const it8 *self)', 'self':['cp','sl']}@*/
/*@extract {'file':'src/inc/UtfCodec.h', 'scope': r'class _utf_iterator\s*\{', 'sig': r'operator codeunit_type \* \(\) const throw\(\)', 'emit':'static utf32_codeunit_t * IT32_ptr(const it32 *self)', 'self':['cp','sl']}@*/

/* glue: C++ copy-initialisation `iterator x = pointer` is the converting constructor on a fresh object */
static it16c IT16_make(const void *us) { it16c t; IT16_ctor(&t, us); return t; }
static it8   IT8_make (const void *us) { it8   t; IT8_ctor (&t, us); return t; }
static it32  IT32_make(const void *us) { it32  t; IT32_ctor(&t, us); return t; }
/* overload resolution by the static type of the iterator (both branches of the switch call their iterator `d`) */
#define IT_INC(it)        _Generic((it), it16c *: IT16_inc, it8 *: IT8_inc, it32 *: IT32_inc)(it)
#define IT_ASSIGN(it, v)  _Generic((it), it8 *: IT8_assign, it32 *: IT32_assign)((it), (v))
#define IT_PTR(it)        _Generic((it), it8 *: IT8_ptr, it32 *: IT32_ptr)(it)
#define IT_NE(a, b)       IT16_ne((a), (b))
#define IT_DEREF(it)      IT16_deref(it)

/* ------------------------------------------------------------------ ghost state and allocator / free stubs */
bool nondet_bool(void);
const void *g_u16;          /* the utf16Name buffer handed to the second half                      */
int    g_freed;             /* number of times free() was called on it                             */
int    g_allocs;            /* number of output buffers requested                                  */
size_t g_alloc_units;       /* size of the request, in code units                                  */
bool   g_fail;              /* the allocator returned NULL                                         */
void  *g_out;               /* the output buffer                                                   */
bool   w_fail;              /* harness input: make the allocator fail                              */
/* gralloc<T>(n) (src/inc/Main.h) is malloc(n * sizeof(T)) or NULL: exact-size allocation, so that any write beyond what
   the code asked for is a pointer obligation */
static utf8_codeunit_t *gralloc_utf8(size_t n)
{ ++g_allocs; g_alloc_units = n; if (w_fail) { g_fail = true; return 0; } utf8_codeunit_t *p = malloc(n * sizeof(utf8_codeunit_t)); __CPROVER_assume(p != 0); g_out = p; return p; }
static utf32_codeunit_t *gralloc_utf32(size_t n)
{ ++g_allocs; g_alloc_units = n; if (w_fail) { g_fail = true; return 0; } utf32_codeunit_t *p = malloc(n * sizeof(utf32_codeunit_t)); __CPROVER_assume(p != 0); g_out = p; return p; }
static void gfree(void *p) { if (p == g_u16) ++g_freed; free(p); }

/* ------------------------------------------------------------------ NameTable::getName from `switch (enc)` to the closing brace */
/*@extract {'file':'src/NameTable.cpp', 'kind':'range', 'scope': r'void\* NameTable::getName\(uint16& languageId, uint16 nameId, gr_encform enc, uint32& length\)',
   'start': r'switch \(enc\)', 'end': r'\}\s*uint16 NameTable::getLanguageId',
   'pre':'void *NameTable_getName_conv(utf16_codeunit_t *utf16Name, uint16 utf16Length, uint16 *languageId, gr_encform enc, uint32 *length)\n{\n    ', 'post':'}\n',
   'subs':[[r'gralloc<utf(8|16|32)::codeunit_t>\(', r'gralloc_utf\1(', 0],
           [r'utf(8|16|32)::codeunit_t', r'utf\1_codeunit_t', 0],
           [r'utf(8|32)::iterator (\w+) = ([^,;]+);', r'it\1 \2 = IT\1_make(\3);', 0],
           [r'utf16::const_iterator (\w+) = ([^,;]+), (\w+) = ([^,;]+);', r'it16c \1 = IT16_make(\2), \3 = IT16_make(\4);', 0],
           [r'\b(\w+)\s*!=\s*(\w+)\s*;', r'IT_NE(&\1, &\2);', 0],
           [r'\+\+(\w+)', r'IT_INC(&\1)', 0],
           [r'\*(\w+) = \*(\w+);', r'IT_ASSIGN(&\1, IT_DEREF(&\2));', 0],
           [r'\bd\s*-\s*uniBuffer\b', 'IT_PTR(&d) - uniBuffer', 0],
           [r'\bfree\(', 'gfree(', 0]],
   'refs':['languageId','length']}@*/

/* ------------------------------------------------------------------ harness */
unsigned nondet_unsigned(void); int nondet_int(void);
#define KMAX 6

static void run_conv(const uint16 *w_u, const uint16 K, gr_encform enc)
{
    utf16_codeunit_t *u = malloc((K + 1) * sizeof(utf16_codeunit_t));      /* exactly utf16Length units + the terminating 0 unit */
    __CPROVER_assume(u != 0);
    for (size_t i = 0; i < K; ++i) u[i] = w_u[i];
    u[K] = 0;
    g_u16 = u; g_freed = 0; g_allocs = 0; g_fail = false; g_out = 0;
    uint16 lang = (uint16)nondet_unsigned(); const uint16 lang0 = lang;
    uint32 length = nondet_unsigned();

    void *r = NameTable_getName_conv(u, K, &lang, enc, &length);

    /* the text of the name record: scalar values of the reference UTF-16 decoder, U+FFFD for every ill-formed unit */
    uint32 want[KMAX + 1]; size_t n = 0;
    for (size_t i = 0; i < K; ) { ref_t d = ref16(w_u + i, (size_t)(K - i)); want[n++] = d.ok ? d.usv : 0xFFFDu; i += (size_t)d.len; }

    if (enc == gr_utf8 || enc == gr_utf32)
    {
        __CPROVER_assert(g_freed == 1, "getName utf8/utf32: utf16Name is freed exactly once on every path");
        __CPROVER_assert(g_allocs == 1, "getName utf8/utf32: one output buffer is requested");
        if (g_fail)
        {
            __CPROVER_assert(r == 0 && lang == 0 && length == 0, "getName: allocation failure gives NULL, languageId = 0, length = 0");
        }
        else
        {
            __CPROVER_assert(r != 0 && r == g_out, "getName: the buffer it allocated is returned");
            __CPROVER_assert(lang == lang0, "getName: languageId of the chosen record is kept on success");
            __CPROVER_assert(length < g_alloc_units, "getName: length + terminator fit the allocation");
            if (enc == gr_utf32)
            {
                const utf32_codeunit_t *o = r;
                __CPROVER_assert(length == n, "getName utf32: length is the number of code points of the name (one per scalar value, not per UTF-16 unit)");
                if (length < g_alloc_units) __CPROVER_assert(o[length] == 0, "getName utf32: NUL terminated at length");
                for (size_t j = 0; j < n; ++j)
                    if (j < g_alloc_units) __CPROVER_assert(o[j] == want[j], "getName utf32: unit j is the j-th scalar value of the UTF-16 name (written, not left over from malloc)");
            }
            else
            {
                const utf8_codeunit_t *o = r;
                if (length < g_alloc_units) __CPROVER_assert(o[length] == 0, "getName utf8: NUL terminated at length");
                size_t pos = 0;
                for (size_t j = 0; j < n; ++j)
                {
                    __CPROVER_assert(pos < length, "getName utf8: the output holds an encoding of every scalar value of the name");
                    if (pos >= length || pos >= g_alloc_units) break;
                    ref_t d = ref8(o + pos, (size_t)(length - pos));
                    __CPROVER_assert(d.ok && d.usv == want[j], "getName utf8: the j-th well-formed UTF-8 sequence of the output decodes to the j-th scalar value of the UTF-16 name");
                    pos += (size_t)d.len;
                }
                __CPROVER_assert(pos == length, "getName utf8: length is exactly the number of bytes of that encoding (no unwritten or extra byte before the terminator)");
            }
            free(r);
        }
    }
    else if (enc == gr_utf16)
    {
        __CPROVER_assert(r == (void *)u && g_freed == 0 && g_allocs == 0, "getName utf16: the UTF-16 copy itself is returned, not freed");
        __CPROVER_assert(length == K && lang == lang0, "getName utf16: length is the number of UTF-16 units, languageId kept");
        __CPROVER_assert(u[K] == 0, "getName utf16: NUL terminated at length");
        for (size_t i = 0; i < K; ++i) __CPROVER_assert(u[i] == w_u[i], "getName utf16: the name is returned unmodified");
        free(r);
    }
    else
    {
        __CPROVER_assert(r == 0 && lang == 0 && length == 0, "getName: an unknown encoding gives NULL, languageId = 0, length = 0");
        __CPROVER_assert(g_freed == 1 && g_allocs == 0, "getName: an unknown encoding frees utf16Name");
    }
}

void h_getname_conv(void)
{
    uint16 w_u[KMAX];
    uint16 w_len = (uint16)nondet_unsigned();
    __CPROVER_assume(w_len <= KMAX);
#ifdef WITNESS
    /* witness build only (counterexample to be replayed through the whole real getName): the first half refuses a name
       whose last unit is a lead surrogate (utf16::validate), so such a string never reaches the switch natively */
    __CPROVER_assume(w_len == 0 || !(w_u[w_len - 1] >= 0xD800 && w_u[w_len - 1] <= 0xDBFF));
#endif
    w_fail = nondet_bool();
    int w_enc = nondet_int();
#if ENCSEL == 1
    __CPROVER_assume(w_enc == gr_utf8);
#elif ENCSEL == 4
    __CPROVER_assume(w_enc == gr_utf32);
#else
    __CPROVER_assume(w_enc != gr_utf8 && w_enc != gr_utf32);
#endif
    /* one call per concrete length: constant-size buffers keep the stores cheap for the solver (FRAMEWORK.md item 14) */
#define RUN(K) if (w_len == (K)) run_conv(w_u, (K), w_enc);
    RUN(0) RUN(1) RUN(2) RUN(3) RUN(4) RUN(5) RUN(6)
    CANARY();
}
