/* C02 / C01 - run-time class lookups of the Silf class map (src/Silf.cpp): Silf::findClassIndex, Silf::getClassGlyph.
 * Representation invariant CLASSMAP_WF, established at load time by Silf::readClassMap / readClassOffsets (their range
 * tests are quoted below; the loader itself is not under contract here):
 *   m_classOffsets has m_nClass+1 entries, every entry <= max_off == number of uint16 cells of m_classData;
 *   linear classes (cid < m_nLinear): offsets monotone;  lookup classes: o+4 <= max_off, numIDs >= 1, numIDs*2+o+4 <= max_off.
 * The lookups touch only class cid (and cid+1), so the contracts require the invariant for those entries (instances).
 * Class ids come from bytecode operands the loader checked with valid_upto(_max.classes, x), i.e. cid < m_nClass.
 */
#include "types.h"
/*@unit {'name':'c02_find_class_index', 'props':['C02','C01'], 'entry':'h_find', 'enforce':'Silf_findClassIndex', 'min_loops':2,
  'claims':'Silf::findClassIndex: for every class id below numClasses and every glyph id all reads of the offsets and class data stay in bounds (linear scan and the binary search over the lookup pairs), both loops terminate; assigns nothing'}@*/
/*@unit {'name':'c02_get_class_glyph', 'props':['C02','C01','C03'], 'entry':'h_get', 'enforce':'Silf_getClassGlyph', 'min_loops':1,
  'claims':'Silf::getClassGlyph: for every class id below numClasses and every index all reads stay in bounds, the scan terminates; for a linear class the result is the index-th glyph of the class or 0; assigns nothing'}@*/
typedef struct Silf {
/*@extract {'kind':'members', 'file':'src/inc/Silf.h', 'scope': r'class Silf\s*\{', 'names':['m_classOffsets','m_classData','m_nClass','m_nLinear']}@*/
} Silf;
const Silf *g_silf; uint32 g_maxoff;
#define OFFS(i) (g_silf->m_classOffsets[i])
#define DATA(i) (g_silf->m_classData[i])
#define CLASS_WF(cid) ( OFFS(cid) <= g_maxoff && OFFS((cid) + 1) <= g_maxoff && \
    ((cid) < g_silf->m_nLinear ? OFFS(cid) <= OFFS((cid) + 1) \
                               : (OFFS(cid) + 4 <= g_maxoff && DATA(OFFS(cid)) >= 1 && (uint32)DATA(OFFS(cid)) * 2 + OFFS(cid) + 4 <= g_maxoff \
                                  && ((OFFS((cid) + 1) - OFFS(cid)) & 1) == 0)) )          /* readClassMap: "glyphs are in pairs so difference must be even" */
#define COMMON_PRE(self, cid) \
    __CPROVER_requires(self == g_silf && g_maxoff <= MAXN && self->m_nLinear <= self->m_nClass && cid < self->m_nClass) \
    __CPROVER_requires(OFF(self->m_classOffsets) == 0 && OBJSZ(self->m_classOffsets) == ((size_t)self->m_nClass + 1) * sizeof(uint32)) \
    __CPROVER_requires(OFF(self->m_classData) == 0 && OBJSZ(self->m_classData) == (size_t)g_maxoff * sizeof(uint16)) \
    __CPROVER_requires(CLASS_WF(cid))

uint16 Silf_findClassIndex(const Silf *self, uint16 cid, uint16 gid)
COMMON_PRE(self, cid)
__CPROVER_assigns()
__CPROVER_ensures(1);
/*@extract {'file':'src/Silf.cpp', 'sig': r'uint16 Silf::findClassIndex\(uint16 cid, uint16 gid\) const', 'emit':'uint16 Silf_findClassIndex(const Silf *self, uint16 cid, uint16 gid)',
   'self':['m_nClass','m_nLinear','m_classData','m_classOffsets'],
   'loops':{1: """__CPROVER_assigns(i, cls)
                  __CPROVER_loop_invariant(i <= n && SAME(cls, self->m_classData) && OFF(cls) == (long)(((size_t)self->m_classOffsets[cid] + i) * sizeof(uint16)))
                  __CPROVER_decreases(n - i)""",
            2: """__CPROVER_assigns(min, max)
                  __CPROVER_loop_invariant(SAME(min, self->m_classData) && SAME(max, self->m_classData)
                        && OFF(min) >= 2 * ((long)self->m_classOffsets[cid] + 4)
                        && OFF(max) <= 2 * ((long)self->m_classOffsets[cid] + 4 + 2 * (long)self->m_classData[self->m_classOffsets[cid]])
                        && OFF(min) + 4 <= OFF(max) && (OFF(max) - OFF(min)) % 4 == 0 && OFF(min) % 2 == 0)
                  __CPROVER_decreases(OFF(max) - OFF(min))"""}}@*/

uint16 Silf_getClassGlyph(const Silf *self, uint16 cid, unsigned int index)
COMMON_PRE(self, cid)
__CPROVER_assigns()
__CPROVER_ensures(cid < self->m_nLinear ==> __CPROVER_return_value == (index < OFFS(cid + 1) - OFFS(cid) ? DATA(OFFS(cid) + index) : 0));
/*@extract {'file':'src/Silf.cpp', 'sig': r'uint16 Silf::getClassGlyph\(uint16 cid, unsigned int index\) const', 'emit':'uint16 Silf_getClassGlyph(const Silf *self, uint16 cid, unsigned int index)',
   'self':['m_nClass','m_nLinear','m_classData','m_classOffsets'],
   'loops':{1: """__CPROVER_assigns(i)
                  __CPROVER_loop_invariant(i >= loc + 4 && (i - loc) % 2 == 0 && i <= self->m_classOffsets[cid + 1] + 1)
                  __CPROVER_decreases(self->m_classOffsets[cid + 1] + 2 - i)"""}}@*/

size_t nondet_size_t(void); unsigned nondet_unsigned(void);
static Silf *mk(void)
{
    Silf *s = malloc(sizeof(Silf)); __CPROVER_assume(s);
    s->m_nClass = (uint16)nondet_unsigned(); s->m_nLinear = (uint16)nondet_unsigned();
    __CPROVER_assume(s->m_nClass <= 300);              /* harness bound on the number of classes only (offset array size) */
    uint32 maxoff = nondet_unsigned(); __CPROVER_assume(maxoff <= MAXN);
    s->m_classOffsets = malloc(((size_t)s->m_nClass + 1) * sizeof(uint32)); __CPROVER_assume(s->m_classOffsets);
    s->m_classData = malloc((size_t)maxoff * sizeof(uint16)); __CPROVER_assume(s->m_classData);
    g_silf = s; g_maxoff = maxoff;
    return s;
}
void h_find(void) { Silf *s = mk(); uint16 r = Silf_findClassIndex(s, (uint16)nondet_unsigned(), (uint16)nondet_unsigned()); (void)r; CANARY(); }
void h_get(void)  { Silf *s = mk(); uint16 r = Silf_getClassGlyph(s, (uint16)nondet_unsigned(), nondet_unsigned()); (void)r; CANARY(); }
