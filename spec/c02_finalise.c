/* C02 / C19 - final positioning: Slot::finalise, Slot::floodShift, Slot::clusterMetric (src/Slot.cpp), the position getters of
 * the C API (src/gr_slot.cpp, src/gr_segment.cpp), Font::advance (src/inc/Font.h) and Font::Font (src/Font.cpp).
 * Bounded universe units (method: spec/c03_slots.c, spec/c04_forest.c): a pool of NSLOTS slots whose parent/child/sibling
 * fields are ARBITRARY pool pointers (cycles, self links, shared children: the malformed structures the depth guard is
 * for) or, in the *_forest unit, constrained by the forest predicate of C04.
 * The depth guard literal `100` is turned into the macro FIN_LIMIT by a declared rewrite (min_count 0: if the literal is
 * edited the rewrite does not fire and the edited literal is judged).  FIN_LIMIT defaults to 100; the any-links units run
 * with a reduced FIN_LIMIT so that the recursion can be unwound completely; the unwinding assertion of the recursion is the
 * termination obligation ("returns after at most FIN_LIMIT+2 nested activations whatever the links look like").
 */
#include "types.h"
/*@unit {'name':'c02_finalise_anylinks', 'props':['DEV_finalise'], 'final_props':['C02','C19','C04'], 'entry':'h_finalise', 'kind':'bounded',
  'defines_quick':['NSLOTS=3','FIN_LIMIT=2','ANYLINKS'], 'defines_thorough':['NSLOTS=4','FIN_LIMIT=3','ANYLINKS'], 'unwind_quick':6, 'unwind_thorough':7,
  'bound':'pool of 3 / 4 slots with arbitrary parent/child/sibling links; depth limit rewritten from 100 to 2 / 3 (declared rewrite of the literal)',
  'assumptions':['Position/Rect operators are hand-written C models of src/inc/Position.h', 'Segment::collisionInfo returns NULL or a SlotCollision of the segment (slot index < number of collision records)',
                 'GlyphCache::glyph(gid) returns a non-NULL GlyphFace for gid < numGlyphs (it falls back to glyph 0)', 'the font was made for the face of the segment (Font::m_advances has numGlyphs entries of that face)'],
  'claims':'Slot::finalise called on any slot with depth 0 returns after at most FIN_LIMIT+2 nested activations on EVERY link structure (cyclic child chains, self links, shared children), dereferences no NULL link, looks up only glyph ids below numGlyphs in the advance cache, and writes nothing but m_position of slots: every link and every other field of every slot is unchanged'}@*/
/*@unit {'name':'c02_finalise_forest', 'props':['DEV_finalise'], 'final_props':['C02','C19','C04'], 'entry':'h_finalise', 'kind':'bounded',
  'defines_quick':['NSLOTS=3','FOREST'], 'defines_thorough':['NSLOTS=4','FOREST'], 'unwind_quick':6, 'unwind_thorough':7,
  'bound':'pool of 3 / 4 slots, any attachment forest; the real depth limit 100',
  'claims':'on an attachment forest Slot::finalise with the real limit terminates without the guard ever firing: the depth argument never exceeds the number of slots - 1; no NULL link is dereferenced and only m_position fields are written (the forest is not modified)'}@*/
/*@unit {'name':'c02_floodshift_anylinks', 'props':['DEV_finalise'], 'final_props':['C02','C19','C04'], 'entry':'h_flood', 'kind':'bounded',
  'defines_quick':['NSLOTS=3','FIN_LIMIT=3','ANYLINKS','FLOOD'], 'defines_thorough':['NSLOTS=4','FIN_LIMIT=4','ANYLINKS','FLOOD'], 'unwind_quick':7, 'unwind_thorough':8,
  'bound':'pool of 3 / 4 slots with arbitrary child/sibling links; depth limit rewritten from 100 to 3 / 4',
  'claims':'Slot::floodShift returns after at most FIN_LIMIT+2 nested activations on every link structure, dereferences no NULL link and writes only m_position fields'}@*/
/*@unit {'name':'c02_cluster_metric', 'props':['DEV_finalise'], 'final_props':['C02','C19','C04'], 'entry':'h_metric', 'kind':'bounded',
  'defines_quick':['NSLOTS=3','FIN_LIMIT=2','ANYLINKS','METRIC'], 'defines_thorough':['NSLOTS=4','FIN_LIMIT=3','ANYLINKS','METRIC'], 'unwind_quick':6, 'unwind_thorough':7,
  'bound':'pool of 3 / 4 slots with arbitrary links; depth limit rewritten from 100 to 2 / 3',
  'assumptions':['as c02_finalise_anylinks', 'float to int32 conversions of the result are not judged (float ranges are not the subject)'],
  'claims':'Slot::clusterMetric with any glyph id (in range or not), any metric code and any link structure returns, asks for the bounding box only of a glyph id below numGlyphs, and leaves every link of every slot unchanged'}@*/
/*@unit {'name':'c02_slot_advance', 'props':['DEV_finalise'], 'final_props':['C02'], 'entry':'h_advance', 'kind':'proof', 'defines':['PART_D'], 'unwind':4,
  'assumptions':['gr_face::glyphs().glyph(gid) returns a non-NULL GlyphFace for gid < numGlyphs', 'the font was made for the face passed to gr_slot_advance_X (the API contract of gr_make_font: m_advances has face.numGlyphs entries)',
                 'the application callback glyph_advance_x returns an arbitrary float and touches no library memory'],
  'claims':'gr_slot_advance_X / _Y with font NULL or not, face NULL or not, hinted or not, any glyph id: the advance cache m_advances[0..numGlyphs) is indexed only inside its exact-size allocation, the glyph table only below numGlyphs, NULL font/face are never dereferenced; gr_slot_origin_X/Y and gr_seg_advance_X/Y read only the given object'}@*/
/*@unit {'name':'c02_font_ctor', 'props':['DEV_finalise'], 'final_props':['C02'], 'entry':'h_font_ctor', 'kind':'bounded', 'defines':['PART_D','FONT_CTOR'], 'unwind':7,
  'bound':'faces of 0..5 glyphs', 'witness_vars':['w_n'],
  'claims':'Font::Font allocates one advance per glyph of the face and fills exactly m_advances[0..numGlyphs) with the INVALID_ADVANCE sentinel (no write outside the exact-size block, nothing when the allocation fails); a NULL ops table or a NULL application handle gives an unhinted font with the default advance callback'}@*/

#ifndef PART_D
/*@include slots.tc@*/

#ifndef FIN_LIMIT
#define FIN_LIMIT 100
#endif

/* ---- shims of the classes finalise reads (real member names) */
typedef struct Rect { Position bl, tr; } Rect;
struct GlyphFace { Rect m_bbox; Position m_advance; };
typedef struct GlyphCache { GlyphFace *_glyphs; unsigned short _num_glyphs; } GlyphCache;      /* _glyphs: model of the table, one record per glyph */
struct Face { GlyphCache *m_pGlyphFaceCache; };
typedef struct SlotCollision { Position _offset; uint16 _flags; } SlotCollision;
enum { COLL_KERN = 16 };
typedef struct Font { float *m_advances; float m_scale; bool m_hinted; } Font;
typedef struct SegmentF { const Face *m_face; SlotCollision *m_collisions; } SegmentF;
#define Segment SegmentF

/* hand-written C models of the Position / Rect operators of src/inc/Position.h (float arithmetic is not the subject) */
static Position mkpos(float x, float y) { Position p; p.x = x; p.y = y; return p; }
static Position pos_add(Position a, Position b) { return mkpos(a.x + b.x, a.y + b.y); }
static Position pos_sub(Position a, Position b) { return mkpos(a.x - b.x, a.y - b.y); }
static Position pos_scale(Position a, float m) { return mkpos(a.x * m, a.y * m); }
static Rect mkrect(Position bl, Position tr) { Rect r; r.bl = bl; r.tr = tr; return r; }
static Rect rect_add(Rect r, Position a) { return mkrect(pos_add(r.bl, a), pos_add(r.tr, a)); }
static Rect rect_scale(Rect r, float m) { return mkrect(pos_scale(r.bl, m), pos_scale(r.tr, m)); }
static Rect rect_widen(Rect s, Rect o) { return mkrect(mkpos(s.bl.x > o.bl.x ? o.bl.x : s.bl.x, s.bl.y > o.bl.y ? o.bl.y : s.bl.y), mkpos(s.tr.x > o.tr.x ? s.tr.x : o.tr.x, s.tr.y > o.tr.y ? s.tr.y : o.tr.y)); }

/* ---- ghost state */
int g_maxdepth = -1;          /* largest depth argument any activation of finalise / floodShift was entered with */
unsigned g_calls;             /* number of activations */
unsigned short g_numGlyphs;
float nondet_float(void);

/* ---- callees outside the target: stubs with in-range preconditions as obligations */
/* GlyphCache::glyph(gid): lazily loads; for gid < numGlyphs a non-NULL record (falls back to glyph 0) */
static const GlyphFace *GlyphCache_glyph(const GlyphCache *self, unsigned short glyphid)
{ __CPROVER_assert(glyphid < self->_num_glyphs, "GlyphCache::glyph is asked for a glyph id below numGlyphs"); return &self->_glyphs[glyphid]; }
/*@extract {'file':'src/inc/GlyphCache.h', 'sig': r'const GlyphFace \*GlyphCache::glyphSafe\(unsigned short glyphid\) const', 'emit':'static const GlyphFace *GlyphCache_glyphSafe(const GlyphCache *self, unsigned short glyphid)',
   'subs':[[r'(?<![\w>.])glyph\(glyphid\)', 'GlyphCache_glyph(self, glyphid)', 0]], 'self':['_num_glyphs']}@*/
/*@extract {'file':'src/inc/GlyphCache.h', 'sig': r'unsigned short GlyphCache::numGlyphs\(\) const throw\(\)', 'emit':'static unsigned short GlyphCache_numGlyphs(const GlyphCache *self)', 'self':['_num_glyphs']}@*/
/* Font::advance: the real body is verified in unit c02_slot_advance; here its precondition is the obligation */
static float Font_advance(const Font *f, unsigned short gid)
{ __CPROVER_assert(f != (const Font *)0, "Font::advance on a non-NULL font"); __CPROVER_assert(gid < g_numGlyphs, "Font::advance is asked for a glyph id below numGlyphs (the size of m_advances)"); return nondet_float(); }
static float Font_scale(const Font *f) { return f->m_scale; }
static bool Font_isHinted(const Font *f) { return f->m_hinted; }
#define M_scale_0 Font_scale
#define M_isHinted_0 Font_isHinted
/*@extract {'kind':'accessors', 'file':'src/inc/Slot.h', 'scope': r'class Slot\s*\{', 'prefix':'Slot', 'names':['glyph'], 'fields':['m_realglyphid','m_glyphid']}@*/
/* Segment::collisionInfo(s) { return m_collisions ? m_collisions + s->index() : 0; }  (index() < number of records: assumption) */
static SlotCollision *Segment_collisionInfo(const Segment *seg, const Slot *s) { return seg->m_collisions ? seg->m_collisions + IDX(s) : (SlotCollision *)0; }
#define M_collisionInfo_1 Segment_collisionInfo

Position Slot_finalise(Slot *self, const Segment *seg, const Font *font, Position *base, Rect *bbox, uint8 attrLevel, float *clusterMin, bool rtl, bool isFinal, int depth);
void Slot_floodShift(Slot *self, Position adj, int depth);
#define M_finalise_9(s, seg, font, b, bb, al, cm, rtl, fin, d) Slot_finalise(s, seg, font, &(b), &(bb), al, &(cm), rtl, fin, d)
#define M_floodShift_2(s, adj, d) Slot_floodShift(s, adj, d)
#ifdef FLOOD
#define M_floodShift_1(s, adj) Slot_floodShift(s, adj, 0)
#else
/* inside finalise, floodShift is represented by its contract (unit c02_floodshift_anylinks): receiver non-NULL; only m_position fields change */
static void Slot_floodShift_stub(Slot *s, Position adj)
{ (void)adj; __CPROVER_assert(s != (Slot *)0, "floodShift is called on a non-NULL slot"); for (int i = 0; i < NSLOTS; ++i) { g_pool[i].m_position.x = nondet_float(); g_pool[i].m_position.y = nondet_float(); } }
#define M_floodShift_1(s, adj) Slot_floodShift_stub(s, adj)
#endif
#define ENTER(d) do { ++g_calls; if ((d) > g_maxdepth) g_maxdepth = (d); } while (0)

/*@extract {'file':'src/Slot.cpp', 'sig': r'void Slot::floodShift\(Position adj, int depth\)', 'emit':'void Slot_floodShift(Slot *self, Position adj, int depth)',
   'subs':[[r'depth > 100', 'depth > FIN_LIMIT', 0], [r'm_position \+= adj;', 'm_position = pos_add(m_position, adj);', 0]],
   'inserts':[[r'\A\s*\{', 'ENTER(depth);', 'after']],
   'methods':['floodShift'], 'self':['m_position','m_child','m_sibling']}@*/

#ifndef FLOOD
/*@extract {'file':'src/Slot.cpp', 'sig': r'Position Slot::finalise\(const Segment \*seg, const Font \*font, Position & base, Rect & bbox, uint8 attrLevel, float & clusterMin, bool rtl, bool isFinal, int depth\)',
   'emit':'Position Slot_finalise(Slot *self, const Segment *seg, const Font *font, Position *base, Rect *bbox, uint8 attrLevel, float *clusterMin, bool rtl, bool isFinal, int depth)',
   'subs':[[r'\bthis\b', 'self', 0], [r'depth > 100', 'depth > FIN_LIMIT', 0],
           [r'Position shift\(', 'Position shift = mkpos(', 0],
           [r'const Position &collshift = coll->offset\(\);', 'const Position collshift = coll->_offset;', 0],
           [r'coll->flags\(\) & SlotCollision::COLL_KERN', 'coll->_flags & COLL_KERN', 0],
           [r'shift = shift \+ collshift;', 'shift = pos_add(shift, collshift);', 0],
           [r'seg->getFace\(\)->glyphs\(\)\.glyphSafe\(glyph\(\)\)', 'GlyphCache_glyphSafe(seg->m_face->m_pGlyphFaceCache, Slot_glyph_0(self))', 0],
           [r'shift \*= scale;', 'shift = pos_scale(shift, scale);', 0],
           [r'glyphFace->theAdvance\(\)', 'glyphFace->m_advance', 0], [r'font->advance\(glyph\(\)\)', 'Font_advance(font, Slot_glyph_0(self))', 0],
           [r'Position res;', 'Position res = POS0;', 0],
           [r'm_position = base \+ shift;', 'm_position = pos_add(base, shift);', 0],
           [r'res = base \+ Position\(tAdvance, m_advance\.y \* scale\);', 'res = pos_add(base, mkpos(tAdvance, m_advance.y * scale));', 0],
           [r'm_position \+= \(m_attach - m_with\) \* scale;', 'm_position = pos_add(m_position, pos_scale(pos_sub(m_attach, m_with), scale));', 0],
           [r'glyphFace->theBBox\(\) \* scale \+ m_position', 'rect_add(rect_scale(glyphFace->m_bbox, scale), m_position)', 0],
           [r'bbox\.widen\(ourBbox\)', 'rect_widen(bbox, ourBbox)', 0],
           [r'res \+= adj;', 'res = pos_add(res, adj);', 0], [r'm_position \+= adj;', 'm_position = pos_add(m_position, adj);', 0],
           [r'\bPosition\(', 'mkpos(', 0]],
   'inserts':[[r'\A\s*\{', 'ENTER(depth);', 'after']],
   'methods':['scale','isHinted','collisionInfo','attachedTo','finalise','floodShift'], 'refs':['base','bbox','clusterMin'],
   'self':['m_attLevel','m_shift','m_just','m_advance','m_position','m_parent','m_attach','m_with','m_child','m_sibling']}@*/
#endif

#ifdef METRIC
/*@extract {'file':'src/inc/Segment.h', 'kind':'range', 'start': r'enum metrics \{', 'end': r'\};', 'end_inclusive': True, 'if':'METRIC'}@*/
typedef enum metrics metrics_t;
/* Segment::theGlyphBBoxTemporary(gid) { return m_face->glyphs().glyph(gid)->theBBox(); } */
static Rect Segment_theGlyphBBoxTemporary(const Segment *seg, unsigned short gid) { return GlyphCache_glyph(seg->m_face->m_pGlyphFaceCache, gid)->m_bbox; }
/*@extract {'file':'src/Slot.cpp', 'sig': r'int32 Slot::clusterMetric\(const Segment \*seg, uint8 metric, uint8 attrLevel, bool rtl\)', 'if':'METRIC',
   'emit':'int32 Slot_clusterMetric(Slot *self, const Segment *seg, uint8 metric, uint8 attrLevel, bool rtl)',
   'subs':[[r'Position base;', 'Position base = POS0;', 0],
           [r'glyph\(\) >= seg->getFace\(\)->glyphs\(\)\.numGlyphs\(\)', 'Slot_glyph_0(self) >= GlyphCache_numGlyphs(seg->m_face->m_pGlyphFaceCache)', 0],
           [r'seg->theGlyphBBoxTemporary\(glyph\(\)\)', 'Segment_theGlyphBBoxTemporary(seg, Slot_glyph_0(self))', 0],
           [r'(?<![\w>.])finalise\(seg, NULL, base, bbox, attrLevel, clusterMin, rtl, false\)', 'Slot_finalise(self, seg, NULL, &base, &bbox, attrLevel, &clusterMin, rtl, false, 0)', 0],
           [r'switch \(metrics\(metric\)\)', 'switch ((metrics_t)(metric))', 0]]}@*/
#endif

/* ---- the forest predicate of C04 (text of spec/c04_forest.c) */
static bool wf_forest(void)
{
    for (int i = 0; i < NSLOTS; ++i) {                      /* (1) every parent walk reaches a base in finitely many steps */
        Slot *s = &g_pool[i];
        int k = 0;
        for (; k <= NSLOTS && s->m_parent; ++k) s = s->m_parent;
        if (s->m_parent) return false;
    }
    for (int p = 0; p < NSLOTS; ++p) {                      /* (2) the child chain of p holds exactly the slots whose parent is p, each once */
        bool seen[NSLOTS];
        for (int i = 0; i < NSLOTS; ++i) seen[i] = false;
        Slot *c = g_pool[p].m_child;
        int k = 0;
        for (; k < NSLOTS && c; ++k) {
            int i = IDX(c);
            if (seen[i] || c->m_parent != &g_pool[p]) return false;
            seen[i] = true;
            c = c->m_sibling;
        }
        if (c) return false;
        for (int i = 0; i < NSLOTS; ++i) if (g_pool[i].m_parent == &g_pool[p] && !seen[i]) return false;
    }
    return true;
}

/* ------------------------------------------------------------------ harnesses */
bool nondet_bool(void); unsigned nondet_unsigned(void);
static Slot g_saved[NSLOTS];
static void save_pool(void) { for (int i = 0; i < NSLOTS; ++i) g_saved[i] = g_pool[i]; }
static void check_frame(void)
{
    for (int i = 0; i < NSLOTS; ++i) {
        __CPROVER_assert(g_pool[i].m_next == g_saved[i].m_next && g_pool[i].m_prev == g_saved[i].m_prev, "the main list links are not written");
        __CPROVER_assert(g_pool[i].m_parent == g_saved[i].m_parent && g_pool[i].m_child == g_saved[i].m_child && g_pool[i].m_sibling == g_saved[i].m_sibling, "the attachment links are not written");
        __CPROVER_assert(g_pool[i].m_glyphid == g_saved[i].m_glyphid && g_pool[i].m_realglyphid == g_saved[i].m_realglyphid && g_pool[i].m_index == g_saved[i].m_index
                         && g_pool[i].m_flags == g_saved[i].m_flags && g_pool[i].m_attLevel == g_saved[i].m_attLevel && g_pool[i].m_original == g_saved[i].m_original
                         && g_pool[i].m_before == g_saved[i].m_before && g_pool[i].m_after == g_saved[i].m_after && g_pool[i].m_userAttr == g_saved[i].m_userAttr && g_pool[i].m_justs == g_saved[i].m_justs,
                         "glyph ids, flags, associations and attribute pointers are not written");
    }
}
static GlyphCache g_gc; static struct Face g_face; static SegmentF g_seg; static Font g_font;
static void setup_seg(void)
{
    g_numGlyphs = (unsigned short)nondet_unsigned();
    __CPROVER_assume(g_numGlyphs >= 1 && g_numGlyphs <= 3);                    /* glyph 0 always exists */
    g_gc._num_glyphs = g_numGlyphs; g_gc._glyphs = malloc(g_numGlyphs * sizeof(GlyphFace)); __CPROVER_assume(g_gc._glyphs);
    g_face.m_pGlyphFaceCache = &g_gc; g_seg.m_face = &g_face;
    g_seg.m_collisions = nondet_bool() ? (SlotCollision *)0 : malloc(NSLOTS * sizeof(SlotCollision));
    g_font.m_advances = (float *)0; g_font.m_scale = nondet_float(); g_font.m_hinted = nondet_bool();
}

#if !defined(FLOOD) && !defined(METRIC)
void h_finalise(void)
{
    havoc_links();                      /* glyph ids arbitrary: in range or not */
#ifdef FOREST
    __CPROVER_assume(wf_forest());
#endif
    setup_seg();
    Slot *s = pick_slot(); __CPROVER_assume(s);
    const Font *font = nondet_bool() ? &g_font : (const Font *)0;
    Position base; base.x = nondet_float(); base.y = nondet_float();
    Rect bbox; bbox.bl = base; bbox.tr = base;
    float clusterMin = nondet_float();
    uint8 attrLevel = (uint8)nondet_unsigned(); bool rtl = nondet_bool(), isFinal = nondet_bool();
    save_pool();
    g_maxdepth = -1; g_calls = 0;
    Position r = Slot_finalise(s, &g_seg, font, &base, &bbox, attrLevel, &clusterMin, rtl, isFinal, 0);
    (void)r;
    check_frame();
#ifdef FOREST
    __CPROVER_assert(g_maxdepth <= NSLOTS - 1, "on a forest the depth argument stays below the number of slots: the guard never fires");
#else
    __CPROVER_assert(g_maxdepth <= FIN_LIMIT + 1, "no activation is entered with a depth beyond limit+1: at most limit+2 nested activations");
#endif
    CANARY();
}
#endif

#ifdef FLOOD
void h_flood(void)
{
    havoc_links();
    Slot *s = pick_slot(); __CPROVER_assume(s);
    Position adj; adj.x = nondet_float(); adj.y = nondet_float();
    save_pool();
    g_maxdepth = -1; g_calls = 0;
    Slot_floodShift(s, adj, 0);
    check_frame();
    __CPROVER_assert(g_maxdepth <= FIN_LIMIT + 1, "no activation is entered with a depth beyond limit+1: at most limit+2 nested activations");
    for (int i = 0; i < NSLOTS; ++i)
        __CPROVER_assert(g_pool[i].m_shift.x == g_saved[i].m_shift.x && g_pool[i].m_advance.x == g_saved[i].m_advance.x || g_saved[i].m_shift.x != g_saved[i].m_shift.x || g_saved[i].m_advance.x != g_saved[i].m_advance.x, "shift and advance are not written");
    CANARY();
}
#endif

#ifdef METRIC
void h_metric(void)
{
    havoc_links();
    setup_seg();
    Slot *s = pick_slot(); __CPROVER_assume(s);
    uint8 metric = (uint8)nondet_unsigned(), attrLevel = (uint8)nondet_unsigned(); bool rtl = nondet_bool();
    save_pool();
    g_maxdepth = -1; g_calls = 0;
    int32 r = Slot_clusterMetric(s, &g_seg, metric, attrLevel, rtl);
    (void)r;
    check_frame();
    __CPROVER_assert(g_maxdepth <= FIN_LIMIT + 1, "no activation is entered with a depth beyond limit+1");
    CANARY();
}
#endif
#endif /* !PART_D */
