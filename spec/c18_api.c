/* C18 / C20 - the public API wrappers in front of the feature-value kernel (src/gr_features.cpp, src/gr_face.cpp):
 * they must hand the kernel functions exactly the caller's arguments (tags through zeropad) and return their results.
 * The kernel functions are contract stubs here that log their arguments (their own contracts: spec/c18_features.c, c20_tags.c).
 */
#include "types.h"
/*@unit {'name':'c18_api_set_get', 'props':['C18'], 'entry':'h_setget', 'enforce':['gr_fref_set_feature_value','gr_fref_feature_value'], 'replace':['FeatureRef_applyValToFeature','FeatureRef_getFeatureVal'],
  'claims':'gr_fref_set_feature_value(f, v, fv) is applyValToFeature(f, v, fv) (0 when a pointer is NULL) and gr_fref_feature_value(f, fv) is getFeatureVal(f, fv) truncated to 16 bits (0 when a pointer is NULL): the API adds nothing to and hides nothing of the kernel contracts'}@*/
/*@unit {'name':'c18_api_tags', 'props':['C18','C20'], 'entry':'h_tags', 'enforce':['gr_face_featureval_for_lang','gr_face_find_fref'], 'replace':['SillMap_cloneFeatures','Face_featureById','zeropad'],
  'claims':'gr_face_featureval_for_lang and gr_face_find_fref pass zeropad(tag) to SillMap::cloneFeatures / Face::featureById: space-padded and zero-padded tags select the same language / feature'}@*/
typedef struct FeatureRef FeatureRef; typedef struct Features Features; typedef struct SillMap SillMap; typedef struct Face Face;
typedef FeatureRef gr_feature_ref; typedef Features gr_feature_val; typedef Face gr_face;
#define assert(x) __CPROVER_assert((x), "source assert: " #x)
const FeatureRef *g_f; Features *g_fv; uint32 g_val; bool g_apply_ret; uint32 g_get_ret; int g_calls;
bool FeatureRef_applyValToFeature(const FeatureRef *self, uint32 val, Features *pDest)
__CPROVER_assigns(g_f, g_fv, g_val, g_calls) __CPROVER_ensures(g_f == self && g_fv == pDest && g_val == val && g_calls == __CPROVER_old(g_calls) + 1 && __CPROVER_return_value == g_apply_ret);
uint32 FeatureRef_getFeatureVal(const FeatureRef *self, const Features *feats)
__CPROVER_assigns(g_f, g_fv, g_calls) __CPROVER_ensures(g_f == self && g_fv == (Features *)feats && g_calls == __CPROVER_old(g_calls) + 1 && __CPROVER_return_value == g_get_ret);
#define M_applyValToFeature_2 FeatureRef_applyValToFeature
#define M_getFeatureVal_1 FeatureRef_getFeatureVal

int gr_fref_set_feature_value(const gr_feature_ref *pfeatureref, gr_uint16 val, gr_feature_val *pDest)
__CPROVER_assigns(g_f, g_fv, g_val, g_calls)
__CPROVER_ensures((pfeatureref == NULL || pDest == NULL) ? (__CPROVER_return_value == 0 && g_calls == __CPROVER_old(g_calls))
                  : (g_calls == __CPROVER_old(g_calls) + 1 && g_f == pfeatureref && g_fv == pDest && g_val == (uint32)val && (__CPROVER_return_value != 0) == g_apply_ret));
gr_uint16 gr_fref_feature_value(const gr_feature_ref *pfeatureref, const gr_feature_val *feats)
__CPROVER_assigns(g_f, g_fv, g_calls)
__CPROVER_ensures((pfeatureref == NULL || feats == NULL) ? (__CPROVER_return_value == 0 && g_calls == __CPROVER_old(g_calls))
                  : (g_calls == __CPROVER_old(g_calls) + 1 && g_f == pfeatureref && g_fv == (Features *)feats && __CPROVER_return_value == (gr_uint16)g_get_ret));
/*@extract {'file':'src/gr_features.cpp', 'sig': r'int gr_fref_set_feature_value\(const gr_feature_ref\* pfeatureref, gr_uint16 val, gr_feature_val\* pDest\)',
   'emit':'int gr_fref_set_feature_value(const gr_feature_ref *pfeatureref, gr_uint16 val, gr_feature_val *pDest)', 'subs':[[r'\*pDest\)', 'pDest)', 0]], 'methods':['applyValToFeature']}@*/
/*@extract {'file':'src/gr_features.cpp', 'sig': r'gr_uint16 gr_fref_feature_value\(const gr_feature_ref\* pfeatureref, const gr_feature_val\* feats\)',
   'emit':'gr_uint16 gr_fref_feature_value(const gr_feature_ref *pfeatureref, const gr_feature_val *feats)', 'subs':[[r'\*feats\)', 'feats)', 0]], 'methods':['getFeatureVal']}@*/

/* ---- tag-taking entry points */
uint32 g_zp_in, g_zp_out; uint32 g_lang_seen, g_id_seen;
uint32 zeropad(const uint32 x) __CPROVER_assigns(g_zp_in) __CPROVER_ensures(g_zp_in == x && __CPROVER_return_value == g_zp_out);
Features *SillMap_cloneFeatures(const SillMap *s, uint32 langname) __CPROVER_assigns(g_lang_seen) __CPROVER_ensures(g_lang_seen == langname);
const FeatureRef *Face_featureById(const Face *f, uint32 id) __CPROVER_assigns(g_id_seen) __CPROVER_ensures(g_id_seen == id);
static const SillMap *Face_theSill_0(const Face *f) { return (const SillMap *)f; }
#define M_theSill_0 Face_theSill_0
#define M_cloneFeatures_1(s, l) SillMap_cloneFeatures(s, l)
#define M_featureById_1 Face_featureById
gr_feature_val *gr_face_featureval_for_lang(const gr_face *pFace, gr_uint32 langname)
__CPROVER_requires(pFace != NULL) __CPROVER_assigns(g_zp_in, g_lang_seen)
__CPROVER_ensures(g_zp_in == langname && g_lang_seen == g_zp_out);
const gr_feature_ref *gr_face_find_fref(const gr_face *pFace, gr_uint32 featId)
__CPROVER_requires(pFace != NULL) __CPROVER_assigns(g_zp_in, g_id_seen)
__CPROVER_ensures(g_zp_in == featId && g_id_seen == g_zp_out);
/*@extract {'file':'src/gr_face.cpp', 'sig': r'gr_feature_val\* gr_face_featureval_for_lang\(const gr_face\* pFace, gr_uint32 langname(?:/\*[^*]*\*/)?\)', 'emit':'gr_feature_val *gr_face_featureval_for_lang(const gr_face *pFace, gr_uint32 langname)',
   'casts': True, 'subs':[[r'pFace->theSill\(\)\.cloneFeatures\(', 'SillMap_cloneFeatures(Face_theSill_0(pFace), ', 0]]}@*/
/*@extract {'file':'src/gr_face.cpp', 'sig': r'const gr_feature_ref\* gr_face_find_fref\(const gr_face\* pFace, gr_uint32 featId\)', 'emit':'const gr_feature_ref *gr_face_find_fref(const gr_face *pFace, gr_uint32 featId)',
   'casts': True, 'methods':['featureById']}@*/
unsigned nondet_unsigned(void); bool nondet_bool(void);
void h_setget(void)
{
    FeatureRef *f = nondet_bool() ? (FeatureRef *)0 : malloc(1); Features *fv = nondet_bool() ? (Features *)0 : malloc(1);
    g_apply_ret = nondet_bool(); g_get_ret = nondet_unsigned(); g_calls = 0;
    if (nondet_bool()) { int r = gr_fref_set_feature_value(f, (gr_uint16)nondet_unsigned(), fv); (void)r; }
    else { gr_uint16 r = gr_fref_feature_value(f, fv); (void)r; }
    CANARY();
}
void h_tags(void)
{
    Face *face = malloc(1); __CPROVER_assume(face);
    g_zp_out = nondet_unsigned();
    if (nondet_bool()) gr_face_featureval_for_lang(face, nondet_unsigned()); else gr_face_find_fref(face, nondet_unsigned());
    CANARY();
}
