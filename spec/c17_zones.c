/* C17 (interval-set clause) - the cost-ordered set of free intervals searched by the collision fixer stays sorted,
 * disjoint, inside its bounds, and never offers a position that was excluded.
 *
 * Functions under contract (extracted from /repo on every run):
 *   Zones::Exclusion::{split_at, left_trim, operator+=, outcode, cost, test_position, track_cost}     src/Intervals.cpp
 *   Zones::Exclusion::Exclusion, Exclusion::weighted<XY>, weighted<SD>, Zones::Zones, Zones::initialise<XY|SD>,
 *   Zones::weighted<XY|SD>, Zones::weightedAxis, Zones::exclude                                        src/inc/Intervals.h
 *   Zones::insert, Zones::remove, Zones::exclude_with_margins, Zones::find_exclusion_under, Zones::closest, separated
 *                                                                                                      src/Intervals.cpp
 *   Vector<Exclusion>::{Vector(),begin,end,size,capacity,front,operator[],reserve,_insert_default,insert(p,x),erase(p),
 *   erase(first,last),clear,push_back}, distance                                                       src/inc/List.h
 *   min, max, checked_mul (HAVE_BUILTIN_OVERFLOW variant)                                              src/inc/Main.h
 *
 * Scope (DESIGN.md, C17): clause 3 of the property only.  Clauses 1 and 2 (limit rectangle, resolved => octaboxes
 * disjoint) are statements about ~40 single-precision expressions of ShiftCollider::mergeSlot/initSlot in real
 * arithmetic; they are not decided here (src/Collider.cpp is not under contract).
 *
 * Structure (two levels, because goto-instrument's contract replacement inside unwound loops does not terminate in
 * useful time - measured > 10 min for one interval):
 *   level 1  the Exclusion methods (unbounded proofs, dfcc) and the two vector mutators Vector::insert / Vector::erase
 *            (dfcc --enforce-contract on the extracted List.h code, bounded element-wise contracts, units c17_vec_*);
 *   level 2  Zones::insert / remove / exclude_with_margins / closest / find_exclusion_under / initialise: the extracted
 *            bodies run in a plain CBMC harness (no dfcc); their calls to Vector::insert / erase go through the ghost
 *            wrappers Vector_insert_g / Vector_erase_g which APPLY the level-1 contract by hand: assert the requires
 *            macro, havoc the assigns clause, assume the ensures macros (the very same macros the level-1 units prove).
 *            Pre- and postconditions of level 2 are the *_PRE / *_POST macros below, assumed / asserted by the harness;
 *            the frame (only the vector changes) is asserted explicitly.  The same goes for Exclusion::outcode, operator+=
 *            and track_cost (float arithmetic stays in level 1).  The loops of Zones::insert / Zones::remove are not
 *            unwound: a single generic rewrite of the `for` header turns them into the loop-invariant encoding (assert
 *            the invariant on entry, havoc, assume it, one iteration of the real body and step, assert it again); the
 *            invariants are remove_inv / insert_inv below.  All interval bounds are finite and _pos < _posm at level 2
 *            (the degenerate axis _pos == _posm is the finding unit c17_degenerate_axis).
 *
 * Float model: CBMC's bit-precise IEEE-754 single precision, round to nearest (x86-64 SSE, FLT_EVAL_METHOD 0).
 * Tracing: the non-tracing build (GRAPHITE2_NTRACING); with tracing addDebug/removeDebug only append to a debug log
 * when a json sink is attached.
 * By-value parameters: Vector::insert(iterator, const T&) and push_back(const T&) take a by-value element here; every
 * caller in Intervals.cpp/.h passes a temporary (the result of split_at / weighted<>), never an element of the vector.
 */
#include "types.h"
#include <float.h>
#define assert(x) __CPROVER_assert((x), "source assert: " #x)
#define GRAPHITE2_NTRACING 1

#ifndef NV
#define NV 4            /* bounded units: largest number of intervals present before the operation */
#endif
#ifndef CAPV
#define CAPV 8          /* bounded units: capacity of the (single, exact-size) storage object the harness allocates */
#endif

/* ---- level 1: unbounded proofs (loop-free) */
/*@unit {'name':'c17_excl_ops', 'props':['C17'], 'entry':'h_excl_ops',
         'enforce':['Exclusion_split_at','Exclusion_left_trim','Exclusion_add','Exclusion_outcode'],
         'replay':'c17_zones', 'witness_defines':[], 'witness_vars':['w_x','w_xm','w_p'],
         'claims':'Exclusion::outcode is the 2-bit position code (bit0: p left of x, bit1: p at or right of xm) for all finite operands; split_at(p) cuts [x,xm] into [x,p] (returned) and [p,xm] (kept) with the cost terms copied; left_trim moves only x; operator+= adds the three cost terms, leaves x and xm alone and never lowers sm when the added weight is non-negative'}@*/
/*@unit {'name':'c17_test_position', 'props':['C17'], 'entry':'h_test_position', 'enforce':'Exclusion_test_position',
         'replay':'c17_zones', 'witness_defines':[], 'witness_vars':['w_x','w_xm','w_c','w_sm','w_smx','w_origin'],
         'claims':'Exclusion::test_position returns a position inside the closed interval [x,xm] for every interval with x <= xm, non-zero weight sum (either sign), finite smx and finite origin: a single interval never offers a point outside itself'}@*/
/*@unit {'name':'c17_track_cost', 'props':['C17'], 'entry':'h_track_cost', 'enforce':'Exclusion_track_cost', 'replace':['Exclusion_test_position'],
         'claims':'Exclusion::track_cost either leaves (best_cost,best_pos) untouched or replaces them by a strictly lower cost and a position inside this interval (the one test_position returned); writes nothing else'}@*/
/*@unit {'name':'c17_weighted', 'props':['C17'], 'entry':'h_weighted', 'enforce':['Exclusion_weighted_XY','Exclusion_weighted_SD'],
         'claims':'Exclusion::weighted<XY>/<SD> build the interval [xmin,xmax] unchanged, closed flag clear, with weight sum >= 0 for non-negative weights and >= 0.5 for the initial interval (f = 1, m = 0)'}@*/

/* ---- level 1: the vector mutators (dfcc enforce, bounded: element-wise contract over 8 slots) */
/*@unit {'name':'c17_vec_insert_c8', 'props':['C17'], 'entry':'h_vec_insert', 'enforce':'Vector_insert', 'kind':'bounded', 'backend':'cadical', 'unwind':9, 'loop_contracts':False, 'defines':['CAPV=8'], 'cost':60,
         'bound':'capacity 8 (what Zones() reserves), 0..7 elements before the call, any insertion point; loops of the element-wise libc models and of the ghost snapshot unwound 8 times',
         'claims':'Vector<Exclusion>::insert(p,x) with _insert_default and reserve: size grows by one, the returned iterator addresses slot p-begin(), slots before it keep their value, the slot holds x, later slots hold their left neighbour\'s old value (bit-wise); the storage block is kept (the size rounded up to 8 fits); no access outside the exact-size storage object; only the vector is written'}@*/
/*@unit {'name':'c17_vec_insert_c4', 'props':['C17'], 'entry':'h_vec_insert', 'enforce':'Vector_insert', 'kind':'bounded', 'backend':'cadical', 'unwind':9, 'loop_contracts':False, 'defines':['CAPV=4'], 'cost':60,
         'bound':'capacity 4 (a full or nearly full block smaller than 8), 0..4 elements before the call; loops unwound 8 times',
         'claims':'Vector<Exclusion>::insert(p,x) when the block must grow: same element-wise result, the storage moves to a fresh block of 8, the old block is freed and the returned iterator points into the new block'}@*/
/*@unit {'name':'c17_vec_erase_c8', 'props':['C17'], 'entry':'h_vec_erase', 'enforce':'Vector_erase', 'kind':'bounded', 'backend':'cadical', 'unwind':9, 'loop_contracts':False, 'defines':['CAPV=8'], 'cost':40,
         'bound':'capacity 8, 1..8 elements; destructor loop, libc-model loops and ghost snapshot unwound 8 times',
         'claims':'Vector<Exclusion>::erase(p): size shrinks by one, storage and capacity are kept, slots before p keep their value, slots from p on hold their right neighbour\'s old value, the returned iterator is p; no access outside the storage object'}@*/
/*@unit {'name':'c17_vec_erase_c4', 'props':['C17'], 'entry':'h_vec_erase', 'enforce':'Vector_erase', 'kind':'bounded', 'backend':'cadical', 'unwind':9, 'loop_contracts':False, 'defines':['CAPV=4'], 'cost':40,
         'bound':'capacity 4, 1..4 elements; loops unwound 8 times', 'claims':'same as c17_vec_erase_c8 for a block of 4'}@*/

/*@unit {'name':'c17_vec_stubs', 'props':['C17'], 'entry':'h_vec_stubs', 'kind':'bounded', 'backend':'cadical', 'unwind':9, 'loop_contracts':False, 'defines':['CAPV=8','L2_BY_CONTRACT'], 'cost':20,
         'bound':'vectors of at most 8 elements in a block of 8 or of 4 (the universe of the c17_vec_* units); loops unwound 8 times',
         'claims':'the hand application of the Vector::insert / Vector::erase contracts used by the level-2 units (wrappers Vector_insert_g / Vector_erase_g) produces exactly a state that satisfies the ensures macros proved by c17_vec_insert_* / c17_vec_erase_* (size, returned iterator, element-wise content, kept or fresh-and-freed storage)'}@*/

/* ---- level 2: the interval-set operations (plain harness, Vector::insert/erase applied by contract) */
/*@unit {'name':'c17_remove_c8', 'props':['C17'], 'entry':'h_remove', 'kind':'bounded', 'backend':'cadical', 'unwind':9, 'loop_contracts':False, 'defines':['NV=5','CAPV=8','L2_BY_CONTRACT','L2_INV'], 'defines_quick':['NV=3','CAPV=8','L2_BY_CONTRACT','L2_INV'], 'timeout_quick':900, 'cost':50,
         'bound':'storage block of capacity 8 (no reallocation), at most 3 (quick) / 5 (thorough; 6 passes in ~30 min) intervals on entry; the main loop is NOT unwound: it is cut by the loop invariant remove_inv (asserted on entry, assumed for an arbitrary iteration, re-asserted after one real iteration), so any number of iterations is covered for vectors that fit the block; helper loops over the 8 slots are unwound',
         'replay':'c17_zones', 'witness_defines':[], 'witness_vars':['w_n','w_x','w_xm','w_c','w_sm','w_smx','w_pos','w_posm','w_a','w_b','w_pt'],
         'claims':'Zones::remove(x,xm) on a sorted, disjoint, in-bounds interval set leaves it sorted, disjoint and in bounds; afterwards no interval contains a point of the open range (x,xm); every point offered afterwards was offered before (nothing is re-opened); every point offered before and outside [x,xm] is still offered; weight sums stay positive; only the vector changes; Vector::insert/erase are called within their contracts'}@*/
/*@unit {'name':'c17_remove_c4', 'props':['C17'], 'entry':'h_remove', 'kind':'bounded', 'backend':'cadical', 'unwind':9, 'loop_contracts':False, 'defines':['NV=4','CAPV=4','L2_BY_CONTRACT','L2_INV'], 'defines_quick':['NV=3','CAPV=4','L2_BY_CONTRACT','L2_INV'], 'timeout_quick':900, 'cost':50,
         'bound':'exact-size storage block of capacity 4, at most 3 (quick) / 4 (thorough) intervals on entry: every split reallocates (storage moves to a block of 8, old block freed); main loop cut by the invariant as in c17_remove_c8',
         'replay':'c17_zones', 'witness_defines':[], 'witness_vars':['w_n','w_x','w_xm','w_c','w_sm','w_smx','w_pos','w_posm','w_a','w_b','w_pt'],
         'claims':'same as c17_remove_c8 when the split has to grow the vector: the iterator is re-seated on the new block and the freed block is never touched; with 4 live intervals any access past the live elements is outside the storage object'}@*/
/*@unit {'name':'c17_insert_c8', 'props':['C17'], 'entry':'h_insert', 'kind':'bounded', 'backend':'cadical', 'unwind':9, 'loop_contracts':False, 'defines':['NV=6','CAPV=8','L2_BY_CONTRACT','L2_INV'], 'defines_quick':['NV=2','CAPV=8','L2_BY_CONTRACT','L2_INV'], 'timeout_quick':900, 'cost':80,
         'bound':'storage block of capacity 8, at most 2 (quick) / 6 (thorough) intervals on entry; main loop cut by the loop invariant insert_inv (entry / arbitrary iteration / exit), helper loops over the 8 slots unwound',
         'replay':'c17_zones', 'witness_defines':[], 'witness_vars':['w_n','w_x','w_xm','w_c','w_sm','w_smx','w_pos','w_posm','w_a','w_b','w_pt','w_ec','w_esm','w_esmx'],
         'claims':'Zones::insert(e) (weighted insert) keeps the interval set sorted, disjoint and in bounds and does not change the set of offered points (it never re-opens an excluded position and never loses a free one); weight sums stay positive for non-negative e.sm; only the vector changes (which intervals receive the weight is NOT checked: the exact-sum clauses under -DL2_COST need an equivalence proof of float adders that the SAT back end does not finish)'}@*/
/*@unit {'name':'c17_insert_c4', 'props':['C17'], 'entry':'h_insert', 'kind':'bounded', 'backend':'cadical', 'unwind':9, 'loop_contracts':False, 'defines':['NV=4','CAPV=4','L2_BY_CONTRACT','L2_INV'], 'defines_quick':['NV=2','CAPV=4','L2_BY_CONTRACT','L2_INV'], 'timeout_quick':900, 'cost':80,
         'bound':'exact-size storage block of capacity 4, at most 2 (quick) / 4 (thorough) intervals on entry: the first split reallocates; main loop cut by the invariant as in c17_insert_c8',
         'replay':'c17_zones', 'witness_defines':[], 'witness_vars':['w_n','w_x','w_xm','w_c','w_sm','w_smx','w_pos','w_posm','w_a','w_b','w_pt','w_ec','w_esm','w_esmx'],
         'claims':'same as c17_insert_c8 when a split has to grow the vector (iterators re-seated, freed block never touched)'}@*/
/*@unit {'name':'c17_exclude_margins', 'props':['C17'], 'entry':'h_exclude_margins', 'kind':'bounded', 'backend':'cadical', 'unwind':9, 'loop_contracts':False, 'defines':['NV=3','CAPV=8','L2_BY_CONTRACT','L2_INV'], 'cost':95,
         'tiers':['manual'], 'timeout':3000,
         'bound':'at most 3 intervals before the call (at most 8 during it), capacity 8; the three loops are cut by their invariants, helper loops unwound 8 times',
         'replay':'c17_zones', 'witness_defines':[], 'witness_vars':['w_n','w_x','w_xm','w_c','w_sm','w_smx','w_pos','w_posm','w_a','w_b','w_pt','w_axis','w_mlen','w_mwt'],
         'claims':'NOT RUN in the quick/thorough tiers (the composition of the three invariant-cut loops did not finish within 50 minutes; exclude_with_margins is remove followed by two weightedAxis inserts, each covered by its own unit).  Intended claim: Zones::exclude_with_margins(xmin,xmax,axis) = remove + two margin-weight inserts (each loop cut by the invariant of c17_remove_* / c17_insert_*): the set stays sorted, disjoint and in bounds, offers no point of (xmin,xmax), offers nothing that was not offered before, keeps every point outside [xmin,xmax], and keeps weight sums positive for a non-negative margin weight'}@*/
/*@unit {'name':'c17_degenerate_axis', 'props':['C17'], 'entry':'h_degenerate', 'kind':'bounded', 'backend':'cadical', 'unwind':9, 'loop_contracts':False, 'defines':['NV=1','CAPV=8','L2_BY_CONTRACT'], 'cost':5,
         'tiers':['quick','thorough'],
         'replay':'c17_zones', 'witness_defines':[], 'witness_vars':['w_pos','w_a','w_b'],
         'bound':'one interval',
         'claims':'KNOWN FINDING (fails on the unchanged tree, confirmed natively by replay/c17_zones.cpp; listed in known-findings.txt): on an axis whose bounds coincide (initialise(P,P): limit rectangle of zero width on that axis) remove(a,b) with a < P < b clamps the range to the empty [P,P] and returns, so the point P stays offered: closest() reports cost 0 >= 0 and ShiftCollider::resolve clears the collision flag although the excluded position was chosen.  The other level-2 units assume _pos < _posm.'}@*/
/*@unit {'name':'c17_closest', 'props':['C17'], 'entry':'h_closest', 'kind':'bounded', 'backend':'cadical', 'unwind':9, 'loop_contracts':False, 'defines':['NV=6','CAPV=6','L2_BY_CONTRACT'], 'cost':30,
         'bound':'at most 6 intervals in an exact-size block; all loops unwound 8 times',
         'replay':'c17_zones', 'witness_defines':[], 'witness_vars':['w_n','w_x','w_xm','w_c','w_sm','w_smx','w_pos','w_posm','w_a'],
         'claims':'Zones::closest(origin,cost) on a sorted disjoint set whose intervals have non-zero weight sums and finite linear terms: either reports cost -1 (no candidate; this is what ShiftCollider::resolve reads as "no free point on this axis") or returns a position that lies inside one of the free intervals; an empty set always reports -1; reads stay inside the live elements (iterators begin()-1 / start-1 are formed but never dereferenced); nothing is written but *cost'}@*/
/*@unit {'name':'c17_find_under', 'props':['C17'], 'entry':'h_find_under', 'kind':'bounded', 'backend':'cadical', 'unwind':9, 'loop_contracts':False, 'defines':['NV=6','CAPV=6','L2_BY_CONTRACT'], 'cost':10,
         'bound':'at most 6 intervals in an exact-size block; binary-search loop unwound 8 times',
         'claims':'Zones::find_exclusion_under(x) returns an iterator in [begin,end]; every interval before it ends at or before x, every interval after it starts after x, and the interval it addresses (if any) contains x or starts after x; operator[] is called with an index below size()'}@*/
/*@unit {'name':'c17_initialise', 'props':['C17'], 'entry':'h_initialise', 'kind':'bounded', 'backend':'cadical', 'unwind':9, 'loop_contracts':False, 'defines':['NV=4','CAPV=8'], 'cost':20,
         'bound':'a Zones object holding at most 4 intervals in a block of 8; loops unwound 8 times',
         'claims':'Zones::initialise<XY|SD>(xmin,xmax,margin,weight,a0) leaves exactly one open interval [xmin,xmax] with weight sum >= 0.5, bounds _pos=xmin, _posm=xmax and the margin parameters stored: sorted, disjoint and in bounds whenever xmin < xmax'}@*/

/* ------------------------------------------------------------------ shim structs (fields as in Intervals.h / List.h) */
typedef struct Exclusion { float x, xm, c, sm, smx; bool open; } Exclusion;
typedef Exclusion *iterator;
typedef const Exclusion *const_iterator;
typedef struct Exclusions { Exclusion *m_first, *m_last, *m_end; } Exclusions;          /* Vector<Exclusion> */
typedef struct Zones { Exclusions _exclusions; float _margin_len, _margin_weight, _pos, _posm; } Zones;
enum zones_t { SD, XY };

#define NNAN(f) (!__CPROVER_isnanf(f))
#define FIN(f)  (!__CPROVER_isnanf(f) && !__CPROVER_isinff(f))
float nondet_float(void); bool nondet_bool(void); size_t nondet_size_t(void); uint32 nondet_u32(void); int nondet_int(void);

/* ------------------------------------------------------------------ ghost state */
Exclusion *g_e;  Exclusion g_e0;          /* the interval an Exclusion method works on, and its value before the call */
float *g_bc, *g_bp; float g_bc0, g_bp0;   /* track_cost: the caller's best cost / best position cells */

/* ------------------------------------------------------------------ contracts: Exclusion methods (loop-free) */
#define OUTCODE_PRE(e, val)     (FIN((e)->x) && FIN((e)->xm) && FIN(val))
#define OUTCODE_POST(e, val, r) ((r) == ((((val) >= (e)->xm) ? 2 : 0) | (((val) < (e)->x) ? 1 : 0)))
uint8 Exclusion_outcode(const Exclusion *self, float val)
__CPROVER_requires(OUTCODE_PRE(self, val))
__CPROVER_assigns()
__CPROVER_ensures(OUTCODE_POST(self, val, __CPROVER_return_value));

Exclusion Exclusion_split_at(Exclusion *self, float p)
__CPROVER_requires(self == g_e && g_e0.x == self->x && g_e0.xm == self->xm && g_e0.c == self->c && g_e0.sm == self->sm && g_e0.smx == self->smx && g_e0.open == self->open)
__CPROVER_requires(NNAN(self->x) && NNAN(self->xm) && NNAN(self->c) && NNAN(self->sm) && NNAN(self->smx) && NNAN(p))
__CPROVER_assigns(self->x)
__CPROVER_ensures(__CPROVER_return_value.x == g_e0.x && __CPROVER_return_value.xm == p && self->x == p && self->xm == g_e0.xm)
__CPROVER_ensures(__CPROVER_return_value.c == g_e0.c && __CPROVER_return_value.sm == g_e0.sm && __CPROVER_return_value.smx == g_e0.smx && __CPROVER_return_value.open == g_e0.open);

void Exclusion_left_trim(Exclusion *self, float p)
__CPROVER_requires(NNAN(p))
__CPROVER_assigns(self->x)
__CPROVER_ensures(self->x == p);

#define ADD_PRE(c0, sm0, smx0, rhs)   (NNAN(c0) && NNAN(sm0) && NNAN(smx0) && FIN((rhs)->c) && FIN((rhs)->sm) && FIN((rhs)->smx))
#define ADD_POST(e, c0, sm0, smx0, rhs) (!(e)->open && (e)->c == (c0) + (rhs)->c && (e)->sm == (sm0) + (rhs)->sm && (e)->smx == (smx0) + (rhs)->smx \
                                         && (!((rhs)->sm >= 0) || (e)->sm >= (sm0)))      /* the invariant sm > 0 survives non-negative weights */
Exclusion *Exclusion_add(Exclusion *self, const Exclusion *rhs)
__CPROVER_requires(self == g_e && g_e0.c == self->c && g_e0.sm == self->sm && g_e0.smx == self->smx)
__CPROVER_requires(ADD_PRE(g_e0.c, g_e0.sm, g_e0.smx, rhs))
__CPROVER_assigns(self->c, self->sm, self->smx, self->open)                 /* frame: x and xm are never touched */
__CPROVER_ensures(__CPROVER_return_value == self)
__CPROVER_ensures(ADD_POST(self, g_e0.c, g_e0.sm, g_e0.smx, rhs));

float Exclusion_test_position(const Exclusion *self, float origin)
__CPROVER_requires(self->x <= self->xm && NNAN(self->sm) && self->sm != 0 && FIN(self->smx) && FIN(origin))
__CPROVER_assigns()
__CPROVER_ensures(self->x <= __CPROVER_return_value && __CPROVER_return_value <= self->xm);

#define TRACK_PRE(e, origin, c0, p0)   (NNAN(c0) && NNAN(p0) && (e)->x <= (e)->xm && NNAN((e)->sm) && (e)->sm != 0 && FIN((e)->smx) && FIN(origin))
#define TRACK_POST(e, c1, p1, c0, p0)  (((c1) == (c0) && (p1) == (p0)) || ((c1) < (c0) && (e)->x <= (p1) && (p1) <= (e)->xm))
bool Exclusion_track_cost(const Exclusion *self, float *best_cost, float *best_pos, float origin)
__CPROVER_requires(best_cost == g_bc && best_pos == g_bp && *best_cost == g_bc0 && *best_pos == g_bp0)
__CPROVER_requires(TRACK_PRE(self, origin, g_bc0, g_bp0))
__CPROVER_assigns(*best_cost, *best_pos)
__CPROVER_ensures(TRACK_POST(self, *best_cost, *best_pos, g_bc0, g_bp0));

Exclusion Exclusion_weighted_XY(float xmin, float xmax, float f, float a0, float m, float xi, float ai, float c, bool nega)
__CPROVER_requires(NNAN(xmin) && NNAN(xmax) && NNAN(f) && NNAN(m))
__CPROVER_assigns()
__CPROVER_ensures(__CPROVER_return_value.x == xmin && __CPROVER_return_value.xm == xmax && !__CPROVER_return_value.open)
__CPROVER_ensures((f >= 0 && m >= 0) ==> __CPROVER_return_value.sm >= 0)
__CPROVER_ensures((f == 1 && m == 0) ==> __CPROVER_return_value.sm >= 0.5f);

Exclusion Exclusion_weighted_SD(float xmin, float xmax, float f, float a0, float m, float xi, float ai, float c, bool nega)
__CPROVER_requires(NNAN(xmin) && NNAN(xmax) && NNAN(f) && NNAN(m))
__CPROVER_assigns()
__CPROVER_ensures(__CPROVER_return_value.x == xmin && __CPROVER_return_value.xm == xmax && !__CPROVER_return_value.open)
__CPROVER_ensures((f >= 0 && m >= 0) ==> __CPROVER_return_value.sm >= 0)
__CPROVER_ensures((f == 1 && m == 0) ==> __CPROVER_return_value.sm >= 0.5f);

/* ------------------------------------------------------------------ contracts: Vector<Exclusion>::insert(p,x) / erase(p)
 * Element-wise over the first VMAX slots (quantifier-free).  The value of the vector before the call is a ghost snapshot
 * (g_v0, g_n0, g_cap0, g_first0, g_idx) taken by vec_snapshot().  Elements are compared bit-wise (they are moved as raw
 * memory, NaNs included).  The same macros are (a) the requires/ensures clauses proved on the extracted List.h code by
 * the c17_vec_* units and (b) what the ghost wrappers Vector_insert_g / Vector_erase_g assert / assume when the extracted
 * Zones code calls the vector (level 2). */
#define VMAX 8
#define ESZ ((long)sizeof(Exclusion))
/* element counts from byte offsets without a 64-bit division (each one costs the SAT back end ~30k variables): offsets
   that are not a multiple of the element size, or beyond 8 elements, map to 99 and fail every bound below */
#define NELEMS(off) ((off) == 0 * ESZ ? 0u : (off) == 1 * ESZ ? 1u : (off) == 2 * ESZ ? 2u : (off) == 3 * ESZ ? 3u : (off) == 4 * ESZ ? 4u \
                   : (off) == 5 * ESZ ? 5u : (off) == 6 * ESZ ? 6u : (off) == 7 * ESZ ? 7u : (off) == 8 * ESZ ? 8u : 99u)
#define VSZ(v)  ((size_t)NELEMS(OFF((v)->m_last) - OFF((v)->m_first)))
#define VCAP(v) ((size_t)NELEMS(OFF((v)->m_end) - OFF((v)->m_first)))
Exclusion g_v0[VMAX + 1]; size_t g_n0, g_cap0, g_idx; Exclusion *g_first0;
#define FBITS(f) (*(const uint32 *)&(f))
#define EL_EQ(a, b) (FBITS((a).x) == FBITS((b).x) && FBITS((a).xm) == FBITS((b).xm) && FBITS((a).c) == FBITS((b).c) && FBITS((a).sm) == FBITS((b).sm) \
                     && FBITS((a).smx) == FBITS((b).smx) && (a).open == (b).open)
/* a well-formed vector whose storage is one exact-size heap object */
#define VEC_OK(v) ((v)->m_first != NULL && SAME((v)->m_first, (v)->m_last) && SAME((v)->m_first, (v)->m_end) && OFF((v)->m_first) == 0 \
                   && VSZ(v) <= VCAP(v) && VCAP(v) <= 8 && OBJSZ((v)->m_first) == VCAP(v) * sizeof(Exclusion))
#define SNAP1(v, k) ((k) >= g_n0 || EL_EQ((v)->m_first[k], g_v0[k]))
#define SNAP_OK(v) (VSZ(v) == g_n0 && VCAP(v) == g_cap0 && (v)->m_first == g_first0 \
                    && SNAP1(v,0) && SNAP1(v,1) && SNAP1(v,2) && SNAP1(v,3) && SNAP1(v,4) && SNAP1(v,5) && SNAP1(v,6) && SNAP1(v,7))
/* the universe the level-1 units cover: a block of 8 with room, or a block of 4 */
#define CAP_COVERED(n, cap) ((cap) == 8 || ((cap) == 4 && (n) <= 4))
#define GROWS(n, cap) (((((n) + 1 + 7) >> 3) << 3) > (cap))         /* _insert_default: reserve(round-up-to-8(size+1)) reallocates */

/* shape part of the preconditions, in terms of the snapshot (n = g_n0, cap = g_cap0, idx = g_idx) */
#define VEC_SHAPE(v)  ((v)->m_first != NULL && SAME((v)->m_first, (v)->m_last) && SAME((v)->m_first, (v)->m_end) && OFF((v)->m_first) == 0 \
                       && OFF((v)->m_last) == (long)g_n0 * ESZ && OFF((v)->m_end) == (long)g_cap0 * ESZ && OBJSZ((v)->m_first) == g_cap0 * sizeof(Exclusion) && g_n0 <= g_cap0)
#define VEC_INSERT_PRE_SHAPE(v, p) (VEC_SHAPE(v) && g_n0 < VMAX && CAP_COVERED(g_n0, g_cap0) && SAME(p, (v)->m_first) && OFF(p) == (long)g_idx * ESZ && g_idx <= g_n0)
#define VEC_INSERT_PRE(v, p)  (VEC_OK(v) && SNAP_OK(v) && VEC_INSERT_PRE_SHAPE(v, p))
/* after insert at g_idx: slot k holds old k (k < idx), x (k == idx), old k-1 (k > idx) */
#define INS1(v, k, x) ((k) > g_n0 || ((k) < g_idx ? EL_EQ((v)->m_first[k], g_v0[k]) : (k) == g_idx ? EL_EQ((v)->m_first[k], x) : EL_EQ((v)->m_first[k], g_v0[(k) - 1])))
#define VEC_INSERT_POST_SHAPE(v, r) (VEC_OK(v) && VSZ(v) == g_n0 + 1 && (r) == (v)->m_first + g_idx)
#define VEC_INSERT_POST_ELEMS(v, x) (INS1(v,0,x) && INS1(v,1,x) && INS1(v,2,x) && INS1(v,3,x) && INS1(v,4,x) && INS1(v,5,x) && INS1(v,6,x) && INS1(v,7,x))
/* storage: kept when the rounded-up size fits, otherwise moved to a new block of 8 and the old block is released */
#define VEC_INSERT_POST_STORE(v, freed) (GROWS(g_n0, g_cap0) ? (VCAP(v) == 8 && (v)->m_first != g_first0 && (freed)) : (VCAP(v) == g_cap0 && (v)->m_first == g_first0))

#define VEC_ERASE_PRE_SHAPE(v, p)  (VEC_SHAPE(v) && g_n0 <= VMAX && CAP_COVERED(g_n0, g_cap0) && SAME(p, (v)->m_first) && OFF(p) == (long)g_idx * ESZ && g_idx < g_n0)
#define VEC_ERASE_PRE(v, p)   (VEC_OK(v) && SNAP_OK(v) && VEC_ERASE_PRE_SHAPE(v, p))
/* after erase at g_idx: slot k holds old k (k < idx), old k+1 (k >= idx) */
#define ERA1(v, k) ((k) + 1 >= g_n0 || ((k) < g_idx ? EL_EQ((v)->m_first[k], g_v0[k]) : EL_EQ((v)->m_first[k], g_v0[(k) + 1])))
#define VEC_ERASE_POST_SHAPE(v, r, p) (VEC_OK(v) && VSZ(v) == g_n0 - 1 && VCAP(v) == g_cap0 && (v)->m_first == g_first0 && (r) == (p))
#define VEC_ERASE_POST_ELEMS(v) (ERA1(v,0) && ERA1(v,1) && ERA1(v,2) && ERA1(v,3) && ERA1(v,4) && ERA1(v,5) && ERA1(v,6) && ERA1(v,7))

Exclusion *Vector_insert(Exclusions *self, Exclusion *p, const Exclusion x)
__CPROVER_requires(VEC_INSERT_PRE(self, p))
__CPROVER_assigns(self->m_first, self->m_last, self->m_end, __CPROVER_object_whole(self->m_first))
__CPROVER_frees(self->m_first)
__CPROVER_ensures(VEC_INSERT_POST_SHAPE(self, __CPROVER_return_value))
__CPROVER_ensures(VEC_INSERT_POST_ELEMS(self, x))
__CPROVER_ensures(VEC_INSERT_POST_STORE(self, __CPROVER_was_freed(g_first0)));

Exclusion *Vector_erase(Exclusions *self, Exclusion *p)
__CPROVER_requires(VEC_ERASE_PRE(self, p))
__CPROVER_assigns(self->m_last, __CPROVER_object_whole(self->m_first))
__CPROVER_ensures(VEC_ERASE_POST_SHAPE(self, __CPROVER_return_value, p))
__CPROVER_ensures(VEC_ERASE_POST_ELEMS(self));

static void vec_snapshot(const Exclusions *v, const Exclusion *p)
{
    g_n0 = VSZ(v); g_cap0 = VCAP(v); g_first0 = v->m_first; g_idx = (size_t)NELEMS(OFF(p) - OFF(v->m_first));
    for (size_t k = 0; k < VMAX; ++k) if (k < g_n0) g_v0[k] = v->m_first[k];
}

/* ghost wrappers through which the extracted Zones code reaches the vector */
#ifdef L2_BY_CONTRACT
Exclusion *g_spare;           /* the block the next growing insert will return (allocated by the harness) */
bool g_grown;                 /* the storage has moved to the spare block (set by the Vector::insert wrapper) */
Exclusion *g_last_freed;      /* the block the wrapper passed to free() */
static Exclusion nondet_excl(void)
{ Exclusion e; e.x = nondet_float(); e.xm = nondet_float(); e.c = nondet_float(); e.sm = nondet_float(); e.smx = nondet_float(); e.open = nondet_bool(); return e; }
/* Contract application by hand.  Both contracts are functional: the ensures clauses fix the size, the capacity, the
   identity (kept / fresh + old block freed) of the storage block, the returned iterator and every live element bit for
   bit; only the dead slots past the new size are unconstrained.  The wrapper asserts the shape part of the requires
   clause (the snapshot part is about ghost state only), then CONSTRUCTS that post-state with constant-index element
   moves (dead slots nondeterministic).  Unit c17_vec_stubs proves that the constructed state satisfies the very ensures
   macros that the c17_vec_* units prove of the extracted List.h code.  (goto-instrument's --replace-call-with-contract
   inside the unwound loops, and havoc+assume of the bit-cast macros, both made the verifier stall.) */
static Exclusion *Vector_insert_g(Exclusions *v, Exclusion *p, const Exclusion x)
{
    const size_t n = VSZ(v), cap = VCAP(v), idx = (size_t)NELEMS(OFF(p) - OFF(v->m_first));
    Exclusion *const old = v->m_first;
    g_n0 = n; g_cap0 = cap; g_idx = idx; g_first0 = old;
    __CPROVER_assert(VEC_INSERT_PRE_SHAPE(v, p), "precondition of the Vector::insert contract (proved by c17_vec_insert_c8/_c4)");
    if (GROWS(n, cap)) {
        /* fresh block of 8: the harness allocated it up front (g_spare) and nothing else refers to it; one spare is enough,
           a block of 8 does not grow again while size < 8 (asserted).  Allocating inside the unwound loop would give the
           verifier one candidate object per unwinding for every later access. */
        __CPROVER_assert(g_spare != NULL, "bounded universe: at most one growth per operation");
        Exclusion *const nb = g_spare; g_spare = NULL;
        for (size_t k = 0; k < VMAX; ++k) {
            if (k > n) nb[k] = nondet_excl();
            else if (k < idx) nb[k] = old[k];
            else if (k == idx) nb[k] = x;
            else nb[k] = old[k - 1];
        }
        free(old); g_last_freed = old;                                                    /* frees clause: the old block is released */
        v->m_first = nb; v->m_end = nb + 8;
#ifdef L2_INV
        g_grown = true;
#endif
    } else {
        for (size_t k = VMAX - 1; k >= 1; --k)
            if (k < cap) { if (k > n) old[k] = nondet_excl(); else if (k > idx) old[k] = old[k - 1]; }
        for (size_t k = 0; k < VMAX; ++k) if (k == idx) old[k] = x;
    }
    v->m_last = v->m_first + (n + 1);
    return v->m_first + idx;
}
static Exclusion *Vector_erase_g(Exclusions *v, Exclusion *p)
{
    const size_t n = VSZ(v), cap = VCAP(v), idx = (size_t)NELEMS(OFF(p) - OFF(v->m_first));
    Exclusion *const a = v->m_first;
    g_n0 = n; g_cap0 = cap; g_idx = idx; g_first0 = a;
    __CPROVER_assert(VEC_ERASE_PRE_SHAPE(v, p), "precondition of the Vector::erase contract (proved by c17_vec_erase_c8/_c4)");
    for (size_t k = 0; k < VMAX; ++k)
        if (k < cap) { if (k + 1 >= n) a[k] = nondet_excl(); else if (k >= idx) a[k] = a[k + 1]; }
    v->m_last = a + (n - 1);
    return p;
}
static uint8 Exclusion_outcode_g(const Exclusion *self, float val)
{
    __CPROVER_assert(OUTCODE_PRE(self, val), "precondition of the Exclusion::outcode contract (proved by c17_excl_ops)");
    uint8 r = (uint8)nondet_u32();
    __CPROVER_assume(OUTCODE_POST(self, val, r));
    return r;
}
static Exclusion *Exclusion_add_g(Exclusion *self, const Exclusion *rhs)
{
    const float c0 = self->c, sm0 = self->sm, smx0 = self->smx;
    __CPROVER_assert(ADD_PRE(c0, sm0, smx0, rhs), "precondition of the Exclusion::operator+= contract (proved by c17_excl_ops)");
    self->c = nondet_float(); self->sm = nondet_float(); self->smx = nondet_float(); self->open = nondet_bool();     /* assigns clause */
    __CPROVER_assume(ADD_POST(self, c0, sm0, smx0, rhs));
    return self;
}
static bool Exclusion_track_cost_g(const Exclusion *self, float *best_cost, float *best_pos, float origin)
{
    const float c0 = *best_cost, p0 = *best_pos;
    __CPROVER_assert(TRACK_PRE(self, origin, c0, p0), "precondition of the Exclusion::track_cost contract (proved by c17_track_cost)");
    *best_cost = nondet_float(); *best_pos = nondet_float();                              /* assigns clause */
    __CPROVER_assume(TRACK_POST(self, *best_cost, *best_pos, c0, p0));
    return nondet_bool();
}
#else
Exclusion *Vector_insert_g(Exclusions *v, Exclusion *p, const Exclusion x);
Exclusion *Vector_erase_g(Exclusions *v, Exclusion *p);
uint8 Exclusion_outcode_g(const Exclusion *self, float val);
Exclusion *Exclusion_add_g(Exclusion *self, const Exclusion *rhs);
bool Exclusion_track_cost_g(const Exclusion *self, float *best_cost, float *best_pos, float origin);
#endif

/* The spec-side functions below only read the vector under k < size guards, with VEC_OK asserted next to every use;
   the verifier's pointer/bounds instrumentation is switched off inside them (it multiplies the number of obligations by
   five without checking anything about /repo).  It stays on in all extracted code, the wrappers and the harnesses. */
#pragma CPROVER check push
#pragma CPROVER check disable "pointer"
#pragma CPROVER check disable "bounds"
#pragma CPROVER check disable "pointer-primitive"
#pragma CPROVER check disable "signed-overflow"
/* ------------------------------------------------------------------ spec functions over an interval set (the oracle) */
float g_pt; bool g_cov0;      /* ghost point (an arbitrary position on the axis) and whether it was offered before the call */
int g_at0; Exclusion g_at0v;  /* index and value of the interval that contained g_pt strictly inside before the call (-1: none) */
#define ZAT(z, k) ((z)->_exclusions.m_first[k])

/* sorted, disjoint (touching allowed), every interval non-empty (x < xm), all inside [_pos,_posm]; comparisons are false on NaN */
static bool zones_wf(const Zones *z)
{
    const size_t n = VSZ(&z->_exclusions);
    float prev = z->_pos;
    for (size_t k = 0; k < n; ++k) {
        const Exclusion *e = &ZAT(z, k);
        if (!(prev <= e->x && e->x < e->xm)) return false;
        prev = e->xm;
    }
    return n == 0 || prev <= z->_posm;
}
/* the same with the order written out for every pair (equivalent to zones_wf by transitivity; SAT solvers are poor at
   chaining comparisons, so the loop invariants carry this closed form: element shifts then need no chaining) */
static bool zones_wf_all(const Zones *z)
{
    const size_t n = VSZ(&z->_exclusions);
    for (size_t k = 0; k < VMAX; ++k) if (k < n) {
        if (!(z->_pos <= ZAT(z, k).x && ZAT(z, k).x < ZAT(z, k).xm && ZAT(z, k).xm <= z->_posm)) return false;
        for (size_t m = k + 1; m < VMAX; ++m) if (m < n && !(ZAT(z, k).xm <= ZAT(z, m).x)) return false;
    }
    return true;
}
/* p is offered: it lies in one of the closed free intervals */
static bool zones_covers(const Zones *z, float p)
{
    const size_t n = VSZ(&z->_exclusions);
    for (size_t k = 0; k < n; ++k) {
        const Exclusion *e = &ZAT(z, k);
        if (e->x <= p && p <= e->xm) return true;
    }
    return false;
}
/* index of the interval that contains p strictly inside, -1 if none (unique when zones_wf) */
static int zones_at(const Zones *z, float p)
{
    const size_t n = VSZ(&z->_exclusions);
    for (size_t k = 0; k < n; ++k) {
        const Exclusion *e = &ZAT(z, k);
        if (e->x < p && p < e->xm) return (int)k;
    }
    return -1;
}
/* every interval has a positive weight sum (initialise gives >= 0.5, += of non-negative weights keeps it) and non-NaN cost terms */
static bool zones_cost_wf(const Zones *z)
{
    const size_t n = VSZ(&z->_exclusions);
    for (size_t k = 0; k < n; ++k) if (!(ZAT(z, k).sm > 0 && NNAN(ZAT(z, k).c) && NNAN(ZAT(z, k).smx))) return false;
    return true;
}
/* test_position's precondition on every interval: non-zero weight sum (either sign), finite linear term */
static bool zones_pos_pre(const Zones *z)
{
    const size_t n = VSZ(&z->_exclusions);
    for (size_t k = 0; k < n; ++k) if (!(NNAN(ZAT(z, k).sm) && ZAT(z, k).sm != 0 && FIN(ZAT(z, k).smx))) return false;
    return true;
}

/* ---- Zones::remove(x, xm) */
/* finite bounds => every interval bound is finite.  _pos < _posm: the degenerate axis (_pos == _posm, one empty interval) is the
   subject of unit c17_degenerate_axis (finding: such an axis can never be excluded) */
#define ZONES_OK(z)               (VEC_OK(&(z)->_exclusions) && FIN((z)->_pos) && FIN((z)->_posm) && (z)->_pos < (z)->_posm && zones_wf(z))
#define REMOVE_PRE(z, x, xm)      (ZONES_OK(z) && VSZ(&(z)->_exclusions) <= NV && zones_cost_wf(z) && NNAN(x) && NNAN(xm))
#define REMOVE_POST_WF(z)         (VEC_OK(&(z)->_exclusions) && zones_wf(z))                                 /* sorted, disjoint, inside its bounds */
#define REMOVE_POST_EXCL(cov, x, xm) (!(cov) || !((x) < g_pt && g_pt < (xm)))                               /* never offers a position of the excluded range */
#define REMOVE_POST_MONO(cov)     (!(cov) || g_cov0)                                                        /* ... nor anything excluded earlier */
#define REMOVE_POST_KEEP(cov, x, xm) (!(g_cov0 && !((x) <= g_pt && g_pt <= (xm))) || (cov))                 /* nothing outside the closed range is lost */
/* ---- Zones::insert(e) */
#define INSERT_PRE(z, e)          (ZONES_OK(z) && VSZ(&(z)->_exclusions) <= NV && zones_cost_wf(z) \
                                   && NNAN((e).x) && NNAN((e).xm) && FIN((e).sm) && FIN((e).smx) && FIN((e).c) && (e).sm >= 0)
#define INSERT_POST_SAME(cov)     ((cov) == g_cov0)                                                         /* the set of offered positions is unchanged */
/* cost terms: e is added exactly once on the overlap, nothing outside e changes (at: index of the interval around g_pt now) */
#define COST_IS(z, at, dsm, dsmx, dc) ((at) >= 0 && ZAT(z, at).sm == g_at0v.sm + (dsm) && ZAT(z, at).smx == g_at0v.smx + (dsmx) && ZAT(z, at).c == g_at0v.c + (dc))
#define COST_SAME(z, at)          ((at) >= 0 && ZAT(z, at).sm == g_at0v.sm && ZAT(z, at).smx == g_at0v.smx && ZAT(z, at).c == g_at0v.c)
#define INSERT_POST_ADD(z, at, e) (!(g_at0 >= 0 && (e).x < g_pt && g_pt < (e).xm) || COST_IS(z, at, (e).sm, (e).smx, (e).c))
#define INSERT_POST_OUT(z, at, e) (!(g_at0 >= 0 && !((e).x <= g_pt && g_pt <= (e).xm)) || COST_SAME(z, at))


/* ------------------------------------------------------------------ loop invariants of Zones::remove / Zones::insert (level 2) */
#ifdef L2_INV
Exclusion *g_first_l; size_t g_cap_l, g_n_l;      /* storage and size on loop entry */
float g_ex0, g_exm0;                              /* insert: the clamped range of e on loop entry */
#define STORAGE_INV(v) (VEC_OK(v) && (g_grown ? (VCAP(v) == 8 && g_spare == NULL && (v)->m_first != g_first_l) \
                                              : (VCAP(v) == g_cap_l && (v)->m_first == g_first_l && (g_cap_l == 8 || g_spare != NULL))))

/* remove(x,xm), iterator i at index j: the set is well-formed; the intervals already visited (k < j) do not meet the open
   range (x,xm); the ghost point is offered only if it was before, and still is if it was and lies outside [x,xm]; the
   storage has not moved and the size has not grown (a split is followed by return) */
static bool remove_inv(const Zones *z, const Exclusion *i, const Exclusion *ie, float x, float xm)
{
    const Exclusions *v = &z->_exclusions;
    if (!(STORAGE_INV(v) && !g_grown)) return false;
    const size_t n = VSZ(v);
    if (!(n <= g_n_l && SAME(i, v->m_first) && ie == v->m_last)) return false;
    const size_t j = (size_t)NELEMS(OFF(i));
    if (!(j <= n)) return false;
    if (!(FIN(z->_pos) && FIN(z->_posm) && z->_pos <= x && x < xm && xm <= z->_posm)) return false;
    if (!(zones_wf_all(z) && zones_cost_wf(z))) return false;
    for (size_t k = 0; k < VMAX; ++k) if (k < j && !(ZAT(z, k).xm <= x || ZAT(z, k).x >= xm)) return false;
    const bool cov = zones_covers(z, g_pt);
    if (cov && !g_cov0) return false;
    if (g_cov0 && !(x <= g_pt && g_pt <= xm) && !cov) return false;
    return true;
}
static void remove_loop_enter(const Zones *z, const Exclusion *i, const Exclusion *ie, float x, float xm)
{
    g_first_l = z->_exclusions.m_first; g_cap_l = VCAP(&z->_exclusions); g_n_l = VSZ(&z->_exclusions); g_grown = false;
    __CPROVER_assert(remove_inv(z, i, ie, x, xm), "remove: the loop invariant holds on entry");
}
/* havoc what the loop writes: the live size and every slot of the (unmoved) storage; returns the new index of i */
static size_t remove_loop_havoc(Zones *z)
{
    const size_t n = nondet_size_t(), j = nondet_size_t();
    __CPROVER_assume(n <= g_cap_l && j <= n);
    for (size_t k = 0; k < VMAX; ++k) if (k < g_cap_l) z->_exclusions.m_first[k] = nondet_excl();
    z->_exclusions.m_last = z->_exclusions.m_first + n;
    return j;
}
static void remove_loop_step(const Zones *z, const Exclusion *i, const Exclusion *ie, float x, float xm)
{
    __CPROVER_assert(remove_inv(z, i, ie, x, xm), "remove: the loop invariant is preserved by one iteration");
    __CPROVER_assume(0);
}

/* insert(e), iterator i at index j, e = the part of the range not dealt with yet */
static bool insert_inv(const Zones *z, const Exclusion *i, const Exclusion *ie, const Exclusion *e)
{
    const Exclusions *v = &z->_exclusions;
    if (!STORAGE_INV(v)) return false;
    const size_t n = VSZ(v);
    if (!(SAME(i, v->m_first) && ie == v->m_last)) return false;
    const size_t j = (size_t)NELEMS(OFF(i));
    if (!(j <= n)) return false;
    /* e: only its left end moves (to the right end of the interval just handled); at most one split happens inside the loop,
       and only while e.x is still the entry value */
    if (!(FIN(z->_pos) && FIN(z->_posm) && z->_pos <= g_ex0 && g_ex0 <= e->x && FBITS(e->xm) == FBITS(g_exm0) && g_ex0 < g_exm0 && g_exm0 <= z->_posm && FIN(e->x))) return false;
    if (!(e->x == g_ex0 ? (n == g_n_l && !g_grown) : n <= g_n_l + 1)) return false;
    if (!(zones_wf_all(z) && zones_cost_wf(z))) return false;
    for (size_t k = 0; k < VMAX; ++k) if (k < n) {
        if (k < j && !(ZAT(z, k).xm <= e->x || ZAT(z, k).x >= e->xm)) return false;          /* visited: left of what remains of e, or right of e */
        if (k >= j && e->x != g_ex0 && !(ZAT(z, k).x >= e->x)) return false;                  /* once e.x has moved nothing ahead starts before it */
    }
    if (zones_covers(z, g_pt) != g_cov0) return false;                                         /* the offered set never changes */
#ifdef L2_COST
    if (g_at0 >= 0) {                                                                          /* cost terms around the ghost point */
        const int at = zones_at(z, g_pt);
        const bool in_e = g_ex0 < g_pt && g_pt < g_exm0, out_e = !(g_ex0 <= g_pt && g_pt <= g_exm0);
        if ((in_e || out_e) && at < 0) return false;
        if (in_e && g_pt < e->x && !COST_IS(z, at, e->sm, e->smx, e->c)) return false;        /* already weighted */
        if (in_e && g_pt >= e->x && !COST_SAME(z, at)) return false;                           /* not reached yet */
        if (out_e && !COST_SAME(z, at)) return false;
    }
#endif
    return true;
}
static void insert_loop_enter(const Zones *z, const Exclusion *i, const Exclusion *ie, const Exclusion *e)
{
    g_first_l = z->_exclusions.m_first; g_cap_l = VCAP(&z->_exclusions); g_n_l = VSZ(&z->_exclusions); g_grown = false;
    g_ex0 = e->x; g_exm0 = e->xm;
    __CPROVER_assert(insert_inv(z, i, ie, e), "insert: the loop invariant holds on entry");
}
static size_t insert_loop_havoc(Zones *z, Exclusion *e)
{
    const size_t n = nondet_size_t(), j = nondet_size_t();
    if (g_cap_l < 8 && nondet_bool()) {                   /* the one split inside the loop has already moved the storage */
        Exclusion *const nb = g_spare; g_spare = NULL; __CPROVER_assume(nb != NULL);
        free(z->_exclusions.m_first);
        z->_exclusions.m_first = nb; z->_exclusions.m_end = nb + 8; g_grown = true;
    }
    const size_t cap = g_grown ? 8 : g_cap_l;
    __CPROVER_assume(n <= cap && j <= n);
    for (size_t k = 0; k < VMAX; ++k) if (k < cap) z->_exclusions.m_first[k] = nondet_excl();
    z->_exclusions.m_last = z->_exclusions.m_first + n;
    e->x = nondet_float();
    return j;
}
static void insert_loop_step(const Zones *z, const Exclusion *i, const Exclusion *ie, const Exclusion *e)
{
    __CPROVER_assert(insert_inv(z, i, ie, e), "insert: the loop invariant is preserved by one iteration");
    __CPROVER_assume(0);
}
#endif

#pragma CPROVER check pop

/* ------------------------------------------------------------------ extracted code: Main.h helpers */
/*@extract {'file':'src/inc/Main.h', 'sig': r'inline T min\(const T a, const T b\)', 'emit':'static float min(const float a, const float b)'}@*/
/*@extract {'file':'src/inc/Main.h', 'sig': r'inline T max\(const T a, const T b\)', 'emit':'static float max(const float a, const float b)'}@*/

/* ------------------------------------------------------------------ extracted code: Exclusion */
/*@extract {'file':'src/inc/Intervals.h', 'ctor': True,
   'sig': r'Zones::Exclusion::Exclusion\(float x_, float xm_, float smi, float smxi, float c_\)',
   'emit':'static void Exclusion_ctor(Exclusion *self, float x_, float xm_, float smi, float smxi, float c_)',
   'self':['x','xm','c','sm','smx','open']}@*/
static Exclusion Exclusion_make(float x_, float xm_, float smi, float smxi, float c_)      /* the temporary `Exclusion(...)` */
{ Exclusion r; Exclusion_ctor(&r, x_, xm_, smi, smxi, c_); return r; }

/*@extract {'file':'src/inc/Intervals.h',
   'sig': r'Zones::Exclusion Zones::Exclusion::weighted<XY>\(float xmin, float xmax, float f, float a0,\s*float m, float xi, GR_MAYBE_UNUSED float ai, float c, GR_MAYBE_UNUSED bool nega\)',
   'emit':'Exclusion Exclusion_weighted_XY(float xmin, float xmax, float f, float a0, float m, float xi, float ai, float c, bool nega)',
   'subs':[[r'return Exclusion\(', 'return Exclusion_make(', 1]]}@*/
/*@extract {'file':'src/inc/Intervals.h',
   'sig': r'Zones::Exclusion Zones::Exclusion::weighted<SD>\(float xmin, float xmax, float f, float a0,\s*float m, float xi, float ai,float c, bool nega\)',
   'emit':'Exclusion Exclusion_weighted_SD(float xmin, float xmax, float f, float a0, float m, float xi, float ai, float c, bool nega)',
   'subs':[[r'return Exclusion\(', 'return Exclusion_make(', 1]]}@*/

/*@extract {'file':'src/Intervals.cpp', 'sig': r'Zones::Exclusion\s+Zones::Exclusion::split_at\(float p\)',
   'emit':'Exclusion Exclusion_split_at(Exclusion *self, float p)',
   'subs':[[r'Exclusion r\(\*this\);', 'Exclusion r = *self;', 1]], 'self':['x']}@*/
/*@extract {'file':'src/Intervals.cpp', 'sig': r'void Zones::Exclusion::left_trim\(float p\)',
   'emit':'void Exclusion_left_trim(Exclusion *self, float p)', 'self':['x']}@*/
/*@extract {'file':'src/Intervals.cpp', 'sig': r'Zones::Exclusion & Zones::Exclusion::operator \+= \(Exclusion const & rhs\)',
   'emit':'Exclusion *Exclusion_add(Exclusion *self, const Exclusion *rhs)',
   'subs':[[r'return \*this;', 'return self;', 1]], 'refs':['rhs'], 'self':['c','sm','smx','open']}@*/
/*@extract {'file':'src/Intervals.cpp', 'sig': r'uint8 Zones::Exclusion::outcode\(float val\) const',
   'emit':'uint8 Exclusion_outcode(const Exclusion *self, float val)', 'self':['x','xm']}@*/
/*@extract {'file':'src/Intervals.cpp', 'sig': r'float Zones::Exclusion::cost\(float p\) const',
   'emit':'static float Exclusion_cost(const Exclusion *self, float p)', 'self':['sm','smx','c']}@*/
/*@extract {'file':'src/Intervals.cpp', 'sig': r'float Zones::Exclusion::test_position\(float origin\) const',
   'emit':'float Exclusion_test_position(const Exclusion *self, float origin)',
   'subs':[[r'\bcost\(', 'Exclusion_cost(self, ', 3]], 'self':['x','xm','sm','smx']}@*/
/*@extract {'file':'src/Intervals.cpp', 'sig': r'bool Zones::Exclusion::track_cost\(float & best_cost, float & best_pos, float origin\) const',
   'emit':'bool Exclusion_track_cost(const Exclusion *self, float *best_cost, float *best_pos, float origin)',
   'subs':[[r'\bcost\(', 'Exclusion_cost(self, ', 1], [r'\btest_position\(', 'Exclusion_test_position(self, ', 1]],
   'refs':['best_cost','best_pos'], 'self':['open']}@*/

/* ------------------------------------------------------------------ libc models used by the extracted Vector code
 * CBMC 6.11's built-in memmove model (array_copy/array_replace through a variable-length char buffer) loses all but the
 * first element when source and destination are interior pointers of an array of structs, and its realloc/malloc models
 * with a symbolic size make the back end run out of memory.  The extracted List.h code therefore calls these
 * element-wise models (same semantics, restricted to what Vector<Exclusion> does: whole elements, one block of 8). */
static void *memmove_elems(Exclusion *dest, const Exclusion *src, size_t bytes)
{
    const size_t n = bytes / sizeof(Exclusion);
    __CPROVER_assert(bytes % sizeof(Exclusion) == 0 && n <= VMAX, "memmove model: whole elements, at most VMAX");
    Exclusion tmp[VMAX];
    for (size_t k = 0; k < VMAX; ++k) if (k < n) tmp[k] = src[k];
    for (size_t k = 0; k < VMAX; ++k) if (k < n) dest[k] = tmp[k];
    return dest;
}
static void *realloc_elems(Exclusion *ptr, size_t bytes)
{
    __CPROVER_assert(bytes == 8 * sizeof(Exclusion), "realloc model: bounded universe, growth to one block of 8 elements");
    Exclusion *q = malloc(8 * sizeof(Exclusion)); __CPROVER_assume(q != NULL);
    if (ptr != NULL) {
        const size_t old = OBJSZ(ptr) / sizeof(Exclusion);
        for (size_t k = 0; k < 8; ++k) if (k < old) q[k] = ptr[k];
        free(ptr);
    }
    return q;
}
/* ------------------------------------------------------------------ extracted code: Vector<Exclusion> (src/inc/List.h, T = Exclusion) */
/*@extract {'file':'src/inc/Main.h', 'sig': r'bool checked_mul\(const size_t a, const size_t b, size_t & t\)\s*(?=\{\s*return __builtin_mul_overflow)',
   'emit':'static bool checked_mul(const size_t a, const size_t b, size_t *t)', 'refs':['t']}@*/
/*@extract {'file':'src/inc/List.h', 'sig': r'ptrdiff_t distance\(T\* first, T\* last\)', 'emit':'static ptrdiff_t distance(const Exclusion *first, const Exclusion *last)'}@*/
/*@extract {'file':'src/inc/List.h', 'scope': r'class Vector\s*\{', 'sig': r'(?<!_)iterator\s+begin\(\)', 'emit':'static Exclusion *Vector_begin(const Exclusions *self)', 'self':['m_first']}@*/
/*@extract {'file':'src/inc/List.h', 'scope': r'class Vector\s*\{', 'sig': r'(?<!_)iterator\s+end\(\)', 'emit':'static Exclusion *Vector_end(const Exclusions *self)', 'self':['m_last']}@*/
/*@extract {'file':'src/inc/List.h', 'scope': r'class Vector\s*\{', 'sig': r'size_t\s+size\(\) const', 'emit':'static size_t Vector_size(const Exclusions *self)', 'self':['m_first','m_last']}@*/
/*@extract {'file':'src/inc/List.h', 'scope': r'class Vector\s*\{', 'sig': r'size_t\s+capacity\(\) const', 'emit':'static size_t Vector_capacity(const Exclusions *self)', 'self':['m_first','m_end']}@*/
/*@extract {'file':'src/inc/List.h', 'scope': r'class Vector\s*\{', 'sig': r'(?<!_)reference\s+front\(\)', 'emit':'static Exclusion *Vector_front(Exclusions *self)',
   'subs':[[r'\bsize\(\)', 'Vector_size(self)', 1], [r'return \*begin\(\);', 'return Vector_begin(self);', 1]]}@*/
/*@extract {'file':'src/inc/List.h', 'scope': r'class Vector\s*\{', 'sig': r'const_reference\s+operator \[\] \(size_t n\) const', 'emit':'static const Exclusion *Vector_at(const Exclusions *self, size_t n)',
   'subs':[[r'\bsize\(\)', 'Vector_size(self)', 1], [r'return m_first\[n\];', 'return &m_first[n];', 1]], 'self':['m_first']}@*/
void Vector_reserve(Exclusions *self, size_t n);
/*@extract {'file':'src/inc/List.h', 'scope': r'class Vector\s*\{', 'ctor': True, 'sig': r'(?<![~\w])Vector\(\)', 'emit':'static void Vector_ctor(Exclusions *self)', 'self':['m_first','m_last','m_end']}@*/
/*@extract {'file':'src/inc/List.h', 'sig': r'void Vector<T>::reserve\(size_t n\)', 'emit':'void Vector_reserve(Exclusions *self, size_t n)', 'casts': True,
   'subs':[[r'\bcapacity\(\)', 'Vector_capacity(self)', 1], [r'\bsize\(\)', 'Vector_size(self)', 1], [r'checked_mul\(n,sizeof\(T\), requested\)', 'checked_mul(n, sizeof(Exclusion), &requested)', 1],
           [r'std::abort\(\)', 'abort()', 0], [r'\bT\b', 'Exclusion', 0], [r'\brealloc\(', 'realloc_elems(', 0]],
   'self':['m_first','m_last','m_end']}@*/
Exclusion *Vector_insert_default(Exclusions *self, Exclusion *p, size_t n);
/*@extract {'file':'src/inc/List.h', 'sig': r'typename Vector<T>::iterator Vector<T>::_insert_default\(iterator p, size_t n\)',
   'emit':'Exclusion *Vector_insert_default(Exclusions *self, Exclusion *p, size_t n)',
   'subs':[[r'\bbegin\(\)', 'Vector_begin(self)', 3], [r'\bend\(\)', 'Vector_end(self)', 3], [r'\bsize\(\)', 'Vector_size(self)', 1], [r'\breserve\(', 'Vector_reserve(self, ', 1],
           [r'sizeof\(T\)', 'sizeof(Exclusion)', 1], [r'\bmemmove\(', 'memmove_elems(', 0]],
   'self':['m_last']}@*/
/*@extract {'file':'src/inc/List.h', 'scope': r'class Vector\s*\{', 'sig': r'(?<!_)iterator\s+insert\(iterator p, const T & x\)', 'emit':'Exclusion *Vector_insert(Exclusions *self, Exclusion *p, const Exclusion x)',
   'subs':[[r'_insert_default\(', 'Vector_insert_default(self, ', 1], [r'new \(p\) T\(x\);', '*p = x;', 1]]}@*/
Exclusion *Vector_erase_range(Exclusions *self, Exclusion *first, Exclusion *last);
/*@extract {'file':'src/inc/List.h', 'sig': r'typename Vector<T>::iterator Vector<T>::erase\(iterator first, iterator last\)',
   'emit':'Exclusion *Vector_erase_range(Exclusions *self, Exclusion *first, Exclusion *last)',
   'subs':[[r'e->~T\(\);', '{ /* trivial destructor */ }', 1], [r'\bend\(\)', 'Vector_end(self)', 1], [r'sizeof\(T\)', 'sizeof(Exclusion)', 1], [r'\bmemmove\(', 'memmove_elems(', 0]],
   'self':['m_last']}@*/
/*@extract {'file':'src/inc/List.h', 'scope': r'class Vector\s*\{', 'sig': r'(?<!_)iterator\s+erase\(iterator p\)', 'emit':'Exclusion *Vector_erase(Exclusions *self, Exclusion *p)',
   'subs':[[r'\berase\(p, p\+1\)', 'Vector_erase_range(self, p, p+1)', 1]]}@*/
/*@extract {'file':'src/inc/List.h', 'scope': r'class Vector\s*\{', 'sig': r'void\s+clear\(\)', 'emit':'void Vector_clear(Exclusions *self)',
   'subs':[[r'\berase\(begin\(\), end\(\)\)', 'Vector_erase_range(self, Vector_begin(self), Vector_end(self))', 1]]}@*/
/*@extract {'file':'src/inc/List.h', 'scope': r'class Vector\s*\{', 'sig': r'void\s+push_back\(const T &v\)', 'emit':'void Vector_push_back(Exclusions *self, const Exclusion v)',
   'subs':[[r'\breserve\(size\(\)\+1\)', 'Vector_reserve(self, Vector_size(self)+1)', 1], [r'new \(m_last\+\+\) T\(v\);', '*m_last++ = v;', 1]],
   'self':['m_last','m_end']}@*/

/* ------------------------------------------------------------------ extracted code: Zones */
void Zones_insert_inv(Zones *self, Exclusion e);
void Zones_remove_inv(Zones *self, float x, float xm);
#ifdef L2_INV
#define Zones_remove_L2 Zones_remove_inv
#define Zones_insert_L2 Zones_insert_inv
#else
#define Zones_remove_L2 Zones_remove
#define Zones_insert_L2 Zones_insert
#endif
/*@extract {'file':'src/Intervals.cpp', 'sig': r'bool separated\(float a, float b\)', 'emit':'static bool separated(float a, float b)'}@*/
void Zones_insert(Zones *self, Exclusion e);
void Zones_remove(Zones *self, float x, float xm);
/*@extract {'file':'src/Intervals.cpp', 'sig': r'void Zones::insert\(Exclusion e\)', 'emit':'void Zones_insert(Zones *self, Exclusion e)',
   'subs':[[r'_exclusions\.(begin|end|size|clear)\(\)', r'Vector_\1(&self->_exclusions)', 0], [r'_exclusions\.(insert|erase)\(', r'Vector_\1_g(&self->_exclusions, ', 0], [r'_exclusions\.push_back\(', r'Vector_push_back(&self->_exclusions, ', 0],
           [r'\be\.outcode\(', 'Exclusion_outcode_g(&e, ', 2], [r'\*i \+= e;', 'Exclusion_add_g(i, &e);', 3], [r'\*\+\+i \+= e;', 'Exclusion_add_g(++i, &e);', 1],
           [r'\be\.left_trim\(', 'Exclusion_left_trim(&e, ', 2], [r'\bi->split_at\(', 'Exclusion_split_at(i, ', 4]],
   'self':['_pos','_posm']}@*/
/*@extract {'file':'src/Intervals.cpp', 'sig': r'void Zones::remove\(float x, float xm\)', 'emit':'void Zones_remove(Zones *self, float x, float xm)',
   'subs':[[r'_exclusions\.(begin|end|size|clear)\(\)', r'Vector_\1(&self->_exclusions)', 0], [r'_exclusions\.(insert|erase)\(', r'Vector_\1_g(&self->_exclusions, ', 0], [r'_exclusions\.push_back\(', r'Vector_push_back(&self->_exclusions, ', 0],
           [r'\bi->outcode\(', 'Exclusion_outcode_g(i, ', 2], [r'\bi->left_trim\(', 'Exclusion_left_trim(i, ', 1], [r'\bi->split_at\(', 'Exclusion_split_at(i, ', 1]],
   'self':['_pos','_posm']}@*/
/* The same two bodies once more, with the loop header rewritten (one generic rule on `for (INIT; COND; STEP)`) into
   INIT; X_LOOP_PRE; for (int once_ = 1; once_ && (COND); X_LOOP_STEP(STEP)): the classic loop-invariant encoding
   (assert the invariant on entry, havoc the loop-modified state, assume the invariant, run ONE iteration of the real
   body, assert the invariant after the real STEP, stop).  goto-instrument --apply-loop-contracts does exactly this but
   cannot be used here (FRAMEWORK item 5: loop contracts that write through pointers exhaust memory).  Without L2_INV the
   macros make it the ordinary loop. */
#ifdef L2_INV
#define REMOVE_LOOP_PRE      do { remove_loop_enter(self, i, ie, x, xm); i = self->_exclusions.m_first + remove_loop_havoc(self); ie = self->_exclusions.m_last; __CPROVER_assume(remove_inv(self, i, ie, x, xm)); } while (0)
#define REMOVE_LOOP_STEP(s)  ((s), remove_loop_step(self, i, ie, x, xm), once_ = 0)
#define INSERT_LOOP_PRE      do { insert_loop_enter(self, i, ie, &e); i = self->_exclusions.m_first + insert_loop_havoc(self, &e); ie = self->_exclusions.m_last; __CPROVER_assume(insert_inv(self, i, ie, &e)); } while (0)
#define INSERT_LOOP_STEP(s)  ((s), insert_loop_step(self, i, ie, &e), once_ = 0)
#else
#define REMOVE_LOOP_PRE      (void)0
#define REMOVE_LOOP_STEP(s)  ((s), once_ = 1)
#define INSERT_LOOP_PRE      (void)0
#define INSERT_LOOP_STEP(s)  ((s), once_ = 1)
#endif
void Zones_insert_inv(Zones *self, Exclusion e);
void Zones_remove_inv(Zones *self, float x, float xm);
/*@extract {'file':'src/Intervals.cpp', 'sig': r'void Zones::insert\(Exclusion e\)', 'emit':'void Zones_insert_inv(Zones *self, Exclusion e)',
   'subs':[[r'for \((iterator i = [^;]*);([^;]*);([^)]*)\)', r'\1; INSERT_LOOP_PRE; for (int once_ = 1; once_ && (\2); INSERT_LOOP_STEP(\3))', 0], [r'_exclusions\.(begin|end|size|clear)\(\)', r'Vector_\1(&self->_exclusions)', 0], [r'_exclusions\.(insert|erase)\(', r'Vector_\1_g(&self->_exclusions, ', 0], [r'_exclusions\.push_back\(', r'Vector_push_back(&self->_exclusions, ', 0],
           [r'\be\.outcode\(', 'Exclusion_outcode_g(&e, ', 2], [r'\*i \+= e;', 'Exclusion_add_g(i, &e);', 3], [r'\*\+\+i \+= e;', 'Exclusion_add_g(++i, &e);', 1],
           [r'\be\.left_trim\(', 'Exclusion_left_trim(&e, ', 2], [r'\bi->split_at\(', 'Exclusion_split_at(i, ', 4]],
   'self':['_pos','_posm']}@*/
/*@extract {'file':'src/Intervals.cpp', 'sig': r'void Zones::remove\(float x, float xm\)', 'emit':'void Zones_remove_inv(Zones *self, float x, float xm)',
   'subs':[[r'for \((iterator i = [^;]*);([^;]*);([^)]*)\)', r'\1; REMOVE_LOOP_PRE; for (int once_ = 1; once_ && (\2); REMOVE_LOOP_STEP(\3))', 0], [r'_exclusions\.(begin|end|size|clear)\(\)', r'Vector_\1(&self->_exclusions)', 0], [r'_exclusions\.(insert|erase)\(', r'Vector_\1_g(&self->_exclusions, ', 0], [r'_exclusions\.push_back\(', r'Vector_push_back(&self->_exclusions, ', 0],
           [r'\bi->outcode\(', 'Exclusion_outcode_g(i, ', 2], [r'\bi->left_trim\(', 'Exclusion_left_trim(i, ', 1], [r'\bi->split_at\(', 'Exclusion_split_at(i, ', 1]],
   'self':['_pos','_posm']}@*/
/*@extract {'file':'src/Intervals.cpp', 'sig': r'Zones::const_iterator Zones::find_exclusion_under\(float x\) const', 'emit':'const Exclusion *Zones_find_exclusion_under(const Zones *self, float x)',
   'subs':[[r'_exclusions\.(begin|end|size|clear)\(\)', r'Vector_\1(&self->_exclusions)', 0], [r'_exclusions\[p\]\.outcode\(', 'Exclusion_outcode_g(Vector_at(&self->_exclusions, p), ', 1]]}@*/
/*@extract {'file':'src/Intervals.cpp', 'sig': r'float Zones::closest\(float origin, float & cost\) const', 'emit':'float Zones_closest(const Zones *self, float origin, float *cost)',
   'subs':[[r'_exclusions\.(begin|end|size|clear)\(\)', r'Vector_\1(&self->_exclusions)', 0], [r'std::numeric_limits<float>::max\(\)', 'FLT_MAX', 2],
           [r'\bfind_exclusion_under\(', 'Zones_find_exclusion_under(self, ', 1], [r'\bi->track_cost\(best_c, best_x, origin\)', 'Exclusion_track_cost_g(i, &best_c, &best_x, origin)', 2]],
   'refs':['cost']}@*/
/*@extract {'file':'src/inc/Intervals.h', 'ctor': True, 'sig': r'Zones::Zones\(\)', 'emit':'static void Zones_ctor(Zones *self)',
   'subs':[[r'_exclusions\.reserve\(', 'Vector_reserve(&self->_exclusions, ', 1]], 'self':['_margin_len','_margin_weight','_pos','_posm']}@*/
/*@extract {'file':'src/inc/Intervals.h', 'sig': r'void Zones::initialise\(float xmin, float xmax, float margin_len,\s*float margin_weight, float a0\)', 'emit':'void Zones_initialise_XY(Zones *self, float xmin, float xmax, float margin_len, float margin_weight, float a0)',
   'subs':[[r'_exclusions\.(begin|end|size|clear)\(\)', r'Vector_\1(&self->_exclusions)', 0], [r'_exclusions\.(insert|erase)\(', r'Vector_\1_g(&self->_exclusions, ', 0], [r'_exclusions\.push_back\(', r'Vector_push_back(&self->_exclusions, ', 0],
           [r'Exclusion::weighted<O>\(', 'Exclusion_weighted_XY(', 1], [r'_exclusions\.front\(\)\.', 'Vector_front(&self->_exclusions)->', 1]],
   'self':['_margin_len','_margin_weight','_pos','_posm']}@*/
/*@extract {'file':'src/inc/Intervals.h', 'sig': r'void Zones::initialise\(float xmin, float xmax, float margin_len,\s*float margin_weight, float a0\)', 'emit':'void Zones_initialise_SD(Zones *self, float xmin, float xmax, float margin_len, float margin_weight, float a0)',
   'subs':[[r'_exclusions\.(begin|end|size|clear)\(\)', r'Vector_\1(&self->_exclusions)', 0], [r'_exclusions\.(insert|erase)\(', r'Vector_\1_g(&self->_exclusions, ', 0], [r'_exclusions\.push_back\(', r'Vector_push_back(&self->_exclusions, ', 0],
           [r'Exclusion::weighted<O>\(', 'Exclusion_weighted_SD(', 1], [r'_exclusions\.front\(\)\.', 'Vector_front(&self->_exclusions)->', 1]],
   'self':['_margin_len','_margin_weight','_pos','_posm']}@*/
/*@extract {'file':'src/inc/Intervals.h', 'sig': r'void Zones::weighted\(float xmin, float xmax, float f, float a0,\s*float m, float xi, float ai, float c, bool nega\)', 'emit':'void Zones_weighted_XY(Zones *self, float xmin, float xmax, float f, float a0, float m, float xi, float ai, float c, bool nega)',
   'subs':[[r'\binsert\(Exclusion::weighted<O>\(', 'Zones_insert_L2(self, Exclusion_weighted_XY(', 1]]}@*/
/*@extract {'file':'src/inc/Intervals.h', 'sig': r'void Zones::weighted\(float xmin, float xmax, float f, float a0,\s*float m, float xi, float ai, float c, bool nega\)', 'emit':'void Zones_weighted_SD(Zones *self, float xmin, float xmax, float f, float a0, float m, float xi, float ai, float c, bool nega)',
   'subs':[[r'\binsert\(Exclusion::weighted<O>\(', 'Zones_insert_L2(self, Exclusion_weighted_SD(', 1]]}@*/
/*@extract {'file':'src/inc/Intervals.h', 'sig': r'void Zones::weightedAxis\(int axis, float xmin, float xmax, float f, float a0,\s*float m, float xi, float ai, float c, bool nega\)', 'emit':'void Zones_weightedAxis(Zones *self, int axis, float xmin, float xmax, float f, float a0, float m, float xi, float ai, float c, bool nega)',
   'subs':[[r'\bweighted<(XY|SD)>\(', r'Zones_weighted_\1(self, ', 2]]}@*/
/*@extract {'file':'src/inc/Intervals.h', 'sig': r'void Zones::exclude\(float xmin, float xmax\)', 'emit':'void Zones_exclude(Zones *self, float xmin, float xmax)',
   'subs':[[r'\bremove\(', 'Zones_remove_L2(self, ', 1]]}@*/
/*@extract {'file':'src/Intervals.cpp', 'sig': r'void Zones::exclude_with_margins\(float xmin, float xmax, int axis\)', 'emit':'void Zones_exclude_with_margins(Zones *self, float xmin, float xmax, int axis)',
   'subs':[[r'\bremove\(', 'Zones_remove_L2(self, ', 1], [r'\bweightedAxis\(', 'Zones_weightedAxis(self, ', 2]],
   'self':['_margin_len','_margin_weight']}@*/

#ifndef L2_BY_CONTRACT
Exclusion *Vector_insert_g(Exclusions *v, Exclusion *p, const Exclusion x) { return Vector_insert(v, p, x); }
Exclusion *Vector_erase_g(Exclusions *v, Exclusion *p) { return Vector_erase(v, p); }
uint8 Exclusion_outcode_g(const Exclusion *self, float val) { return Exclusion_outcode(self, val); }
Exclusion *Exclusion_add_g(Exclusion *self, const Exclusion *rhs) { return Exclusion_add(self, rhs); }
bool Exclusion_track_cost_g(const Exclusion *self, float *best_cost, float *best_pos, float origin) { return Exclusion_track_cost(self, best_cost, best_pos, origin); }
#endif

/* ------------------------------------------------------------------ harnesses */
static float f_of_bits(uint32 b) { union { uint32 u; float f; } v; v.u = b; return v.f; }     /* witness floats are carried as bit patterns */

static Exclusion *mk_excl(float x, float xm, float c, float sm, float smx)
{
    Exclusion *e = malloc(sizeof(Exclusion)); __CPROVER_assume(e != NULL);
    e->x = x; e->xm = xm; e->c = c; e->sm = sm; e->smx = smx; e->open = nondet_bool();
    return e;
}

#ifdef UNIT_c17_excl_ops
void h_excl_ops(void)
{
    uint32 w_x = nondet_u32(), w_xm = nondet_u32(), w_p = nondet_u32();
    Exclusion *e = mk_excl(f_of_bits(w_x), f_of_bits(w_xm), nondet_float(), nondet_float(), nondet_float());
    Exclusion *rhs = mk_excl(nondet_float(), nondet_float(), nondet_float(), nondet_float(), nondet_float());
    float p = f_of_bits(w_p);
    int which = nondet_int();
    g_e = e; g_e0 = *e;
    if (which == 0) { uint8 oc = Exclusion_outcode(e, p); (void)oc; }
    else if (which == 1) { Exclusion r = Exclusion_split_at(e, p); (void)r; }
    else if (which == 2) Exclusion_left_trim(e, p);
    else Exclusion_add(e, rhs);
    CANARY();
}
#endif

#ifdef UNIT_c17_test_position
void h_test_position(void)
{
    uint32 w_x = nondet_u32(), w_xm = nondet_u32(), w_c = nondet_u32(), w_sm = nondet_u32(), w_smx = nondet_u32(), w_origin = nondet_u32();
    Exclusion *e = mk_excl(f_of_bits(w_x), f_of_bits(w_xm), f_of_bits(w_c), f_of_bits(w_sm), f_of_bits(w_smx));
    float r = Exclusion_test_position(e, f_of_bits(w_origin));
    (void)r;
    CANARY();
}
#endif

#ifdef UNIT_c17_track_cost
void h_track_cost(void)
{
    Exclusion *e = mk_excl(nondet_float(), nondet_float(), nondet_float(), nondet_float(), nondet_float());
    float *bc = malloc(sizeof(float)), *bp = malloc(sizeof(float)); __CPROVER_assume(bc && bp);
    *bc = nondet_float(); *bp = nondet_float();
    g_bc = bc; g_bp = bp; g_bc0 = *bc; g_bp0 = *bp;
    bool r = Exclusion_track_cost(e, bc, bp, nondet_float());
    (void)r;
    CANARY();
}
#endif

#ifdef UNIT_c17_weighted
void h_weighted(void)
{
    Exclusion a = Exclusion_weighted_XY(nondet_float(), nondet_float(), nondet_float(), nondet_float(), nondet_float(), nondet_float(), nondet_float(), nondet_float(), nondet_bool());
    Exclusion b = Exclusion_weighted_SD(nondet_float(), nondet_float(), nondet_float(), nondet_float(), nondet_float(), nondet_float(), nondet_float(), nondet_float(), nondet_bool());
    (void)a; (void)b;
    CANARY();
}
#endif

/* ------------------------------------------------------------------ harness storage: ONE heap object of exactly CAPV elements
 * (a compile-time constant per unit: symbolic-size objects and pointers that range over several candidate objects make the
 * back end run out of memory).  CAPV = 8 is what Zones() reserves; CAPV = 4 is a block in which the next split must grow. */
static Exclusion *alloc_elems(void)
{
    Exclusion *a = malloc(CAPV * sizeof(Exclusion)); __CPROVER_assume(a != NULL);
    for (size_t k = 0; k < CAPV; ++k) a[k].open = nondet_bool();          /* FRAMEWORK item 12: bool fields from malloc */
    return a;
}

#if defined UNIT_c17_vec_insert_c8 || defined UNIT_c17_vec_insert_c4 || defined UNIT_c17_vec_erase_c8 || defined UNIT_c17_vec_erase_c4
static Exclusions *mk_vector(size_t n)
{
    Exclusions *v = malloc(sizeof(Exclusions)); __CPROVER_assume(v != NULL);
    Exclusion *a = alloc_elems();
    v->m_first = a; v->m_last = a + n; v->m_end = a + CAPV;
    return v;
}
void h_vec_insert(void)
{
    size_t n = nondet_size_t(), idx = nondet_size_t();
    __CPROVER_assume(n < VMAX && n <= CAPV && idx <= n);
    Exclusions *v = mk_vector(n);
    Exclusion x; x.open = nondet_bool();
    vec_snapshot(v, v->m_first + idx);
    Exclusion *r = Vector_insert(v, v->m_first + idx, x);
    (void)r;
    CANARY();
}
void h_vec_erase(void)
{
    size_t n = nondet_size_t(), idx = nondet_size_t();
    __CPROVER_assume(n <= CAPV && idx < n);
    Exclusions *v = mk_vector(n);
    vec_snapshot(v, v->m_first + idx);
    Exclusion *r = Vector_erase(v, v->m_first + idx);
    (void)r;
    CANARY();
}
#endif

#ifdef UNIT_c17_vec_stubs
void h_vec_stubs(void)
{
    const bool small = nondet_bool(), ins = nondet_bool();
    size_t n = nondet_size_t(), idx = nondet_size_t();
    const size_t cap = small ? 4 : 8;
    __CPROVER_assume(n <= cap && (ins ? (n < VMAX && idx <= n) : idx < n));
    Exclusions *v = malloc(sizeof(Exclusions)); __CPROVER_assume(v != NULL);
    Exclusion *a = small ? malloc(4 * sizeof(Exclusion)) : malloc(8 * sizeof(Exclusion)); __CPROVER_assume(a != NULL);
    for (size_t k = 0; k < 8; ++k) if (k < cap) a[k].open = nondet_bool();
    v->m_first = a; v->m_last = a + n; v->m_end = a + cap;
    Exclusion x; x.open = nondet_bool();
    Exclusion *const p = a + idx;
    g_spare = malloc(8 * sizeof(Exclusion)); __CPROVER_assume(g_spare != NULL);
    vec_snapshot(v, p);                                   /* content before the call, for the element clauses */
    if (ins) {
        Exclusion *r = Vector_insert_g(v, p, x);
        __CPROVER_assert(VEC_INSERT_POST_SHAPE(v, r), "stub insert: shape clause of the contract");
        __CPROVER_assert(VEC_INSERT_POST_ELEMS(v, x), "stub insert: element clause of the contract");
        __CPROVER_assert(VEC_INSERT_POST_STORE(v, g_last_freed == g_first0), "stub insert: storage clause of the contract");
    } else {
        Exclusion *r = Vector_erase_g(v, p);
        __CPROVER_assert(VEC_ERASE_POST_SHAPE(v, r, p), "stub erase: shape clause of the contract");
        __CPROVER_assert(VEC_ERASE_POST_ELEMS(v), "stub erase: element clause of the contract");
    }
    CANARY();
}
#endif

/* ------------------------------------------------------------------ level 2: an arbitrary interval set with at most NV intervals */
static Zones *mk_zones(size_t n, const uint32 *bx, const uint32 *bxm, const uint32 *bc, const uint32 *bsm, const uint32 *bsmx, uint32 bpos, uint32 bposm)
{
    Zones *z = malloc(sizeof(Zones)); __CPROVER_assume(z != NULL);
    Exclusion *a = alloc_elems();
    for (size_t k = 0; k < NV; ++k)
        if (k < n) { a[k].x = f_of_bits(bx[k]); a[k].xm = f_of_bits(bxm[k]); a[k].c = f_of_bits(bc[k]); a[k].sm = f_of_bits(bsm[k]); a[k].smx = f_of_bits(bsmx[k]); }
    z->_exclusions.m_first = a; z->_exclusions.m_last = a + n; z->_exclusions.m_end = a + CAPV;
    z->_pos = f_of_bits(bpos); z->_posm = f_of_bits(bposm);
    z->_margin_len = nondet_float(); z->_margin_weight = nondet_float();
#ifdef L2_BY_CONTRACT
    g_spare = malloc(8 * sizeof(Exclusion)); __CPROVER_assume(g_spare != NULL);
#endif
    return z;
}
/* inputs (bit patterns, so that the witness is exact), the ghost point and what was true of it before the call */
#define ZONES_INPUT \
    size_t w_n = nondet_size_t(); \
    uint32 w_x[NV], w_xm[NV], w_c[NV], w_sm[NV], w_smx[NV], w_pos = nondet_u32(), w_posm = nondet_u32(), w_a = nondet_u32(), w_b = nondet_u32(), w_pt = nondet_u32(); \
    __CPROVER_assume(w_n <= NV && w_n <= CAPV); \
    Zones *z = mk_zones(w_n, w_x, w_xm, w_c, w_sm, w_smx, w_pos, w_posm); \
    const float a = f_of_bits(w_a), b = f_of_bits(w_b); \
    g_pt = f_of_bits(w_pt); __CPROVER_assume(NNAN(g_pt));
#define GHOST_BEFORE \
    g_cov0 = zones_covers(z, g_pt); g_at0 = zones_at(z, g_pt); if (g_at0 >= 0) g_at0v = ZAT(z, g_at0); \
    const float pos0 = z->_pos, posm0 = z->_posm, ml0 = z->_margin_len, mw0 = z->_margin_weight; const Zones *const z0 = z;
/* frame: the object holds the same bounds and margins; NaN-safe (bit-wise) */
#define FRAME_OK (FBITS(z->_pos) == FBITS(pos0) && FBITS(z->_posm) == FBITS(posm0) && FBITS(z->_margin_len) == FBITS(ml0) && FBITS(z->_margin_weight) == FBITS(mw0))

#if defined UNIT_c17_remove_c8 || defined UNIT_c17_remove_c4
void h_remove(void)
{
    ZONES_INPUT
    __CPROVER_assume(REMOVE_PRE(z, a, b));
    GHOST_BEFORE
    Zones_remove_L2(z, a, b);
    __CPROVER_assert(REMOVE_POST_WF(z), "remove: the set stays sorted, disjoint and inside its bounds");
    const bool cov = zones_covers(z, g_pt);
    __CPROVER_assert(REMOVE_POST_EXCL(cov, a, b), "remove: no position of the excluded range (x,xm) is offered");
    __CPROVER_assert(REMOVE_POST_MONO(cov), "remove: nothing that was excluded before is offered again");
    __CPROVER_assert(REMOVE_POST_KEEP(cov, a, b), "remove: every free position outside [x,xm] stays free");
    __CPROVER_assert(zones_cost_wf(z), "remove: weight sums stay positive");
    __CPROVER_assert(FRAME_OK, "remove: bounds and margins are not written");
    CANARY();
}
#endif

#if defined UNIT_c17_insert_c8 || defined UNIT_c17_insert_c4
void h_insert(void)
{
    ZONES_INPUT
    uint32 w_ec = nondet_u32(), w_esm = nondet_u32(), w_esmx = nondet_u32();
    Exclusion e; e.x = a; e.xm = b; e.c = f_of_bits(w_ec); e.sm = f_of_bits(w_esm); e.smx = f_of_bits(w_esmx); e.open = nondet_bool();
    __CPROVER_assume(INSERT_PRE(z, e));
    GHOST_BEFORE
    __CPROVER_assume(g_at0 < 0 || (FIN(g_at0v.c) && FIN(g_at0v.smx)));       /* the exact-sum clause compares with ==; NaN/inf sums are excluded from it */
    Zones_insert_L2(z, e);
    __CPROVER_assert(REMOVE_POST_WF(z), "insert: the set stays sorted, disjoint and inside its bounds");
    const bool cov = zones_covers(z, g_pt);
    __CPROVER_assert(INSERT_POST_SAME(cov), "insert: the set of offered positions is unchanged (nothing re-opened, nothing lost)");
#ifdef L2_COST
    const int at = zones_at(z, g_pt);
    __CPROVER_assert(INSERT_POST_ADD(z, at, e), "insert: inside e the cost terms grow by exactly e");
    __CPROVER_assert(INSERT_POST_OUT(z, at, e), "insert: outside e the cost terms are unchanged");
#endif
    __CPROVER_assert(zones_cost_wf(z), "insert: weight sums stay positive");
    __CPROVER_assert(FRAME_OK, "insert: bounds and margins are not written");
    CANARY();
}
#endif

#ifdef UNIT_c17_exclude_margins
void h_exclude_margins(void)
{
    ZONES_INPUT
    uint32 w_mlen = nondet_u32(), w_mwt = nondet_u32(); int w_axis = nondet_int();
    z->_margin_len = f_of_bits(w_mlen); z->_margin_weight = f_of_bits(w_mwt);
    __CPROVER_assume(REMOVE_PRE(z, a, b) && FIN(a) && FIN(b) && FIN(z->_margin_len) && FIN(z->_margin_weight) && z->_margin_weight >= 0);
    GHOST_BEFORE
    Zones_exclude_with_margins(z, a, b, w_axis);
    __CPROVER_assert(REMOVE_POST_WF(z), "exclude_with_margins: the set stays sorted, disjoint and inside its bounds");
    const bool cov = zones_covers(z, g_pt);
    __CPROVER_assert(REMOVE_POST_EXCL(cov, a, b), "exclude_with_margins: no position of the excluded range is offered");
    __CPROVER_assert(REMOVE_POST_MONO(cov), "exclude_with_margins: nothing that was excluded before is offered again");
    __CPROVER_assert(REMOVE_POST_KEEP(cov, a, b), "exclude_with_margins: every free position outside [xmin,xmax] stays free");
    __CPROVER_assert(zones_cost_wf(z), "exclude_with_margins: weight sums stay positive");
    __CPROVER_assert(FRAME_OK, "exclude_with_margins: bounds and margins are not written");
    CANARY();
}
#endif

#ifdef UNIT_c17_closest
void h_closest(void)
{
    ZONES_INPUT
    (void)b;
    __CPROVER_assume(ZONES_OK(z) && zones_pos_pre(z) && FIN(a));
    GHOST_BEFORE
    vec_snapshot(&z->_exclusions, z->_exclusions.m_first);
    float *cost = malloc(sizeof(float)); __CPROVER_assume(cost != NULL);
    const float r = Zones_closest(z, a, cost);
    __CPROVER_assert(*cost == -1 || zones_covers(z, r), "closest: either no candidate (cost -1) or a position inside a free interval");
    __CPROVER_assert(w_n != 0 || *cost == -1, "closest: an empty set has no candidate");
    __CPROVER_assert(SNAP_OK(&z->_exclusions) && FRAME_OK, "closest: the set is not written");
    CANARY();
}
#endif

#ifdef UNIT_c17_find_under
void h_find_under(void)
{
    ZONES_INPUT
    (void)b;
    __CPROVER_assume(ZONES_OK(z) && FIN(a));
    const Exclusion *it = Zones_find_exclusion_under(z, a);
    __CPROVER_assert(SAME(it, z->_exclusions.m_first) && OFF(it) >= 0 && OFF(it) <= OFF(z->_exclusions.m_last) && OFF(it) % ESZ == 0, "find_exclusion_under: result in [begin,end]");
    const size_t idx = (size_t)NELEMS(OFF(it));
    for (size_t k = 0; k < NV; ++k) if (k < w_n) {
        if (k < idx) __CPROVER_assert(ZAT(z, k).xm <= a, "find_exclusion_under: intervals before the result end at or before x");
        if (k > idx) __CPROVER_assert(ZAT(z, k).x > a, "find_exclusion_under: intervals after the result start after x");
        if (k == idx) __CPROVER_assert((ZAT(z, k).x <= a && a < ZAT(z, k).xm) || ZAT(z, k).x > a, "find_exclusion_under: the result contains x or starts after x");
    }
    CANARY();
}
#endif

#ifdef UNIT_c17_degenerate_axis
void h_degenerate(void)
{
    uint32 w_pos = nondet_u32(), w_a = nondet_u32(), w_b = nondet_u32();
    const float P = f_of_bits(w_pos), a = f_of_bits(w_a), b = f_of_bits(w_b);
    __CPROVER_assume(FIN(P) && a < P && P < b);
    Zones *z = malloc(sizeof(Zones)); __CPROVER_assume(z != NULL);
    Exclusion *s0 = alloc_elems();
    z->_exclusions.m_first = s0; z->_exclusions.m_last = s0; z->_exclusions.m_end = s0 + CAPV;
    Zones_initialise_XY(z, P, P, 0, 0, 0);                    /* the axis of a limit rectangle of zero width */
    Zones_remove(z, a, b);                                    /* a neighbour excludes a range around P */
    __CPROVER_assert(!zones_covers(z, P), "degenerate axis: the excluded position P is no longer offered");
    CANARY();
}
#endif

#ifdef UNIT_c17_initialise
/* Zones() itself (reserve(8) on the empty vector) is extracted (Zones_ctor, Vector_ctor) but not exercised: the empty
   Vector is three null pointers and size()/capacity() subtract them - 0 in C++ ([expr.add]), flagged by CBMC's C rules. */
void h_initialise(void)
{
    ZONES_INPUT
    const bool w_sd = nondet_bool();
    __CPROVER_assume(VEC_OK(&z->_exclusions));
    const float ml = nondet_float(), mw = nondet_float(), a0 = nondet_float();
    __CPROVER_assume(NNAN(a) && NNAN(b));
    if (w_sd) Zones_initialise_SD(z, a, b, ml, mw, a0); else Zones_initialise_XY(z, a, b, ml, mw, a0);
    __CPROVER_assert(VEC_OK(&z->_exclusions) && VCAP(&z->_exclusions) == CAPV && VSZ(&z->_exclusions) == 1, "initialise: exactly one interval, storage kept");
    __CPROVER_assert(ZAT(z, 0).x == a && ZAT(z, 0).xm == b && ZAT(z, 0).open, "initialise: the interval is the open range [xmin,xmax]");
    __CPROVER_assert(ZAT(z, 0).sm >= 0.5f, "initialise: the initial weight sum is at least 0.5");
    __CPROVER_assert(z->_pos == a && z->_posm == b && FBITS(z->_margin_len) == FBITS(ml) && FBITS(z->_margin_weight) == FBITS(mw), "initialise: bounds and margins stored");
    __CPROVER_assert(!(a < b) || zones_wf(z), "initialise: sorted, disjoint, non-empty and in bounds for a non-degenerate range xmin < xmax");
    CANARY();
}
#endif
