/* C17 (interval-set clause) - the cost-ordered set of free intervals searched by the collision fixer stays sorted,
 * disjoint, inside its bounds, and never offers a position that was excluded.
 *
 * Functions under contract (extracted from /repo on every run):
 *   Zones::Exclusion::{split_at, left_trim, operator+=, outcode, cost, test_position, track_cost}     src/Intervals.cpp
 *   Zones::Exclusion::Exclusion, Exclusion::weighted<XY>, weighted<SD>, Zones::initialise<XY|SD>,
 *   Zones::weighted<XY|SD>, Zones::weightedAxis, Zones::exclude                                        src/inc/Intervals.h
 *   Zones::insert, Zones::remove, Zones::exclude_with_margins, Zones::find_exclusion_under, Zones::closest, separated
 *                                                                                                      src/Intervals.cpp
 *   Vector<Exclusion>::{begin,end,size,capacity,front,operator[],reserve,_insert_default,insert(p,x),erase(p),
 *   erase(first,last),clear,push_back}, distance                                                       src/inc/List.h
 *   min, max, checked_mul (HAVE_BUILTIN_OVERFLOW variant)                                              src/inc/Main.h
 *
 * Scope (DESIGN.md, C17): clause 3 of the property only.  Clauses 1 and 2 (limit rectangle, resolved => octaboxes
 * disjoint) are statements about ~40 single-precision expressions of ShiftCollider::mergeSlot/initSlot in real
 * arithmetic; they are not decided here (src/Collider.cpp is not under contract).
 *
 * Float model: CBMC's bit-precise IEEE-754 single precision, round to nearest (x86-64 SSE, FLT_EVAL_METHOD 0).
 * Tracing: the non-tracing build (GRAPHITE2_NTRACING); with tracing addDebug/removeDebug only append to a debug log
 * when a json sink is attached.
 * By-value parameters: Vector::insert(iterator, const T&) and push_back(const T&) take a by-value element here; every
 * caller in Intervals.cpp/.h passes a temporary (the result of split_at / weighted<>), never an element of the vector.
 */
#include "types.h"
#include <float.h>
#define assert(x) __CPROVER_assert((x), "source assert: " #x)
#define GRAPHITE2_NTRACING 1

#ifndef NV
#define NV 4            /* bounded units: largest number of intervals present before the operation */
#endif

/*@unit {'name':'c17_excl_ops', 'props':['C17'], 'entry':'h_excl_ops',
         'enforce':['Exclusion_split_at','Exclusion_left_trim','Exclusion_add','Exclusion_outcode'],
         'replay':'c17_zones', 'witness_defines':[], 'witness_vars':['w_x','w_xm','w_p'],
         'claims':'Exclusion::outcode is the 2-bit position code (bit0: p left of x, bit1: p at or right of xm) for all finite operands; split_at(p) cuts [x,xm] into [x,p] (returned) and [p,xm] (kept) with the cost terms copied; left_trim moves only x; operator+= adds the three cost terms, leaves x and xm alone and never lowers sm when the added weight is non-negative'}@*/
/*@unit {'name':'c17_test_position', 'props':['C17'], 'entry':'h_test_position', 'enforce':'Exclusion_test_position',
         'replay':'c17_zones', 'witness_defines':[], 'witness_vars':['w_x','w_xm','w_c','w_sm','w_smx','w_origin'],
         'claims':'Exclusion::test_position returns a position inside the closed interval [x,xm] for every interval with x <= xm, non-zero weight sum (either sign), finite smx and finite origin: a single interval never offers a point outside itself'}@*/
/*@unit {'name':'c17_track_cost', 'props':['C17'], 'entry':'h_track_cost', 'enforce':'Exclusion_track_cost', 'replace':['Exclusion_test_position'],
         'claims':'Exclusion::track_cost either leaves (best_cost,best_pos) untouched or replaces them by a strictly lower cost and a position inside this interval (the one test_position returned); writes nothing else'}@*/
/*@unit {'name':'c17_weighted', 'props':['C17'], 'entry':'h_weighted', 'enforce':['Exclusion_weighted_XY','Exclusion_weighted_SD'],
         'claims':'Exclusion::weighted<XY>/<SD> build the interval [xmin,xmax] unchanged, closed flag clear, with weight sum >= 0 for non-negative weights and >= 0.5 for the initial interval (f = 1, m = 0)'}@*/

/*@unit {'name':'c17_remove', 'props':['C17'], 'entry':'h_remove', 'enforce':'Zones_remove', 'replace':['Vector_insert','Vector_erase'], 'kind':'bounded', 'unwind':9, 'loop_contracts':False, 'defines':['NV=4'],
         'bound':'at most 4 intervals present before the call (any capacity >= size, so both the in-place and the reallocating path of Vector::insert are taken at every size); all loops unwound 8 times with unwinding assertions',
         'replay':'c17_zones', 'witness_defines':[], 'witness_vars':['w_n','w_cap','w_x','w_xm','w_pos','w_posm','w_a','w_b','w_pt'],
         'claims':'Zones::remove(x,xm) on a sorted, disjoint, in-bounds interval set leaves it sorted, disjoint and in bounds; afterwards no interval contains a point of the open range (x,xm); every point covered afterwards was covered before (nothing is re-opened); every point covered before and outside [x,xm] is still covered; the weight sums stay positive; only the vector is written; no access outside the vector storage (exact-size buffer, freed storage is never touched)'}@*/
/*@unit {'name':'c17_insert', 'props':['C17'], 'entry':'h_insert', 'enforce':'Zones_insert', 'replace':['Vector_insert','Vector_erase'], 'kind':'bounded', 'unwind':9, 'loop_contracts':False, 'defines':['NV=4'],
         'bound':'at most 4 intervals present before the call (any capacity >= size); all loops unwound 8 times with unwinding assertions',
         'replay':'c17_zones', 'witness_defines':[], 'witness_vars':['w_n','w_cap','w_x','w_xm','w_pos','w_posm','w_a','w_b','w_pt'],
         'claims':'Zones::insert(e) (weighted insert) keeps the interval set sorted, disjoint and in bounds and does not change the set of covered points (it never re-opens an excluded position and never loses a free one); a point strictly inside an interval and strictly inside e gets exactly e added to its three cost terms, a point outside [e.x,e.xm] keeps its cost terms; weight sums stay positive for non-negative e.sm'}@*/

/*@unit {'name':'c17_vec_insert', 'props':['C17'], 'entry':'h_vec_insert', 'enforce':'Vector_insert', 'kind':'bounded', 'unwind':9, 'loop_contracts':False,
         'bound':'vectors of at most 7 elements before the call, capacity 1..8 (exact-size storage object); ghost snapshot loop unwound 8 times',
         'claims':'Vector<Exclusion>::insert(p,x) (with _insert_default and reserve, on CBMC\'s realloc/memmove models): size grows by one, the returned iterator addresses slot p-begin() of the possibly moved storage, slots before it keep their value, the slot holds x, later slots hold their left neighbour\'s old value (bit-wise); storage is kept when the size rounded up to 8 fits, else moved to a fresh block of 8 and the old block is freed; no access outside the storage object'}@*/
/*@unit {'name':'c17_vec_erase', 'props':['C17'], 'entry':'h_vec_erase', 'enforce':'Vector_erase', 'kind':'bounded', 'unwind':9, 'loop_contracts':False,
         'bound':'vectors of at most 8 elements, capacity 1..8 (exact-size storage object); destructor loop and ghost snapshot loop unwound 8 times',
         'claims':'Vector<Exclusion>::erase(p): size shrinks by one, storage and capacity are kept, slots before p keep their value, slots from p on hold their right neighbour\'s old value, the returned iterator is p; no access outside the storage object'}@*/

/* ------------------------------------------------------------------ shim structs (fields as in Intervals.h / List.h) */
typedef struct Exclusion { float x, xm, c, sm, smx; bool open; } Exclusion;
typedef Exclusion *iterator;
typedef const Exclusion *const_iterator;
typedef struct Exclusions { Exclusion *m_first, *m_last, *m_end; } Exclusions;          /* Vector<Exclusion> */
typedef struct Zones { Exclusions _exclusions; float _margin_len, _margin_weight, _pos, _posm; } Zones;
enum zones_t { SD, XY };

#define NNAN(f) (!__CPROVER_isnanf(f))
#define FIN(f)  (!__CPROVER_isnanf(f) && !__CPROVER_isinff(f))

/* ------------------------------------------------------------------ ghost state */
Exclusion *g_e;  Exclusion g_e0;          /* the interval an Exclusion method works on, and its value before the call */
float *g_bc, *g_bp; float g_bc0, g_bp0;   /* track_cost: the caller's best cost / best position cells */

/* ------------------------------------------------------------------ contracts: Exclusion methods (loop-free) */
uint8 Exclusion_outcode(const Exclusion *self, float val)
__CPROVER_requires(FIN(self->x) && FIN(self->xm) && FIN(val))
__CPROVER_assigns()
__CPROVER_ensures(__CPROVER_return_value == (((val >= self->xm) ? 2 : 0) | ((val < self->x) ? 1 : 0)));

Exclusion Exclusion_split_at(Exclusion *self, float p)
__CPROVER_requires(self == g_e && g_e0.x == self->x && g_e0.xm == self->xm && g_e0.c == self->c && g_e0.sm == self->sm && g_e0.smx == self->smx && g_e0.open == self->open)
__CPROVER_requires(NNAN(self->x) && NNAN(self->xm) && NNAN(self->c) && NNAN(self->sm) && NNAN(self->smx) && NNAN(p))
__CPROVER_assigns(self->x)
__CPROVER_ensures(__CPROVER_return_value.x == g_e0.x && __CPROVER_return_value.xm == p && self->x == p && self->xm == g_e0.xm)
__CPROVER_ensures(__CPROVER_return_value.c == g_e0.c && __CPROVER_return_value.sm == g_e0.sm && __CPROVER_return_value.smx == g_e0.smx && __CPROVER_return_value.open == g_e0.open);

void Exclusion_left_trim(Exclusion *self, float p)
__CPROVER_requires(NNAN(p))
__CPROVER_assigns(self->x)
__CPROVER_ensures(self->x == p);

Exclusion *Exclusion_add(Exclusion *self, const Exclusion *rhs)
__CPROVER_requires(self == g_e && g_e0.c == self->c && g_e0.sm == self->sm && g_e0.smx == self->smx)
__CPROVER_requires(NNAN(self->c) && NNAN(self->sm) && NNAN(self->smx) && FIN(rhs->c) && FIN(rhs->sm) && FIN(rhs->smx))
__CPROVER_assigns(self->c, self->sm, self->smx, self->open)                 /* frame: x and xm are never touched */
__CPROVER_ensures(__CPROVER_return_value == self && !self->open)
__CPROVER_ensures(self->c == g_e0.c + rhs->c && self->sm == g_e0.sm + rhs->sm && self->smx == g_e0.smx + rhs->smx)
__CPROVER_ensures(rhs->sm >= 0 ==> self->sm >= g_e0.sm);                    /* the invariant sm > 0 survives non-negative weights */

float Exclusion_test_position(const Exclusion *self, float origin)
__CPROVER_requires(self->x <= self->xm && NNAN(self->sm) && self->sm != 0 && FIN(self->smx) && FIN(origin))
__CPROVER_assigns()
__CPROVER_ensures(self->x <= __CPROVER_return_value && __CPROVER_return_value <= self->xm);

bool Exclusion_track_cost(const Exclusion *self, float *best_cost, float *best_pos, float origin)
__CPROVER_requires(best_cost == g_bc && best_pos == g_bp && *best_cost == g_bc0 && *best_pos == g_bp0 && NNAN(g_bc0) && NNAN(g_bp0))
__CPROVER_requires(self->x <= self->xm && NNAN(self->sm) && self->sm != 0 && FIN(self->smx) && FIN(origin))
__CPROVER_assigns(*best_cost, *best_pos)
__CPROVER_ensures((*best_cost == g_bc0 && *best_pos == g_bp0)
               || (*best_cost < g_bc0 && self->x <= *best_pos && *best_pos <= self->xm));

Exclusion Exclusion_weighted_XY(float xmin, float xmax, float f, float a0, float m, float xi, float ai, float c, bool nega)
__CPROVER_requires(NNAN(xmin) && NNAN(xmax) && NNAN(f) && NNAN(m))
__CPROVER_assigns()
__CPROVER_ensures(__CPROVER_return_value.x == xmin && __CPROVER_return_value.xm == xmax && !__CPROVER_return_value.open)
__CPROVER_ensures((f >= 0 && m >= 0) ==> __CPROVER_return_value.sm >= 0)
__CPROVER_ensures((f == 1 && m == 0) ==> __CPROVER_return_value.sm >= 0.5f);

Exclusion Exclusion_weighted_SD(float xmin, float xmax, float f, float a0, float m, float xi, float ai, float c, bool nega)
__CPROVER_requires(NNAN(xmin) && NNAN(xmax) && NNAN(f) && NNAN(m))
__CPROVER_assigns()
__CPROVER_ensures(__CPROVER_return_value.x == xmin && __CPROVER_return_value.xm == xmax && !__CPROVER_return_value.open)
__CPROVER_ensures((f >= 0 && m >= 0) ==> __CPROVER_return_value.sm >= 0)
__CPROVER_ensures((f == 1 && m == 0) ==> __CPROVER_return_value.sm >= 0.5f);

#define VSZ(v) ((size_t)((v)->m_last - (v)->m_first))
/* ------------------------------------------------------------------ contracts: Vector<Exclusion> element moves
 * Element-wise over the first VMAX slots (quantifier-free).  The value of the vector before the call is a ghost snapshot
 * (g_v0, g_n0, g_cap0, g_first0) taken by the ghost wrappers Vector_insert_g / Vector_erase_g through which the extracted
 * Zones code calls the vector.  Elements are compared bit-wise (they are moved with memmove/realloc, NaNs included). */
#define VMAX 8
#define ESZ ((long)sizeof(Exclusion))
Exclusion g_v0[VMAX + 1]; size_t g_n0, g_cap0, g_idx; Exclusion *g_first0;
#define FBITS(f) (*(const uint32 *)&(f))
#define EL_EQ(a, b) (FBITS((a).x) == FBITS((b).x) && FBITS((a).xm) == FBITS((b).xm) && FBITS((a).c) == FBITS((b).c) && FBITS((a).sm) == FBITS((b).sm) \
                     && FBITS((a).smx) == FBITS((b).smx) && (a).open == (b).open)
#define VCAP(v) ((size_t)((v)->m_end - (v)->m_first))
/* a well-formed vector whose storage is one exact-size heap object */
#define VEC_OK(v) ((v)->m_first != NULL && SAME((v)->m_first, (v)->m_last) && SAME((v)->m_first, (v)->m_end) && OFF((v)->m_first) == 0 \
                   && OFF((v)->m_last) >= 0 && OFF((v)->m_last) % ESZ == 0 && OFF((v)->m_last) <= OFF((v)->m_end) && OFF((v)->m_end) % ESZ == 0 \
                   && (size_t)OFF((v)->m_end) == OBJSZ((v)->m_first))
#define SNAP1(v, k) ((k) >= g_n0 || EL_EQ((v)->m_first[k], g_v0[k]))
#define SNAP_OK(v) (VSZ(v) == g_n0 && VCAP(v) == g_cap0 && (v)->m_first == g_first0 \
                    && SNAP1(v,0) && SNAP1(v,1) && SNAP1(v,2) && SNAP1(v,3) && SNAP1(v,4) && SNAP1(v,5) && SNAP1(v,6) && SNAP1(v,7))
/* after insert at g_idx: slot k holds old k (k < idx), x (k == idx), old k-1 (k > idx) */
#define INS1(v, k, x) ((k) > g_n0 || ((k) < g_idx ? EL_EQ((v)->m_first[k], g_v0[k]) : (k) == g_idx ? EL_EQ((v)->m_first[k], x) : EL_EQ((v)->m_first[k], g_v0[(k) - 1])))
/* after erase at g_idx: slot k holds old k (k < idx), old k+1 (k >= idx) */
#define ERA1(v, k) ((k) + 1 >= g_n0 || ((k) < g_idx ? EL_EQ((v)->m_first[k], g_v0[k]) : EL_EQ((v)->m_first[k], g_v0[(k) + 1])))
#define GROWS(n, cap) (((((n) + 1 + 7) >> 3) << 3) > (cap))         /* _insert_default: reserve(round-up-to-8(size+1)) reallocates */
#define VEC_GHOST g_n0, g_cap0, g_idx, g_first0, __CPROVER_object_whole(g_v0)

Exclusion *Vector_insert(Exclusions *self, Exclusion *p, const Exclusion x)
__CPROVER_requires(VEC_OK(self) && SNAP_OK(self) && g_n0 < VMAX)
__CPROVER_requires(SAME(p, self->m_first) && OFF(p) == (long)g_idx * ESZ && g_idx <= g_n0)
__CPROVER_assigns(self->m_first, self->m_last, self->m_end, __CPROVER_object_whole(self->m_first))
__CPROVER_frees(self->m_first)
__CPROVER_ensures(VEC_OK(self) && VSZ(self) == g_n0 + 1)
__CPROVER_ensures(__CPROVER_return_value == self->m_first + g_idx)                      /* the refreshed iterator */
__CPROVER_ensures(INS1(self,0,x) && INS1(self,1,x) && INS1(self,2,x) && INS1(self,3,x) && INS1(self,4,x) && INS1(self,5,x) && INS1(self,6,x) && INS1(self,7,x))
/* storage: kept when the rounded-up size fits, otherwise moved to a new block of 8 and the old block is released */
__CPROVER_ensures(GROWS(g_n0, g_cap0) ? (VCAP(self) == 8 && self->m_first != g_first0 && __CPROVER_was_freed(g_first0))
                                      : (VCAP(self) == g_cap0 && self->m_first == g_first0));

Exclusion *Vector_erase(Exclusions *self, Exclusion *p)
__CPROVER_requires(VEC_OK(self) && SNAP_OK(self) && g_n0 <= VMAX)
__CPROVER_requires(SAME(p, self->m_first) && OFF(p) == (long)g_idx * ESZ && g_idx < g_n0)
__CPROVER_assigns(self->m_last, __CPROVER_object_whole(self->m_first))
__CPROVER_ensures(VEC_OK(self) && VSZ(self) == g_n0 - 1 && VCAP(self) == g_cap0 && self->m_first == g_first0)
__CPROVER_ensures(__CPROVER_return_value == p)
__CPROVER_ensures(ERA1(self,0) && ERA1(self,1) && ERA1(self,2) && ERA1(self,3) && ERA1(self,4) && ERA1(self,5) && ERA1(self,6) && ERA1(self,7));

/* ghost wrappers: snapshot, then the call */
static void vec_snapshot(const Exclusions *v, const Exclusion *p)
{
    g_n0 = VSZ(v); g_cap0 = VCAP(v); g_first0 = v->m_first; g_idx = (size_t)(p - v->m_first);
    for (size_t k = 0; k < VMAX; ++k) if (k < g_n0) g_v0[k] = v->m_first[k];
}
static Exclusion *Vector_insert_g(Exclusions *v, Exclusion *p, const Exclusion x) { vec_snapshot(v, p); return Vector_insert(v, p, x); }
static Exclusion *Vector_erase_g(Exclusions *v, Exclusion *p) { vec_snapshot(v, p); return Vector_erase(v, p); }

/* ------------------------------------------------------------------ spec functions over an interval set (the oracle) */
Zones *g_z;                 /* the interval set under test */
float g_pt; bool g_cov0;    /* ghost point (arbitrary position on the axis) and whether it was covered before the call */
int g_at0; Exclusion g_at0v;/* index and value of the interval that strictly contained g_pt before the call (-1: none) */
float g_ex, g_exm;          /* insert: the clamped range of e */

/* sorted, disjoint (touching allowed), every interval non-inverted, all inside [_pos,_posm]; comparisons are false on NaN */
static bool zones_wf(const Zones *z)
{
    const size_t n = VSZ(&z->_exclusions);
    float prev = z->_pos;
    for (size_t k = 0; k < n; ++k) {
        const Exclusion *e = &z->_exclusions.m_first[k];
        if (!(prev <= e->x && e->x <= e->xm)) return false;
        prev = e->xm;
    }
    return n == 0 || prev <= z->_posm;
}
/* p is offered: it lies in one of the closed free intervals */
static bool zones_covers(const Zones *z, float p)
{
    const size_t n = VSZ(&z->_exclusions);
    for (size_t k = 0; k < n; ++k) {
        const Exclusion *e = &z->_exclusions.m_first[k];
        if (e->x <= p && p <= e->xm) return true;
    }
    return false;
}
/* index of the interval that contains p strictly inside, -1 if none (unique when zones_wf) */
static int zones_at(const Zones *z, float p)
{
    const size_t n = VSZ(&z->_exclusions);
    for (size_t k = 0; k < n; ++k) {
        const Exclusion *e = &z->_exclusions.m_first[k];
        if (e->x < p && p < e->xm) return (int)k;
    }
    return -1;
}
/* every interval has a positive weight sum and finite linear term: test_position's precondition */
static bool zones_cost_wf(const Zones *z)
{
    const size_t n = VSZ(&z->_exclusions);
    for (size_t k = 0; k < n; ++k) {
        const Exclusion *e = &z->_exclusions.m_first[k];
        if (!(e->sm > 0)) return false;
    }
    return true;
}
#define ZAT(z, k) ((z)->_exclusions.m_first[k])
#define VEC_FRAME(self) (self)->_exclusions.m_first, (self)->_exclusions.m_last, (self)->_exclusions.m_end, __CPROVER_object_whole((self)->_exclusions.m_first)

void Zones_remove(Zones *self, float x, float xm)
__CPROVER_requires(self == g_z && VSZ(&self->_exclusions) <= NV && zones_wf(self) && zones_cost_wf(self))
__CPROVER_requires(NNAN(x) && NNAN(xm) && NNAN(g_pt) && g_cov0 == zones_covers(self, g_pt))
__CPROVER_assigns(VEC_FRAME(self), VEC_GHOST)
__CPROVER_frees(self->_exclusions.m_first)
/* sorted, disjoint, inside its bounds */
__CPROVER_ensures(zones_wf(self))
/* never offers a position that was excluded: neither the range excluded now ... */
__CPROVER_ensures(zones_covers(self, g_pt) ==> !(x < g_pt && g_pt < xm))
/* ... nor anything excluded earlier (the free set only shrinks) */
__CPROVER_ensures(zones_covers(self, g_pt) ==> g_cov0)
/* nothing outside the closed range is lost */
__CPROVER_ensures((g_cov0 && !(x <= g_pt && g_pt <= xm)) ==> zones_covers(self, g_pt))
__CPROVER_ensures(zones_cost_wf(self));

void Zones_insert(Zones *self, Exclusion e)
__CPROVER_requires(self == g_z && VSZ(&self->_exclusions) <= NV && zones_wf(self) && zones_cost_wf(self))
__CPROVER_requires(NNAN(e.x) && NNAN(e.xm) && FIN(e.sm) && FIN(e.smx) && FIN(e.c) && e.sm >= 0)
__CPROVER_requires(NNAN(g_pt) && g_cov0 == zones_covers(self, g_pt) && g_at0 == zones_at(self, g_pt))
__CPROVER_requires(g_at0 < 0 || (g_at0v.c == ZAT(self, g_at0).c && g_at0v.sm == ZAT(self, g_at0).sm && g_at0v.smx == ZAT(self, g_at0).smx && FIN(g_at0v.c) && FIN(g_at0v.smx)))
__CPROVER_assigns(VEC_FRAME(self), VEC_GHOST)
__CPROVER_frees(self->_exclusions.m_first)
__CPROVER_ensures(zones_wf(self))
/* the set of offered positions is unchanged: weights never re-open an excluded position */
__CPROVER_ensures(zones_covers(self, g_pt) == g_cov0)
/* cost terms: e is added exactly once on the overlap, nothing outside e changes */
__CPROVER_ensures((g_at0 >= 0 && e.x < g_pt && g_pt < e.xm) ==>
        (zones_at(self, g_pt) >= 0 && ZAT(self, zones_at(self, g_pt)).sm == g_at0v.sm + e.sm
         && ZAT(self, zones_at(self, g_pt)).smx == g_at0v.smx + e.smx && ZAT(self, zones_at(self, g_pt)).c == g_at0v.c + e.c))
__CPROVER_ensures((g_at0 >= 0 && !(e.x <= g_pt && g_pt <= e.xm)) ==>
        (zones_at(self, g_pt) >= 0 && ZAT(self, zones_at(self, g_pt)).sm == g_at0v.sm
         && ZAT(self, zones_at(self, g_pt)).smx == g_at0v.smx && ZAT(self, zones_at(self, g_pt)).c == g_at0v.c))
__CPROVER_ensures(zones_cost_wf(self));

/* ------------------------------------------------------------------ extracted code: Main.h helpers */
/*@extract {'file':'src/inc/Main.h', 'sig': r'inline T min\(const T a, const T b\)', 'emit':'static float min(const float a, const float b)'}@*/
/*@extract {'file':'src/inc/Main.h', 'sig': r'inline T max\(const T a, const T b\)', 'emit':'static float max(const float a, const float b)'}@*/

/* ------------------------------------------------------------------ extracted code: Exclusion */
/*@extract {'file':'src/inc/Intervals.h', 'ctor': True,
   'sig': r'Zones::Exclusion::Exclusion\(float x_, float xm_, float smi, float smxi, float c_\)',
   'emit':'static void Exclusion_ctor(Exclusion *self, float x_, float xm_, float smi, float smxi, float c_)',
   'self':['x','xm','c','sm','smx','open']}@*/
static Exclusion Exclusion_make(float x_, float xm_, float smi, float smxi, float c_)      /* the temporary `Exclusion(...)` */
{ Exclusion r; Exclusion_ctor(&r, x_, xm_, smi, smxi, c_); return r; }

/*@extract {'file':'src/inc/Intervals.h',
   'sig': r'Zones::Exclusion Zones::Exclusion::weighted<XY>\(float xmin, float xmax, float f, float a0,\s*float m, float xi, GR_MAYBE_UNUSED float ai, float c, GR_MAYBE_UNUSED bool nega\)',
   'emit':'Exclusion Exclusion_weighted_XY(float xmin, float xmax, float f, float a0, float m, float xi, float ai, float c, bool nega)',
   'subs':[[r'return Exclusion\(', 'return Exclusion_make(', 1]]}@*/
/*@extract {'file':'src/inc/Intervals.h',
   'sig': r'Zones::Exclusion Zones::Exclusion::weighted<SD>\(float xmin, float xmax, float f, float a0,\s*float m, float xi, float ai,float c, bool nega\)',
   'emit':'Exclusion Exclusion_weighted_SD(float xmin, float xmax, float f, float a0, float m, float xi, float ai, float c, bool nega)',
   'subs':[[r'return Exclusion\(', 'return Exclusion_make(', 1]]}@*/

/*@extract {'file':'src/Intervals.cpp', 'sig': r'Zones::Exclusion\s+Zones::Exclusion::split_at\(float p\)',
   'emit':'Exclusion Exclusion_split_at(Exclusion *self, float p)',
   'subs':[[r'Exclusion r\(\*this\);', 'Exclusion r = *self;', 1]], 'self':['x']}@*/
/*@extract {'file':'src/Intervals.cpp', 'sig': r'void Zones::Exclusion::left_trim\(float p\)',
   'emit':'void Exclusion_left_trim(Exclusion *self, float p)', 'self':['x']}@*/
/*@extract {'file':'src/Intervals.cpp', 'sig': r'Zones::Exclusion & Zones::Exclusion::operator \+= \(Exclusion const & rhs\)',
   'emit':'Exclusion *Exclusion_add(Exclusion *self, const Exclusion *rhs)',
   'subs':[[r'return \*this;', 'return self;', 1]], 'refs':['rhs'], 'self':['c','sm','smx','open']}@*/
/*@extract {'file':'src/Intervals.cpp', 'sig': r'uint8 Zones::Exclusion::outcode\(float val\) const',
   'emit':'uint8 Exclusion_outcode(const Exclusion *self, float val)', 'self':['x','xm']}@*/
/*@extract {'file':'src/Intervals.cpp', 'sig': r'float Zones::Exclusion::cost\(float p\) const',
   'emit':'static float Exclusion_cost(const Exclusion *self, float p)', 'self':['sm','smx','c']}@*/
/*@extract {'file':'src/Intervals.cpp', 'sig': r'float Zones::Exclusion::test_position\(float origin\) const',
   'emit':'float Exclusion_test_position(const Exclusion *self, float origin)',
   'subs':[[r'\bcost\(', 'Exclusion_cost(self, ', 3]], 'self':['x','xm','sm','smx']}@*/
/*@extract {'file':'src/Intervals.cpp', 'sig': r'bool Zones::Exclusion::track_cost\(float & best_cost, float & best_pos, float origin\) const',
   'emit':'bool Exclusion_track_cost(const Exclusion *self, float *best_cost, float *best_pos, float origin)',
   'subs':[[r'\bcost\(', 'Exclusion_cost(self, ', 1], [r'\btest_position\(', 'Exclusion_test_position(self, ', 1]],
   'refs':['best_cost','best_pos'], 'self':['open']}@*/

/* ------------------------------------------------------------------ libc models used by the extracted Vector code
 * CBMC 6.11's built-in memmove model (array_copy/array_replace through a variable-length char buffer) loses all but the
 * first element when source and destination are interior pointers of an array of structs, and its realloc/malloc models
 * with a symbolic size make the back end run out of memory.  The extracted List.h code therefore calls these
 * element-wise models (same semantics, restricted to what Vector<Exclusion> does: whole elements, one block of 8). */
static void *memmove_elems(Exclusion *dest, const Exclusion *src, size_t bytes)
{
    const size_t n = bytes / sizeof(Exclusion);
    __CPROVER_assert(bytes % sizeof(Exclusion) == 0 && n <= VMAX, "memmove model: whole elements, at most VMAX");
    Exclusion tmp[VMAX];
    for (size_t k = 0; k < VMAX; ++k) if (k < n) tmp[k] = src[k];
    for (size_t k = 0; k < VMAX; ++k) if (k < n) dest[k] = tmp[k];
    return dest;
}
static void *realloc_elems(Exclusion *ptr, size_t bytes)
{
    __CPROVER_assert(bytes == 8 * sizeof(Exclusion), "realloc model: bounded universe, growth to one block of 8 elements");
    Exclusion *q = malloc(8 * sizeof(Exclusion)); __CPROVER_assume(q != NULL);
    if (ptr != NULL) {
        const size_t old = OBJSZ(ptr) / sizeof(Exclusion);
        for (size_t k = 0; k < 8; ++k) if (k < old) q[k] = ptr[k];
        free(ptr);
    }
    return q;
}
/* ------------------------------------------------------------------ extracted code: Vector<Exclusion> (src/inc/List.h, T = Exclusion) */
/*@extract {'file':'src/inc/Main.h', 'sig': r'bool checked_mul\(const size_t a, const size_t b, size_t & t\)\s*(?=\{\s*return __builtin_mul_overflow)',
   'emit':'static bool checked_mul(const size_t a, const size_t b, size_t *t)', 'refs':['t']}@*/
/*@extract {'file':'src/inc/List.h', 'sig': r'ptrdiff_t distance\(T\* first, T\* last\)', 'emit':'static ptrdiff_t distance(const Exclusion *first, const Exclusion *last)'}@*/
/*@extract {'file':'src/inc/List.h', 'scope': r'class Vector\s*\{', 'sig': r'(?<!_)iterator\s+begin\(\)', 'emit':'static Exclusion *Vector_begin(const Exclusions *self)', 'self':['m_first']}@*/
/*@extract {'file':'src/inc/List.h', 'scope': r'class Vector\s*\{', 'sig': r'(?<!_)iterator\s+end\(\)', 'emit':'static Exclusion *Vector_end(const Exclusions *self)', 'self':['m_last']}@*/
/*@extract {'file':'src/inc/List.h', 'scope': r'class Vector\s*\{', 'sig': r'size_t\s+size\(\) const', 'emit':'static size_t Vector_size(const Exclusions *self)', 'self':['m_first','m_last']}@*/
/*@extract {'file':'src/inc/List.h', 'scope': r'class Vector\s*\{', 'sig': r'size_t\s+capacity\(\) const', 'emit':'static size_t Vector_capacity(const Exclusions *self)', 'self':['m_first','m_end']}@*/
/*@extract {'file':'src/inc/List.h', 'scope': r'class Vector\s*\{', 'sig': r'(?<!_)reference\s+front\(\)', 'emit':'static Exclusion *Vector_front(Exclusions *self)',
   'subs':[[r'\bsize\(\)', 'Vector_size(self)', 1], [r'return \*begin\(\);', 'return Vector_begin(self);', 1]]}@*/
/*@extract {'file':'src/inc/List.h', 'scope': r'class Vector\s*\{', 'sig': r'const_reference\s+operator \[\] \(size_t n\) const', 'emit':'static const Exclusion *Vector_at(const Exclusions *self, size_t n)',
   'subs':[[r'\bsize\(\)', 'Vector_size(self)', 1], [r'return m_first\[n\];', 'return &m_first[n];', 1]], 'self':['m_first']}@*/
void Vector_reserve(Exclusions *self, size_t n);
/*@extract {'file':'src/inc/List.h', 'sig': r'void Vector<T>::reserve\(size_t n\)', 'emit':'void Vector_reserve(Exclusions *self, size_t n)', 'casts': True,
   'subs':[[r'\bcapacity\(\)', 'Vector_capacity(self)', 1], [r'\bsize\(\)', 'Vector_size(self)', 1], [r'checked_mul\(n,sizeof\(T\), requested\)', 'checked_mul(n, sizeof(Exclusion), &requested)', 1],
           [r'std::abort\(\)', 'abort()', 0], [r'\bT\b', 'Exclusion', 0], [r'\brealloc\(', 'realloc_elems(', 0]],
   'self':['m_first','m_last','m_end']}@*/
Exclusion *Vector_insert_default(Exclusions *self, Exclusion *p, size_t n);
/*@extract {'file':'src/inc/List.h', 'sig': r'typename Vector<T>::iterator Vector<T>::_insert_default\(iterator p, size_t n\)',
   'emit':'Exclusion *Vector_insert_default(Exclusions *self, Exclusion *p, size_t n)',
   'subs':[[r'\bbegin\(\)', 'Vector_begin(self)', 3], [r'\bend\(\)', 'Vector_end(self)', 3], [r'\bsize\(\)', 'Vector_size(self)', 1], [r'\breserve\(', 'Vector_reserve(self, ', 1],
           [r'sizeof\(T\)', 'sizeof(Exclusion)', 1], [r'\bmemmove\(', 'memmove_elems(', 0]],
   'self':['m_last']}@*/
/*@extract {'file':'src/inc/List.h', 'scope': r'class Vector\s*\{', 'sig': r'(?<!_)iterator\s+insert\(iterator p, const T & x\)', 'emit':'Exclusion *Vector_insert(Exclusions *self, Exclusion *p, const Exclusion x)',
   'subs':[[r'_insert_default\(', 'Vector_insert_default(self, ', 1], [r'new \(p\) T\(x\);', '*p = x;', 1]]}@*/
Exclusion *Vector_erase_range(Exclusions *self, Exclusion *first, Exclusion *last);
/*@extract {'file':'src/inc/List.h', 'sig': r'typename Vector<T>::iterator Vector<T>::erase\(iterator first, iterator last\)',
   'emit':'Exclusion *Vector_erase_range(Exclusions *self, Exclusion *first, Exclusion *last)',
   'subs':[[r'e->~T\(\);', '{ /* trivial destructor */ }', 1], [r'\bend\(\)', 'Vector_end(self)', 1], [r'sizeof\(T\)', 'sizeof(Exclusion)', 1], [r'\bmemmove\(', 'memmove_elems(', 0]],
   'self':['m_last']}@*/
/*@extract {'file':'src/inc/List.h', 'scope': r'class Vector\s*\{', 'sig': r'(?<!_)iterator\s+erase\(iterator p\)', 'emit':'Exclusion *Vector_erase(Exclusions *self, Exclusion *p)',
   'subs':[[r'\berase\(p, p\+1\)', 'Vector_erase_range(self, p, p+1)', 1]]}@*/
/*@extract {'file':'src/inc/List.h', 'scope': r'class Vector\s*\{', 'sig': r'void\s+clear\(\)', 'emit':'void Vector_clear(Exclusions *self)',
   'subs':[[r'\berase\(begin\(\), end\(\)\)', 'Vector_erase_range(self, Vector_begin(self), Vector_end(self))', 1]]}@*/
/*@extract {'file':'src/inc/List.h', 'scope': r'class Vector\s*\{', 'sig': r'void\s+push_back\(const T &v\)', 'emit':'void Vector_push_back(Exclusions *self, const Exclusion v)',
   'subs':[[r'\breserve\(size\(\)\+1\)', 'Vector_reserve(self, Vector_size(self)+1)', 1], [r'new \(m_last\+\+\) T\(v\);', '*m_last++ = v;', 1]],
   'self':['m_last','m_end']}@*/

/* ------------------------------------------------------------------ extracted code: Zones */
/*@extract {'file':'src/Intervals.cpp', 'sig': r'bool separated\(float a, float b\)', 'emit':'static bool separated(float a, float b)'}@*/
void Zones_insert(Zones *self, Exclusion e);
void Zones_remove(Zones *self, float x, float xm);
/*@extract {'file':'src/Intervals.cpp', 'sig': r'void Zones::insert\(Exclusion e\)', 'emit':'void Zones_insert(Zones *self, Exclusion e)',
   'subs':[[r'_exclusions\.(begin|end|size|clear)\(\)', r'Vector_\1(&self->_exclusions)', 0], [r'_exclusions\.(insert|erase)\(', r'Vector_\1_g(&self->_exclusions, ', 0], [r'_exclusions\.push_back\(', r'Vector_push_back(&self->_exclusions, ', 0],
           [r'\be\.outcode\(', 'Exclusion_outcode(&e, ', 2], [r'\*i \+= e;', 'Exclusion_add(i, &e);', 3], [r'\*\+\+i \+= e;', 'Exclusion_add(++i, &e);', 1],
           [r'\be\.left_trim\(', 'Exclusion_left_trim(&e, ', 2], [r'\bi->split_at\(', 'Exclusion_split_at(i, ', 4]],
   'self':['_pos','_posm']}@*/
/*@extract {'file':'src/Intervals.cpp', 'sig': r'void Zones::remove\(float x, float xm\)', 'emit':'void Zones_remove(Zones *self, float x, float xm)',
   'subs':[[r'_exclusions\.(begin|end|size|clear)\(\)', r'Vector_\1(&self->_exclusions)', 0], [r'_exclusions\.(insert|erase)\(', r'Vector_\1_g(&self->_exclusions, ', 0], [r'_exclusions\.push_back\(', r'Vector_push_back(&self->_exclusions, ', 0],
           [r'\bi->outcode\(', 'Exclusion_outcode(i, ', 2], [r'\bi->left_trim\(', 'Exclusion_left_trim(i, ', 1], [r'\bi->split_at\(', 'Exclusion_split_at(i, ', 1]],
   'self':['_pos','_posm']}@*/
/*@extract {'file':'src/Intervals.cpp', 'sig': r'Zones::const_iterator Zones::find_exclusion_under\(float x\) const', 'emit':'const Exclusion *Zones_find_exclusion_under(const Zones *self, float x)',
   'subs':[[r'_exclusions\.(begin|end|size|clear)\(\)', r'Vector_\1(&self->_exclusions)', 0], [r'_exclusions\[p\]\.outcode\(', 'Exclusion_outcode(Vector_at(&self->_exclusions, p), ', 1]]}@*/
/*@extract {'file':'src/Intervals.cpp', 'sig': r'float Zones::closest\(float origin, float & cost\) const', 'emit':'float Zones_closest(const Zones *self, float origin, float *cost)',
   'subs':[[r'_exclusions\.(begin|end|size|clear)\(\)', r'Vector_\1(&self->_exclusions)', 0], [r'std::numeric_limits<float>::max\(\)', 'FLT_MAX', 2],
           [r'\bfind_exclusion_under\(', 'Zones_find_exclusion_under(self, ', 1], [r'\bi->track_cost\(best_c, best_x, origin\)', 'Exclusion_track_cost(i, &best_c, &best_x, origin)', 2]],
   'refs':['cost']}@*/
/*@extract {'file':'src/inc/Intervals.h', 'sig': r'void Zones::initialise\(float xmin, float xmax, float margin_len,\s*float margin_weight, float a0\)', 'emit':'void Zones_initialise_XY(Zones *self, float xmin, float xmax, float margin_len, float margin_weight, float a0)',
   'subs':[[r'_exclusions\.(begin|end|size|clear)\(\)', r'Vector_\1(&self->_exclusions)', 0], [r'_exclusions\.(insert|erase)\(', r'Vector_\1_g(&self->_exclusions, ', 0], [r'_exclusions\.push_back\(', r'Vector_push_back(&self->_exclusions, ', 0],
           [r'Exclusion::weighted<O>\(', 'Exclusion_weighted_XY(', 1], [r'_exclusions\.front\(\)\.', 'Vector_front(&self->_exclusions)->', 1]],
   'self':['_margin_len','_margin_weight','_pos','_posm']}@*/
/*@extract {'file':'src/inc/Intervals.h', 'sig': r'void Zones::initialise\(float xmin, float xmax, float margin_len,\s*float margin_weight, float a0\)', 'emit':'void Zones_initialise_SD(Zones *self, float xmin, float xmax, float margin_len, float margin_weight, float a0)',
   'subs':[[r'_exclusions\.(begin|end|size|clear)\(\)', r'Vector_\1(&self->_exclusions)', 0], [r'_exclusions\.(insert|erase)\(', r'Vector_\1_g(&self->_exclusions, ', 0], [r'_exclusions\.push_back\(', r'Vector_push_back(&self->_exclusions, ', 0],
           [r'Exclusion::weighted<O>\(', 'Exclusion_weighted_SD(', 1], [r'_exclusions\.front\(\)\.', 'Vector_front(&self->_exclusions)->', 1]],
   'self':['_margin_len','_margin_weight','_pos','_posm']}@*/
/*@extract {'file':'src/inc/Intervals.h', 'sig': r'void Zones::weighted\(float xmin, float xmax, float f, float a0,\s*float m, float xi, float ai, float c, bool nega\)', 'emit':'void Zones_weighted_XY(Zones *self, float xmin, float xmax, float f, float a0, float m, float xi, float ai, float c, bool nega)',
   'subs':[[r'\binsert\(Exclusion::weighted<O>\(', 'Zones_insert(self, Exclusion_weighted_XY(', 1]]}@*/
/*@extract {'file':'src/inc/Intervals.h', 'sig': r'void Zones::weighted\(float xmin, float xmax, float f, float a0,\s*float m, float xi, float ai, float c, bool nega\)', 'emit':'void Zones_weighted_SD(Zones *self, float xmin, float xmax, float f, float a0, float m, float xi, float ai, float c, bool nega)',
   'subs':[[r'\binsert\(Exclusion::weighted<O>\(', 'Zones_insert(self, Exclusion_weighted_SD(', 1]]}@*/
/*@extract {'file':'src/inc/Intervals.h', 'sig': r'void Zones::weightedAxis\(int axis, float xmin, float xmax, float f, float a0,\s*float m, float xi, float ai, float c, bool nega\)', 'emit':'void Zones_weightedAxis(Zones *self, int axis, float xmin, float xmax, float f, float a0, float m, float xi, float ai, float c, bool nega)',
   'subs':[[r'\bweighted<(XY|SD)>\(', r'Zones_weighted_\1(self, ', 2]]}@*/
/*@extract {'file':'src/inc/Intervals.h', 'sig': r'void Zones::exclude\(float xmin, float xmax\)', 'emit':'void Zones_exclude(Zones *self, float xmin, float xmax)',
   'subs':[[r'\bremove\(', 'Zones_remove(self, ', 1]]}@*/
/*@extract {'file':'src/Intervals.cpp', 'sig': r'void Zones::exclude_with_margins\(float xmin, float xmax, int axis\)', 'emit':'void Zones_exclude_with_margins(Zones *self, float xmin, float xmax, int axis)',
   'subs':[[r'\bremove\(', 'Zones_remove(self, ', 1], [r'\bweightedAxis\(', 'Zones_weightedAxis(self, ', 2]],
   'self':['_margin_len','_margin_weight']}@*/

/* ------------------------------------------------------------------ harnesses */
float nondet_float(void); bool nondet_bool(void); size_t nondet_size_t(void); uint32 nondet_u32(void); int nondet_int(void);
static float f_of_bits(uint32 b) { union { uint32 u; float f; } v; v.u = b; return v.f; }     /* witness floats are carried as bit patterns */

static Exclusion *mk_excl(float x, float xm, float c, float sm, float smx)
{
    Exclusion *e = malloc(sizeof(Exclusion)); __CPROVER_assume(e != NULL);
    e->x = x; e->xm = xm; e->c = c; e->sm = sm; e->smx = smx; e->open = nondet_bool();
    return e;
}

#ifdef UNIT_c17_excl_ops
void h_excl_ops(void)
{
    uint32 w_x = nondet_u32(), w_xm = nondet_u32(), w_p = nondet_u32();
    Exclusion *e = mk_excl(f_of_bits(w_x), f_of_bits(w_xm), nondet_float(), nondet_float(), nondet_float());
    Exclusion *rhs = mk_excl(nondet_float(), nondet_float(), nondet_float(), nondet_float(), nondet_float());
    float p = f_of_bits(w_p);
    int which = nondet_int();
    g_e = e; g_e0 = *e;
    if (which == 0) { uint8 oc = Exclusion_outcode(e, p); (void)oc; }
    else if (which == 1) { Exclusion r = Exclusion_split_at(e, p); (void)r; }
    else if (which == 2) Exclusion_left_trim(e, p);
    else Exclusion_add(e, rhs);
    CANARY();
}
#endif

#ifdef UNIT_c17_test_position
void h_test_position(void)
{
    uint32 w_x = nondet_u32(), w_xm = nondet_u32(), w_c = nondet_u32(), w_sm = nondet_u32(), w_smx = nondet_u32(), w_origin = nondet_u32();
    Exclusion *e = mk_excl(f_of_bits(w_x), f_of_bits(w_xm), f_of_bits(w_c), f_of_bits(w_sm), f_of_bits(w_smx));
    float r = Exclusion_test_position(e, f_of_bits(w_origin));
    (void)r;
    CANARY();
}
#endif

#ifdef UNIT_c17_track_cost
void h_track_cost(void)
{
    Exclusion *e = mk_excl(nondet_float(), nondet_float(), nondet_float(), nondet_float(), nondet_float());
    float *bc = malloc(sizeof(float)), *bp = malloc(sizeof(float)); __CPROVER_assume(bc && bp);
    *bc = nondet_float(); *bp = nondet_float();
    g_bc = bc; g_bp = bp; g_bc0 = *bc; g_bp0 = *bp;
    bool r = Exclusion_track_cost(e, bc, bp, nondet_float());
    (void)r;
    CANARY();
}
#endif

#ifdef UNIT_c17_weighted
void h_weighted(void)
{
    Exclusion a = Exclusion_weighted_XY(nondet_float(), nondet_float(), nondet_float(), nondet_float(), nondet_float(), nondet_float(), nondet_float(), nondet_float(), nondet_bool());
    Exclusion b = Exclusion_weighted_SD(nondet_float(), nondet_float(), nondet_float(), nondet_float(), nondet_float(), nondet_float(), nondet_float(), nondet_float(), nondet_bool());
    (void)a; (void)b;
    CANARY();
}
#endif

/* storage: one heap object of exactly cap elements, n of them live.  cap is either n (full vector: the next insert
   reallocates, and any access past the live elements is a pointer obligation) or 8 (the capacity Zones() reserves).
   Constant-size allocations keep the objects typed arrays for the verifier. */
static Exclusion *alloc_elems(size_t cap)
{
    Exclusion *a = cap == 1 ? malloc(1 * sizeof(Exclusion)) : cap == 2 ? malloc(2 * sizeof(Exclusion)) : cap == 3 ? malloc(3 * sizeof(Exclusion))
                 : cap == 4 ? malloc(4 * sizeof(Exclusion)) : cap == 5 ? malloc(5 * sizeof(Exclusion)) : cap == 6 ? malloc(6 * sizeof(Exclusion))
                 : cap == 7 ? malloc(7 * sizeof(Exclusion)) : malloc(8 * sizeof(Exclusion));
    __CPROVER_assume(a != NULL);
    for (size_t k = 0; k < 8; ++k) if (k < cap) a[k].open = nondet_bool();        /* FRAMEWORK item 12: bool fields from malloc */
    return a;
}

#if defined UNIT_c17_vec_insert || defined UNIT_c17_vec_erase
static Exclusions *mk_vector(size_t n, size_t cap)
{
    Exclusions *v = malloc(sizeof(Exclusions)); __CPROVER_assume(v != NULL);
    Exclusion *a = alloc_elems(cap);
    v->m_first = a; v->m_last = a + n; v->m_end = a + cap;
    return v;
}
void h_vec_insert(void)
{
    size_t n = nondet_size_t(), cap = nondet_size_t(), idx = nondet_size_t();
    __CPROVER_assume(n < VMAX && cap >= 1 && cap <= 8 && n <= cap && idx <= n);
    Exclusions *v = mk_vector(n, cap);
    Exclusion x; x.open = nondet_bool();
    vec_snapshot(v, v->m_first + idx);
    Exclusion *r = Vector_insert(v, v->m_first + idx, x);
    (void)r;
    CANARY();
}
void h_vec_erase(void)
{
    size_t n = nondet_size_t(), cap = nondet_size_t(), idx = nondet_size_t();
    __CPROVER_assume(n <= VMAX && cap >= 1 && cap <= 8 && n <= cap && idx < n);
    Exclusions *v = mk_vector(n, cap);
    vec_snapshot(v, v->m_first + idx);
    Exclusion *r = Vector_erase(v, v->m_first + idx);
    (void)r;
    CANARY();
}
#endif

/* ------------------------------------------------------------------ bounded units: an arbitrary interval set with at most NV intervals */
#if defined UNIT_c17_remove || defined UNIT_c17_insert
static Zones *mk_zones(size_t n, size_t cap, const uint32 *bx, const uint32 *bxm, uint32 bpos, uint32 bposm)
{
    Zones *z = malloc(sizeof(Zones)); __CPROVER_assume(z != NULL);
    Exclusion *a = alloc_elems(cap);
    for (size_t k = 0; k < NV; ++k)
        if (k < n) { a[k].x = f_of_bits(bx[k]); a[k].xm = f_of_bits(bxm[k]); a[k].c = nondet_float(); a[k].sm = nondet_float(); a[k].smx = nondet_float(); a[k].open = nondet_bool(); }
    z->_exclusions.m_first = a; z->_exclusions.m_last = a + n; z->_exclusions.m_end = a + cap;
    z->_pos = f_of_bits(bpos); z->_posm = f_of_bits(bposm);
    z->_margin_len = nondet_float(); z->_margin_weight = nondet_float();
    return z;
}
#define ZONES_INPUT \
    size_t w_n = nondet_size_t(), w_cap = nondet_size_t(); \
    uint32 w_x[NV], w_xm[NV], w_pos = nondet_u32(), w_posm = nondet_u32(), w_a = nondet_u32(), w_b = nondet_u32(), w_pt = nondet_u32(); \
    __CPROVER_assume(w_n <= NV && (w_cap == 8 || (w_cap == w_n && w_n >= 1))); \
    Zones *z = mk_zones(w_n, w_cap, w_x, w_xm, w_pos, w_posm); \
    __CPROVER_assume(zones_wf(z) && zones_cost_wf(z)); \
    g_z = z; g_pt = f_of_bits(w_pt); __CPROVER_assume(NNAN(g_pt)); \
    g_cov0 = zones_covers(z, g_pt); g_at0 = zones_at(z, g_pt); if (g_at0 >= 0) g_at0v = ZAT(z, g_at0);
#endif

#ifdef UNIT_c17_remove
void h_remove(void)
{
    ZONES_INPUT
    Zones_remove(z, f_of_bits(w_a), f_of_bits(w_b));
    CANARY();
}
#endif

#ifdef UNIT_c17_insert
void h_insert(void)
{
    ZONES_INPUT
    Exclusion e; e.x = f_of_bits(w_a); e.xm = f_of_bits(w_b); e.c = nondet_float(); e.sm = nondet_float(); e.smx = nondet_float(); e.open = nondet_bool();
    Zones_insert(z, e);
    CANARY();
}
#endif
