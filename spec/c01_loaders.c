/* C01 / C02 - loaders that establish the representation invariants the run-time units rely on (bounded units).
 *   Pass::readStates  (start-state and transition tables)  -> PASS_WF: every start state and transition < numStates
 *     (assumed as instances in unit c02_run_fsm)
 *   Silf::readClassMap + readClassOffsets<uint16|uint32>    -> CLASSMAP_WF (required by c02_find_class_index / c02_get_class_glyph)
 * Copy loops write through advancing pointers, which CBMC's loop contracts cannot handle (DESIGN 10.1): the loops are
 * unwound over small tables with arbitrary contents; every buffer is exact-size.
 */
#include "types.h"
/*@unit {'name':'c01_readstates_tables', 'props':['C01','C02'], 'entry':'h_readstates', 'kind':'bounded', 'unwind':6,
  'bound':'(start states, transition cells) in {(1,0),(1,1),(2,2),(2,3)}; numStates <= 8; table bytes arbitrary',
  'claims':'Pass::readStates (table part): reads exactly 2 bytes per start state / transition cell, writes only inside the arrays it allocated, and returns success only if every start state and every transition is < numStates (the PASS_WF facts assumed by c02_run_fsm)'}@*/
/*@unit {'name':'c01_readclassmap', 'props':['C01','C02'], 'entry':'h_classmap', 'kind':'bounded', 'unwind':9, 'timeout':1200,
  'bound':'class map data of 8 bytes (1 class), 14 bytes (2 classes) , 20 bytes (1 class: room for a lookup class with one pair) and 24 bytes (2 classes: a linear class followed by a lookup class that may start at max_off), version below and above 4.0, all other bytes arbitrary',
  'claims':'Silf::readClassMap / readClassOffsets: all reads inside [p, p+data_len), writes only inside the two arrays they allocate, and on success CLASSMAP_WF holds for every class (offsets <= max_off, linear offsets monotone, lookup classes o+4 <= max_off, numIDs >= 1, numIDs*2+o+4 <= max_off, even pair distance)'}@*/
/*@include endian.tc@*/
typedef struct Error { int _e; } Error;
static bool Error_test(Error *e, bool pr, int err) { return (e->_e = pr ? err : 0); }
enum { E_OUTOFMEM = 1, E_BADCLASSSIZE = 27, E_TOOMANYLINEAR, E_CLASSESTOOBIG, E_MISALIGNEDCLASSES, E_HIGHCLASSOFFSET, E_BADCLASSOFFSET, E_BADCLASSLOOKUPINFO, E_BADSTATE = 49 };
enum { EC_ASTARTS = 7, EC_ATRANS = 8 };
bool nondet_bool(void); unsigned nondet_unsigned(void); size_t nondet_size_t(void);
static void *gralloc_bytes(size_t n) { return nondet_bool() ? (void *)0 : malloc(n); }

#ifdef UNIT_c01_readstates_tables
typedef struct RuleEntry RuleEntry;
typedef struct State { const RuleEntry *rules, *rules_end; } State;
typedef struct FaceE { unsigned m_error, m_errcntxt; } FaceE;
static bool Face_error(FaceE *f, Error e) { f->m_error = e._e; return false; }          /* Face::error(Error e) { m_error = e.error(); return false; } */
static unsigned Face_error_context_0(const FaceE *f) { return f->m_error; }
static void Face_error_context_1(FaceE *f, unsigned c) { f->m_errcntxt = c; }
typedef struct Pass { uint16 *m_startStates, *m_transitions; State *m_states; uint16 m_numStates, m_numTransition, m_numColumns; byte m_minPreCtxt, m_maxPreCtxt; } Pass;
/*@extract {'if':'UNIT_c01_readstates_tables', 'file':'src/Pass.cpp', 'kind':'range', 'scope': r'bool Pass::readStates\(const byte \* starts, const byte \*states, const byte \* o_rule_map',
   'start': r'm_startStates = gralloc<uint16>\(', 'end': r'State \* s = m_states,',
   'pre':'bool Pass_readStates_tables(Pass *self, const byte *starts, const byte *states, FaceE *face_, Error *e)\n{\n', 'post':'\n    return true;\n}\n',
   'subs':[[r'gralloc<uint16>\(([^;]*)\);', r'(uint16 *)gralloc_bytes((size_t)(\1) * sizeof(uint16));', 0], [r'gralloc<State>\(([^;]*)\);', r'(State *)gralloc_bytes((size_t)(\1) * sizeof(State));', 0],
           [r'e\.test\(', 'Error_test(e, ', 0], [r'face\.error\(e\)', 'Face_error(face_, *e)', 0], [r'face\.error_context\(\)', 'Face_error_context_0(face_)', 0], [r'face\.error_context\(', 'Face_error_context_1(face_, ', 0],
           [r'be::read<(\w+)>\((\w+)\)', r'be_read_\1(&\2)', 0]],
   'self':['m_startStates','m_states','m_transitions','m_maxPreCtxt','m_minPreCtxt','m_numStates','m_numTransition','m_numColumns']}@*/
void h_readstates(void)
{
    Pass *p = malloc(sizeof(Pass)); FaceE *f = malloc(sizeof(FaceE)); __CPROVER_assume(p && f);
    unsigned ns = nondet_unsigned(), nt = nondet_unsigned();
    __CPROVER_assume((ns == 1 && nt <= 1) || (ns == 2 && (nt == 2 || nt == 3)));
    Error e; e._e = 0;
    /* one call per concrete table size (constant-size buffers keep the stores cheap) */
#define RUN(NS, NT) if (ns == (NS) && nt == (NT)) { \
        p->m_minPreCtxt = 0; p->m_maxPreCtxt = (NS) - 1; p->m_numTransition = (NT); p->m_numColumns = 1; \
        byte *st = malloc(2 * (NS)); byte *tr = malloc(2 * (NT)); __CPROVER_assume(st && tr); \
        bool ok = Pass_readStates_tables(p, st, tr, f, &e); \
        if (ok) { for (int i = 0; i < (NS); ++i) __CPROVER_assert(p->m_startStates[i] < p->m_numStates, "readStates: every start state is a valid state"); \
                  for (int i = 0; i < (NT); ++i) __CPROVER_assert(p->m_transitions[i] < p->m_numStates, "readStates: every transition is a valid state"); } }
    __CPROVER_assume(p->m_numStates <= 8);
    RUN(1,0) RUN(1,1) RUN(2,2) RUN(2,3)
    CANARY();
}
#endif

#ifdef UNIT_c01_readclassmap
#define assert(x) __CPROVER_assert((x), "source assert: " #x)
static const uint32 ERROROFFSET = 0xFFFFFFFF;
typedef struct Silf { uint32 *m_classOffsets; uint16 *m_classData; uint16 m_nClass, m_nLinear; } Silf;
uint32 Silf_readClassOffsets_uint16(Silf *self, const byte **p, size_t data_len, Error *e);
uint32 Silf_readClassOffsets_uint32(Silf *self, const byte **p, size_t data_len, Error *e);
/*@extract {'if':'UNIT_c01_readclassmap', 'file':'src/Silf.cpp', 'sig': r'template<typename T> inline uint32 Silf::readClassOffsets\(const byte \*&p, size_t data_len, Error &e\)',
   'emit':'uint32 Silf_readClassOffsets_uint16(Silf *self, const byte **p, size_t data_len, Error *e)',
   'subs':[[r'gralloc<uint32>\(([^;]*)\);', r'(uint32 *)gralloc_bytes((size_t)(\1) * sizeof(uint32));', 0], [r'e\.test\(', 'Error_test(e, ', 0],
           [r'be::peek<T>\(', 'be_peek_uint16(', 0], [r'be::read<T>\(p\)', 'be_read_uint16(&p)', 0], [r'\bT\b', 'uint16', 0]],
   'refs':['p'], 'self':['m_nClass','m_classOffsets']}@*/
/*@extract {'if':'UNIT_c01_readclassmap', 'file':'src/Silf.cpp', 'sig': r'template<typename T> inline uint32 Silf::readClassOffsets\(const byte \*&p, size_t data_len, Error &e\)',
   'emit':'uint32 Silf_readClassOffsets_uint32(Silf *self, const byte **p, size_t data_len, Error *e)',
   'subs':[[r'gralloc<uint32>\(([^;]*)\);', r'(uint32 *)gralloc_bytes((size_t)(\1) * sizeof(uint32));', 0], [r'e\.test\(', 'Error_test(e, ', 0],
           [r'be::peek<T>\(', 'be_peek_uint32(', 0], [r'be::read<T>\(p\)', 'be_read_uint32(&p)', 0], [r'\bT\b', 'uint32', 0]],
   'refs':['p'], 'self':['m_nClass','m_classOffsets']}@*/
/*@extract {'if':'UNIT_c01_readclassmap', 'file':'src/Silf.cpp', 'sig': r'size_t Silf::readClassMap\(const byte \*p, size_t data_len, uint32 version, Error &e\)',
   'emit':'size_t Silf_readClassMap(Silf *self, const byte *p, size_t data_len, uint32 version, Error *e)',
   'subs':[[r'gralloc<uint16>\(([^;]*)\);', r'(uint16 *)gralloc_bytes((size_t)(\1) * sizeof(uint16));', 0], [r'e\.test\(', 'Error_test(e, ', 0],
           [r'readClassOffsets<uint32>\(p, data_len, e\)', 'Silf_readClassOffsets_uint32(self, &p, data_len, e)', 0], [r'readClassOffsets<uint16>\(p, data_len, e\)', 'Silf_readClassOffsets_uint16(self, &p, data_len, e)', 0],
           [r'be::read<(\w+)>\(p\)', r'be_read_\1(&p)', 0]],
   'self':['m_nClass','m_nLinear','m_classOffsets','m_classData']}@*/
void h_classmap(void)
{
    Silf *s = malloc(sizeof(Silf)); __CPROVER_assume(s);
    s->m_classOffsets = 0; s->m_classData = 0;
    size_t len = nondet_size_t(); bool v4 = nondet_bool(); unsigned nc = nondet_unsigned();
    __CPROVER_assume((len == 8 && nc == 1) || (len == 14 && nc == 2) || (len == 20 && nc == 1) || (len == 24 && nc == 2));
    Error e; e._e = 0;
#define RUN(K, NC) if (len == (K) && nc == (NC)) { byte *d = malloc(K); __CPROVER_assume(d); d[0] = 0; d[1] = (NC);   /* numClasses fixed per call, everything else arbitrary */ \
        size_t r = Silf_readClassMap(s, d, (K), v4 ? 0x00040000u : 0x00030000u, &e); \
        if (r != ERROROFFSET) { uint32 mo = (uint32)r; \
            for (unsigned c = 0; c < 5; ++c) if (c < s->m_nClass) { \
                uint32 o = s->m_classOffsets[c], o1 = s->m_classOffsets[c + 1]; \
                __CPROVER_assert(o <= mo && o1 <= mo, "readClassMap: class offsets <= max_off"); \
                if (c < s->m_nLinear) __CPROVER_assert(o <= o1, "readClassMap: linear class offsets monotone"); \
                else __CPROVER_assert(o + 4 <= mo && s->m_classData[o] >= 1 && (uint32)s->m_classData[o] * 2 + o + 4 <= mo && ((o1 - o) & 1) == 0, "readClassMap: lookup class header and pairs inside the class data"); } } }
    RUN(8, 1) RUN(14, 2) RUN(20, 1) RUN(24, 2)     /* 24 bytes / 2 classes: the smallest map with a lookup class that does not start at offset 0 (it can start at max_off) */
    CANARY();
}
#endif
