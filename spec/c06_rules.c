/* C06 - rule precedence kernel: "at each position the engine applies the highest-precedence rule (longest sort key
 * first, then earliest rule) among those that match and whose constraint passes, executes that rule's substitutions ...
 * [a parallel assignment over the matched input]; where no rule applies the glyph passes through unchanged".
 * Functions under contract (extracted from /repo on every run):
 *   RuleEntry::operator<, State::empty, FiniteStateMachine::Rules::begin/end/accumulate_rules      src/inc/Rule.h
 *   cmpRuleEntry, Pass::findNDoRule (non-tracing branch)                                            src/Pass.cpp
 *   Machine::Code::decoder::analyse_opcode, set_ref/set_noref/set_changed, context::context         src/Code.cpp
 *   Machine::status, Code::deletes, Slot::next                                                      src/inc/*.h
 * Ghost models (bodies with asserts, not extracted): Pass::runFSM, testConstraint, doAction, adjustSlot,
 *   SlotMap::collectGarbage in unit c06_find; the store `*out++ = *x++` in unit c06_accumulate.
 * Not decided here: that the FSM tables accept exactly the rules whose class context matches (Pass::runFSM itself: the
 *   64-step walk over a linked slot stream exhausted the solver's memory in every formulation tried), constraint
 *   evaluation per slot, adjustSlot, qsort (trusted to sort by the comparator proved here), pass sequencing.
 */
#include "types.h"
#define assert(x) __CPROVER_assert((x), "source assert: " #x)

/*@unit {'name':'c06_order', 'props':['C06'], 'entry':'h_order', 'enforce':'RuleEntry_lt',
  'claims':'RuleEntry::operator< is the precedence order of the statement: l < r iff l has the longer sort key, or the same sort key and the earlier rule (lower index in the pass rule array); assigns nothing'}@*/
/*@unit {'name':'c06_order_lemma', 'props':['C06'], 'entry':'h_order_lemma', 'replace':['RuleEntry_lt'],
  'claims':'lemma over the contract of operator<: it is a strict total order on the rules of one pass (irreflexive, asymmetric, transitive, and two entries that are unordered both ways name the same rule) - this is what makes the third branch of the merge a duplicate'}@*/
/*@unit {'name':'c06_cmp', 'props':['C06'], 'entry':'h_cmp', 'enforce':'cmpRuleEntry',
  'claims':'cmpRuleEntry (the qsort comparator applied to every success state at load) is negative exactly when a precedes b in the precedence order, positive exactly when b precedes a, zero exactly for the same rule'}@*/

/*@unit {'name':'c06_analyse', 'props':['C06'], 'entry':'h_analyse', 'enforce':'decoder_analyse_opcode', 'defines':['ANALYSE'], 'object_bits':11, 'backend':'cadical', 'replay':'c06_rules', 'witness_defines':[], 'witness_vars':['w_opc'],
  'claims':'loader analysis behind the parallel-assignment semantics of a rule (Machine::Code::decoder::analyse_opcode, all 67 opcodes, symbolic slot position and parameters, exact-size parameter buffer): an action that replaces the glyph of the current slot (put_glyph, put_subs, put_copy from ANOTHER slot - earlier or later - , assoc) marks that slot changed and the code as modifying; every slot an opcode reads (put_copy/put_subs source, push_*_attr, push_feat...) is marked referenced; marks are never cleared, next opens a fresh context, insert steps back, delete sets the delete flag - so apply_analysis inserts a TEMP_COPY for every slot that is changed and read again, and later items see the input glyph'}@*/
/*@unit {'name':'c06_find', 'props':['C06'], 'entry':'h_find', 'enforce':'Pass_findNDoRule', 'defines':['FIND','GRAPHITE2_NTRACING','NR=8','FINDN=128'], 'kind':'bounded', 'unwind':130,
  'bound':'candidate list of at most MAX_RULES=128 entries - the capacity of FiniteStateMachine::Rules, so the unwinding of the scan loop is complete (unwinding assertion) - over a pass of 8 rules (entries may repeat); collaborators runFSM/testConstraint/doAction/collectGarbage/adjustSlot are ghost models (truth table per rule, call log)',
  'claims':'findNDoRule (non-tracing build): candidates are tested in list order, each at most once, only while the machine is healthy; the rule acted on is the first candidate whose constraint is true (no earlier candidate passes), its action code is run exactly once, then garbage collection iff the action deletes and adjustSlot with the returned advance; if no candidate passes or the FSM does not run, no mutator is called and the cursor moves to slot->next(); a machine failure stops without action'}@*/
/*@unit {'name':'c06_accumulate', 'props':['C06','C02'], 'entry':'h_accum', 'enforce':'Rules_accumulate_rules', 'defines':['ACCUM','STUB_STORE','MAXL=4','NRP=8'], 'min_loops':3, 'backend':'cadical', 'object_bits':8, 'timeout':1500, 'cost':100,
  'assumptions':['Rules::m_rules is modelled as a pointer to a separate 2*MAX_RULES array object (pointer arithmetic and comparisons on it are the same as for the member array)',
                 'the store *out++ = *x++ is a ghost model with a body (asserts: destination is the next free entry inside the 128-entry half, source is an input entry, strictly after the previous store; effect: ghost log); the real stores run in c06_accumulate_b0/b1',
                 'harness: both input lists have at most 4 entries over a pass of 8 rules with symbolic sort keys; the loop contracts are inductive over ALL fill levels 0..128 of the output half (g_cnt is havocked), so the cap branch out == lrend is exercised'],
  'claims':'accumulate_rules with loop contracts on all three loops (inductive invariants, termination): every store goes to the next free entry of the other half of m_rules and never beyond its 128 entries, stores are strictly ascending in the precedence order (output sorted and duplicate-free), every stored entry is read from one of the two input lists, every entry of both inputs is stored (an equal entry counts once) unless the cap of 128 is reached and the entry comes after everything kept; m_begin/m_end delimit exactly the stored entries; an empty state changes nothing; every read of *lre / *rre is inside its list'}@*/
/*@unit {'name':'c06_accumulate_b0', 'props':['C06'], 'entry':'h_accum_b', 'defines':['ACCUM','REAL_STORE','UPPER=0'], 'kind':'bounded', 'unwind':3, 'backend':'cadical',
  'bound':'both sorted input lists have at most 1 entry (rules drawn from a pass of 2 rules with symbolic sort keys); the real MAX_RULES=128, so the output cap is not reached',
  'replay':'c06_rules', 'witness_defines':[], 'witness_vars':['w_nl','w_nr','w_upper','w_sort','w_l','w_r'],
  'claims':'accumulate_rules with the real stores: merging a sorted state list into the sorted candidate list yields, in the other half of m_rules, the sorted duplicate-free union (every output entry is an input entry, every input entry is in the output, strictly ascending in the precedence order); the old half, the state list and everything else are not written'}@*/
/*@unit {'name':'c06_accumulate_b1', 'props':['C06'], 'entry':'h_accum_b', 'defines':['ACCUM','REAL_STORE','UPPER=1'], 'kind':'bounded', 'unwind':3, 'backend':'cadical',
  'bound':'both sorted input lists have at most 1 entry (rules drawn from a pass of 2 rules with symbolic sort keys); the real MAX_RULES=128, so the output cap is not reached',
  'replay':'c06_rules', 'witness_defines':[], 'witness_vars':['w_nl','w_nr','w_upper','w_sort','w_l','w_r'],
  'claims':'same with the candidate list in the upper half of m_rules'}@*/

/* ------------------------------------------------------------------ shim structs (fields as in src/inc/Rule.h) */
typedef struct Code Code;
typedef struct Rule { const Code *constraint, *action; unsigned short sort; byte preContext; } Rule;
typedef struct RuleEntry { const Rule *rule; } RuleEntry;

typedef struct State { const RuleEntry *rules, *rules_end; } State;
/*@extract {'file':'src/inc/Rule.h', 'scope': r'class FiniteStateMachine\s*\{', 'kind':'range', 'start': r'enum \{MAX_RULES', 'end': r';', 'end_inclusive': True}@*/
#ifdef STUB_STORE
/* unit c06_accumulate only: m_rules as a pointer to a separate 2*MAX_RULES array object (the code uses m_rules only in `m_rules + k`
   and `m_begin == m_rules`, where the member array decays to the same pointer); keeps the cursors out of the big object */
typedef struct Rules { RuleEntry *m_begin, *m_end, *m_rules; } Rules;
#else
typedef struct Rules { RuleEntry *m_begin, *m_end, m_rules[MAX_RULES*2]; } Rules;
#endif

/* ------------------------------------------------------------------ ghost state / spec */
const Rule *g_rules;      /* the pass's rule array (Pass::m_rules); every RuleEntry points into it */
size_t g_nrules;
#define IDX(p)      ((size_t)OFF(p) / sizeof(Rule))                    /* rule number: position in m_rules */
#define ISRULE(p)   (SAME((p), g_rules) && OFF(p) >= 0 && (size_t)OFF(p) < g_nrules * sizeof(Rule))
/* the statement's order on rules: longest sort key first, then earliest rule */
#define PREC(a, b)  ((a)->sort > (b)->sort || ((a)->sort == (b)->sort && OFF(a) < OFF(b)))      /* lower address in m_rules = lower rule number */

/* ------------------------------------------------------------------ contracts */
bool RuleEntry_lt(const RuleEntry *self, const RuleEntry *r)
__CPROVER_requires(ISRULE(self->rule) && ISRULE(r->rule))
__CPROVER_assigns()
__CPROVER_ensures(__CPROVER_return_value == PREC(self->rule, r->rule));

int cmpRuleEntry(const void *a, const void *b)
__CPROVER_requires(ISRULE(((const RuleEntry *)a)->rule) && ISRULE(((const RuleEntry *)b)->rule))
__CPROVER_assigns()
__CPROVER_ensures((__CPROVER_return_value < 0) == PREC(((const RuleEntry *)a)->rule, ((const RuleEntry *)b)->rule))
__CPROVER_ensures((__CPROVER_return_value > 0) == PREC(((const RuleEntry *)b)->rule, ((const RuleEntry *)a)->rule))
__CPROVER_ensures((__CPROVER_return_value == 0) == (((const RuleEntry *)a)->rule == ((const RuleEntry *)b)->rule));

/* ------------------------------------------------------------------ extracted code */
/*@extract {'file':'src/inc/Rule.h', 'scope': r'struct RuleEntry\s*\{', 'sig': r'bool operator < \(const RuleEntry &r\) const',
            'emit':'bool RuleEntry_lt(const RuleEntry *self, const RuleEntry *r)', 'subs':[[r'\br\.rule\b', 'r->rule', 0]], 'self':['rule']}@*/

/*@extract {'file':'src/Pass.cpp', 'sig': r'static int cmpRuleEntry\(const void \*a, const void \*b\)', 'emit':'int cmpRuleEntry(const void *a, const void *b)',
            'subs':[[r'\*\(RuleEntry \*\)(\w+) < \*\(RuleEntry \*\)(\w+)', r'RuleEntry_lt((RuleEntry *)\1, (RuleEntry *)\2)', 0]]}@*/

/* ------------------------------------------------------------------ harnesses */
size_t nondet_size_t(void); bool nondet_bool(void); unsigned short nondet_ushort(void);
#ifndef NR
#define NR 64                     /* rules in the harness's pass; sort keys symbolic */
#endif

static Rule *mk_rules(size_t n)
{
    Rule *rs = malloc(n * sizeof(Rule)); __CPROVER_assume(rs != NULL);
    g_rules = rs; g_nrules = n;
    return rs;
}
static RuleEntry *mk_entry(Rule *rs, size_t i)
{
    RuleEntry *e = malloc(sizeof(RuleEntry)); __CPROVER_assume(e != NULL);
    e->rule = rs + i;
    return e;
}

void h_order(void)
{
    size_t n = nondet_size_t(), w_a = nondet_size_t(), w_b = nondet_size_t();
    __CPROVER_assume(n <= NR && w_a < n && w_b < n);
    Rule *rs = mk_rules(n);
    bool r = RuleEntry_lt(mk_entry(rs, w_a), mk_entry(rs, w_b));
    (void)r;
    CANARY();
}

void h_cmp(void)
{
    size_t n = nondet_size_t(), w_a = nondet_size_t(), w_b = nondet_size_t();
    __CPROVER_assume(n <= NR && w_a < n && w_b < n);
    Rule *rs = mk_rules(n);
    int r = cmpRuleEntry(mk_entry(rs, w_a), mk_entry(rs, w_b));
    (void)r;
    CANARY();
}

void h_order_lemma(void)
{
    size_t n = nondet_size_t(), a = nondet_size_t(), b = nondet_size_t(), c = nondet_size_t();
    __CPROVER_assume(n <= NR && a < n && b < n && c < n);
    Rule *rs = mk_rules(n);
    RuleEntry *ea = mk_entry(rs, a), *eb = mk_entry(rs, b), *ec = mk_entry(rs, c);
    bool ab = RuleEntry_lt(ea, eb), ba = RuleEntry_lt(eb, ea), bc = RuleEntry_lt(eb, ec), ac = RuleEntry_lt(ea, ec), aa = RuleEntry_lt(ea, ea);
    __CPROVER_assert(!aa, "irreflexive");
    __CPROVER_assert(!(ab && ba), "asymmetric");
    __CPROVER_assert(!(ab && bc) || ac, "transitive");
    __CPROVER_assert((ab || ba) == (ea->rule != eb->rule), "total: unordered both ways exactly for the same rule");
    CANARY();
}

/* ================================================================== accumulate_rules */
#ifdef ACCUM
/* ghost description of the two inputs (set by the harness) */
Rules *g_self; const State *g_state;
RuleEntry *g_lbase;  size_t g_nl;        /* the current candidate list  L = g_lbase[0..g_nl)  (one half of m_rules)     */
const RuleEntry *g_rbase; size_t g_nr;   /* the state's rule list        R = g_rbase[0..g_nr)  (exact-size buffer)        */
size_t g_i, g_j, g_k;                    /* ghost indices: an arbitrary entry of L, of R, of the output                  */
#define OTHER_HALF(self, b) ((b) == (self)->m_rules ? (self)->m_rules + MAX_RULES : (self)->m_rules)
#define NSIZE(self)  ((size_t)((self)->m_end - (self)->m_begin))

static bool list_sorted(const RuleEntry *b, size_t n)      /* strictly ascending in the precedence order (hence duplicate-free) */
{
    for (size_t i = 0; i + 1 < n; ++i) if (!(ISRULE(b[i].rule) && ISRULE(b[i + 1].rule) && PREC(b[i].rule, b[i + 1].rule))) return false;
    return n != 1 || ISRULE(b[0].rule);
}
static bool in_list(const RuleEntry *b, size_t n, const Rule *x)
{
    for (size_t i = 0; i < n; ++i) if (b[i].rule == x) return true;
    return false;
}

/*@extract {'file':'src/inc/Rule.h', 'sig': r'bool State::empty\(\) const', 'emit':'static bool State_empty(const State *self)', 'self':['rules','rules_end']}@*/
/*@extract {'file':'src/inc/Rule.h', 'sig': r'const RuleEntry \* FiniteStateMachine::Rules::begin\(\) const', 'emit':'static const RuleEntry * Rules_begin(const Rules *self)', 'self':['m_begin','m_end','m_rules']}@*/
/*@extract {'file':'src/inc/Rule.h', 'sig': r'const RuleEntry \* FiniteStateMachine::Rules::end\(\) const', 'emit':'static const RuleEntry * Rules_end(const Rules *self)', 'self':['m_begin','m_end','m_rules']}@*/

#ifdef REAL_STORE
/*@extract {'if':'REAL_STORE', 'file':'src/inc/Rule.h', 'sig': r'void FiniteStateMachine::Rules::accumulate_rules\(const State &state\)',
   'emit':'void Rules_accumulate_rules(Rules *self, const State *state)',
   'subs':[[r'state\.empty\(\)', 'State_empty(state)', 0], [r'\bstate\.', 'state->', 0], [r'\bbegin\(\)', 'Rules_begin(self)', 0], [r'\bend\(\)', 'Rules_end(self)', 0],
           [r'\*(\w+) < \*(\w+)', r'RuleEntry_lt(\1, \2)', 0]],
   'self':['m_begin','m_end','m_rules']}@*/
#endif

#ifdef STUB_STORE
/* ---- unit c06_accumulate: inductive proof with loop contracts.
   Spec side: each input entry is described by ghost mirror arrays (sort key and number of its rule in the pass's
   rule array), filled by the harness next to the memory it builds; all spec clauses (sortedness, invariants, the store
   model) talk about the mirrors, so that no spec clause dereferences a pointer the loop contract has havocked (CBMC 6.11
   resolves such a dereference against every object of the program).  Code side: the real operator< reads the real memory.
   `*out++ = *x++` (the only store of the function) is replaced by a ghost model with a body: its asserts are the
   memory safety of the store and the ordering of the output, its effect is logged (FRAMEWORK.md item 5; the real stores
   run in units c06_accumulate_b0/b1). */
RuleEntry *g_obase;                    /* the half of m_rules that receives the result */
size_t g_cnt;                          /* entries stored so far */
unsigned short g_last_sort, g_last_off;      /* key of the last entry stored */
unsigned short g_lsort[MAX_RULES], g_rsort[MAX_RULES];   /* mirrors: sort key of the rule of L[k] / R[k] */
unsigned short g_loff[MAX_RULES], g_roff[MAX_RULES];     /* mirrors: number of that rule = its position in the rule array (the rank among equal keys) */
unsigned short g_xl_off, g_xr_off;     /* the rules named by L[g_i] and R[g_j] */
bool g_seen_l, g_seen_r;               /* has an entry naming that rule been stored? */
#define LIDX(p) ((size_t)(OFF(p) - OFF(g_lbase)) / sizeof(RuleEntry))
#define RIDX(p) ((size_t)(OFF(p) - OFF(g_rbase)) / sizeof(RuleEntry))
#define IN_L(p, strict) (SAME((p), g_lbase) && OFF(p) >= OFF(g_lbase) && (size_t)(OFF(p) - OFF(g_lbase)) % sizeof(RuleEntry) == 0 && (strict ? LIDX(p) < g_nl : LIDX(p) <= g_nl))
#define IN_R(p, strict) (SAME((p), g_rbase) && OFF(p) >= OFF(g_rbase) && (size_t)(OFF(p) - OFF(g_rbase)) % sizeof(RuleEntry) == 0 && (strict ? RIDX(p) < g_nr : RIDX(p) <= g_nr))
#define OUT_OK(p)  (SAME((p), g_obase) && OFF(p) == OFF(g_obase) + (long)(g_cnt * sizeof(RuleEntry)))
/* the statement's order on (sort key, rule offset) pairs: longest sort key first, then earliest rule */
#define PRECM(s1, o1, s2, o2) ((s1) > (s2) || ((s1) == (s2) && (o1) < (o2)))
#define LAST_BEFORE(s, o) PRECM(g_last_sort, g_last_off, (s), (o))

static void RuleEntry_store(RuleEntry *dst, const RuleEntry *src)
{
    __CPROVER_assert(OUT_OK(dst) && g_cnt < MAX_RULES, "store: next free entry, inside the 128-entry half of m_rules");
    __CPROVER_assert(IN_L(src, 1) || IN_R(src, 1), "store: the source is an entry of one of the two inputs");
    const bool fromL = SAME(src, g_lbase);
    const unsigned short s = fromL ? g_lsort[LIDX(src)] : g_rsort[RIDX(src)];
    const unsigned short o = fromL ? g_loff[LIDX(src)] : g_roff[RIDX(src)];
    __CPROVER_assert(g_cnt == 0 || LAST_BEFORE(s, o), "store: strictly after the previous store in the precedence order");
    g_cnt = g_cnt + 1; g_last_sort = s; g_last_off = o;
    g_seen_l = g_seen_l || o == g_xl_off; g_seen_r = g_seen_r || o == g_xr_off;
}

#ifndef NRP
#define NRP 136              /* rules of the harness's pass */
#endif
#ifndef MAXL
#define MAXL MAX_RULES       /* longest list the harness builds */
#endif
/* sorted list: strictly ascending in the precedence order at every adjacent pair (hence duplicate-free) */
static bool mirror_sorted(const unsigned short *srt, const unsigned short *off, size_t n)
{
    bool ok = true;
    for (size_t i = 0; i + 1 < MAXL; ++i) ok = ok & (i + 1 >= n || PRECM(srt[i], off[i], srt[i + 1], off[i + 1]));
    return ok;
}
/* what the mirrors mean: entry k names rule number off[k] of the pass's rule array, whose sort key is srt[k] */
#define MIRROR_AT(base, srt, off, k) (ISRULE((base)[k].rule) && OFF((base)[k].rule) == (long)((off)[k] * sizeof(Rule)) && (base)[k].rule->sort == (srt)[k])
static bool mirror_linked(const RuleEntry *b, const unsigned short *srt, const unsigned short *off, size_t n)
{
    bool ok = true;
    for (size_t i = 0; i < MAXL; ++i) ok = ok & (i >= n || MIRROR_AT(b, srt, off, i));
    return ok;
}

void Rules_accumulate_rules(Rules *self, const State *state)
__CPROVER_requires(self == g_self && state == g_state && self->m_begin == g_lbase && self->m_end == g_lbase + g_nl && g_nl <= MAX_RULES
                   && (g_lbase == self->m_rules || g_lbase == self->m_rules + MAX_RULES) && g_obase == OTHER_HALF(self, g_lbase))
__CPROVER_requires(state->rules == g_rbase && state->rules_end == g_rbase + g_nr && g_nr <= MAX_RULES)
__CPROVER_requires(mirror_sorted(g_lsort, g_loff, g_nl) && mirror_sorted(g_rsort, g_roff, g_nr))
/* both lists hold rules of this pass (mirrors describe the memory) and are sorted by the statement's order */
__CPROVER_requires(mirror_linked(g_lbase, g_lsort, g_loff, g_nl) && mirror_linked(g_rbase, g_rsort, g_roff, g_nr))
__CPROVER_requires(g_cnt == 0 && !g_seen_l && !g_seen_r && (g_i >= g_nl || g_xl_off == g_loff[g_i]) && (g_j >= g_nr || g_xr_off == g_roff[g_j]))
__CPROVER_assigns(self->m_begin, self->m_end, g_cnt, g_last_sort, g_last_off, g_seen_l, g_seen_r)
__CPROVER_ensures(g_nr == 0 ==> (self->m_begin == g_lbase && self->m_end == g_lbase + g_nl && g_cnt == 0))
/* the result is exactly the stored entries, in the other half, at most MAX_RULES of them */
__CPROVER_ensures(g_nr != 0 ==> (self->m_begin == g_obase && self->m_end == g_obase + g_cnt && g_cnt <= MAX_RULES))
/* completeness: every entry of L (ghost index g_i) and of R (g_j) was stored (an entry naming the same rule), unless the cap
   was reached - and then it comes after everything that was kept */
__CPROVER_ensures((g_nr != 0 && g_i < g_nl) ==> (g_seen_l || (g_cnt == MAX_RULES && LAST_BEFORE(g_lsort[g_i], g_loff[g_i]))))
__CPROVER_ensures((g_nr != 0 && g_j < g_nr) ==> (g_seen_r || (g_cnt == MAX_RULES && LAST_BEFORE(g_rsort[g_j], g_roff[g_j]))));

#define LI LIDX(lre)
#define RI RIDX(rre)
#define INV_PTRS   IN_L(lre, 0) && IN_R(rre, 0) && OUT_OK(out) && g_cnt <= MAX_RULES
/* the last entry stored precedes both heads */
#define INV_ORDER  (g_cnt == 0 || ((LI >= g_nl || LAST_BEFORE(g_lsort[LI], g_loff[LI])) && (RI >= g_nr || LAST_BEFORE(g_rsort[RI], g_roff[RI]))))
/* everything before the heads has been stored; the ghost entries, if still ahead, are not before their list's head */
#define INV_SEEN   ((g_i >= LI || g_i >= g_nl || g_seen_l) && (g_j >= RI || g_j >= g_nr || g_seen_r))
/* ghost re-anchoring of a cursor the loop contract havocked: the identity (asserted), it only tells the tool which object the cursor is in */
#define ANCHOR_L { const RuleEntry *a_ = g_lbase + (lre - g_lbase); __CPROVER_assert(a_ == lre, "anchor is the identity"); lre = a_; }
#define ANCHOR_R { const RuleEntry *a_ = g_rbase + (rre - g_rbase); __CPROVER_assert(a_ == rre, "anchor is the identity"); rre = a_; }
/*@extract {'if':'STUB_STORE', 'file':'src/inc/Rule.h', 'sig': r'void FiniteStateMachine::Rules::accumulate_rules\(const State &state\)',
   'emit':'void Rules_accumulate_rules(Rules *self, const State *state)',
   'subs':[[r'state\.empty\(\)', 'State_empty(state)', 0], [r'\bstate\.', 'state->', 0], [r'\bbegin\(\)', 'Rules_begin(self)', 0], [r'\bend\(\)', 'Rules_end(self)', 0],
           [r'\*(\w+) < \*(\w+)', r'RuleEntry_lt(\1, \2)', 0],
           [r'\*out\+\+ = \*(\w+)\+\+;', r'RuleEntry_store(out++, \1++);', 0]],
   'self':['m_begin','m_end','m_rules'],
   'inserts':[[1, 'ANCHOR_L ANCHOR_R'], [2, 'ANCHOR_L'], [3, 'ANCHOR_R']],
   'loops':{1: """__CPROVER_assigns(lre, rre, out, g_cnt, g_last_sort, g_last_off, g_seen_l, g_seen_r)
                  __CPROVER_loop_invariant(INV_PTRS && RI < g_nr)
                  __CPROVER_loop_invariant(INV_ORDER)
                  __CPROVER_loop_invariant(INV_SEEN)
                  __CPROVER_decreases((g_nl - LI) + (g_nr - RI))""",
            2: """__CPROVER_assigns(lre, out, g_cnt, g_last_sort, g_last_off, g_seen_l, g_seen_r)
                  __CPROVER_loop_invariant(INV_PTRS && RI == g_nr)
                  __CPROVER_loop_invariant(INV_ORDER)
                  __CPROVER_loop_invariant(INV_SEEN)
                  __CPROVER_decreases(g_nl - LI)""",
            3: """__CPROVER_assigns(rre, out, g_cnt, g_last_sort, g_last_off, g_seen_l, g_seen_r)
                  __CPROVER_loop_invariant(INV_PTRS && (LI == g_nl || g_cnt == MAX_RULES))
                  __CPROVER_loop_invariant(INV_ORDER)
                  __CPROVER_loop_invariant(INV_SEEN)
                  __CPROVER_decreases(g_nr - RI)"""}}@*/

void h_accum(void)
{
    Rule *rs = malloc(NRP * sizeof(Rule)); __CPROVER_assume(rs != NULL);
    unsigned short sort[NRP];
    for (size_t m = 0; m < NRP; ++m) rs[m].sort = sort[m];
    g_rules = rs; g_nrules = NRP;
    Rules *R = malloc(sizeof(Rules)); __CPROVER_assume(R != NULL);
    R->m_rules = malloc(2 * MAX_RULES * sizeof(RuleEntry)); __CPROVER_assume(R->m_rules != NULL);
    size_t nl = nondet_size_t(), nr = nondet_size_t(); bool upper = nondet_bool();
    unsigned char a[MAXL], b[MAXL];
    __CPROVER_assume(nl <= MAXL && nr <= MAXL);
    /* the candidate list (written to both halves at fixed indices; `upper` selects the half that is current) and its mirrors */
    for (size_t k = 0; k < MAXL; ++k) { __CPROVER_assume(a[k] < NRP); R->m_rules[k].rule = R->m_rules[MAX_RULES + k].rule = rs + a[k]; g_lsort[k] = sort[a[k]]; g_loff[k] = a[k]; }
    RuleEntry *lbase = R->m_rules + (upper ? MAX_RULES : 0);
    R->m_begin = lbase; R->m_end = lbase + nl;
    RuleEntry *sr = malloc(MAXL * sizeof(RuleEntry)); __CPROVER_assume(sr != NULL);
    for (size_t k = 0; k < MAXL; ++k) { __CPROVER_assume(b[k] < NRP); sr[k].rule = rs + b[k]; g_rsort[k] = sort[b[k]]; g_roff[k] = b[k]; }
    State *st = malloc(sizeof(State)); __CPROVER_assume(st != NULL);
    st->rules = sr; st->rules_end = sr + nr;
    g_self = R; g_state = st; g_lbase = lbase; g_nl = nl; g_rbase = sr; g_nr = nr; g_obase = OTHER_HALF(R, lbase);
    g_i = nondet_size_t(); g_j = nondet_size_t(); g_cnt = 0; g_seen_l = g_seen_r = false;
    if (g_i < nl) g_xl_off = g_loff[g_i];
    if (g_j < nr) g_xr_off = g_roff[g_j];
    Rules_accumulate_rules(R, st);
    CANARY();
}
#endif

/* ---- unit c06_accumulate_b: the real function with its real stores on the real struct layout, bounded.
   (dfcc contract instrumentation of these stores runs out of memory even for two-entry lists, so the contract is written as
   assumptions / assertions of the harness around a direct call; the frame is checked for the old half and both cursors.) */
#define NRB 2
#define BL 1
#define BR 1
#ifdef REAL_STORE
void h_accum_b(void)
{
    size_t w_nl = nondet_size_t(), w_nr = nondet_size_t(); const bool w_upper = UPPER;       /* which half holds the candidates: one unit per half, keeps offsets concrete */
    unsigned short w_sort[NRB]; unsigned char w_l[BL], w_r[BR];
    __CPROVER_assume(w_nl <= BL && w_nr <= BR);
    Rule *rs = mk_rules(NRB);
    for (int i = 0; i < NRB; ++i) rs[i].sort = w_sort[i];
    Rules *R = malloc(sizeof(Rules)); __CPROVER_assume(R != NULL);
    RuleEntry *const lbase = R->m_rules + (UPPER ? MAX_RULES : 0), *const obase = R->m_rules + (UPPER ? 0 : MAX_RULES);
    R->m_begin = lbase; R->m_end = lbase + w_nl;
    for (int i = 0; i < BL; ++i) if ((size_t)i < w_nl) { __CPROVER_assume(w_l[i] < NRB); lbase[i].rule = rs + w_l[i]; }
    /* the state's list; the entry at rules_end is poisoned so that reading it is a pointer obligation */
    RuleEntry *sr = malloc((BR + 1) * sizeof(RuleEntry)); __CPROVER_assume(sr != NULL);
    for (int i = 0; i < BR; ++i) if ((size_t)i < w_nr) { __CPROVER_assume(w_r[i] < NRB); sr[i].rule = rs + w_r[i]; }
    sr[w_nr].rule = NULL;
    State *st = malloc(sizeof(State)); __CPROVER_assume(st != NULL);
    st->rules = sr; st->rules_end = sr + w_nr;
    /* preconditions: both lists sorted by the statement's order (loaded State: load-time qsort; candidate list: previous merges) */
    __CPROVER_assume(list_sorted(lbase, w_nl) && list_sorted(sr, w_nr));
    const Rule *oldl[BL]; for (int i = 0; i < BL; ++i) oldl[i] = (size_t)i < w_nl ? lbase[i].rule : NULL;

    Rules_accumulate_rules(R, st);

    if (w_nr == 0) __CPROVER_assert(R->m_begin == lbase && R->m_end == lbase + w_nl, "an empty state changes nothing");
    else {
        __CPROVER_assert(R->m_begin == obase && SAME(R->m_end, obase) && R->m_end >= obase && NSIZE(R) <= w_nl + w_nr, "result is in the other half of m_rules");
        const size_t n = NSIZE(R);
        for (size_t k = 0; k + 1 < BL + BR; ++k) if (k + 1 < n)
            __CPROVER_assert(PREC(obase[k].rule, obase[k + 1].rule), "output strictly ascending in the precedence order (sorted, duplicate-free)");
        for (size_t k = 0; k < BL + BR; ++k) if (k < n)
            __CPROVER_assert(in_list(lbase, w_nl, obase[k].rule) || in_list(sr, w_nr, obase[k].rule), "every output entry is an entry of one of the inputs");
        for (size_t k = 0; k < BL; ++k) if (k < w_nl) __CPROVER_assert(in_list(obase, n, lbase[k].rule), "every candidate is kept");
        for (size_t k = 0; k < BR; ++k) if (k < w_nr) __CPROVER_assert(in_list(obase, n, sr[k].rule), "every rule of the state is added");
    }
    for (int i = 0; i < BL; ++i) if ((size_t)i < w_nl) __CPROVER_assert(lbase[i].rule == oldl[i], "frame: the old half is not written");
    for (int i = 0; i < BR; ++i) if ((size_t)i < w_nr) __CPROVER_assert(sr[i].rule == rs + w_r[i], "frame: the state's list is not written");
    __CPROVER_assert(st->rules == sr && st->rules_end == sr + w_nr, "frame: the state is not written");
    CANARY();
}
#endif
#endif /* ACCUM */

/* ================================================================== findNDoRule */
#ifdef FIND
typedef struct Slot { struct Slot *m_next, *m_prev; unsigned short m_glyphid; } Slot;       /* the three fields the extracted code reads */
typedef struct SlotMap SlotMap;
typedef struct Pass Pass;
struct Code { bool _delete; };
/*@extract {'if':'FIND', 'file':'src/inc/Machine.h', 'scope': r'class Machine\s*\{', 'kind':'range', 'start': r'enum status_t \{', 'end': r'\};', 'end_inclusive': True}@*/
typedef struct Machine { enum status_t _status; } Machine;
typedef struct FiniteStateMachine { Rules rules; SlotMap *slots; void *dbgout; } FiniteStateMachine;
/*@extract {'if':'FIND', 'file':'src/inc/Machine.h', 'sig': r'inline Machine::status_t Machine::status\(\) const throw\(\)', 'emit':'static enum status_t Machine_status(const Machine *self)', 'self':['_status']}@*/
/*@extract {'if':'FIND', 'file':'src/inc/Code.h', 'scope': r'class Machine::Code\s*\{', 'sig': r'bool\s+deletes\(\) const throw\(\)', 'emit':'static bool Code_deletes(const Code *self)', 'self':['_delete']}@*/
/*@extract {'if':'FIND', 'file':'src/inc/Slot.h', 'scope': r'class Slot\s*\{', 'sig': r'Slot \*next\(\) const', 'emit':'static Slot *Slot_next(const Slot *self)', 'self':['m_next']}@*/
/*@extract {'if':'FIND', 'file':'src/inc/Rule.h', 'sig': r'const RuleEntry \* FiniteStateMachine::Rules::begin\(\) const', 'emit':'static const RuleEntry * Rules_begin(const Rules *self)', 'self':['m_begin','m_end','m_rules']}@*/
/*@extract {'if':'FIND', 'file':'src/inc/Rule.h', 'sig': r'const RuleEntry \* FiniteStateMachine::Rules::end\(\) const', 'emit':'static const RuleEntry * Rules_end(const Rules *self)', 'self':['m_begin','m_end','m_rules']}@*/

/* ---- ghost: the candidate list runFSM leaves, a truth table of the constraints, a call log */
Slot **g_slotp; Slot *g_slot0, *g_next0; Machine *g_m; FiniteStateMachine *g_fsm;
const RuleEntry *g_ebase; size_t g_n;      /* candidates E = g_ebase[0..g_n) in precedence order */
bool g_run_ok;                             /* result of runFSM */
bool g_tc[NR], g_fail[NR];                 /* per rule: constraint true / running it breaks the machine */
size_t g_tc_calls, g_acted, g_gc, g_adjusted, g_w, g_k;
const Code *g_acted_code; int g_adv; bool g_act_fails;
#define TC(k) (g_tc[IDX(g_ebase[k].rule)] && !g_fail[IDX(g_ebase[k].rule)])
Slot *nondet_slotp(void); int nondet_int(void);

/* ghost models of the collaborators (bodies: asserts = their call-site obligations, assignments = their logged effect) */
static bool Pass_runFSM(const Pass *self, FiniteStateMachine *fsm, Slot *slot)
{
    __CPROVER_assert(slot == g_slot0 && g_tc_calls == 0, "runFSM is run once, on the cursor slot");
    fsm->rules.m_begin = (RuleEntry *)g_ebase; fsm->rules.m_end = (RuleEntry *)g_ebase + g_n;      /* the accumulated candidates */
    return g_run_ok;
}
static bool Pass_testConstraint(const Pass *self, const Rule *r, Machine *m)
{
    __CPROVER_assert(g_run_ok && g_acted == 0 && m->_status == finished, "constraints are tested only after a successful FSM run, before any action, on a healthy machine");
    __CPROVER_assert(g_tc_calls < g_n && r == g_ebase[g_tc_calls].rule, "candidates are tested in list order, each once");
    g_tc_calls = g_tc_calls + 1;
    if (g_fail[IDX(r)]) { m->_status = died_early; return false; }
    return g_tc[IDX(r)];
}
static int Pass_doAction(const Pass *self, const Code *codeptr, Slot **slot_out, Machine *m)
{
    __CPROVER_assert(g_acted == 0 && m->_status == finished && slot_out == g_slotp, "at most one action per position, on a healthy machine");
    g_acted = 1; g_acted_code = codeptr; g_w = g_tc_calls - 1;
    if (g_act_fails) { m->_status = slot_offset_out_bounds; *slot_out = NULL; return 0; }
    *slot_out = nondet_slotp();
    return g_adv;
}
static void SlotMap_collectGarbage(SlotMap *smap, Slot **aSlot)
{
    __CPROVER_assert(g_acted == 1 && g_adjusted == 0 && g_m->_status == finished && smap == g_fsm->slots && aSlot == g_slotp, "garbage collection only after a successful action, before adjustSlot");
    g_gc = g_gc + 1; *aSlot = nondet_slotp();
}
static void Pass_adjustSlot(const Pass *self, int delta, Slot **slot_out, SlotMap *smap)
{
    __CPROVER_assert(g_acted == 1 && g_m->_status == finished && delta == g_adv && smap == g_fsm->slots && slot_out == g_slotp, "adjustSlot gets the advance the action returned");
    g_adjusted = g_adjusted + 1; *slot_out = nondet_slotp();
}

void Pass_findNDoRule(const Pass *self, Slot **slot, Machine *m, FiniteStateMachine *fsm)
__CPROVER_requires(slot == g_slotp && *slot == g_slot0 && g_slot0 != NULL && g_slot0->m_next == g_next0 && m == g_m && fsm == g_fsm && m->_status == finished)
__CPROVER_requires(g_n <= MAX_RULES && g_tc_calls == 0 && g_acted == 0 && g_gc == 0 && g_adjusted == 0)
__CPROVER_assigns(*slot, m->_status, fsm->rules.m_begin, fsm->rules.m_end, g_tc_calls, g_acted, g_gc, g_adjusted, g_w, g_acted_code)
/* the FSM did not run (too little pre-context / too many slots): nothing is tested or done, the glyph passes through */
__CPROVER_ensures(!g_run_ok ==> (g_tc_calls == 0 && g_acted == 0 && g_gc == 0 && g_adjusted == 0 && *slot == g_next0 && m->_status == finished))
/* precedence: the rule acted on is a candidate whose constraint is true, and no earlier candidate (ghost index g_k) passes */
__CPROVER_ensures(g_acted == 1 ==> (g_run_ok && g_w < g_n && g_acted_code == g_ebase[g_w].rule->action && TC(g_w) && (g_k >= g_w || !TC(g_k))))
/* if some candidate passes, a rule fires (or the machine failed on the way) */
__CPROVER_ensures((g_run_ok && g_k < g_n && TC(g_k)) ==> (g_acted == 1 || m->_status != finished))
/* no candidate passes: every candidate was tested, no mutator is called, the cursor moves to the next slot */
__CPROVER_ensures((g_acted == 0 && m->_status == finished) ==> (g_gc == 0 && g_adjusted == 0 && *slot == g_next0 && (!g_run_ok || g_tc_calls == g_n)))
/* after a successful action: garbage collection iff the action deletes, then exactly one adjustSlot */
__CPROVER_ensures((g_acted == 1 && m->_status == finished) ==> (g_adjusted == 1 && g_gc == (g_acted_code->_delete ? 1 : 0)))
/* a machine failure (in a constraint or in the action) stops without garbage collection / adjustSlot */
__CPROVER_ensures(m->_status != finished ==> (g_gc == 0 && g_adjusted == 0));

/*@extract {'if':'FIND', 'file':'src/Pass.cpp', 'sig': r'void Pass::findNDoRule\(Slot \* & slot, Machine &m, FiniteStateMachine & fsm\) const',
   'emit':'void Pass_findNDoRule(const Pass *self, Slot **slot, Machine *m, FiniteStateMachine *fsm)',
   'subs':[[r'runFSM\(fsm, slot\)', 'Pass_runFSM(self, fsm, slot)', 0],
           [r'fsm\.rules\.begin\(\)', 'Rules_begin(&fsm->rules)', 0], [r'fsm\.rules\.end\(\)', 'Rules_end(&fsm->rules)', 0],
           [r'testConstraint\(\*r->rule, m\)', 'Pass_testConstraint(self, r->rule, m)', 0],
           [r'm\.status\(\)', 'Machine_status(m)', 0], [r'Machine::finished', 'finished', 0],
           [r'doAction\(r->rule->action, slot, m\)', 'Pass_doAction(self, r->rule->action, &slot, m)', 0],
           [r'r->rule->action->deletes\(\)', 'Code_deletes(r->rule->action)', 0],
           [r'fsm\.slots\.collectGarbage\(slot\)', 'SlotMap_collectGarbage(fsm->slots, &slot)', 0],
           [r'adjustSlot\(adv, slot, fsm\.slots\)', 'Pass_adjustSlot(self, adv, &slot, fsm->slots)', 0],
           [r'slot->next\(\)', 'Slot_next(slot)', 0], [r'\bfsm\.', 'fsm->', 0]],
   'refs':['slot']}@*/

void h_find(void)
{
    size_t n = nondet_size_t(), nrules = nondet_size_t();
    __CPROVER_assume(n <= FINDN && nrules <= NR);
    Rule *rs = mk_rules(NR); g_nrules = nrules;                          /* fixed-size allocations: symbolic-size struct arrays cost minutes */
    RuleEntry *es = malloc(FINDN * sizeof(RuleEntry)); __CPROVER_assume(es != NULL);             /* reads beyond entry n are caught by the testConstraint model */
    for (size_t k = 0; k < FINDN; ++k) if (k < n) { size_t a = nondet_size_t(); __CPROVER_assume(a < nrules); es[k].rule = rs + a; }
    struct Code *codes = malloc(NR * sizeof(struct Code)); __CPROVER_assume(codes != NULL);
    for (size_t k = 0; k < NR; ++k) { codes[k]._delete = nondet_bool(); rs[k].action = codes + k; g_tc[k] = nondet_bool(); g_fail[k] = nondet_bool(); }
    Slot *s0 = malloc(sizeof(Slot)), *s1 = nondet_bool() ? NULL : malloc(sizeof(Slot)); __CPROVER_assume(s0 != NULL);
    s0->m_next = s1;
    Slot **sp = malloc(sizeof(Slot *)); __CPROVER_assume(sp != NULL); *sp = s0;
    Machine *m = malloc(sizeof(Machine)); __CPROVER_assume(m != NULL); m->_status = finished;
    FiniteStateMachine *fsm = malloc(sizeof(FiniteStateMachine)); __CPROVER_assume(fsm != NULL);
    fsm->slots = malloc(1);
    g_slotp = sp; g_slot0 = s0; g_next0 = s1; g_m = m; g_fsm = fsm; g_ebase = es; g_n = n;
    g_run_ok = nondet_bool(); g_act_fails = nondet_bool(); g_adv = nondet_int(); g_k = nondet_size_t();
    g_tc_calls = g_acted = g_gc = g_adjusted = 0;
    Pass_findNDoRule(malloc(1), sp, m, fsm);
    CANARY();
}
#endif /* FIND */

/* ================================================================== analyse_opcode (temp-copy marking) */
#ifdef ANALYSE
typedef void * instr;
/*@extract {'if':'ANALYSE', 'file':'src/inc/Machine.h', 'kind':'range', 'start': r'enum \{VARARGS', 'end': r';', 'end_inclusive': True}@*/
/*@extract {'if':'ANALYSE', 'file':'src/inc/Machine.h', 'kind':'range', 'start': r'enum opcode \{', 'end': r'\};', 'end_inclusive': True, 'pre':'typedef ', 'subs':[[r'\};', '} opcode;', 1]]}@*/
/*@extract {'if':'ANALYSE', 'file':'src/inc/Machine.h', 'kind':'range', 'start': r'struct opcode_t\s*\{', 'end': r'\};', 'end_inclusive': True, 'pre':'typedef ', 'subs':[[r'\};', '} opcode_t;', 1]]}@*/
#define do_(name) ((void *)1)
#include "inc/opcode_table.h"
/*@extract {'if':'ANALYSE', 'file':'src/Code.cpp', 'scope': r'class Machine::Code::decoder\s*\{', 'kind':'range', 'start': r'static const int NUMCONTEXTS', 'end': r';', 'end_inclusive': True,
            'subs':[[r'static const int NUMCONTEXTS = (\d+);', r'enum { NUMCONTEXTS = \1 };', 1]]}@*/
/* struct context of Code.cpp (fields as there; its constructor is extracted below) */
typedef struct context { struct { uint8 changed:1, referenced:1; } flags; uint8 codeRef; } context;
typedef struct CodeA { size_t _instr_count; bool _modify, _delete; } CodeA;                     /* the fields of Machine::Code that the analysis touches */
typedef struct decoderA { CodeA *_code_; int16 _slotref; context _contexts[NUMCONTEXTS]; byte _max_ref; } decoderA;
/*@extract {'if':'ANALYSE', 'file':'src/Code.cpp', 'scope': r'struct context\s*\{', 'ctor': True, 'sig': r'context\(uint8 ref=0\)', 'emit':'static void context_ctor(context *self, uint8 ref)', 'self':['codeRef','flags']}@*/
/*@extract {'if':'ANALYSE', 'file':'src/Code.cpp', 'sig': r'void Machine::Code::decoder::set_ref\(int index\) throw\(\)', 'emit':'static void decoder_set_ref(decoderA *self, int index)', 'self':['_contexts','_slotref','_max_ref']}@*/
/*@extract {'if':'ANALYSE', 'file':'src/Code.cpp', 'sig': r'void Machine::Code::decoder::set_noref\(int index\) throw\(\)', 'emit':'static void decoder_set_noref(decoderA *self, int index)', 'self':['_contexts','_slotref','_max_ref']}@*/
/*@extract {'if':'ANALYSE', 'file':'src/Code.cpp', 'sig': r'void Machine::Code::decoder::set_changed\(int index\) throw\(\)', 'emit':'static void decoder_set_changed(decoderA *self, int index)', 'self':['_contexts','_slotref','_max_ref']}@*/

decoderA *g_dec; const int8 *g_arg; int g_slot0; size_t g_ic0; byte g_maxref0; bool g_mod0, g_del0;
int g_q;                                   /* ghost index: an arbitrary context */
bool g_q_changed0, g_q_ref0; uint8 g_q_code0;
#define INCTX(i) ((i) >= 0 && (i) < NUMCONTEXTS)
#define CTX(i)   (self->_contexts[i])
#define REPLACES_GLYPH(o) ((o) == PUT_GLYPH || (o) == PUT_GLYPH_8BIT_OBS || (o) == PUT_SUBS || (o) == PUT_SUBS_8BIT_OBS || ((o) == PUT_COPY && g_arg[0] != 0))
#define READS_SLOT_AT0(o) ((o) == PUT_COPY || (o) == PUT_SUBS || (o) == PUT_SUBS_8BIT_OBS)
#define READS_SLOT_AT1(o) ((o) == PUSH_GLYPH_ATTR_OBS || (o) == PUSH_SLOT_ATTR || (o) == PUSH_GLYPH_METRIC || (o) == PUSH_ATT_TO_GATTR_OBS || (o) == PUSH_ATT_TO_GLYPH_METRIC || (o) == PUSH_ISLOT_ATTR || (o) == PUSH_FEAT || (o) == SET_FEAT)
#define READS_SLOT_AT2(o) ((o) == PUSH_ATT_TO_GLYPH_ATTR || (o) == PUSH_GLYPH_ATTR)
#define OPENS_CONTEXT(o)  ((o) == NEXT || (o) == COPY_NEXT)

void decoder_analyse_opcode(decoderA *self, const opcode opc, const int8 *arg)
__CPROVER_requires(self == g_dec && arg == g_arg && self->_slotref == g_slot0 && self->_code_->_instr_count == g_ic0 && self->_max_ref == g_maxref0
                   && self->_code_->_modify == g_mod0 && self->_code_->_delete == g_del0)
/* call site (decoder::load after fetch_opcode accepted the opcode): slot position inside the rule; NEXT only while _slotref <= rule length <= 63 */
__CPROVER_requires(g_slot0 >= -1 && g_slot0 <= 254)
__CPROVER_requires(!INCTX(g_q) || (self->_contexts[g_q].flags.changed == g_q_changed0 && self->_contexts[g_q].flags.referenced == g_q_ref0 && self->_contexts[g_q].codeRef == g_q_code0))
__CPROVER_assigns(__CPROVER_object_whole(self), self->_code_->_modify, self->_code_->_delete)
/* an opcode that replaces the glyph of the current slot - for put_copy: whenever the source is another slot, before or after -
   marks the current slot changed and the code as modifying */
__CPROVER_ensures((REPLACES_GLYPH(opc) || opc == ASSOC) && INCTX(g_slot0) ==> CTX(g_slot0).flags.changed)
__CPROVER_ensures(REPLACES_GLYPH(opc) ==> self->_code_->_modify)
/* every slot an opcode reads from is marked referenced */
__CPROVER_ensures((READS_SLOT_AT0(opc) && INCTX(g_slot0 + g_arg[0])) ==> CTX(g_slot0 + g_arg[0]).flags.referenced)
__CPROVER_ensures((READS_SLOT_AT1(opc) && INCTX(g_slot0 + g_arg[1])) ==> CTX(g_slot0 + g_arg[1]).flags.referenced)
__CPROVER_ensures((READS_SLOT_AT2(opc) && INCTX(g_slot0 + g_arg[2])) ==> CTX(g_slot0 + g_arg[2]).flags.referenced)
/* slot position: next opens a fresh context recording where its code starts, insert steps back (not below -1), nothing else moves */
__CPROVER_ensures(self->_slotref == (OPENS_CONTEXT(opc) ? g_slot0 + 1 : (opc == INSERT && g_slot0 >= 0) ? g_slot0 - 1 : g_slot0))
__CPROVER_ensures(OPENS_CONTEXT(opc) ==> (!CTX(g_slot0 + 1).flags.changed && !CTX(g_slot0 + 1).flags.referenced && CTX(g_slot0 + 1).codeRef == (uint8)(g_ic0 + 1)))
/* marks of every other context (ghost index g_q) are never cleared, its code position is kept */
__CPROVER_ensures((INCTX(g_q) && !(OPENS_CONTEXT(opc) && g_q == g_slot0 + 1)) ==> ((g_q_changed0 ==> CTX(g_q).flags.changed) && (g_q_ref0 ==> CTX(g_q).flags.referenced) && CTX(g_q).codeRef == g_q_code0))
/* flags of the code object only go up; delete sets the delete flag; the highest slot touched only grows */
__CPROVER_ensures((g_mod0 ==> self->_code_->_modify) && (g_del0 ==> self->_code_->_delete) && (opc == DELETE ==> self->_code_->_delete) && (opc == INSERT ==> self->_code_->_modify))
__CPROVER_ensures(self->_max_ref >= g_maxref0 && self->_code_ == __CPROVER_old(self->_code_) && self->_code_->_instr_count == g_ic0);

/*@extract {'if':'ANALYSE', 'file':'src/Code.cpp', 'sig': r'void Machine::Code::decoder::analyse_opcode\(const opcode opc, const int8  \* arg\) throw\(\)',
   'emit':'void decoder_analyse_opcode(decoderA *self, const opcode opc, const int8 *arg)',
   'subs':[[r'_contexts\[_slotref\] = context\((.*)\);', r'context_ctor(&_contexts[_slotref], \1);', 0],
           [r'\bset_changed\(', 'decoder_set_changed(self, ', 0], [r'\bset_ref\(', 'decoder_set_ref(self, ', 0], [r'\bset_noref\(', 'decoder_set_noref(self, ', 0],
           [r'_code\._', 'self->_code_->_', 0]],
   'self':['_contexts','_slotref','_max_ref']}@*/

int nondet_int(void); unsigned char nondet_uchar(void); short nondet_short(void);
void h_analyse(void)
{
    decoderA *d = malloc(sizeof(decoderA)); CodeA *c = malloc(sizeof(CodeA)); __CPROVER_assume(d != NULL && c != NULL);
    d->_code_ = c; c->_modify = nondet_bool(); c->_delete = nondet_bool();
    int w_opc = nondet_int(); __CPROVER_assume(w_opc >= 0 && w_opc < MAX_OPCODE);
    /* the parameter bytes of this opcode, exact size (validate_opcode checked that they lie inside the bytecode) */
    const size_t psz = opcode_table[w_opc].param_sz == VARARGS ? (size_t)nondet_uchar() + 1 : opcode_table[w_opc].param_sz;
    int8 *arg = malloc(psz); __CPROVER_assume(arg != NULL);
    g_dec = d; g_arg = arg; g_slot0 = d->_slotref; g_ic0 = c->_instr_count; g_maxref0 = d->_max_ref; g_mod0 = c->_modify; g_del0 = c->_delete;
    __CPROVER_assume(g_slot0 >= -1 && g_slot0 <= 254);
    g_q = nondet_int();
    if (INCTX(g_q)) { g_q_changed0 = d->_contexts[g_q].flags.changed; g_q_ref0 = d->_contexts[g_q].flags.referenced; g_q_code0 = d->_contexts[g_q].codeRef; }
    decoder_analyse_opcode(d, (opcode)w_opc, arg);
    CANARY();
}
#endif /* ANALYSE */
