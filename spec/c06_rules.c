/* C06 - rule precedence kernel: "at each position the engine applies the highest-precedence rule (longest sort key
 * first, then earliest rule) among those that match and whose constraint passes; where no rule applies the glyph
 * passes through unchanged".
 * Functions under contract (extracted from /repo on every run):
 *   RuleEntry::operator<, State::empty, FiniteStateMachine::Rules::begin/end/accumulate_rules      src/inc/Rule.h
 *   cmpRuleEntry, Pass::findNDoRule (non-tracing branch)                                            src/Pass.cpp
 * Not decided here (see the report): that the FSM tables accept exactly the rules whose class context matches,
 * constraint evaluation per slot, adjustSlot, pass sequencing.
 */
#include "types.h"
#define assert(x) __CPROVER_assert((x), "source assert: " #x)

/*@unit {'name':'c06_order', 'props':['C06'], 'entry':'h_order', 'enforce':'RuleEntry_lt',
  'claims':'RuleEntry::operator< is the precedence order of the statement: l < r iff l has the longer sort key, or the same sort key and the earlier rule (lower index in the pass rule array); assigns nothing'}@*/
/*@unit {'name':'c06_order_lemma', 'props':['C06'], 'entry':'h_order_lemma', 'replace':['RuleEntry_lt'],
  'claims':'lemma over the contract of operator<: it is a strict total order on the rules of one pass (irreflexive, asymmetric, transitive, and two entries that are unordered both ways name the same rule) - this is what makes the third branch of the merge a duplicate'}@*/
/*@unit {'name':'c06_cmp', 'props':['C06'], 'entry':'h_cmp', 'enforce':'cmpRuleEntry',
  'claims':'cmpRuleEntry (the qsort comparator applied to every success state at load) is negative exactly when a precedes b in the precedence order, positive exactly when b precedes a, zero exactly for the same rule'}@*/

/*@unit {'name':'c06_find', 'props':['C06'], 'entry':'h_find', 'enforce':'Pass_findNDoRule', 'defines':['FIND','GRAPHITE2_NTRACING','NR=8','FINDN=24'], 'kind':'bounded', 'unwind':26,
  'bound':'candidate list of at most 24 entries (capacity is MAX_RULES=128) over a pass of 8 rules; collaborators runFSM/testConstraint/doAction/collectGarbage/adjustSlot are ghost models (truth table per rule, call log)',
  'claims':'findNDoRule (non-tracing build): candidates are tested in list order, each at most once, only while the machine is healthy; the rule acted on is the first candidate whose constraint is true (no earlier candidate passes), its action code is run exactly once, then garbage collection iff the action deletes and adjustSlot with the returned advance; if no candidate passes or the FSM does not run, no mutator is called and the cursor moves to slot->next(); a machine failure stops without action'}@*/
/*@unit {'name':'c06_accumulate', 'props':['C06'], 'entry':'h_accum', 'enforce':'Rules_accumulate_rules', 'defines':['ACCUM','STUB_STORE','MAXL=8','NRP=16'], 'min_loops':3, 'backend':'cadical', 'timeout':1500,
  'claims':'accumulate_rules, all list lengths up to the real MAX_RULES=128 (loop contracts): every store goes to the next free entry of the other half of m_rules and never beyond its 128 entries, stores are strictly ascending in the precedence order (output sorted and duplicate-free), every stored entry is read from one of the two input lists, and unless the cap of 128 is reached every entry of both inputs has been stored (an equal entry counts once); m_begin/m_end delimit exactly the stored entries'}@*/
/*@unit {'name':'c06_accumulate_b', 'props':['C06'], 'entry':'h_accum_b', 'enforce':'Rules_accumulate_rules', 'defines':['ACCUM','REAL_STORE'], 'kind':'bounded', 'unwind':10,
  'bound':'both sorted input lists have at most 4 entries (rules drawn from a pass of 6 rules with symbolic sort keys); the real MAX_RULES=128, so the output cap is not reached',
  'replay':'c06_rules', 'witness_defines':['ACCUM','REAL_STORE'], 'witness_vars':['w_nl','w_nr','w_upper','w_sort','w_l','w_r'],
  'claims':'accumulate_rules with the real stores: merging a sorted state list into the sorted candidate list yields, in the other half of m_rules, the sorted duplicate-free union (every output entry is an input entry, every input entry is in the output, strictly ascending in the precedence order); the old half, the state list and everything else are not written'}@*/

/* ------------------------------------------------------------------ shim structs (fields as in src/inc/Rule.h) */
typedef struct Code Code;
typedef struct Rule { const Code *constraint, *action; unsigned short sort; byte preContext; } Rule;
typedef struct RuleEntry { const Rule *rule; } RuleEntry;

typedef struct State { const RuleEntry *rules, *rules_end; } State;
/*@extract {'file':'src/inc/Rule.h', 'scope': r'class FiniteStateMachine\s*\{', 'kind':'range', 'start': r'enum \{MAX_RULES', 'end': r';', 'end_inclusive': True}@*/
#ifdef STUB_STORE
/* unit c06_accumulate only: m_rules as a pointer to a separate 2*MAX_RULES array object (the code uses m_rules only in `m_rules + k`
   and `m_begin == m_rules`, where the member array decays to the same pointer); keeps the cursors out of the big object */
typedef struct Rules { RuleEntry *m_begin, *m_end, *m_rules; } Rules;
#else
typedef struct Rules { RuleEntry *m_begin, *m_end, m_rules[MAX_RULES*2]; } Rules;
#endif

/* ------------------------------------------------------------------ ghost state / spec */
const Rule *g_rules;      /* the pass's rule array (Pass::m_rules); every RuleEntry points into it */
size_t g_nrules;
#define IDX(p)      ((size_t)OFF(p) / sizeof(Rule))                    /* rule number: position in m_rules */
#define ISRULE(p)   (SAME((p), g_rules) && OFF(p) >= 0 && (size_t)OFF(p) < g_nrules * sizeof(Rule))
/* the statement's order on rules: longest sort key first, then earliest rule */
#define PREC(a, b)  ((a)->sort > (b)->sort || ((a)->sort == (b)->sort && OFF(a) < OFF(b)))      /* lower address in m_rules = lower rule number */

/* ------------------------------------------------------------------ contracts */
bool RuleEntry_lt(const RuleEntry *self, const RuleEntry *r)
__CPROVER_requires(ISRULE(self->rule) && ISRULE(r->rule))
__CPROVER_assigns()
__CPROVER_ensures(__CPROVER_return_value == PREC(self->rule, r->rule));

int cmpRuleEntry(const void *a, const void *b)
__CPROVER_requires(ISRULE(((const RuleEntry *)a)->rule) && ISRULE(((const RuleEntry *)b)->rule))
__CPROVER_assigns()
__CPROVER_ensures((__CPROVER_return_value < 0) == PREC(((const RuleEntry *)a)->rule, ((const RuleEntry *)b)->rule))
__CPROVER_ensures((__CPROVER_return_value > 0) == PREC(((const RuleEntry *)b)->rule, ((const RuleEntry *)a)->rule))
__CPROVER_ensures((__CPROVER_return_value == 0) == (((const RuleEntry *)a)->rule == ((const RuleEntry *)b)->rule));

/* ------------------------------------------------------------------ extracted code */
/*@extract {'file':'src/inc/Rule.h', 'scope': r'struct RuleEntry\s*\{', 'sig': r'bool operator < \(const RuleEntry &r\) const',
            'emit':'bool RuleEntry_lt(const RuleEntry *self, const RuleEntry *r)', 'subs':[[r'\br\.rule\b', 'r->rule', 0]], 'self':['rule']}@*/

/*@extract {'file':'src/Pass.cpp', 'sig': r'static int cmpRuleEntry\(const void \*a, const void \*b\)', 'emit':'int cmpRuleEntry(const void *a, const void *b)',
            'subs':[[r'\*\(RuleEntry \*\)(\w+) < \*\(RuleEntry \*\)(\w+)', r'RuleEntry_lt((RuleEntry *)\1, (RuleEntry *)\2)', 0]]}@*/

/* ------------------------------------------------------------------ harnesses */
size_t nondet_size_t(void); bool nondet_bool(void); unsigned short nondet_ushort(void);
#ifndef NR
#define NR 64                     /* rules in the harness's pass; sort keys symbolic */
#endif

static Rule *mk_rules(size_t n)
{
    Rule *rs = malloc(n * sizeof(Rule)); __CPROVER_assume(rs != NULL);
    g_rules = rs; g_nrules = n;
    return rs;
}
static RuleEntry *mk_entry(Rule *rs, size_t i)
{
    RuleEntry *e = malloc(sizeof(RuleEntry)); __CPROVER_assume(e != NULL);
    e->rule = rs + i;
    return e;
}

void h_order(void)
{
    size_t n = nondet_size_t(), w_a = nondet_size_t(), w_b = nondet_size_t();
    __CPROVER_assume(n <= NR && w_a < n && w_b < n);
    Rule *rs = mk_rules(n);
    bool r = RuleEntry_lt(mk_entry(rs, w_a), mk_entry(rs, w_b));
    (void)r;
    CANARY();
}

void h_cmp(void)
{
    size_t n = nondet_size_t(), w_a = nondet_size_t(), w_b = nondet_size_t();
    __CPROVER_assume(n <= NR && w_a < n && w_b < n);
    Rule *rs = mk_rules(n);
    int r = cmpRuleEntry(mk_entry(rs, w_a), mk_entry(rs, w_b));
    (void)r;
    CANARY();
}

void h_order_lemma(void)
{
    size_t n = nondet_size_t(), a = nondet_size_t(), b = nondet_size_t(), c = nondet_size_t();
    __CPROVER_assume(n <= NR && a < n && b < n && c < n);
    Rule *rs = mk_rules(n);
    RuleEntry *ea = mk_entry(rs, a), *eb = mk_entry(rs, b), *ec = mk_entry(rs, c);
    bool ab = RuleEntry_lt(ea, eb), ba = RuleEntry_lt(eb, ea), bc = RuleEntry_lt(eb, ec), ac = RuleEntry_lt(ea, ec), aa = RuleEntry_lt(ea, ea);
    __CPROVER_assert(!aa, "irreflexive");
    __CPROVER_assert(!(ab && ba), "asymmetric");
    __CPROVER_assert(!(ab && bc) || ac, "transitive");
    __CPROVER_assert((ab || ba) == (ea->rule != eb->rule), "total: unordered both ways exactly for the same rule");
    CANARY();
}

/* ================================================================== accumulate_rules */
#ifdef ACCUM
/* ghost description of the two inputs (set by the harness) */
Rules *g_self; const State *g_state;
RuleEntry *g_lbase;  size_t g_nl;        /* the current candidate list  L = g_lbase[0..g_nl)  (one half of m_rules)     */
const RuleEntry *g_rbase; size_t g_nr;   /* the state's rule list        R = g_rbase[0..g_nr)  (exact-size buffer)        */
size_t g_i, g_j, g_k;                    /* ghost indices: an arbitrary entry of L, of R, of the output                  */
#define OTHER_HALF(self, b) ((b) == (self)->m_rules ? (self)->m_rules + MAX_RULES : (self)->m_rules)
#define NSIZE(self)  ((size_t)((self)->m_end - (self)->m_begin))

static bool list_sorted(const RuleEntry *b, size_t n)      /* strictly ascending in the precedence order (hence duplicate-free) */
{
    for (size_t i = 0; i + 1 < n; ++i) if (!(ISRULE(b[i].rule) && ISRULE(b[i + 1].rule) && PREC(b[i].rule, b[i + 1].rule))) return false;
    return n != 1 || ISRULE(b[0].rule);
}
static bool in_list(const RuleEntry *b, size_t n, const Rule *x)
{
    for (size_t i = 0; i < n; ++i) if (b[i].rule == x) return true;
    return false;
}

/*@extract {'file':'src/inc/Rule.h', 'sig': r'bool State::empty\(\) const', 'emit':'static bool State_empty(const State *self)', 'self':['rules','rules_end']}@*/
/*@extract {'file':'src/inc/Rule.h', 'sig': r'const RuleEntry \* FiniteStateMachine::Rules::begin\(\) const', 'emit':'static const RuleEntry * Rules_begin(const Rules *self)', 'self':['m_begin','m_end','m_rules']}@*/
/*@extract {'file':'src/inc/Rule.h', 'sig': r'const RuleEntry \* FiniteStateMachine::Rules::end\(\) const', 'emit':'static const RuleEntry * Rules_end(const Rules *self)', 'self':['m_begin','m_end','m_rules']}@*/

#ifdef REAL_STORE
void Rules_accumulate_rules(Rules *self, const State *state)
/* class invariant of Rules: the list occupies the start of one of the two halves of m_rules */
__CPROVER_requires(self == g_self && state == g_state && self->m_begin == g_lbase && self->m_end == g_lbase + g_nl && g_nl <= MAX_RULES
                   && (g_lbase == self->m_rules || g_lbase == self->m_rules + MAX_RULES))
/* a loaded State: at most MAX_RULES entries (readStates truncates), sorted by the load-time qsort; the candidate list is sorted */
__CPROVER_requires(state->rules == g_rbase && state->rules_end == g_rbase + g_nr && g_nr <= MAX_RULES)
__CPROVER_requires(list_sorted(g_lbase, g_nl) && list_sorted(g_rbase, g_nr))
/* frame: the two cursors and the half of m_rules that does not hold the current list */
__CPROVER_assigns(self->m_begin, self->m_end;
                  self->m_begin == self->m_rules: __CPROVER_object_upto(self->m_rules + MAX_RULES, MAX_RULES * sizeof(RuleEntry));
                  self->m_begin != self->m_rules: __CPROVER_object_upto(self->m_rules, MAX_RULES * sizeof(RuleEntry)))
/* an empty state changes nothing */
__CPROVER_ensures(g_nr == 0 ==> (self->m_begin == g_lbase && self->m_end == g_lbase + g_nl))
/* otherwise the result is in the other half and respects the cap (class invariant re-established) */
__CPROVER_ensures(g_nr != 0 ==> (self->m_begin == OTHER_HALF(self, g_lbase) && SAME(self->m_end, self->m_begin) && self->m_end >= self->m_begin && NSIZE(self) <= MAX_RULES))
/* sorted by the statement's order and duplicate-free (ghost index g_k over adjacent output pairs) */
__CPROVER_ensures((g_nr != 0 && g_k + 1 < NSIZE(self) && g_k < MAX_RULES) ==> PREC(self->m_begin[g_k].rule, self->m_begin[g_k + 1].rule))
/* every output entry is an entry of one of the inputs */
__CPROVER_ensures((g_nr != 0 && g_k < NSIZE(self)) ==> (in_list(g_lbase, g_nl, self->m_begin[g_k].rule) || in_list(g_rbase, g_nr, self->m_begin[g_k].rule)))
/* every input entry is in the output, unless the cap was reached and it comes after everything kept */
__CPROVER_ensures((g_nr != 0 && g_i < g_nl) ==> (in_list(self->m_begin, NSIZE(self), g_lbase[g_i].rule)
                   || (NSIZE(self) == MAX_RULES && PREC(self->m_begin[MAX_RULES - 1].rule, g_lbase[g_i].rule))))
__CPROVER_ensures((g_nr != 0 && g_j < g_nr) ==> (in_list(self->m_begin, NSIZE(self), g_rbase[g_j].rule)
                   || (NSIZE(self) == MAX_RULES && PREC(self->m_begin[MAX_RULES - 1].rule, g_rbase[g_j].rule))));

/*@extract {'if':'REAL_STORE', 'file':'src/inc/Rule.h', 'sig': r'void FiniteStateMachine::Rules::accumulate_rules\(const State &state\)',
   'emit':'void Rules_accumulate_rules(Rules *self, const State *state)',
   'subs':[[r'state\.empty\(\)', 'State_empty(state)', 0], [r'\bstate\.', 'state->', 0], [r'\bbegin\(\)', 'Rules_begin(self)', 0], [r'\bend\(\)', 'Rules_end(self)', 0],
           [r'\*(\w+) < \*(\w+)', r'RuleEntry_lt(\1, \2)', 0]],
   'self':['m_begin','m_end','m_rules']}@*/
#endif

#ifdef STUB_STORE
/* ---- unit c06_accumulate: inductive proof with loop contracts.
   Spec side: each input entry is described by ghost mirror arrays (sort key and byte offset of its rule in the pass's
   rule array), filled by the harness next to the memory it builds; all spec clauses (sortedness, invariants, the store
   model) talk about the mirrors, so that no spec clause dereferences a pointer the loop contract has havocked (CBMC 6.11
   resolves such a dereference against every object of the program).  Code side: the real operator< reads the real memory.
   `*out++ = *x++` (the only store of the function) is replaced by a ghost model with a body: its asserts are the
   memory safety of the store and the ordering of the output, its effect is logged (FRAMEWORK.md item 5; the real stores
   run in unit c06_accumulate_b). */
RuleEntry *g_obase;                    /* the half of m_rules that receives the result */
size_t g_cnt;                          /* entries stored so far */
unsigned short g_last_sort; long g_last_off;      /* key of the last entry stored */
unsigned short g_lsort[MAX_RULES], g_rsort[MAX_RULES];   /* mirrors: sort key of the rule of L[k] / R[k] */
long g_loff[MAX_RULES], g_roff[MAX_RULES];               /* mirrors: byte offset of that rule in the rule array (its rank among equal keys) */
long g_xl_off, g_xr_off;               /* the rules named by L[g_i] and R[g_j] */
bool g_seen_l, g_seen_r;               /* has an entry naming that rule been stored? */
#define LIDX(p) ((size_t)(OFF(p) - OFF(g_lbase)) / sizeof(RuleEntry))
#define RIDX(p) ((size_t)(OFF(p) - OFF(g_rbase)) / sizeof(RuleEntry))
#define IN_L(p, strict) (SAME((p), g_lbase) && OFF(p) >= OFF(g_lbase) && (size_t)(OFF(p) - OFF(g_lbase)) % sizeof(RuleEntry) == 0 && (strict ? LIDX(p) < g_nl : LIDX(p) <= g_nl))
#define IN_R(p, strict) (SAME((p), g_rbase) && OFF(p) >= OFF(g_rbase) && (size_t)(OFF(p) - OFF(g_rbase)) % sizeof(RuleEntry) == 0 && (strict ? RIDX(p) < g_nr : RIDX(p) <= g_nr))
#define OUT_OK(p)  (SAME((p), g_obase) && OFF(p) == OFF(g_obase) + (long)(g_cnt * sizeof(RuleEntry)))
/* the statement's order on (sort key, rule offset) pairs: longest sort key first, then earliest rule */
#define PRECM(s1, o1, s2, o2) ((s1) > (s2) || ((s1) == (s2) && (o1) < (o2)))
#define LAST_BEFORE(s, o) PRECM(g_last_sort, g_last_off, (s), (o))

static void RuleEntry_store(RuleEntry *dst, const RuleEntry *src)
{
    __CPROVER_assert(OUT_OK(dst) && g_cnt < MAX_RULES, "store: next free entry, inside the 128-entry half of m_rules");
    __CPROVER_assert(IN_L(src, 1) || IN_R(src, 1), "store: the source is an entry of one of the two inputs");
    const bool fromL = SAME(src, g_lbase);
    const unsigned short s = fromL ? g_lsort[LIDX(src)] : g_rsort[RIDX(src)];
    const long o = fromL ? g_loff[LIDX(src)] : g_roff[RIDX(src)];
    __CPROVER_assert(g_cnt == 0 || LAST_BEFORE(s, o), "store: strictly after the previous store in the precedence order");
    g_cnt = g_cnt + 1; g_last_sort = s; g_last_off = o;
    g_seen_l = g_seen_l || o == g_xl_off; g_seen_r = g_seen_r || o == g_xr_off;
}

#ifndef NRP
#define NRP 136              /* rules of the harness's pass */
#endif
#ifndef MAXL
#define MAXL MAX_RULES       /* longest list the harness builds */
#endif
/* sorted list: strictly ascending in the precedence order at every adjacent pair (hence duplicate-free) */
static bool mirror_sorted(const unsigned short *srt, const long *off, size_t n)
{
    bool ok = true;
    for (size_t i = 0; i + 1 < MAXL; ++i) ok = ok & (i + 1 >= n || PRECM(srt[i], off[i], srt[i + 1], off[i + 1]));
    return ok;
}
/* what the mirrors mean (ghost index k): entry k names the rule at that offset of the rule array, with that sort key */
#define MIRROR_AT(base, srt, off, k) (ISRULE((base)[k].rule) && OFF((base)[k].rule) == (off)[k] && (base)[k].rule->sort == (srt)[k])

void Rules_accumulate_rules(Rules *self, const State *state)
__CPROVER_requires(self == g_self && state == g_state && self->m_begin == g_lbase && self->m_end == g_lbase + g_nl && g_nl <= MAX_RULES
                   && (g_lbase == self->m_rules || g_lbase == self->m_rules + MAX_RULES) && g_obase == OTHER_HALF(self, g_lbase))
__CPROVER_requires(state->rules == g_rbase && state->rules_end == g_rbase + g_nr && g_nr <= MAX_RULES)
__CPROVER_requires(mirror_sorted(g_lsort, g_loff, g_nl) && mirror_sorted(g_rsort, g_roff, g_nr))
__CPROVER_requires((g_i >= g_nl || MIRROR_AT(g_lbase, g_lsort, g_loff, g_i)) && (g_j >= g_nr || MIRROR_AT(g_rbase, g_rsort, g_roff, g_j)))
__CPROVER_requires(g_cnt == 0 && !g_seen_l && !g_seen_r && (g_i >= g_nl || g_xl_off == g_loff[g_i]) && (g_j >= g_nr || g_xr_off == g_roff[g_j]))
__CPROVER_assigns(self->m_begin, self->m_end, g_cnt, g_last_sort, g_last_off, g_seen_l, g_seen_r)
__CPROVER_ensures(g_nr == 0 ==> (self->m_begin == g_lbase && self->m_end == g_lbase + g_nl && g_cnt == 0))
/* the result is exactly the stored entries, in the other half, at most MAX_RULES of them */
__CPROVER_ensures(g_nr != 0 ==> (self->m_begin == g_obase && self->m_end == g_obase + g_cnt && g_cnt <= MAX_RULES))
/* completeness: every entry of L (ghost index g_i) and of R (g_j) was stored (an entry naming the same rule), unless the cap
   was reached - and then it comes after everything that was kept */
__CPROVER_ensures((g_nr != 0 && g_i < g_nl) ==> (g_seen_l || (g_cnt == MAX_RULES && LAST_BEFORE(g_lsort[g_i], g_loff[g_i]))))
__CPROVER_ensures((g_nr != 0 && g_j < g_nr) ==> (g_seen_r || (g_cnt == MAX_RULES && LAST_BEFORE(g_rsort[g_j], g_roff[g_j]))));

#define LI LIDX(lre)
#define RI RIDX(rre)
#define INV_PTRS   IN_L(lre, 0) && IN_R(rre, 0) && OUT_OK(out) && g_cnt <= MAX_RULES
/* the last entry stored precedes both heads */
#define INV_ORDER  (g_cnt == 0 || ((LI >= g_nl || LAST_BEFORE(g_lsort[LI], g_loff[LI])) && (RI >= g_nr || LAST_BEFORE(g_rsort[RI], g_roff[RI]))))
/* everything before the heads has been stored; the ghost entries, if still ahead, are not before their list's head */
#define INV_SEEN   ((g_i >= LI || g_i >= g_nl || g_seen_l) && (g_j >= RI || g_j >= g_nr || g_seen_r))
#define NOT_BEFORE(s1, o1, s2, o2) (!PRECM(s1, o1, s2, o2))
#define INV_AHEAD  ((g_i < LI || g_i >= g_nl || NOT_BEFORE(g_lsort[g_i], g_loff[g_i], g_lsort[LI], g_loff[LI])) && (g_j < RI || g_j >= g_nr || NOT_BEFORE(g_rsort[g_j], g_roff[g_j], g_rsort[RI], g_roff[RI])))
/* ghost re-anchoring of a cursor the loop contract havocked: the identity (asserted), it only tells the tool which object the cursor is in */
#define ANCHOR_L { const RuleEntry *a_ = g_lbase + (lre - g_lbase); __CPROVER_assert(a_ == lre, "anchor is the identity"); lre = a_; }
#define ANCHOR_R { const RuleEntry *a_ = g_rbase + (rre - g_rbase); __CPROVER_assert(a_ == rre, "anchor is the identity"); rre = a_; }
/*@extract {'if':'STUB_STORE', 'file':'src/inc/Rule.h', 'sig': r'void FiniteStateMachine::Rules::accumulate_rules\(const State &state\)',
   'emit':'void Rules_accumulate_rules(Rules *self, const State *state)',
   'subs':[[r'state\.empty\(\)', 'State_empty(state)', 0], [r'\bstate\.', 'state->', 0], [r'\bbegin\(\)', 'Rules_begin(self)', 0], [r'\bend\(\)', 'Rules_end(self)', 0],
           [r'\*(\w+) < \*(\w+)', r'RuleEntry_lt(\1, \2)', 0],
           [r'\*out\+\+ = \*(\w+)\+\+;', r'RuleEntry_store(out++, \1++);', 0]],
   'self':['m_begin','m_end','m_rules'],
   'inserts':[[1, 'ANCHOR_L ANCHOR_R'], [2, 'ANCHOR_L'], [3, 'ANCHOR_R']],
   'loops':{1: """__CPROVER_assigns(lre, rre, out, g_cnt, g_last_sort, g_last_off, g_seen_l, g_seen_r)
                  __CPROVER_loop_invariant(INV_PTRS && RI < g_nr)
                  __CPROVER_loop_invariant(INV_ORDER)
                  __CPROVER_loop_invariant(INV_SEEN)
                  __CPROVER_decreases((g_nl - LI) + (g_nr - RI))""",
            2: """__CPROVER_assigns(lre, out, g_cnt, g_last_sort, g_last_off, g_seen_l, g_seen_r)
                  __CPROVER_loop_invariant(INV_PTRS && RI == g_nr)
                  __CPROVER_loop_invariant(INV_ORDER)
                  __CPROVER_loop_invariant(INV_SEEN)
                  __CPROVER_decreases(g_nl - LI)""",
            3: """__CPROVER_assigns(rre, out, g_cnt, g_last_sort, g_last_off, g_seen_l, g_seen_r)
                  __CPROVER_loop_invariant(INV_PTRS && (LI == g_nl || g_cnt == MAX_RULES))
                  __CPROVER_loop_invariant(INV_ORDER)
                  __CPROVER_loop_invariant(INV_SEEN)
                  __CPROVER_decreases(g_nr - RI)"""}}@*/

static void run_accum(Rules *R, RuleEntry *lbase, RuleEntry *obase, Rule *rs, const unsigned short *sort)
{
    size_t nl = nondet_size_t(), nr = nondet_size_t();
    unsigned char a[MAXL], b[MAXL];
    __CPROVER_assume(nl <= MAXL && nr <= MAXL);
    R->m_begin = lbase; R->m_end = lbase + nl;
    for (size_t k = 0; k < MAXL; ++k) { __CPROVER_assume(a[k] < NRP); lbase[k].rule = rs + a[k]; g_lsort[k] = sort[a[k]]; g_loff[k] = (long)(a[k] * sizeof(Rule)); }
    RuleEntry *sr = malloc(MAXL * sizeof(RuleEntry)); __CPROVER_assume(sr != NULL);
    for (size_t k = 0; k < MAXL; ++k) { __CPROVER_assume(b[k] < NRP); sr[k].rule = rs + b[k]; g_rsort[k] = sort[b[k]]; g_roff[k] = (long)(b[k] * sizeof(Rule)); }
    State *st = malloc(sizeof(State)); __CPROVER_assume(st != NULL);
    st->rules = sr; st->rules_end = sr + nr;
    g_self = R; g_state = st; g_lbase = lbase; g_nl = nl; g_rbase = sr; g_nr = nr; g_obase = obase;
    g_i = nondet_size_t(); g_j = nondet_size_t(); g_cnt = 0; g_seen_l = g_seen_r = false;
    if (g_i < nl) g_xl_off = g_loff[g_i];
    if (g_j < nr) g_xr_off = g_roff[g_j];
    Rules_accumulate_rules(R, st);
}
void h_accum(void)
{
    Rule *rs = malloc(NRP * sizeof(Rule)); __CPROVER_assume(rs != NULL);
    unsigned short sort[NRP];
    for (size_t m = 0; m < NRP; ++m) rs[m].sort = sort[m];
    g_rules = rs; g_nrules = NRP;
    Rules *R = malloc(sizeof(Rules)); __CPROVER_assume(R != NULL);
    R->m_rules = malloc(2 * MAX_RULES * sizeof(RuleEntry)); __CPROVER_assume(R->m_rules != NULL);
    if (nondet_bool()) run_accum(R, R->m_rules, R->m_rules + MAX_RULES, rs, sort);
    else               run_accum(R, R->m_rules + MAX_RULES, R->m_rules, rs, sort);
    CANARY();
}
#endif

/* ---- harness: two sorted lists of entries over a pass of NRB rules with symbolic sort keys */
#define NRB 6
#define BL 4
#define BR 4
#ifdef REAL_STORE
void h_accum_b(void)
{
    size_t w_nl = nondet_size_t(), w_nr = nondet_size_t(); bool w_upper = nondet_bool();
    unsigned short w_sort[NRB]; unsigned char w_l[BL], w_r[BR];
    __CPROVER_assume(w_nl <= BL && w_nr <= BR);
    Rule *rs = mk_rules(NRB);
    for (int i = 0; i < NRB; ++i) rs[i].sort = w_sort[i];
    Rules *R = malloc(sizeof(Rules)); __CPROVER_assume(R != NULL);
    R->m_begin = R->m_rules + (w_upper ? MAX_RULES : 0); R->m_end = R->m_begin + w_nl;
    for (int i = 0; i < BL; ++i) if ((size_t)i < w_nl) { __CPROVER_assume(w_l[i] < NRB); R->m_begin[i].rule = rs + w_l[i]; }
    RuleEntry *sr = malloc(w_nr * sizeof(RuleEntry)); __CPROVER_assume(sr != NULL);          /* exact size */
    for (int i = 0; i < BR; ++i) if ((size_t)i < w_nr) { __CPROVER_assume(w_r[i] < NRB); sr[i].rule = rs + w_r[i]; }
    State *st = malloc(sizeof(State)); __CPROVER_assume(st != NULL);
    st->rules = sr; st->rules_end = sr + w_nr;
    g_self = R; g_state = st; g_lbase = R->m_begin; g_nl = w_nl; g_rbase = sr; g_nr = w_nr;
    g_i = nondet_size_t(); g_j = nondet_size_t(); g_k = nondet_size_t();
    Rules_accumulate_rules(R, st);
    CANARY();
}
#endif
#endif /* ACCUM */

/* ================================================================== findNDoRule */
#ifdef FIND
typedef struct Slot { struct Slot *m_next, *m_prev; unsigned short m_glyphid; } Slot;
typedef struct SlotMap SlotMap;
typedef struct Pass Pass;
struct Code { bool _delete; };
/*@extract {'if':'FIND', 'file':'src/inc/Machine.h', 'scope': r'class Machine\s*\{', 'kind':'range', 'start': r'enum status_t \{', 'end': r'\};', 'end_inclusive': True}@*/
typedef struct Machine { enum status_t _status; } Machine;
typedef struct FiniteStateMachine { Rules rules; SlotMap *slots; void *dbgout; } FiniteStateMachine;
/*@extract {'if':'FIND', 'file':'src/inc/Machine.h', 'sig': r'inline Machine::status_t Machine::status\(\) const throw\(\)', 'emit':'static enum status_t Machine_status(const Machine *self)', 'self':['_status']}@*/
/*@extract {'if':'FIND', 'file':'src/inc/Code.h', 'scope': r'class Machine::Code\s*\{', 'sig': r'bool\s+deletes\(\) const throw\(\)', 'emit':'static bool Code_deletes(const Code *self)', 'self':['_delete']}@*/
/*@extract {'if':'FIND', 'file':'src/inc/Slot.h', 'scope': r'class Slot\s*\{', 'sig': r'Slot \*next\(\) const', 'emit':'static Slot *Slot_next(const Slot *self)', 'self':['m_next']}@*/
/*@extract {'if':'FIND', 'file':'src/inc/Rule.h', 'sig': r'const RuleEntry \* FiniteStateMachine::Rules::begin\(\) const', 'emit':'static const RuleEntry * Rules_begin(const Rules *self)', 'self':['m_begin','m_end','m_rules']}@*/
/*@extract {'if':'FIND', 'file':'src/inc/Rule.h', 'sig': r'const RuleEntry \* FiniteStateMachine::Rules::end\(\) const', 'emit':'static const RuleEntry * Rules_end(const Rules *self)', 'self':['m_begin','m_end','m_rules']}@*/

/* ---- ghost: the candidate list runFSM leaves, a truth table of the constraints, a call log */
Slot **g_slotp; Slot *g_slot0, *g_next0; Machine *g_m; FiniteStateMachine *g_fsm;
const RuleEntry *g_ebase; size_t g_n;      /* candidates E = g_ebase[0..g_n) in precedence order */
bool g_run_ok;                             /* result of runFSM */
bool g_tc[NR], g_fail[NR];                 /* per rule: constraint true / running it breaks the machine */
size_t g_tc_calls, g_acted, g_gc, g_adjusted, g_w, g_k;
const Code *g_acted_code; int g_adv; bool g_act_fails;
#define TC(k) (g_tc[IDX(g_ebase[k].rule)] && !g_fail[IDX(g_ebase[k].rule)])
Slot *nondet_slotp(void); int nondet_int(void);

/* ghost models of the collaborators (bodies: asserts = their call-site obligations, assignments = their logged effect) */
static bool Pass_runFSM(const Pass *self, FiniteStateMachine *fsm, Slot *slot)
{
    __CPROVER_assert(slot == g_slot0 && g_tc_calls == 0, "runFSM is run once, on the cursor slot");
    fsm->rules.m_begin = (RuleEntry *)g_ebase; fsm->rules.m_end = (RuleEntry *)g_ebase + g_n;      /* the accumulated candidates */
    return g_run_ok;
}
static bool Pass_testConstraint(const Pass *self, const Rule *r, Machine *m)
{
    __CPROVER_assert(g_run_ok && g_acted == 0 && m->_status == finished, "constraints are tested only after a successful FSM run, before any action, on a healthy machine");
    __CPROVER_assert(g_tc_calls < g_n && r == g_ebase[g_tc_calls].rule, "candidates are tested in list order, each once");
    g_tc_calls = g_tc_calls + 1;
    if (g_fail[IDX(r)]) { m->_status = died_early; return false; }
    return g_tc[IDX(r)];
}
static int Pass_doAction(const Pass *self, const Code *codeptr, Slot **slot_out, Machine *m)
{
    __CPROVER_assert(g_acted == 0 && m->_status == finished && slot_out == g_slotp, "at most one action per position, on a healthy machine");
    g_acted = 1; g_acted_code = codeptr; g_w = g_tc_calls - 1;
    if (g_act_fails) { m->_status = slot_offset_out_bounds; *slot_out = NULL; return 0; }
    *slot_out = nondet_slotp();
    return g_adv;
}
static void SlotMap_collectGarbage(SlotMap *smap, Slot **aSlot)
{
    __CPROVER_assert(g_acted == 1 && g_adjusted == 0 && g_m->_status == finished && smap == g_fsm->slots && aSlot == g_slotp, "garbage collection only after a successful action, before adjustSlot");
    g_gc = g_gc + 1; *aSlot = nondet_slotp();
}
static void Pass_adjustSlot(const Pass *self, int delta, Slot **slot_out, SlotMap *smap)
{
    __CPROVER_assert(g_acted == 1 && g_m->_status == finished && delta == g_adv && smap == g_fsm->slots && slot_out == g_slotp, "adjustSlot gets the advance the action returned");
    g_adjusted = g_adjusted + 1; *slot_out = nondet_slotp();
}

void Pass_findNDoRule(const Pass *self, Slot **slot, Machine *m, FiniteStateMachine *fsm)
__CPROVER_requires(slot == g_slotp && *slot == g_slot0 && g_slot0 != NULL && g_slot0->m_next == g_next0 && m == g_m && fsm == g_fsm && m->_status == finished)
__CPROVER_requires(g_n <= MAX_RULES && g_tc_calls == 0 && g_acted == 0 && g_gc == 0 && g_adjusted == 0)
__CPROVER_assigns(*slot, m->_status, fsm->rules.m_begin, fsm->rules.m_end, g_tc_calls, g_acted, g_gc, g_adjusted, g_w, g_acted_code)
/* the FSM did not run (too little pre-context / too many slots): nothing is tested or done, the glyph passes through */
__CPROVER_ensures(!g_run_ok ==> (g_tc_calls == 0 && g_acted == 0 && g_gc == 0 && g_adjusted == 0 && *slot == g_next0 && m->_status == finished))
/* precedence: the rule acted on is a candidate whose constraint is true, and no earlier candidate (ghost index g_k) passes */
__CPROVER_ensures(g_acted == 1 ==> (g_run_ok && g_w < g_n && g_acted_code == g_ebase[g_w].rule->action && TC(g_w) && (g_k >= g_w || !TC(g_k))))
/* if some candidate passes, a rule fires (or the machine failed on the way) */
__CPROVER_ensures((g_run_ok && g_k < g_n && TC(g_k)) ==> (g_acted == 1 || m->_status != finished))
/* no candidate passes: every candidate was tested, no mutator is called, the cursor moves to the next slot */
__CPROVER_ensures((g_acted == 0 && m->_status == finished) ==> (g_gc == 0 && g_adjusted == 0 && *slot == g_next0 && (!g_run_ok || g_tc_calls == g_n)))
/* after a successful action: garbage collection iff the action deletes, then exactly one adjustSlot */
__CPROVER_ensures((g_acted == 1 && m->_status == finished) ==> (g_adjusted == 1 && g_gc == (g_acted_code->_delete ? 1 : 0)))
/* a machine failure (in a constraint or in the action) stops without garbage collection / adjustSlot */
__CPROVER_ensures(m->_status != finished ==> (g_gc == 0 && g_adjusted == 0));

/*@extract {'if':'FIND', 'file':'src/Pass.cpp', 'sig': r'void Pass::findNDoRule\(Slot \* & slot, Machine &m, FiniteStateMachine & fsm\) const',
   'emit':'void Pass_findNDoRule(const Pass *self, Slot **slot, Machine *m, FiniteStateMachine *fsm)',
   'subs':[[r'runFSM\(fsm, slot\)', 'Pass_runFSM(self, fsm, slot)', 0],
           [r'fsm\.rules\.begin\(\)', 'Rules_begin(&fsm->rules)', 0], [r'fsm\.rules\.end\(\)', 'Rules_end(&fsm->rules)', 0],
           [r'testConstraint\(\*r->rule, m\)', 'Pass_testConstraint(self, r->rule, m)', 0],
           [r'm\.status\(\)', 'Machine_status(m)', 0], [r'Machine::finished', 'finished', 0],
           [r'doAction\(r->rule->action, slot, m\)', 'Pass_doAction(self, r->rule->action, &slot, m)', 0],
           [r'r->rule->action->deletes\(\)', 'Code_deletes(r->rule->action)', 0],
           [r'fsm\.slots\.collectGarbage\(slot\)', 'SlotMap_collectGarbage(fsm->slots, &slot)', 0],
           [r'adjustSlot\(adv, slot, fsm\.slots\)', 'Pass_adjustSlot(self, adv, &slot, fsm->slots)', 0],
           [r'slot->next\(\)', 'Slot_next(slot)', 0], [r'\bfsm\.', 'fsm->', 0]],
   'refs':['slot']}@*/

void h_find(void)
{
    size_t n = nondet_size_t(), nrules = nondet_size_t();
    __CPROVER_assume(n <= FINDN && nrules <= NR);
    Rule *rs = mk_rules(nrules);
    RuleEntry *es = malloc(n * sizeof(RuleEntry)); __CPROVER_assume(es != NULL);                 /* exact size */
    for (size_t k = 0; k < FINDN; ++k) if (k < n) { size_t a = nondet_size_t(); __CPROVER_assume(a < nrules); es[k].rule = rs + a; }
    struct Code *codes = malloc(NR * sizeof(struct Code)); __CPROVER_assume(codes != NULL);
    for (size_t k = 0; k < NR; ++k) if (k < nrules) { codes[k]._delete = nondet_bool(); rs[k].action = codes + k; }
    Slot *s0 = malloc(sizeof(Slot)), *s1 = nondet_bool() ? NULL : malloc(sizeof(Slot)); __CPROVER_assume(s0 != NULL);
    s0->m_next = s1;
    Slot **sp = malloc(sizeof(Slot *)); __CPROVER_assume(sp != NULL); *sp = s0;
    Machine *m = malloc(sizeof(Machine)); __CPROVER_assume(m != NULL); m->_status = finished;
    FiniteStateMachine *fsm = malloc(sizeof(FiniteStateMachine)); __CPROVER_assume(fsm != NULL);
    fsm->slots = malloc(1);
    g_slotp = sp; g_slot0 = s0; g_next0 = s1; g_m = m; g_fsm = fsm; g_ebase = es; g_n = n;
    g_run_ok = nondet_bool(); g_act_fails = nondet_bool(); g_adv = nondet_int(); g_k = nondet_size_t();
    g_tc_calls = g_acted = g_gc = g_adjusted = 0;
    Pass_findNDoRule(malloc(1), sp, m, fsm);
    CANARY();
}
#endif /* FIND */
