/* C01/C02 - sparse::operator[] (src/Sparse.cpp): branch-free bounds of the glyph-attribute lookup, for EVERY 16-bit key.
 * Representation invariant (established by the template constructor, src/inc/Sparse.h, not under contract here):
 *   m_array.map[0..nchunks) are the chunk headers at the start of the value array of `g_total` uint16 cells and each
 *   chunk's offset + popcount(mask) <= g_total.  The lookup of key k touches only chunk k/48, so the contract requires
 *   the invariant for that chunk (an instance of the quantified invariant).
 */
#include "types.h"
/*@unit {'name':'c01_sparse_lookup', 'props':['C01','C02'], 'entry':'h_sparse', 'enforce':'sparse_lookup', 'replace':['bit_set_count_ul'],
  'claims':'sparse::operator[]: for every 16-bit key both reads (chunk header and value cell) stay inside the array - the branch-free index collapses to cell 0 for keys beyond the last chunk and for keys whose bit is clear; assigns nothing. (The value clause, result == stored value of a present key else 0, is written under VALUE_CLAUSE but does not discharge: two /48 dividers; not claimed.)'}@*/
/*@unit {'name':'c01_popcount_ul', 'props':['C01','C02'], 'entry':'h_pop', 'enforce':'bit_set_count_ul',
  'claims':'bit_set_count<unsigned long> (portable variant) is the population count, all 2^64 inputs'}@*/

typedef uint16 key_type; typedef uint16 mapped_type; typedef unsigned long mask_t;
typedef unsigned long ulong_t;
#define ulong_t(x) ((ulong_t)(x))
/*@extract {'file':'src/inc/Sparse.h', 'scope': r'class sparse\s*\{', 'kind':'range', 'start': r'static const unsigned char\s+SIZEOF_CHUNK', 'end': r';', 'end_inclusive': True,
   'subs':[[r'static const unsigned char\s+SIZEOF_CHUNK = ', 'enum { SIZEOF_CHUNK = ', 1], [r';', ' };', 1]]}@*/
/*@extract {'file':'src/inc/Sparse.h', 'scope': r'class sparse\s*\{', 'kind':'range', 'start': r'struct chunk\s*\{', 'end': r'\};', 'end_inclusive': True, 'pre':'typedef ', 'subs':[[r'\};', '} chunk;', 1]]}@*/
typedef struct sparse { union { chunk *map; mapped_type *values; } m_array; key_type m_nchunks; } sparse;

#define POP1(x, i) (((x) >> (i)) & 1ul)
static unsigned pop64_spec(unsigned long x) { unsigned c = 0; c += POP1(x,0)+POP1(x,1)+POP1(x,2)+POP1(x,3)+POP1(x,4)+POP1(x,5)+POP1(x,6)+POP1(x,7)+POP1(x,8)+POP1(x,9)+POP1(x,10)+POP1(x,11)+POP1(x,12)+POP1(x,13)+POP1(x,14)+POP1(x,15);
  c += POP1(x,16)+POP1(x,17)+POP1(x,18)+POP1(x,19)+POP1(x,20)+POP1(x,21)+POP1(x,22)+POP1(x,23)+POP1(x,24)+POP1(x,25)+POP1(x,26)+POP1(x,27)+POP1(x,28)+POP1(x,29)+POP1(x,30)+POP1(x,31);
  c += POP1(x,32)+POP1(x,33)+POP1(x,34)+POP1(x,35)+POP1(x,36)+POP1(x,37)+POP1(x,38)+POP1(x,39)+POP1(x,40)+POP1(x,41)+POP1(x,42)+POP1(x,43)+POP1(x,44)+POP1(x,45)+POP1(x,46)+POP1(x,47);
  c += POP1(x,48)+POP1(x,49)+POP1(x,50)+POP1(x,51)+POP1(x,52)+POP1(x,53)+POP1(x,54)+POP1(x,55)+POP1(x,56)+POP1(x,57)+POP1(x,58)+POP1(x,59)+POP1(x,60)+POP1(x,61)+POP1(x,62)+POP1(x,63); return c; }

unsigned int bit_set_count_ul(unsigned long v)
__CPROVER_ensures(__CPROVER_return_value == pop64_spec(v))
__CPROVER_assigns();
/*@extract {'file':'src/inc/bits.h', 'sig': r'inline unsigned int bit_set_count\(T v\)\s*(?=\{\s*static size_t const ONES)', 'emit':'unsigned int bit_set_count_ul(unsigned long v)', 'subs':[[r'\bT\b', 'ulong_t', 5]]}@*/

const sparse *g_sp; size_t g_total;      /* the array holds g_total uint16 cells (headers included) */
#define CHUNK_OF(k) (g_sp->m_array.map[(k) / SIZEOF_CHUNK])
#define BIT_OF(k)   ((CHUNK_OF(k).mask >> (SIZEOF_CHUNK - 1 - ((k) % SIZEOF_CHUNK))) & 1ul)
#define RANK_OF(k)  pop64_spec(CHUNK_OF(k).mask >> (SIZEOF_CHUNK - ((k) % SIZEOF_CHUNK)))      /* set bits before key k in its chunk */
mapped_type sparse_lookup(const sparse *self, const key_type k)
__CPROVER_requires(self == g_sp && g_total >= sizeof(chunk) / sizeof(mapped_type) && g_total <= 256 && (size_t)self->m_nchunks * sizeof(chunk) <= g_total * sizeof(mapped_type))
__CPROVER_requires(OFF(self->m_array.values) == 0 && OBJSZ(self->m_array.values) == g_total * sizeof(mapped_type))
/* the invariant for the one chunk this key selects */
__CPROVER_requires(k / SIZEOF_CHUNK >= self->m_nchunks || (size_t)CHUNK_OF(k).offset + pop64_spec(CHUNK_OF(k).mask) <= g_total)
__CPROVER_assigns()
#ifdef VALUE_CLAUSE
__CPROVER_ensures(__CPROVER_return_value == ((k / SIZEOF_CHUNK < g_sp->m_nchunks && BIT_OF(k)) ? g_sp->m_array.values[CHUNK_OF(k).offset + RANK_OF(k)] : 0))
#else
__CPROVER_ensures(1)
#endif
;
/*@extract {'file':'src/Sparse.cpp', 'sig': r'sparse::mapped_type sparse::operator \[\] \(const key_type k\) const throw\(\)', 'emit':'mapped_type sparse_lookup(const sparse *self, const key_type k)',
   'subs':[[r'const chunk &\s*c = m_array\.map\[', 'const chunk * c_ = &m_array.map[', 1], [r'\bc\.', 'c_->', 2], [r'bit_set_count\(', 'bit_set_count_ul(', 1], [r'key_type\(', '(key_type)(', 1]],
   'self':['m_array','m_nchunks']}@*/

size_t nondet_size_t(void); unsigned nondet_unsigned(void); unsigned long nondet_ulong(void);
void h_sparse(void)
{
    sparse *s = malloc(sizeof(sparse)); __CPROVER_assume(s);
    size_t total = nondet_size_t(); __CPROVER_assume(total >= 4 && total <= 256);
    mapped_type *vals = malloc(total * sizeof(mapped_type)); __CPROVER_assume(vals);
    s->m_array.values = vals; s->m_nchunks = (key_type)nondet_unsigned();
    g_sp = s; g_total = total;
    mapped_type r = sparse_lookup(s, (key_type)nondet_unsigned());
    (void)r;
    CANARY();
}
void h_pop(void) { unsigned r = bit_set_count_ul(nondet_ulong()); (void)r; CANARY(); }
