/* C12 - gr_make_seg consumes no more text than its contract allows (also the first clause of C05).
 * Functions under contract (extracted from /repo on every run, one build per encoding):
 *   process_utf_data<utf_iter>  (src/Segment.cpp)     with _utf_iterator operators and codec get (src/inc/UtfCodec.h)
 *   Segment::read_text          (src/Segment.cpp)
 * Assumed contracts (stubs): Cmap::operator[], Face::findPseudo (any 16-bit result, no side effect; proved in C13),
 *   Segment::appendSlot (ghost log of its arguments; its association part is a C05 unit), Segment::addFeatures.
 */
#include "types.h"
#include "utf_ref.h"

/*@unit {'name':'c12_process8',  'props':['C12','C05'], 'entry':'h_process', 'enforce':'process_utf_data', 'replace':['CODEC_get','Cmap_lookup','Face_findPseudo','Segment_appendSlot'],
         'defines':['ENC=8','REF_LENIENT_SURROGATES'], 'defines_quick':['ENC=8','REF_LENIENT_SURROGATES','MAXN=256'], 'min_loops':1, 'cost':40,
         'replay':'c12_make_seg', 'witness_defines':['WITNESS'], 'witness_vars':['w_n','w_u','w_nchars','w_enc'],
         'claims':'process_utf_data<utf8>: on a NUL-terminated string in an exact-size buffer and any nChars it reads no unit beyond the terminating NUL, stops at the first NUL or after nChars characters, calls appendSlot once per character consumed with id = 0,1,2.., the reference scalar value (U+FFFD for ill-formed sequences) and strictly increasing code-unit offsets, and returns the number of characters consumed'}@*/
/*@unit {'name':'c12_process16', 'props':['C12','C05'], 'entry':'h_process', 'enforce':'process_utf_data', 'replace':['CODEC_get','Cmap_lookup','Face_findPseudo','Segment_appendSlot'],
         'defines':['ENC=16','REF_LENIENT_SURROGATES'], 'defines_quick':['ENC=16','REF_LENIENT_SURROGATES','MAXN=256'], 'min_loops':1, 'cost':40,
         'replay':'c12_make_seg', 'witness_defines':['WITNESS'], 'witness_vars':['w_n','w_u','w_nchars','w_enc'], 'claims':'same for UTF-16'}@*/
/*@unit {'name':'c12_process32', 'props':['C12','C05'], 'entry':'h_process', 'enforce':'process_utf_data', 'replace':['CODEC_get','Cmap_lookup','Face_findPseudo','Segment_appendSlot'],
         'defines':['ENC=32','REF_LENIENT_SURROGATES'], 'defines_quick':['ENC=32','REF_LENIENT_SURROGATES','MAXN=256'], 'min_loops':1, 'cost':40,
         'replay':'c12_make_seg', 'witness_defines':['WITNESS'], 'witness_vars':['w_n','w_u','w_nchars','w_enc'], 'claims':'same for UTF-32'}@*/
/*@unit {'name':'c12_read_text', 'props':['C12','C05','C03'], 'entry':'h_read_text', 'enforce':'Segment_read_text', 'replace':['process_utf_data_8','process_utf_data_16','process_utf_data_32','Segment_addFeatures'],
         'defines':['ENC=8','READ_TEXT'],
         'claims':'Segment::read_text sets both the char-info count and the slot count of the segment to the number of characters process_utf_data consumed (one char-info per character actually consumed), for each of the three encodings'}@*/

/*@include utf_common.tc@*/

/* ------------------------------------------------------------------ opaque collaborators (assumed contracts) */
typedef struct Cmap Cmap;
typedef struct Face Face;
typedef struct Features Features;
typedef struct CharInfo CharInfo;
typedef struct Segment { CharInfo *m_charinfo; size_t m_numGlyphs; size_t m_numCharinfo; } Segment;

/* ghost log of the appendSlot calls and the expected values set by the lock-step reference stepper */
size_t g_calls;        /* number of appendSlot calls so far                                     */
size_t g_nchars;       /* nChars argument = number of char-infos the segment allocated            */
uint32 g_exp_usv;      /* scalar value the reference decoder yields at the current position       */
size_t g_exp_off;      /* code-unit offset of the current position                                */
size_t g_last_off;     /* offset passed to the previous appendSlot                                */
bool   g_hit_nul;      /* the reference decoder found a NUL at the position where the loop stopped */
size_t g_n;            /* units before the terminating NUL of the harness buffer                  */

uint16 Cmap_lookup(const Cmap *cmap, uint32 usv)
__CPROVER_ensures(1) __CPROVER_assigns();
uint16 Face_findPseudo(const Face *face, uint32 usv)
__CPROVER_ensures(1) __CPROVER_assigns();
const Cmap *Face_cmap(const Face *face) { return (const Cmap *)face; }

void Segment_appendSlot(Segment *seg, int id, int cid, int gid, int iFeats, size_t coffset)
/* memory safety of m_charinfo[id]: the array has g_nchars entries */
__CPROVER_requires(id >= 0 && (size_t)id < g_nchars)
/* one char-info per character, in order, carrying the decoded character and its code-unit offset */
__CPROVER_requires((size_t)id == g_calls && (uint32)cid == g_exp_usv && coffset == g_exp_off)
__CPROVER_requires(g_calls == 0 || coffset > g_last_off)          /* strictly increasing gr_cinfo_base */
__CPROVER_assigns(g_calls, g_last_off)
__CPROVER_ensures(g_calls == __CPROVER_old(g_calls) + 1 && g_last_off == coffset);

#ifndef READ_TEXT
#define GHOST_EXPECT(itp) do { const CU *p_ = (itp)->cp; ref_t gr_ = REF(p_, AVAIL(p_)); \
      g_exp_usv = gr_.ok ? gr_.usv : 0xFFFDu; g_exp_off = (size_t)(p_ - g_begin); g_hit_nul = gr_.ok && gr_.usv == 0; } while (0)

size_t process_utf_data(Segment *seg, const Face *face, const int fid, utf_iter c, size_t n_chars)
__CPROVER_requires(c.cp == g_begin && c.sl == 1 && SAME(g_begin, g_end) && OFF(g_begin) == 0 && OFF(g_end) == (long)OBJSZ(g_end))
__CPROVER_requires(g_n + 1 == AVAIL(g_begin) && g_begin[g_n] == 0 && g_n <= MAXN)      /* NUL-terminated, exact-size buffer */
__CPROVER_requires(n_chars == g_nchars && g_nchars <= INT_MAX && g_calls == 0 && !g_hit_nul)
__CPROVER_assigns(g_calls, g_last_off, g_exp_usv, g_exp_off, g_hit_nul)
__CPROVER_ensures(__CPROVER_return_value == g_calls)                           /* one appendSlot (char-info) per character consumed */
__CPROVER_ensures(__CPROVER_return_value <= g_nchars && __CPROVER_return_value <= g_n)
__CPROVER_ensures(__CPROVER_return_value < g_nchars ==> g_hit_nul);            /* stopped early only at a NUL */

/*@extract {'file':'src/Segment.cpp', 'sig': r'inline size_t process_utf_data\(Segment & seg, const Face & face, const int fid, utf_iter c, size_t n_chars\)',
   'emit':'size_t process_utf_data(Segment *seg, const Face *face, const int fid, utf_iter c, size_t n_chars)',
   'subs':[ [r'const Cmap\s*&\s*cmap = face\.cmap\(\);', 'const Cmap * cmap = Face_cmap(face);', 1],
            [r'const typename utf_iter::codeunit_type \* const base = c;', 'const CU * const base = IT_ptr(&c);', 1],
            [r'\+\+c\b', 'IT_inc(&c)', 1],
            [r'= \*c;', '= IT_deref(&c);', 1],
            [r'cmap\[usv\]', 'Cmap_lookup(cmap, usv)', 1],
            [r'face\.findPseudo\(', 'Face_findPseudo(face, ', 1],
            [r'seg\.appendSlot\(', 'Segment_appendSlot(seg, ', 1],
            [r'c - base', 'IT_ptr(&c) - base', 1] ],
   'inserts':[ [1, 'GHOST_EXPECT(&c);'] ],
   'loops':{ 1: """__CPROVER_assigns(c.cp, c.sl, n_chars, slotid, g_calls, g_last_off, g_exp_usv, g_exp_off, g_hit_nul)
                   __CPROVER_loop_invariant(SAME(c.cp, g_begin) && OFF(c.cp) >= 0 && OFF(c.cp) <= (long)(g_n * sizeof(CU)) && OFF(c.cp) % (long)sizeof(CU) == 0)
                   __CPROVER_loop_invariant(slotid >= 0 && (size_t)slotid == g_calls && n_chars <= g_nchars && g_calls <= g_nchars && n_chars + g_calls == g_nchars && !g_hit_nul)
                   __CPROVER_loop_invariant(g_calls <= AVAIL(g_begin) - AVAIL(c.cp))
                   __CPROVER_loop_invariant(g_calls == 0 || g_last_off < (size_t)(OFF(c.cp) / (long)sizeof(CU)))
                   __CPROVER_decreases(n_chars)""" } }@*/
#endif

#ifdef READ_TEXT
/* ---- read_text: the three instantiations are contract stubs returning the ghost number of characters consumed */
typedef int gr_encform;
enum { gr_utf8 = 1, gr_utf16 = 2, gr_utf32 = 4 };
size_t g_consumed;
typedef struct { const void *p; } any_iter;
static any_iter mk_iter(const void *p) { any_iter i; i.p = p; return i; }
#define PROC_CONTRACT __CPROVER_requires(n_chars == g_nchars) __CPROVER_assigns() __CPROVER_ensures(__CPROVER_return_value == g_consumed)
size_t process_utf_data_8 (Segment *seg, const Face *face, int fid, any_iter c, size_t n_chars) PROC_CONTRACT;
size_t process_utf_data_16(Segment *seg, const Face *face, int fid, any_iter c, size_t n_chars) PROC_CONTRACT;
size_t process_utf_data_32(Segment *seg, const Face *face, int fid, any_iter c, size_t n_chars) PROC_CONTRACT;
int Segment_addFeatures(Segment *seg, const Features *f) __CPROVER_ensures(1) __CPROVER_assigns();
#define assert(x) __CPROVER_assert((x), "source assert: " #x)

bool Segment_read_text(Segment *self, const Face *face, const Features *pFeats, gr_encform enc, const void *pStart, size_t nChars)
__CPROVER_requires(__CPROVER_is_fresh(self, sizeof(*self)) && face != NULL && pFeats != NULL && nChars == g_nchars)
__CPROVER_requires(enc == gr_utf8 || enc == gr_utf16 || enc == gr_utf32)
__CPROVER_assigns(self->m_numCharinfo, self->m_numGlyphs)
__CPROVER_ensures(__CPROVER_return_value ==> (self->m_numCharinfo == g_consumed && self->m_numGlyphs == g_consumed))
__CPROVER_ensures(!__CPROVER_return_value ==> self->m_charinfo == NULL);

/*@extract {'if':'READ_TEXT', 'file':'src/Segment.cpp', 'sig': r'bool Segment::read_text\(const Face \*face, const Features\* pFeats(?:/\*[^*]*\*/)?, gr_encform enc, const void\* pStart, size_t nChars\)',
   'emit':'bool Segment_read_text(Segment *self, const Face *face, const Features *pFeats, gr_encform enc, const void *pStart, size_t nChars)',
   'subs':[ [r'process_utf_data\(\*this, \*face, addFeatures\(\*pFeats\), utf8::const_iterator\(pStart\), nChars\)',  'process_utf_data_8(self, face, Segment_addFeatures(self, pFeats), mk_iter(pStart), nChars)', 1],
            [r'process_utf_data\(\*this, \*face, addFeatures\(\*pFeats\), utf16::const_iterator\(pStart\), nChars\)', 'process_utf_data_16(self, face, Segment_addFeatures(self, pFeats), mk_iter(pStart), nChars)', 1],
            [r'process_utf_data\(\*this, \*face, addFeatures\(\*pFeats\), utf32::const_iterator\(pStart\), nChars\)', 'process_utf_data_32(self, face, Segment_addFeatures(self, pFeats), mk_iter(pStart), nChars)', 1] ],
   'self':['m_charinfo','m_numCharinfo','m_numGlyphs'] }@*/
#endif

/* ------------------------------------------------------------------ harnesses */
size_t nondet_size_t(void);
int nondet_int(void);
#ifdef WITNESS
#define WN 6
#else
#define WN MAXN
#endif

#ifndef READ_TEXT
void h_process(void)
{
    size_t w_n = nondet_size_t(), w_nchars = nondet_size_t();
    int w_enc = ENC / 8;
    __CPROVER_assume(w_n <= WN && w_nchars <= INT_MAX);
    CU *buf = malloc((w_n + 1) * sizeof(CU));      /* exactly the string and its terminating NUL */
    __CPROVER_assume(buf != NULL);
#ifdef WITNESS
    CU w_u[WN];
    if (w_n > 0) buf[0] = w_u[0]; if (w_n > 1) buf[1] = w_u[1]; if (w_n > 2) buf[2] = w_u[2];
    if (w_n > 3) buf[3] = w_u[3]; if (w_n > 4) buf[4] = w_u[4]; if (w_n > 5) buf[5] = w_u[5];
#endif
    buf[w_n] = 0;
    g_begin = buf; g_end = buf + w_n + 1; g_n = w_n; g_nchars = w_nchars; g_calls = 0; g_hit_nul = false;
    Segment seg; Face *face = malloc(1);
    utf_iter c = { buf, 1 };
    size_t r = process_utf_data(&seg, face, nondet_int(), c, w_nchars);
    (void)r; (void)w_enc;
    CANARY();
}
#else
void h_read_text(void)
{
    Segment *seg = malloc(sizeof(Segment));
    __CPROVER_assume(seg != NULL);
    g_nchars = nondet_size_t(); g_consumed = nondet_size_t();
    __CPROVER_assume(g_consumed <= g_nchars);
    int enc = nondet_int();
    bool r = Segment_read_text(seg, malloc(1), malloc(1), enc, malloc(1), g_nchars);
    (void)r;
    CANARY();
}
#endif
