/* C16 / C01 / C02 - GlyphCache::GlyphCache(face, options), ~GlyphCache, GlyphCache::glyph / glyphSafe      (src/GlyphCache.cpp, src/inc/GlyphCache.h)
 *
 * What the units of this file add to c16_glyphcache_dtor / c16_glyphcache_life (spec/c16_owners.c; same shims, same ledger idiom):
 *   - the constructor is followed by POSTCONDITIONS taken from the property text, asserted on the state it returns (not only the
 *     balance at the very end):  the state classification S0-S3 the destructor unit enumerates, the owned-array convention
 *     (_glyphs[0] == the new[] block, _glyphs[k] == &block[k]) of a preloaded cache, "with preloading the Loader and its seven
 *     tables are gone when the constructor returns" (C16: no get_table / no table access after gr_make_face with gr_face_preloadAll),
 *     the box block layout, the preconditions the lazy-loading unit c01_cache_glyph ASSUMES (_glyphs[0] != 0; without a loader no
 *     slot is 0) - here they are PROVED of the constructor;
 *   - one unit per concrete glyph count 1..4 (the store loops of the preload branch run 0..3 times);
 *   - the lemma "a cache without a Loader never reaches the Loader again": GlyphCache::glyph enforced with `_glyph_loader == 0`
 *     against the empty frame, for ANY number of glyphs (proof unit), and checked again on the real post-state of the constructor;
 *   - GlyphCache::glyphSafe (proof unit, any number of glyphs).
 *
 * Extracted from /repo on every run: GlyphCache::GlyphCache, ~GlyphCache, GlyphCache::glyph (src/GlyphCache.cpp), glyphSafe, numGlyphs
 *   (src/inc/GlyphCache.h), Loader::operator bool / num_glyphs / num_attrs / has_boxes (src/GlyphCache.cpp), Face::Table::release
 *   (src/Face.cpp), ~Table, operator const byte* (src/inc/Face.h), sparse::sparse(), ~sparse, gralloc, grzeroalloc, checked_mul, max
 *   (src/inc/Main.h), enum gr_face_options, the data members of GlyphCache, Loader, GlyphFace, GlyphBox.
 * Spec code (what the compiler generates; same as c16_owners.c part B): new / new[] / delete / delete[] = gralloc / free + the
 *   (implicit) constructors and destructors + the array cookie; ~Loader = ~Table on the seven members in reverse order.
 * Contract stubs (ASSUMED here, PROVED in spec/c01_glyphs.c):
 *   Loader::Loader       (c01_loader_gloc; c16_table.c for the Face::Table members) - a Loader whose seven tables are in an arbitrary
 *                        typestate (each borrow entered into the ledger), arbitrary flags, max(glyph counts) in {0, NGL}
 *   Loader::read_glyph   (c01_read_glyph)  - requires CHECKED here: live valid loader, default constructed GlyphFace, numsubs != 0 and
 *                        in range; when preloading: the GlyphFace is element gid of the new[] block, gid < _num_glyphs.  ensures produced: 0 or the
 *                        glyph it was given; at most one attribute object, owned by that glyph; an accepted glyph has a usable one;
 *                        *numsubs grows by the number of sub-boxes (here 0..MAXSUB)
 *   Loader::read_box     (c01_read_box)    - requires CHECKED here: live loader, gid < _num_glyphs, curr != 0, the glyph is _glyphs[gid] (accepted),
 *                        [curr, curr + sizeof(GlyphBox) + 8*num(gid)*sizeof(float)) lies inside the block curr points into.  ensures
 *                        produced: 0 or curr + sizeof(GlyphBox) + 2*num(gid)*sizeof(Rect); first and last byte of that range written
 *   Loader::units_per_em arbitrary value
 */
#include "types.h"
#define assert(x) __CPROVER_assert((x), "source assert: " #x)
bool nondet_bool(void); size_t nondet_size_t(void); unsigned nondet_unsigned(void);

/*@unit {'name':'c16_gcc_ctor_n1', 'props':['C16','C01'], 'entry':'h_gcc_ctor', 'kind':'bounded', 'unwind':3, 'defines':['GCX=1','GCG=1','GC=1','NGL=1'], 'checks':['--memory-leak-check'],
  'bound':'a Loader reporting 0 or exactly 1 glyph; at most 1 sub-box per glyph; at most 2 lookups after construction; any allocation but new GlyphFace[] may fail; all face options; with / without boxes; with / without release_table',
  'assumptions':['the new-expression `new GlyphFace[_num_glyphs]` does not yield NULL: GlyphFace::operator new[] (CLASS_NEW_DELETE) is not noexcept, so a NULL result is undefined behaviour in C++ (no null check is emitted; GlyphFace has a destructor, hence an array cookie: the result would be address 8); unit c16_glyphcache_life covers the -fcheck-new reading for the balance at destruction', 'contracts of Loader::Loader / read_glyph / read_box as proved in spec/c01_glyphs.c; read_box: its proof is for a box that is its own object, here the same byte range at an offset inside the box block (translation)'],
  'claims':'GlyphCache::GlyphCache + lookups + ~GlyphCache for a 1-glyph font: see c16_gcc_ctor_n3'}@*/
/*@unit {'name':'c16_gcc_ctor_n2', 'props':['C16','C01'], 'entry':'h_gcc_ctor', 'kind':'bounded', 'unwind':4, 'defines':['GCX=1','GCG=1','GC=1','NGL=2','ONE_LAZY_LOOKUP'], 'checks':['--memory-leak-check'],
  'bound':'a Loader reporting 0 or exactly 2 glyphs; at most 1 sub-box per glyph; at most 2 lookups after construction on a preloaded cache, 1 on a lazy one (2 in c16_gcc_ctor_n1 and in c16_glyphcache_life); any allocation but new GlyphFace[] may fail; all face options; with / without boxes; with / without release_table',
  'assumptions':['the new-expression `new GlyphFace[_num_glyphs]` does not yield NULL (see c16_gcc_ctor_n1)', 'contracts of Loader::Loader / read_glyph / read_box as proved in spec/c01_glyphs.c (see c16_gcc_ctor_n1)'],
  'claims':'GlyphCache::GlyphCache + lookups + ~GlyphCache for a 2-glyph font: see c16_gcc_ctor_n3'}@*/
/*@unit {'name':'c16_gcc_ctor_n3', 'props':['C16','C01'], 'entry':'h_gcc_ctor', 'kind':'bounded', 'unwind':5, 'defines':['GCX=1','GCG=1','GC=1','NGL=3','ONE_LAZY_LOOKUP'], 'checks':['--memory-leak-check'],
  'bound':'a Loader reporting 0 or exactly 3 glyphs; at most 1 sub-box per glyph; at most 2 lookups after construction on a preloaded cache, 1 on a lazy one (2 in c16_gcc_ctor_n1 and in c16_glyphcache_life); any allocation but new GlyphFace[] may fail; all face options; with / without boxes; with / without release_table',
  'assumptions':['the new-expression `new GlyphFace[_num_glyphs]` does not yield NULL (see c16_gcc_ctor_n1)', 'contracts of Loader::Loader / read_glyph / read_box as proved in spec/c01_glyphs.c (see c16_gcc_ctor_n1)'],
  'claims':'GlyphCache::GlyphCache(face, options) with the real body, whatever the Loader reports and whichever allocation fails: (1) every store of the constructor lies inside the exact-size arrays _glyphs / _boxes / glyphs[] / the box block, and read_glyph / read_box are only handed a live, valid Loader, element gid of the glyph block and a box range inside the box block; (2) on return the object is in one of the states S0-S3 of c16_glyphcache_dtor: without a glyph array it reports 0 glyphs, 0 attributes, upem 0; with one, _num_glyphs is the array length and glyph 0 is loaded; (3) with gr_face_preloadGlyphs and a glyph array the Loader has been deleted exactly once, _glyph_loader == 0, each of its seven tables went back to release_table exactly once and none is outstanding WHEN THE CONSTRUCTOR RETURNS (C16: nothing can be fetched or read from the client after gr_make_face), every slot k holds &block[k] of the one new[] block (so delete[] _glyphs[0] is the matching deallocation) and no slot is 0; the box block is 0 (freed once) or laid out back to back inside one block of _num_glyphs*sizeof(GlyphBox) + numsubs*8*sizeof(float) bytes; (4) a preload that meets an unreadable glyph destroys each element of the block once, frees it, deletes the Loader and ends in S0; (5) without preloading the Loader is kept, glyph 0 is an individually allocated glyph, every other slot is 0; (6) lookups on a preloaded cache (glyph / glyphSafe, any id) never reach read_glyph / read_box / an allocation; (7) ~GlyphCache then frees everything exactly once: no allocation left (memory-leak check), nothing freed twice, Loader deleted exactly once over the whole life, no table outstanding'}@*/
/*@unit {'name':'c16_gcc_ctor_n4', 'props':['C16','C01'], 'entry':'h_gcc_ctor', 'kind':'bounded', 'unwind':6, 'defines':['GCX=1','GCG=1','GC=1','NGL=4','PRELOAD_ONLY'], 'checks':['--memory-leak-check'],
  'bound':'a Loader reporting 0 or exactly 4 glyphs; gr_face_preloadGlyphs set (the lazy constructor path has no loop: covered by n1-n3); at most 1 sub-box per glyph; at most 2 lookups after construction; any allocation but new GlyphFace[] may fail; with / without boxes; with / without release_table',
  'assumptions':['the new-expression `new GlyphFace[_num_glyphs]` does not yield NULL (see c16_gcc_ctor_n1)', 'contracts of Loader::Loader / read_glyph / read_box as proved in spec/c01_glyphs.c (see c16_gcc_ctor_n1)'],
  'claims':'GlyphCache::GlyphCache + lookups + ~GlyphCache for a 4-glyph font, preloading: see c16_gcc_ctor_n3'}@*/
/*@unit {'name':'c16_gcc_glyph_noloader', 'props':['C16','C02'], 'entry':'h_glyph_noloader', 'enforce':'GlyphCache_glyph', 'kind':'proof', 'unwind':4, 'timeout':300, 'defines':['GCX=1','GCG=1','GP=1'],
  'claims':'GlyphCache::glyph on a cache without a Loader (the state the constructor leaves after preloading: postcondition (3) of the c16_gcc_ctor units), for ANY number of glyphs 1..65535 and any glyph id: it assigns NOTHING (empty frame: no slot of _glyphs / _boxes is written), allocates nothing, reaches neither read_glyph nor read_box (both are unreachable obligations), reads only _glyphs[gid] resp. _glyphs[0] inside the array, and returns exactly that slot - so after gr_make_face with gr_face_preloadAll the glyph cache cannot touch a font table again'}@*/
/*@unit {'name':'c02_gcc_glyphsafe', 'props':['C02','C01'], 'entry':'h_glyphsafe', 'enforce':'GlyphCache_glyphSafe', 'replace':['GlyphCache_glyph'], 'kind':'proof', 'unwind':4, 'timeout':300, 'defines':['GCX=1','GS=1'],
  'assumptions':['contract of GlyphCache::glyph for ids below numGlyphs: units c01_cache_glyph (lazy) and c16_gcc_glyph_noloader (preloaded)'],
  'claims':'GlyphCache::glyphSafe for any number of glyphs and any glyph id: an id >= numGlyphs yields NULL without touching the arrays; glyph() is called only with an id below numGlyphs (its precondition here), whose result (the glyph of that id, or glyph 0 if it cannot be loaded; never NULL) is returned unchanged; the frame is that of glyph()'}@*/

#ifdef GCX
/* ------------------------------------------------------------------ shim structs (members copied from the headers) */
typedef struct gr_face_ops {
    size_t size;
    const void *(*get_table)(const void *appFaceHandle, unsigned int name, size_t *len);
    void (*release_table)(const void *appFaceHandle, const void *table_buffer);
} gr_face_ops;
typedef struct Face { gr_face_ops m_ops; const void *m_appFaceHandle; } Face;
typedef struct Table { const Face *_f; const byte *_p; size_t _sz; bool _compressed; } Table;
typedef struct Position { float x, y; } Position;
typedef struct Rect { Position bl, tr; } Rect;
typedef uint16 key_type; typedef uint16 mapped_type; typedef unsigned long mask_t;
typedef struct chunk { mask_t mask:48; key_type offset; } chunk;                       /* sparse::chunk (SIZEOF_CHUNK = 48) */
typedef struct sparse { union { chunk *map; mapped_type *values; } m_array; key_type m_nchunks; } sparse;   /* class sparse (src/inc/Sparse.h) */
static const chunk empty_chunk = {0, 0};                                               /* sparse::empty_chunk (src/Sparse.cpp) */
typedef struct GlyphFace {
/*@extract {'if':'GCX=1', 'kind':'members', 'file':'src/inc/GlyphFace.h', 'scope': r'class GlyphFace\s*\{', 'names':['m_bbox','m_advance','m_attrs']}@*/
} GlyphFace;
typedef struct GlyphBox {
/*@extract {'if':'GCX=1', 'kind':'members', 'file':'src/inc/GlyphCache.h', 'scope': r'class GlyphBox\s*\{', 'names':['_num','_bitmap','_slant','_subs']}@*/
} GlyphBox;
typedef struct Loader {
/*@extract {'if':'GCX=1', 'kind':'members', 'file':'src/GlyphCache.cpp', 'scope': r'class GlyphCache::Loader\s*\{',
            'names':['_head','_hhea','_hmtx','_glyf','_loca','m_pGlat','m_pGloc','_long_fmt','_has_boxes','_num_glyphs_graphics','_num_glyphs_attributes','_num_attrs'], 'subs':[[r'Face::Table', 'Table']]}@*/
} Loader;
typedef struct GlyphCache {
/*@extract {'if':'GCX=1', 'kind':'members', 'file':'src/inc/GlyphCache.h', 'scope': r'class GlyphCache\s*\{', 'names':['_empty_slant_box','_glyph_loader','_glyphs','_boxes','_num_glyphs','_num_attrs','_upem'],
            'subs':[[r'^const Rect', 'Rect']]}@*/
} GlyphCache;
/*@extract {'if':'GCX=1', 'file':'include/graphite2/Font.h', 'kind':'range', 'start': r'enum gr_face_options \{', 'end': r'\};', 'end_inclusive': True}@*/
/*@extract {'if':'GCX=1', 'file':'src/inc/GlyphCache.h', 'sig': r'unsigned short GlyphCache::numGlyphs\(\) const throw\(\)', 'emit':'static unsigned short GlyphCache_numGlyphs(const GlyphCache *self)', 'self':['_num_glyphs']}@*/
#endif

/* ==================================================================================================================== bounded units: the real life of a cache */
#ifdef GC
#ifndef MAXSUB
#define MAXSUB 1                                     /* sub-boxes read_glyph reports per glyph (the font allows 0..16) */
#endif
/* ------------------------------------------------------------------ ghost: borrow ledger (one slot per table of the Loader), cookie, counters */
#define NB 7
struct {
    struct { const void *ptr; bool out; } b[NB];      /* buffers the client handed out; out = outstanding */
    unsigned gets, rels;
} g_led;
const void *g_gcookie_ptr; size_t g_gcookie_n;        /* array cookie of the new GlyphFace[n] block */
unsigned g_loader_news, g_loader_deletes, g_glyph_dtors, g_table_dtors;
const Loader *g_L;                                    /* the Loader new Loader(face) returned */
unsigned g_rg_calls, g_rb_calls, g_allocs;            /* calls of read_glyph / read_box; allocation requests of the library */
unsigned g_rg_fails;
int g_ns[NGL];                                        /* sub-boxes read_glyph reported for glyph gid at its last call */
bool g_in_ctor, g_preloading;                         /* harness phase; the constructor runs with gr_face_preloadGlyphs */
const void *g_boxblk; size_t g_boxblk_sz; unsigned g_boxblk_frees;   /* last block gralloc<char> returned */
const void *g_single;                                 /* last block new GlyphFace() returned */

#define OUTSLOT(p, k) (g_led.b[k].out && g_led.b[k].ptr == (p))
void CB_release_table(const Face *f, const void *p)
{
    (void)f;
    const int k = OUTSLOT(p, 0) ? 0 : OUTSLOT(p, 1) ? 1 : OUTSLOT(p, 2) ? 2 : OUTSLOT(p, 3) ? 3 : OUTSLOT(p, 4) ? 4 : OUTSLOT(p, 5) ? 5 : OUTSLOT(p, 6) ? 6 : -1;
    __CPROVER_assert(k >= 0, "release_table: the pointer is an outstanding borrow (obtained from get_table and not released before)");
    g_led.rels++;
    if (k >= 0) { g_led.b[k].out = 0; free((void *)p); }     /* poison: the client may unmap it now */
}
static void client_release(const void *h, const void *p) { (void)h; (void)p; }          /* only its address is used (non-NULL release_table) */
static void free_g(void *p) { if (p != NULL && p == g_boxblk) g_boxblk_frees++; free(p); }
#define free(p) free_g(p)                                         /* every free() in the extracted code below */

/* ------------------------------------------------------------------ extracted: tables, sparse, allocation */
/*@extract {'if':'GC=1', 'file':'src/Face.cpp', 'sig': r'void Face::Table::release\(\)', 'emit':'void Table_release(Table *self)', 'casts': True,
            'subs':[[r'\(\*_f->m_ops\.release_table\)\(_f->m_appFaceHandle, ', 'CB_release_table(_f, ', 0]],
            'self':['_f','_p','_sz','_compressed']}@*/
/*@extract {'if':'GC=1', 'file':'src/inc/Face.h', 'sig': r'Face::Table::~Table\(\) throw\(\)', 'emit':'void Table_dtor(Table *self)', 'subs':[[r'release\(\)', 'Table_release(self)', 0]]}@*/
/*@extract {'if':'GC=1', 'file':'src/Sparse.cpp', 'sig': r'sparse::~sparse\(\) throw\(\)', 'emit':'void sparse_dtor(sparse *self)', 'self':['m_array','m_nchunks']}@*/
/*@extract {'if':'GC=1', 'file':'src/inc/Sparse.h', 'sig': r'sparse::sparse\(\) throw\(\)', 'ctor': True, 'emit':'static void sparse_ctor(sparse *self)', 'casts': True,
            'strip':['graphite2::sparse::'], 'self':['m_array','m_nchunks']}@*/

/* malloc / calloc with the size made concrete (FRAMEWORK.md item 14): one call per size the bound of the unit allows at that call site;
   any other size is a failed obligation.  Each may return NULL (cbmc 6: allocation functions may fail). */
#define CS_FAIL(what) __CPROVER_assert(0, "bound: " what " is one of the sizes this unit enumerates"); __CPROVER_assume(0); return NULL
#define CS(k) if (n == (k)) return malloc(k)
static void *CALLOC_ptrs(size_t n, size_t sz)
{   /* calloc(n, sizeof(pointer)) */
    g_allocs++;
    __CPROVER_assert(sz == sizeof(void *), "element size");
    if (n == NGL) return calloc(NGL, sizeof(void *));
    CS_FAIL("length of the glyph / box pointer arrays");
}
static void *MALLOC_boxes_(size_t n)
{
    if (!g_preloading || !g_in_ctor) { CS(sizeof(GlyphBox)); CS(sizeof(GlyphBox) + 32); }          /* lazy: one box, 0..MAXSUB sub-boxes */
    else { CS(NGL * sizeof(GlyphBox) + 32 * 1); CS(NGL * sizeof(GlyphBox) + 32 * 2); CS(NGL * sizeof(GlyphBox) + 32 * 3); CS(NGL * sizeof(GlyphBox) + 32 * 4); }
    CS_FAIL("size of a box block");
}
static void *MALLOC_boxes(size_t n) { void *p = MALLOC_boxes_(n); g_allocs++; g_boxblk = p; g_boxblk_sz = n; g_boxblk_frees = 0; return p; }
static void *MALLOC_glyphs(size_t n) { g_allocs++; CS(sizeof(GlyphFace)); CS(NGL * sizeof(GlyphFace)); CS_FAIL("size of a glyph block"); }

/*@extract {'if':'GC=1', 'file':'src/inc/Main.h', 'sig': r'bool checked_mul\(const size_t a, const size_t b, size_t & t\)\s*(?=\{\s*return __builtin_mul_overflow)',
            'emit':'static bool checked_mul(const size_t a, const size_t b, size_t *t)', 'refs':['t']}@*/
/*@extract {'if':'GC=1', 'file':'src/inc/Main.h', 'sig': r'template <typename T> T \* gralloc\(size_t n\)', 'emit':'static char *gralloc_char(size_t n)', 'casts': True,
            'subs':[[r'checked_mul\(n, sizeof\(T\), total\)', 'checked_mul(n, sizeof(T), &total)', 0], [r'\bT\b', 'char', 0], [r'\bmalloc\(', 'MALLOC_boxes(', 0]]}@*/
/*@extract {'if':'GC=1', 'file':'src/inc/Main.h', 'sig': r'template <typename T> T \* gralloc\(size_t n\)', 'emit':'static byte *gralloc_byte_glyphs(size_t n)', 'casts': True,
            'subs':[[r'checked_mul\(n, sizeof\(T\), total\)', 'checked_mul(n, sizeof(T), &total)', 0], [r'\bT\b', 'byte', 0], [r'\bmalloc\(', 'MALLOC_glyphs(', 0]]}@*/
/*@extract {'if':'GC=1', 'file':'src/inc/Main.h', 'sig': r'template <typename T> T \* grzeroalloc\(size_t n\)', 'emit':'static const GlyphFace **grzeroalloc_pGlyphFace(size_t n)', 'casts': True,
            'subs':[[r'\bT\b', 'const GlyphFace *', 0], [r'\bcalloc\(', 'CALLOC_ptrs(', 0]]}@*/
/*@extract {'if':'GC=1', 'file':'src/inc/Main.h', 'sig': r'template <typename T> T \* grzeroalloc\(size_t n\)', 'emit':'static GlyphBox **grzeroalloc_pGlyphBox(size_t n)', 'casts': True,
            'subs':[[r'\bT\b', 'GlyphBox *', 0], [r'\bcalloc\(', 'CALLOC_ptrs(', 0]]}@*/
/*@extract {'if':'GC=1', 'file':'src/inc/Main.h', 'sig': r'inline T max\(const T a, const T b\)', 'emit':'static unsigned short max_ushort(const unsigned short a, const unsigned short b)'}@*/
/*@extract {'if':'GC=1', 'file':'src/inc/Face.h', 'sig': r'Face::Table::operator const byte \* \(\) const throw\(\)', 'emit':'static const byte *Table_ptr(const Table *self)', 'self':['_p']}@*/
#define TBOOL(t) (Table_ptr(&self->t) != 0)                                    /* a Face::Table in a boolean context: operator const byte * */
/*@extract {'if':'GC=1', 'file':'src/GlyphCache.cpp', 'sig': r'GlyphCache::Loader::operator bool \(\) const throw\(\)', 'emit':'static bool Loader_bool(const Loader *self)',
            'subs':[[r'_head && _hhea && _hmtx', 'TBOOL(_head) && TBOOL(_hhea) && TBOOL(_hmtx)', 0], [r'bool\(_glyf\) != bool\(_loca\)', 'TBOOL(_glyf) != TBOOL(_loca)', 0]]}@*/
/*@extract {'if':'GC=1', 'file':'src/GlyphCache.cpp', 'sig': r'unsigned short int GlyphCache::Loader::num_glyphs\(\) const throw\(\)', 'emit':'static unsigned short Loader_num_glyphs(const Loader *self)',
            'subs':[[r'\bmax\(', 'max_ushort(', 0]], 'self':['_num_glyphs_graphics','_num_glyphs_attributes']}@*/
/*@extract {'if':'GC=1', 'file':'src/GlyphCache.cpp', 'sig': r'unsigned short int GlyphCache::Loader::num_attrs\(\) const throw\(\)', 'emit':'static unsigned short Loader_num_attrs(const Loader *self)', 'self':['_num_attrs']}@*/
/*@extract {'if':'GC=1', 'file':'src/GlyphCache.cpp', 'sig': r'bool GlyphCache::Loader::has_boxes \(\) const throw\(\)', 'emit':'static bool Loader_has_boxes(const Loader *self)', 'self':['_has_boxes']}@*/

/* ------------------------------------------------------------------ implicit destructors and delete expressions (spec code) */
static void GlyphFace_dtor(GlyphFace *self) { g_glyph_dtors++; sparse_dtor(&self->m_attrs); }
static void Loader_dtor(Loader *self)
{   /* implicit: the seven Face::Table members, in reverse order of declaration */
    g_table_dtors += 7;
    Table_dtor(&self->m_pGloc); Table_dtor(&self->m_pGlat); Table_dtor(&self->_loca); Table_dtor(&self->_glyf);
    Table_dtor(&self->_hmtx); Table_dtor(&self->_hhea); Table_dtor(&self->_head);
}
static void delete_Loader(Loader *p) { if (p) { __CPROVER_assert(p == g_L, "delete: the Loader new Loader(face) returned"); g_loader_deletes++; Loader_dtor(p); free(p); } }
static void delete_GlyphFace(GlyphFace *p) { if (p) { GlyphFace_dtor(p); free(p); } }
static void delete_GlyphFace_array(GlyphFace *p)
{
    if (!p) return;
    __CPROVER_assert(p == g_gcookie_ptr, "delete[]: the pointer is the block new GlyphFace[] returned");
    for (size_t i = g_gcookie_n; i > 0; --i) GlyphFace_dtor(&p[i - 1]);
    free(p);
}
static void delete_cLoader(const Loader *p) { delete_Loader((Loader *)p); }
static void delete_cGlyphFace(const GlyphFace *p) { delete_GlyphFace((GlyphFace *)p); }
static void delete_cGlyphFace_array(const GlyphFace *p) { delete_GlyphFace_array((GlyphFace *)p); }
#define DELETE(p)       _Generic((p), const Loader *: delete_cLoader, Loader *: delete_Loader, const GlyphFace *: delete_cGlyphFace, GlyphFace *: delete_GlyphFace)(p)
#define DELETE_ARRAY(p) _Generic((p), const GlyphFace *: delete_cGlyphFace_array, GlyphFace *: delete_GlyphFace_array)(p)

/* new GlyphFace() / new GlyphFace[n]: CLASS_NEW_DELETE allocation + GlyphFace() {} with members Rect(), Position(), sparse() */
static void GlyphFace_default_ctor(GlyphFace *self)
{
    self->m_bbox.bl.x = 0; self->m_bbox.bl.y = 0; self->m_bbox.tr.x = 0; self->m_bbox.tr.y = 0;
    self->m_advance.x = 0; self->m_advance.y = 0; sparse_ctor(&self->m_attrs);
}
static GlyphFace *new_GlyphFace(void)
{
    GlyphFace *p = (GlyphFace *)gralloc_byte_glyphs(sizeof(GlyphFace));
    if (p) GlyphFace_default_ctor(p);
    g_single = p;
    return p;
}
static GlyphFace *new_GlyphFace_array(size_t n)
{
    GlyphFace *p = (GlyphFace *)gralloc_byte_glyphs(n * sizeof(GlyphFace));
#ifdef NEW_GLYPHS_MAY_FAIL
    if (!p) return p;                                     /* -fcheck-new reading (experiment, no registered unit): `if (!glyphs) return;' */
#else
    __CPROVER_assume(p != NULL);                          /* assumption of these units, see 'assumptions' */
#endif
    __CPROVER_assert(g_gcookie_ptr == NULL, "one new GlyphFace[] per cache");
    g_gcookie_ptr = p; g_gcookie_n = n;
    for (size_t i = 0; i < n; ++i) GlyphFace_default_ctor(&p[i]);
    return p;
}

/* ------------------------------------------------------------------ contract stubs of the Loader (see the head of this file) */
static Face *mk_face(bool has_release)
{
    Face *face = malloc(sizeof(Face)); __CPROVER_assume(face != NULL);
    face->m_ops.get_table = NULL; face->m_ops.release_table = has_release ? client_release : NULL; face->m_appFaceHandle = face;
    return face;
}
/* a Table in an arbitrary typestate for ledger slot k: empty / holding a borrow / owning a decompressed block */
static void mk_table(Table *t, const Face *face, unsigned k)
{
    const unsigned kind = nondet_unsigned() % 3;
    t->_f = face;
    if (kind == 0) { t->_p = NULL; t->_sz = 0; t->_compressed = nondet_bool(); }
    else if (kind == 1) { byte *b = (malloc)(4); __CPROVER_assume(b != NULL); g_led.b[k].ptr = b; g_led.b[k].out = 1; g_led.gets++; t->_p = b; t->_sz = 4; t->_compressed = 0; }
    else { byte *b = (malloc)(4); __CPROVER_assume(b != NULL); t->_p = b; t->_sz = 4; t->_compressed = 1; }
}
static Loader *new_Loader(const Face *face)
{
    g_allocs++;
    Loader *l = malloc(sizeof(Loader));
    if (!l) return NULL;
    g_loader_news++; g_L = l;
    mk_table(&l->_head, face, 0); mk_table(&l->_hhea, face, 1); mk_table(&l->_hmtx, face, 2); mk_table(&l->_glyf, face, 3);
    mk_table(&l->_loca, face, 4); mk_table(&l->m_pGlat, face, 5); mk_table(&l->m_pGloc, face, 6);
    l->_long_fmt = nondet_bool(); l->_has_boxes = nondet_bool();
    l->_num_glyphs_graphics = (unsigned short)nondet_unsigned(); l->_num_glyphs_attributes = (unsigned short)nondet_unsigned(); l->_num_attrs = (unsigned short)nondet_unsigned();
    __CPROVER_assume(l->_num_glyphs_graphics <= NGL && l->_num_glyphs_attributes <= NGL);
    __CPROVER_assume(max_ushort(l->_num_glyphs_graphics, l->_num_glyphs_attributes) == 0 || max_ushort(l->_num_glyphs_graphics, l->_num_glyphs_attributes) == NGL);
    return l;
}
static unsigned short Loader_units_per_em(const Loader *self) { (void)self; return (unsigned short)nondet_unsigned(); }
static const GlyphFace *Loader_read_glyph(const Loader *self, unsigned short gid, GlyphFace *glyph, int *numsubs)
{
    g_rg_calls++;
    __CPROVER_assert(self != NULL && self == g_L && g_loader_deletes == 0, "read_glyph: called on the live Loader of this cache (not on a deleted one)");
    __CPROVER_assert(Loader_bool(self), "read_glyph: the Loader is valid (precondition LOADER_TABLES of c01_read_glyph)");
    __CPROVER_assert(gid < NGL, "read_glyph: glyph id below the number of glyphs");
    __CPROVER_assert(numsubs != NULL && *numsubs >= 0 && *numsubs <= 16 * 65536, "read_glyph: numsubs points to a counter in range");
    __CPROVER_assert(glyph->m_attrs.m_array.map == &empty_chunk, "read_glyph is handed a default constructed GlyphFace (constructing the glyph in place loses no block)");
    if (g_in_ctor && g_preloading)
        __CPROVER_assert(SAME(glyph, g_gcookie_ptr) && OFF(glyph) == (size_t)gid * sizeof(GlyphFace) && gid < g_gcookie_n, "preload: read_glyph(gid) constructs element gid of the new GlyphFace[_num_glyphs] block");
    else
        __CPROVER_assert(glyph == g_single && OFF(glyph) == 0, "lazy: read_glyph constructs the GlyphFace just allocated");
    if (gid < NGL) g_ns[gid] = 0;
    if (nondet_bool()) { g_rg_fails++; return NULL; }           /* table lookups refuse the glyph */
    if (numsubs && gid < NGL && nondet_bool()) { g_ns[gid] = MAXSUB; *numsubs += MAXSUB; }
    if (nondet_bool()) {                                         /* new (&glyph) GlyphFace(bbox, advance, first, last): sparse(first, last) */
        const unsigned kind = nondet_unsigned() % 3;
        glyph->m_attrs.m_nchunks = (key_type)nondet_unsigned();
        if (kind == 0) glyph->m_attrs.m_array.map = (chunk *)&empty_chunk;
        else if (kind == 1) glyph->m_attrs.m_array.map = NULL;
        else glyph->m_attrs.m_array.values = (malloc)(8);
        if (glyph->m_attrs.m_array.map == NULL || nondet_bool()) { g_rg_fails++; return NULL; }      /* !glyph.attrs() || capacity > _num_attrs */
    }
    return glyph;
}
static GlyphBox *Loader_read_box(const Loader *self, unsigned short gid, GlyphBox *curr, const GlyphFace *glyph)
{
    g_rb_calls++;
    __CPROVER_assert(self != NULL && self == g_L && g_loader_deletes == 0, "read_box: called on the live Loader of this cache (not on a deleted one)");
    __CPROVER_assert(gid < NGL, "read_box: glyph id below the number of glyphs");
    __CPROVER_assert(curr != NULL, "read_box: the box is not NULL (it placement-constructs a GlyphBox there)");
    __CPROVER_assert(glyph != NULL && glyph->m_attrs.m_array.map != NULL, "read_box: the glyph is one read_glyph accepted");
    if (curr == NULL || gid >= NGL) { __CPROVER_assume(0); return NULL; }
    const size_t need = sizeof(GlyphBox) + 8 * (size_t)g_ns[gid] * sizeof(float);
    __CPROVER_assert(SAME(curr, g_boxblk) && OFF(curr) <= g_boxblk_sz && need <= g_boxblk_sz - OFF(curr) && OBJSZ(curr) == g_boxblk_sz,
                     "read_box: sizeof(GlyphBox) + 8*numsubs(gid)*sizeof(float) bytes from curr lie inside the block gralloc<char> returned (precondition of c01_read_box)");
    ((char *)curr)[0] = (char)nondet_unsigned(); ((char *)curr)[need - 1] = (char)nondet_unsigned();      /* first and last byte it may write */
    if (nondet_bool()) return NULL;
    return (GlyphBox *)((char *)curr + sizeof(GlyphBox) + 2 * (size_t)g_ns[gid] * sizeof(Rect));
}
#define M_num_glyphs_0   Loader_num_glyphs
#define M_num_attrs_0    Loader_num_attrs
#define M_units_per_em_0 Loader_units_per_em
#define M_has_boxes_0    Loader_has_boxes
#define M_read_glyph_3(l, gid, g, ns) Loader_read_glyph(l, gid, &(g), ns)      /* GlyphFace & */
#define M_read_box_3(l, gid, c, g)    Loader_read_box(l, gid, c, &(g))         /* const GlyphFace & */
#endif /* GC */

/* ==================================================================================================================== proof units: stubs */
#ifdef GP
/* glyph() on a cache without a Loader reaches none of these: each is an unreachable obligation */
unsigned g_reached;
static GlyphFace *new_GlyphFace(void) { __CPROVER_assert(0, "no Loader: glyph() allocates no GlyphFace"); g_reached++; return NULL; }
static char *gralloc_char(size_t n) { (void)n; __CPROVER_assert(0, "no Loader: glyph() allocates no box"); g_reached++; return NULL; }
static const GlyphFace *Loader_read_glyph(const Loader *self, unsigned short gid, GlyphFace *glyph, int *numsubs)
{ (void)self; (void)gid; (void)glyph; (void)numsubs; __CPROVER_assert(0, "no Loader: glyph() does not reach read_glyph"); g_reached++; return NULL; }
static GlyphBox *Loader_read_box(const Loader *self, unsigned short gid, GlyphBox *curr, const GlyphFace *glyph)
{ (void)self; (void)gid; (void)curr; (void)glyph; __CPROVER_assert(0, "no Loader: glyph() does not reach read_box"); g_reached++; return NULL; }
static void delete_cGlyphFace(const GlyphFace *p) { (void)p; __CPROVER_assert(0, "no Loader: glyph() deletes nothing"); g_reached++; }
#define DELETE(p) delete_cGlyphFace(p)
#define DELETE_ARRAY(p) delete_cGlyphFace(p)
#define M_read_glyph_3(l, gid, g, ns) Loader_read_glyph(l, gid, &(g), ns)
#define M_read_box_3(l, gid, c, g)    Loader_read_box(l, gid, c, &(g))
const GlyphCache *g_C; size_t g_ng; unsigned short g_gid16;
const GlyphFace *GlyphCache_glyph(GlyphCache *self, unsigned short glyphid)
__CPROVER_requires(self == g_C && glyphid == g_gid16 && self->_num_glyphs == g_ng && g_ng >= 1)
__CPROVER_requires(OFF(self->_glyphs) == 0 && OBJSZ(self->_glyphs) == g_ng * sizeof(const GlyphFace *))
__CPROVER_requires(self->_boxes == 0 || (OFF(self->_boxes) == 0 && OBJSZ(self->_boxes) == g_ng * sizeof(GlyphBox *)))
/* the state after a completed preload (postcondition of the constructor, units c16_gcc_ctor_n*) */
__CPROVER_requires(self->_glyph_loader == 0)
__CPROVER_assigns()
__CPROVER_ensures(__CPROVER_return_value == g_C->_glyphs[g_gid16 < g_ng ? g_gid16 : 0])
__CPROVER_ensures(g_reached == 0);
#endif

#ifdef GS
const GlyphCache *g_C; size_t g_ng; unsigned short g_gid16;
/* assumed here (replace): the contract of glyph() for an id below numGlyphs - c01_cache_glyph / c16_gcc_glyph_noloader */
const GlyphFace *GlyphCache_glyph(GlyphCache *self, unsigned short glyphid)
__CPROVER_requires(self == g_C && glyphid == g_gid16)
__CPROVER_requires(glyphid < self->_num_glyphs)               /* what glyphSafe's guard must establish */
__CPROVER_assigns(glyphid < g_ng: self->_glyphs[glyphid]; (glyphid < g_ng && self->_boxes != 0): self->_boxes[glyphid])
__CPROVER_ensures(__CPROVER_return_value != 0 && (__CPROVER_return_value == g_C->_glyphs[0] || __CPROVER_return_value == g_C->_glyphs[g_gid16]));
const GlyphFace *GlyphCache_glyphSafe(GlyphCache *self, unsigned short glyphid)
__CPROVER_requires(self == g_C && glyphid == g_gid16 && self->_num_glyphs == g_ng && g_ng >= 1)
__CPROVER_requires(OFF(self->_glyphs) == 0 && OBJSZ(self->_glyphs) == g_ng * sizeof(const GlyphFace *))
__CPROVER_requires(self->_boxes == 0 || (OFF(self->_boxes) == 0 && OBJSZ(self->_boxes) == g_ng * sizeof(GlyphBox *)))
__CPROVER_assigns(glyphid < g_ng: self->_glyphs[glyphid]; (glyphid < g_ng && self->_boxes != 0): self->_boxes[glyphid])
__CPROVER_ensures(g_gid16 >= g_ng ==> __CPROVER_return_value == 0)
__CPROVER_ensures(g_gid16 < g_ng ==> (__CPROVER_return_value != 0 && (__CPROVER_return_value == g_C->_glyphs[0] || __CPROVER_return_value == g_C->_glyphs[g_gid16])));
/*@extract {'if':'GS=1', 'file':'src/inc/GlyphCache.h', 'sig': r'const GlyphFace \*GlyphCache::glyphSafe\(unsigned short glyphid\) const', 'emit':'const GlyphFace *GlyphCache_glyphSafe(GlyphCache *self, unsigned short glyphid)',
            'subs':[[r'\bglyph\(glyphid\)', 'GlyphCache_glyph(self, glyphid)', 0]], 'self':['_num_glyphs']}@*/
#endif

/* ==================================================================================================================== extracted: the cache itself */
#if defined(GC) || defined(GP)
/*@extract {'if':'GCG=1', 'file':'src/GlyphCache.cpp', 'sig': r'const GlyphFace \*GlyphCache::glyph\(unsigned short glyphid\) const', 'emit':'const GlyphFace *GlyphCache_glyph(GlyphCache *self, unsigned short glyphid)',
            'subs':[[r'numGlyphs\(\)', 'GlyphCache_numGlyphs(self)', 0], [r'const GlyphFace \* & p = ', 'const GlyphFace * * const p_ref = &', 0], [r'(?<![\w.>])p\b', '(*p_ref)', 0],
                    [r'new GlyphFace\(\)', 'new_GlyphFace()', 0], [r'gralloc<char>\(', 'gralloc_char(', 0],
                    [r'delete\s*\[\]\s*([^;]+);', r'DELETE_ARRAY(\1);', 0], [r'delete\s*([^;]+);', r'DELETE(\1);', 0]],
            'methods':['read_glyph','read_box'], 'self':['_glyph_loader','_glyphs','_boxes','_num_glyphs','_num_attrs','_upem']}@*/
#endif
#ifdef GC
/*@extract {'if':'GC=1', 'file':'src/inc/GlyphCache.h', 'sig': r'const GlyphFace \*GlyphCache::glyphSafe\(unsigned short glyphid\) const', 'emit':'const GlyphFace *GlyphCache_glyphSafe(GlyphCache *self, unsigned short glyphid)',
            'subs':[[r'\bglyph\(glyphid\)', 'GlyphCache_glyph(self, glyphid)', 0]], 'self':['_num_glyphs']}@*/
/*@extract {'if':'GC=1', 'file':'src/GlyphCache.cpp', 'sig': r'GlyphCache::GlyphCache\(const Face & face, const uint32 face_options\)', 'ctor': True,
            'emit':'void GlyphCache_ctor(GlyphCache *self, const Face *face, const uint32 face_options)',
            'subs':[[r'new Loader\(face\)', 'new_Loader(face)', 0], [r'&& \*_glyph_loader &&', '&& Loader_bool(_glyph_loader) &&', 0],
                    [r'grzeroalloc<const GlyphFace \*>\(', 'grzeroalloc_pGlyphFace(', 0], [r'grzeroalloc<GlyphBox \*>\(', 'grzeroalloc_pGlyphBox(', 0],
                    [r'new GlyphFace \[_num_glyphs\]', 'new_GlyphFace_array(_num_glyphs)', 0], [r'gralloc<char>\(', 'gralloc_char(', 0],
                    [r'\bglyph\(0\)', 'GlyphCache_glyph(self, 0)', 0],
                    [r'delete\s*\[\]\s*([^;]+);', r'DELETE_ARRAY(\1);', 0], [r'delete\s*([^;]+);', r'DELETE(\1);', 0]],
            'methods':['num_glyphs','num_attrs','units_per_em','has_boxes','read_glyph','read_box'], 'self':['_glyph_loader','_glyphs','_boxes','_num_glyphs','_num_attrs','_upem']}@*/
/*@extract {'if':'GC=1', 'file':'src/GlyphCache.cpp', 'sig': r'GlyphCache::~GlyphCache\(\)', 'emit':'void GlyphCache_dtor(GlyphCache *self)',
            'subs':[[r'delete\s*\[\]\s*([^;]+);', r'DELETE_ARRAY(\1);', 0], [r'delete\s*([^;]+);', r'DELETE(\1);', 0]],
            'self':['_glyph_loader','_glyphs','_boxes','_num_glyphs','_num_attrs','_upem']}@*/

/* ------------------------------------------------------------------ harness */
#define NO_TABLE_OUT (!g_led.b[0].out && !g_led.b[1].out && !g_led.b[2].out && !g_led.b[3].out && !g_led.b[4].out && !g_led.b[5].out && !g_led.b[6].out)
static void lookup(GlyphCache *gc, bool preloaded)
{   /* one lookup, as a shaping run does: glyph(gid) or glyphSafe(gid), any id */
    const unsigned short w_gid = (unsigned short)nondet_unsigned();
    const bool safe = nondet_bool();
    const unsigned rg0 = g_rg_calls, rb0 = g_rb_calls, al0 = g_allocs, del0 = g_loader_deletes, gd0 = g_glyph_dtors;
    const GlyphFace *r = safe ? GlyphCache_glyphSafe(gc, w_gid) : GlyphCache_glyph(gc, w_gid);
    if (safe && w_gid >= NGL) __CPROVER_assert(r == NULL, "glyphSafe: an id >= numGlyphs yields NULL");
    else __CPROVER_assert(r != NULL && (r == gc->_glyphs[0] || (w_gid < NGL && r == gc->_glyphs[w_gid])), "glyph: the glyph of that id, else glyph 0; never NULL");
    __CPROVER_assert(gc->_glyphs[0] != NULL, "glyph 0 stays loaded");
    if (preloaded) {
        __CPROVER_assert(g_rg_calls == rg0 && g_rb_calls == rb0, "preloaded cache: a lookup reaches neither read_glyph nor read_box (no table is touched after the constructor)");
        __CPROVER_assert(g_allocs == al0 && g_glyph_dtors == gd0 && g_loader_deletes == del0, "preloaded cache: a lookup allocates and frees nothing");
        __CPROVER_assert(r == gc->_glyphs[w_gid < NGL ? w_gid : 0] || (safe && w_gid >= NGL), "preloaded cache: the slot itself is returned");
    }
}

void h_gcc_ctor(void)
{
    const bool w_has_release = nondet_bool();
    Face *face = mk_face(w_has_release);
    GlyphCache *gc = malloc(sizeof(GlyphCache)); __CPROVER_assume(gc != NULL);
    const uint32 w_options = nondet_unsigned();
#ifdef PRELOAD_ONLY
    __CPROVER_assume(w_options & gr_face_preloadGlyphs);
#endif
    const bool pre = (w_options & gr_face_preloadGlyphs) != 0;
    g_in_ctor = true; g_preloading = pre;

    GlyphCache_ctor(gc, face, w_options);

    g_in_ctor = false;
    const bool have = gc->_glyphs != NULL;
    const bool preloaded = have && gc->_glyph_loader == NULL;
    /* ---- (2) state classification */
    __CPROVER_assert(g_loader_news <= 1 && (gc->_glyph_loader == NULL || (gc->_glyph_loader == g_L && g_loader_deletes == 0)), "the cache holds no Loader or the live one it created (never a deleted one)");
    if (!have) {
        __CPROVER_assert(gc->_num_glyphs == 0 && gc->_num_attrs == 0 && gc->_upem == 0, "without a glyph array the cache reports 0 glyphs, 0 attributes, upem 0 (Face::readGlyphs refuses the font)");
        __CPROVER_assert(gc->_boxes == NULL || (g_rg_calls == 0 && gc->_glyph_loader != NULL), "without a glyph array there is no box array, except when the glyph array itself could not be allocated");
    } else {
        __CPROVER_assert(gc->_num_glyphs == NGL && OFF(gc->_glyphs) == 0 && OBJSZ(gc->_glyphs) == NGL * sizeof(const GlyphFace *), "_num_glyphs is the length of the glyph array");
        __CPROVER_assert(gc->_boxes == NULL || (OFF(gc->_boxes) == 0 && OBJSZ(gc->_boxes) == NGL * sizeof(GlyphBox *)), "_num_glyphs is the length of the box array");
        __CPROVER_assert(gc->_glyphs[0] != NULL, "a cache that keeps its glyph array has glyph 0 loaded (precondition of c01_cache_glyph)");
    }
    /* ---- (3) C16: with preloading the Loader and its tables are gone when the constructor returns */
    if (pre && (have || g_rg_calls > 0)) {
        __CPROVER_assert(gc->_glyph_loader == NULL && g_loader_news == 1 && g_loader_deletes == 1 && g_table_dtors == 7, "preload: the Loader was deleted exactly once by the constructor, _glyph_loader == 0");
        if (w_has_release) __CPROVER_assert(g_led.rels == g_led.gets && NO_TABLE_OUT, "preload: every table the Loader borrowed was released exactly once before the constructor returned; none is outstanding");
    }
    if (pre && !have && g_rg_calls > 0) {   /* (4) a glyph was unreadable */
        __CPROVER_assert(g_rg_fails > 0, "preload: the cache is dropped only if a glyph was unreadable");
        __CPROVER_assert(g_glyph_dtors == NGL && g_gcookie_ptr != NULL, "preload failure: delete[] destroyed each element of the glyph block exactly once");
        __CPROVER_assert(gc->_boxes == NULL, "preload failure: the box array is gone as well");
    }
    if (preloaded) {
        __CPROVER_assert(pre, "only preloading gives up the Loader");
        __CPROVER_assert(g_rg_calls == NGL && g_rg_fails == 0 && g_glyph_dtors == 0, "preload: every glyph was read exactly once and accepted");
        for (unsigned k = 0; k < NGL; ++k)
            __CPROVER_assert(gc->_glyphs[k] == (const GlyphFace *)g_gcookie_ptr + k, "preload: slot k holds &block[k] of the one new GlyphFace[] block (slot 0 = the block: delete[] _glyphs[0] matches)");
        if (gc->_boxes != NULL && gc->_boxes[0] != NULL) {
            size_t off = 0;
            __CPROVER_assert(gc->_boxes[0] == g_boxblk && g_boxblk_frees == 0, "preload: _boxes[0] is the live box block (free(_boxes[0]) matches)");
            for (unsigned k = 0; k < NGL; ++k) {
                __CPROVER_assert(SAME(gc->_boxes[k], g_boxblk) && OFF(gc->_boxes[k]) == off, "preload: the boxes lie back to back inside the box block");
                off += sizeof(GlyphBox) + 8 * (size_t)g_ns[k] * sizeof(float);
            }
            __CPROVER_assert(off == g_boxblk_sz && g_rb_calls == NGL, "preload: the box block is exactly _num_glyphs*sizeof(GlyphBox) + numsubs*8*sizeof(float) bytes, one read_box per glyph");
        } else if (gc->_boxes != NULL)
            __CPROVER_assert(g_boxblk == NULL || g_boxblk_frees == 1, "preload: a box block that is not kept was freed exactly once");
    }
    if (have && !preloaded) {   /* (5) lazy */
        __CPROVER_assert(!pre && gc->_glyph_loader == g_L && g_loader_deletes == 0, "lazy: the Loader is kept");
        __CPROVER_assert(g_gcookie_ptr == NULL && gc->_glyphs[0] == g_single, "lazy: glyph 0 is an individually allocated GlyphFace (delete _glyphs[k] matches)");
        for (unsigned k = 1; k < NGL; ++k) __CPROVER_assert(gc->_glyphs[k] == NULL && (gc->_boxes == NULL || gc->_boxes[k] == NULL), "lazy: no other slot is filled by the constructor");
        __CPROVER_assert(gc->_boxes == NULL || gc->_boxes[0] == NULL || (gc->_boxes[0] == g_boxblk && g_boxblk_frees == 0 && OFF(gc->_boxes[0]) == 0), "lazy: box 0 is 0 or its own live block");
    }
    /* ---- (6) what a shaping run does (callers do not look up glyphs in a cache without glyphs: Face::readGlyphs fails then) */
    if (have) {
        if (nondet_bool()) lookup(gc, preloaded);
#ifndef ONE_LAZY_LOOKUP
        if (nondet_bool()) lookup(gc, preloaded);
#else
        if (preloaded && nondet_bool()) lookup(gc, preloaded);
#endif
    }
    /* ---- (7) */
    GlyphCache_dtor(gc);

    __CPROVER_assert(g_loader_deletes == g_loader_news, "the Loader is deleted exactly once (by the constructor when preloading, else by the destructor)");
    if (w_has_release) {
        __CPROVER_assert(g_led.rels == g_led.gets && NO_TABLE_OUT, "every table the Loader obtained from get_table was passed to release_table exactly once; none is outstanding after ~GlyphCache");
    } else {
        __CPROVER_assert(g_led.rels == 0, "no release_table: nothing is released");
#define KEEP(k) if (g_led.b[k].out) (free)((void *)g_led.b[k].ptr);
        KEEP(0) KEEP(1) KEEP(2) KEEP(3) KEEP(4) KEEP(5) KEEP(6)                              /* the client keeps ownership: not a library leak */
    }
    (free)(gc); (free)(face);
    /* --memory-leak-check: nothing the cache owned is left */
    if (preloaded && gc != NULL) CANARY();   /* vacuity guard: the preloading path ran to the end */
}
#endif

#ifdef GP
void h_glyph_noloader(void)
{
    GlyphCache *c = malloc(sizeof(GlyphCache)); __CPROVER_assume(c != NULL);
    g_ng = nondet_size_t(); __CPROVER_assume(g_ng >= 1 && g_ng <= 65535);
    c->_num_glyphs = (unsigned short)g_ng;
    c->_glyphs = malloc(g_ng * sizeof(const GlyphFace *)); __CPROVER_assume(c->_glyphs != NULL);
    c->_boxes = nondet_bool() ? (GlyphBox **)0 : malloc(g_ng * sizeof(GlyphBox *));
    c->_glyph_loader = NULL;
    g_C = c; g_gid16 = (unsigned short)nondet_unsigned(); g_reached = 0;
    const GlyphFace *r = GlyphCache_glyph(c, g_gid16); (void)r;
    CANARY();
}
#endif
#ifdef GS
void h_glyphsafe(void)
{
    GlyphCache *c = malloc(sizeof(GlyphCache)); __CPROVER_assume(c != NULL);
    g_ng = nondet_size_t(); __CPROVER_assume(g_ng >= 1 && g_ng <= 65535);
    c->_num_glyphs = (unsigned short)g_ng;
    c->_glyphs = malloc(g_ng * sizeof(const GlyphFace *)); __CPROVER_assume(c->_glyphs != NULL);
    c->_boxes = nondet_bool() ? (GlyphBox **)0 : malloc(g_ng * sizeof(GlyphBox *));
    g_C = c; g_gid16 = (unsigned short)nondet_unsigned();
    const GlyphFace *r = GlyphCache_glyphSafe(c, g_gid16); (void)r;
    CANARY();
}
#endif
