/* C18 - feature values are an isolated, range-checked map with font defaults.
 * Functions under contract (extracted from /repo on every run):
 *   _mask_over_val<1|2|4|8>, mask_over_val<uint32>, bit_set_count<uint32> (portable variant)      src/inc/bits.h
 *   FeatureRef::FeatureRef(face, bits_offset, ...)  (bit allocator), applyValToFeature, getFeatureVal,
 *   readFeatureSettings, SillMap::cloneFeatures (selection loop), FeatureMap::findFeatureRef       src/FeatureMap.cpp
 *   FeatureVal::operator==                                                                          src/inc/FeatureVal.h
 *   Vector<uint32>::size / operator[]                                                               src/inc/List.h
 *   zeropad (shared with C20: unit c20_zeropad / c20_pad_lemma carry props C18 too)
 */
#include "types.h"
#define assert(x) __CPROVER_assert((x), "source assert: " #x)

/*@unit {'name':'c18_bits', 'props':['C18'], 'entry':'h_bits', 'enforce':['mask_over_val','bit_set_count'],
  'claims':'mask_over_val(v) is the smallest all-ones mask covering v; bit_set_count is the population count (all 2^32 inputs)'}@*/
/*@unit {'name':'c18_ctor', 'props':['C18'], 'entry':'h_ctor', 'enforce':'FeatureRef_ctor', 'replace':['mask_over_val','bit_set_count'], 'defines':['OFFSET_LIMIT=8128'],
  'replay':'c18_features', 'witness_defines':['OFFSET_LIMIT=8128'], 'witness_vars':['w_off','w_max'],
  'claims':'bit allocator: the field of need_bits bits lies inside one 32-bit word (no straddle), at or above the running offset (no overlap with earlier features), the mask is mask_over_val(max) shifted without loss, the running offset advances to the end of the field; for running offsets whose word index stays below 256'}@*/
/*@unit {'name':'c18_readfeats_guard', 'props':['C18'], 'entry':'h_guard', 'enforce':'readFeats_guard',
  'claims':'call-site lemma: FeatureMap::readFeats constructs a FeatureRef only while the running bit offset is at most 8128, which is the precondition under which the allocator contract (c18_ctor) holds - the byte-sized word index cannot wrap'}@*/
/*@unit {'name':'c18_apply', 'props':['C18'], 'entry':'h_apply', 'enforce':'FeatureRef_applyValToFeature', 'replace':['Vector_resize'],
  'replay':'c18_features', 'witness_defines':[], 'witness_vars':['w_val','w_max','w_bits','w_index','w_size','w_samemap','w_word'],
  'claims':'applyValToFeature succeeds exactly when val <= max (and the feature map matches); on success the field reads back val and every other bit of every word is unchanged; on failure nothing changes'}@*/
/*@unit {'name':'c18_get', 'props':['C18'], 'entry':'h_get', 'enforce':'FeatureRef_getFeatureVal',
  'claims':'getFeatureVal returns the masked, shifted field (0 when the vector is too short or foreign) and assigns nothing'}@*/
/*@unit {'name':'c18_isolation', 'props':['C18'], 'entry':'h_isolation', 'replace':['FeatureRef_ctor','FeatureRef_applyValToFeature','FeatureRef_getFeatureVal','mask_over_val','bit_set_count'], 'defines':['OFFSET_LIMIT=8128'],
  'claims':'lemma over the contracts only: for two features allocated by successive constructor calls, set(f, v) succeeds iff v <= max(f); then get(f) == v and get(g) is unchanged; a failed set changes nothing'}@*/
/*@unit {'name':'c18_settings', 'props':['C18'], 'entry':'h_settings', 'enforce':'readFeatureSettings', 'replace':['FeatureSetting_init'], 'min_loops':1,
  'replay':'c18_features', 'witness_defines':['WITNESS'], 'witness_vars':['w_n','w_v'],
  'claims':'readFeatureSettings returns the largest setting value taken as an unsigned 16-bit number (the feature maximum used by the range check) and stores every (value,label) pair; reads exactly 4*n bytes'}@*/
/*@unit {'name':'c18_clone', 'props':['C18'], 'entry':'h_clone', 'enforce':'SillMap_cloneFeatures', 'replace':['Features_new_copy'], 'min_loops':1,
  'claims':'cloneFeatures(lang) copies the entry of the first language whose tag equals lang, the defaults when lang is 0 or unknown'}@*/
/*@unit {'name':'c18_equal', 'props':['C18'], 'entry':'h_equal', 'enforce':'FeatureVal_equal', 'min_loops':1,
  'claims':'FeatureVal::operator== is true exactly when both vectors have the same size and equal words (clones compare equal to their source)'}@*/

/* ------------------------------------------------------------------ shim structs (fields as in the real headers; layout cross-checked by tools/layout_check) */
typedef struct FeatureMap FeatureMap;
typedef struct Features { uint32 *m_first, *m_last, *m_end; const FeatureMap *m_pMap; } Features;   /* FeatureVal : Vector<uint32> */
typedef struct FeatureSetting { uint16 m_label; int16 m_value; } FeatureSetting;
struct FeatureMap { uint16 m_numFeats; void *m_feats; void *m_pNamedFeats; Features m_defaultFeatures; };
typedef struct LangFeaturePair { uint32 m_lang; Features *m_pFeatures; } LangFeaturePair;
typedef struct SillMap { FeatureMap m_FeatureMap; LangFeaturePair *m_langFeats; uint16 m_numLanguages; } SillMap;
typedef struct Face { SillMap m_Sill; } Face;
typedef uint32 chunk_t;
typedef uint16 flags_t;
typedef struct FeatureRef {      /* the data members of class FeatureRef, copied from the header on every run */
/*@extract {'kind':'members', 'file':'src/inc/FeatureMap.h', 'scope': r'class FeatureRef\s*\{', 'names':['m_face','m_nameValues','m_mask','m_max','m_id','m_nameid','m_numSet','m_flags','m_bits','m_index']}@*/
} FeatureRef;
/*@extract {'file':'src/inc/FeatureMap.h', 'scope': r'class FeatureRef\s*\{', 'kind':'range', 'start': r'static const uint8\s+SIZEOF_CHUNK', 'end': r';', 'end_inclusive': True,
            'subs':[[r'sizeof\(chunk_t\)\*8', '32', 1]]}@*/
/* m_face->theSill().theFeatureMap(): two trivial accessors (Face::theSill, SillMap::theFeatureMap) */
#define FACE_FEATUREMAP(f) (&(f)->m_Sill.m_FeatureMap)

/* ------------------------------------------------------------------ spec functions */
#define POP32(x) ( (((x)>>0)&1)+(((x)>>1)&1)+(((x)>>2)&1)+(((x)>>3)&1)+(((x)>>4)&1)+(((x)>>5)&1)+(((x)>>6)&1)+(((x)>>7)&1) \
 +(((x)>>8)&1)+(((x)>>9)&1)+(((x)>>10)&1)+(((x)>>11)&1)+(((x)>>12)&1)+(((x)>>13)&1)+(((x)>>14)&1)+(((x)>>15)&1) \
 +(((x)>>16)&1)+(((x)>>17)&1)+(((x)>>18)&1)+(((x)>>19)&1)+(((x)>>20)&1)+(((x)>>21)&1)+(((x)>>22)&1)+(((x)>>23)&1) \
 +(((x)>>24)&1)+(((x)>>25)&1)+(((x)>>26)&1)+(((x)>>27)&1)+(((x)>>28)&1)+(((x)>>29)&1)+(((x)>>30)&1)+(((x)>>31)&1) )
#ifndef OFFSET_LIMIT
#define OFFSET_LIMIT 8128
#endif
#define ALLONES(r) ((((r) + 1u) & (r)) == 0u)
/* smallest mask of the form 2^k-1 that is >= v */
#define IS_MASK_OVER(r, v) (ALLONES(r) && (r) >= (v) && ((v) == 0 ? (r) == 0 : ((r) >> 1) < (v)))
#define LOWMASK(n) ((uint32)((((uint64_t)1) << (n)) - 1))

/* ------------------------------------------------------------------ ghost state */
unsigned short *g_bits_offset;     /* the running offset object of readFeats */
unsigned short  g_old_off;
size_t g_k;                        /* ghost index: an arbitrary word of the destination vector */
uint32 g_old_word_k, g_old_word_idx; size_t g_old_size; const FeatureMap *g_old_map; uint32 *g_old_first;
size_t g_new;                      /* ghost index into the part a resize adds */

/* ------------------------------------------------------------------ contracts */
uint32 mask_over_val(uint32 v)
__CPROVER_ensures(IS_MASK_OVER(__CPROVER_return_value, v))
__CPROVER_assigns();

unsigned int bit_set_count(uint32 v)
__CPROVER_ensures(__CPROVER_return_value == POP32(v))
__CPROVER_assigns();

/* the allocator contract (anchors.mechanism: "moving to the next word rather than straddling") */
void FeatureRef_ctor(FeatureRef *self, const Face *face, unsigned short *bits_offset, uint32 max_val, uint32 name, uint16 uiName, flags_t flags, FeatureSetting *settings, uint16 num_set)
__CPROVER_requires(*bits_offset <= OFFSET_LIMIT)
__CPROVER_assigns(*self, *bits_offset)
/* plain field initialisation */
__CPROVER_ensures(self->m_face == face && self->m_nameValues == settings && self->m_max == max_val && self->m_id == name
                  && self->m_nameid == uiName && self->m_numSet == num_set && self->m_flags == flags)
/* the field: need = popcount(mask_over_val(max)) bits at bit m_bits of word m_index, entirely inside the word */
__CPROVER_ensures(self->m_bits < 32 && ALLONES(self->m_mask >> self->m_bits) && IS_MASK_OVER(self->m_mask >> self->m_bits, max_val)
                  && ((self->m_mask >> self->m_bits) << self->m_bits) == self->m_mask
                  && self->m_bits + POP32(self->m_mask) <= 32)
/* at or above the old running offset, and the running offset moves to the end of the field */
__CPROVER_ensures(32u * self->m_index + self->m_bits >= __CPROVER_old(*bits_offset)
                  && *bits_offset == 32u * self->m_index + self->m_bits + POP32(self->m_mask));

#define FREF_WF(f) ((f)->m_bits < 32 && ALLONES((f)->m_mask >> (f)->m_bits) && IS_MASK_OVER((f)->m_mask >> (f)->m_bits, (f)->m_max) \
                    && (((f)->m_mask >> (f)->m_bits) << (f)->m_bits) == (f)->m_mask)
#define VSIZE(v) ((size_t)((v)->m_last - (v)->m_first))
#define APPLY_OK(self, val, d) ((val) <= (self)->m_max && (self)->m_face != NULL && (g_old_map == NULL || g_old_map == FACE_FEATUREMAP((self)->m_face)))

bool FeatureRef_applyValToFeature(const FeatureRef *self, uint32 val, Features *pDest)
__CPROVER_requires(FREF_WF(self))
__CPROVER_requires(pDest->m_first == g_old_first && VSIZE(pDest) == g_old_size && pDest->m_pMap == g_old_map && g_old_size <= 256
                   && SAME(pDest->m_first, pDest->m_last) && SAME(pDest->m_first, pDest->m_end) && pDest->m_last <= pDest->m_end)
__CPROVER_requires(g_k >= g_old_size || pDest->m_first[g_k] == g_old_word_k)
__CPROVER_requires(self->m_index >= g_old_size ? g_old_word_idx == 0 : pDest->m_first[self->m_index] == g_old_word_idx)
__CPROVER_assigns(pDest->m_pMap; __CPROVER_object_whole(pDest->m_first); g_old_size <= self->m_index: pDest->m_first, pDest->m_last, pDest->m_end)
/* succeeds exactly when the value is in range (and the vector belongs to this face or to none yet) */
__CPROVER_ensures(__CPROVER_return_value == APPLY_OK(self, val, pDest))
/* success: the field reads back val, all other bits of that word and every other word keep their value */
__CPROVER_ensures(__CPROVER_return_value ==> (VSIZE(pDest) > self->m_index && VSIZE(pDest) >= g_old_size
        && ((pDest->m_first[self->m_index] & self->m_mask) >> self->m_bits) == val
        && (pDest->m_first[self->m_index] & ~self->m_mask) == (g_old_word_idx & ~self->m_mask)
        && (g_k >= g_old_size || g_k == self->m_index || pDest->m_first[g_k] == g_old_word_k)
        && pDest->m_pMap == FACE_FEATUREMAP(self->m_face)))
/* no reallocation when the vector is already long enough */
__CPROVER_ensures((__CPROVER_return_value && g_old_size > self->m_index) ==> (pDest->m_first == g_old_first && VSIZE(pDest) == g_old_size))
/* failure: nothing changes */
__CPROVER_ensures(!__CPROVER_return_value ==> (pDest->m_first == g_old_first && VSIZE(pDest) == g_old_size && pDest->m_pMap == g_old_map
        && (g_k >= g_old_size || pDest->m_first[g_k] == g_old_word_k)
        && (self->m_index >= g_old_size || pDest->m_first[self->m_index] == g_old_word_idx)));

uint32 FeatureRef_getFeatureVal(const FeatureRef *self, const Features *feats)
__CPROVER_requires(self->m_bits < 32 && SAME(feats->m_first, feats->m_last) && VSIZE(feats) <= 256)
__CPROVER_assigns()
__CPROVER_ensures(__CPROVER_return_value ==
      ((self->m_index < VSIZE(feats) && self->m_face != NULL && FACE_FEATUREMAP(self->m_face) == feats->m_pMap)
         ? (feats->m_first[self->m_index] & self->m_mask) >> self->m_bits : 0u));

/* Vector<uint32>::resize(n) growing: assumed contract (List.h reserve/insert are C17 units for T=Exclusion) */
void Vector_resize(Features *v, size_t n)
__CPROVER_requires(n > VSIZE(v) && n <= 256)
__CPROVER_assigns(v->m_first, v->m_last, v->m_end)
__CPROVER_ensures(__CPROVER_is_fresh(v->m_first, 256 * sizeof(uint32)) && v->m_last == v->m_first + n && v->m_end == v->m_first + 256)
__CPROVER_ensures(g_k >= g_old_size || v->m_first[g_k] == g_old_word_k)                         /* old elements preserved */
__CPROVER_ensures((g_new < g_old_size || g_new >= n) || v->m_first[g_new] == 0);                /* new elements value-initialised */

/* ------------------------------------------------------------------ extracted code */
/*@extract {'file':'src/inc/bits.h', 'sig': r'inline size_t _mask_over_val<1>\(size_t v\)', 'emit':'static size_t _mask_over_val_1(size_t v)'}@*/
/*@extract {'file':'src/inc/bits.h', 'sig': r'inline size_t _mask_over_val\(size_t v\)', 'emit':'static size_t _mask_over_val_2(size_t v)', 'subs':[[r'_mask_over_val<S/2>', '_mask_over_val_1', 1], [r'\bS\b', '2', 1]]}@*/
/*@extract {'file':'src/inc/bits.h', 'sig': r'inline size_t _mask_over_val\(size_t v\)', 'emit':'static size_t _mask_over_val_4(size_t v)', 'subs':[[r'_mask_over_val<S/2>', '_mask_over_val_2', 1], [r'\bS\b', '4', 1]]}@*/
/*@extract {'file':'src/inc/bits.h', 'sig': r'inline T mask_over_val\(T v\)', 'emit':'uint32 mask_over_val(uint32 v)', 'subs':[[r'_mask_over_val<sizeof\(T\)>', '_mask_over_val_4', 1], [r'\bT\b', 'uint32', 1]]}@*/
/* portable bit_set_count (GRAPHITE2_BUILTINS is not defined by the build), T = uint32 */
/*@extract {'file':'src/inc/bits.h', 'sig': r'inline unsigned int bit_set_count\(T v\)\s*(?=\{\s*static size_t const ONES)', 'emit':'unsigned int bit_set_count(uint32 v)', 'subs':[[r'\bT\b', 'uint32', 5]]}@*/

/*@extract {'file':'src/FeatureMap.cpp', 'ctor': True,
   'sig': r'FeatureRef::FeatureRef\(const Face & face,\s*unsigned short & bits_offset, uint32 max_val,\s*uint32 name, uint16 uiName, flags_t flags,\s*FeatureSetting \*settings, uint16 num_set\) throw\(\)',
   'emit':'void FeatureRef_ctor(FeatureRef *self, const Face *face, unsigned short *bits_offset, uint32 max_val, uint32 name, uint16 uiName, flags_t flags, FeatureSetting *settings, uint16 num_set)',
   'subs':[[r'&face\b', 'face', 1]], 'refs':['bits_offset'],
   'self':['m_face','m_nameValues','m_mask','m_max','m_id','m_nameid','m_numSet','m_flags','m_bits','m_index']}@*/

/*@extract {'file':'src/inc/List.h', 'scope': r'class Vector\s*\{', 'sig': r'size_t\s+size\(\) const', 'emit':'static size_t Vector_size(const Features *self)', 'self':['m_first','m_last','m_end']}@*/
/*@extract {'file':'src/inc/List.h', 'scope': r'class Vector\s*\{', 'sig': r'reference\s+operator \[\] \(size_t n\)', 'emit':'static uint32 * Vector_at(Features *self, size_t n)',
            'subs':[[r'size\(\)', 'Vector_size(self)', 1], [r'return m_first\[n\];', 'return &m_first[n];', 1]], 'self':['m_first','m_last','m_end']}@*/
/*@extract {'file':'src/inc/FeatureMap.h', 'scope': r'class FeatureRef\s*\{', 'sig': r'uint32 maxVal\(\) const', 'emit':'static uint32 FeatureRef_maxVal(const FeatureRef *self)', 'self':['m_max']}@*/

/*@extract {'file':'src/FeatureMap.cpp', 'sig': r'bool FeatureRef::applyValToFeature\(uint32 val, Features & pDest\) const',
   'emit':'bool FeatureRef_applyValToFeature(const FeatureRef *self, uint32 val, Features *pDest)',
   'subs':[[r'maxVal\(\)', 'FeatureRef_maxVal(self)', 1],
           [r'&m_face->theSill\(\)\.theFeatureMap\(\)', 'FACE_FEATUREMAP(m_face)', 2],
           [r'pDest\.size\(\)', 'Vector_size(&pDest)', 1],
           [r'pDest\.resize\(', 'Vector_resize(&pDest, ', 1],
           [r'pDest\[m_index\]', '(*Vector_at(&pDest, m_index))', 2]],
   'refs':['pDest'], 'self':['m_face','m_mask','m_bits','m_index','m_max']}@*/

/*@extract {'file':'src/FeatureMap.cpp', 'sig': r'uint32 FeatureRef::getFeatureVal\(const Features& feats\) const',
   'emit':'uint32 FeatureRef_getFeatureVal(const FeatureRef *self, const Features *feats)',
   'subs':[[r'&m_face->theSill\(\)\.theFeatureMap\(\)', 'FACE_FEATUREMAP(m_face)', 1],
           [r'feats\.size\(\)', 'Vector_size(feats)', 0], [r'feats\.m_pMap', 'feats->m_pMap', 0],
           [r'feats\[m_index\]', '(*Vector_at((Features *)feats, m_index))', 1]],
   'self':['m_face','m_mask','m_bits','m_index']}@*/

/*@include endian.tc@*/
/* `::new (s) FeatureSetting(value, label)`: the placement-new store is a contract stub.  Its precondition is the memory
   safety of the store (s is an element of the caller's array); its effect is logged in ghost state for the ghost index
   g_j.  (CBMC 6.11 runs out of memory on loop contracts that write symbolic values through a havocked pointer; the
   store itself is two field assignments - FeatureSetting(int16,uint16) in FeatureMap.h.) */
const byte *g_p; FeatureSetting *g_s; size_t g_ns; size_t g_j; size_t g_w; uint16 g_prev; bool g_rec; uint16 g_rec_value, g_rec_label;
void FeatureSetting_init(FeatureSetting *s, int16 theValue, uint16 labelId)
__CPROVER_requires(SAME(s, g_s) && OFF(s) >= 0 && OFF(s) % (long)sizeof(FeatureSetting) == 0 && (size_t)OFF(s) < g_ns * sizeof(FeatureSetting))
__CPROVER_assigns(g_rec, g_rec_value, g_rec_label)
__CPROVER_ensures((g_j < g_ns && (size_t)OFF(s) == g_j * sizeof(FeatureSetting)) ? (g_rec && g_rec_value == (uint16)theValue && g_rec_label == labelId)
                                                                   : (g_rec == __CPROVER_old(g_rec) && g_rec_value == __CPROVER_old(g_rec_value) && g_rec_label == __CPROVER_old(g_rec_label)));
#define TV(j) ((uint16)(((uint16)g_p[4 * (j)] << 8) | g_p[4 * (j) + 1]))        /* j-th setting value of the table, as uint16 */
#define TL(j) ((uint16)(((uint16)g_p[4 * (j) + 2] << 8) | g_p[4 * (j) + 3]))    /* j-th label id */
#define GHOST_OBS(sp) do { if (max_val != g_prev) { g_w = (size_t)((sp) - g_s); g_prev = max_val; } } while (0)
uint16 readFeatureSettings(const byte *p, FeatureSetting *s, size_t num_settings)
__CPROVER_requires(p == g_p && s == g_s && num_settings == g_ns && g_ns <= MAXN && g_prev == 0 && !g_rec)
__CPROVER_requires(OFF(p) == 0 && OBJSZ(p) == 4 * g_ns && OFF(s) == 0 && OBJSZ(s) == g_ns * sizeof(FeatureSetting))
__CPROVER_assigns(g_w, g_prev, g_rec, g_rec_value, g_rec_label)
/* upper bound of every value read as uint16 (ghost index g_j ranges over all settings) */
__CPROVER_ensures(g_j >= g_ns || __CPROVER_return_value >= TV(g_j))
/* each stored pair is the table's pair */
__CPROVER_ensures(g_j >= g_ns || (g_rec && g_rec_value == TV(g_j) && g_rec_label == TL(g_j)))
/* attained: 0 or the value of some setting (ghost witness g_w) */
__CPROVER_ensures(__CPROVER_return_value == 0 || (g_w < g_ns && TV(g_w) == __CPROVER_return_value));

/*@extract {'file':'src/FeatureMap.cpp', 'sig': r'uint16 readFeatureSettings\(const byte \* p, FeatureSetting \* s, size_t num_settings\)',
   'emit':'uint16 readFeatureSettings(const byte *p, FeatureSetting *s, size_t num_settings)',
   'subs':[[r'be::read<(\w+)>\(p\)', r'be_read_\1(&p)', 2], [r'::new \(s\) FeatureSetting\(', 'FeatureSetting_init(s, ', 1]],
   'inserts':[[1, 'GHOST_OBS(s);', 'body_end']],
   'loops':{1: """__CPROVER_assigns(s, p, max_val, g_w, g_prev, g_rec, g_rec_value, g_rec_label)
                  __CPROVER_loop_invariant(SAME(s, g_s) && SAME(p, g_p) && SAME(end, g_s) && OFF(end) == (long)(g_ns * sizeof(FeatureSetting)))
                  __CPROVER_loop_invariant(OFF(s) >= 0 && OFF(s) <= OFF(end) && OFF(s) % (long)sizeof(FeatureSetting) == 0 && OFF(p) == OFF(s))
                  __CPROVER_loop_invariant((g_j < g_ns && (size_t)OFF(s) > g_j * sizeof(FeatureSetting)) ? (max_val >= TV(g_j) && g_rec && g_rec_value == TV(g_j) && g_rec_label == TL(g_j)) : !g_rec)
                  __CPROVER_loop_invariant(max_val == g_prev && (max_val == 0 || (g_w < g_ns && g_w * sizeof(FeatureSetting) < (size_t)OFF(s) && TV(g_w) == max_val)))
                  __CPROVER_decreases(OFF(end) - OFF(s))"""}}@*/

/* ---- cloneFeatures: `new Features(x)` is a stub that records which vector was copied */
const Features *g_src; size_t g_kk;
Features *Features_new_copy(const Features *src)
__CPROVER_assigns(g_src)
__CPROVER_ensures(g_src == src && __CPROVER_is_fresh(__CPROVER_return_value, sizeof(Features)));

const SillMap *g_sill;
#define LANG(j) (g_sill->m_langFeats[j].m_lang)
Features *SillMap_cloneFeatures(const SillMap *self, uint32 langname)
__CPROVER_requires(self == g_sill && self->m_numLanguages <= MAXN)
__CPROVER_assigns(g_src, g_kk)
/* (A) if any entry j carries the tag (ghost index g_j over all entries) the clone comes from a matching entry at or before j: the FIRST match */
__CPROVER_ensures((langname != 0 && g_j < self->m_numLanguages && LANG(g_j) == langname) ==>
                  (g_kk <= g_j && LANG(g_kk) == langname && g_src == self->m_langFeats[g_kk].m_pFeatures))
/* (B) anything other than the defaults is cloned only from an entry carrying the tag */
__CPROVER_ensures(g_src != &self->m_FeatureMap.m_defaultFeatures ==>
                  (langname != 0 && g_kk < self->m_numLanguages && LANG(g_kk) == langname && g_src == self->m_langFeats[g_kk].m_pFeatures))
/* (C) lang 0 means the defaults */
__CPROVER_ensures(langname == 0 ==> g_src == &self->m_FeatureMap.m_defaultFeatures);

/*@extract {'file':'src/FeatureMap.cpp', 'sig': r'Features\* SillMap::cloneFeatures\(uint32 langname(?:/\*[^*]*\*/)?\) const',
   'emit':'Features *SillMap_cloneFeatures(const SillMap *self, uint32 langname)',
   'subs':[[r'new Features\(\*m_langFeats\[i\]\.m_pFeatures\)', 'Features_new_copy(m_langFeats[i].m_pFeatures)', 1],
           [r'new Features \(m_FeatureMap\.m_defaultFeatures\)', 'Features_new_copy(&m_FeatureMap.m_defaultFeatures)', 1]],
   'inserts':[[1, 'g_kk = i;']],
   'self':['m_langFeats','m_numLanguages','m_FeatureMap'],
   'loops':{1: """__CPROVER_assigns(i, g_kk)
                  __CPROVER_loop_invariant(i <= self->m_numLanguages && (g_j >= i || LANG(g_j) != langname))
                  __CPROVER_decreases(self->m_numLanguages - i)"""}}@*/

/* ---- FeatureVal::operator== */
const Features *g_a, *g_b; size_t g_n_left;
typedef const uint32 * const_iterator;     /* Vector<uint32>::const_iterator */
bool FeatureVal_equal(const Features *self, const Features *b)
__CPROVER_requires(self == g_a && b == g_b)
__CPROVER_requires(SAME(self->m_first, self->m_last) && SAME(b->m_first, b->m_last) && VSIZE(self) <= MAXN && VSIZE(b) <= MAXN)
__CPROVER_assigns(g_n_left)
/* true: same size and (ghost index g_k over all words) equal words */
__CPROVER_ensures(__CPROVER_return_value ==> (VSIZE(self) == VSIZE(b) && (g_k >= VSIZE(self) || self->m_first[g_k] == b->m_first[g_k])))
/* false: different size or a differing word (witness: where the scan stopped) */
__CPROVER_ensures(!__CPROVER_return_value ==> (VSIZE(self) != VSIZE(b)
        || (g_n_left >= 1 && g_n_left <= VSIZE(self) && self->m_first[VSIZE(self) - g_n_left] != b->m_first[VSIZE(self) - g_n_left])));

/*@extract {'file':'src/inc/FeatureVal.h', 'sig': r'bool operator ==\(const FeatureVal & b\) const', 'emit':'bool FeatureVal_equal(const Features *self, const Features *b)',
   'subs':[[r'b\.size\(\)', 'Vector_size(b)', 1], [r'b\.begin\(\)', 'b->m_first', 1], [r'\bsize\(\)', 'Vector_size(self)', 1], [r'\bbegin\(\)', 'self->m_first', 1]],
   'inserts':[[r'return n == 0;', 'g_n_left = n;', 'before']],
   'loops':{1: """__CPROVER_assigns(n, l, r)
                  __CPROVER_loop_invariant(n <= VSIZE(self) && SAME(l, self->m_first) && SAME(r, b->m_first)
                        && OFF(l) == (long)((VSIZE(self) - n) * sizeof(uint32)) && OFF(r) == OFF(l))
                  __CPROVER_loop_invariant(g_k >= VSIZE(self) - n || self->m_first[g_k] == b->m_first[g_k])
                  __CPROVER_decreases(n)"""}}@*/

/* ---- the guard at the top of the per-feature loop of FeatureMap::readFeats, as a predicate of the running offset */
bool readFeats_guard(unsigned short bits, uint16 *defVals)
__CPROVER_ensures(__CPROVER_return_value ==> bits <= OFFSET_LIMIT)
__CPROVER_frees(defVals);
/*@extract {'file':'src/FeatureMap.cpp', 'kind':'range', 'scope': r'bool FeatureMap::readFeats\(const Face & face\)', 'start': r'if \(bits > ', 'end':'@block',
            'pre':'bool readFeats_guard(unsigned short bits, uint16 *defVals)\n{\n', 'post':'\n    return true;\n}\n'}@*/

/* ------------------------------------------------------------------ harnesses */
uint32 nondet_u32(void); size_t nondet_size_t(void); unsigned short nondet_ushort(void); bool nondet_bool(void); uint16 nondet_u16(void);

void h_bits(void)
{
    uint32 v = nondet_u32();
    uint32 m = mask_over_val(v);
    unsigned c = bit_set_count(nondet_u32());
    (void)m; (void)c;
    CANARY();
}

void h_guard(void)
{
    uint16 *dv = malloc(8);
    bool r = readFeats_guard(nondet_ushort(), dv);
    (void)r;
    CANARY();
}

void h_ctor(void)
{
    unsigned short w_off = nondet_ushort();
    uint32 w_max = nondet_u32();
    __CPROVER_assume(w_off <= OFFSET_LIMIT);
    FeatureRef *f = malloc(sizeof(FeatureRef)); __CPROVER_assume(f != NULL);
    unsigned short *off = malloc(sizeof(unsigned short)); __CPROVER_assume(off != NULL);
    *off = w_off;
    FeatureRef_ctor(f, malloc(1), off, w_max, nondet_u32(), nondet_u16(), nondet_u16(), NULL, nondet_u16());
    CANARY();
}

static Features *mk_vector(size_t size, const FeatureMap *map)
{
    Features *v = malloc(sizeof(Features)); __CPROVER_assume(v != NULL);
    size_t cap = nondet_size_t(); __CPROVER_assume(size <= cap && cap <= 256);
    v->m_first = malloc(cap * sizeof(uint32)); __CPROVER_assume(v->m_first != NULL);
    v->m_last = v->m_first + size; v->m_end = v->m_first + cap; v->m_pMap = map;
    return v;
}

void h_apply(void)
{
    uint32 w_val = nondet_u32(), w_max = nondet_u32(), w_word = nondet_u32();
    byte w_bits = (byte)nondet_u32(), w_index = (byte)nondet_u32();
    size_t w_size = nondet_size_t(); bool w_samemap = nondet_bool(), w_nullmap = nondet_bool(), w_noface = nondet_bool();
    __CPROVER_assume(w_size <= 256);
    Face *face = w_noface ? NULL : malloc(sizeof(Face)); __CPROVER_assume(w_noface || face != NULL);
    FeatureRef *f = malloc(sizeof(FeatureRef)); __CPROVER_assume(f != NULL);
    f->m_face = face; f->m_max = w_max; f->m_bits = w_bits; f->m_index = w_index; f->m_mask = nondet_u32();
    __CPROVER_assume(FREF_WF(f));
    FeatureMap *other = malloc(sizeof(FeatureMap));
    const FeatureMap *map = w_nullmap ? NULL : (w_samemap && face ? FACE_FEATUREMAP(face) : other);
    Features *d = mk_vector(w_size, map);
    if (w_index < w_size) d->m_first[w_index] = w_word;
    g_old_first = d->m_first; g_old_size = w_size; g_old_map = map;
    g_k = nondet_size_t(); g_new = w_index;      /* the assumed resize contract is instantiated at the word this feature lives in */
    g_old_word_k = g_k < w_size ? d->m_first[g_k] : 0;
    g_old_word_idx = w_index < w_size ? d->m_first[w_index] : 0;
    bool r = FeatureRef_applyValToFeature(f, w_val, d);
    (void)r;
    CANARY();
}

void h_get(void)
{
    FeatureRef *f = malloc(sizeof(FeatureRef)); __CPROVER_assume(f != NULL);
    /* the vector may belong to this face's map (the branch that reads a word), to another map, or to none; any length, exact-size storage */
    bool w_samemap = nondet_bool(), w_nullmap = nondet_bool(), w_noface = nondet_bool();
    Face *face = w_noface ? NULL : malloc(sizeof(Face)); __CPROVER_assume(w_noface || face != NULL);
    f->m_face = face;
    FeatureMap *other = malloc(sizeof(FeatureMap));
    const FeatureMap *map = w_nullmap ? NULL : (w_samemap && face ? FACE_FEATUREMAP(face) : other);
    size_t w_size = nondet_size_t() % 257;
    Features *v = mk_vector(w_size, map);
    uint32 r = FeatureRef_getFeatureVal(f, v);
    if (face && map == FACE_FEATUREMAP(face) && f->m_index < w_size) CANARY();       /* vacuity guard on the path that reads the word */
}

void h_isolation(void)
{
    /* two features allocated by the real allocator, f before g, anything may have been allocated in between */
    Face *face = malloc(sizeof(Face)); __CPROVER_assume(face != NULL);
    unsigned short *off = malloc(sizeof(unsigned short)); __CPROVER_assume(off != NULL);
    FeatureRef *f = malloc(sizeof(FeatureRef)), *g = malloc(sizeof(FeatureRef)); __CPROVER_assume(f != NULL && g != NULL);
    *off = nondet_ushort(); __CPROVER_assume(*off <= OFFSET_LIMIT);
    FeatureRef_ctor(f, face, off, nondet_u32(), 1, 0, 0, NULL, 0);
    unsigned short between = nondet_ushort();                 /* other features allocated in between only move the offset up */
    __CPROVER_assume(between >= *off && between <= OFFSET_LIMIT);
    *off = between;
    FeatureRef_ctor(g, face, off, nondet_u32(), 2, 0, 0, NULL, 0);
    /* fields never overlap */
    __CPROVER_assert(f->m_index != g->m_index || (f->m_mask & g->m_mask) == 0, "two features never share a bit");
    /* a feature vector of this face */
    size_t size = nondet_size_t(); __CPROVER_assume(size <= 256);
    /* vectors obtained from the face (clones of the defaults, Features(bits/32+1)) cover every feature's word; the growing
       path for shorter vectors is covered word by word in unit c18_apply */
    __CPROVER_assume(size > f->m_index && size > g->m_index);
    Features *fv = mk_vector(size, nondet_bool() ? NULL : FACE_FEATUREMAP(face));
    uint32 before_g = FeatureRef_getFeatureVal(g, fv);
    uint32 before_f = FeatureRef_getFeatureVal(f, fv);
    uint32 v = nondet_u32();
    g_old_first = fv->m_first; g_old_size = size; g_old_map = fv->m_pMap;
    g_k = g->m_index;                                          /* the ghost word we watch is g's word */
    g_old_word_k = g_k < size ? fv->m_first[g_k] : 0;
    g_old_word_idx = f->m_index < size ? fv->m_first[f->m_index] : 0;
    bool ok = FeatureRef_applyValToFeature(f, v, fv);
    __CPROVER_assert(ok == (v <= f->m_max), "set succeeds exactly when v <= the feature's maximum");
    if (ok) {
        __CPROVER_assert(FeatureRef_getFeatureVal(f, fv) == v, "after a successful set the feature reads back v");
        __CPROVER_assert(FeatureRef_getFeatureVal(g, fv) == before_g || (fv->m_pMap != g_old_map && g_old_map == NULL), "every other feature keeps its value");
    } else {
        __CPROVER_assert(FeatureRef_getFeatureVal(f, fv) == before_f && FeatureRef_getFeatureVal(g, fv) == before_g, "after a failed set nothing changes");
    }
    CANARY();
}

#ifdef WITNESS
#define SN 4
#else
#define SN MAXN
#endif
void h_settings(void)
{
    size_t w_n = nondet_size_t(); __CPROVER_assume(w_n <= SN);
    byte *tbl = malloc(4 * w_n); __CPROVER_assume(tbl != NULL);
#ifdef WITNESS
    uint16 w_v[SN];
    for (int i = 0; i < SN; ++i) if ((size_t)i < w_n) { tbl[4 * i] = w_v[i] >> 8; tbl[4 * i + 1] = w_v[i] & 0xFF; }
#endif
    FeatureSetting *s = malloc(w_n * sizeof(FeatureSetting)); __CPROVER_assume(s != NULL);
    g_p = tbl; g_s = s; g_ns = w_n; g_j = nondet_size_t(); g_prev = 0; g_w = nondet_size_t(); g_rec = false;
    uint16 r = readFeatureSettings(tbl, s, w_n);
    (void)r;
    CANARY();
}

void h_clone(void)
{
    SillMap *sm = malloc(sizeof(SillMap)); __CPROVER_assume(sm != NULL);
    __CPROVER_assume(sm->m_numLanguages <= MAXN);
    sm->m_langFeats = malloc(sm->m_numLanguages * sizeof(LangFeaturePair)); __CPROVER_assume(sm->m_langFeats != NULL);
    g_sill = sm; g_j = nondet_size_t();
    Features *r = SillMap_cloneFeatures(sm, nondet_u32());
    (void)r;
    CANARY();
}

void h_equal(void)
{
    Features *a = malloc(sizeof(Features)), *b = malloc(sizeof(Features)); __CPROVER_assume(a && b);
    size_t na = nondet_size_t(), nb = nondet_size_t(); __CPROVER_assume(na <= MAXN && nb <= MAXN);
    a->m_first = malloc(MAXN * sizeof(uint32)); b->m_first = malloc(MAXN * sizeof(uint32)); __CPROVER_assume(a->m_first && b->m_first);
    a->m_last = a->m_first + na; b->m_last = b->m_first + nb;
    g_a = a; g_b = b; g_k = nondet_size_t();
    bool r = FeatureVal_equal(a, b);
    (void)r;
    CANARY();
}
