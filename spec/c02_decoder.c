/* C02 (VM stack discipline, loader side; also C01 "argument exhaustion" of validate_opcode).
 * Lemma: the bytecode loader's stack-depth analysis is sound w.r.t. the opcode bodies it schedules.
 *   fetch_opcode accepts opcode k at analysed depth d  ==>  d >= required(k)  and  the new analysed depth is d + net(k)
 * where required/net are the SYNTACTIC stack effect of the body that opcode_table.h maps k to, re-computed from
 * src/inc/opcodes.h on every run (directive kind=opeffects; for the 34 C07 opcodes these numbers are the ones the
 * per-opcode contracts prove - unit c02_effects_vs_contracts).  Hence no accepted straight-line program pops below the
 * stack base, provided conditional pushes (inside `if (slot)`) fire, i.e. slotat() is non-NULL for accepted references
 * (assumed; established by Code::run's window pre-check - unit c02_run_window).
 * Functions under contract: Machine::Code::decoder::fetch_opcode, ::validate_opcode (src/Code.cpp), extracted every run.
 */
#include "types.h"

/*@unit {'name':'c02_fetch_opcode', 'props':['C02','C01','C03'], 'entry':'h_fetch', 'enforce':'decoder_fetch_opcode', 'object_bits':11, 'replay':'c02_decoder', 'witness_defines':[], 'witness_vars':['w_k'],
         'replace':['decoder_valid_upto','decoder_test_ref','decoder_test_context','decoder_test_attr','decoder_failure'], 'cost':60,
         'claims':'loader soundness lemma: an accepted opcode has analysed depth >= the pops of its body and the analysed depth follows the net effect of the body (all 67 on-disk opcodes, symbolic opcode byte and parameters, exact-size bytecode buffer: parameter reads stay inside the bytecode)'}@*/
/*@unit {'name':'c02_effects_vs_contracts', 'props':['C02','C07'], 'entry':'h_effects',
         'claims':'the syntactic effect table agrees with the (pops,pushes) of the proved C07 opcode contracts for all 34 covered opcodes'}@*/

/* ---- types from Machine.h (extracted) */
typedef struct Slot Slot;
typedef void * instr;
/*@extract {'file':'src/inc/Machine.h', 'kind':'range', 'start': r'enum \{VARARGS', 'end': r';', 'end_inclusive': True}@*/
/*@extract {'file':'src/inc/Machine.h', 'kind':'range', 'start': r'enum opcode \{', 'end': r'\};', 'end_inclusive': True, 'pre':'typedef ', 'subs':[[r'\};', '} opcode;', 1]]}@*/
/*@extract {'file':'src/inc/Machine.h', 'kind':'range', 'start': r'struct opcode_t\s*\{', 'end': r'\};', 'end_inclusive': True, 'pre':'typedef ', 'subs':[[r'\};', '} opcode_t;', 1]]}@*/
/*@extract {'file':'src/inc/Code.h', 'kind':'range', 'start': r'enum passtype \{', 'end': r'\};', 'end_inclusive': True}@*/
/*@extract {'file':'src/inc/Code.h', 'kind':'range', 'scope': r'class Machine::Code\s*\{', 'start': r'enum status_t\s*\{', 'end': r'\};', 'end_inclusive': True, 'pre':'typedef ', 'subs':[[r'\};', '} code_status_t;', 1]]}@*/
/* slot attribute codes (include/graphite2/Segment.h) */
/*@extract {'file':'include/graphite2/Segment.h', 'kind':'range', 'start': r'enum gr_attrCode \{', 'end': r'\};', 'end_inclusive': True}@*/
/*@extract {'file':'src/inc/GlyphFace.h', 'kind':'range', 'start': r'enum metrics \{', 'end': r'\};', 'end_inclusive': True}@*/
typedef enum gr_attrCode attrCode;
#define attrCode(x) ((attrCode)(x))
#define opcode(x) ((opcode)(x))
#define status_t code_status_t

/* the real table: implemented entries are non-null */
#define do_(name) ((void *)1)
#include "inc/opcode_table.h"
#ifdef UNIT_c02_effects_vs_contracts
#define OP_EFFECT_NAMES
#endif
/* syntactic stack effects of the bodies, recomputed from opcodes.h / opcode_table.h on this run */
/*@extract {'kind':'opeffects', 'file':'src/inc/opcodes.h', 'table':'src/inc/opcode_table.h'}@*/

/* ---- decoder state (fields of class Machine::Code::decoder and struct limits, Code.cpp) */
typedef struct Code { bool _constraint; } Code;
typedef struct limits {
/*@extract {'kind':'members', 'file':'src/Code.cpp', 'scope': r'struct Machine::Code::decoder::limits\s*\{', 'names':['bytecode','pre_context','rule_length','classes','glyf_attrs','features','attrid'],
   'subs':[[r'^const uint8 ', 'uint8 ', 0], [r'^const uint16 ', 'uint16 ', 0], [r'^const byte attrid', 'byte attrid', 0]]}@*/
} limits;
typedef struct context { struct { uint8 changed:1, referenced:1; } flags; uint8 codeRef; } context;
enum { NUMCONTEXTS = 256 };
typedef struct decoder {
/*@extract {'kind':'members', 'file':'src/Code.cpp', 'scope': r'class Machine::Code::decoder\s*\{', 'names':['_code','_out_index','_out_length','_instr','_data','_max','_passtype','_stack_depth','_in_ctxt_item','_slotref','_max_ref'],
   'subs':[[r'Code & _code', 'Code * _code_', 0], [r'limits & _max', 'limits * _max_', 0]]}@*/
} decoder;

/* ---- ghost */
bool g_failed;              /* some failure(...) was recorded: Code::operator bool() is then false */
const byte *g_bc;           /* the instruction being fetched: opcode byte at g_bc[0] */
int g_depth0;

/* ---- collaborators: contract stubs (they only record failure or inspect limits) */
void decoder_failure(const decoder *self, code_status_t s)
__CPROVER_assigns(g_failed) __CPROVER_ensures(g_failed);
bool decoder_valid_upto(const decoder *self, uint16 limit, uint16 x)
__CPROVER_assigns(g_failed) __CPROVER_ensures(__CPROVER_return_value == ((limit != 0) && (x < limit)) && (g_failed == (__CPROVER_old(g_failed) || !__CPROVER_return_value)));
bool decoder_test_ref(const decoder *self, int8 index)
__CPROVER_assigns(g_failed) __CPROVER_ensures(g_failed == (__CPROVER_old(g_failed) || !__CPROVER_return_value));
bool decoder_test_context(const decoder *self)
__CPROVER_assigns(g_failed) __CPROVER_ensures(g_failed == (__CPROVER_old(g_failed) || !__CPROVER_return_value));
bool decoder_test_attr(const decoder *self, attrCode attr)
__CPROVER_assigns(g_failed) __CPROVER_ensures(g_failed == (__CPROVER_old(g_failed) || !__CPROVER_return_value));
#define CODE_OK(c) (!g_failed)          /* bool(_code): Code::operator bool = loaded && buffers present */

/* CNTXT_ITEM is a conditional forward jump: its push(true) stands for the result the skipped code would have left, so
   the analysed depth does not change at the CNTXT_ITEM itself (the skipped instructions account for it). */
#define NET(k) ((k) == CNTXT_ITEM ? 0 : OP_EFFECT[k].net)

#define ACC(r) ((r) != MAX_OPCODE)
#define OPC    (g_bc[0])
#define P16(i) ((uint16)((uint16)(g_bc[i] << 8) | g_bc[(i) + 1]))
opcode decoder_fetch_opcode(decoder *self, const byte *bc)
__CPROVER_requires(bc == g_bc && self->_stack_depth == g_depth0 && !g_failed)
__CPROVER_requires(g_depth0 >= 0 && g_depth0 < 100000)
__CPROVER_assigns(self->_stack_depth, self->_out_index, self->_out_length, g_failed)
/* accepted ==> valid on-disk opcode with an implementation for this code kind */
__CPROVER_ensures(__CPROVER_return_value != MAX_OPCODE ==> (__CPROVER_return_value == g_bc[0] && g_bc[0] < MAX_OPCODE
        && (self->_code_->_constraint ? OP_EFFECT[g_bc[0]].impl_constraint : OP_EFFECT[g_bc[0]].impl_action) != 0))
/* accepted ==> enough operands on the analysed stack for the body, and the analysis follows the body's net effect */
__CPROVER_ensures(__CPROVER_return_value != MAX_OPCODE ==> (g_depth0 >= OP_EFFECT[g_bc[0]].required
        && self->_stack_depth == g_depth0 + NET(g_bc[0])))
/* accepted ==> every table index the body will use lies below the limit of the table it indexes (the run-time side takes these
   as preconditions: Silf::findClassIndex / getClassGlyph need cid < numClasses (c02_find_class_index, c02_get_class_glyph), the
   user-attribute cell of Slot::setAttr / getAttr needs subindex < numUser (c02_slot_userattr), glyph attributes and features likewise) */
__CPROVER_ensures((ACC(__CPROVER_return_value) && (OPC == IATTR_SET || OPC == IATTR_ADD || OPC == IATTR_SUB || OPC == IATTR_SET_SLOT))
        ==> (g_bc[1] < gr_slatMax && g_bc[2] < self->_max_->attrid[g_bc[1]]))
__CPROVER_ensures((ACC(__CPROVER_return_value) && OPC == PUSH_ISLOT_ATTR) ==> (g_bc[1] < gr_slatMax && g_bc[3] < self->_max_->attrid[g_bc[1]]))
__CPROVER_ensures((ACC(__CPROVER_return_value) && (OPC == ATTR_SET || OPC == ATTR_ADD || OPC == ATTR_SUB || OPC == ATTR_SET_SLOT || OPC == PUSH_SLOT_ATTR))
        ==> (g_bc[1] < gr_slatMax && g_bc[1] != gr_slatUserDefn))
__CPROVER_ensures((ACC(__CPROVER_return_value) && OPC == PUT_GLYPH_8BIT_OBS) ==> g_bc[1] < self->_max_->classes)
__CPROVER_ensures((ACC(__CPROVER_return_value) && OPC == PUT_SUBS_8BIT_OBS) ==> (g_bc[2] < self->_max_->classes && g_bc[3] < self->_max_->classes))
__CPROVER_ensures((ACC(__CPROVER_return_value) && OPC == PUT_SUBS) ==> (P16(2) < self->_max_->classes && P16(4) < self->_max_->classes))
__CPROVER_ensures((ACC(__CPROVER_return_value) && OPC == PUT_GLYPH) ==> P16(1) < self->_max_->classes)
__CPROVER_ensures((ACC(__CPROVER_return_value) && (OPC == PUSH_GLYPH_ATTR_OBS || OPC == PUSH_ATT_TO_GATTR_OBS)) ==> g_bc[1] < self->_max_->glyf_attrs)
__CPROVER_ensures((ACC(__CPROVER_return_value) && (OPC == PUSH_GLYPH_ATTR || OPC == PUSH_ATT_TO_GLYPH_ATTR)) ==> P16(1) < self->_max_->glyf_attrs)
__CPROVER_ensures((ACC(__CPROVER_return_value) && (OPC == PUSH_FEAT || OPC == SET_FEAT)) ==> g_bc[1] < self->_max_->features)
__CPROVER_ensures((ACC(__CPROVER_return_value) && (OPC == PUSH_GLYPH_METRIC || OPC == PUSH_ATT_TO_GLYPH_METRIC)) ==> g_bc[1] < kgmetDescent)
__CPROVER_ensures((ACC(__CPROVER_return_value) && OPC == ASSOC) ==> g_bc[1] != 0)
/* the stream changes length only before slot indices are assigned: INSERT / DELETE are accepted in substitution-type passes only (C03: indices are a permutation of 0..n-1; positioning passes run after Segment::associateChars) */
__CPROVER_ensures((ACC(__CPROVER_return_value) && (OPC == INSERT || OPC == DELETE)) ==> self->_passtype < PASS_TYPE_POSITIONING);

/* ---- extracted code */
bool decoder_validate_opcode(decoder *self, const byte opc, const byte *const bc);
/*@extract {'file':'src/Code.cpp', 'sig': r'bool Machine::Code::decoder::validate_opcode\(const byte opc, const byte \* const bc\)',
   'emit':'bool decoder_validate_opcode(decoder *self, const byte opc, const byte *const bc)',
   'subs':[[r'failure\(', 'decoder_failure(self, ', 4], [r'const opcode_t & op = Machine::getOpcodeTable\(\)\[opc\];', 'const opcode_t * op_ = &opcode_table[opc];', 1],
           [r'\bop\.', 'op_->', 4], [r'_code\._constraint', 'self->_code_->_constraint', 1], [r'_max\.', 'self->_max_->', 2]]}@*/

/*@extract {'file':'src/Code.cpp', 'sig': r'opcode Machine::Code::decoder::fetch_opcode\(const byte \* bc\)',
   'emit':'opcode decoder_fetch_opcode(decoder *self, const byte *bc)',
   'subs':[[r'validate_opcode\(', 'decoder_validate_opcode(self, ', 1], [r'failure\(', 'decoder_failure(self, ', 10],
           [r'valid_upto\(', 'decoder_valid_upto(self, ', 10], [r'test_ref\(', 'decoder_test_ref(self, ', 5],
           [r'test_context\(\)', 'decoder_test_context(self)', 5], [r'test_attr\(', 'decoder_test_attr(self, ', 3],
           [r'bool\(_code\)', 'CODE_OK(self->_code_)', 1], [r'_max\.', 'self->_max_->', 5]],
   'self':['_stack_depth','_out_index','_out_length','_passtype','_in_ctxt_item','_slotref'],
   'loops':{1: """__CPROVER_assigns(num, g_failed)
                  __CPROVER_loop_invariant(num <= bc[0])
                  __CPROVER_decreases(num)"""} }@*/

/* ---- harness */
#ifndef UNIT_c02_effects_vs_contracts
int nondet_int(void); bool nondet_bool(void); unsigned char nondet_uchar(void); size_t nondet_size_t(void);
void h_fetch(void)
{
    Code *code = malloc(sizeof(Code)); limits *lim = malloc(sizeof(limits)); decoder *d = malloc(sizeof(decoder));
    __CPROVER_assume(code && lim && d);
    d->_code_ = code; d->_max_ = lim;
    code->_constraint = nondet_bool(); d->_in_ctxt_item = nondet_bool();
    __CPROVER_assume(d->_out_index >= -2 && d->_out_index <= 65536);       /* maintained by the range tests of NEXT/INSERT/DELETE (|index| <= rule length + 1) */
    /* bytecode buffer: [opcode][params...] up to its exact end; the instruction sits anywhere before the end */
    size_t total = nondet_size_t(), at = nondet_size_t();
    __CPROVER_assume(total >= 1 && total <= 300 && at < total);
    byte *buf = malloc(total); __CPROVER_assume(buf != NULL);
    lim->bytecode = buf + total;                       /* _max.bytecode = bytecode_end */
    g_bc = buf + at; g_failed = false;
    g_depth0 = nondet_int(); d->_stack_depth = g_depth0;
    opcode r = decoder_fetch_opcode(d, buf + at);
    (void)r;
    CANARY();
}
#endif

#ifdef UNIT_c02_effects_vs_contracts
/* (pops, pushes) of the C07 contracts, from tools/gen_c07_spec.py's table */
#include "c07_effects.h"
static int streq_(const char *a, const char *b) { int i = 0; for (; i < 32; ++i) { if (a[i] != b[i]) return 0; if (!a[i]) return 1; } return 1; }
void h_effects(void)
{
    for (unsigned i = 0; i < sizeof C07_EFFECT / sizeof *C07_EFFECT; ++i) {
        const int k = C07_EFFECT[i].op;
        __CPROVER_assert(OP_EFFECT[k].impl_action != 0 && streq_(OP_IMPL_NAME[k], C07_EFFECT[i].impl), "table row names the body the contract was proved for");
        __CPROVER_assert(OP_EFFECT[k].required == C07_EFFECT[i].pops && OP_EFFECT[k].net == C07_EFFECT[i].pushes - C07_EFFECT[i].pops, "syntactic effect == proved contract effect");
    }
    CANARY();
}
#endif
