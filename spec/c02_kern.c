/* C02 - KernCollider::mergeSlot (src/Collider.cpp): the slice index clamps.  The loop `for (i = smin; i <= smax; ++i)`
 * indexes _edges[i] (and _nearEdges/_slotNear): the two clamps must confine [smin, smax] to [0, _edges.size()-1] for
 * every geometry.  The range computation is extracted as a statement range; the two float quotients int((y + ...) / _sliceWidth + 1)
 * are abstracted (declared rewrite) to arbitrary ints QA, QB - CBMC times out on the bit-precise float division - so the unit
 * proves the clamp arithmetic for every pair of quotient values and every vector size.  Loop-free, complete over the ints.
 */
#include "types.h"
/*@unit {'name':'c02_kern_slices', 'props':['C02'], 'entry':'h_kern', 'enforce':'kern_slice_range', 
  'claims':'KernCollider::mergeSlot: whenever the slice loop runs, 0 <= smin <= smax <= _edges.size()-1, so _edges[i] is always inside the vector (any finite bounding box, origin, slice width and any vector size)',
  'assumptions':['the float -> int slice quotients are abstracted to arbitrary ints (declared rewrite); a float -> int conversion outside the int range (undefined in C++) is not covered']}@*/
static int max(int a, int b) { return a > b ? a : b; }      /* graphite2::max<int> / min<int> (src/inc/Main.h; their bodies are units of c20_tags.c for size_t) */
static int min(int a, int b) { return a < b ? a : b; }
typedef struct Rect { struct { float x, y; } bl, tr; } Rect;
int g_nedges; int QA, QB;      /* the two float->int slice quotients: any int (CBMC cannot discharge the float division itself) */
bool kern_slice_range(const Rect *bb_, float _miny, float sy, float _sliceWidth, int nedges, int *smin_, int *smax_)
__CPROVER_requires(nedges == g_nedges && nedges >= 0 && nedges <= 100000)
__CPROVER_requires(QA > -2147483647 && QB < 2147483647)
__CPROVER_assigns(*smin_, *smax_)
__CPROVER_ensures(__CPROVER_return_value ==> (0 <= *smin_ && *smin_ <= *smax_ && *smax_ <= g_nedges - 1));
/*@extract {'file':'src/Collider.cpp', 'kind':'range', 'scope': r'bool KernCollider::mergeSlot\(Segment \*seg, Slot \*slot, const Position &currShift, float currSpace, int dir',
   'start': r'int smin = max\(1,', 'end': r'bool collides = false;',
   'pre':'bool kern_slice_range(const Rect *bb_, float _miny, float sy, float _sliceWidth, int nedges, int *smin_, int *smax_)\n{\n#define bb (*bb_)\n', 'post':'\n    *smin_ = smin; *smax_ = smax;\n    return true;\n#undef bb\n}\n',
   'subs':[[r'int\(\(bb\.bl\.y \+ \(1 - _miny \+ sy\)\) / _sliceWidth \+ 1\)', 'QA /* float quotient abstracted to an arbitrary int */', 0],
           [r'int\(\(bb\.tr\.y \+ \(1 - _miny \+ sy\)\) / _sliceWidth \+ 1\)', 'QB /* float quotient abstracted to an arbitrary int */', 0],
           [r'\(int\)_edges\.size\(\)', 'nedges', 0], [r'int\(_edges\.size\(\)\)', 'nedges', 0], [r'_edges\.size\(\)', 'nedges', 0]]}@*/
float nondet_float(void); int nondet_int(void);
void h_kern(void)
{
    Rect bb; bb.bl.x = nondet_float(); bb.bl.y = nondet_float(); bb.tr.x = nondet_float(); bb.tr.y = nondet_float();
    int n = nondet_int(); __CPROVER_assume(n >= 0 && n <= 100000);
    g_nedges = n;
    int a, b;
    bool r = kern_slice_range(&bb, nondet_float(), nondet_float(), nondet_float(), n, &a, &b);
    (void)r;
    CANARY();
}
