/* C16 - "after all ... faces are destroyed the library holds no allocation": the cmap cache.
 *   CachedCmap::~CachedCmap  (src/CmapCache.cpp)
 * The cache is a table of one block pointer per 256 code points.  The number of entries is fixed by the code space, not by the
 * code: 0x110000 / 256 = 0x1100 blocks when supplementary planes are cached, 0x10000 / 256 = 0x100 for a BMP-only cache (the
 * constructor unit c13_cached_ctor proves that exactly these many pointers are allocated and that cache_subtable may store a
 * block at every index below that).  The destructor must therefore hand EVERY entry below that count to free(), each exactly
 * once, and then the table itself.
 * Ledger idiom: the two free() calls are redirected (declared rewrites) to contract stubs that count
 *   - how often entry g_k (a ghost index, arbitrary below the table size) is freed,
 *   - how often the table is freed,
 * so the loop body stores nothing through a pointer and the loop closes with a loop contract (unbounded in the entry count).
 */
#include "types.h"
/*@unit {'name':'c16_cachedcmap_dtor', 'props':['C16','C01'], 'entry':'h_dtor', 'enforce':'CachedCmap_dtor', 'replace':['free_entry','free_table'], 'min_loops':1,
  'claims':'CachedCmap::~CachedCmap: for a BMP-only cache (0x100 entries) and a full cache (0x1100 entries: one per 256 code points up to U+10FFFF) every entry of the block table is passed to free() exactly once (ghost index: any entry), then the table itself exactly once, nothing else is freed, no entry outside the table is read; an empty cache (allocation of the table failed) frees nothing; terminates'}@*/

typedef struct CachedCmap { bool m_isBmpOnly; uint16 **m_blocks; } CachedCmap;

size_t g_k;                 /* ghost index of one table entry */
unsigned g_cnt_entry;       /* how often entry g_k was handed to free() */
unsigned g_cnt_table;       /* how often the table was handed to free() */
unsigned g_cnt_other;       /* free() of an index outside the table */
uint16 **g_tab; size_t g_n;

/* free(m_blocks[i]) - by index (the block pointers themselves are arbitrary bit patterns here: they are only passed on) */
void free_entry(uint16 **blocks, unsigned int i)
__CPROVER_requires(blocks == g_tab && blocks != NULL)
__CPROVER_requires(i < g_n)                                                   /* the entry read lies inside the table */
__CPROVER_assigns(g_cnt_entry)
__CPROVER_ensures(g_cnt_entry == __CPROVER_old(g_cnt_entry) + (i == g_k ? 1u : 0u));
void free_table(void *p)
__CPROVER_requires(p == g_tab && p != NULL)                                   /* only the table is freed this way */
__CPROVER_assigns(g_cnt_table)
__CPROVER_ensures(g_cnt_table == __CPROVER_old(g_cnt_table) + 1u);

#define BLOCKS_OF(bmp_only) ((bmp_only) ? (size_t)(0x10000 / 256) : (size_t)(0x110000 / 256))      /* from the code space */

void CachedCmap_dtor(CachedCmap *self)
__CPROVER_requires(__CPROVER_is_fresh(self, sizeof(CachedCmap)))
__CPROVER_requires(self->m_blocks == g_tab && (g_tab == NULL || g_n == BLOCKS_OF(self->m_isBmpOnly)))
__CPROVER_requires(g_cnt_entry == 0 && g_cnt_table == 0 && g_k < BLOCKS_OF(self->m_isBmpOnly))
__CPROVER_assigns(g_cnt_entry, g_cnt_table)
__CPROVER_ensures(g_tab != NULL ==> g_cnt_entry == 1)           /* every entry exactly once */
__CPROVER_ensures(g_tab != NULL ==> g_cnt_table == 1)           /* the table exactly once */
__CPROVER_ensures(g_tab == NULL ==> (g_cnt_entry == 0 && g_cnt_table == 0));

/*@extract {'file':'src/CmapCache.cpp', 'sig': r'CachedCmap::~CachedCmap\(\) throw\(\)', 'emit':'void CachedCmap_dtor(CachedCmap *self)',
   'self':['m_isBmpOnly','m_blocks'],
   'subs':[[r'free\(m_blocks\[(\w+)\]\)', r'free_entry(m_blocks, \1)', 0], [r'free\(m_blocks\)', 'free_table(m_blocks)', 0]],
   'brace_loops':[1],
   'loops':{1:'__CPROVER_assigns(i, g_cnt_entry) __CPROVER_loop_invariant(i <= numBlocks && g_cnt_entry == ((size_t)i > g_k ? 1u : 0u)) __CPROVER_decreases(numBlocks - i)'}}@*/

size_t nondet_size_t(void); bool nondet_bool(void);
void h_dtor(void)
{
    CachedCmap *c = malloc(sizeof(CachedCmap)); __CPROVER_assume(c != NULL);
    c->m_isBmpOnly = nondet_bool();
    g_n = BLOCKS_OF(c->m_isBmpOnly);
    /* the table is exactly as large as the constructor makes it (c13_cached_ctor): a read beyond it leaves the object */
    g_tab = nondet_bool() ? NULL : malloc(g_n * sizeof(uint16 *));
    c->m_blocks = g_tab;
    g_k = nondet_size_t(); __CPROVER_assume(g_k < g_n);
    g_cnt_entry = 0; g_cnt_table = 0;
    CachedCmap_dtor(c);
    CANARY();
}
