/* C01 - font loading / face queries are memory-safe on arbitrary table bytes: parser kernels that other spec files do not
 * cover.  (Other C01 units: c02_fetch_opcode (validate_opcode argument exhaustion), the cmap units of c13_cmap.c, the
 * lz4 / Face::Table units of c14_lz4.c / c16_table.c, c18_settings / c18_readfeats_guard.)
 *   Pass::readRanges         (src/Pass.cpp)      - glyph -> column map, the first table the FSM indexes at run time
 *   NameTable::getName       (src/NameTable.cpp) - record bounds test and UTF-16BE copy reached from gr_fref_label
 */
#include "types.h"
/*@unit {'name':'c01_readranges', 'props':['C01','C02'], 'entry':'h_readranges', 'kind':'bounded', 'unwind':5, 'unwindset':['h_readranges.0:13'],
  'bound':'numGlyphs <= 4, num_ranges <= 2 (every byte of the range records arbitrary); exact-size buffers',
  'replay':'c01_tables', 'witness_defines':[], 'witness_vars':['w_ng','w_nr','w_nc','w_r'],
  'claims':'Pass::readRanges reads exactly 6*num_ranges bytes, writes only inside m_cols[0,numGlyphs), and on success every glyph column is 0xFFFF or < numColumns (the PASS_WF fact runFSM relies on); overlapping, reversed or out-of-range records are refused'}@*/
/*@unit {'name':'c01_getname_copy', 'props':['C01','C18'], 'entry':'h_getname', 'kind':'bounded', 'unwind':10,
  'bound':'name string storage <= 16 bytes (record offset/length arbitrary 16-bit values); exact-size buffers',
  'replay':'c01_tables', 'witness_defines':[], 'witness_vars':['w_len','w_off','w_dlen'],
  'claims':'NameTable::getName copies a name record only if offset+length lies inside the string storage; the UTF-16BE copy reads only inside the storage and writes only inside the buffer it allocated (length/2 + 1 units), and NUL-terminates it'}@*/

/*@include endian.tc@*/

/* ------------------------------------------------------------------ Pass::readRanges */
typedef struct Error { int _e; } Error;
static bool Error_test(Error *e, bool pr, int err) { return (e->_e = pr ? err : 0); }      /* Error::test (src/inc/Error.h) */
enum { E_OUTOFMEM = 1, E_BADRANGE = 2 };
typedef struct Pass {
/*@extract {'kind':'members', 'file':'src/inc/Pass.h', 'scope': r'class Pass\s*\{', 'names':['m_cols','m_numGlyphs','m_numColumns']}@*/
} Pass;
bool nondet_bool(void);
static uint16 *gralloc_uint16(size_t n) { return nondet_bool() ? (uint16 *)0 : (uint16 *)malloc(n * sizeof(uint16)); }
/*@extract {'file':'src/Pass.cpp', 'sig': r'bool Pass::readRanges\(const byte \* ranges, size_t num_ranges, Error &e\)', 'emit':'bool Pass_readRanges(Pass *self, const byte *ranges, size_t num_ranges, Error *e)',
   'subs':[[r'gralloc<uint16>\(', 'gralloc_uint16(', 1], [r'e\.test\(', 'Error_test(e, ', 0], [r'be::read<(\w+)>\(ranges\)', r'be_read_\1(&ranges)', 0]],
   'self':['m_cols','m_numGlyphs','m_numColumns']}@*/

/* ------------------------------------------------------------------ NameTable::getName (record selection loop cut: it only picks bestLang) */
typedef struct NameRecord { uint16 platform_id, platform_specific_id, language_id, name_id, length, offset; } NameRecord;
typedef struct FontNames { uint16 format, count, string_offset; NameRecord name_record[1]; } FontNames;
typedef struct NameTable {
/*@extract {'kind':'members', 'file':'src/inc/NameTable.h', 'scope': r'class NameTable\s*\{', 'names':['m_platformOffset','m_platformLastRecord','m_nameDataLength','m_table','m_nameData'],
   'subs':[[r'TtfUtil::Sfnt::', '', 0]]}@*/
} NameTable;
typedef uint16 utf16_codeunit_t;
size_t g_alloc_units;
static utf16_codeunit_t *gralloc_utf16(size_t n) { g_alloc_units = n; return nondet_bool() ? (utf16_codeunit_t *)0 : (utf16_codeunit_t *)malloc(n * sizeof(utf16_codeunit_t)); }
/*@extract {'file':'src/NameTable.cpp', 'kind':'range', 'scope': r'void\* NameTable::getName\(uint16& languageId, uint16 nameId, gr_encform enc, uint32& length\)',
   'start': r'const TtfUtil::Sfnt::NameRecord & nameRecord', 'end': r'utf16Name\[utf16Length\] = 0;', 'end_inclusive': True,
   'pre':'utf16_codeunit_t *NameTable_getName_copy(NameTable *self, uint16 bestLang, uint16 *languageId, uint32 *length)\n{\n', 'post':'\n    return utf16Name;\n}\n',
   'subs':[[r'const TtfUtil::Sfnt::NameRecord & nameRecord = m_table->name_record\[bestLang\];', 'const NameRecord * nameRecord_ = &self->m_table->name_record[bestLang];', 1],
           [r'nameRecord\.', 'nameRecord_->', 0], [r'be::swap<(\w+)>\(', r'be_swap_\1(', 0], [r'be::read<(\w+)>\(pName\)', r'be_read_\1(&pName)', 0],
           [r'gralloc<utf16::codeunit_t>\(', 'gralloc_utf16(', 0], [r'utf16::codeunit_t', 'utf16_codeunit_t', 0]],
   'refs':['languageId','length'], 'self':['m_nameDataLength','m_nameData']}@*/

/* ------------------------------------------------------------------ harnesses */
size_t nondet_size_t(void); unsigned nondet_unsigned(void);

void h_readranges(void)
{
    Pass *p = malloc(sizeof(Pass)); __CPROVER_assume(p);
    uint16 w_ng = (uint16)nondet_unsigned(), w_nc = (uint16)nondet_unsigned(); size_t w_nr = nondet_size_t();
    __CPROVER_assume(w_ng <= 4 && w_nr <= 2);
    p->m_numGlyphs = w_ng; p->m_numColumns = w_nc; p->m_cols = 0;
    byte w_r[12];
    byte *ranges = malloc(6 * w_nr); __CPROVER_assume(ranges);                 /* exactly num_ranges records of 3 uint16 */
    for (int i = 0; i < 12; ++i) if ((size_t)i < 6 * w_nr) ranges[i] = w_r[i];
    Error e; e._e = 0;
    /* one call per concrete glyph count: a constant-size m_cols keeps the memset / column stores cheap for the solver */
#define RUN(K) if (w_ng == (K)) { p->m_numGlyphs = (K); bool ok = Pass_readRanges(p, ranges, w_nr, &e); \
        if (ok) { for (int g = 0; g < (K); ++g) __CPROVER_assert(p->m_cols[g] == 0xFFFF || p->m_cols[g] < w_nc, "readRanges: every glyph column is 0xFFFF (no column) or a valid column index"); } }
    RUN(0) RUN(1) RUN(2) RUN(3) RUN(4)
    CANARY();
}

void h_getname(void)
{
    NameTable *nt = malloc(sizeof(NameTable)); __CPROVER_assume(nt);
    uint16 w_dlen = (uint16)nondet_unsigned(); __CPROVER_assume(w_dlen <= 16);
    nt->m_nameDataLength = w_dlen;
    uint8 *data = malloc(w_dlen); __CPROVER_assume(data);                        /* exactly the string storage */
    nt->m_nameData = data;
    FontNames *tbl = malloc(sizeof(FontNames)); __CPROVER_assume(tbl);
    nt->m_table = tbl;
    uint16 w_len = be_swap_uint16(tbl->name_record[0].length), w_off = be_swap_uint16(tbl->name_record[0].offset);
    uint16 lang = 0; uint32 length = 0;
    utf16_codeunit_t *r = NameTable_getName_copy(nt, 0, &lang, &length);
    if (r) {
        __CPROVER_assert((size_t)w_off + w_len <= w_dlen, "getName: a record reaching outside the string storage is refused");
        __CPROVER_assert(g_alloc_units == (size_t)(w_len >> 1) + 1 && r[w_len >> 1] == 0, "getName: the copy holds length/2 units and is NUL terminated");
    }
    CANARY();
}
