/* C04 - glyph attachments always form a forest over the segment's own slots (also C02: the attachment cycle guard).
 * Bounded universe units (see spec/c03_slots.c for the method): pool of NSLOTS slots, parent/child/sibling fields are
 * arbitrary pool pointers constrained only by the forest predicate; the REAL bodies of Slot::child, Slot::sibling,
 * Slot::removeChild (src/Slot.cpp), the gr_slatAttTo case of Slot::setAttr, Segment::freeSlot (src/Segment.cpp) and the
 * put_copy opcode (src/inc/opcodes.h) are run on it (recursion / loops unwound, unwinding assertions on).
 */
#include "types.h"
/*@unit {'name':'c04_child', 'props':['C04'], 'entry':'h_child', 'kind':'bounded', 'defines_quick':['NSLOTS=4'], 'defines_thorough':['NSLOTS=5'], 'unwind_quick':7, 'unwind_thorough':8,
  'bound':'pool of 4 / 5 slots, any forest', 'claims':'Slot::child(ap) followed by attachTo (the order setAttr uses) appends a detached slot to the child chain exactly once: the forest predicate holds afterwards and ap names this as its parent; it refuses this==ap'}@*/
/*@unit {'name':'c04_remove_child', 'props':['C04'], 'entry':'h_remove', 'kind':'bounded', 'defines_quick':['NSLOTS=4'], 'defines_thorough':['NSLOTS=5'], 'unwind_quick':7, 'unwind_thorough':8,
  'bound':'pool of 4 / 5 slots, any forest', 'claims':'Slot::removeChild(ap) takes ap out of its parent\'s child chain and clears ap\'s sibling link; with attachTo(NULL) the forest predicate holds again and every other child keeps its place'}@*/
/*@unit {'name':'c04_attach_to', 'props':['C04','C02','C06'], 'entry':'h_attach', 'kind':'bounded', 'defines_quick':['NSLOTS=3','ATTACH'], 'defines_thorough':['NSLOTS=4','ATTACH'], 'unwind_quick':6, 'unwind_thorough':7,
  'bound':'pool of 3 / 4 slots, any forest without base-chain links, any target slot', 'claims':'the gr_slatAttTo case of Slot::setAttr keeps the forest: it refuses self/parent/copied targets and targets below this slot (no cycle), detaches from the old parent first, and the slot ends up exactly once in the new parent\'s chain'}@*/
/*@unit {'name':'c04_free_slot', 'props':['C04','C03','C06'], 'entry':'h_free', 'kind':'bounded', 'defines_quick':['NSLOTS=3','FREESLOT'], 'defines_thorough':['NSLOTS=3','FREESLOT'], 'unwind_quick':6, 'unwind_thorough':6,
  'bound':'pool of 3 slots (4 exhausts 12 GB in the SAT back end), any forest', 'claims':'Segment::freeSlot detaches the slot from its parent and all its children from it (forest predicate holds over the remaining slots, nothing names the freed slot), moves first/last off it, resets it and pushes it on the free list'}@*/
/*@unit {'name':'c04_put_copy', 'props':['C04','C03'], 'entry':'h_put_copy', 'kind':'bounded', 'defines_quick':['NSLOTS=3','PUTCOPY'], 'defines_thorough':['NSLOTS=4','PUTCOPY'], 'unwind_quick':6, 'unwind_thorough':7,
  'bound':'pool of 3 / 4 slots, any forest', 'claims':'the put_copy opcode never leaves a slot whose children name it while its child chain is gone: it dies when the overwritten slot is attached or has children; otherwise the forest predicate is preserved and the list links of the overwritten slot are kept'}@*/

/*@unit {'name':'c04_link_clusters', 'props':['C04'], 'tiers':['thorough'], 'entry':'h_link', 'kind':'bounded', 'defines_quick':['NSLOTS=3','LINKC'], 'defines_thorough':['NSLOTS=3','LINKC'], 'unwind_quick':5, 'unwind_thorough':5,
  'bound':'pool of 3 slots, any well-formed list, any forest without base-chain links',
  'claims':'Segment::linkClusters links the bases of the line into one sibling chain that contains each base exactly once (in stream order, reversed for right-to-left segments) and leaves attached slots alone'}@*/

/*@include slots.tc@*/

/* ---- the forest predicate of the property statement over the pool */
static bool wf_forest(const bool live[NSLOTS])
{
    for (int i = 0; i < NSLOTS; ++i) {                      /* (1) every parent walk reaches a base in finitely many steps, through live slots */
        if (!live[i]) continue;
        Slot *s = &g_pool[i];
        int k = 0;
        for (; k <= NSLOTS && s->m_parent; ++k) { s = s->m_parent; if (!live[IDX(s)]) return false; }
        if (s->m_parent) return false;
    }
    for (int p = 0; p < NSLOTS; ++p) {                      /* (2) the child chain of p holds exactly the slots whose parent is p, each once */
        if (!live[p]) continue;
        bool seen[NSLOTS];
        for (int i = 0; i < NSLOTS; ++i) seen[i] = false;
        Slot *c = g_pool[p].m_child;
        int k = 0;
        for (; k < NSLOTS && c; ++k) {
            int i = IDX(c);
            if (!live[i] || seen[i] || c->m_parent != &g_pool[p]) return false;
            seen[i] = true;
            c = c->m_sibling;
        }
        if (c) return false;
        for (int i = 0; i < NSLOTS; ++i) if (live[i] && g_pool[i].m_parent == &g_pool[p] && !seen[i]) return false;
    }
    return true;
}
/* while rules run (before Segment::linkClusters, which runs at finalise) a base slot carries no sibling link */
static bool bases_unlinked(const bool live[NSLOTS]) { for (int i = 0; i < NSLOTS; ++i) if (live[i] && !g_pool[i].m_parent && g_pool[i].m_sibling) return false; return true; }
static bool in_chain(const Slot *p, const Slot *x) { const Slot *c = p->m_child; for (int k = 0; k < NSLOTS && c; ++k) { if (c == x) return true; c = c->m_sibling; } return false; }
static int chain_pos(const Slot *p, const Slot *x) { const Slot *c = p->m_child; for (int k = 0; k < NSLOTS && c; ++k) { if (c == x) return k; c = c->m_sibling; } return -1; }
static bool is_below(const Slot *anc, const Slot *s) { for (int k = 0; k <= NSLOTS && s; ++k) { if (s == anc) return true; s = s->m_parent; } return false; }

/* ---- extracted bodies */
static bool Slot_child_1(Slot *self, Slot *ap);
static bool Slot_sibling_1(Slot *self, Slot *ap);
static bool Slot_removeChild_1(Slot *self, Slot *ap);
#define M_child_1 Slot_child_1
#define M_sibling_1 Slot_sibling_1
#define M_removeChild_1 Slot_removeChild_1
/*@extract {'file':'src/Slot.cpp', 'sig': r'bool Slot::sibling\(Slot \*ap\)', 'emit':'static bool Slot_sibling_1(Slot *self, Slot *ap)',
   'subs':[[r'\bthis\b', 'self', 0]], 'methods':['sibling'], 'self':['m_sibling','m_child']}@*/
/*@extract {'file':'src/Slot.cpp', 'sig': r'bool Slot::child\(Slot \*ap\)', 'emit':'static bool Slot_child_1(Slot *self, Slot *ap)',
   'subs':[[r'\bthis\b', 'self', 0]], 'methods':['sibling'], 'self':['m_sibling','m_child']}@*/
/*@extract {'file':'src/Slot.cpp', 'sig': r'bool Slot::removeChild\(Slot \*ap\)', 'emit':'static bool Slot_removeChild_1(Slot *self, Slot *ap)',
   'subs':[[r'\bthis\b', 'self', 0]], 'methods':['nextSibling'], 'self':['m_sibling','m_child']}@*/

#ifdef LINKC
/*@extract {'if':'LINKC', 'file':'src/Segment.cpp', 'sig': r'void Segment::linkClusters\(Slot \*s, Slot \* end\)', 'emit':'void Segment_linkClusters(Segment *self, Slot *s, Slot *end)',
   'methods':['next','isBase','sibling'], 'self':['m_dir']}@*/
#endif

#ifdef ATTACH
/* gr_attrCode, for the case label */
/*@extract {'if':'ATTACH', 'file':'include/graphite2/Segment.h', 'kind':'range', 'start': r'enum gr_attrCode \{', 'end': r'\};', 'end_inclusive': True}@*/
static size_t SlotMap_size_0(const SlotMap *m) { return m->m_size; }                    /* SlotMap::size() { return m_size; } */
static Slot *SlotMap_at(const SlotMap *m, int n) { return m->m_slot_map[n + 1]; }       /* SlotMap::operator[](int n) { return m_slot_map[n + 1]; } */
static float Slot_advance_0(const Slot *s) { return s->m_advance.x; }
static Position mkpos(float x, float y) { Position p; p.x = x; p.y = y; return p; }
/*@extract {'if':'ATTACH', 'file':'src/Slot.cpp', 'kind':'range', 'scope': r'void Slot::setAttr\(Segment \*seg, attrCode ind, uint8 subindex, int16 value, const SlotMap & map\)',
   'start': r'case gr_slatAttTo\s*:', 'end': r'case gr_slatAttX\s*:',
   'pre':'static void Slot_setAttTo(Slot *self, uint8 subindex, int16 value, const SlotMap *map)\n{\n    switch (gr_slatAttTo) {\n', 'post':'\n    default: break;\n    }\n}\n',
   'subs':[[r'\bthis\b', 'self', 0], [r'map\.size\(\)', 'SlotMap_size_0(map)', 0], [r'map\[idx\]', 'SlotMap_at(map, idx)', 0], [r'map\.dir\(\)', 'SlotMap_dir_0(map)', 0],
           [r'Position\(advance\(\), 0\)', 'mkpos(Slot_advance_0(self), 0)', 0], [r'Position\(other->advance\(\), 0\)', 'mkpos(Slot_advance_0(other), 0)', 0],
           [r'(?<![\w>.])attachTo\(', 'Slot_attachTo_1(self, ', 0]],
   'methods':['isCopied','removeChild','attachedTo','child','isBase','nextSibling','firstChild','sibling','isDeleted'],
   'self':['m_parent','m_child','m_sibling','m_with','m_attach']}@*/
#endif

#ifdef FREESLOT
typedef struct SilfS { uint8 m_aUser; } SilfS;
static size_t g_numUser;
static uint8 Silf_numUser(const Silf *s) { (void)s; return (uint8)g_numUser; }
/*@extract {'if':'FREESLOT', 'file':'src/Segment.cpp', 'sig': r'void Segment::freeSlot\(Slot \*aSlot\)', 'emit':'void Segment_freeSlot(Segment *self, Slot *aSlot)',
   'subs':[[r'::new \(aSlot\) Slot\(', 'Slot_ctor(aSlot, ', 1], [r'm_silf->numUser\(\)', 'Silf_numUser(m_silf)', 0]],
   'methods':['prev','next','attachedTo','removeChild','firstChild','attachTo','userAttrs'],
   'self':['m_last','m_first','m_freeSlots','m_silf','m_face']}@*/
#endif

#ifdef PUTCOPY
typedef int32 stack_t;
typedef enum { finished = 0, stack_underflow, stack_not_empty, stack_overflow, slot_offset_out_bounds, died_early } status_t;
typedef void * instr;
typedef struct regbank { slotref is; slotref *map; SlotMap *smap_; slotref *map_base; const instr **ip_; uint8 direction; int8 flags; status_t *status_; } regbank;
bool g_died;
#define registers const byte ** dp_, stack_t ** sp_, stack_t * const sb, regbank * reg_
#define STARTOP(name) bool name(registers) {
#define ENDOP return true; }
#define EXIT(s) { g_died = true; return false; }
#define DIE { is = M_last_0(&seg); status = died_early; EXIT(1); }
/*@extract {'if':'PUTCOPY', 'file':'src/inc/opcodes.h', 'kind':'define', 'name':'use_params'}@*/
/*@extract {'if':'PUTCOPY', 'file':'src/inc/opcodes.h', 'kind':'define', 'name':'declare_params'}@*/
/*@extract {'if':'PUTCOPY', 'file':'src/inc/opcodes.h', 'kind':'define', 'name':'slotat', 'subs':[[r'&smap\[-1\]', '(&smap.m_slot_map[0])', 0], [r'smap\.end\(\)', '(&smap.m_slot_map[1] + smap.m_size)', 0], [r'Machine::', '', 0]]}@*/
#define dp (*dp_)
#define sp (*sp_)
#define reg (*reg_)
#define smap (*reg.smap_)
#define seg (*smap.segment_)
#define is reg.is
#define map reg.map
#define status (*reg.status_)
static uint8 Segment_numAttrs_0(const Segment *s) { (void)s; return 2; }
#define M_numAttrs_0 Segment_numAttrs_0
/*@extract {'if':'PUTCOPY', 'file':'src/inc/opcodes.h', 'kind':'startop', 'name':'put_copy',
   'methods':['isDeleted','userAttrs','attachedTo','firstChild','prev','next','numAttrs','nextSibling','child','markCopied','markDeleted']}@*/
#undef dp
#undef sp
#undef reg
#undef smap
#undef seg
#undef is
#undef map
#undef status
#endif

/* ------------------------------------------------------------------ harnesses */
bool nondet_bool(void); unsigned nondet_unsigned(void);
static void all_live(bool live[NSLOTS]) { for (int i = 0; i < NSLOTS; ++i) live[i] = true; }

#if !defined(ATTACH) && !defined(FREESLOT) && !defined(PUTCOPY) && !defined(LINKC)
void h_child(void)
{
    bool live[NSLOTS]; all_live(live);
    havoc_links();
    __CPROVER_assume(wf_forest(live));
    Slot *p = pick_slot(), *ap = pick_slot();
    __CPROVER_assume(p && ap);
    /* ap is detached: a base without a pending sibling link (setAttr detaches from the old parent first) */
    __CPROVER_assume(ap->m_parent == (Slot *)0 && ap->m_sibling == (Slot *)0);
    __CPROVER_assume(!is_below(ap, p) || p == ap);          /* setAttr's cycle guard: the new parent is not below ap */
    int pos_before[NSLOTS];
    for (int i = 0; i < NSLOTS; ++i) pos_before[i] = chain_pos(p, &g_pool[i]);
    bool r = Slot_child_1(p, ap);
    if (p == ap) { __CPROVER_assert(!r, "child(): a slot cannot be its own child"); }
    else {
        __CPROVER_assert(r, "child() accepts a detached slot");
        Slot_attachTo_1(ap, p);
        __CPROVER_assert(wf_forest(live), "child()+attachTo(): the forest predicate holds");
        __CPROVER_assert(in_chain(p, ap), "child(): ap is in the chain");
        for (int i = 0; i < NSLOTS; ++i) if (pos_before[i] >= 0) __CPROVER_assert(chain_pos(p, &g_pool[i]) == pos_before[i], "child(): earlier children keep their place");
    }
    CANARY();
}
void h_remove(void)
{
    bool live[NSLOTS]; all_live(live);
    havoc_links();
    __CPROVER_assume(wf_forest(live));
    Slot *p = pick_slot(), *ap = pick_slot();
    __CPROVER_assume(p);
    bool was_child = ap && ap != p && ap->m_parent == p;
    Slot *sib_before[NSLOTS]; for (int i = 0; i < NSLOTS; ++i) sib_before[i] = g_pool[i].m_sibling;
    int pos_before[NSLOTS]; for (int i = 0; i < NSLOTS; ++i) pos_before[i] = chain_pos(p, &g_pool[i]);
    int appos = ap ? chain_pos(p, ap) : -1;
    bool r = Slot_removeChild_1(p, ap);
    __CPROVER_assert(r == was_child, "removeChild() succeeds exactly for a child of this slot");
    if (r) {
        __CPROVER_assert(!in_chain(p, ap), "removeChild(): ap is gone from the chain");
        __CPROVER_assert(ap->m_sibling == (Slot *)0, "removeChild(): ap's sibling link is cleared (it must not drag the old siblings along)");
        Slot_attachTo_1(ap, (Slot *)0);
        __CPROVER_assert(wf_forest(live), "removeChild()+attachTo(NULL): the forest predicate holds");
        for (int i = 0; i < NSLOTS; ++i) if (pos_before[i] >= 0 && &g_pool[i] != ap)
            __CPROVER_assert(chain_pos(p, &g_pool[i]) == pos_before[i] - (pos_before[i] > appos ? 1 : 0), "removeChild(): the other children keep their order");
    } else {
        for (int i = 0; i < NSLOTS; ++i) __CPROVER_assert(g_pool[i].m_sibling == sib_before[i], "removeChild(): a refused call changes nothing");
    }
    CANARY();
}
#endif

#ifdef ATTACH
void h_attach(void)
{
    bool live[NSLOTS]; all_live(live);
    havoc_links();
    __CPROVER_assume(wf_forest(live) && bases_unlinked(live));      /* assumption: rules run before linkClusters builds the base chain */
    SlotMap sm;
    sm.m_size = (unsigned short)(nondet_unsigned() % (NSLOTS + 1));
    for (int i = 0; i < NSLOTS + 1; ++i) sm.m_slot_map[i] = pick_slot();
    sm.m_dir = (uint8)nondet_unsigned();
    Slot *s = pick_slot(); __CPROVER_assume(s);
    int16 value = (int16)nondet_int(); uint8 sub = (uint8)nondet_unsigned();
    Slot *old_parent = s->m_parent;
    uint16 idx = (uint16)value;
    Slot *other = (idx < sm.m_size) ? sm.m_slot_map[idx + 1] : (Slot *)0;
    bool would_cycle = other && is_below(s, other);
    bool other_is_copy = other && Slot_isCopied_0(other);       /* a TEMP_COPY slot: not a slot of the segment, freed when the rule ends */
    Slot_setAttTo(s, sub, value, &sm);
    if (other_is_copy) __CPROVER_assert(s->m_parent == old_parent, "setAttr(attTo): a temporary copy is never taken as parent (attachment chains only visit slots of the segment)");
    __CPROVER_assert(wf_forest(live), "setAttr(attTo): the forest predicate holds afterwards (no cycle, chains consistent)");
    __CPROVER_assert(bases_unlinked(live), "setAttr(attTo): a detached slot carries no stale sibling link");
    __CPROVER_assert(s->m_parent == old_parent || s->m_parent == other || s->m_parent == (Slot *)0, "setAttr(attTo): the parent is the old one, the requested one, or none");
    __CPROVER_assert(!(would_cycle && s->m_parent == other && other != old_parent), "setAttr(attTo): never attaches below itself");
    if (s->m_parent) __CPROVER_assert(in_chain(s->m_parent, s), "setAttr(attTo): an attached slot is in its parent's chain");
    CANARY();
}
#endif

#ifdef FREESLOT
void h_free(void)
{
    bool live[NSLOTS]; all_live(live);
    havoc_links();
    Slot *s = pick_slot();
    /* two kinds of slots get freed: stream slots, and TEMP_COPY slots - a memcpy of a stream slot that is in nobody's chain
       and whose child pointer refers to children that belong to the original */
    bool copy_case = nondet_bool() && s;
    if (copy_case) live[IDX(s)] = false;
    __CPROVER_assume(wf_forest(live) && bases_unlinked(live));      /* assumption: no base-chain links (they are built by linkClusters at finalise) */
    if (copy_case) {
        __CPROVER_assume(s->m_child == (Slot *)0 || s->m_child->m_parent != s);
        for (int i = 0; i < NSLOTS; ++i) if (live[i]) __CPROVER_assume(g_pool[i].m_parent != s && g_pool[i].m_child != s && g_pool[i].m_sibling != s);
    }
    Segment sg; sg.m_first = pick_slot(); sg.m_last = pick_slot(); sg.m_freeSlots = (Slot *)0;
    g_numUser = 2;                 /* Silf::numUser(): the user-attribute block of a slot (fixed size in this universe) */
    Slot *first0 = sg.m_first, *last0 = sg.m_last;
    Slot *nx = s ? s->m_next : (Slot *)0, *pv = s ? s->m_prev : (Slot *)0;
    Slot saved[NSLOTS]; for (int i = 0; i < NSLOTS; ++i) saved[i] = g_pool[i];
    if (s) { s->m_userAttr[0] = (int16)nondet_unsigned(); s->m_userAttr[1] = (int16)nondet_unsigned(); }     /* user attributes set by earlier rules */
    Segment_freeSlot(&sg, s);
    if (s) {
        live[IDX(s)] = false;
        __CPROVER_assert(wf_forest(live), "freeSlot: the forest predicate holds over the remaining slots");
        for (int i = 0; i < NSLOTS; ++i) if (live[i]) __CPROVER_assert(g_pool[i].m_parent != s && g_pool[i].m_child != s && g_pool[i].m_sibling != s, "freeSlot: no remaining slot names the freed slot in its attachment links");
        if (copy_case) for (int i = 0; i < NSLOTS; ++i) if (live[i])
            __CPROVER_assert(g_pool[i].m_parent == saved[i].m_parent && g_pool[i].m_child == saved[i].m_child && g_pool[i].m_sibling == saved[i].m_sibling, "freeSlot of a temporary copy leaves the attachments of the stream slots alone (the copy's child pointer belongs to the original)");
        __CPROVER_assert(sg.m_first == (first0 == s ? nx : first0) && sg.m_last == (last0 == s ? pv : last0), "freeSlot: first/last move off the freed slot");
        __CPROVER_assert(s->m_userAttr == g_uattr[IDX(s)] && s->m_userAttr[0] == 0 && s->m_userAttr[1] == 0, "freeSlot: every user-attribute cell of the freed slot (numUser of them) is cleared - a slot recycled by a later insert starts with the attribute values of a new slot, not with those of the deleted one");
        __CPROVER_assert(sg.m_freeSlots == s && s->m_parent == (Slot *)0 && s->m_child == (Slot *)0 && s->m_sibling == (Slot *)0 && s->m_prev == (Slot *)0, "freeSlot: the slot is reset and pushed on the free list");
    }
    CANARY();
}
#endif

#ifdef PUTCOPY
void h_put_copy(void)
{
    bool live[NSLOTS]; all_live(live);
    havoc_links();
    __CPROVER_assume(wf_forest(live));
    Segment sg; SlotMap sm; regbank rb; status_t st = finished;
    sg.m_first = pick_slot(); sg.m_last = pick_slot();
    sm.segment_ = &sg; sm.m_size = (unsigned short)(nondet_unsigned() % (NSLOTS + 1));
    for (int i = 0; i < NSLOTS + 1; ++i) sm.m_slot_map[i] = pick_slot();
    rb.smap_ = &sm; rb.status_ = &st; rb.map = &sm.m_slot_map[1]; g_died = false;
    rb.is = pick_slot();
    Slot *cur = rb.is; bool was_deleted = cur && Slot_isDeleted_0(cur);
    Slot *nx = cur ? cur->m_next : (Slot *)0, *pv = cur ? cur->m_prev : (Slot *)0;
    byte *data = malloc(1); __CPROVER_assume(data);
    const byte *dpv = data; stack_t *spv = 0;
    bool cont = put_copy(&dpv, &spv, 0, &rb);
    (void)cont;
    __CPROVER_assert(wf_forest(live), "put_copy: the forest predicate holds afterwards (an overwritten slot never keeps children that name it)");
    if (cur && !g_died) __CPROVER_assert(cur->m_next == nx && cur->m_prev == pv, "put_copy: the list links of the overwritten slot are kept");
    if (cur && !g_died && !was_deleted) __CPROVER_assert(!Slot_isDeleted_0(cur) && !Slot_isCopied_0(cur), "put_copy: a live slot never inherits the deleted / copied mark of the slot it was copied from (collectGarbage frees marked slots)");
    CANARY();
}
#endif

#ifdef LINKC
void h_link(void)
{
    bool live[NSLOTS]; all_live(live);
    havoc_links();
    Segment sg; sg.m_first = pick_slot(); sg.m_last = pick_slot(); sg.m_dir = (int8)nondet_unsigned();
    int o0[NSLOTS], n0;
    __CPROVER_assume(wf_list(sg.m_first, sg.m_last, o0, &n0) && n0 >= 1);
    for (int i = 0; i < NSLOTS; ++i) live[i] = in_order(o0, n0, i);
    __CPROVER_assume(wf_forest(live) && bases_unlinked(live));
    Slot saved[NSLOTS]; for (int i = 0; i < NSLOTS; ++i) saved[i] = g_pool[i];
    Segment_linkClusters(&sg, sg.m_first, sg.m_last);
    /* the bases in stream order */
    int bases[NSLOTS], nb = 0;
    for (int k = 0; k < NSLOTS; ++k) if (k < n0 && !g_pool[o0[k]].m_parent) bases[nb++] = o0[k];
    bool rtl = (sg.m_dir & 1) != 0;
    for (int j = 0; j < NSLOTS; ++j) if (j < nb) {
        int nxt = rtl ? (j > 0 ? bases[j - 1] : -1) : (j + 1 < nb ? bases[j + 1] : -1);
        __CPROVER_assert(g_pool[bases[j]].m_sibling == (nxt < 0 ? (Slot *)0 : &g_pool[nxt]), "linkClusters: each base's sibling link is the next base in stream order (previous one for right-to-left), the last one ends the chain");
    }
    for (int i = 0; i < NSLOTS; ++i) if (live[i] && g_pool[i].m_parent)
        __CPROVER_assert(g_pool[i].m_sibling == saved[i].m_sibling && g_pool[i].m_parent == saved[i].m_parent && g_pool[i].m_child == saved[i].m_child, "linkClusters: attached slots are left alone");
    __CPROVER_assert(wf_forest(live), "linkClusters: the forest predicate still holds");
    CANARY();
}
#endif
