/* C16 - table callbacks follow strict borrow discipline; nothing is leaked.   (unit c16_decompress also carries C14)
 * Functions under contract (extracted from /repo on every run):
 *   Face::Table::Table(face,tag,version), ::release, ::decompress, ::operator=(Table&&)        src/Face.cpp
 *   Face::Table::Table(), ::Table(Table&&), ::~Table                                             src/inc/Face.h
 *   Error::Error/test/error/operator bool (src/inc/Error.h), gralloc<byte>, checked_mul (src/inc/Main.h), be::read/peek
 *   TtfUtil::CheckTable: only its first statement (the NULL / size < 4 guard) - lemma c16_checktable_guard
 * The two client callbacks are instrumented stubs with a body (spec code):
 *   CB_get_table   hands out the harness-prepared exact-size buffer of the next ledger slot (or NULL), marks it outstanding
 *   CB_release_table  obligation: the pointer is an outstanding borrow (=> released at most once, only what get_table returned);
 *                  marks it returned and FREES it, so that any later dereference is a `deallocated dynamic object' obligation
 * The indirect calls `(*_f->m_ops.get_table)(handle, ..)` are rewritten to direct calls of the stubs (syntax adaptation);
 * whether release_table is NULL is still decided by the real code on the real field.
 * Typestate TS(t,k) of a Table t using ledger slot k:
 *   t holds a borrow (t._p != 0 && !t._compressed)  <=>  slot k is outstanding, and then t._p/_sz are the slot's pointer/size;
 *   t._compressed && t._p != 0  =>  t._p is a live malloc'ed block of t._sz bytes that t owns.
 * lz4::decompress is replaced by its contract (spec/lz4_contract.tc, proved in c14_lz4_safety).
 */
#include "types.h"
#define signed(x) ((signed)(x))

/*@unit {'name':'c16_checktable_guard', 'props':['C16','C01'], 'entry':'h_guard', 'enforce':'CheckTable_guard',
         'claims':'TtfUtil::CheckTable refuses a NULL table and any table shorter than 4 bytes before looking at it (first statement of the function): the premise under which Face::Table may read the version word'}@*/
/*@unit {'name':'c16_release', 'props':['C16'], 'entry':'h_release', 'enforce':'Table_release',
         'claims':'Table::release: a borrowed table is handed to release_table exactly once (not at all when the client gave no release_table), a decompressed block the table owns is freed and never handed to the client, an empty table calls nothing; afterwards _p == 0, _sz == 0 and nothing is outstanding'}@*/
/*@unit {'name':'c16_decompress', 'props':['C14','C16','C01'], 'entry':'h_decompress', 'enforce':'Table_decompress', 'replace':['lz4_decompress'], 'checks':['--memory-leak-check'],
         'replay':'c16_table', 'witness_defines':['WITNESS'], 'witness_vars':['w_sz','w_b','w_has_release','w_lz4_ret'],
         'claims':'Table::decompress: tables shorter than 20 bytes are an error and stay untouched; scheme = top 5 bits of the second word, 0 leaves the table as it is; any other scheme but LZ4 is an error; for LZ4 the decoder is called on exactly the bytes after the two header words with an output buffer of exactly the announced 27-bit size (its preconditions hold), and the result is accepted only if the decoded length equals the announced size and the first decoded word equals the version word; on every path the borrowed table is released exactly once (never for scheme 0 / short tables, which keep it), it is not read after its release, the scratch buffer is freed on failure (no leak) and the typestate holds on return'}@*/
/*@unit {'name':'c16_ctor', 'props':['C16','C01'], 'entry':'h_ctor', 'enforce':'Table_ctor', 'replace':['CheckTable','Table_decompress'],
         'claims':'Table(face,tag,version): exactly one get_table call; if CheckTable refuses the table it is released before the constructor returns and the Table is empty; otherwise the version word is read inside the table (>= 4 bytes) and decompress is called exactly when it is >= version; the typestate holds on return'}@*/
/*@unit {'name':'c16_move_ctor', 'props':['C16'], 'entry':'h_move_ctor', 'enforce':'Table_move_ctor',
         'claims':'Table(Table&&): the new table takes over pointer, size, face and the ownership flag; the source is left empty (its _p == 0), so exactly one of them will release'}@*/
/*@unit {'name':'c16_move_assign', 'props':['C16'], 'entry':'h_move_assign', 'enforce':'Table_move_assign',
         'claims':'operator=(Table&&): what the left-hand side held is released first (borrow returned exactly once / owned block freed), then it takes over the right-hand side, which is left empty; self-assignment changes nothing'}@*/
/*@unit {'name':'c16_dtor', 'props':['C16'], 'entry':'h_dtor', 'enforce':'Table_dtor',
         'claims':'~Table releases: afterwards nothing this table held is outstanding or allocated'}@*/
/*@unit {'name':'c16_lifecycle', 'props':['C16'], 'entry':'h_lifecycle', 'replace':['CheckTable','lz4_decompress'], 'checks':['--memory-leak-check'],
         'replay':'c16_table', 'witness_defines':['WITNESS'], 'witness_vars':['w_sz','w_b','w_has_release','w_lz4_ret','w_path'],
         'claims':'real bodies end to end (construct - optionally move-construct / move-assign / overwrite with an empty Table as GlyphCache::Loader does - destroy): every pointer obtained from get_table is passed to release_table exactly once when a release_table exists, never a pointer get_table did not return, nothing is read after its release, and at the end no block allocated by the library is left (memory-leak check), for every table content and every lz4 outcome'}@*/

/* ------------------------------------------------------------------ shim structs: fields the extracted code touches, real names and types */
typedef struct gr_face_ops {
    size_t size;
    const void *(*get_table)(const void *appFaceHandle, unsigned int name, size_t *len);
    void (*release_table)(const void *appFaceHandle, const void *table_buffer);
} gr_face_ops;
typedef struct Face { gr_face_ops m_ops; const void *m_appFaceHandle; } Face;
typedef unsigned int Tag;                       /* class Tag wraps one unsigned int (TtfUtil.h) */
typedef struct Table { const Face *_f; const byte *_p; size_t _sz; bool _compressed; } Table;
typedef struct Error { int _e; } Error;
/*@extract {'file':'src/inc/Error.h', 'kind':'range', 'start': r'enum error \{', 'end': r'\};', 'end_inclusive': True}@*/
/*@extract {'file':'src/Face.cpp', 'kind':'range', 'start': r'enum compression', 'end': r'\};', 'end_inclusive': True}@*/
#define compression(x) ((enum compression)(x))

/* ------------------------------------------------------------------ ghost: the borrow ledger */
#define NB 2
struct ledger {
    struct { const void *ptr; size_t n; bool out; } b[NB];   /* buffers the client will hand out, in order; out = outstanding */
    unsigned next;          /* next slot get_table uses */
    unsigned gets, rels;    /* number of get_table calls that returned a table / release_table calls */
} g_led;
unsigned g_slot;            /* the slot of the table under contract (harness) */
bool g_check_ok;            /* result of CheckTable (stub) */
unsigned g_dec_calls;       /* calls of Table::decompress seen by the constructor */
/* arguments and result of the lz4::decompress call made by Table::decompress */
const void *g_lz4_in; size_t g_lz4_in_size; void *g_lz4_out; size_t g_lz4_out_size; int g_lz4_ret; unsigned g_lz4_calls;
/* state of the table before the call (harness snapshot; the buffer itself is freed by the release stub) */
const byte *g_p0; size_t g_sz0; bool g_c0; uint32 g_ver0, g_hdr0; unsigned g_rels0;
const byte *g_rp0; size_t g_rsz0; bool g_rc0; const Face *g_rf0;

#define HASREL(f) ((f)->m_ops.release_table != NULL)
#define BORROWED(t) (!(t)->_compressed && (t)->_p != NULL)
#define OWNED(t) ((t)->_compressed && (t)->_p != NULL)
/* ledger part (no dereference) and ownership part of the typestate */
#define TS_LEDGER(t, k) ( (BORROWED(t) ==> (g_led.b[k].out && g_led.b[k].ptr == (t)->_p && g_led.b[k].n == (t)->_sz)) \
                && ((!BORROWED(t) && HASREL((t)->_f)) ==> !g_led.b[k].out) )
#define TS_OWNED(t) (OWNED(t) ==> (__CPROVER_r_ok((t)->_p, (t)->_sz) && OFF((t)->_p) == 0 && __CPROVER_DYNAMIC_OBJECT((t)->_p)))
#define TS(t, k) (TS_LEDGER(t, k) && TS_OWNED(t))
/* what only release_table changes in the ledger */
#define LED_RELEASE_FRAME g_led.rels, g_led.b[0].out, g_led.b[1].out
/* In unit c16_ctor the call of decompress is replaced by its contract: clauses that dereference the pointer the call just
   assigned cannot be evaluated there (FRAMEWORK.md item 7); they are proved in c16_decompress and, end to end, in c16_lifecycle. */
#ifdef UNIT_c16_ctor
#define DEREF(x) 1
#else
#define DEREF(x) (x)
#endif
#define BE32(p) (((uint32)(p)[0] << 24) | ((uint32)(p)[1] << 16) | ((uint32)(p)[2] << 8) | (uint32)(p)[3])

/* ------------------------------------------------------------------ the client (instrumented stubs, spec code) */
size_t nondet_size_t(void); unsigned nondet_unsigned(void); bool nondet_bool(void); int nondet_int(void);
const void *CB_get_table(const Face *f, unsigned int name, size_t *len)
{
    (void)f; (void)name;
    __CPROVER_assert(g_led.next < NB, "get_table: more tables requested than the harness provides");
    const unsigned k = g_led.next < NB ? g_led.next : 0;
    g_led.next++;
    if (g_led.b[k].ptr == NULL) return NULL;              /* table absent: *len is left alone */
    *len = g_led.b[k].n; g_led.b[k].out = 1; g_led.gets++;
    return g_led.b[k].ptr;
}
void CB_release_table(const Face *f, const void *p)
{
    (void)f;
    const int k = (g_led.b[0].out && g_led.b[0].ptr == p) ? 0 : (g_led.b[1].out && g_led.b[1].ptr == p) ? 1 : -1;
    __CPROVER_assert(k >= 0, "release_table: the pointer is an outstanding borrow (obtained from get_table and not released before)");
    g_led.rels++;
    if (k >= 0) { g_led.b[k].out = 0; free((void *)p); } /* poison: the client may unmap it now */
}
static void client_release(const void *h, const void *p) { (void)h; (void)p; }  /* only its address is used (non-NULL release_table) */

/* ------------------------------------------------------------------ contracts */
bool CheckTable_guard(const void *pTable, size_t lTableSize)
__CPROVER_assigns()
__CPROVER_ensures(__CPROVER_return_value ==> (pTable != 0 && lTableSize >= 4));

/* assumed for the rest of CheckTable: no side effect (it only reads the table); refusal of NULL / short tables is the lemma above */
bool CheckTable(const Tag TableId, const void *pTable, size_t lTableSize)
__CPROVER_assigns(g_check_ok)
__CPROVER_ensures(__CPROVER_return_value == g_check_ok && (__CPROVER_return_value ==> (pTable != 0 && lTableSize >= 4)));

/*@include lz4_contract.tc@*/
static int lz4_decompress_g(void const *in, size_t in_size, void *out, size_t out_size)
{   /* ghost wrapper: records the call */
    int r = lz4_decompress(in, in_size, out, out_size);
    g_lz4_in = in; g_lz4_in_size = in_size; g_lz4_out = out; g_lz4_out_size = out_size; g_lz4_ret = r; g_lz4_calls++;
    return r;
}

#define SNAP(self) ((self)->_p == g_p0 && (self)->_sz == g_sz0 && (self)->_compressed == g_c0 && g_led.rels == g_rels0)
#define UNCHANGED(self) ((self)->_p == g_p0 && (self)->_sz == g_sz0 && (self)->_compressed == g_c0 && g_led.rels == g_rels0)
/* what the table held before the call has been given back: borrow returned exactly once (if the client wants it back) */
#define OLD_RELEASED(self) (g_led.rels == g_rels0 + ((!g_c0 && g_p0 != NULL && HASREL((self)->_f)) ? 1u : 0u) \
                            && (HASREL((self)->_f) ==> !g_led.b[g_slot].out))

void Table_release(Table *self)
__CPROVER_requires(__CPROVER_r_ok(self->_f, sizeof(Face)) && g_slot < NB && TS(self, g_slot) && SNAP(self))
__CPROVER_assigns(self->_p, self->_sz, LED_RELEASE_FRAME)
__CPROVER_frees(self->_p)
__CPROVER_ensures(self->_p == 0 && self->_sz == 0 && self->_compressed == g_c0)
__CPROVER_ensures(OLD_RELEASED(self))
__CPROVER_ensures((g_c0 && g_p0 != NULL) ==> __CPROVER_was_freed(__CPROVER_old(self->_p)))     /* the block the table owned is freed (not handed to the client: rels unchanged) */
__CPROVER_ensures(TS(self, g_slot));

#define SCHEME (g_hdr0 >> 27)
#define SIZE27 ((size_t)(g_hdr0 & 0x07ffffff))
Error Table_decompress(Table *self)
__CPROVER_requires(__CPROVER_r_ok(self->_f, sizeof(Face)) && g_slot < NB && BORROWED(self) && TS(self, g_slot) && SNAP(self))
__CPROVER_requires(__CPROVER_r_ok(self->_p, self->_sz) && g_lz4_calls == 0)
__CPROVER_requires(self->_sz < 8 || (g_ver0 == BE32(self->_p) && g_hdr0 == BE32(self->_p + 4)))
__CPROVER_assigns(self->_p, self->_sz, self->_compressed, LED_RELEASE_FRAME, g_lz4_in, g_lz4_in_size, g_lz4_out, g_lz4_out_size, g_lz4_ret, g_lz4_calls)
__CPROVER_frees(self->_p)
/* D1 too short for a compression header: error, the table keeps its borrow */
__CPROVER_ensures(g_sz0 < 20 ==> (__CPROVER_return_value._e != 0 && UNCHANGED(self) && g_lz4_calls == 0))
/* D2 scheme 0: not compressed */
__CPROVER_ensures((g_sz0 >= 20 && SCHEME == 0) ==> (__CPROVER_return_value._e == 0 && UNCHANGED(self) && g_lz4_calls == 0))
/* D3 unknown scheme: error, empty table */
__CPROVER_ensures((g_sz0 >= 20 && SCHEME > 1) ==> (__CPROVER_return_value._e != 0 && self->_p == 0 && g_lz4_calls == 0))
/* D4 LZ4: the decoder sees exactly the payload and exactly the announced size */
__CPROVER_ensures(g_lz4_calls <= 1 && (g_lz4_calls == 1 ==> (g_sz0 >= 20 && SCHEME == 1 && g_lz4_in == g_p0 + 8 && g_lz4_in_size == g_sz0 - 8 && g_lz4_out_size == SIZE27)))
/* D5 accepted only if the decoded length is the announced size and the version word survives */
__CPROVER_ensures((g_sz0 >= 20 && SCHEME == 1 && __CPROVER_return_value._e == 0) ==> (g_lz4_calls == 1 && g_lz4_ret >= 0 && (size_t)g_lz4_ret == SIZE27
        && self->_p == g_lz4_out && self->_sz == SIZE27 && self->_compressed && DEREF(BE32(self->_p) == g_ver0)))
__CPROVER_ensures((g_sz0 >= 20 && SCHEME == 1 && __CPROVER_return_value._e != 0) ==> self->_p == 0)
/* D6 whenever the table is replaced (scheme != 0) the borrow was returned exactly once and the new state is owned-or-empty */
__CPROVER_ensures((g_sz0 >= 20 && SCHEME != 0) ==> (OLD_RELEASED(self) && self->_compressed && (self->_p == 0 ==> self->_sz == 0)))
__CPROVER_ensures(TS_LEDGER(self, g_slot) && DEREF(TS_OWNED(self)));

static Error Table_decompress_g(Table *self) { Error e = Table_decompress(self); g_dec_calls++; return e; }

void Table_ctor(Table *self, const Face *face, const Tag n, uint32 version)
__CPROVER_requires(__CPROVER_r_ok(face, sizeof(Face)) && g_led.next == 0 && g_led.gets == 0 && g_led.rels == 0 && !g_led.b[0].out && !g_led.b[1].out && g_slot == 0 && g_dec_calls == 0 && g_lz4_calls == 0)
__CPROVER_requires(g_led.b[0].ptr == NULL || (__CPROVER_r_ok(g_led.b[0].ptr, g_led.b[0].n) && OFF(g_led.b[0].ptr) == 0 && __CPROVER_DYNAMIC_OBJECT(g_led.b[0].ptr)))
__CPROVER_requires(g_led.b[0].ptr == g_p0 && g_led.b[0].n == g_sz0 && !g_c0 && g_rels0 == 0)
__CPROVER_requires(g_led.b[0].ptr == NULL || g_sz0 < 8 || (g_ver0 == BE32(g_p0) && g_hdr0 == BE32(g_p0 + 4)))
__CPROVER_assigns(*self, g_led.next, g_led.gets, LED_RELEASE_FRAME, g_check_ok, g_dec_calls, g_lz4_in, g_lz4_in_size, g_lz4_out, g_lz4_out_size, g_lz4_ret, g_lz4_calls)
__CPROVER_frees(g_led.b[0].ptr)
__CPROVER_ensures(self->_f == face && g_led.next == 1)                                           /* exactly one get_table call */
__CPROVER_ensures((g_p0 == NULL || !g_check_ok) ==> (self->_p == 0 && self->_sz == 0 && !self->_compressed && g_dec_calls == 0
        && g_led.rels == ((g_p0 != NULL && HASREL(face)) ? 1u : 0u)))                           /* a refused table is released before the constructor returns */
__CPROVER_ensures((g_p0 != NULL && g_check_ok) ==> g_dec_calls == (g_ver0 >= version ? 1u : 0u))
__CPROVER_ensures((g_p0 != NULL && g_check_ok && g_ver0 < version) ==> (self->_p == g_p0 && self->_sz == g_sz0 && !self->_compressed && g_led.rels == 0))
__CPROVER_ensures(self->_compressed ==> g_dec_calls == 1)                                      /* only decompress creates an owned block (its contract: c16_decompress) */
__CPROVER_ensures(TS_LEDGER(self, 0));

void Table_default_ctor(Table *self)
__CPROVER_assigns(*self)
__CPROVER_ensures(self->_f == 0 && self->_p == 0 && self->_sz == 0 && !self->_compressed);

void Table_move_ctor(Table *self, Table *rhs)
__CPROVER_requires(self != rhs && rhs->_p == g_rp0 && rhs->_sz == g_rsz0 && rhs->_compressed == g_rc0 && rhs->_f == g_rf0)
__CPROVER_assigns(*self, rhs->_p)
__CPROVER_ensures(self->_f == g_rf0 && self->_p == g_rp0 && self->_sz == g_rsz0 && self->_compressed == g_rc0)   /* everything, the ownership flag included */
__CPROVER_ensures(rhs->_p == 0);                                                                                  /* the source will release nothing */

Table *Table_move_assign(Table *self, Table *rhs)
__CPROVER_requires(__CPROVER_r_ok(self->_f, sizeof(Face)) && g_slot == 0 && TS(self, 0) && SNAP(self))
__CPROVER_requires(self == rhs || (rhs->_f == self->_f && TS(rhs, 1) && (OWNED(rhs) ==> !SAME(rhs->_p, self->_p))))
__CPROVER_requires(rhs->_p == g_rp0 && rhs->_sz == g_rsz0 && rhs->_compressed == g_rc0 && rhs->_f == g_rf0)
__CPROVER_assigns(*self, rhs->_p, LED_RELEASE_FRAME)
__CPROVER_frees(self->_p)
__CPROVER_ensures(__CPROVER_return_value == self)
__CPROVER_ensures(self == rhs ==> UNCHANGED(self))
__CPROVER_ensures(self != rhs ==> (OLD_RELEASED(self) && ((g_c0 && g_p0 != NULL) ==> __CPROVER_was_freed(__CPROVER_old(self->_p)))))   /* what the target held is given back first */
__CPROVER_ensures(self != rhs ==> (self->_f == g_rf0 && self->_p == g_rp0 && self->_sz == g_rsz0 && self->_compressed == g_rc0 && rhs->_p == 0 && TS(self, 1)));

void Table_dtor(Table *self)
__CPROVER_requires(__CPROVER_r_ok(self->_f, sizeof(Face)) && g_slot < NB && TS(self, g_slot) && SNAP(self))
__CPROVER_assigns(self->_p, self->_sz, LED_RELEASE_FRAME)
__CPROVER_frees(self->_p)
__CPROVER_ensures(OLD_RELEASED(self) && self->_p == 0)
__CPROVER_ensures((g_c0 && g_p0 != NULL) ==> __CPROVER_was_freed(__CPROVER_old(self->_p)));

/* ------------------------------------------------------------------ extracted code */
/*@include endian.tc@*/
/*@extract {'file':'src/inc/Error.h', 'scope': r'class Error\s*\{', 'sig': r'Error\(\)', 'ctor': True, 'emit':'static void Error_ctor(Error *self)', 'self':['_e']}@*/
/*@extract {'file':'src/inc/Error.h', 'scope': r'class Error\s*\{', 'sig': r'operator bool\(\)', 'emit':'static bool Error_bool(Error *self)', 'self':['_e']}@*/
/*@extract {'file':'src/inc/Error.h', 'scope': r'class Error\s*\{', 'sig': r'void error\(int e\)', 'emit':'static void Error_set(Error *self, int e)', 'self':['_e']}@*/
/*@extract {'file':'src/inc/Error.h', 'scope': r'class Error\s*\{', 'sig': r'bool test\(bool pr, int err\)', 'emit':'static bool Error_test(Error *self, bool pr, int err)', 'self':['_e']}@*/
/*@extract {'file':'src/inc/Main.h', 'sig': r'bool checked_mul\(const size_t a, const size_t b, size_t & t\)\s*(?=\{\s*return __builtin_mul_overflow)',
            'emit':'static bool checked_mul(const size_t a, const size_t b, size_t *t)', 'refs':['t']}@*/
/*@extract {'file':'src/inc/Main.h', 'sig': r'template <typename T> T \* gralloc\(size_t n\)', 'emit':'static byte *gralloc_byte(size_t n)', 'casts': True,
            'subs':[[r'checked_mul\(n, sizeof\(T\), total\)', 'checked_mul(n, sizeof(T), &total)', 0], [r'\bT\b', 'byte', 0]]}@*/

/*@extract {'file':'src/TtfUtil.cpp', 'kind':'range', 'scope': r'bool CheckTable\(const Tag TableId, const void \* pTable, size_t lTableSize\)', 'start': r'if \(pTable == 0 \|\| lTableSize < 4\)', 'end': r';', 'end_inclusive': True,
            'pre':'bool CheckTable_guard(const void *pTable, size_t lTableSize)\n{\n    ', 'post':'\n    return true;\n}\n'}@*/

/*@extract {'file':'src/Face.cpp', 'sig': r'void Face::Table::release\(\)', 'emit':'void Table_release(Table *self)', 'casts': True,
            'subs':[[r'\(\*_f->m_ops\.release_table\)\(_f->m_appFaceHandle, ', 'CB_release_table(_f, ', 0]],
            'self':['_f','_p','_sz','_compressed']}@*/

/*@extract {'file':'src/inc/Face.h', 'sig': r'Face::Table::Table\(\) throw\(\)', 'ctor': True, 'emit':'void Table_default_ctor(Table *self)', 'self':['_f','_p','_sz','_compressed']}@*/
/*@extract {'file':'src/inc/Face.h', 'sig': r'Face::Table::Table\(const Table && rhs\) throw\(\)', 'ctor': True, 'emit':'void Table_move_ctor(Table *self, Table *rhs)',
            'subs':[[r'rhs\.', 'rhs->', 0]], 'self':['_f','_p','_sz','_compressed']}@*/
/*@extract {'file':'src/inc/Face.h', 'sig': r'Face::Table::~Table\(\) throw\(\)', 'emit':'void Table_dtor(Table *self)', 'subs':[[r'release\(\)', 'Table_release(self)', 0]]}@*/

/*@extract {'file':'src/Face.cpp', 'sig': r'Face::Table & Face::Table::operator = \(const Table && rhs\) throw\(\)', 'emit':'Table *Table_move_assign(Table *self, Table *rhs)',
            'subs':[[r'this == &rhs', 'self == rhs', 0], [r'return \*this;', 'return self;', 0], [r'release\(\)', 'Table_release(self)', 0],
                    [r'new \(this\) Table\(std::move\(rhs\)\)', 'Table_move_ctor(self, rhs)', 0]]}@*/

/*@extract {'file':'src/Face.cpp', 'sig': r'Error Face::Table::decompress\(\)', 'emit':'Error Table_decompress(Table *self)', 'casts': True,
            'subs':[[r'Error e;', 'Error e; Error_ctor(&e);', 0], [r'\be\.test\(', 'Error_test(&e, ', 0], [r'\be\.error\(', 'Error_set(&e, ', 0],
                    [r'if \(!e\)', 'if (!Error_bool(&e))', 0], [r'if \(e\)', 'if (Error_bool(&e))', 0],
                    [r'be::read<uint32>\(p\)', 'be_read_uint32(&p)', 0], [r'be::peek<uint32>\(', 'be_peek_uint32(', 0],
                    [r'gralloc<byte>\(', 'gralloc_byte(', 0], [r'lz4::decompress\(', 'lz4_decompress_g(', 0], [r'release\(\)', 'Table_release(self)', 0]],
            'self':['_f','_p','_sz','_compressed']}@*/

/*@extract {'file':'src/Face.cpp', 'sig': r'Face::Table::Table\(const Face & face, const Tag n, uint32 version\) throw\(\)', 'ctor': True,
            'emit':'void Table_ctor(Table *self, const Face *face, const Tag n, uint32 version)', 'casts': True,
            'subs':[[r'&face\b', 'face', 0], [r'\(\*_f->m_ops\.get_table\)\(_f->m_appFaceHandle, ', 'CB_get_table(_f, ', 0],
                    [r'TtfUtil::CheckTable', 'CheckTable', 0], [r'release\(\)', 'Table_release(self)', 0], [r'decompress\(\)', 'Table_decompress_g(self)', 0],
                    [r'be::peek<uint32>\(', 'be_peek_uint32(', 0]],
            'self':['_f','_p','_sz','_compressed']}@*/

/* ------------------------------------------------------------------ harnesses */
#ifdef WITNESS
#define WB 24
#define SZMAX WB
#else
#define SZMAX MAXN
#endif

static Face *mk_face(bool has_release)
{
    Face *face = malloc(sizeof(Face)); __CPROVER_assume(face != NULL);
    face->m_ops.get_table = NULL; face->m_ops.release_table = has_release ? client_release : NULL; face->m_appFaceHandle = face;
    return face;
}
static void ledger_reset(void)
{
    g_led.b[0].ptr = g_led.b[1].ptr = NULL; g_led.b[0].n = g_led.b[1].n = 0; g_led.b[0].out = g_led.b[1].out = 0;
    g_led.next = 0; g_led.gets = g_led.rels = 0; g_dec_calls = 0; g_lz4_calls = 0; g_rels0 = 0;
}
/* a table the client owns: exact-size object */
static byte *client_table(size_t n) { byte *p = malloc(n); __CPROVER_assume(p != NULL); return p; }
/* a Table in an arbitrary state satisfying TS for slot k: empty / borrowed / owning a decompressed block */
static Table *mk_table(const Face *face, unsigned k)
{
    Table *t = malloc(sizeof(Table)); __CPROVER_assume(t != NULL);
    const unsigned kind = nondet_unsigned() % 3;
    size_t n = nondet_size_t(); __CPROVER_assume(n <= SZMAX);
    t->_f = face;
    if (kind == 0) { t->_p = NULL; t->_sz = 0; t->_compressed = nondet_bool(); }
    else if (kind == 1) { byte *b = client_table(n); g_led.b[k].ptr = b; g_led.b[k].n = n; g_led.b[k].out = 1; g_led.gets++; t->_p = b; t->_sz = n; t->_compressed = 0; }
    else { byte *b = malloc(n); __CPROVER_assume(b != NULL); t->_p = b; t->_sz = n; t->_compressed = 1; }
    return t;
}
static void snap(const Table *t) { g_p0 = t->_p; g_sz0 = t->_sz; g_c0 = t->_compressed; g_rels0 = g_led.rels; }
static void snap_rhs(const Table *t) { g_rp0 = t->_p; g_rsz0 = t->_sz; g_rc0 = t->_compressed; g_rf0 = t->_f; }

#ifdef UNIT_c16_checktable_guard
void h_guard(void)
{
    size_t n = nondet_size_t(); __CPROVER_assume(n <= 64);
    bool r = CheckTable_guard(nondet_bool() ? NULL : malloc(n), nondet_size_t());
    (void)r;
    CANARY();
}
#endif

#ifdef UNIT_c16_release
void h_release(void)
{
    ledger_reset();
    Face *face = mk_face(nondet_bool());
    g_slot = nondet_bool();
    Table *t = mk_table(face, g_slot);
    snap(t);
    Table_release(t);
    CANARY();
}
#endif

#ifdef UNIT_c16_dtor
void h_dtor(void)
{
    ledger_reset();
    Face *face = mk_face(nondet_bool());
    g_slot = nondet_bool();
    Table *t = mk_table(face, g_slot);
    snap(t);
    Table_dtor(t);
    CANARY();
}
#endif

#ifdef UNIT_c16_move_ctor
void h_move_ctor(void)
{
    ledger_reset();
    Face *face = mk_face(nondet_bool());
    Table *rhs = mk_table(face, 0);
    Table *t = malloc(sizeof(Table)); __CPROVER_assume(t != NULL);
    snap_rhs(rhs);
    Table_move_ctor(t, rhs);
    CANARY();
}
#endif

#ifdef UNIT_c16_move_assign
void h_move_assign(void)
{
    ledger_reset();
    Face *face = mk_face(nondet_bool());
    g_slot = 0;
    Table *t = mk_table(face, 0);
    Table *rhs = nondet_bool() ? t : mk_table(face, 1);
    snap(t); snap_rhs(rhs);
    Table *r = Table_move_assign(t, rhs);
    (void)r;
    CANARY();
}
#endif

/* a client table of w_sz bytes in an exact-size object; in WITNESS builds its first bytes come from w_b */
#ifdef WITNESS
#define CLIENT_TABLE(tbl, w_sz) byte *tbl = client_table(w_sz); unsigned char w_b[WB]; for (int i_ = 0; i_ < WB; ++i_) if ((size_t)i_ < (w_sz)) tbl[i_] = w_b[i_];
#else
#define CLIENT_TABLE(tbl, w_sz) byte *tbl = client_table(w_sz);
#endif

#ifdef UNIT_c16_decompress
void h_decompress(void)
{
    ledger_reset();
    bool w_has_release = nondet_bool();
    Face *face = mk_face(w_has_release);
    size_t w_sz = nondet_size_t(); __CPROVER_assume(w_sz <= SZMAX);
    CLIENT_TABLE(tbl, w_sz)
    g_slot = nondet_bool();
    g_led.b[g_slot].ptr = tbl; g_led.b[g_slot].n = w_sz; g_led.b[g_slot].out = 1; g_led.gets = 1;
    Table *t = malloc(sizeof(Table)); __CPROVER_assume(t != NULL);
    t->_f = face; t->_p = tbl; t->_sz = w_sz; t->_compressed = 0;
    snap(t);
    if (w_sz >= 8) { g_ver0 = BE32(tbl); g_hdr0 = BE32(tbl + 4); }
    Error e = Table_decompress(t);
    int w_lz4_ret = g_lz4_ret; (void)w_lz4_ret;
    const bool accepted = e._e == 0 && t->_compressed && t->_p != NULL;
    /* the caller's duties, so that the leak check sees only what decompress itself left behind */
    if (t->_compressed && t->_p) free((void *)t->_p);
    if (g_led.b[g_slot].out) free((void *)g_led.b[g_slot].ptr);
    free(t); free(face);
    if (accepted) CANARY();                   /* vacuity guard on the deepest path: an LZ4 table was accepted */
}
#endif

#ifdef UNIT_c16_ctor
void h_ctor(void)
{
    ledger_reset();
    Face *face = mk_face(nondet_bool());
    size_t w_sz = nondet_size_t(); __CPROVER_assume(w_sz <= SZMAX);
    const bool absent = nondet_bool();
    byte *tbl = absent ? NULL : client_table(w_sz);
    g_led.b[0].ptr = tbl; g_led.b[0].n = w_sz;
    g_p0 = tbl; g_sz0 = w_sz; g_c0 = 0; g_slot = 0;
    if (tbl && w_sz >= 4) g_ver0 = BE32(tbl);
    if (tbl && w_sz >= 8) g_hdr0 = BE32(tbl + 4);
    Table *t = malloc(sizeof(Table)); __CPROVER_assume(t != NULL);
    t->_compressed = nondet_bool();
    Table_ctor(t, face, nondet_unsigned(), nondet_unsigned());
    CANARY();
}
#endif

#ifdef UNIT_c16_lifecycle
void h_lifecycle(void)
{
    ledger_reset();
    bool w_has_release = nondet_bool();
    Face *face = mk_face(w_has_release);
    size_t w_sz = nondet_size_t(); __CPROVER_assume(w_sz <= SZMAX);
    const bool absent = nondet_bool();
    byte *tbl = NULL;
#ifdef WITNESS
    unsigned char w_b[WB];
#endif
    if (!absent) {
        tbl = client_table(w_sz);
#ifdef WITNESS
        for (int i_ = 0; i_ < WB; ++i_) if ((size_t)i_ < w_sz) tbl[i_] = w_b[i_];
#endif
    }
    g_led.b[0].ptr = tbl; g_led.b[0].n = w_sz; g_slot = 0;
    unsigned w_path = nondet_unsigned() % 4;
    Table *t = malloc(sizeof(Table)), *u = malloc(sizeof(Table)), *v = malloc(sizeof(Table)); __CPROVER_assume(t && u && v);
    t->_compressed = nondet_bool(); u->_compressed = nondet_bool(); v->_compressed = nondet_bool();
    /* Face::Table x(face, tag, version) */
    Table_ctor(t, face, nondet_unsigned(), nondet_unsigned());
    int w_lz4_ret = g_lz4_ret; (void)w_lz4_ret;
    const bool accepted = t->_compressed && t->_p != NULL;
    Table_default_ctor(u);
    if (w_path == 1) {                       /* m_pGlat = Face::Table(face, Tag::Glat, ..): temporary moved into an empty member, temporary destroyed */
        Table_move_assign(u, t);
        Table_dtor(t);
        Table_dtor(u);
    } else if (w_path == 2) {                /* Table y(std::move(x)) */
        Table_move_ctor(v, t);
        Table_dtor(t);
        Table_dtor(v);
        Table_dtor(u);
    } else if (w_path == 3) {                /* _head = Face::Table(): the Loader's way of dropping a table on failure */
        Table_move_assign(t, u);
        Table_dtor(u);
        Table_dtor(t);
    } else {
        Table_dtor(t);
        Table_dtor(u);
    }
    /* borrow discipline at quiescence */
    __CPROVER_assert(g_led.next == 1, "exactly one get_table call");
    if (w_has_release) {
        __CPROVER_assert(g_led.rels == g_led.gets, "every table obtained from get_table was passed to release_table exactly once");
        __CPROVER_assert(!g_led.b[0].out, "nothing is outstanding after the last Table is destroyed");
    } else {
        __CPROVER_assert(g_led.rels == 0, "no release_table: nothing is released");
        if (g_led.b[0].out) free((void *)tbl);                 /* the client keeps ownership: not a library leak */
    }
    free(t); free(u); free(v); free(face);
    if (accepted && w_path == 1) CANARY();    /* vacuity guard on the deepest path: a decompressed table moved into another Table, both destroyed */
}
#endif
