/* C13 - characters map to the glyphs the cmap assigns, by either lookup path.
 * Functions under contract (extracted from /repo on every run):
 *   TtfUtil::CheckCmapSubtable4/12, CmapSubtable4Lookup, CmapSubtable12Lookup,
 *   CmapSubtable4NextCodepoint, CmapSubtable12NextCodepoint                                   src/TtfUtil.cpp
 *   bmp_subtable, smp_subtable, cache_subtable<Next,Lookup>, CachedCmap::CachedCmap,
 *   CachedCmap::operator[], DirectCmap::operator[]                                            src/CmapCache.cpp
 *   Silf::findPseudo (src/Silf.cpp), Face::findPseudo, Face::chooseSilf (src/Face.cpp),
 *   gr_face_is_char_supported (src/gr_face.cpp), the gid selection of process_utf_data (src/Segment.cpp)
 *   Sfnt::CmapSubTable, CmapSubTableFormat4, CmapSubTableFormat12 (struct text)               src/inc/TtfTypes.h
 *   be::swap<uint16|uint32|int32> (and peek/read via endian.tc)                               src/inc/Endian.h
 *
 * "The table is ordered" (OpenType: segments / groups sorted by code, not overlapping) appears in the contracts only through
 * INSTANCES at concrete index pairs (ORD4(i,j), NONEMPTY4(i), SORTED4_AT(i,j), ...): a clause `H(i,j) ==> C` proved here for the
 * indices the argument needs holds a fortiori for every table that is ordered at all pairs.  The lemma units over contracts
 * (c13_fill*, defines ASSUME_SORTED) instantiate: there every instance macro is the ghost boolean g_sorted ("ordered at all pairs").
 *
 * Units that FAIL on a tree with the three cached-path defects found while building these units (each confirmed on the real code by
 * replay/c13_cmap.cpp; every other unit passes):
 *   c13_fill4_cover / c13_fill12_cover  cache_subtable.loop_invariant_step.6   cache_subtable never stores U+0001 when the first segment/group starts at U+0000
 *   c13_cached_ctor_bmp                 CachedCmap_ctor.postcondition.2        BMP code points mapped only by the format 12 subtable keep the format 12 glyph
 *   c13_cached_ctor_last                CachedCmap_ctor.postcondition.[23]     U+FFFF / U+10FFFF are never stored (fill loop: codePoint < limit)
 */
#include "types.h"

/*@unit {'name':'c13_check4', 'props':['C13','C01'], 'entry':'h_check4', 'enforce':'CheckCmapSubtable4',
  'claims':'CheckCmapSubtable4 on an exact-size buffer of any length and content: reads stay inside the buffer, nothing is written, and it returns true exactly when the representation predicate CMAP4_WF holds (format 4, 16+8*segCount <= length <= available bytes, segCount >= 1, endCode[segCount-1] == 0xFFFF)'}@*/
/*@unit {'name':'c13_lookup4', 'props':['C13','C01'], 'entry':'h_lookup4', 'enforce':'CmapSubtable4Lookup', 'min_loops':1, 'defines':['KEY0'], 'backend':'cadical', 'cost':120,
  'replay':'c13_cmap', 'witness_defines':['WITNESS','KEY0'], 'witness_vars':['w_len','w_b','w_c','w_key'],
  'claims':'CmapSubtable4Lookup, full search (range key 0, the direct path), on any well-formed format 4 subtable in an exact-size buffer (length symbolic up to 65535, any segment count) and any code point: all reads inside the subtable, nothing written, the binary search terminates; 0 above U+FFFF; else the selected segment m satisfies endCode[m-1] < c <= endCode[m], and m is the first segment whose endCode >= c whenever the endCode array is increasing at the two index pairs involved'}@*/
/*@unit {'name':'c13_lookup4_gid', 'props':['C13'], 'entry':'h_lookup4', 'enforce':'CmapSubtable4Lookup', 'min_loops':1, 'defines':['KEY0'], 'backend':'cadical', 'cost':100,
  'no_checks':['--bounds-check','--pointer-check','--div-by-zero-check','--signed-overflow-check','--undefined-shift-check','--pointer-primitive-check'],
  'replay':'c13_cmap', 'witness_defines':['WITNESS','KEY0'], 'witness_vars':['w_len','w_b','w_c','w_key'],
  'claims':'CmapSubtable4Lookup, full search, second half of the contract (same function, same preconditions as c13_lookup4, where the safety checks are discharged): the result equals GID4(m,c) for the selected segment m: 0 below startCode[m], (c+idDelta) mod 65536 when idRangeOffset is 0, else the glyphIdArray cell at &idRangeOffset[m] + idRangeOffset[m]/2 + (c-startCode[m]): 0 if outside the subtable or holding 0 (idDelta not applied), else (cell+idDelta) mod 65536'}@*/
/*@unit {'name':'c13_lookup4_hint', 'props':['C13','C01'], 'entry':'h_lookup4', 'enforce':'CmapSubtable4Lookup', 'backend':'cadical', 'cost':60,
  'replay':'c13_cmap', 'witness_defines':['WITNESS'], 'witness_vars':['w_len','w_b','w_c','w_key'],
  'claims':'CmapSubtable4Lookup with a non-zero range key in [1,segCount) (the cached path, key from CmapSubtable4NextCodepoint): reads inside the subtable, nothing written, result = GID4(key,c) if c <= endCode[key] (0 below startCode[key]), else 0'}@*/
/*@unit {'name':'c13_next4', 'props':['C13','C01'], 'entry':'h_next4', 'enforce':'CmapSubtable4NextCodepoint', 'min_loops':2, 'backend':'cadical', 'cost':60,
  'claims':'CmapSubtable4NextCodepoint on any well-formed format 4 subtable (exact-size buffer), any previous code point and any range key in [0,segCount): reads inside the subtable, writes only *pRangeKey, both scans terminate; the new key is again in [0,segCount) (so the iteration of cache_subtable keeps the precondition); the returned code point lies in segment key (unless that segment is empty) and key is the only segment containing it, it is larger than the previous one (unless two segments overlap), and no code point of any segment lies strictly between the previous and the returned one (given the segments are ordered at the index pairs involved) - i.e. the iteration used to fill the cache skips no mapped character'}@*/
/*@unit {'name':'c13_check12', 'props':['C13','C01'], 'entry':'h_check12', 'enforce':'CheckCmapSubtable12',
  'claims':'CheckCmapSubtable12 on an exact-size buffer of any length and content: reads stay inside the buffer, nothing is written, and it returns true exactly when CMAP12_WF holds (format 12, 1 <= numGroups <= 0x10000000, length == 16+12*numGroups <= available bytes)'}@*/
/*@unit {'name':'c13_lookup12', 'props':['C13','C01'], 'entry':'h_lookup12', 'enforce':'CmapSubtable12Lookup', 'min_loops':1, 'backend':'cadical', 'cost':60,
  'replay':'c13_cmap', 'witness_defines':['WITNESS'], 'witness_vars':['w_len','w_b','w_c','w_key'],
  'claims':'CmapSubtable12Lookup on any well-formed format 12 subtable in an exact-size buffer (any number of groups), any code point, any range key in [0,numGroups]: reads inside the subtable, nothing written, the scan terminates; the result is (uint16)(startGlyphID[m] + c - startCharCode[m]) for the first group m >= key that contains c, and 0 if no such group exists'}@*/
/*@unit {'name':'c13_next12_least', 'props':['C13'], 'entry':'h_next12', 'enforce':'CmapSubtable12NextCodepoint', 'min_loops':2, 'backend':'cadical', 'cost':100,
  'no_checks':['--bounds-check','--pointer-check','--div-by-zero-check','--signed-overflow-check','--undefined-shift-check','--pointer-primitive-check'],
  'claims':'CmapSubtable12NextCodepoint, second half of the contract (same function and preconditions as c13_next12; the safety checks are discharged there): no code point of any group lies strictly between the previous and the returned code point, and the returned key is the only group containing the returned code point, given the groups are ordered at the index pairs involved - the iteration that fills the cache skips no mapped character'}@*/
/*@unit {'name':'c13_next12', 'props':['C13','C01'], 'entry':'h_next12', 'enforce':'CmapSubtable12NextCodepoint', 'min_loops':2, 'backend':'cadical', 'cost':100,
  'claims':'CmapSubtable12NextCodepoint on any well-formed format 12 subtable (exact-size buffer), any previous code point, any range key in [0,numGroups): reads inside the subtable, writes only *pRangeKey, both scans terminate; the new key is in [0,numGroups] and equals numGroups only together with the end marker 0x10FFFF; the returned code point lies in group key (unless that group is empty), is larger than the previous one (unless two groups overlap)'}@*/
/*@unit {'name':'c13_step4', 'props':['C13'], 'entry':'h_step4', 'backend':'cvc5', 'no_checks':['--bounds-check','--pointer-check','--div-by-zero-check','--signed-overflow-check','--undefined-shift-check','--pointer-primitive-check'], 'replace':['CmapSubtable4NextCodepoint','CmapSubtable4Lookup'],
  'claims':'per-step lemma over the contracts (format 4): for the code point c and key produced by CmapSubtable4NextCodepoint, the hinted lookup Lookup(c,key) that fills the cache equals the full lookup Lookup(c,0) of the direct path, given the segments are ordered at the index pairs involved'}@*/
/*@unit {'name':'c13_step12', 'props':['C13'], 'entry':'h_step12', 'backend':'cvc5', 'cost':100, 'no_checks':['--bounds-check','--pointer-check','--div-by-zero-check','--signed-overflow-check','--undefined-shift-check','--pointer-primitive-check'], 'replace':['CmapSubtable12NextCodepoint','CmapSubtable12Lookup'],
  'claims':'per-step lemma over the contracts (format 12): Lookup(c,key) == Lookup(c,0) for the code point and key produced by CmapSubtable12NextCodepoint, given no earlier group contains c (groups ordered at the pair involved)'}@*/
/*@unit {'name':'c13_direct', 'props':['C13'], 'entry':'h_direct', 'backend':'cvc5', 'enforce':'DirectCmap_lookup', 'replace':['CmapSubtable4Lookup','CmapSubtable12Lookup'],
  'claims':'DirectCmap::operator[]: plane split - code points above U+FFFF are answered by the format 12 subtable (0 if the face has none), all others by the format 4 subtable; the preconditions of both lookups hold at the call sites (subtables validated by bmp_subtable/smp_subtable, key 0); nothing is written'}@*/
/*@unit {'name':'c13_subtables', 'props':['C13'], 'entry':'h_subtables', 'enforce':['bmp_subtable','smp_subtable'], 'replace':['FindCmapSubtable','CheckCmapSubtable4','CheckCmapSubtable12'], 'defines':['STUB_CHECKS'],
  'claims':'bmp_subtable / smp_subtable: the subtable chosen is the first one, in the order (3,1),(0,3),(0,2),(0,1),(0,0) resp. (3,10),(0,4) of (platform, encoding), that exists and passes CheckCmapSubtable4 resp. 12 against the end of the cmap table; NULL if there is none or the table is empty; a non-NULL result has passed its check'}@*/
/*@unit {'name':'c13_find', 'props':['C13','C01'], 'entry':'h_find', 'enforce':'FindCmapSubtable', 'min_loops':1, 'defines':['FIND'],
  'claims':'FindCmapSubtable on a cmap table of any content in an exact-size buffer (12 <= size <= MAXN, as CheckTable guarantees), any platform / encoding id (including -1): all reads inside the table, nothing written, the scan terminates; only the FIRST encoding record that matches is considered; a non-NULL result is table + the offset field of that record, with at least 2 bytes (format 4: 4, format 12: 6) before the end of the table'}@*/
/*@unit {'name':'c13_cached_get', 'props':['C13','C01'], 'entry':'h_cached_get', 'enforce':'CachedCmap_lookup',
  'claims':'CachedCmap::operator[] for every 32-bit usv: the block index is below the number of allocated block pointers (0x100 when BMP only, else 0x1100), the entry index below 0x100; returns m_blocks[usv>>8][usv&0xFF], 0 for an absent block, for usv > 0x10FFFF and for usv > 0xFFFF when BMP only; nothing is written'}@*/
/*@unit {'name':'c13_fill4', 'props':['C13','C01'], 'entry':'h_fill', 'no_checks':['--bounds-check','--pointer-check','--div-by-zero-check','--signed-overflow-check','--undefined-shift-check','--pointer-primitive-check'], 'enforce':'cache_subtable', 'min_loops':1, 'defines':['FMT=4','ASSUME_SORTED'], 'backend':'cvc5', 'cost':80,
  'replace':['CmapSubtable4NextCodepoint','CmapSubtable4Lookup','cache_has_block','cache_alloc_block','cache_store'],
  'claims':'cache_subtable<format 4> over the proved contracts of NextCodepoint/Lookup (the unit performs no table or cache access of its own - the three accesses to blocks[] are accessor stubs whose preconditions are the memory-safety conditions - so the built-in pointer checks, which would only re-check the spec functions, are off): every block index used is below 0x100, a store only goes into a present block, the loop terminates (also for unordered tables: prevCodePoint strictly increases); for an ordered table every code point g_x != U+0001 below the limit that lies in a segment is stored with the value GID4(segment, g_x) = the direct lookup, and only code points of segments are stored (the rest of the zero-filled cache means unmapped)'}@*/
/*@unit {'name':'c13_fill4_cover', 'props':['C13'], 'entry':'h_fill', 'no_checks':['--bounds-check','--pointer-check','--div-by-zero-check','--signed-overflow-check','--undefined-shift-check','--pointer-primitive-check'], 'enforce':'cache_subtable', 'min_loops':1, 'defines':['FMT=4','ASSUME_SORTED','COVER_ONE'], 'backend':'cvc5', 'cost':80,
  'replace':['CmapSubtable4NextCodepoint','CmapSubtable4Lookup','cache_has_block','cache_alloc_block','cache_store'],
  'replay':'c13_cmap', 'witness_defines':['FMT=4','ASSUME_SORTED','COVER_ONE'], 'witness_vars':['w_x'],
  'claims':'the same coverage clause for the code point U+0001 (fails on a tree where cache_subtable skips U+0001 after caching U+0000)'}@*/
/*@unit {'name':'c13_fill12', 'props':['C13','C01'], 'entry':'h_fill', 'no_checks':['--bounds-check','--pointer-check','--div-by-zero-check','--signed-overflow-check','--undefined-shift-check','--pointer-primitive-check'], 'enforce':'cache_subtable', 'min_loops':1, 'defines':['FMT=12','ASSUME_SORTED'], 'backend':'cvc5', 'cost':80,
  'replace':['CmapSubtable12NextCodepoint','CmapSubtable12Lookup','cache_has_block','cache_alloc_block','cache_store'],
  'claims':'cache_subtable<format 12> over the proved contracts: every block index used is below 0x1100, a store only goes into a present block, the loop terminates; for ordered groups every code point g_x != U+0001 below the limit that lies in a group is stored with its format 12 glyph, and only code points of groups are stored'}@*/
/*@unit {'name':'c13_fill12_cover', 'props':['C13'], 'entry':'h_fill', 'no_checks':['--bounds-check','--pointer-check','--div-by-zero-check','--signed-overflow-check','--undefined-shift-check','--pointer-primitive-check'], 'enforce':'cache_subtable', 'min_loops':1, 'defines':['FMT=12','ASSUME_SORTED','COVER_ONE'], 'backend':'cvc5', 'cost':80,
  'replace':['CmapSubtable12NextCodepoint','CmapSubtable12Lookup','cache_has_block','cache_alloc_block','cache_store'],
  'replay':'c13_cmap', 'witness_defines':['FMT=12','ASSUME_SORTED','COVER_ONE'], 'witness_vars':['w_x'],
  'claims':'the same coverage clause for the code point U+0001, format 12'}@*/
/*@unit {'name':'c13_cached_ctor', 'props':['C13'], 'entry':'h_ctor', 'enforce':'CachedCmap_ctor', 'replace':['Face_cmap_table','bmp_subtable','smp_subtable','grzeroalloc_blocks','cache_subtable_4','cache_subtable_12'], 'defines':['CTOR'],
  'replay':'c13_cmap', 'witness_defines':['CTOR'], 'witness_vars':['w_x'],
  'claims':'CachedCmap::CachedCmap over the contract of cache_subtable (c13_fill*): 0x1100 block pointers are allocated exactly when a format 12 subtable exists (else 0x100) and each fill is called with a limit its block array covers; after a complete construction the entry of a BMP code point below U+FFFF that format 4 maps holds the format 4 glyph (the format 4 pass runs last), the entry of a code point in U+10000..U+10FFFE holds the format 12 glyph or 0'}@*/
/*@unit {'name':'c13_cached_ctor_bmp', 'props':['C13'], 'entry':'h_ctor', 'enforce':'CachedCmap_ctor', 'replace':['Face_cmap_table','bmp_subtable','smp_subtable','grzeroalloc_blocks','cache_subtable_4','cache_subtable_12'], 'defines':['CTOR','CTOR_BMP'],
  'replay':'c13_cmap', 'witness_defines':['CTOR','CTOR_BMP'], 'witness_vars':['w_x'],
  'claims':'CachedCmap::CachedCmap: a BMP code point that the format 4 subtable does not map has entry 0 (format 4 for the BMP, 0 when unmapped) - fails on a tree where the format 12 pass leaves its BMP entries in the cache'}@*/
/*@unit {'name':'c13_cached_ctor_last', 'props':['C13'], 'entry':'h_ctor', 'enforce':'CachedCmap_ctor', 'replace':['Face_cmap_table','bmp_subtable','smp_subtable','grzeroalloc_blocks','cache_subtable_4','cache_subtable_12'], 'defines':['CTOR','CTOR_LAST'],
  'replay':'c13_cmap', 'witness_defines':['CTOR','CTOR_LAST'], 'witness_vars':['w_x'],
  'claims':'CachedCmap::CachedCmap: the entries of U+FFFF and U+10FFFF hold the glyph of the format 4 resp. format 12 subtable - fails on a tree whose fill limits exclude the last code point'}@*/
/*@unit {'name':'c13_pseudo', 'props':['C13','C01'], 'entry':'h_pseudo', 'enforce':'Silf_findPseudo', 'min_loops':1,
  'claims':'Silf::findPseudo: reads only m_pseudos[0,m_numPseudo) (exact-size array, any count), writes nothing, terminates; returns the gid of the least-index entry whose uid equals the argument, 0 if there is none'}@*/
/*@unit {'name':'c13_fallback', 'props':['C13'], 'entry':'h_fallback', 'enforce':['gr_face_is_char_supported','initial_gid'], 'replace':['Cmap_lookup','Silf_findPseudo'],
  'claims':'the Silf pseudo-glyph fallback: gr_face_is_char_supported returns (cmap[usv] != 0 or findPseudo(usv) != 0) and never calls findPseudo on a NULL Silf (faces that loaded have at least one Silf); the glyph process_utf_data gives a new slot is cmap[usv], or findPseudo(usv) of the first Silf when the cmap has none'}@*/

typedef uint16 gid16;
typedef int32 fixed;

/* ------------------------------------------------------------------ the Sfnt structs, regenerated from TtfTypes.h */
#pragma pack(push,1)
/*@extract {'file':'src/inc/TtfTypes.h', 'kind':'range', 'start': r'struct CmapSubTable\s*\{', 'end': r'\};', 'end_inclusive': True, 'pre':'typedef ',
            'subs':[[r'\};', '} CmapSubTable;', 1]]}@*/
/*@extract {'file':'src/inc/TtfTypes.h', 'kind':'range', 'start': r'struct CmapSubTableFormat4 : CmapSubTable\s*\{', 'end': r'\};', 'end_inclusive': True, 'pre':'typedef ',
            'subs':[[r'struct CmapSubTableFormat4 : CmapSubTable\s*\{', 'struct CmapSubTableFormat4 { uint16 format, length, language; /* base class CmapSubTable */', 1], [r'\};', '} CmapSubTableFormat4;', 1]]}@*/
/*@extract {'file':'src/inc/TtfTypes.h', 'kind':'range', 'start': r'struct CmapSubTableFormat12\s*\{', 'end': r'\};', 'end_inclusive': True, 'pre':'typedef ',
            'subs':[[r'\};', '} CmapSubTableFormat12;', 1], [r'struct\s*\{', 'struct CmapGroup12 {', 1]]}@*/
/*@extract {'file':'src/inc/TtfTypes.h', 'kind':'range', 'start': r'struct CharacterCodeMap\s*\{', 'end': r'\};', 'end_inclusive': True, 'pre':'typedef ',
            'subs':[[r'\};', '} CharacterCodeMap;', 1], [r'struct\s*\{', 'struct CmapEncRec {', 1]]}@*/
#pragma pack(pop)
_Static_assert(sizeof(CharacterCodeMap) == 12 && offsetof(CharacterCodeMap, encoding) == 4 && sizeof(struct CmapEncRec) == 8, "packed Sfnt layout");
#define ENCREC(p, i) ((const struct CmapEncRec *)((const byte *)(p) + offsetof(CharacterCodeMap, encoding)) + (i))
_Static_assert(sizeof(CmapSubTable) == 6 && sizeof(CmapSubTableFormat4) == 16 && sizeof(CmapSubTableFormat12) == 28, "packed Sfnt layout");
_Static_assert(offsetof(CmapSubTableFormat4, end_code) == 14 && offsetof(CmapSubTableFormat12, group) == 16 && sizeof(struct CmapGroup12) == 12, "packed Sfnt layout");
/* `pTable->group[i].f` indexes past the declared group[1] (the pre-C99 struct hack): the same address as pointer arithmetic, so that
   the access is checked against the object and not against the dummy array bound */
#define GROUP12(p, i) ((const struct CmapGroup12 *)((const byte *)(p) + offsetof(CmapSubTableFormat12, group)) + (i))

/*@include endian.tc@*/
/* be_swap_uint16 / be_swap_int16 / be_swap_uint32 come from endian.tc; the int32 instance (the `fixed` format field) is extracted here */
/*@extract {'file':'src/inc/Endian.h', 'scope': r'class be\s*\{', 'sig': r'inline static T swap\(const T x\)', 'emit':'static int32 be_swap_int32(const int32 x)', 'casts':True,
   'subs':[[r'_peek<sizeof\(T\)>', 'be_peek_4', 1], [r'\bT\b', 'int32', 1]]}@*/
/* be::swap(x): template argument deduction == C11 generic selection on the (unpromoted) argument type */
#define be_swap(x) _Generic((x), uint16: be_swap_uint16, uint32: be_swap_uint32, int32: be_swap_int32)(x)

/* ------------------------------------------------------------------ spec functions (the oracle): OpenType cmap format 4, read byte-wise */
static uint32 U16(const byte *t, size_t o) { return ((uint32)t[o] << 8) | t[o + 1]; }
static uint32 U32(const byte *t, size_t o) { return ((uint32)t[o] << 24) | ((uint32)t[o + 1] << 16) | ((uint32)t[o + 2] << 8) | t[o + 3]; }
static uint32 LEN4(const byte *t)  { return U16(t, 2); }
static uint32 NSEG(const byte *t)  { return U16(t, 6) >> 1; }
static uint32 END4(const byte *t, size_t i)   { return U16(t, 14 + 2 * i); }
static uint32 START4(const byte *t, size_t i) { return U16(t, 16 + 2 * (size_t)NSEG(t) + 2 * i); }
static uint32 DELTA4(const byte *t, size_t i) { return U16(t, 16 + 4 * (size_t)NSEG(t) + 2 * i); }
static uint32 RO4(const byte *t, size_t i)    { return U16(t, 16 + 6 * (size_t)NSEG(t) + 2 * i); }
/* representation predicate: what CheckCmapSubtable4 establishes; `avail` = bytes from the subtable to the end of the cmap table */
static bool cmap4_wf(const byte *t, size_t avail)
{
    if (t == NULL || avail < 16) return false;
    if (U16(t, 0) != 4) return false;
    if (LEN4(t) > avail || NSEG(t) < 1 || LEN4(t) < 16 + 8 * NSEG(t)) return false;
    return END4(t, NSEG(t) - 1) == 0xFFFF;
}
/* segment m is "the" segment for c: endCode[m-1] < c <= endCode[m] (in an increasing endCode array: the first segment whose endCode >= c) */
static bool found4(const byte *t, size_t m, uint32 c) { return m < NSEG(t) && (m == 0 || END4(t, m - 1) < c) && c <= END4(t, m); }
/* the glyph OpenType assigns to c through segment m (c <= endCode[m]) */
static uint16 gid4(const byte *t, size_t m, uint32 c)
{
    uint32 st = START4(t, m), delta = DELTA4(t, m), ro = RO4(t, m);
    if (c < st) return 0;                                        /* not in the segment: unmapped */
    if (ro == 0) return (uint16)(c + delta);                     /* modulo 65536 */
    size_t cell = (size_t)(c - st) + (ro >> 1) + 8 + 3 * (size_t)NSEG(t) + m;   /* uint16 index: &idRangeOffset[m] + idRangeOffset[m]/2 + (c - start) */
    if (2 * cell + 1 >= LEN4(t)) return 0;                       /* cell outside the subtable: unmapped */
    uint32 v = U16(t, 2 * cell);
    return v ? (uint16)(v + delta) : 0;                          /* 0 = missing glyph, idDelta not applied */
}
static bool inseg4(const byte *t, size_t s, uint32 x) { return s < NSEG(t) && START4(t, s) <= x && x <= END4(t, s); }
/* instances of "the table is ordered" */
static bool sorted4_at(const byte *t, size_t i, size_t j) { return !(i < j && j < NSEG(t)) || END4(t, i) < END4(t, j); }      /* endCode increasing */
static bool ord4(const byte *t, size_t i, size_t j) { return !(i < j && j < NSEG(t)) || END4(t, i) < START4(t, j); }          /* segments disjoint, in order */
static bool nonempty4(const byte *t, size_t i) { return START4(t, i) <= END4(t, i); }

/* macro forms for loop invariants (which must be free of function calls) */
#define mU16(t, o)  ((uint32)(((uint32)(t)[(o)] << 8) | (t)[(o) + 1]))
#define mNSEG(t)    (mU16(t, 6) >> 1)
#define mEND4(t, i) mU16(t, 14 + 2 * (size_t)(i))
#define mSTART4(t, i) mU16(t, 16 + 2 * (size_t)mNSEG(t) + 2 * (size_t)(i))
#define mINSEG4(t, s, x) ((size_t)(s) < mNSEG(t) && mSTART4(t, s) <= (x) && (x) <= mEND4(t, s))
#define LIDX(p)     ((size_t)(OFF(p) - 14) / 2)          /* index of an endCode[] cell pointer */

/* ---- format 12 */
#define mU32(t, o)  ((uint32)(((uint32)(t)[(o)] << 24) | ((uint32)(t)[(o) + 1] << 16) | ((uint32)(t)[(o) + 2] << 8) | (t)[(o) + 3]))
#define mNGRP(t)    mU32(t, 12)
#define mGS(t, i)   mU32(t, 16 + 12 * (size_t)(i))
#define mGE(t, i)   mU32(t, 20 + 12 * (size_t)(i))
#define mINGRP12(t, s, x) ((size_t)(s) < mNGRP(t) && mGS(t, s) <= (x) && (x) <= mGE(t, s))
static uint32 LEN12(const byte *t) { return U32(t, 4); }
static uint32 NGRP(const byte *t)  { return U32(t, 12); }
static uint32 GS(const byte *t, size_t i) { return U32(t, 16 + 12 * i); }      /* startCharCode */
static uint32 GE(const byte *t, size_t i) { return U32(t, 20 + 12 * i); }      /* endCharCode */
static uint32 GG(const byte *t, size_t i) { return U32(t, 24 + 12 * i); }      /* startGlyphID */
static bool cmap12_wf(const byte *t, size_t avail)
{
    if (t == NULL || avail < 28) return false;
    if (U16(t, 0) != 12) return false;
    if (LEN12(t) > avail || NGRP(t) < 1 || NGRP(t) > 0x10000000) return false;
    return LEN12(t) == 16 + 12 * NGRP(t);
}
static bool ingrp12(const byte *t, size_t s, uint32 x) { return s < NGRP(t) && GS(t, s) <= x && x <= GE(t, s); }
static uint16 gid12(const byte *t, size_t m, uint32 c) { return (uint16)(GG(t, m) + (c - GS(t, m))); }
static bool ord12(const byte *t, size_t i, size_t j) { return !(i < j && j < NGRP(t)) || GE(t, i) < GS(t, j); }
static bool nonempty12(const byte *t, size_t i) { return GS(t, i) <= GE(t, i); }

/* ------------------------------------------------------------------ ghost state */
const byte *g_t;   size_t g_avail;       /* the format 4 subtable (harness buffer, exact size) */
const byte *g_t12; size_t g_avail12;     /* the format 12 subtable */
size_t g_m, g_m12;     /* ghost outputs: segment / group the lookup selected */
size_t g_g, g_g12;     /* ghost index: any segment / group */
size_t g_s; uint32 g_x;/* ghost: any segment / group, any code point */
size_t g_r1, g_r;      /* ghost outputs of NextCodepoint: range index after the backward / forward scan */
bool g_sorted;         /* lemma units: the table is ordered at all index pairs */
size_t g_j;            /* ghost index: any record / entry */

#ifdef ASSUME_SORTED
#define SORTED4_AT(i, j) g_sorted
#define ORD4(i, j)       g_sorted
#define NONEMPTY4(i)     g_sorted
#define ORD12(i, j)      g_sorted
#define NONEMPTY12(i)    g_sorted
#else
#define SORTED4_AT(i, j) sorted4_at(g_t, i, j)
#define ORD4(i, j)       ord4(g_t, i, j)
#define NONEMPTY4(i)     nonempty4(g_t, i)
#define ORD12(i, j)      ord12(g_t12, i, j)
#define NONEMPTY12(i)    nonempty12(g_t12, i)
#endif

/* ------------------------------------------------------------------ contracts: TtfUtil */
#define WF4_REQ(p)  ((p) == g_t && OFF(g_t) == 0 && OBJSZ(g_t) == g_avail && cmap4_wf(g_t, g_avail) && LEN4(g_t) == g_avail)
#define WF12_REQ(p) ((p) == g_t12 && OFF(g_t12) == 0 && OBJSZ(g_t12) == g_avail12 && cmap12_wf(g_t12, g_avail12) && LEN12(g_t12) == g_avail12)

#ifndef STUB_CHECKS
bool CheckCmapSubtable4(const void *pCmapSubtable4, const void *pCmapEnd)
__CPROVER_requires(pCmapSubtable4 == g_t && g_t != NULL && OFF(g_t) == 0 && OBJSZ(g_t) == g_avail && pCmapEnd == g_t + g_avail)
__CPROVER_assigns()
__CPROVER_ensures(__CPROVER_return_value == cmap4_wf(g_t, g_avail));

bool CheckCmapSubtable12(const void *pCmapSubtable12, const void *pCmapEnd)
__CPROVER_requires(pCmapSubtable12 == g_t12 && g_t12 != NULL && OFF(g_t12) == 0 && OBJSZ(g_t12) == g_avail12 && pCmapEnd == g_t12 + g_avail12)
__CPROVER_assigns()
__CPROVER_ensures(__CPROVER_return_value == cmap12_wf(g_t12, g_avail12));
#endif

/* clauses of the CmapSubtable4Lookup contract; the units c13_lookup4 / c13_lookup4_gid / c13_lookup4_hint each discharge one group on the
   same function under the same preconditions, every other unit sees all of them */
#define L4_SEARCH \
  /* nothing above the BMP is mapped by a format 4 subtable */ \
  __CPROVER_ensures(nUnicodeId > 0xFFFF ==> __CPROVER_return_value == 0) \
  /* full search: the segment selected brackets c ... */ \
  __CPROVER_ensures((rangeKey == 0 && nUnicodeId <= 0xFFFF) ==> found4(g_t, g_m, nUnicodeId)) \
  /* ... and it is the first segment whose endCode >= c (= any g_g that brackets c), given endCode[] increases at the two pairs the argument needs */ \
  __CPROVER_ensures((rangeKey == 0 && nUnicodeId <= 0xFFFF && found4(g_t, g_g, nUnicodeId) \
                     && (g_g == 0 || SORTED4_AT(g_m, g_g - 1)) && (g_m == 0 || SORTED4_AT(g_g, g_m - 1))) ==> g_m == g_g)
#define L4_GID \
  /* full search: the result is the OpenType glyph of c in the selected segment g_m */ \
  __CPROVER_ensures((rangeKey == 0 && nUnicodeId <= 0xFFFF) ==> __CPROVER_return_value == gid4(g_t, g_m, nUnicodeId))
#define L4_HINT \
  /* hinted lookup: only segment rangeKey is consulted */ \
  __CPROVER_ensures((rangeKey != 0 && nUnicodeId <= 0xFFFF) ==> __CPROVER_return_value == (nUnicodeId <= END4(g_t, rangeKey) ? gid4(g_t, rangeKey, nUnicodeId) : 0))

gid16 CmapSubtable4Lookup(const void *pCmapSubtabel4, unsigned int nUnicodeId, int rangeKey)
__CPROVER_requires(WF4_REQ(pCmapSubtabel4))
__CPROVER_requires(rangeKey >= 0 && (uint32)rangeKey < NSEG(g_t))
__CPROVER_assigns(g_m)
#if defined(UNIT_c13_lookup4)
L4_SEARCH
#elif defined(UNIT_c13_lookup4_gid)
L4_GID
#elif defined(UNIT_c13_lookup4_hint)
__CPROVER_ensures(nUnicodeId > 0xFFFF ==> __CPROVER_return_value == 0)
L4_HINT
#else
L4_SEARCH L4_GID L4_HINT
#endif
;

#define KEY (*pRangeKey)
unsigned int CmapSubtable4NextCodepoint(const void *pCmap31, unsigned int nUnicodeId, int *pRangeKey)
__CPROVER_requires(WF4_REQ(pCmap31))
__CPROVER_requires(pRangeKey != NULL && KEY >= 0 && (uint32)KEY < NSEG(g_t))
__CPROVER_assigns(*pRangeKey, g_r1, g_r)
/* the key stays a valid segment index */
__CPROVER_ensures(KEY >= 0 && (uint32)KEY < NSEG(g_t))
__CPROVER_ensures(nUnicodeId == 0 ==> (__CPROVER_return_value == START4(g_t, 0) && KEY == 0))
__CPROVER_ensures(nUnicodeId >= 0xFFFF ==> (__CPROVER_return_value == 0xFFFF && (uint32)KEY == NSEG(g_t) - 1))
/* the returned code point lies in segment KEY (what the hinted lookup relies on) ... */
__CPROVER_ensures(nUnicodeId < 0xFFFF ==> (__CPROVER_return_value <= 0xFFFF && __CPROVER_return_value >= START4(g_t, KEY)
                  && (__CPROVER_return_value <= END4(g_t, KEY) || !NONEMPTY4(KEY))))
/* ... and in no other segment */
__CPROVER_ensures((nUnicodeId < 0xFFFF && inseg4(g_t, g_s, __CPROVER_return_value) && NONEMPTY4(KEY) && ORD4(KEY, g_s) && ORD4(g_s, KEY)) ==> (size_t)KEY == g_s)
/* progress */
__CPROVER_ensures((nUnicodeId > 0 && nUnicodeId < 0xFFFF) ==> (__CPROVER_return_value > nUnicodeId || !ORD4((size_t)KEY - 1, KEY)))
/* least: no code point g_x of any segment g_s strictly between the previous and the returned one (from 0: none below the returned one) */
__CPROVER_ensures((nUnicodeId < 0xFFFF && (nUnicodeId < g_x || nUnicodeId == 0) && g_x < __CPROVER_return_value && inseg4(g_t, g_s, g_x)) ==>
                  !(NONEMPTY4(KEY) && ORD4(KEY, g_s) && (nUnicodeId == 0 || (ORD4(g_s, g_r1) && ORD4(g_r, g_s)))));

gid16 CmapSubtable12Lookup(const void *pCmap310, unsigned int uUnicodeId, int rangeKey)
__CPROVER_requires(WF12_REQ(pCmap310))
__CPROVER_requires(rangeKey >= 0 && (uint32)rangeKey <= NGRP(g_t12))
__CPROVER_assigns(g_m12)
/* g_m12: the group the scan stopped at (or none) contains c and lies at or after the key; the result is the OpenType glyph in that group */
__CPROVER_ensures(g_m12 == (size_t)-1 || (g_m12 >= (size_t)rangeKey && ingrp12(g_t12, g_m12, uUnicodeId)))
__CPROVER_ensures(__CPROVER_return_value == (g_m12 == (size_t)-1 ? 0 : gid12(g_t12, g_m12, uUnicodeId)))
/* first: no group g_g12 in [key, g_m12) contains c */
__CPROVER_ensures((g_g12 >= (size_t)rangeKey && g_g12 < g_m12) ==> !ingrp12(g_t12, g_g12, uUnicodeId));

unsigned int CmapSubtable12NextCodepoint(const void *pCmap310, unsigned int nUnicodeId, int *pRangeKey)
__CPROVER_requires(WF12_REQ(pCmap310))
__CPROVER_requires(pRangeKey != NULL && KEY >= 0 && (uint32)KEY < NGRP(g_t12))
__CPROVER_assigns(*pRangeKey, g_r1, g_r)
#ifndef UNIT_c13_next12_least
__CPROVER_ensures(KEY >= 0 && (uint32)KEY <= NGRP(g_t12) && ((uint32)KEY == NGRP(g_t12) ==> __CPROVER_return_value == 0x10FFFF))
__CPROVER_ensures(nUnicodeId == 0 ==> (__CPROVER_return_value == GS(g_t12, 0) && KEY == 0))
__CPROVER_ensures(nUnicodeId >= 0x10FFFF ==> (__CPROVER_return_value == 0x10FFFF && (uint32)KEY == NGRP(g_t12)))
/* the returned code point lies in group KEY */
__CPROVER_ensures((nUnicodeId < 0x10FFFF && (uint32)KEY < NGRP(g_t12)) ==> (__CPROVER_return_value >= GS(g_t12, KEY)
                  && (__CPROVER_return_value <= GE(g_t12, KEY) || !NONEMPTY12(KEY))))
/* progress */
__CPROVER_ensures((nUnicodeId > 0 && nUnicodeId < 0x10FFFF) ==> (__CPROVER_return_value > nUnicodeId || !ORD12((size_t)KEY - 1, KEY)))
#endif
#ifndef UNIT_c13_next12
/* ... and in no other group */
__CPROVER_ensures((nUnicodeId < 0x10FFFF && (uint32)KEY < NGRP(g_t12) && ingrp12(g_t12, g_s, __CPROVER_return_value) && NONEMPTY12(KEY) && ORD12(KEY, g_s) && ORD12(g_s, KEY))
                  ==> (size_t)KEY == g_s)
/* least: no code point g_x of any group g_s strictly between the previous and the returned one */
__CPROVER_ensures((nUnicodeId < 0x10FFFF && (nUnicodeId < g_x || nUnicodeId == 0) && g_x < __CPROVER_return_value && ingrp12(g_t12, g_s, g_x)) ==>
                  !(((uint32)KEY == NGRP(g_t12) || (NONEMPTY12(KEY) && ORD12(KEY, g_s)))
                    && (nUnicodeId == 0 || (ORD12(g_s, g_r1) && ORD12(g_r, g_s)))))
#endif
;

/* ------------------------------------------------------------------ extracted code: TtfUtil */
/*@extract {'file':'src/TtfUtil.cpp', 'sig': r'bool CheckCmapSubtable4\(const void \* pCmapSubtable4, const void \* pCmapEnd (?:/\*[^*]*\*/)?\)',
   'emit':'bool CheckCmapSubtable4(const void *pCmapSubtable4, const void *pCmapEnd)', 'casts':True, 'strip':['Sfnt::'],
   'subs':[[r'be::swap<(\w+)>\(', r'be_swap_\1(', 0], [r'be::swap\(', 'be_swap(', 0], [r'be::peek<(\w+)>\(', r'be_peek_\1(', 0]]}@*/

/*@extract {'file':'src/TtfUtil.cpp', 'sig': r'gid16 CmapSubtable4Lookup\(const void \* pCmapSubtabel4, unsigned int nUnicodeId, int rangeKey\)',
   'emit':'gid16 CmapSubtable4Lookup(const void *pCmapSubtabel4, unsigned int nUnicodeId, int rangeKey)', 'casts':True, 'strip':['Sfnt::'],
   'subs':[[r'be::swap<(\w+)>\(', r'be_swap_\1(', 0], [r'be::swap\(', 'be_swap(', 0], [r'be::peek<(\w+)>\(', r'be_peek_\1(', 0]],
   'inserts':[[r'chStart\s*=\s*be', 'g_m = LIDX(pMid);', 'before']],
   'loops':{1: """__CPROVER_assigns(n, cMid, pMid, pLeft, chEnd)
                  __CPROVER_loop_invariant(SAME(pLeft, g_t) && OFF(pLeft) >= 14 && OFF(pLeft) % 2 == 0 && LIDX(pLeft) + n <= nSeg)
                  __CPROVER_loop_invariant(OFF(pLeft) == 14 || mEND4(g_t, LIDX(pLeft) - 1) < nUnicodeId)
                  __CPROVER_loop_invariant(nUnicodeId > 0xFFFF || (n > 0 && nUnicodeId <= mEND4(g_t, LIDX(pLeft) + n - 1)))
                  __CPROVER_decreases(n)"""}}@*/

/*@extract {'file':'src/TtfUtil.cpp', 'sig': r'unsigned int CmapSubtable4NextCodepoint\(const void \*pCmap31, unsigned int nUnicodeId, int \* pRangeKey\)',
   'emit':'unsigned int CmapSubtable4NextCodepoint(const void *pCmap31, unsigned int nUnicodeId, int *pRangeKey)', 'casts':True, 'strip':['Sfnt::'],
   'subs':[[r'be::swap<(\w+)>\(', r'be_swap_\1(', 0], [r'be::swap\(', 'be_swap(', 0], [r'be::peek<(\w+)>\(', r'be_peek_\1(', 0]],
   'inserts':[[r'while\s*\(\s*iRange\s*<', 'g_r1 = (size_t)iRange;', 'before'], [r'unsigned int nStartCode', 'g_r = (size_t)iRange;', 'before']],
   'loops':{1: """__CPROVER_assigns(iRange)
                  __CPROVER_loop_invariant(iRange >= 0 && iRange < nRange)
                  __CPROVER_decreases(iRange)""",
            2: """__CPROVER_assigns(iRange)
                  __CPROVER_loop_invariant(iRange >= 0 && (size_t)iRange >= g_r1 && iRange < nRange)
                  __CPROVER_loop_invariant(g_s < g_r1 || g_s >= (size_t)iRange || mEND4(g_t, g_s) < nUnicodePrev)
                  __CPROVER_decreases(nRange - iRange)"""}}@*/

/*@extract {'file':'src/TtfUtil.cpp', 'sig': r'bool CheckCmapSubtable12\(const void \*pCmapSubtable12, const void \*pCmapEnd (?:/\*[^*]*\*/)?\)',
   'emit':'bool CheckCmapSubtable12(const void *pCmapSubtable12, const void *pCmapEnd)', 'casts':True, 'strip':['Sfnt::'],
   'subs':[[r'be::swap<(\w+)>\(', r'be_swap_\1(', 0], [r'be::swap\(', 'be_swap(', 0], [r'be::peek<(\w+)>\(', r'be_peek_\1(', 0]]}@*/

/*@extract {'file':'src/TtfUtil.cpp', 'sig': r'gid16 CmapSubtable12Lookup\(const void \* pCmap310, unsigned int uUnicodeId, int rangeKey\)',
   'emit':'gid16 CmapSubtable12Lookup(const void *pCmap310, unsigned int uUnicodeId, int rangeKey)', 'casts':True, 'strip':['Sfnt::'],
   'subs':[[r'be::swap<(\w+)>\(', r'be_swap_\1(', 0], [r'be::swap\(', 'be_swap(', 0], [r'pTable->group\[([^\]]+)\]\.', r'GROUP12(pTable, \1)->', 0]],
   'inserts':[[r'uint32 ucGroups', 'g_m12 = (size_t)-1;', 'before'], [r'uint32 uDiff', 'g_m12 = i;', 'before']],
   'loops':{1: """__CPROVER_assigns(i)
                  __CPROVER_loop_invariant(i >= (unsigned)rangeKey && i <= ucGroups)
                  __CPROVER_loop_invariant(g_g12 < (size_t)rangeKey || g_g12 >= i || !(mGS(g_t12, g_g12) <= uUnicodeId && uUnicodeId <= mGE(g_t12, g_g12)))
                  __CPROVER_decreases(ucGroups - i)"""}}@*/

/*@extract {'file':'src/TtfUtil.cpp', 'sig': r'unsigned int CmapSubtable12NextCodepoint\(const void \*pCmap310, unsigned int nUnicodeId, int \* pRangeKey\)',
   'emit':'unsigned int CmapSubtable12NextCodepoint(const void *pCmap310, unsigned int nUnicodeId, int *pRangeKey)', 'casts':True, 'strip':['Sfnt::'],
   'subs':[[r'be::swap<(\w+)>\(', r'be_swap_\1(', 0], [r'be::swap\(', 'be_swap(', 0], [r'pTable->group\[([^\]]+)\]\.', r'GROUP12(pTable, \1)->', 0]],
   'inserts':[[r'while\s*\(\s*iRange\s*<', 'g_r1 = (size_t)iRange;', 'before'], [r'unsigned int nStartCode', 'g_r = (size_t)iRange;', 'before']],
   'loops':{1: """__CPROVER_assigns(iRange)
                  __CPROVER_loop_invariant(iRange >= 0 && iRange < nRange)
                  __CPROVER_decreases(iRange)""",
            2: """__CPROVER_assigns(iRange)
                  __CPROVER_loop_invariant(iRange >= 0 && (size_t)iRange >= g_r1 && iRange < nRange)
                  __CPROVER_loop_invariant(g_s < g_r1 || g_s >= (size_t)iRange || mGE(g_t12, g_s) < nUnicodePrev)
                  __CPROVER_decreases(nRange - iRange)"""}}@*/

/* ---- FindCmapSubtable */
#ifdef FIND
const byte *g_cm; size_t g_cmsz; size_t g_fi;
#define mNSUB(t)        mU16(t, 2)
#define mMATCH(t, j, plat, enc) ((int)mU16(t, 4 + 8 * (size_t)(j)) == (plat) && ((enc) == -1 || (int)mU16(t, 6 + 8 * (size_t)(j)) == (enc)))
/* a record of a table whose record array fits (else FindCmapSubtable refuses the table: NULL) */
static bool rec_match(const byte *t, size_t j, int plat, int enc) { return 4 + 8 * (size_t)U16(t, 2) <= g_cmsz && j < U16(t, 2) && (int)U16(t, 4 + 8 * j) == plat && (enc == -1 || (int)U16(t, 6 + 8 * j) == enc); }
static uint32 rec_offset(const byte *t, size_t j) { return U32(t, 8 + 8 * j); }
const void *FindCmapSubtable(const void *pCmap, int nPlatformId, int nEncodingId, size_t length)
/* Face::Table: the table passed CheckTable (size >= sizeof(CharacterCodeMap)); bmp_/smp_subtable pass its size (never 0) */
__CPROVER_requires(pCmap == g_cm && OFF(g_cm) == 0 && OBJSZ(g_cm) == g_cmsz && length == g_cmsz && g_cmsz >= 12)
__CPROVER_assigns(g_fi)
/* only the first matching record counts */
__CPROVER_ensures(rec_match(g_cm, g_j, nPlatformId, nEncodingId) ==> (g_fi <= g_j && rec_match(g_cm, g_fi, nPlatformId, nEncodingId)))
/* a result is that record's subtable, inside the table */
__CPROVER_ensures(__CPROVER_return_value != NULL ==> (rec_match(g_cm, g_fi, nPlatformId, nEncodingId) && __CPROVER_return_value == g_cm + rec_offset(g_cm, g_fi)
                  && rec_offset(g_cm, g_fi) <= length - 2
                  && (U16(g_cm, rec_offset(g_cm, g_fi)) != 4  || rec_offset(g_cm, g_fi) <= length - 4)
                  && (U16(g_cm, rec_offset(g_cm, g_fi)) != 12 || rec_offset(g_cm, g_fi) <= length - 6)));
/*@extract {'if':'FIND', 'file':'src/TtfUtil.cpp', 'sig': r'const void \* FindCmapSubtable\(const void \* pCmap, int nPlatformId, (?:/\*[^*]*\*/)? int nEncodingId, (?:/\*[^*]*\*/)? size_t length\)',
   'emit':'const void *FindCmapSubtable(const void *pCmap, int nPlatformId, int nEncodingId, size_t length)', 'casts':True, 'strip':['Sfnt::'],
   'subs':[[r'be::swap<(\w+)>\(', r'be_swap_\1(', 0], [r'be::swap\(', 'be_swap(', 0], [r'be::peek<(\w+)>\(', r'be_peek_\1(', 0], [r'be::read<(\w+)>\((\w+)\)', r'be_read_\1(&\2)', 0],
           [r'pTable->encoding\[([^\]]+)\]\.', r'ENCREC(pTable, \1)->', 0]],
   'inserts':[[r'uint32 offset\s*=', 'g_fi = (size_t)i;', 'before']],
   'loops':{1: """__CPROVER_assigns(i, g_fi)
                  __CPROVER_loop_invariant(i >= 0 && i <= csuPlatforms && (g_j >= (size_t)i || !mMATCH(g_cm, g_j, nPlatformId, nEncodingId)))
                  __CPROVER_decreases(csuPlatforms - i)"""}}@*/
#endif

/* ================================================================== src/CmapCache.cpp */
typedef struct Face Face;
typedef struct Table { const Face *_f; const byte *_p; size_t _sz; bool _compressed; } Table;        /* Face::Table (Face.h) */
typedef struct DirectCmap { const void *_smp, *_bmp; } DirectCmap;       /* the two fields operator[] reads (CmapCache.h) */
typedef struct CachedCmap { bool m_isBmpOnly; uint16 **m_blocks; } CachedCmap;

/* ---- DirectCmap::operator[] */
uint16 DirectCmap_lookup(const DirectCmap *self, const uint32 usv)
/* class invariant after a successful load (operator bool: _cmap && _bmp): both subtables passed their check in bmp_/smp_subtable */
__CPROVER_requires(WF4_REQ(self->_bmp) && (self->_smp == NULL || WF12_REQ(self->_smp)))
__CPROVER_assigns(g_m, g_m12)
/* BMP: the format 4 glyph */
__CPROVER_ensures(usv <= 0xFFFF ==> (found4(g_t, g_m, usv) && __CPROVER_return_value == gid4(g_t, g_m, usv)))
__CPROVER_ensures((usv <= 0xFFFF && found4(g_t, g_g, usv) && (g_g == 0 || SORTED4_AT(g_m, g_g - 1)) && (g_m == 0 || SORTED4_AT(g_g, g_m - 1))) ==> g_m == g_g)
/* supplementary planes: the format 12 glyph of the first group containing usv, 0 without a format 12 subtable or group */
__CPROVER_ensures((usv > 0xFFFF && self->_smp == NULL) ==> __CPROVER_return_value == 0)
__CPROVER_ensures((usv > 0xFFFF && self->_smp != NULL) ==> (__CPROVER_return_value == (g_m12 == (size_t)-1 ? 0 : gid12(g_t12, g_m12, usv))
                  && (g_m12 == (size_t)-1 || ingrp12(g_t12, g_m12, usv)) && (g_g12 >= g_m12 || !ingrp12(g_t12, g_g12, usv))));

/*@extract {'file':'src/CmapCache.cpp', 'sig': r'uint16 DirectCmap::operator \[\] \(const uint32 usv\) const throw\(\)',
   'emit':'uint16 DirectCmap_lookup(const DirectCmap *self, const uint32 usv)', 'strip':['TtfUtil::'], 'self':['_smp','_bmp']}@*/

/* ---- CachedCmap::operator[] */
size_t g_nblocks; uint16 **g_blocks;
uint16 CachedCmap_lookup(const CachedCmap *self, const uint32 usv)
/* class invariant after a successful load (operator bool: m_blocks != 0; sizes established by the constructor, unit c13_cached_ctor) */
__CPROVER_requires(self->m_blocks == g_blocks && g_blocks != NULL && OFF(g_blocks) == 0 && OBJSZ(g_blocks) == g_nblocks * sizeof(uint16 *)
                   && g_nblocks == (self->m_isBmpOnly ? 0x100 : 0x1100))
/* every block pointer is NULL or a block of 0x100 entries; instantiated at the block of usv */
__CPROVER_requires((usv >> 8) >= g_nblocks || g_blocks[usv >> 8] == NULL || (OFF(g_blocks[usv >> 8]) == 0 && OBJSZ(g_blocks[usv >> 8]) == 0x100 * sizeof(uint16)))
__CPROVER_assigns()
__CPROVER_ensures(__CPROVER_return_value == (((self->m_isBmpOnly && usv > 0xFFFF) || usv > 0x10FFFF || g_blocks[usv >> 8] == NULL) ? 0 : g_blocks[usv >> 8][usv & 0xFF]));

/*@extract {'file':'src/CmapCache.cpp', 'sig': r'uint16 CachedCmap::operator \[\] \(const uint32 usv\) const throw\(\)',
   'emit':'uint16 CachedCmap_lookup(const CachedCmap *self, const uint32 usv)', 'self':['m_isBmpOnly','m_blocks']}@*/

/* ---- bmp_subtable / smp_subtable over stubs of FindCmapSubtable and the two checks */
#ifdef STUB_CHECKS
const byte *g_cmap_p; size_t g_cmap_sz;
const void *g_find[7];          /* what FindCmapSubtable returns for the 7 (platform, encoding) pairs, in preference order */
bool g_pass4[7], g_pass12[7];   /* whether that subtable passes CheckCmapSubtable4 / 12 */
#define FIDX(p, e) ((p) == 3 && (e) == 1 ? 0 : (p) == 0 && (e) == 3 ? 1 : (p) == 0 && (e) == 2 ? 2 : (p) == 0 && (e) == 1 ? 3 : (p) == 0 && (e) == 0 ? 4 \
                    : (p) == 3 && (e) == 10 ? 5 : (p) == 0 && (e) == 4 ? 6 : 7)
/* the check as a function of the pointer alone (first record carrying that pointer decides) */
static bool chk(const void *p, const bool *pass)
{
    if (p == NULL) return false;
    for (int i = 0; i < 7; ++i) if (g_find[i] == p) return pass[i];
    return false;
}
static const void *pick(int lo, int hi, const bool *pass)
{
    if (g_cmap_sz == 0) return NULL;
    for (int i = lo; i <= hi; ++i) if (chk(g_find[i], pass)) return g_find[i];
    return NULL;
}
const void *FindCmapSubtable(const void *pCmap, int nPlatformId, int nEncodingId, size_t length)
__CPROVER_requires(pCmap == g_cmap_p && length == g_cmap_sz && length != 0 && FIDX(nPlatformId, nEncodingId) < 7)
__CPROVER_assigns()
__CPROVER_ensures(__CPROVER_return_value == g_find[FIDX(nPlatformId, nEncodingId)]);
bool CheckCmapSubtable4(const void *pCmapSubtable4, const void *pCmapEnd)
__CPROVER_requires(pCmapEnd == g_cmap_p + g_cmap_sz)
__CPROVER_assigns()
__CPROVER_ensures(__CPROVER_return_value == chk(pCmapSubtable4, g_pass4));
bool CheckCmapSubtable12(const void *pCmapSubtable12, const void *pCmapEnd)
__CPROVER_requires(pCmapEnd == g_cmap_p + g_cmap_sz)
__CPROVER_assigns()
__CPROVER_ensures(__CPROVER_return_value == chk(pCmapSubtable12, g_pass12));

const void *bmp_subtable(const Table *cmap)
__CPROVER_requires(cmap->_p == g_cmap_p && cmap->_sz == g_cmap_sz)
__CPROVER_assigns()
__CPROVER_ensures(__CPROVER_return_value == pick(0, 4, g_pass4))
__CPROVER_ensures(__CPROVER_return_value == NULL || chk(__CPROVER_return_value, g_pass4));
const void *smp_subtable(const Table *cmap)
__CPROVER_requires(cmap->_p == g_cmap_p && cmap->_sz == g_cmap_sz)
__CPROVER_assigns()
__CPROVER_ensures(__CPROVER_return_value == pick(5, 6, g_pass12))
__CPROVER_ensures(__CPROVER_return_value == NULL || chk(__CPROVER_return_value, g_pass12));
/*@extract {'file':'src/CmapCache.cpp', 'sig': r'const void \* bmp_subtable\(const Face::Table & cmap\)', 'emit':'const void *bmp_subtable(const Table *cmap)', 'strip':['TtfUtil::'],
   'subs':[[r'cmap\.size\(\)', 'cmap->_sz', 0], [r'\bcmap \+', 'cmap->_p +', 0], [r'FindCmapSubtable\(cmap,', 'FindCmapSubtable(cmap->_p,', 0]]}@*/
/*@extract {'file':'src/CmapCache.cpp', 'sig': r'const void \* smp_subtable\(const Face::Table & cmap\)', 'emit':'const void *smp_subtable(const Table *cmap)', 'strip':['TtfUtil::'],
   'subs':[[r'cmap\.size\(\)', 'cmap->_sz', 0], [r'\bcmap \+', 'cmap->_p +', 0], [r'FindCmapSubtable\(cmap,', 'FindCmapSubtable(cmap->_p,', 0]]}@*/
#endif

/* ---- cache_subtable<NextCodePoint, LookupCodePoint>: one instantiation per unit (FMT) */
#ifdef FMT
#if FMT == 4
#define NEXT_CP             CmapSubtable4NextCodepoint
#define LOOKUP_CP(t, c, k)  (g_curkey = (k), CmapSubtable4Lookup(t, c, k))
#define FILL_LIMIT          0xFFFFu
#define TBL                 g_t
#define FILL_WF(p)          WF4_REQ(p)
#define mKEY_OK(k)          ((k) >= 0 && (uint32)(k) < mNSEG(g_t))
#define mNKEYS              mNSEG(g_t)
#define mIN(s, x)           mINSEG4(g_t, s, x)
#define IN_X(s, x)          inseg4(g_t, s, x)
#define GID_X(s, x)         gid4(g_t, s, x)
#define LK_GHOSTS           g_m
#else
#define NEXT_CP             CmapSubtable12NextCodepoint
#define LOOKUP_CP(t, c, k)  (g_curkey = (k), CmapSubtable12Lookup(t, c, k))
#define FILL_LIMIT          0x10FFFFu
#define TBL                 g_t12
#define FILL_WF(p)          WF12_REQ(p)
#define mKEY_OK(k)          ((k) >= 0 && (uint32)(k) <= mNGRP(g_t12))
#define mNKEYS              mNGRP(g_t12)
#define mIN(s, x)           mINGRP12(g_t12, s, x)
#define IN_X(s, x)          ingrp12(g_t12, s, x)
#define GID_X(s, x)         gid12(g_t12, s, x)
#define LK_GHOSTS           g_m12
#endif
/* ghost model of the cache: the entry of code point g_x (block g_b = g_x >> 8) */
size_t g_b; bool g_present;            /* block g_b has been allocated */
bool g_logged; uint16 g_val;           /* entry g_x has been stored / with this value */
int g_curkey, g_lkey;                  /* range key of the lookup in progress / of the lookup whose result was stored for g_x */
bool g_in; uint16 g_expect;            /* g_x lies in segment g_s / its glyph there (fixed by the harness) */
/* the three accesses to blocks[] as accessors: their preconditions are the memory-safety conditions of the accesses (index below the number of
   block pointers, entry index below 0x100, block present), their effect is logged for the ghost entry */
bool cache_has_block(uint16 **blocks, unsigned int block)
__CPROVER_requires(blocks == g_blocks && block < g_nblocks)
__CPROVER_assigns()
__CPROVER_ensures(block != g_b || __CPROVER_return_value == g_present);
void cache_alloc_block(uint16 **blocks, unsigned int block, size_t n)
__CPROVER_requires(blocks == g_blocks && block < g_nblocks && n == 0x100)
__CPROVER_assigns(g_present)
__CPROVER_ensures(block != g_b ==> g_present == __CPROVER_old(g_present));                /* the allocation may fail */
void cache_store(uint16 **blocks, unsigned int block, unsigned int idx, uint16 val)
__CPROVER_requires(blocks == g_blocks && block < g_nblocks && idx < 0x100 && (block != g_b || g_present))
__CPROVER_assigns(g_logged, g_val, g_lkey)
__CPROVER_ensures((block == g_b && idx == (g_x & 0xFF)) ? (g_logged && g_val == val && g_lkey == g_curkey)
                  : (g_logged == __CPROVER_old(g_logged) && g_val == __CPROVER_old(g_val) && g_lkey == __CPROVER_old(g_lkey)));

bool cache_subtable(uint16 **blocks, const void *cst, const unsigned int limit)
__CPROVER_requires(blocks == g_blocks && limit == FILL_LIMIT && g_nblocks >= (FILL_LIMIT >> 8) + 1 && FILL_WF(cst))
__CPROVER_requires(g_b == (g_x >> 8) && !g_logged && g_in == IN_X(g_s, g_x) && g_expect == GID_X(g_s, g_x) && g_g == g_s && g_g12 == g_s)
#ifdef COVER_ONE
__CPROVER_requires(g_x == 1)
#else
__CPROVER_requires(g_x != 1)            /* U+0001: unit c13_fill*_cover */
#endif
__CPROVER_assigns(g_present, g_logged, g_val, g_lkey, g_curkey, g_r1, g_r, LK_GHOSTS)
/* coverage and value: in an ordered table every code point of a segment below the limit is stored, with the glyph the direct lookup gives */
__CPROVER_ensures((__CPROVER_return_value && g_sorted && g_in && g_x < limit) ==> (g_logged && g_val == g_expect))
/* only code points of segments are stored (everything else keeps the 0 of the zero-filled block: unmapped), into a present block */
__CPROVER_ensures(g_logged ==> (g_present && (!g_sorted || IN_X(g_lkey, g_x))));

/*@extract {'if':'FMT', 'file':'src/CmapCache.cpp', 'sig': r'bool cache_subtable\(uint16 \* blocks\[\], const void \* cst, const unsigned int limit\)',
   'emit':'bool cache_subtable(uint16 **blocks, const void *cst, const unsigned int limit)',
   'subs':[[r'\bNextCodePoint\(', 'NEXT_CP(', 0], [r'\bLookupCodePoint\(', 'LOOKUP_CP(', 0],
           [r'blocks\[block\]\s*=\s*grzeroalloc<uint16>\(([^)]*)\);', r'cache_alloc_block(blocks, block, \1);', 0],
           [r'!blocks\[block\]', '!cache_has_block(blocks, block)', 0],
           [r'blocks\[block\]\[([^\]]+)\]\s*=\s*([^;]+);', r'cache_store(blocks, block, \1, \2);', 0]],
   'loops':{1: """__CPROVER_assigns(codePoint, prevCodePoint, rangeKey, g_present, g_logged, g_val, g_lkey, g_curkey, g_r1, g_r, LK_GHOSTS)
                  __CPROVER_loop_invariant(mKEY_OK(rangeKey) && ((uint32)rangeKey < mNKEYS || codePoint >= limit))
                  __CPROVER_loop_invariant(prevCodePoint < limit || codePoint >= limit)
                  __CPROVER_loop_invariant(codePoint >= limit || !g_sorted || mIN(rangeKey, codePoint))
                  __CPROVER_loop_invariant(codePoint >= limit || !g_sorted || !g_in || codePoint != g_x || (size_t)rangeKey == g_s)
                  __CPROVER_loop_invariant(codePoint >= limit || !g_sorted || prevCodePoint < codePoint || (prevCodePoint == 0 && codePoint == 0))
                  __CPROVER_loop_invariant(!(g_sorted && g_in && g_x < codePoint && g_x < limit) || (g_logged && g_val == g_expect))
                  __CPROVER_loop_invariant(!g_logged || (g_present && (!g_sorted || mIN(g_lkey, g_x))))
                  __CPROVER_decreases(prevCodePoint < limit ? limit - prevCodePoint : 0)"""}}@*/
#endif

/* ---- CachedCmap::CachedCmap over the contract of cache_subtable (proved in c13_fill4 / c13_fill12 for ordered tables) */
#ifdef CTOR
const Table *g_tab; const void *g_bmp, *g_smp;
bool g_in4, g_in12; uint16 g_l4, g_l12;      /* g_x is mapped by the format 4 / 12 subtable, to this glyph (what the direct lookups return) */
bool g_cset; uint16 g_cval;                  /* ghost cache entry of g_x: stored? value */
bool g_fill_failed;
#define ENTRY (g_cset ? g_cval : (uint16)0)   /* blocks come from grzeroalloc */
const Table *Face_cmap_table(const Face *face)
__CPROVER_assigns() __CPROVER_ensures(__CPROVER_return_value == g_tab);
const void *bmp_subtable(const Table *cmap)
__CPROVER_requires(cmap == g_tab) __CPROVER_assigns() __CPROVER_ensures(__CPROVER_return_value == g_bmp);
const void *smp_subtable(const Table *cmap)
__CPROVER_requires(cmap == g_tab) __CPROVER_assigns() __CPROVER_ensures(__CPROVER_return_value == g_smp);
uint16 **grzeroalloc_blocks(size_t n)
__CPROVER_assigns(g_nblocks)
__CPROVER_ensures(__CPROVER_return_value == NULL || (__CPROVER_return_value == g_blocks && g_nblocks == n));
bool cache_subtable_12(uint16 **blocks, const void *cst, const unsigned int limit)
__CPROVER_requires(blocks == g_blocks && blocks != NULL && cst == g_smp && cst != NULL && g_nblocks >= (limit >> 8) + 1 && limit == 0x10FFFF)
__CPROVER_assigns(g_cset, g_cval, g_fill_failed)
__CPROVER_ensures(!__CPROVER_return_value ==> g_fill_failed)
__CPROVER_ensures(__CPROVER_return_value ==> (g_fill_failed == __CPROVER_old(g_fill_failed) && ((g_in12 && g_x < limit) ? (g_cset && g_cval == g_l12)
                  : (g_cset == __CPROVER_old(g_cset) && g_cval == __CPROVER_old(g_cval)))));
bool cache_subtable_4(uint16 **blocks, const void *cst, const unsigned int limit)
__CPROVER_requires(blocks == g_blocks && blocks != NULL && cst == g_bmp && cst != NULL && g_nblocks >= (limit >> 8) + 1 && limit == 0xFFFF)
__CPROVER_assigns(g_cset, g_cval, g_fill_failed)
__CPROVER_ensures(!__CPROVER_return_value ==> g_fill_failed)
__CPROVER_ensures(__CPROVER_return_value ==> (g_fill_failed == __CPROVER_old(g_fill_failed) && ((g_in4 && g_x < limit) ? (g_cset && g_cval == g_l4)
                  : (g_cset == __CPROVER_old(g_cset) && g_cval == __CPROVER_old(g_cval)))));

void CachedCmap_ctor(CachedCmap *self, const Face *face)
__CPROVER_requires(!g_cset && !g_fill_failed && (g_in4 ==> g_x <= 0xFFFF) && g_tab != NULL)      /* a format 4 subtable maps BMP code points only */
__CPROVER_assigns(self->m_isBmpOnly, self->m_blocks, g_nblocks, g_cset, g_cval, g_fill_failed)
/* the size the lookup relies on (precondition of c13_cached_get) */
__CPROVER_ensures(self->m_blocks != NULL ==> (self->m_blocks == g_blocks && g_nblocks == (self->m_isBmpOnly ? 0x100 : 0x1100)
                  && (g_tab->_p == NULL || self->m_isBmpOnly == (g_smp == NULL))))
#define BUILT (self->m_blocks != NULL && !g_fill_failed && g_tab->_p != NULL)
#if defined(CTOR_BMP)
/* format 4 for the BMP, 0 when unmapped */
__CPROVER_ensures((BUILT && g_x < 0xFFFF && !(g_bmp != NULL && g_in4)) ==> ENTRY == 0)
#elif defined(CTOR_LAST)
__CPROVER_ensures((BUILT && g_x == 0xFFFF && g_bmp != NULL && g_in4) ==> ENTRY == g_l4)
__CPROVER_ensures((BUILT && g_x == 0x10FFFF && g_smp != NULL && g_in12) ==> ENTRY == g_l12)
#else
__CPROVER_ensures((BUILT && g_x < 0xFFFF && g_bmp != NULL && g_in4) ==> ENTRY == g_l4)
__CPROVER_ensures((BUILT && g_x > 0xFFFF && g_x < 0x10FFFF) ==> ENTRY == ((g_smp != NULL && g_in12) ? g_l12 : (uint16)0))
#endif
;
/*@extract {'if':'CTOR', 'file':'src/CmapCache.cpp', 'ctor':True, 'sig': r'CachedCmap::CachedCmap\(const Face & face\)', 'emit':'void CachedCmap_ctor(CachedCmap *self, const Face *face)',
   'subs':[[r'const Face::Table cmap\(face, Tag::cmap\);', 'const Table *cmap = Face_cmap_table(face);', 1], [r'if \(!cmap\)', 'if (!cmap->_p)', 1],
           [r'grzeroalloc<uint16 \*>\(', 'grzeroalloc_blocks(', 0],
           [r'cache_subtable<TtfUtil::CmapSubtable12NextCodepoint, TtfUtil::CmapSubtable12Lookup>\(', 'cache_subtable_12(', 0],
           [r'cache_subtable<TtfUtil::CmapSubtable4NextCodepoint, TtfUtil::CmapSubtable4Lookup>\(', 'cache_subtable_4(', 0]],
   'self':['m_isBmpOnly','m_blocks']}@*/
#endif

/* ================================================================== the Silf pseudo-glyph fallback */
typedef struct Pseudo { uint32 uid; uint32 gid; } Pseudo;                                 /* Silf.h */
typedef struct Silf { Pseudo *m_pseudos; uint16 m_numPseudo; } Silf;
size_t g_w; const Silf *g_silf; uint16 g_pseudo_ret; uint32 g_usv;
/* the parameter type of Silf::findPseudo, copied from the definition (a narrower type would truncate scalar values) */
/*@extract {'file':'src/Silf.cpp', 'kind':'range', 'start': r'uint16 Silf::findPseudo\(', 'end': r'\s+uid\) const', 'subs':[[r'uint16 Silf::findPseudo\(', 'typedef ', 1]], 'post':' pseudo_uid_t;\n'}@*/
uint16 Silf_findPseudo(const Silf *self, pseudo_uid_t uid)
#if defined(UNIT_c13_pseudo)
__CPROVER_requires(self == g_silf && OFF(self->m_pseudos) == 0 && OBJSZ(self->m_pseudos) == self->m_numPseudo * sizeof(Pseudo))
__CPROVER_assigns(g_w)
/* if any entry g_j matches, the result is the gid of a matching entry at or before it: the first match */
__CPROVER_ensures((g_j < self->m_numPseudo && self->m_pseudos[g_j].uid == uid) ==>
                  (g_w <= g_j && self->m_pseudos[g_w].uid == uid && __CPROVER_return_value == (uint16)self->m_pseudos[g_w].gid))
/* a non-zero result is the gid of a matching entry; without a match the result is 0 */
__CPROVER_ensures(__CPROVER_return_value != 0 ==> (g_w < self->m_numPseudo && self->m_pseudos[g_w].uid == uid && __CPROVER_return_value == (uint16)self->m_pseudos[g_w].gid));
#else
/* other units: some 16-bit value (what unit c13_pseudo characterises), no side effect; never called on a NULL Silf */
__CPROVER_requires(self != NULL && self == g_silf)
__CPROVER_requires((uint32)uid == g_usv)                 /* the callee sees the whole scalar value the caller looked up */
__CPROVER_assigns()
__CPROVER_ensures(__CPROVER_return_value == g_pseudo_ret);
#endif

/*@extract {'file':'src/Silf.cpp', 'sig': r'uint16 Silf::findPseudo\(\w+ uid\) const', 'emit':'uint16 Silf_findPseudo(const Silf *self, pseudo_uid_t uid)',
   'self':['m_pseudos','m_numPseudo'], 'brace_loops':[1], 'inserts':[[1, 'g_w = (size_t)i;']],
   'loops':{1: """__CPROVER_assigns(i, g_w)
                  __CPROVER_loop_invariant(i >= 0 && i <= self->m_numPseudo && (g_j >= (size_t)i || self->m_pseudos[g_j].uid != uid))
                  __CPROVER_decreases(self->m_numPseudo - i)"""}}@*/

#ifdef UNIT_c13_fallback
typedef struct Cmap Cmap;
struct Face { Cmap *m_cmap; Silf *m_silfs; uint16 m_numSilf; };                           /* the fields the three functions read (Face.h) */
typedef Face gr_face;
const Cmap *g_cmapobj; const Face *g_face;
uint16 g_cmap_ret;      /* what Cmap::operator[] returns for the code point at hand */
/* Cmap::operator[] (virtual: DirectCmap / CachedCmap, units c13_direct / c13_cached_get): some 16-bit value, no side effect */
uint16 Cmap_lookup(const Cmap *cmap, uint32 usv)
__CPROVER_requires(cmap == g_cmapobj)
__CPROVER_assigns() __CPROVER_ensures(__CPROVER_return_value == g_cmap_ret);
static const Cmap *Face_cmap(const Face *f) { return f->m_cmap; }                          /* Face::cmap(): return *m_cmap */

/*@extract {'file':'src/Face.cpp', 'sig': r'const Silf \*Face::chooseSilf\(uint32 script\) const', 'emit':'static const Silf *Face_chooseSilf(const Face *self, uint32 script)', 'self':['m_numSilf','m_silfs']}@*/
/*@extract {'file':'src/Face.cpp', 'sig': r'uint16 Face::findPseudo\(\w+ uid\) const', 'emit':'static uint16 Face_findPseudo(const Face *self, uint32 uid)',
   'subs':[[r'm_silfs\[0\]\.findPseudo\(', 'Silf_findPseudo(&m_silfs[0], ', 1]], 'self':['m_numSilf','m_silfs']}@*/

int gr_face_is_char_supported(const gr_face *pFace, uint32 usv, uint32 script)
/* a face that loaded has >= 1 Silf (Face::readGraphite returns havePasses) and a cmap object (Face::readGlyphs) */
__CPROVER_requires(pFace == g_face && pFace->m_cmap == g_cmapobj && pFace->m_numSilf >= 1 && pFace->m_silfs == g_silf)
__CPROVER_assigns()
__CPROVER_ensures(__CPROVER_return_value == ((g_cmap_ret != 0 || g_pseudo_ret != 0) ? 1 : 0));
/*@extract {'file':'src/gr_face.cpp', 'sig': r'int gr_face_is_char_supported\(const gr_face\* pFace, gr_uint32 usv, gr_uint32 script\)',
   'emit':'int gr_face_is_char_supported(const gr_face *pFace, uint32 usv, uint32 script)',
   'subs':[[r'const Cmap & cmap = pFace->cmap\(\);', 'const Cmap * cmap = Face_cmap(pFace);', 1], [r'cmap\[usv\]', 'Cmap_lookup(cmap, usv)', 1],
           [r'pFace->chooseSilf\(', 'Face_chooseSilf(pFace, ', 1], [r'silf->findPseudo\(', 'Silf_findPseudo(silf, ', 1], [r'gr_uint16', 'uint16', 0]]}@*/

/* the gid selection inside the loop of process_utf_data (src/Segment.cpp), as a function of (cmap, face, usv); Face::findPseudo is inlined */
uint16 initial_gid(const Cmap *cmap, const Face *face, uint32 usv)
__CPROVER_requires(cmap == g_cmapobj && face == g_face && (face->m_numSilf == 0 || face->m_silfs == g_silf))
__CPROVER_assigns()
__CPROVER_ensures(__CPROVER_return_value == (g_cmap_ret != 0 ? g_cmap_ret : (face->m_numSilf != 0 ? g_pseudo_ret : (uint16)0)));
/*@extract {'file':'src/Segment.cpp', 'kind':'range', 'scope': r'inline size_t process_utf_data\(Segment & seg, const Face & face, const int fid, utf_iter c, size_t n_chars\)',
   'start': r'uint16 gid = cmap\[usv\];', 'end': r'seg\.appendSlot',
   'pre':'uint16 initial_gid(const Cmap *cmap, const Face *face, uint32 usv)\n{\n    ', 'post':'return gid;\n}\n',
   'subs':[[r'cmap\[usv\]', 'Cmap_lookup(cmap, usv)', 1], [r'face\.findPseudo\(', 'Face_findPseudo(face, ', 1]]}@*/
#endif

/* ------------------------------------------------------------------ harnesses */
size_t nondet_size_t(void); unsigned nondet_uint(void); int nondet_int(void); bool nondet_bool(void); uint16 nondet_u16(void);
#ifdef WITNESS
#define WLEN 40
#endif

/* a well-formed format 4 subtable of symbolic length in an exact-size buffer (what CheckCmapSubtable4 accepted; unit c13_check4) */
static byte *mk_table4(void)
{
    size_t w_len = nondet_size_t(); __CPROVER_assume(w_len >= 24 && w_len <= 65535);
#ifdef WITNESS
    __CPROVER_assume(w_len <= WLEN);
#endif
    byte *t = malloc(w_len); __CPROVER_assume(t != NULL);
#ifdef WITNESS
    byte w_b[WLEN];
    for (int i = 0; i < WLEN; ++i) if ((size_t)i < w_len) t[i] = w_b[i];
#endif
    g_t = t; g_avail = w_len;
    __CPROVER_assume(cmap4_wf(t, w_len) && LEN4(t) == w_len);
    return t;
}
/* likewise format 12 (unit c13_check12) */
static byte *mk_table12(void)
{
    size_t w_len = nondet_size_t(); __CPROVER_assume(w_len >= 28 && w_len <= 16 + 12 * (size_t)0x10000000);
#ifdef WITNESS
    __CPROVER_assume(w_len <= WLEN);
#endif
    byte *t = malloc(w_len); __CPROVER_assume(t != NULL);
#ifdef WITNESS
    byte w_b[WLEN];
    for (int i = 0; i < WLEN; ++i) if ((size_t)i < w_len) t[i] = w_b[i];
#endif
    g_t12 = t; g_avail12 = w_len;
    __CPROVER_assume(cmap12_wf(t, w_len) && LEN12(t) == w_len);
    return t;
}
static void havoc_ghosts(void)
{
    g_g = nondet_size_t(); g_m = nondet_size_t(); g_g12 = nondet_size_t(); g_m12 = nondet_size_t();
    g_s = nondet_size_t(); g_x = nondet_uint(); g_r1 = nondet_size_t(); g_r = nondet_size_t(); g_sorted = nondet_bool();
}

#ifdef UNIT_c13_check4
void h_check4(void)
{
    size_t w_len = nondet_size_t(); __CPROVER_assume(w_len <= 65535 + 64);
    byte *t = malloc(w_len); __CPROVER_assume(t != NULL);
    g_t = t; g_avail = w_len;
    bool r = CheckCmapSubtable4(t, t + w_len);
    (void)r;
    CANARY();
}
#endif
#ifdef UNIT_c13_check12
void h_check12(void)
{
    size_t w_len = nondet_size_t(); __CPROVER_assume(w_len <= 16 + 12 * (size_t)0x10000000 + 64);
    byte *t = malloc(w_len); __CPROVER_assume(t != NULL);
    g_t12 = t; g_avail12 = w_len;
    bool r = CheckCmapSubtable12(t, t + w_len);
    (void)r;
    CANARY();
}
#endif

#if defined(UNIT_c13_lookup4) || defined(UNIT_c13_lookup4_hint) || defined(UNIT_c13_lookup4_gid)
void h_lookup4(void)
{
    havoc_ghosts();
    byte *t = mk_table4();
    unsigned w_c = nondet_uint(); int w_key = nondet_int();
#ifdef KEY0
    w_key = 0;                                                          /* the full search (direct path); the hinted path is unit c13_lookup4_hint */
#else
    __CPROVER_assume(w_key > 0 && (uint32)w_key < NSEG(t));
#endif
    gid16 r = CmapSubtable4Lookup(t, w_c, w_key);
    (void)r;
    CANARY();
}
#endif
#ifdef UNIT_c13_next4
void h_next4(void)
{
    havoc_ghosts();
    byte *t = mk_table4();
    unsigned w_c = nondet_uint();
    int *key = malloc(sizeof(int)); __CPROVER_assume(key != NULL);
    *key = nondet_int(); __CPROVER_assume(*key >= 0 && (uint32)*key < NSEG(t));
    unsigned r = CmapSubtable4NextCodepoint(t, w_c, key);
    (void)r;
    CANARY();
}
#endif
#ifdef UNIT_c13_lookup12
void h_lookup12(void)
{
    havoc_ghosts();
    byte *t = mk_table12();
    unsigned w_c = nondet_uint(); int w_key = nondet_int();
    __CPROVER_assume(w_key >= 0 && (uint32)w_key <= NGRP(t));
    gid16 r = CmapSubtable12Lookup(t, w_c, w_key);
    (void)r;
    CANARY();
}
#endif
#if defined(UNIT_c13_next12) || defined(UNIT_c13_next12_least)
void h_next12(void)
{
    havoc_ghosts();
    byte *t = mk_table12();
    unsigned w_c = nondet_uint();
    int *key = malloc(sizeof(int)); __CPROVER_assume(key != NULL);
    *key = nondet_int(); __CPROVER_assume(*key >= 0 && (uint32)*key < NGRP(t));
    unsigned r = CmapSubtable12NextCodepoint(t, w_c, key);
    (void)r;
    CANARY();
}
#endif

#ifdef UNIT_c13_step4
/* one step of the cache fill against the direct path, over the contracts only */
void h_step4(void)
{
    havoc_ghosts();
    byte *t = mk_table4();
    unsigned prev = nondet_uint();
    int *key = malloc(sizeof(int)); __CPROVER_assume(key != NULL);
    *key = nondet_int(); __CPROVER_assume(*key >= 0 && (uint32)*key < NSEG(t));
    unsigned c = CmapSubtable4NextCodepoint(t, prev, key);
    if (c < 0xFFFF) {                                               /* cache_subtable stores exactly the code points below its limit */
        int k = *key;
        g_g = (size_t)k;                                            /* the segment both searches have to agree with */
        gid16 hinted = CmapSubtable4Lookup(t, c, k);
        size_t mh = g_m;
        gid16 full = CmapSubtable4Lookup(t, c, 0);
        size_t mf = g_m;
        /* the table is ordered at: segment k non-empty, segment k-1 ends before k starts, endCode increasing at the pairs (m,k-1),(k,m-1) for the
           segment m a full search selected */
        if (nonempty4(t, k) && ord4(t, (size_t)k - 1, k) && (k == 0 || sorted4_at(t, mf, (size_t)k - 1)) && (mf == 0 || sorted4_at(t, k, mf - 1))
            && (k != 0 || mh == 0 || sorted4_at(t, 0, mh - 1)))
            __CPROVER_assert(hinted == full, "Lookup(c, key) == Lookup(c, 0) for (c, key) from NextCodepoint");
    }
    CANARY();
}
#endif
#ifdef UNIT_c13_step12
void h_step12(void)
{
    havoc_ghosts();
    byte *t = mk_table12();
    unsigned prev = nondet_uint();
    int *key = malloc(sizeof(int)); __CPROVER_assume(key != NULL);
    *key = nondet_int(); __CPROVER_assume(*key >= 0 && (uint32)*key < NGRP(t));
    unsigned c = CmapSubtable12NextCodepoint(t, prev, key);
    if (c < 0x10FFFF) {
        int k = *key;
        g_g12 = (size_t)k;                                          /* neither scan may pass group k, the full scan must not stop before it ... */
        gid16 hinted = CmapSubtable12Lookup(t, c, k);
        size_t mh = g_m12;
        gid16 full = CmapSubtable12Lookup(t, c, 0);
        size_t mf = g_m12;
        /* ... which it does not if no earlier group contains c: groups ordered at the pair (mf, k); group k non-empty */
        if (nonempty12(t, k) && ord12(t, mf, k))
            __CPROVER_assert(hinted == full && mh == mf, "Lookup(c, key) == Lookup(c, 0) for (c, key) from NextCodepoint");
    }
    CANARY();
}
#endif

#ifdef UNIT_c13_direct
void h_direct(void)
{
    havoc_ghosts();
    DirectCmap *d = malloc(sizeof(DirectCmap)); __CPROVER_assume(d != NULL);
    d->_bmp = mk_table4();
    d->_smp = nondet_bool() ? NULL : mk_table12();
    uint16 r = DirectCmap_lookup(d, nondet_uint());
    (void)r;
    CANARY();
}
#endif

#ifdef UNIT_c13_find
void h_find(void)
{
    size_t sz = nondet_size_t(); __CPROVER_assume(sz >= 12 && sz <= MAXN);
    byte *p = malloc(sz); __CPROVER_assume(p != NULL);
    g_cm = p; g_cmsz = sz; g_j = nondet_size_t(); g_fi = nondet_size_t();
    const void *r = FindCmapSubtable(p, nondet_int(), nondet_int(), sz);
    (void)r;
    CANARY();
}
#endif

#ifdef UNIT_c13_cached_get
void h_cached_get(void)
{
    CachedCmap *c = malloc(sizeof(CachedCmap)); __CPROVER_assume(c != NULL);
    c->m_isBmpOnly = nondet_bool();
    g_nblocks = c->m_isBmpOnly ? 0x100 : 0x1100;
    g_blocks = malloc(g_nblocks * sizeof(uint16 *)); __CPROVER_assume(g_blocks != NULL);
    c->m_blocks = g_blocks;
    uint32 usv = nondet_uint();
    if ((usv >> 8) < g_nblocks)                                     /* the block of usv: absent or a 0x100-entry block; all other pointers are arbitrary */
        g_blocks[usv >> 8] = nondet_bool() ? NULL : malloc(0x100 * sizeof(uint16));
    uint16 r = CachedCmap_lookup(c, usv);
    (void)r;
    CANARY();
}
#endif

#ifdef UNIT_c13_subtables
void h_subtables(void)
{
    Table *tab = malloc(sizeof(Table)); __CPROVER_assume(tab != NULL);
    size_t sz = nondet_size_t(); __CPROVER_assume(sz <= MAXN);
    byte *p = malloc(sz); __CPROVER_assume(p != NULL);
    tab->_p = p; tab->_sz = sz; g_cmap_p = p; g_cmap_sz = sz;
    for (int i = 0; i < 7; ++i) {                                   /* each record: not found, or some address inside the table */
        size_t off = nondet_size_t(); __CPROVER_assume(off < sz || sz == 0);
        g_find[i] = nondet_bool() ? NULL : (const void *)(p + off);
        g_pass4[i] = nondet_bool(); g_pass12[i] = nondet_bool();
    }
    if (nondet_bool()) { const void *r = bmp_subtable(tab); (void)r; }
    else               { const void *r = smp_subtable(tab); (void)r; }
    CANARY();
}
#endif

#ifdef FMT
void h_fill(void)
{
    havoc_ghosts();
#if FMT == 4
    byte *t = mk_table4();
    g_nblocks = nondet_bool() ? 0x100 : 0x1100;                     /* CachedCmap allocates 0x100 block pointers without a format 12 subtable */
#else
    byte *t = mk_table12();
    g_nblocks = 0x1100;
#endif
    g_blocks = malloc(g_nblocks * sizeof(uint16 *)); __CPROVER_assume(g_blocks != NULL);
    uint32 w_x = nondet_uint();                                     /* the code point whose cache entry is watched */
#ifdef COVER_ONE
    w_x = 1;
#else
    __CPROVER_assume(w_x != 1);
#endif
    g_x = w_x; g_b = g_x >> 8; g_present = nondet_bool(); g_logged = false; g_g = g_s; g_g12 = g_s;
    g_in = IN_X(g_s, g_x); g_expect = g_in ? GID_X(g_s, g_x) : 0;
    __CPROVER_assume(g_in);                                         /* clauses about g_x outside every segment need no g_s */
    bool r = cache_subtable(g_blocks, t, FILL_LIMIT);
    (void)r;
    CANARY();
}
#endif

#ifdef CTOR
void h_ctor(void)
{
    CachedCmap *c = malloc(sizeof(CachedCmap)); __CPROVER_assume(c != NULL);
    Table *tab = malloc(sizeof(Table)); __CPROVER_assume(tab != NULL);
    tab->_p = nondet_bool() ? NULL : malloc(1);
    g_tab = tab;
    g_bmp = nondet_bool() ? NULL : malloc(1); g_smp = nondet_bool() ? NULL : malloc(1);
    g_blocks = malloc(0x1100 * sizeof(uint16 *)); __CPROVER_assume(g_blocks != NULL);
    uint32 w_x = nondet_uint();                                     /* the code point whose cache entry is watched */
    g_x = w_x; g_in4 = nondet_bool(); g_in12 = nondet_bool(); g_l4 = nondet_u16(); g_l12 = nondet_u16();
    __CPROVER_assume(!g_in4 || g_x <= 0xFFFF);
    g_cset = false; g_fill_failed = false; g_nblocks = 0;
    CachedCmap_ctor(c, malloc(1));
    CANARY();
}
#endif

#ifdef UNIT_c13_pseudo
void h_pseudo(void)
{
    Silf *s = malloc(sizeof(Silf)); __CPROVER_assume(s != NULL);
    s->m_numPseudo = nondet_u16();
    s->m_pseudos = malloc(s->m_numPseudo * sizeof(Pseudo)); __CPROVER_assume(s->m_pseudos != NULL);
    g_silf = s; g_j = nondet_size_t(); g_w = nondet_size_t();
    uint16 r = Silf_findPseudo(s, nondet_uint());
    (void)r;
    CANARY();
}
#endif

#ifdef UNIT_c13_fallback
void h_fallback(void)
{
    Face *f = malloc(sizeof(Face)); __CPROVER_assume(f != NULL);
    f->m_cmap = malloc(1); g_cmapobj = f->m_cmap; g_face = f;
    f->m_numSilf = nondet_u16();
    f->m_silfs = malloc(f->m_numSilf * sizeof(Silf)); __CPROVER_assume(f->m_silfs != NULL);
    g_silf = f->m_silfs; g_cmap_ret = nondet_u16(); g_pseudo_ret = nondet_u16();
    g_usv = nondet_uint();
    if (nondet_bool()) { __CPROVER_assume(f->m_numSilf >= 1); int r = gr_face_is_char_supported(f, g_usv, nondet_uint()); (void)r; }
    else               { uint16 g = initial_gid(f->m_cmap, f, g_usv); (void)g; }
    CANARY();
}
#endif
