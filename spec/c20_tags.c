/* C20 - tag/string conversions honour their documented buffer contracts.
 * Functions under contract (extracted from /repo on every run):
 *   gr_str_to_tag, gr_tag_to_str, zeropad  (src/gr_face.cpp), min/max<size_t> (src/inc/Main.h),
 *   the script-padding strip at the top of makeAndInitialize (src/gr_segment.cpp).
 * All units are loop-free over the full input domain: complete proofs.
 */
/* The four functions under contract are loop-free; their units carry 'unwind':8 (with unwinding assertions) only so that a change which
 * introduces a short loop is decided (unwound completely, then judged by the contract) instead of running into the time limit. */
#include "types.h"

/*@unit {'name':'c20_str_to_tag', 'unwind':8, 'props':['C20'], 'entry':'h_str_to_tag', 'enforce':'gr_str_to_tag', 'replace':['strlen'],
         'assumptions':['strlen(s) is replaced by the assumed contract "returns the length of the NUL-terminated string s and reads only up to its NUL" (libc, trusted)'],
         'replay':'c20_tags', 'witness_defines':[], 'witness_vars':['w_n','w_b'],
         'claims':'gr_str_to_tag reads no byte beyond the terminating NUL (exact-size buffer) and returns the big-endian tag of the first min(4,len) characters, zero padded; assigns nothing'}@*/
/*@unit {'name':'c20_tag_to_str', 'unwind':8, 'props':['C20'], 'entry':'h_tag_to_str', 'enforce':'gr_tag_to_str',
         'replay':'c20_tags', 'witness_defines':[], 'witness_vars':['w_tag','w_null'],
         'claims':'gr_tag_to_str writes exactly the four tag bytes into a 4-byte buffer and nothing after them; NULL is ignored'}@*/
/*@unit {'name':'c20_roundtrip', 'props':['C20'], 'entry':'h_roundtrip', 'replace':['gr_str_to_tag','gr_tag_to_str'],
         'claims':'lemma over the two contracts: str->tag->str and tag->str->tag are identities on four-character tags'}@*/
/*@unit {'name':'c20_zeropad', 'unwind':8, 'props':['C20','C18'], 'entry':'h_zeropad', 'enforce':'zeropad',
         'replay':'c20_tags', 'witness_defines':[], 'witness_vars':['w_x'],
         'claims':'zeropad maps a space-padded tag to the zero-padded tag of the same characters and is the identity on every other value'}@*/
/*@unit {'name':'c20_script_strip', 'unwind':8, 'props':['C20'], 'entry':'h_script_strip', 'enforce':'script_strip',
         'claims':'the script-tag normalisation in makeAndInitialize computes the same function as zeropad (space- and zero-padded script tags select the same script)'}@*/
/*@unit {'name':'c20_pad_lemma', 'props':['C20','C18'], 'entry':'h_pad_lemma', 'replace':['zeropad','gr_str_to_tag'],
         'claims':'lemma over contracts: for every string of k<=4 non-space non-NUL characters, zeropad(tag of space-padded string) == tag of the unpadded string'}@*/

/* ------------------------------------------------------------------ ghost state set up by harnesses */
const char *g_s;      /* the argument string                                   */
size_t      g_n;      /* its length; it lives in an object of exactly g_n+1 bytes */
char       *g_out;    /* destination buffer of gr_tag_to_str (exactly 4 bytes or NULL) */

#define UB(c) ((uint32)(unsigned char)(c))
/* spec function: big-endian tag of the first min(4,n) characters, zero padded */
#define PACK(s, n) ( ((n) > 0 ? UB((s)[0]) << 24 : 0u) | ((n) > 1 ? UB((s)[1]) << 16 : 0u) \
                   | ((n) > 2 ? UB((s)[2]) << 8  : 0u) | ((n) > 3 ? UB((s)[3])       : 0u) )

/* spec function for zeropad, from the four-case description "space padded -> zero padded" */
static uint32 spec_zeropad(uint32 x)
{
    if ((x & 0xFFu) != 0x20u) return x;                       /* not space padded at all          */
    if ((x & 0xFFFFu) != 0x2020u) return x & 0xFFFFFF00u;     /* one trailing space               */
    if ((x & 0xFFFFFFu) != 0x202020u) return x & 0xFFFF0000u; /* two trailing spaces              */
    if (x != 0x20202020u) return x & 0xFF000000u;             /* three                            */
    return 0;                                                 /* all spaces                       */
}

/* ------------------------------------------------------------------ contracts (on prototypes) */
/* libc strlen: assumed contract (trusted): called on the argument string only, returns its length */
size_t strlen(const char *s)
__CPROVER_requires(s == g_s)
__CPROVER_ensures(__CPROVER_return_value == g_n)
__CPROVER_assigns();

gr_uint32 gr_str_to_tag(const char *str)
__CPROVER_requires(str == g_s)
__CPROVER_ensures(__CPROVER_return_value == PACK(g_s, g_n))
__CPROVER_assigns();

void gr_tag_to_str(gr_uint32 tag, char *str)
__CPROVER_requires(str == g_out)
__CPROVER_assigns(str != NULL: __CPROVER_object_upto(str, 4))
__CPROVER_ensures(str == NULL || (UB(str[0]) == (tag >> 24) && UB(str[1]) == ((tag >> 16) & 0xFF)
                                  && UB(str[2]) == ((tag >> 8) & 0xFF) && UB(str[3]) == (tag & 0xFF)));

uint32 zeropad(const uint32 x)
__CPROVER_ensures(__CPROVER_return_value == spec_zeropad(x))
__CPROVER_assigns();

uint32 script_strip(uint32 script)
__CPROVER_ensures(__CPROVER_return_value == spec_zeropad(script))
__CPROVER_assigns();

/* ------------------------------------------------------------------ extracted code */
/* the big-endian readers of Endian.h (only used when a tag helper is written in terms of them; pure syntax adaptation) */
/*@include endian.tc@*/
/*@extract {'file':'src/inc/Main.h', 'sig': r'inline T min\(const T a, const T b\)', 'emit':'static size_t min(const size_t a, const size_t b)'}@*/
/*@extract {'file':'src/inc/Main.h', 'sig': r'inline T max\(const T a, const T b\)', 'emit':'static size_t max(const size_t a, const size_t b)'}@*/

/*@extract {'file':'src/gr_face.cpp', 'sig': r'gr_uint32 gr_str_to_tag\(const char \*str\)', 'emit':'gr_uint32 gr_str_to_tag(const char *str)',
            'casts': True, 'subs': [[r'\b(min|max)<size_t>', r'\1', 0], [r'be::peek<(\w+)>\(', r'be_peek_\1(', 0], [r'be::swap<(\w+)>\(', r'be_swap_\1(', 0]]}@*/

/*@extract {'file':'src/gr_face.cpp', 'sig': r'void gr_tag_to_str\(gr_uint32 tag, char \*str\)', 'emit':'void gr_tag_to_str(gr_uint32 tag, char *str)', 'casts': True}@*/

/*@extract {'file':'src/gr_face.cpp', 'sig': r'uint32 zeropad\(const uint32 x\)', 'emit':'uint32 zeropad(const uint32 x)'}@*/

/* the statement prefix of makeAndInitialize up to the Segment allocation, as a function of `script` */
/*@extract {'file':'src/gr_segment.cpp', 'kind':'range', 'scope': r'gr_segment\* makeAndInitialize\(',
            'start': r'if \(script == 0x20202020\)', 'end': r'Segment\s*\*\s*pRes\s*=',
            'pre':'uint32 script_strip(uint32 script)\n{\n', 'post':'\n return script;\n}\n'}@*/

/* ------------------------------------------------------------------ harnesses */
size_t nondet_size_t(void);
uint32 nondet_u32(void);
bool   nondet_bool(void);

#define FILL9(p, n, b) do { if ((n) > 0) (p)[0] = (b)[0]; if ((n) > 1) (p)[1] = (b)[1]; if ((n) > 2) (p)[2] = (b)[2]; \
   if ((n) > 3) (p)[3] = (b)[3]; if ((n) > 4) (p)[4] = (b)[4]; if ((n) > 5) (p)[5] = (b)[5]; if ((n) > 6) (p)[6] = (b)[6]; \
   if ((n) > 7) (p)[7] = (b)[7]; } while (0)
#define NONUL9(b, n) (((n) <= 0 || (b)[0]) && ((n) <= 1 || (b)[1]) && ((n) <= 2 || (b)[2]) && ((n) <= 3 || (b)[3]) && \
   ((n) <= 4 || (b)[4]) && ((n) <= 5 || (b)[5]) && ((n) <= 6 || (b)[6]) && ((n) <= 7 || (b)[7]))

void h_str_to_tag(void)
{
    size_t w_n = nondet_size_t();
    char w_b[8];
    __CPROVER_assume(w_n <= MAXN);      /* harness bound on the string length only; the function is loop-free */
    __CPROVER_assume(NONUL9(w_b, w_n));
    char *s = malloc(w_n + 1);          /* exactly strlen+1 bytes: any read past the NUL is out of bounds */
    __CPROVER_assume(s != NULL);
    FILL9(s, w_n, w_b);
    s[w_n] = 0;
    g_s = s; g_n = w_n;
    gr_uint32 r = gr_str_to_tag(s);
    (void)r;
    CANARY();
}

void h_tag_to_str(void)
{
    gr_uint32 w_tag = nondet_u32();
    bool w_null = nondet_bool();
    char *buf = w_null ? NULL : malloc(4);   /* "a char array of at least size 4 bytes": exactly 4 */
    __CPROVER_assume(w_null || buf != NULL);
    g_out = buf;
    gr_tag_to_str(w_tag, buf);
    CANARY();
}

void h_roundtrip(void)
{
    /* direction 1: four non-NUL characters */
    char w_b[8];
    __CPROVER_assume(NONUL9(w_b, 4));
    char *s = malloc(5); __CPROVER_assume(s != NULL);
    FILL9(s, 4, w_b); s[4] = 0;
    g_s = s; g_n = 4;
    gr_uint32 t = gr_str_to_tag(s);
    char *o = malloc(4); __CPROVER_assume(o != NULL);
    g_out = o;
    gr_tag_to_str(t, o);
    __CPROVER_assert(o[0] == s[0] && o[1] == s[1] && o[2] == s[2] && o[3] == s[3], "tag_to_str(str_to_tag(s)) == s for 4-character s");
    /* direction 2: any tag without a zero byte */
    gr_uint32 t2 = nondet_u32();
    __CPROVER_assume((t2 >> 24) && ((t2 >> 16) & 0xFF) && ((t2 >> 8) & 0xFF) && (t2 & 0xFF));
    char *o2 = malloc(5); __CPROVER_assume(o2 != NULL);
    o2[4] = 0;
    g_out = o2;
    gr_tag_to_str(t2, o2);
    __CPROVER_assert(o2[4] == 0, "tag_to_str leaves the fifth byte alone");
    g_s = o2; g_n = 4;
    gr_uint32 t3 = gr_str_to_tag(o2);
    __CPROVER_assert(t3 == t2, "str_to_tag(tag_to_str(t)) == t for tags without zero bytes");
    CANARY();
}

void h_zeropad(void)
{
    uint32 w_x = nondet_u32();
    uint32 r = zeropad(w_x);
    (void)r;
    CANARY();
}

void h_script_strip(void)
{
    uint32 w_x = nondet_u32();
    uint32 r = script_strip(w_x);
    (void)r;
    CANARY();
}

void h_pad_lemma(void)
{
    /* a tag string of k <= 4 characters, none of them space or NUL, given once bare (NUL terminated, zero padded by
       gr_str_to_tag) and once padded with spaces to four characters */
    size_t k = nondet_size_t();
    char w_b[8];
    __CPROVER_assume(k <= 4);
    __CPROVER_assume(NONUL9(w_b, k));
    __CPROVER_assume((k <= 0 || w_b[0] != ' ') && (k <= 1 || w_b[1] != ' ') && (k <= 2 || w_b[2] != ' ') && (k <= 3 || w_b[3] != ' '));
    char *bare = malloc(k + 1); __CPROVER_assume(bare != NULL);
    FILL9(bare, k, w_b); bare[k] = 0;
    char *padded = malloc(5); __CPROVER_assume(padded != NULL);
    padded[0] = padded[1] = padded[2] = padded[3] = ' '; padded[4] = 0;
    FILL9(padded, k, w_b);
    g_s = bare; g_n = k;
    uint32 t_bare = gr_str_to_tag(bare);
    g_s = padded; g_n = 4;
    uint32 t_pad = gr_str_to_tag(padded);
    __CPROVER_assert(zeropad(t_pad) == t_bare, "space-padded and zero-padded tags denote the same tag after zeropad");
    __CPROVER_assert(zeropad(t_bare) == t_bare, "zeropad is the identity on zero-padded tags of non-space characters");
    CANARY();
}
