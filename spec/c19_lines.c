/* C19 - line breaking and justification never corrupt the glyph stream.
 * Bounded universe units (method: spec/c03_slots.c) over the REAL bodies of
 *   gr_slot_linebreak_before (src/gr_slot.cpp), Segment::addLineEnd / delLineEnd (src/Justifier.cpp),
 *   Segment::justify (src/Justifier.cpp) with its width arithmetic cut out (declared cut R13), Segment::reverseSlots.
 */
#include "types.h"
/*@unit {'name':'c19_linebreak', 'props':['C19'], 'entry':'h_linebreak', 'kind':'bounded', 'defines_quick':['NSLOTS=4'], 'defines_thorough':['NSLOTS=5'], 'unwind_quick':7, 'unwind_thorough':8,
  'bound':'pool of 4 / 5 slots', 'claims':'gr_slot_linebreak_before at an interior slot cuts a well-formed chain into two well-formed chains containing the same slots in the same order, changing only the three links across the cut'}@*/
/*@unit {'name':'c19_line_end', 'props':['C19'], 'entry':'h_line_end', 'kind':'bounded', 'defines_quick':['NSLOTS=4','LINEEND'], 'defines_thorough':['NSLOTS=5','LINEEND'], 'unwind_quick':7, 'unwind_thorough':8,
  'bound':'pool of 4 / 5 slots (one free)', 'claims':'Segment::addLineEnd followed by delLineEnd is the identity on the line: for a sentinel put before the first slot of a line and for one put after the last slot, every link of every line slot is restored'}@*/
/*@unit {'name':'c19_justify', 'props':['C19'], 'entry':'h_justify', 'kind':'bounded', 'defines_quick':['NSLOTS=3','JUSTIFY'], 'defines_thorough':['NSLOTS=4','JUSTIFY'], 'unwind_quick':6, 'unwind_thorough':7,
  'bound':'pool of 3 / 4 slots; the width/stretch arithmetic of justify is cut (R13) and replaced by an arbitrary choice of the line end slots; positionSlots and the justification passes are stubs that leave the links alone',
  'claims':'Segment::justify returns with first/last restored and the line the same well-formed chain in the same order, whether or not the segment had to be reversed for the duration of the call'}@*/

/*@unit {'name':'c19_position_slots', 'props':['C19'], 'entry':'h_position', 'kind':'bounded', 'defines_quick':['NSLOTS=3','POSSLOTS'], 'defines_thorough':['NSLOTS=4','POSSLOTS'], 'unwind_quick':6, 'unwind_thorough':7,
  'bound':'pool of 3 / 4 slots; Slot::finalise is a stub that returns an arbitrary position and leaves the links alone',
  'claims':'Segment::positionSlots, as justify calls it (range ends NULL or any two slots of the stream in either order, any direction flags, with or without the temporary reversal), returns without dereferencing a NULL link and leaves the stream a well-formed chain with the same number of slots and first/last on its ends'}@*/

/*@include slots.tc@*/

static bool Slot_sibling_1(Slot *self, Slot *ap);
#define M_sibling_1 Slot_sibling_1
/*@extract {'file':'src/Slot.cpp', 'sig': r'bool Slot::sibling\(Slot \*ap\)', 'emit':'static bool Slot_sibling_1(Slot *self, Slot *ap)',
   'subs':[[r'\bthis\b', 'self', 0]], 'methods':['sibling'], 'self':['m_sibling','m_child']}@*/

#define assert(x) __CPROVER_assert((x), "source assert: " #x)
typedef Slot gr_slot;
/*@extract {'file':'src/gr_slot.cpp', 'sig': r'void gr_slot_linebreak_before\(gr_slot\* p(?:/\*[^*]*\*/)?\)', 'emit':'void gr_slot_linebreak_before(gr_slot *p)',
   'methods':['prev','next','sibling']}@*/

static int8 Segment_getSlotBidiClass(const Segment *self, Slot *s) { (void)self; return s->m_bidiCls; }
/*@extract {'file':'src/Segment.cpp', 'sig': r'void Segment::reverseSlots\(\)', 'emit':'void Segment_reverseSlots(Segment *self)',
   'subs':[[r'getSlotBidiClass\(', 'Segment_getSlotBidiClass(self, ', 0]],
   'methods':['next','prev'], 'self':['m_dir','m_first','m_last']}@*/

#ifdef POSSLOTS
typedef struct Font Font;
typedef struct Rect { Position bl, tr; } Rect;
float nondet_float(void);
/* stub for Slot::finalise (position arithmetic on floats, C08 territory): arbitrary result, no link is written */
static Position Slot_finalise_stub(Slot *s) { (void)s; Position p; p.x = nondet_float(); p.y = nondet_float(); return p; }
#define M_finalise_8(s, seg, font, cp, bb, al, cm, rtl, fin) Slot_finalise_stub(s)
/*@extract {'file':'src/Segment.cpp', 'sig': r'Position Segment::positionSlots\(const Font \*font, Slot \* iStart, Slot \* iEnd, bool isRtl, bool isFinal\)',
   'emit':'Position Segment_positionSlots(Segment *self, const Font *font, Slot *iStart, Slot *iEnd, bool isRtl, bool isFinal)',
   'subs':[[r'Position currpos\(0\., 0\.\);', 'Position currpos = POS0;', 0], [r'currdir\(\)', 'Segment_currdir_0(self)', 0], [r'reverseSlots\(\)', 'Segment_reverseSlots(self)', 0],
           [r'\bthis\b', 'self', 0]],
   'methods':['finalise','isBase','prev','next'], 'self':['m_first','m_last']}@*/
#endif

#if defined(LINEEND) || defined(JUSTIFY)
static Slot *g_free[2]; static int g_nfree;
static Slot *Segment_newSlot(Segment *s) { (void)s; if (g_nfree <= 0) return (Slot *)0; Slot *r = g_free[--g_nfree]; return r; }
/* Segment::freeSlot: proved in unit c04_free_slot to move first/last off the slot and to reset it; here only that effect */
static void Segment_freeSlot(Segment *self, Slot *s)
{ if (!s) return; if (self->m_last == s) self->m_last = s->m_prev; if (self->m_first == s) self->m_first = s->m_next; Slot_ctor(s, s->m_userAttr); }
static uint16 Silf_endLineGlyphid(const Silf *s) { (void)s; return 0; }
static const GlyphFace *Face_glyphSafe(const Face *f, uint16 g) { (void)f; (void)g; return (const GlyphFace *)0; }
static void Slot_setGlyph_3(Slot *s, Segment *seg, uint16 gid, const GlyphFace *g) { (void)seg; (void)g; s->m_glyphid = gid; }
#define M_setGlyph_3 Slot_setGlyph_3
/*@extract {'file':'src/Justifier.cpp', 'sig': r'Slot \*Segment::addLineEnd\(Slot \*nSlot\)', 'emit':'Slot *Segment_addLineEnd(Segment *self, Slot *nSlot)',
   'subs':[[r'newSlot\(\)', 'Segment_newSlot(self)', 0], [r'silf\(\)->endLineGlyphid\(\)', 'Silf_endLineGlyphid(self->m_silf)', 0], [r'm_face->glyphs\(\)\.glyphSafe\(gid\)', 'Face_glyphSafe(self->m_face, gid)', 0],
           [r'setGlyph\(this,', 'setGlyph(self,', 0]],
   'methods':['setGlyph','next','prev','before','after'], 'self':['m_last']}@*/
/*@extract {'file':'src/Justifier.cpp', 'sig': r'void Segment::delLineEnd\(Slot \*s\)', 'emit':'void Segment_delLineEnd(Segment *self, Slot *s)',
   'subs':[[r'freeSlot\(s\)', 'Segment_freeSlot(self, s)', 0]], 'methods':['next','prev']}@*/
#endif

#ifdef JUSTIFY
typedef struct Font Font;
typedef int justFlags;
struct SilfJ { uint8 flags, dir, bidiPass, numPasses, justificationPass, positionPass; };
static struct SilfJ g_silf;
#define SILF (&g_silf)
static float Font_scale(const Font *f) { (void)f; return 1.0f; }
static Position Segment_positionSlots(Segment *self, const Font *font, Slot *a, Slot *b, int dir) { (void)self; (void)font; (void)a; (void)b; (void)dir; Position p; p.x = 0; p.y = 0; return p; }   /* stub: leaves the links alone (its own reverse/re-reverse pair: unit c03_reverse) */
static void Silf_runGraphite(Segment *seg, uint8 a, uint8 b) { (void)seg; (void)a; (void)b; }      /* stub: justification passes are ordinary passes (C03 mutators) */
static void swap_slots(Slot **a, Slot **b) { Slot *t = *a; *a = *b; *b = t; }
/* ghost model of the cut region: it only chooses the line's first/last base slots and `end` by walking attachment links */
Slot *g_pFirst, *g_pLast, *g_end;
#define GHOST_MIDDLE() do { pFirst = g_pFirst; pLast = g_pLast; end = g_end; } while (0)
/*@extract {'file':'src/Justifier.cpp', 'sig': r'float Segment::justify\(Slot \*pSlot, const Font \*font, float width, GR_MAYBE_UNUSED justFlags jflags, Slot \*pFirst, Slot \*pLast\)',
   'emit':'float Segment_justify(Segment *self, Slot *pSlot, const Font *font, float width, justFlags jflags, Slot *pFirst, Slot *pLast)',
   'cuts':[[r'if \(!pFirst\) pFirst = pSlot;', r'(Slot \*oldFirst = m_first;|if \(silf\(\)->flags\(\) & 1\)\s*\{\s*m_first = pSlot = addLineEnd)', '    GHOST_MIDDLE();']],
   'subs':[[r'Slot \*end = last\(\);', 'Slot *end = self->m_last;', 0], [r'font \? font->scale\(\) : 1\.0f', 'font ? Font_scale(font) : 1.0f', 0],
           [r'Position res;', 'Position res; res.x = 0; res.y = 0;', 0],
           [r'silf\(\)->flags\(\)', 'SILF->flags', 0], [r'm_silf->dir\(\)', 'SILF->dir', 0], [r'm_silf->bidiPass\(\)', 'SILF->bidiPass', 0], [r'm_silf->numPasses\(\)', 'SILF->numPasses', 0],
           [r'm_silf->justificationPass\(\)', 'SILF->justificationPass', 0], [r'm_silf->positionPass\(\)', 'SILF->positionPass', 0],
           [r'm_silf->runGraphite\(this,', 'Silf_runGraphite(self,', 0], [r'reverseSlots\(\)', 'Segment_reverseSlots(self)', 0], [r'std::swap\(pFirst, pLast\)', 'swap_slots(&pFirst, &pLast)', 0],
           [r'addLineEnd\(', 'Segment_addLineEnd(self, ', 0], [r'delLineEnd\(', 'Segment_delLineEnd(self, ', 0], [r'positionSlots\(', 'Segment_positionSlots(self, ', 0]],
   'self':['m_dir','m_first','m_last']}@*/
#endif

/* ------------------------------------------------------------------ harnesses */
bool nondet_bool(void); unsigned nondet_unsigned(void);

#if !defined(LINEEND) && !defined(JUSTIFY) && !defined(POSSLOTS)
void h_linebreak(void)
{
    havoc_links();
    Slot *first = pick_slot(), *last = pick_slot();
    int o0[NSLOTS], n0, oa[NSLOTS], na, ob[NSLOTS], nb;
    __CPROVER_assume(wf_list(first, last, o0, &n0));
    Slot *p = pick_slot();
    __CPROVER_assume(p && in_order(o0, n0, IDX(p)) && p->m_prev);        /* an interior slot: "gr_slot_linebreak_before at any interior slots" */
    Slot *pv = p->m_prev;
    Slot saved[NSLOTS]; for (int i = 0; i < NSLOTS; ++i) saved[i] = g_pool[i];
    gr_slot_linebreak_before(p);
    __CPROVER_assert(wf_list(first, pv, oa, &na) && wf_list(p, last, ob, &nb), "linebreak_before: both halves are well-formed chains");
    __CPROVER_assert(na + nb == n0, "linebreak_before: no slot is lost");
    for (int k = 0; k < NSLOTS; ++k) if (k < n0) __CPROVER_assert(k < na ? oa[k] == o0[k] : ob[k - na] == o0[k], "linebreak_before: same slots in the same order");
    for (int i = 0; i < NSLOTS; ++i) {
        __CPROVER_assert(g_pool[i].m_next == saved[i].m_next || &g_pool[i] == pv, "linebreak_before: only prev's next link changes");
        __CPROVER_assert(g_pool[i].m_prev == saved[i].m_prev || &g_pool[i] == p, "linebreak_before: only p's prev link changes");
        __CPROVER_assert(g_pool[i].m_sibling == saved[i].m_sibling || &g_pool[i] == pv, "linebreak_before: only prev's sibling link changes");
        __CPROVER_assert(g_pool[i].m_parent == saved[i].m_parent && g_pool[i].m_child == saved[i].m_child, "linebreak_before: attachments untouched");
    }
    CANARY();
}
#endif

#ifdef LINEEND
void h_line_end(void)
{
    havoc_links();
    Segment sg; sg.m_first = pick_slot(); sg.m_last = pick_slot(); sg.m_silf = 0; sg.m_face = 0;
    int o0[NSLOTS], n0, o1[NSLOTS], n1;
    __CPROVER_assume(wf_list(sg.m_first, sg.m_last, o0, &n0) && n0 >= 1);
    Slot *fresh = pick_slot();
    __CPROVER_assume(fresh && !in_order(o0, n0, IDX(fresh)));
    Slot_ctor(fresh, fresh->m_userAttr);
    g_free[0] = fresh; g_nfree = 1;
    Slot saved[NSLOTS]; for (int i = 0; i < NSLOTS; ++i) saved[i] = g_pool[i];
    Slot *f0 = sg.m_first, *l0 = sg.m_last;
    bool at_start = nondet_bool();
    /* justify: m_first = addLineEnd(pSlot) with pSlot the first slot of the line; m_last = addLineEnd(end) with end NULL at the end of the line */
    Slot *e = Segment_addLineEnd(&sg, at_start ? sg.m_first : (Slot *)0);
    __CPROVER_assert(e == fresh, "addLineEnd returns the new sentinel");
    if (at_start) sg.m_first = e; else sg.m_last = e;
    __CPROVER_assert(wf_list(sg.m_first, sg.m_last, o1, &n1) && n1 == n0 + 1, "with the sentinel the line is a well-formed chain of n+1 slots");
    Segment_delLineEnd(&sg, e);
    __CPROVER_assert(sg.m_first == f0 && sg.m_last == l0, "delLineEnd: first/last are back on the line's own ends");
    for (int i = 0; i < NSLOTS; ++i) if (&g_pool[i] != fresh)
        __CPROVER_assert(g_pool[i].m_next == saved[i].m_next && g_pool[i].m_prev == saved[i].m_prev, "addLineEnd then delLineEnd restores every link of every line slot");
    CANARY();
}
#endif

#ifdef JUSTIFY
void h_justify(void)
{
    havoc_links();
    Segment sg; sg.m_first = pick_slot(); sg.m_last = pick_slot(); sg.m_silf = 0; sg.m_face = 0;
    sg.m_dir = (int8)nondet_unsigned();
    int o0[NSLOTS], n0, o1[NSLOTS], n1;
    __CPROVER_assume(wf_list(sg.m_first, sg.m_last, o0, &n0) && n0 >= 1);
    g_silf.flags = 0;                                   /* fonts without line-end contextuals (the flag-bit path: unit c19_line_end) */
    g_silf.dir = (uint8)(nondet_unsigned() & 1); g_silf.bidiPass = (uint8)nondet_unsigned(); g_silf.numPasses = (uint8)nondet_unsigned();
    g_silf.justificationPass = (uint8)nondet_unsigned(); g_silf.positionPass = (uint8)nondet_unsigned();
    g_nfree = 0;
    /* the cut region leaves pFirst/pLast on slots of the line and end on pLast's sibling (any slot or NULL) */
    g_pFirst = pick_slot(); g_pLast = pick_slot(); g_end = pick_slot();
    __CPROVER_assume(g_pFirst && g_pLast && in_order(o0, n0, IDX(g_pFirst)) && in_order(o0, n0, IDX(g_pLast)));
    Slot *f0 = sg.m_first, *l0 = sg.m_last; int8 dir0 = sg.m_dir;
    float w = nondet_bool() ? 100.0f : -1.0f;          /* a negative width means "just run the justification passes" (early return for fonts without line-end flags) */
    float r = Segment_justify(&sg, sg.m_first, (const Font *)0, w, 0, (Slot *)0, (Slot *)0);
    (void)r;
    __CPROVER_assert(sg.m_first == f0 && sg.m_last == l0, "justify restores the segment's first and last slot");
    __CPROVER_assert(wf_list(sg.m_first, sg.m_last, o1, &n1) && n1 == n0, "after justify the line is still a well-formed chain with the same number of slots");
    for (int k = 0; k < NSLOTS; ++k) if (k < n0) __CPROVER_assert(o1[k] == o0[k], "after justify the slots are in the same order");
    __CPROVER_assert(sg.m_dir == dir0, "justify leaves the direction flags as they were");
    CANARY();
}
#endif

#ifdef POSSLOTS
void h_position(void)
{
    havoc_links();
    Segment sg; sg.m_first = pick_slot(); sg.m_last = pick_slot(); sg.m_silf = 0; sg.m_face = 0;
    sg.m_dir = (int8)nondet_unsigned();
    int o0[NSLOTS], n0, o1[NSLOTS], n1;
    __CPROVER_assume(wf_list(sg.m_first, sg.m_last, o0, &n0));
    /* justify passes the line's first slot and pLast / last(): slots of the stream, not necessarily in stream order
       (after gr_slot_linebreak_before last() lies on another line), or NULL */
    Slot *a = pick_slot(), *b = pick_slot();
    __CPROVER_assume(a == (Slot *)0 || in_order(o0, n0, IDX(a)));
    __CPROVER_assume(b == (Slot *)0 || in_order(o0, n0, IDX(b)));
    bool rtl = nondet_bool(), fin = nondet_bool();
    Position r = Segment_positionSlots(&sg, (const Font *)0, a, b, rtl, fin);
    (void)r;
    __CPROVER_assert(wf_list(sg.m_first, sg.m_last, o1, &n1) && n1 == n0, "after positionSlots the stream is still a well-formed chain with the same number of slots");
    CANARY();
}
#endif
