/* C01 / C18 - the name table behind gr_fref_label / gr_fref_value_label / gr_face_... language lookup (src/NameTable.cpp, src/Face.cpp,
 * src/gr_features.cpp).  The name table is attacker controlled: every byte and the length are arbitrary, buffers are exact-size.
 *
 *   NameTable::NameTable           unit c18_namector         (proof)  copy + header tests  =>  representation invariant NT_INV
 *   NameTable::setPlatformEncoding unit c18_name_setplat     (proof)  loop contracts: reads only records below count, finds the first maximal run
 *   NameTable::getLanguageId       units c18_name_langid*    (proof)  loop contracts: language-tag records and their strings stay inside the table
 *   gr_fref_label, gr_fref_value_label, gr_label_destroy, Face::nameTable     unit c18_label_api (proof, loop free)
 *
 * NT_INV (what the constructor establishes, and exactly what c18_name_select_*, c01_getname_copy and getLanguageId rely on):
 *     m_table == NULL  (then m_nameData == NULL, nothing allocated is left)      or
 *     m_table is a private block of `length` bytes that equals the caller's bytes, length > 18,
 *     6 + 12*count < length                     (records [0,count) - and record 0 even when count == 0 - lie inside the block)
 *     m_nameData == m_table + string_offset, string_offset < length, m_nameDataLength == (uint16)(length - string_offset)
 *                                               (so m_nameData[0 .. m_nameDataLength) lies inside the block)
 *     m_platformOffset <= m_platformLastRecord < max(count, 1)
 */
#include "types.h"
#define assert(x) __CPROVER_assert((x), "source assert: " #x)

/*@unit {'name':'c18_namector', 'props':['C01','C18'], 'entry':'h_ctor', 'enforce':'NameTable_ctor', 'replace':['NameTable_setPlatformEncoding'],
  'defines':['U_CTOR'], 'defines_quick':['U_CTOR','MAXN=256'], 'checks':['--memory-leak-check'],
  'witness_vars':['w_len','w_plat','w_enc'],
  'assumptions':['gralloc<byte>(n) is the extracted template over malloc (exact size n, may fail)', 'the member constructor Locale2Lang::Locale2Lang (static language list -> lookup trie) is cut: it does not touch the table',
                 'memcpy is the verifier\'s built-in model (array copy, bounds checked)'],
  'claims':'NameTable::NameTable(data, length, platform, encoding) for every length <= MAXN and arbitrary bytes: reads data[0,length) only; either m_table == NULL, m_nameData == NULL and the private copy is freed exactly once (or never allocated), or the representation invariant NT_INV holds: the copy is byte-identical, length > 18, 6 + 12*count < length, m_nameData = m_table + string_offset with string_offset < length, m_nameDataLength = uint16(length - string_offset), m_platformOffset <= m_platformLastRecord < max(count,1); the table is accepted exactly when the allocation succeeds and those three header tests hold'}@*/
/*@unit {'name':'c18_name_setplat', 'props':['C01','C18'], 'entry':'h_setplat', 'enforce':'NameTable_setPlatformEncoding', 'min_loops':2,
  'defines':['U_SETPLAT'], 'defines_quick':['U_SETPLAT','MAXN=256'],
  'witness_vars':['w_len','w_plat','w_enc'],
  'claims':'NameTable::setPlatformEncoding on a table satisfying NT_INV (any number of records that fits MAXN bytes): reads only records below count; if some record has the requested (platform, encoding) then m_platformOffset is the first such record and [m_platformOffset, m_platformLastRecord] is the maximal run of such records starting there (all below count); if none has, both indexes keep their values; m_platformId / m_encodingId are recorded; nothing else is written; a NameTable without string storage is left untouched'}@*/

/*@unit {'name':'c18_name_langid', 'props':['PARKED_name'], 'tiers':['parked'], 'entry':'h_langid', 'enforce':'NameTable_getLanguageId', 'replace':['strlen','Locale2Lang_getMsId'], 'min_loops':2,
  'defines':['U_LANGID','TAGCOUNT_INSIDE','ORACLE_MACRO','MAXN=256'], 'timeout':3600,
  'witness_vars':['w_len','w_n','w_refused'],
  'assumptions':['strlen(s) is replaced by the assumed contract "returns the length of the NUL-terminated string s" (libc, trusted)',
                 'Locale2Lang::getMsId (static ISO language list, trie lookup; outside the table parser) is cut: contract stub that is called with the caller\'s string and returns an arbitrary 16-bit id',
                 'GAP: beyond the constructor postcondition NT_INV this unit requires 8 + 12*count <= length, i.e. that the 16-bit language-tag count behind the name records lies inside the table; the constructor only guarantees 7 + 12*count <= length (see c18_name_langid_ctorpost)'],
  'claims':'NameTable::getLanguageId(locale) on a NameTable that satisfies NT_INV and whose table holds the 2 bytes of the language-tag count (arbitrary bytes, length <= MAXN, locale of any length <= MAXN in an exact-size buffer): every read of the tag count, the tag records and the tag strings stays inside the private copy, the locale string is read only below its terminator; the result is either the id Locale2Lang::getMsId gives for the locale, or 0x8000 + t where the table has format 1, t is below the tag count, the tag records lie before the string storage, tag t lies inside the string storage, has 2*strlen(locale) bytes and each of its UTF-16BE units is <= 0x7F and equals the corresponding locale character; without table or with another format the result is the getMsId id; nothing is written'}@*/
/*@unit {'name':'c18_name_langid_ctorpost', 'props':['PARKED_name'], 'tiers':['parked'], 'entry':'h_langid', 'enforce':'NameTable_getLanguageId', 'replace':['strlen','Locale2Lang_getMsId'], 'min_loops':2,
  'defines':['U_LANGID','ORACLE_MACRO','MAXN=256'], 'timeout':3600,
  'witness_vars':['w_len','w_n','w_refused'], 'replay':'name',
  'assumptions':['as c18_name_langid, without the extra requirement: exactly the constructor postcondition NT_INV'],
  'claims':'(EXPECTED TO FAIL on the unchanged tree: genuine defect) NameTable::getLanguageId on exactly the constructor postcondition: the 2-byte language-tag count at offset 6 + 12*count is read although the constructor only admits length >= 7 + 12*count - a format-1 table of exactly 7 + 12*count bytes (count >= 1) is read one byte past its end'}@*/
/*@unit {'name':'c18_name_langid_e2e_k4', 'props':['C01','C18'], 'entry':'h_langid_b', 'kind':'bounded', 'unwind':4, 'unwindset':['run_langid.0:6'], 'object_bits':11, 'loop_contracts':False,
  'defines':['U_LANGID_B','U_CTOR_BODY','LBK=4','TAGCOUNT_INSIDE'], 'checks':['--memory-leak-check'], 'witness_vars':['w_b','w_n','w_loc'],
  'bound':'name table of exactly 4 bytes (exact-size buffer, every byte arbitrary), locale strings of 0..2 characters (exact-size, characters arbitrary non-NUL)',
  'assumptions':['Locale2Lang::getMsId is cut (returns an arbitrary id); the Locale2Lang member constructor is cut', 'gralloc may fail',
                 'GAP: format-1 tables whose 16-bit language-tag count does not lie inside the table (length == 7 + 12*count) are excluded: they are the genuine over-read shown by c18_name_langid_e2e_defect_*'],
  'claims':'end to end on the real code: NameTable::NameTable(table) + getLanguageId(locale) + destructor on a 4-byte table: no access outside the table copy / the locale string, nothing leaks, the table is accepted exactly when the header tests hold, and the result is exactly 0x8000 + t for the FIRST language tag t of a format-1 table that lies inside the string storage and spells the locale in UTF-16BE (tag records wholly before the string storage), else the Locale2Lang id; refused tables give the Locale2Lang id'}@*/
/*@unit {'name':'c18_name_langid_e2e_k18', 'props':['C01','C18'], 'entry':'h_langid_b', 'kind':'bounded', 'unwind':4, 'unwindset':['run_langid.0:20'], 'object_bits':11, 'loop_contracts':False,
  'defines':['U_LANGID_B','U_CTOR_BODY','LBK=18','TAGCOUNT_INSIDE'], 'checks':['--memory-leak-check'], 'witness_vars':['w_b','w_n','w_loc'],
  'bound':'name table of exactly 18 bytes (exact-size buffer, every byte arbitrary), locale strings of 0..2 characters (exact-size, characters arbitrary non-NUL)',
  'assumptions':['Locale2Lang::getMsId is cut (returns an arbitrary id); the Locale2Lang member constructor is cut', 'gralloc may fail',
                 'GAP: format-1 tables whose 16-bit language-tag count does not lie inside the table (length == 7 + 12*count) are excluded: they are the genuine over-read shown by c18_name_langid_e2e_defect_*'],
  'claims':'end to end on the real code: NameTable::NameTable(table) + getLanguageId(locale) + destructor on a 18-byte table: no access outside the table copy / the locale string, nothing leaks, the table is accepted exactly when the header tests hold, and the result is exactly 0x8000 + t for the FIRST language tag t of a format-1 table that lies inside the string storage and spells the locale in UTF-16BE (tag records wholly before the string storage), else the Locale2Lang id; refused tables give the Locale2Lang id'}@*/
/*@unit {'name':'c18_name_langid_e2e_k19', 'props':['C01','C18'], 'entry':'h_langid_b', 'kind':'bounded', 'unwind':4, 'unwindset':['run_langid.0:21'], 'object_bits':11, 'loop_contracts':False,
  'defines':['U_LANGID_B','U_CTOR_BODY','LBK=19','TAGCOUNT_INSIDE'], 'checks':['--memory-leak-check'], 'witness_vars':['w_b','w_n','w_loc'],
  'bound':'name table of exactly 19 bytes (exact-size buffer, every byte arbitrary), locale strings of 0..2 characters (exact-size, characters arbitrary non-NUL)',
  'assumptions':['Locale2Lang::getMsId is cut (returns an arbitrary id); the Locale2Lang member constructor is cut', 'gralloc may fail',
                 'GAP: format-1 tables whose 16-bit language-tag count does not lie inside the table (length == 7 + 12*count) are excluded: they are the genuine over-read shown by c18_name_langid_e2e_defect_*'],
  'claims':'end to end on the real code: NameTable::NameTable(table) + getLanguageId(locale) + destructor on a 19-byte table: no access outside the table copy / the locale string, nothing leaks, the table is accepted exactly when the header tests hold, and the result is exactly 0x8000 + t for the FIRST language tag t of a format-1 table that lies inside the string storage and spells the locale in UTF-16BE (tag records wholly before the string storage), else the Locale2Lang id; refused tables give the Locale2Lang id'}@*/
/*@unit {'name':'c18_name_langid_e2e_k20', 'props':['C01','C18'], 'entry':'h_langid_b', 'kind':'bounded', 'unwind':5, 'unwindset':['run_langid.0:22'], 'object_bits':11, 'loop_contracts':False,
  'defines':['U_LANGID_B','U_CTOR_BODY','LBK=20','TAGCOUNT_INSIDE'], 'checks':['--memory-leak-check'], 'witness_vars':['w_b','w_n','w_loc'],
  'bound':'name table of exactly 20 bytes (exact-size buffer, every byte arbitrary), locale strings of 0..2 characters (exact-size, characters arbitrary non-NUL)',
  'assumptions':['Locale2Lang::getMsId is cut (returns an arbitrary id); the Locale2Lang member constructor is cut', 'gralloc may fail',
                 'GAP: format-1 tables whose 16-bit language-tag count does not lie inside the table (length == 7 + 12*count) are excluded: they are the genuine over-read shown by c18_name_langid_e2e_defect_*'],
  'claims':'end to end on the real code: NameTable::NameTable(table) + getLanguageId(locale) + destructor on a 20-byte table: no access outside the table copy / the locale string, nothing leaks, the table is accepted exactly when the header tests hold, and the result is exactly 0x8000 + t for the FIRST language tag t of a format-1 table that lies inside the string storage and spells the locale in UTF-16BE (tag records wholly before the string storage), else the Locale2Lang id; refused tables give the Locale2Lang id'}@*/
/*@unit {'name':'c18_name_langid_e2e_k31', 'props':['C01','C18'], 'entry':'h_langid_b', 'kind':'bounded', 'unwind':7, 'unwindset':['run_langid.0:33'], 'object_bits':11, 'loop_contracts':False,
  'defines':['U_LANGID_B','U_CTOR_BODY','LBK=31','TAGCOUNT_INSIDE'], 'checks':['--memory-leak-check'], 'witness_vars':['w_b','w_n','w_loc'],
  'bound':'name table of exactly 31 bytes (exact-size buffer, every byte arbitrary), locale strings of 0..2 characters (exact-size, characters arbitrary non-NUL)',
  'assumptions':['Locale2Lang::getMsId is cut (returns an arbitrary id); the Locale2Lang member constructor is cut', 'gralloc may fail',
                 'GAP: format-1 tables whose 16-bit language-tag count does not lie inside the table (length == 7 + 12*count) are excluded: they are the genuine over-read shown by c18_name_langid_e2e_defect_*'],
  'claims':'end to end on the real code: NameTable::NameTable(table) + getLanguageId(locale) + destructor on a 31-byte table: no access outside the table copy / the locale string, nothing leaks, the table is accepted exactly when the header tests hold, and the result is exactly 0x8000 + t for the FIRST language tag t of a format-1 table that lies inside the string storage and spells the locale in UTF-16BE (tag records wholly before the string storage), else the Locale2Lang id; refused tables give the Locale2Lang id'}@*/
/*@unit {'name':'c18_name_langid_e2e_k32', 'props':['C01','C18'], 'entry':'h_langid_b', 'kind':'bounded', 'unwind':8, 'unwindset':['run_langid.0:34'], 'object_bits':11, 'loop_contracts':False,
  'defines':['U_LANGID_B','U_CTOR_BODY','LBK=32','TAGCOUNT_INSIDE'], 'checks':['--memory-leak-check'], 'witness_vars':['w_b','w_n','w_loc'],
  'bound':'name table of exactly 32 bytes (exact-size buffer, every byte arbitrary), locale strings of 0..2 characters (exact-size, characters arbitrary non-NUL)',
  'assumptions':['Locale2Lang::getMsId is cut (returns an arbitrary id); the Locale2Lang member constructor is cut', 'gralloc may fail',
                 'GAP: format-1 tables whose 16-bit language-tag count does not lie inside the table (length == 7 + 12*count) are excluded: they are the genuine over-read shown by c18_name_langid_e2e_defect_*'],
  'claims':'end to end on the real code: NameTable::NameTable(table) + getLanguageId(locale) + destructor on a 32-byte table: no access outside the table copy / the locale string, nothing leaks, the table is accepted exactly when the header tests hold, and the result is exactly 0x8000 + t for the FIRST language tag t of a format-1 table that lies inside the string storage and spells the locale in UTF-16BE (tag records wholly before the string storage), else the Locale2Lang id; refused tables give the Locale2Lang id'}@*/
/*@unit {'name':'c18_name_langid_e2e_k40', 'props':['C01','C18'], 'entry':'h_langid_b', 'kind':'bounded', 'unwind':10, 'unwindset':['run_langid.0:42'], 'object_bits':11, 'loop_contracts':False,
  'defines':['U_LANGID_B','U_CTOR_BODY','LBK=40','TAGCOUNT_INSIDE'], 'checks':['--memory-leak-check'], 'witness_vars':['w_b','w_n','w_loc'],
  'bound':'name table of exactly 40 bytes (exact-size buffer, every byte arbitrary), locale strings of 0..2 characters (exact-size, characters arbitrary non-NUL)',
  'assumptions':['Locale2Lang::getMsId is cut (returns an arbitrary id); the Locale2Lang member constructor is cut', 'gralloc may fail',
                 'GAP: format-1 tables whose 16-bit language-tag count does not lie inside the table (length == 7 + 12*count) are excluded: they are the genuine over-read shown by c18_name_langid_e2e_defect_*'],
  'claims':'end to end on the real code: NameTable::NameTable(table) + getLanguageId(locale) + destructor on a 40-byte table: no access outside the table copy / the locale string, nothing leaks, the table is accepted exactly when the header tests hold, and the result is exactly 0x8000 + t for the FIRST language tag t of a format-1 table that lies inside the string storage and spells the locale in UTF-16BE (tag records wholly before the string storage), else the Locale2Lang id; refused tables give the Locale2Lang id'}@*/
/*@unit {'name':'c18_name_langid_e2e_defect_19', 'props':['C01','C18'], 'entry':'h_langid_b', 'kind':'bounded', 'unwind':4, 'unwindset':['run_langid.0:21'], 'object_bits':11, 'loop_contracts':False,
  'defines':['U_LANGID_B','U_CTOR_BODY','LBK=19'], 'checks':['--memory-leak-check'], 'witness_vars':['w_b','w_n','w_loc'], 'replay':'name',
  'bound':'name table of exactly 19 bytes (exact-size buffer, every byte arbitrary), locale strings of 0..2 characters',
  'claims':'(EXPECTED TO FAIL on the unchanged tree: genuine defect) as c18_name_langid_e2e_k19 without the exclusion: a format-1 name table of exactly 7 + 12*count bytes passes the constructor and getLanguageId reads the 16-bit language-tag count one byte past the end of the copy'}@*/
/*@unit {'name':'c18_name_langid_e2e_defect_31', 'props':['C01','C18'], 'entry':'h_langid_b', 'kind':'bounded', 'unwind':7, 'unwindset':['run_langid.0:33'], 'object_bits':11, 'loop_contracts':False,
  'defines':['U_LANGID_B','U_CTOR_BODY','LBK=31'], 'checks':['--memory-leak-check'], 'witness_vars':['w_b','w_n','w_loc'], 'replay':'name',
  'bound':'name table of exactly 31 bytes (exact-size buffer, every byte arbitrary), locale strings of 0..2 characters',
  'claims':'(EXPECTED TO FAIL on the unchanged tree: genuine defect) as c18_name_langid_e2e_k31 without the exclusion: a format-1 name table of exactly 7 + 12*count bytes passes the constructor and getLanguageId reads the 16-bit language-tag count one byte past the end of the copy'}@*/
/*@unit {'name':'c18_label_api', 'props':['C01','C18','C16'], 'entry':'h_label', 'replace':['NameTable_getName'], 'unwind':4,
  'defines':['U_API=1'], 'defines_quick':['U_API=1','MAXN=256'], 'checks':['--memory-leak-check'],
  'witness_vars':['w_null_fref','w_have_table','w_cached','w_value','w_setting','w_nset','w_len'],
  'assumptions':['NameTable::NameTable and NameTable::getName are stubs here: the constructor stub is a body that restates the contract proved by c18_namector (either refused: m_table = m_nameData = NULL, or a fresh block of `length` bytes with arbitrary contents satisfying NT_INV), getName returns NULL or a heap block it allocated (units c18_name_select_*, c01_getname_copy, c18_getname_*) and its precondition is NT_INV',
                 'Face::Table name(*this, Tag::name) is a stub handing out the client table or nothing (constructor / release contracts: spec/c16_table.c); its destructor is modelled by the harness releasing the table as soon as the API returns',
                 'the new-expression `new NameTable(...)` does not yield NULL: NameTable::operator new (CLASS_NEW_DELETE) is not noexcept, so a NULL result of gralloc is undefined behaviour in C++ (the constructor would run on address 0) - same assumption as c16_readfeats; the allocation of the table copy inside the constructor may fail',
                 'default arguments platformId = 3, encodingID = 1 of the constructor are supplied by the model of the new-expression'],
  'claims':'gr_fref_label / gr_fref_value_label / Face::nameTable / gr_label_destroy: NULL feature ref or setting >= getNumSettings() -> NULL without touching anything; no name table -> NULL, no NameTable created, *langId and *length untouched; otherwise the NameTable is created once from exactly the table bytes and size the client handed out (platform 3, encoding 1), cached in the face and reused by later calls (no second get_table / allocation), getName is called once on it - in a state satisfying its precondition NT_INV - with the feature\'s name id (m_nameid, resp. the label id of setting `setting`), the caller\'s encoding and the caller\'s langId / length objects, its result is returned unchanged, and gr_label_destroy frees exactly that block once; the borrowed table is not needed after the call; nothing leaks after ~Face (delete m_pNames)'}@*/

/*@include endian.tc@*/
bool nondet_bool(void); size_t nondet_size_t(void); unsigned nondet_unsigned(void);

/* ------------------------------------------------------------------ shim structs: the real data members, copied from the headers */
typedef struct NameRecord {
/*@extract {'kind':'members', 'file':'src/inc/TtfTypes.h', 'scope': r'struct NameRecord\s*\{', 'names':['platform_id','platform_specific_id','language_id','name_id','length','offset']}@*/
} NameRecord;
typedef struct LangTagRecord {
/*@extract {'kind':'members', 'file':'src/inc/TtfTypes.h', 'scope': r'struct LangTagRecord\s*\{', 'names':['length','offset']}@*/
} LangTagRecord;
typedef struct FontNames {
/*@extract {'kind':'members', 'file':'src/inc/TtfTypes.h', 'scope': r'struct FontNames\s*\{', 'names':['format','count','string_offset','name_record']}@*/
} FontNames;
typedef struct Locale2Lang { int mSeedPosition; } Locale2Lang;        /* cut: static language list, see assumptions */
typedef struct NameTable {
/*@extract {'kind':'members', 'file':'src/inc/NameTable.h', 'scope': r'class NameTable\s*\{', 'names':['m_platformId','m_encodingId','m_languageCount','m_platformOffset','m_platformLastRecord','m_nameDataLength','m_table','m_nameData','m_locale2Lang'],
   'subs':[[r'TtfUtil::Sfnt::', '', 0]]}@*/
} NameTable;

/* ------------------------------------------------------------------ ghost state */
NameTable   *g_self;            /* the object under construction / the receiver                                   */
const uint8 *g_data;            /* the caller's table bytes (exact-size)                                           */
size_t       g_len;             /* ... and their number                                                            */
const uint8 *g_blk;             /* the block the NameTable allocated for its private copy (ledger of one)          */
size_t       g_blk_len;         /* its size as requested                                                           */
unsigned     g_allocs, g_freed; /* malloc calls by the library / free calls on g_blk                               */
size_t       g_k, g_j;          /* ghost indexes: "for every byte / record k", "for every record j of the run"       */

const char  *g_loc;             /* the caller's locale string: exact-size buffer of g_loc_n + 1 bytes, NUL at g_loc_n */
size_t       g_loc_n;
uint16       g_msid;            /* what Locale2Lang::getMsId answers                                               */
unsigned     g_msid_calls;

/* the big-endian fields of a name table, read bytewise (oracle; independent of be::swap) */
/* a function, not a macro: its two dereferences are then two obligations of the whole unit instead of two per use */
static uint16 F16(const uint8 *p, size_t o) { return (uint16)((p[o] << 8) | p[o + 1]); }
#define M16(p, o)        ((uint16)(((p)[(o)] << 8) | (p)[(o) + 1]))     /* macro form for loop invariants (function calls are not admitted there) */
#define MR_MATCH(p, i, plat, enc)  (M16(p, 6 + 12 * (size_t)(i)) == (plat) && M16(p, 8 + 12 * (size_t)(i)) == (enc))
#ifdef ORACLE_MACRO
#define B16(p, o)        M16(p, o)
#else
#define B16(p, o)        F16(p, o)
#endif
#define T_FORMAT(p)      B16(p, 0)
#define T_COUNT(p)       B16(p, 2)
#define T_STROFF(p)      B16(p, 4)
#define R_PLAT(p, i)     B16(p, 6 + 12 * (size_t)(i))
#define R_ENC(p, i)      B16(p, 8 + 12 * (size_t)(i))
#define R_MATCH(p, i, plat, enc)  (R_PLAT(p, i) == (plat) && R_ENC(p, i) == (enc))
/* records [0,count) (and record 0) inside a block of n bytes */
#define HDR_OK(p, n)     ((n) > 18 && 6 + 12 * (size_t)T_COUNT(p) < (n))

/* the run of the (platform, encoding) pair was found: [offset, last] lies below count, starts with a record that has the pair, every record g_j
   in it has the pair, and the record after it (if any) has not */
#define RUN_FOUND(s, plat, enc) ((s)->m_platformOffset < T_COUNT(g_blk) && R_MATCH(g_blk, (s)->m_platformOffset, plat, enc) \
    && (s)->m_platformOffset <= (s)->m_platformLastRecord && (s)->m_platformLastRecord < T_COUNT(g_blk) \
    && (((s)->m_platformOffset <= g_j && g_j <= (s)->m_platformLastRecord) ==> R_MATCH(g_blk, g_j, plat, enc)) \
    && ((size_t)(s)->m_platformLastRecord + 1 < T_COUNT(g_blk) ==> !R_MATCH(g_blk, (size_t)(s)->m_platformLastRecord + 1, plat, enc)))
/* language-tag records of a format-1 table: a 16-bit count behind the name records, then (length, offset) pairs */
#define L_BASE(p)        (6 + 12 * (size_t)T_COUNT(p))
#define L_COUNT(p)       B16(p, L_BASE(p))
#define L_LEN(p, t)      B16(p, L_BASE(p) + 2 + 4 * (size_t)(t))
#define L_OFF(p, t)      B16(p, L_BASE(p) + 4 + 4 * (size_t)(t))
#define L_UNIT(p, t, j)  B16(p, (size_t)T_STROFF(p) + L_OFF(p, t) + 2 * (size_t)(j))
/* tag t is the locale (as far as character g_j is concerned) */
#define TAG_IS_LOCALE(s, p, t) ((t) < L_COUNT(p) && L_BASE(p) + 2 + 4 * (size_t)L_COUNT(p) <= T_STROFF(p) \
    && (size_t)L_OFF(p, t) + L_LEN(p, t) <= (s)->m_nameDataLength && L_LEN(p, t) == 2 * g_loc_n \
    && (g_j < g_loc_n ==> (L_UNIT(p, t, g_j) <= 0x7F && (int)L_UNIT(p, t, g_j) == (int)g_loc[g_j])))
/* NT_INV for an accepted table held in the ledger block */
#define NT_INV(s) ((s)->m_table == (const FontNames *)g_blk && g_blk != NULL && OFF(g_blk) == 0 && OBJSZ(g_blk) == g_blk_len && g_blk_len <= MAXN \
    && HDR_OK(g_blk, g_blk_len) && T_STROFF(g_blk) < g_blk_len && (s)->m_nameData == g_blk + T_STROFF(g_blk) \
    && (s)->m_nameDataLength == (uint16)(g_blk_len - T_STROFF(g_blk)) \
    && (s)->m_platformOffset <= (s)->m_platformLastRecord && (s)->m_platformLastRecord < (T_COUNT(g_blk) ? T_COUNT(g_blk) : 1))

/* ------------------------------------------------------------------ allocator: the extracted gralloc<byte> over an instrumented malloc */
static void *MALLOC_tbl(size_t n)
{   /* exact-size block or NULL */
    g_allocs++;
    if (nondet_bool()) return NULL;
    uint8 *p = malloc(n); __CPROVER_assume(p != NULL);
    g_blk = p; g_blk_len = n;
    return p;
}
static void gfree(void *p) { if (p != NULL && p == (void *)g_blk) g_freed++; free(p); }
/*@extract {'file':'src/inc/Main.h', 'sig': r'bool checked_mul\(const size_t a, const size_t b, size_t & t\)\s*(?=\{\s*return __builtin_mul_overflow)',
            'emit':'static bool checked_mul(const size_t a, const size_t b, size_t *t)', 'refs':['t']}@*/
/*@extract {'file':'src/inc/Main.h', 'sig': r'template <typename T> T \* gralloc\(size_t n\)', 'emit':'static byte *gralloc_byte(size_t n)', 'casts': True,
            'subs':[[r'checked_mul\(n, sizeof\(T\), total\)', 'checked_mul(n, sizeof(T), &total)', 0], [r'\bT\b', 'byte', 0], [r'\bmalloc\(', 'MALLOC_tbl(', 0]]}@*/

/* ------------------------------------------------------------------ contracts */
uint16 NameTable_setPlatformEncoding(NameTable *self, uint16 platformId, uint16 encodingID)
__CPROVER_requires(self == g_self)
/* call site (constructor) / public method on a constructed object: no string storage, or the header tests passed on the block */
__CPROVER_requires(self->m_nameData == NULL || (self->m_table == (const FontNames *)g_blk && g_blk != NULL && OFF(g_blk) == 0 && OBJSZ(g_blk) == g_blk_len
                                                && g_blk_len <= MAXN && HDR_OK(g_blk, g_blk_len)))
__CPROVER_assigns(self->m_platformOffset, self->m_platformLastRecord, self->m_encodingId, self->m_platformId)
__CPROVER_ensures(__CPROVER_return_value == 0)
/* no storage: untouched */
__CPROVER_ensures(self->m_nameData != NULL || (self->m_platformOffset == __CPROVER_old(self->m_platformOffset) && self->m_platformLastRecord == __CPROVER_old(self->m_platformLastRecord)
                                               && self->m_platformId == __CPROVER_old(self->m_platformId) && self->m_encodingId == __CPROVER_old(self->m_encodingId)))
__CPROVER_ensures(self->m_nameData == NULL || (self->m_platformId == platformId && self->m_encodingId == encodingID))
/* changed => found */
__CPROVER_ensures((self->m_nameData != NULL && (self->m_platformOffset != __CPROVER_old(self->m_platformOffset) || self->m_platformLastRecord != __CPROVER_old(self->m_platformLastRecord)))
                  ==> RUN_FOUND(self, platformId, encodingID))
/* a record g_k with the pair exists  =>  found, and m_platformOffset is not after g_k (g_k arbitrary: it is the first such record);
   hence also: no record has the pair <= both indexes keep their values (clause above) */
__CPROVER_ensures((self->m_nameData != NULL && g_k < T_COUNT(g_blk) && R_MATCH(g_blk, g_k, platformId, encodingID))
                  ==> (self->m_platformOffset <= g_k && RUN_FOUND(self, platformId, encodingID)));

void NameTable_ctor(NameTable *self, const void *data, size_t length, uint16 platformId, uint16 encodingID)
__CPROVER_requires(self == g_self && data == (const void *)g_data && length == g_len && g_len <= MAXN && g_allocs == 0 && g_freed == 0 && g_blk == NULL)
__CPROVER_assigns(self->m_platformId, self->m_encodingId, self->m_languageCount, self->m_platformOffset, self->m_platformLastRecord,
                  self->m_nameDataLength, self->m_table, self->m_nameData, g_blk, g_blk_len, g_allocs, g_freed)
/* one allocation request, of exactly `length` bytes */
__CPROVER_ensures(g_allocs == 1 && (g_blk == NULL || g_blk_len == length))
/* refused (or out of memory): no table, no string storage, the copy is gone */
__CPROVER_ensures(self->m_table != NULL || (self->m_nameData == NULL && (g_blk == NULL || g_freed == 1) && self->m_nameDataLength == 0
                                            && self->m_platformOffset == 0 && self->m_platformLastRecord == 0))
/* accepted: the representation invariant, on the block that was allocated, which is still live */
__CPROVER_ensures(self->m_table == NULL || (g_freed == 0 && NT_INV(self)))
__CPROVER_ensures(self->m_table == NULL || (self->m_platformId == platformId && self->m_encodingId == encodingID))
__CPROVER_ensures(self->m_languageCount == 0)
/* the copy is the caller's table */
__CPROVER_ensures((self->m_table != NULL && g_k < length) ==> g_blk[g_k] == g_data[g_k])
/* accepted exactly when the memory was there and the three header tests hold on the caller's bytes */
__CPROVER_ensures((self->m_table != NULL) == (g_blk != NULL && HDR_OK(g_data, length) && T_STROFF(g_data) < length));

#ifndef U_LANGID_B
/* libc strlen: assumed contract (trusted) */
size_t strlen(const char *s)
__CPROVER_requires(s == g_loc)
__CPROVER_ensures(__CPROVER_return_value == g_loc_n)
__CPROVER_assigns();
/* Locale2Lang::getMsId: cut (see assumptions) */
unsigned short Locale2Lang_getMsId(const Locale2Lang *self, const char *locale)
__CPROVER_requires(self == &g_self->m_locale2Lang && locale == g_loc)
__CPROVER_assigns(g_msid_calls)
__CPROVER_ensures(__CPROVER_return_value == g_msid && g_msid_calls == __CPROVER_old(g_msid_calls) + 1);
#endif

#ifdef TAGCOUNT_INSIDE
#define TAGCOUNT_REQ(s) ((s)->m_table == NULL || L_BASE(g_blk) + 2 <= g_blk_len)
#else
#define TAGCOUNT_REQ(s) 1
#endif
uint16 NameTable_getLanguageId(NameTable *self, const char *bcp47Locale)
__CPROVER_requires(self == g_self && bcp47Locale == g_loc && g_loc != NULL && g_loc_n <= MAXN && OFF(g_loc) == 0 && OBJSZ(g_loc) == g_loc_n + 1 && g_msid_calls == 0)
__CPROVER_requires(self->m_table == NULL || NT_INV(self))                 /* exactly the constructor postcondition */
__CPROVER_requires(TAGCOUNT_REQ(self))                                     /* the gap */
__CPROVER_assigns(g_msid_calls)
__CPROVER_ensures(g_msid_calls == 1)
__CPROVER_ensures((self->m_table == NULL || T_FORMAT(g_blk) != 1) ==> __CPROVER_return_value == g_msid)
__CPROVER_ensures(__CPROVER_return_value == g_msid
                  || (self->m_table != NULL && T_FORMAT(g_blk) == 1 && __CPROVER_return_value >= 0x8000 && TAG_IS_LOCALE(self, g_blk, __CPROVER_return_value - 0x8000)));

/* ------------------------------------------------------------------ extracted code */
#if defined(U_CTOR) || defined(U_SETPLAT)
/*@extract {'file':'src/NameTable.cpp', 'sig': r'uint16 NameTable::setPlatformEncoding\(uint16 platformId, uint16 encodingID\)', 'emit':'uint16 NameTable_setPlatformEncoding(NameTable *self, uint16 platformId, uint16 encodingID)',
   'subs':[[r'be::swap<(\w+)>\(', r'be_swap_\1(', 0], [r'm_table->name_record\[', '(&m_table->name_record[0])[', 0]],
   'self':['m_nameData','m_table','m_platformOffset','m_platformLastRecord','m_encodingId','m_platformId'],
   'loops':{1: """__CPROVER_assigns(i, self->m_platformOffset, self->m_platformLastRecord)
                  __CPROVER_loop_invariant(i <= count)
                  __CPROVER_loop_invariant(self->m_platformOffset == __CPROVER_loop_entry(self->m_platformOffset) && self->m_platformLastRecord == __CPROVER_loop_entry(self->m_platformLastRecord))
                  __CPROVER_loop_invariant((g_k < i && g_k < count) ==> !MR_MATCH(g_blk, g_k, platformId, encodingID))
                  __CPROVER_decreases(count - i)""",
            2: """__CPROVER_assigns(i, self->m_platformLastRecord)
                  __CPROVER_loop_invariant(i <= count)
                  __CPROVER_loop_invariant(i == count ==> (i == __CPROVER_loop_entry(i) && self->m_platformLastRecord == __CPROVER_loop_entry(self->m_platformLastRecord)))
                  __CPROVER_loop_invariant(i < count ==> (self->m_platformLastRecord == i && self->m_platformOffset <= i
                                           && MR_MATCH(g_blk, self->m_platformOffset, platformId, encodingID)
                                           && ((self->m_platformOffset <= g_j && g_j <= i) ==> MR_MATCH(g_blk, g_j, platformId, encodingID))))
                  __CPROVER_decreases(count - i)"""}}@*/
#endif

#ifdef U_LANGID_B
/* plain bodies (no loop contracts) for the bounded end-to-end unit */
static unsigned short Locale2Lang_getMsId(const Locale2Lang *self, const char *locale) { g_msid_calls++; __CPROVER_assert(locale == g_loc, "getMsId is asked about the caller's locale string"); return g_msid; }
/*@extract {'file':'src/NameTable.cpp', 'sig': r'uint16 NameTable::setPlatformEncoding\(uint16 platformId, uint16 encodingID\)', 'emit':'uint16 NameTable_setPlatformEncoding(NameTable *self, uint16 platformId, uint16 encodingID)',
   'subs':[[r'be::swap<(\w+)>\(', r'be_swap_\1(', 0], [r'm_table->name_record\[', '(&m_table->name_record[0])[', 0]],
   'self':['m_nameData','m_table','m_platformOffset','m_platformLastRecord','m_encodingId','m_platformId']}@*/
/*@extract {'file':'src/NameTable.cpp', 'sig': r'uint16 NameTable::getLanguageId\(const char \* bcp47Locale\)', 'emit':'uint16 NameTable_getLanguageId(NameTable *self, const char *bcp47Locale)', 'casts':True,
   'subs':[[r'TtfUtil::Sfnt::', '', 0], [r'be::swap<(\w+)>\(', r'be_swap_\1(', 0], [r'be::read<(\w+)>\((\w+)\)', r'be_read_\1(&\2)', 0],
           [r'm_locale2Lang\.getMsId\(', 'Locale2Lang_getMsId(&self->m_locale2Lang, ', 0]],
   'self':['m_table','m_nameData','m_nameDataLength']}@*/
#endif

#if defined(U_CTOR) || defined(U_CTOR_BODY)
/*@extract {'file':'src/NameTable.cpp', 'sig': r'NameTable::NameTable\(const void\* data, size_t length, uint16 platformId, uint16 encodingID\)', 'ctor':True, 'casts':True,
   'emit':'void NameTable_ctor(NameTable *self, const void *data, size_t length, uint16 platformId, uint16 encodingID)',
   'subs':[[r'gralloc<byte>\(', 'gralloc_byte(', 0], [r'TtfUtil::Sfnt::', '', 0], [r'be::swap<(\w+)>\(', r'be_swap_\1(', 0],
           [r'(?<![\w>.])setPlatformEncoding\(', 'NameTable_setPlatformEncoding(self, ', 0], [r'\bfree\(', 'gfree(', 0]],
   'self':['m_platformId','m_encodingId','m_languageCount','m_platformOffset','m_platformLastRecord','m_nameDataLength','m_table','m_nameData']}@*/
#endif

#ifdef U_LANGID
/*@extract {'file':'src/NameTable.cpp', 'sig': r'uint16 NameTable::getLanguageId\(const char \* bcp47Locale\)', 'emit':'uint16 NameTable_getLanguageId(NameTable *self, const char *bcp47Locale)', 'casts':True,
   'subs':[[r'TtfUtil::Sfnt::', '', 0], [r'be::swap<(\w+)>\(', r'be_swap_\1(', 0], [r'be::read<(\w+)>\((\w+)\)', r'be_read_\1(&\2)', 0],
           [r'm_locale2Lang\.getMsId\(', 'Locale2Lang_getMsId(&self->m_locale2Lang, ', 0]],
   'self':['m_table','m_nameData','m_nameDataLength'],
   'loops':{1: """__CPROVER_assigns(i)
                  __CPROVER_loop_invariant(i <= numLangEntries)
                  __CPROVER_decreases(numLangEntries - i)""",
            2: """__CPROVER_assigns(j, pName, match)
                  __CPROVER_loop_invariant(j <= localeLength && match == true)
                  __CPROVER_loop_invariant(SAME(pName, g_blk) && OFF(pName) == OFF(self->m_nameData) + offset + 2 * j)
                  __CPROVER_loop_invariant(g_j < j ==> (M16(self->m_nameData, (size_t)offset + 2 * g_j) <= 0x7F && (int)M16(self->m_nameData, (size_t)offset + 2 * g_j) == (int)g_loc[g_j]))
                  __CPROVER_decreases(localeLength - j)"""}}@*/
#endif

#ifdef U_API
/* ------------------------------------------------------------------ gr_fref_label / gr_fref_value_label / gr_label_destroy / Face::nameTable */
typedef int gr_encform;
enum { gr_utf8 = 1, gr_utf16 = 2, gr_utf32 = 4 };                  /* include/graphite2/Types.h */
typedef struct Face Face;
typedef struct FeatureSetting {
/*@extract {'if':'U_API=1', 'kind':'members', 'file':'src/inc/FeatureMap.h', 'scope': r'class FeatureSetting\s*\{', 'names':['m_label','m_value']}@*/
} FeatureSetting;
typedef struct FeatureRef {
/*@extract {'if':'U_API=1', 'kind':'members', 'file':'src/inc/FeatureMap.h', 'scope': r'class FeatureRef\s*\{', 'names':['m_face','m_nameValues','m_nameid','m_numSet']}@*/
} FeatureRef;
struct Face {
/*@extract {'if':'U_API=1', 'kind':'members', 'file':'src/inc/Face.h', 'scope': r'class Face\s*\{', 'names':['m_pNames'], 'subs':[[r'\bmutable\s+', '']]}@*/
};
typedef FeatureRef gr_feature_ref;
typedef struct Table { const Face *_f; const byte *_p; size_t _sz; bool _compressed; } Table;   /* Face::Table (src/inc/Face.h) */

/* ghost: the client's name table, the label block, call logs */
struct { const byte *ptr; size_t n; unsigned gets; } g_name;          /* NULL: the font has no (valid) name table */
unsigned g_ctor_calls, g_getname_calls;
const void *g_ctor_data; size_t g_ctor_len; uint16 g_ctor_plat, g_ctor_enc;
const NameTable *g_gn_self; uint16 *g_gn_lang; uint32 *g_gn_len; uint16 g_gn_name; gr_encform g_gn_enc;
void *g_label; unsigned g_label_frees;
static void label_free(void *p) { if (p != NULL && p == g_label) g_label_frees++; free(p); }

static Table NameTbl_get(const Face *face)
{   /* Face::Table name(face, Tag::name): one get_table call */
    Table t; t._f = face; t._p = g_name.ptr; t._sz = g_name.ptr ? g_name.n : 0; t._compressed = 0;
    g_name.gets++;
    return t;
}
void *NameTable_getName(NameTable *self, uint16 *languageId, uint16 nameId, gr_encform enc, uint32 *length)
__CPROVER_requires(self != NULL && self == g_self && languageId != NULL && length != NULL)
__CPROVER_requires(self->m_table == NULL || NT_INV(self))                 /* what c18_name_select_*, c01_getname_copy assume of the object */
__CPROVER_assigns(*languageId, *length, g_getname_calls, g_gn_self, g_gn_lang, g_gn_len, g_gn_name, g_gn_enc)
__CPROVER_ensures(g_getname_calls == __CPROVER_old(g_getname_calls) + 1 && g_gn_self == self && g_gn_lang == languageId && g_gn_len == length && g_gn_name == nameId && g_gn_enc == enc)
__CPROVER_ensures(__CPROVER_return_value == g_label);
/* NameTable::NameTable: a body restating the contract proved by unit c18_namector (is_fresh cannot be combined with the ledger pointer) */
void NameTable_ctor(NameTable *self, const void *data, size_t length, uint16 platformId, uint16 encodingID)
{
    __CPROVER_assert(self == g_self && data == (const void *)g_data && length == g_len && g_len <= MAXN && g_allocs == 0 && g_freed == 0 && g_blk == NULL, "precondition of the NameTable constructor contract");
    self->m_platformId = 0; self->m_encodingId = 0; self->m_languageCount = 0; self->m_platformOffset = 0; self->m_platformLastRecord = 0;
    self->m_nameDataLength = 0; self->m_table = NULL; self->m_nameData = NULL;
    g_allocs = 1;
    if (nondet_bool()) return;                                                   /* out of memory or refused: the copy is gone */
    uint8 *b = malloc(length); __CPROVER_assume(b != NULL);
    __CPROVER_assume(HDR_OK(b, length) && T_STROFF(b) < length);
    g_blk = b; g_blk_len = length;
    self->m_table = (const FontNames *)b; self->m_nameData = b + T_STROFF(b); self->m_nameDataLength = (uint16)(length - T_STROFF(b));
    self->m_platformOffset = (uint16)nondet_unsigned(); self->m_platformLastRecord = (uint16)nondet_unsigned();
    __CPROVER_assume(self->m_platformOffset <= self->m_platformLastRecord && self->m_platformLastRecord < (T_COUNT(b) ? T_COUNT(b) : 1));
    self->m_platformId = platformId; self->m_encodingId = encodingID;
}
/* new NameTable(data, length): operator new (gralloc<byte>(sizeof(NameTable)), see assumptions) + constructor with its default arguments */
static NameTable *NameTable_new(const void *data, size_t length)
{
    NameTable *p = malloc(sizeof(NameTable)); __CPROVER_assume(p != NULL);
    g_self = p; g_ctor_calls++; g_ctor_data = data; g_ctor_len = length; g_ctor_plat = 3; g_ctor_enc = 1;
    g_data = data; g_len = length;
    NameTable_ctor(p, data, length, 3, 1);
    return p;
}
/*@extract {'if':'U_API=1', 'kind':'accessors', 'file':'src/inc/FeatureMap.h', 'scope': r'class FeatureSetting\s*\{', 'prefix':'FeatureSetting', 'names':['label'], 'fields':['m_label']}@*/
/*@extract {'if':'U_API=1', 'kind':'accessors', 'file':'src/inc/FeatureMap.h', 'scope': r'class FeatureRef\s*\{', 'prefix':'FeatureRef', 'names':['getNameId','getNumSettings','getSettingName'], 'fields':['m_nameid','m_numSet','m_nameValues'],
   'subs':[[r'self->m_nameValues\[index\]\.label\(\)', 'FeatureSetting_label_0(&self->m_nameValues[index])']]}@*/
/*@extract {'if':'U_API=1', 'file':'src/inc/FeatureMap.h', 'scope': r'class FeatureRef\s*\{', 'sig': r'const Face & getFace\(\) const', 'emit':'static const Face *FeatureRef_getFace(const FeatureRef *self)',
   'subs':[[r'return \*m_face;', 'return m_face;', 1]], 'self':['m_face']}@*/
/*@extract {'if':'U_API=1', 'file':'src/Face.cpp', 'sig': r'NameTable \* Face::nameTable\(\) const', 'emit':'NameTable *Face_nameTable(Face *self)',
   'subs':[[r'const Table name\(\*this, Tag::name\);', 'const Table name = NameTbl_get(self);', 1], [r'if \(name\)', 'if (name._p)', 1],
           [r'\bname\.size\(\)', 'name._sz', 0], [r'new NameTable\(name,', 'NameTable_new(name._p,', 0]],
   'self':['m_pNames']}@*/
/*@extract {'if':'U_API=1', 'file':'src/gr_features.cpp', 'sig': r'void\* gr_fref_label\(const gr_feature_ref\* pfeatureref, gr_uint16 \*langId, gr_encform utf, gr_uint32 \*length\)',
   'emit':'void *gr_fref_label(const gr_feature_ref *pfeatureref, gr_uint16 *langId, gr_encform utf, gr_uint32 *length)',
   'subs':[[r'pfeatureref->getFace\(\)\.nameTable\(\)', 'Face_nameTable((Face *)FeatureRef_getFace(pfeatureref))', 1],
           [r'names->getName\(', 'NameTable_getName(names, ', 0], [r'\*langId\b', 'langId', 0], [r'\*length\b', 'length', 0]], 'methods':['getNameId','getNumSettings','getSettingName']}@*/
/*@extract {'if':'U_API=1', 'file':'src/gr_features.cpp', 'sig': r'void\* gr_fref_value_label\(const gr_feature_ref\*pfeatureref, gr_uint16 setting,\s*gr_uint16 \*langId, gr_encform utf, gr_uint32 \*length\)',
   'emit':'void *gr_fref_value_label(const gr_feature_ref *pfeatureref, gr_uint16 setting, gr_uint16 *langId, gr_encform utf, gr_uint32 *length)',
   'subs':[[r'pfeatureref->getFace\(\)\.nameTable\(\)', 'Face_nameTable((Face *)FeatureRef_getFace(pfeatureref))', 1],
           [r'names->getName\(', 'NameTable_getName(names, ', 0], [r'\*langId\b', 'langId', 0], [r'\*length\b', 'length', 0]], 'methods':['getNameId','getNumSettings','getSettingName']}@*/
/*@extract {'if':'U_API=1', 'file':'src/gr_features.cpp', 'sig': r'void gr_label_destroy\(void \* label\)', 'emit':'void gr_label_destroy(void *label)', 'subs':[[r'\bfree\(', 'label_free(', 0]]}@*/
#endif

/* ------------------------------------------------------------------ harnesses */
#ifdef U_CTOR
void h_ctor(void)
{
    NameTable *nt = malloc(sizeof(NameTable)); __CPROVER_assume(nt != NULL);
    size_t w_len = nondet_size_t(); __CPROVER_assume(w_len <= MAXN);           /* also lengths shorter than the header, also 0 */
    uint8 *data = malloc(w_len); __CPROVER_assume(data != NULL);                /* exactly the table, arbitrary bytes */
    uint16 w_plat = (uint16)nondet_unsigned(), w_enc = (uint16)nondet_unsigned();
    g_self = nt; g_data = data; g_len = w_len; g_allocs = 0; g_freed = 0; g_blk = NULL; g_blk_len = 0;
    g_k = nondet_size_t(); g_j = nondet_size_t();
    NameTable_ctor(nt, data, w_len, w_plat, w_enc);
    if (nt->m_table) free((void *)nt->m_table);                                /* ~NameTable */
    free(data); free(nt);
    CANARY();
}
#endif

#ifdef U_SETPLAT
void h_setplat(void)
{
    NameTable *nt = malloc(sizeof(NameTable)); __CPROVER_assume(nt != NULL);
    size_t w_len = nondet_size_t(); __CPROVER_assume(w_len <= MAXN);
    uint8 *blk = malloc(w_len); __CPROVER_assume(blk != NULL);
    uint16 w_plat = (uint16)nondet_unsigned(), w_enc = (uint16)nondet_unsigned();
    g_self = nt; g_blk = blk; g_blk_len = w_len;
    g_k = nondet_size_t(); g_j = nondet_size_t();
    if (nondet_bool()) { nt->m_table = NULL; nt->m_nameData = NULL; }          /* refused table: the public method on a NameTable without storage */
    else {
        __CPROVER_assume(HDR_OK(blk, w_len));                                   /* what the constructor has tested before it calls setPlatformEncoding */
        nt->m_table = (const FontNames *)blk; nt->m_nameData = blk + (nondet_size_t() % w_len);
    }
    NameTable_setPlatformEncoding(nt, w_plat, w_enc);
    CANARY();
}
#endif

#ifdef U_LANGID
void h_langid(void)
{
    NameTable *nt = malloc(sizeof(NameTable)); __CPROVER_assume(nt != NULL);
    size_t w_len = nondet_size_t(); __CPROVER_assume(w_len <= MAXN);
    uint8 *blk = malloc(w_len); __CPROVER_assume(blk != NULL);                  /* the private copy: exact size, arbitrary bytes */
    g_self = nt; g_blk = blk; g_blk_len = w_len;
    g_k = nondet_size_t(); g_j = nondet_size_t();
    bool w_refused = nondet_bool();
    if (w_refused) { nt->m_table = NULL; nt->m_nameData = NULL; nt->m_nameDataLength = 0; nt->m_platformOffset = 0; nt->m_platformLastRecord = 0; }
    else {
        /* the state the constructor leaves (NT_INV; proved by c18_namector): assumed here as the precondition */
        __CPROVER_assume(HDR_OK(blk, w_len) && T_STROFF(blk) < w_len);
        nt->m_table = (const FontNames *)blk; nt->m_nameData = blk + T_STROFF(blk); nt->m_nameDataLength = (uint16)(w_len - T_STROFF(blk));
        nt->m_platformOffset = (uint16)nondet_unsigned(); nt->m_platformLastRecord = (uint16)nondet_unsigned();
        __CPROVER_assume(nt->m_platformOffset <= nt->m_platformLastRecord && nt->m_platformLastRecord < (T_COUNT(blk) ? T_COUNT(blk) : 1));
#ifdef TAGCOUNT_INSIDE
        __CPROVER_assume(L_BASE(blk) + 2 <= w_len);                              /* the gap, see the unit's assumptions */
#endif
    }
    size_t w_n = nondet_size_t(); __CPROVER_assume(w_n <= MAXN);
    char *loc = malloc(w_n + 1); __CPROVER_assume(loc != NULL);                  /* exactly strlen + 1 bytes */
    loc[w_n] = 0;
    g_loc = loc; g_loc_n = w_n; g_msid = (uint16)nondet_unsigned(); g_msid_calls = 0;
    uint16 r = NameTable_getLanguageId(nt, loc); (void)r;
    CANARY();
}
#endif

#ifdef U_LANGID_B
#define LB_MAX LBK
#define LOC_MAX 2
static uint16 o16(const uint8 *b, size_t o) { return (uint16)((b[o] << 8) | b[o + 1]); }
static void run_langid(const uint8 *w_b, const size_t K, const char *w_loc, const size_t w_n)
{
    NameTable *nt = malloc(sizeof(NameTable)); __CPROVER_assume(nt != NULL);
    uint8 *data = malloc(K); __CPROVER_assume(data != NULL);                    /* the caller's table: exactly K bytes */
    for (size_t i = 0; i < K; ++i) data[i] = w_b[i];
    char *loc = malloc(w_n + 1); __CPROVER_assume(loc != NULL);                  /* exactly strlen + 1 bytes */
    for (size_t i = 0; i < w_n; ++i) loc[i] = w_loc[i];
    loc[w_n] = 0;
    g_self = nt; g_data = data; g_len = K; g_allocs = 0; g_freed = 0; g_blk = NULL; g_blk_len = 0;
    g_loc = loc; g_loc_n = w_n; g_msid = (uint16)nondet_unsigned(); g_msid_calls = 0;
    NameTable_ctor(nt, data, K, 3, 1);                                           /* Face::nameTable(): new NameTable(name, name.size()) */
    free(data);                                                                  /* the Table local of Face::nameTable() releases the borrowed table */
    uint16 r = NameTable_getLanguageId(nt, loc);
    /* oracle, on the caller's bytes */
    uint16 want = g_msid;
    bool accepted = g_blk != NULL && K > 18 && 6 + 12 * (size_t)o16(w_b, 2) < K && o16(w_b, 4) < K;
    __CPROVER_assert((nt->m_table != NULL) == accepted, "constructor: the table is accepted exactly when the header tests hold");
    if (accepted && o16(w_b, 0) == 1) {
        const size_t base = 6 + 12 * (size_t)o16(w_b, 2), so = o16(w_b, 4); const uint16 ndl = (uint16)(K - so);
        if (base + 2 <= K) {
            const size_t n = o16(w_b, base);
            if (base + 2 + 4 * n <= so) {
                bool found = false;
                for (size_t t = 0; t < n && t < (LB_MAX / 4); ++t) if (!found) {
                    const size_t len = o16(w_b, base + 2 + 4 * t), off = o16(w_b, base + 4 + 4 * t);
                    if (off + len <= ndl && len == 2 * w_n) {
                        bool same = true;
                        for (size_t j = 0; j < LOC_MAX; ++j) if (j < w_n) { const uint16 c = o16(w_b, so + off + 2 * j); if (c > 0x7F || (int)c != (int)w_loc[j]) same = false; }
                        if (same) { found = true; want = (uint16)(0x8000 + t); }
                    }
                }
            }
        }
    }
    __CPROVER_assert(r == want, "getLanguageId: 0x8000 + index of the first language tag that spells the locale, else the Locale2Lang id");
    __CPROVER_assert(g_msid_calls == 1, "getLanguageId: Locale2Lang consulted once");
    if (nt->m_table) gfree((void *)nt->m_table);                                 /* ~NameTable */
    __CPROVER_assert(g_blk == NULL || g_freed == 1, "the private copy is freed exactly once (constructor on refusal, else destructor)");
    free(loc); free(nt);
}
void h_langid_b(void)
{
    uint8 w_b[LBK + 1]; char w_loc[LOC_MAX];
    size_t w_n = nondet_size_t();
    __CPROVER_assume(w_n <= LOC_MAX);
    for (size_t j = 0; j < LOC_MAX; ++j) __CPROVER_assume(j >= w_n || w_loc[j] != 0);   /* strlen(locale) == w_n */
#ifdef TAGCOUNT_INSIDE
    /* the gap: format-1 tables that end inside the language-tag count (shown as a defect by the _defect units) */
    if (LBK > 18) __CPROVER_assume(!(o16(w_b, 0) == 1 && 6 + 12 * (size_t)o16(w_b, 2) + 2 > LBK));
#endif
    run_langid(w_b, LBK, w_loc, w_n);
    CANARY();
}
#endif

#ifdef U_API
void h_label(void)
{
    Face *face = malloc(sizeof(Face)); __CPROVER_assume(face != NULL);
    bool w_null_fref = nondet_bool(), w_have_table = nondet_bool(), w_cached = nondet_bool(), w_value = nondet_bool();
    uint16 w_nset = (uint16)nondet_unsigned(), w_setting = (uint16)nondet_unsigned(); __CPROVER_assume(w_nset <= 3);
    size_t w_len = nondet_size_t(); __CPROVER_assume(w_len <= MAXN);
    /* the feature ref with exactly w_nset settings */
    FeatureRef *fref = malloc(sizeof(FeatureRef)); __CPROVER_assume(fref != NULL);
    fref->m_face = face; fref->m_numSet = w_nset;
    fref->m_nameValues = malloc(w_nset * sizeof(FeatureSetting)); __CPROVER_assume(fref->m_nameValues != NULL);
    /* the client's name table (exact size) or none; a face that already holds its NameTable (an earlier label query) or not */
    byte *tbl = w_have_table ? malloc(w_len) : NULL; __CPROVER_assume(!w_have_table || tbl != NULL);
    g_name.ptr = tbl; g_name.n = w_len; g_name.gets = 0;
    g_allocs = 0; g_freed = 0; g_blk = NULL; g_blk_len = 0; g_ctor_calls = 0; g_getname_calls = 0; g_label_frees = 0;
    g_k = nondet_size_t(); g_j = nondet_size_t();
    NameTable *cached = NULL;
    if (w_cached) {
        cached = malloc(sizeof(NameTable)); __CPROVER_assume(cached != NULL);
        cached->m_table = NULL; cached->m_nameData = NULL; cached->m_nameDataLength = 0; cached->m_platformOffset = 0; cached->m_platformLastRecord = 0;   /* a refused table: also satisfies getName's precondition */
        g_self = cached;
    }
    face->m_pNames = cached;
    g_label = nondet_bool() ? NULL : malloc(4);                                   /* what getName will answer */
    uint16 lang = (uint16)nondet_unsigned(); uint32 len = nondet_unsigned(); const uint16 lang0 = lang; const uint32 len0 = len;
    const gr_encform w_utf = (gr_encform)nondet_unsigned();
    const FeatureRef *arg = w_null_fref ? NULL : fref;

    void *r = w_value ? gr_fref_value_label(arg, w_setting, &lang, w_utf, &len) : gr_fref_label(arg, &lang, w_utf, &len);
    if (tbl) free(tbl);                                                          /* ~Table: the borrowed table is released when nameTable() returns */

    const bool refused_arg = w_null_fref || (w_value && w_setting >= w_nset);
    if (refused_arg) {
        __CPROVER_assert(r == NULL && g_getname_calls == 0 && g_ctor_calls == 0 && g_name.gets == 0 && face->m_pNames == cached, "NULL feature ref / setting out of range: NULL, nothing touched");
        __CPROVER_assert(lang == lang0 && len == len0, "NULL feature ref / setting out of range: *langId, *length untouched");
    } else if (!w_cached && !w_have_table) {
        __CPROVER_assert(r == NULL && face->m_pNames == NULL && g_ctor_calls == 0 && g_getname_calls == 0 && g_name.gets == 1, "no name table: NULL, no NameTable created");
        __CPROVER_assert(lang == lang0 && len == len0, "no name table: *langId, *length untouched");
    } else {
        if (w_cached) __CPROVER_assert(face->m_pNames == cached && g_ctor_calls == 0 && g_name.gets == 0, "the cached NameTable is reused: no second get_table, no second NameTable");
        else {
            __CPROVER_assert(g_ctor_calls == 1 && g_name.gets == 1 && face->m_pNames == g_self && g_self != NULL, "the NameTable is created once and cached in the face");
            __CPROVER_assert(g_ctor_data == (const void *)tbl && g_ctor_len == w_len && g_ctor_plat == 3 && g_ctor_enc == 1, "the NameTable is built from exactly the client's table bytes and size, platform 3 / encoding 1");
        }
        __CPROVER_assert(g_getname_calls == 1 && g_gn_self == face->m_pNames && g_gn_lang == &lang && g_gn_len == &len && g_gn_enc == w_utf, "getName is called once, on the face's NameTable, with the caller's encoding, langId and length");
        if (w_value) { if (w_setting < w_nset) __CPROVER_assert(g_gn_name == fref->m_nameValues[w_setting].m_label, "gr_fref_value_label asks for the label id of the requested setting"); }
        else __CPROVER_assert(g_gn_name == fref->m_nameid, "gr_fref_label asks for the feature's name id");
        __CPROVER_assert(r == g_label, "the buffer getName produced is returned");
    }
    /* the caller's duty, then ~Face */
    if (r) { gr_label_destroy(r); __CPROVER_assert(g_label_frees == 1, "gr_label_destroy frees the label block exactly once"); }
    else if (g_label) free(g_label);                                             /* never handed out */
    if (face->m_pNames) { if (face->m_pNames->m_table) free((void *)face->m_pNames->m_table); free(face->m_pNames); }   /* delete m_pNames: ~NameTable frees m_table */
    free(fref->m_nameValues); free(fref); free(face);
    CANARY();
}
#endif
