/* C01 / C16 - FileFace::get_table_fn (src/FileFace.cpp): the file-backed table callback.
 * fread is asked for tbl_len bytes into a tbl_len byte buffer only if [tbl_offset, tbl_offset+tbl_len) lies inside the
 * file; *len is written only on success; the buffer is freed on every failure path.
 */
#include "types.h"
/*@unit {'name':'c01_get_table_fn', 'props':['C01','C16'], 'entry':'h_get_table', 'enforce':'FileFace_get_table_fn', 'replace':['GetTableInfo','fseek_','fread_'], 'checks':['--memory-leak-check'],
  'claims':'FileFace::get_table_fn: any table directory entry (offset, length arbitrary) and any file length: it reads from the file only ranges inside the file (precondition of the fread stub), fread never writes past the buffer it was given (buffer of exactly tbl_len bytes), *len is assigned only on success, and on every failure path the buffer is freed (no leak)'}@*/
typedef struct FILE_ FILE_;
typedef struct FileFace { FILE_ *_file; size_t _file_len; void *_header_tbl; void *_table_dir; } FileFace;
size_t g_off, g_len; bool g_has; size_t g_file_len; long g_seek; bool g_seek_ok;
/* TtfUtil::GetTableInfo: directory lookup; any entry (assumed contract: no side effect except the two outputs) */
bool GetTableInfo(unsigned int name, const void *hdr, const void *dir, size_t *lOffset, size_t *lSize)
__CPROVER_assigns(*lOffset, *lSize) __CPROVER_ensures(__CPROVER_return_value == g_has && (!g_has || (*lOffset == g_off && *lSize == g_len)));
int fseek_(FILE_ *f, long off, int whence)
__CPROVER_assigns(g_seek) __CPROVER_ensures(g_seek == off && (__CPROVER_return_value == 0) == g_seek_ok);
/* fread(buf, 1, n, f): reads at the current position; memory safety: buf has room for n bytes; file safety: the range is inside the file */
size_t fread_(void *buf, size_t sz, size_t n, FILE_ *f)
__CPROVER_requires(sz == 1 && (n == 0 || (OBJSZ(buf) >= n && OFF(buf) == 0)))
__CPROVER_requires(g_seek >= 0 && (size_t)g_seek <= g_file_len && n <= g_file_len - (size_t)g_seek)
__CPROVER_assigns() __CPROVER_ensures(__CPROVER_return_value <= n);
#define SEEK_SET 0
const void *FileFace_get_table_fn(const void *appFaceHandle, unsigned int name, size_t *len)
__CPROVER_requires(appFaceHandle == NULL || ((const FileFace *)appFaceHandle)->_file_len == g_file_len)
__CPROVER_assigns(len != NULL: *len; g_seek)
__CPROVER_ensures(__CPROVER_return_value != NULL ==> (g_has && g_off <= g_file_len && g_len <= g_file_len - g_off && (len == NULL || *len == g_len)))
__CPROVER_ensures((__CPROVER_return_value == NULL && len != NULL) ==> *len == __CPROVER_old(*len));
/*@extract {'file':'src/FileFace.cpp', 'sig': r'const void \*FileFace::get_table_fn\(const void\* appFaceHandle, unsigned int name, size_t \*len\)',
   'emit':'const void *FileFace_get_table_fn(const void *appFaceHandle, unsigned int name, size_t *len)', 'casts': True,
   'subs':[[r'const FileFace & file_face = \*', 'const FileFace * file_face_ = ', 1], [r'file_face\.', 'file_face_->', 0],
           [r'TtfUtil::GetTableInfo\(name, ([^,]+), ([^,]+), tbl_offset, tbl_len\)', r'GetTableInfo(name, \1, \2, &tbl_offset, &tbl_len)', 1],
           [r'\bfseek\(', 'fseek_(', 0], [r'\bfread\(', 'fread_(', 0], [r'long\(tbl_offset\)', '(long)(tbl_offset)', 0]]}@*/
size_t nondet_size_t(void); bool nondet_bool(void); unsigned nondet_unsigned(void);
void h_get_table(void)
{
    FileFace *ff = malloc(sizeof(FileFace)); __CPROVER_assume(ff);
    g_file_len = nondet_size_t(); __CPROVER_assume(g_file_len <= (size_t)1 << 40);
    ff->_file_len = g_file_len;
    g_off = nondet_size_t(); g_len = nondet_size_t(); g_has = nondet_bool(); g_seek_ok = nondet_bool(); g_seek = -1;
    __CPROVER_assume(g_off <= ((size_t)1 << 62));           /* long(tbl_offset): offsets come from 32-bit directory fields */
    size_t lenv = nondet_size_t(); bool with_len = nondet_bool();
    const void *r = FileFace_get_table_fn(nondet_bool() ? (const void *)0 : ff, nondet_unsigned(), with_len ? &lenv : (size_t *)0);
    if (r) free((void *)r);                                /* rel_table_fn: the caller releases a successful result */
    free(ff);
    CANARY();
}
