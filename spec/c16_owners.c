/* C16 - nothing is leaked: two owners of allocations that the Face::Table units (c16_table.c) do not cover.
 *
 * (A) FeatureMap::readFeats + FeatureMap::~FeatureMap                                       unit c16_readfeats
 *     Extracted from /repo on every run (whole functions, real bodies):
 *       FeatureMap::readFeats, readFeatureSettings, cmpNameAndFeatures, FeatureRef::FeatureRef (both), FeatureRef::~FeatureRef,
 *       FeatureRef::applyValToFeature                                                          src/FeatureMap.cpp
 *       FeatureMap::FeatureMap, ~FeatureMap, FeatureSetting::FeatureSetting / value, FeatureRef::maxVal / getId,
 *       NameAndFeatureRef (both constructors, operator<)                                       src/inc/FeatureMap.h
 *       Vector<uint32>: Vector(), Vector(n,v), ~Vector, size, capacity, operator[], reserve, insert(p,n,x), _insert_default,
 *       clear, erase                                                                           src/inc/List.h
 *       (Vector::resize is not extracted: the unit proves that applyValToFeature never has to grow m_defaultFeatures here)
 *       gralloc<T>, checked_mul (src/inc/Main.h), mask_over_val, bit_set_count (src/inc/bits.h), be::read/skip
 *     Spec code (models of what the C++ compiler generates, no library logic):
 *       new T[n] / delete[] p      operator new[] of CLASS_NEW_DELETE is gralloc<byte>(size): allocate with the extracted
 *                                  gralloc, run the extracted default constructor on every element, remember the element count
 *                                  (the array cookie) in ghost state; delete[] runs the extracted destructor on `cookie'
 *                                  elements (last to first) and frees the block.
 *       FeatureVal(int, map)       base-class initialiser Vector<uint32>(num) (extracted) + m_pMap(&pMap)
 *       member destruction         after the body of ~FeatureMap the member m_defaultFeatures is destroyed (~Vector, extracted)
 *       Face::Table feat(face,Feat) the Feat table is a byte buffer + size handed out by the stub FeatTable_get (ledger of one
 *                                  borrow); the destructor of the local runs at every return: the harness releases (frees) the
 *                                  buffer as soon as readFeats returns, so that any later dereference is an obligation.
 *       qsort                      libc: insertion sort with a body that calls the extracted comparator.
 *
 *     Unit c16_readfeats_bitsguard covers the one branch of readFeats that the bound of c16_readfeats cannot reach.
 *     Observation (not an obligation of these units, see the `assumptions' of c16_readfeats): if `new FeatureRef[m_numFeats]' yields 0 while
 *     gralloc<uint16> succeeds, `if (!defVals || !m_feats) return false;' leaks defVals (build the unit with -DNEW_FEATS_MAY_FAIL to see it).
 *
 * (B) GlyphCache::~GlyphCache and the Loader it owns                                         units c16_glyphcache_dtor, c16_glyphcache_life
 *     see the second half of this file.
 */
#include "types.h"
#define assert(x) __CPROVER_assert((x), "source assert: " #x)

/*@unit {'name':'c16_readfeats', 'props':['C16','C01'], 'entry':'h_readfeats', 'kind':'bounded', 'unwind':4, 'defines':['FM=1'], 'unwindset':['Vector_insert_n.0:8','Vector_erase.0:8'], 'checks':['--memory-leak-check'],
  'bound':'Feat table of at most 75 bytes, every byte arbitrary (so numFeats <= 3: a fourth 16-byte record does not fit), num_settings of each record <= 3; any allocation may fail except new FeatureRef[] (see assumptions)',
  'assumptions':['the new-expression `new FeatureRef[m_numFeats]` does not yield NULL: FeatureRef::operator new[] is not noexcept, so a NULL result is undefined behaviour in C++ (gcc emits no null check and the element constructors would run on address 0); every other allocation (gralloc, new NameAndFeatureRef[]) may fail'],
  'claims':'FeatureMap::readFeats followed by ~FeatureMap: on every path (table absent, refused, any allocation but the first failing, success) every block allocated by the call is either freed before it returns (the defVals scratch array on every path) or owned by the FeatureMap and freed exactly once by its destructor, so that no allocation is left and nothing is freed twice; the Feat table is not touched after readFeats returned; every read stays inside the exact-size table and every write inside the allocated blocks'}@*/
/*@unit {'name':'c16_readfeats_newfail', 'props':['C16','C01'], 'entry':'h_readfeats', 'kind':'bounded', 'unwind':4, 'defines':['FM=1','NEW_FEATS_MAY_FAIL'], 'unwindset':['Vector_insert_n.0:8','Vector_erase.0:8'], 'checks':['--memory-leak-check'],
  'bound':'Feat table of at most 75 bytes, every byte arbitrary (so numFeats <= 3: a fourth 16-byte record does not fit), num_settings of each record <= 3; any allocation may fail except new FeatureRef[] (see assumptions)',
  'assumptions':['the new-expression `new FeatureRef[m_numFeats]` does not yield NULL: FeatureRef::operator new[] is not noexcept, so a NULL result is undefined behaviour in C++ (gcc emits no null check and the element constructors would run on address 0); every other allocation (gralloc, new NameAndFeatureRef[]) may fail'],
  'claims':'(variant modelling a build with -fcheck-new: new FeatureRef[] may yield NULL; defVals must still be freed - repaired in /repo, fix: a558a46a) FeatureMap::readFeats followed by ~FeatureMap: on every path (table absent, refused, any allocation but the first failing, success) every block allocated by the call is either freed before it returns (the defVals scratch array on every path) or owned by the FeatureMap and freed exactly once by its destructor, so that no allocation is left and nothing is freed twice; the Feat table is not touched after readFeats returned; every read stays inside the exact-size table and every write inside the allocated blocks'}@*/
/*@unit {'name':'c16_readfeats_bitsguard', 'props':['C16'], 'entry':'h_bitsguard', 'kind':'bounded', 'unwind':3, 'defines':['FM=1'], 'checks':['--memory-leak-check'],
  'bound':'the one branch of readFeats that c16_readfeats cannot reach within its bound (the running bit offset exceeds 254 words, which takes more than 200 features): the if-statement is extracted as a range and run for every 16-bit offset',
  'claims':'the feature-word guard at the top of the record loop of readFeats: when it refuses (returns false) it frees defVals exactly once and frees nothing else, in particular nothing the FeatureMap owns; otherwise it frees nothing'}@*/

bool nondet_bool(void); size_t nondet_size_t(void); unsigned nondet_unsigned(void);

#ifdef FM
/* ------------------------------------------------------------------ shim structs: the real data members, copied from the headers */
typedef struct FeatureMap FeatureMap;
typedef struct Face Face;
typedef uint32 chunk_t;
typedef uint16 flags_t;                                   /* enum flags_t : uint16 */
#define flags_t(x) ((flags_t)(x))
typedef struct FeatureSetting {
/*@extract {'if':'FM=1', 'kind':'members', 'file':'src/inc/FeatureMap.h', 'scope': r'class FeatureSetting\s*\{', 'names':['m_label','m_value']}@*/
} FeatureSetting;
typedef struct FeatureRef {
/*@extract {'if':'FM=1', 'kind':'members', 'file':'src/inc/FeatureMap.h', 'scope': r'class FeatureRef\s*\{', 'names':['m_face','m_nameValues','m_mask','m_max','m_id','m_nameid','m_numSet','m_flags','m_bits','m_index']}@*/
} FeatureRef;
typedef struct NameAndFeatureRef {
/*@extract {'if':'FM=1', 'kind':'members', 'file':'src/inc/FeatureMap.h', 'scope': r'class NameAndFeatureRef\s*\{', 'names':['m_name','m_pFRef']}@*/
} NameAndFeatureRef;
typedef struct Features {                                 /* class FeatureVal : public Vector<uint32> { const FeatureMap* m_pMap; } */
/*@extract {'if':'FM=1', 'kind':'members', 'file':'src/inc/List.h', 'scope': r'class Vector\s*\{', 'names':['m_first','m_last','m_end'], 'subs':[[r'\bT\b', 'uint32']]}@*/
/*@extract {'if':'FM=1', 'kind':'members', 'file':'src/inc/FeatureVal.h', 'scope': r'class FeatureVal : public Vector<uint32>\s*\{', 'names':['m_pMap']}@*/
} Features;
typedef Features FeatureVal;
struct FeatureMap {
/*@extract {'if':'FM=1', 'kind':'members', 'file':'src/inc/FeatureMap.h', 'scope': r'class FeatureMap\s*\{', 'names':['m_numFeats','m_feats','m_pNamedFeats','m_defaultFeatures']}@*/
};
typedef struct SillMap { FeatureMap m_FeatureMap; } SillMap;
struct Face { SillMap m_Sill; };
#define FACE_FEATUREMAP(f) (&(f)->m_Sill.m_FeatureMap)   /* m_face->theSill().theFeatureMap(): two trivial accessors */
typedef struct Table { const Face *_f; const byte *_p; size_t _sz; bool _compressed; } Table;
/*@extract {'if':'FM=1', 'file':'src/inc/FeatureMap.h', 'scope': r'class FeatureRef\s*\{', 'kind':'range', 'start': r'static const uint8\s+SIZEOF_CHUNK', 'end': r';', 'end_inclusive': True,
            'subs':[[r'sizeof\(chunk_t\)\*8', '32', 0]]}@*/
/*@extract {'if':'FM=1', 'file':'src/FeatureMap.cpp', 'kind':'range', 'start': r'const size_t\s+FEAT_HEADER', 'end': r';', 'end_inclusive': True,
            'pre':'enum { SZ_U16 = sizeof(uint16), SZ_I16 = sizeof(int16), SZ_U32 = sizeof(uint32) };\nstatic ',
            'subs':[[r'sizeof\(uint32\)', 'SZ_U32', 0], [r'sizeof\(uint16\)', 'SZ_U16', 0], [r'sizeof\(int16\)', 'SZ_I16', 0]]}@*/

/* ------------------------------------------------------------------ ghost state */
struct { const byte *ptr; size_t n; unsigned gets; } g_feat;      /* the client's Feat table (NULL: absent) and the number of get_table calls */
const void *g_cookie_ptr; size_t g_cookie_n;                      /* array cookie of the one `new FeatureRef[n]' block */
unsigned g_new_feats, g_del_feats, g_new_named, g_del_named;      /* new[] expressions that returned a block / delete[] expressions on a non-null pointer */
unsigned g_allocs, g_frees;                                       /* blocks the library obtained from malloc / handed to free (non-null) */
const void *g_defvals; unsigned g_defvals_allocs, g_defvals_frees; /* the scratch array of readFeats */
static void free_g(void *p)
{   /* free(), instrumented; the built-in obligations of free (double free, not a heap block) stay in force */
    if (p != NULL) { g_frees++; if (p == g_defvals) g_defvals_frees++; }
    free(p);
}
#define free(p) free_g(p)                                         /* every free() in the extracted code below */

static Table FeatTable_get(const Face *face)
{   /* Face::Table feat(face, Tag::Feat): one get_table call; constructor contract: unit c16_ctor */
    Table t; t._f = face; t._p = g_feat.ptr; t._sz = g_feat.ptr ? g_feat.n : 0; t._compressed = 0;
    g_feat.gets++;
    return t;
}

/* malloc / realloc with the size made concrete: `MALLOC_x(n)' IS malloc(n) - one call per size the bound of this unit allows at that
   call site, so that the verifier sees constant-size objects (FRAMEWORK.md item 14).  Any other size is a failed obligation, not an
   assumption.  (cbmc's model of realloc costs 12 M variables here; the only reallocation in this unit grows a vector that is still
   empty - an obligation - and realloc(NULL, n) is malloc(n).) */
#define CS_FAIL(what) __CPROVER_assert(0, "bound: " what " is one of the sizes this unit enumerates"); __CPROVER_assume(0); return NULL
static void *counted(void *p) { if (p != NULL) g_allocs++; return p; }
#define CS(k) if (n == (k)) return counted(malloc(k))
static void *MALLOC_uint16_(size_t n)        { CS(sizeof(uint16)); CS(2 * sizeof(uint16)); CS(3 * sizeof(uint16)); CS_FAIL("size of defVals"); }
static void *MALLOC_uint16(size_t n)         { void *p = MALLOC_uint16_(n); g_defvals = p; g_defvals_allocs++; return p; }
static void *MALLOC_FeatureSetting(size_t n) { CS(sizeof(FeatureSetting)); CS(2 * sizeof(FeatureSetting)); CS(3 * sizeof(FeatureSetting)); CS_FAIL("size of a settings array"); }
static void *MALLOC_FeatureRef(size_t n)     { CS(sizeof(FeatureRef)); CS(2 * sizeof(FeatureRef)); CS(3 * sizeof(FeatureRef)); CS_FAIL("size of m_feats"); }
static void *MALLOC_NameAndFeatureRef(size_t n) { CS(sizeof(NameAndFeatureRef)); CS(2 * sizeof(NameAndFeatureRef)); CS(3 * sizeof(NameAndFeatureRef)); CS_FAIL("size of m_pNamedFeats"); }
static void *REALLOC_uint32(void *p, size_t n)
{
    __CPROVER_assert(p == NULL, "bound: the only reallocation grows a vector that is still empty");
    __CPROVER_assume(p == NULL);
    CS(8 * sizeof(uint32));
    CS_FAIL("capacity of m_defaultFeatures");
}
/* C++ defines p - p == 0 and p <= p for the null pointer (an empty Vector has m_first == m_last == m_end == 0); C, and the verifier, do not */
#define PDIFF(a, b) ((a) == (b) ? (ptrdiff_t)0 : (a) - (b))
#define PLE(a, b)   ((a) == (b) || (a) <= (b))

/* ------------------------------------------------------------------ extracted code */
/*@include endian.tc@*/
/*@extract {'if':'FM=1', 'file':'src/inc/Main.h', 'sig': r'bool checked_mul\(const size_t a, const size_t b, size_t & t\)\s*(?=\{\s*return __builtin_mul_overflow)',
            'emit':'static bool checked_mul(const size_t a, const size_t b, size_t *t)', 'refs':['t']}@*/
/* gralloc<T>: one textual instance per call site (operator new[] of CLASS_NEW_DELETE is gralloc<byte>) */
/*@extract {'if':'FM=1', 'file':'src/inc/Main.h', 'sig': r'template <typename T> T \* gralloc\(size_t n\)', 'emit':'static byte *gralloc_byte_FeatureRef(size_t n)', 'casts': True,
            'subs':[[r'checked_mul\(n, sizeof\(T\), total\)', 'checked_mul(n, sizeof(T), &total)', 0], [r'\bT\b', 'byte', 0], [r'\bmalloc\(', 'MALLOC_FeatureRef(', 0]]}@*/
/*@extract {'if':'FM=1', 'file':'src/inc/Main.h', 'sig': r'template <typename T> T \* gralloc\(size_t n\)', 'emit':'static byte *gralloc_byte_NameAndFeatureRef(size_t n)', 'casts': True,
            'subs':[[r'checked_mul\(n, sizeof\(T\), total\)', 'checked_mul(n, sizeof(T), &total)', 0], [r'\bT\b', 'byte', 0], [r'\bmalloc\(', 'MALLOC_NameAndFeatureRef(', 0]]}@*/
/*@extract {'if':'FM=1', 'file':'src/inc/Main.h', 'sig': r'template <typename T> T \* gralloc\(size_t n\)', 'emit':'static uint16 *gralloc_uint16(size_t n)', 'casts': True,
            'subs':[[r'checked_mul\(n, sizeof\(T\), total\)', 'checked_mul(n, sizeof(T), &total)', 0], [r'\bT\b', 'uint16', 0], [r'\bmalloc\(', 'MALLOC_uint16(', 0]]}@*/
/*@extract {'if':'FM=1', 'file':'src/inc/Main.h', 'sig': r'template <typename T> T \* gralloc\(size_t n\)', 'emit':'static FeatureSetting *gralloc_FeatureSetting(size_t n)', 'casts': True,
            'subs':[[r'checked_mul\(n, sizeof\(T\), total\)', 'checked_mul(n, sizeof(T), &total)', 0], [r'\bT\b', 'FeatureSetting', 0], [r'\bmalloc\(', 'MALLOC_FeatureSetting(', 0]]}@*/

/*@extract {'if':'FM=1', 'file':'src/inc/bits.h', 'sig': r'inline size_t _mask_over_val<1>\(size_t v\)', 'emit':'static size_t _mask_over_val_1(size_t v)'}@*/
/*@extract {'if':'FM=1', 'file':'src/inc/bits.h', 'sig': r'inline size_t _mask_over_val\(size_t v\)', 'emit':'static size_t _mask_over_val_2(size_t v)', 'subs':[[r'_mask_over_val<S/2>', '_mask_over_val_1', 0], [r'\bS\b', '2', 0]]}@*/
/*@extract {'if':'FM=1', 'file':'src/inc/bits.h', 'sig': r'inline size_t _mask_over_val\(size_t v\)', 'emit':'static size_t _mask_over_val_4(size_t v)', 'subs':[[r'_mask_over_val<S/2>', '_mask_over_val_2', 0], [r'\bS\b', '4', 0]]}@*/
/*@extract {'if':'FM=1', 'file':'src/inc/bits.h', 'sig': r'inline T mask_over_val\(T v\)', 'emit':'static uint32 mask_over_val(uint32 v)', 'subs':[[r'_mask_over_val<sizeof\(T\)>', '_mask_over_val_4', 0], [r'\bT\b', 'uint32', 0]]}@*/
/*@extract {'if':'FM=1', 'file':'src/inc/bits.h', 'sig': r'inline unsigned int bit_set_count\(T v\)\s*(?=\{\s*static size_t const ONES)', 'emit':'static unsigned int bit_set_count(uint32 v)', 'subs':[[r'\bT\b', 'uint32', 0]]}@*/

/* List.h: template <typename T> ptrdiff_t distance(T* first, T* last) { return last-first; }   In C++ the difference of two null pointers is 0
   (an empty Vector has m_first == m_last == 0); the C verifier flags it, hence the explicit case. */
static ptrdiff_t distance(uint32 *first, uint32 *last) { return PDIFF(last, first); }
/* ---- Vector<uint32> (T = uint32 textually; `new (p) T(x)' of a scalar is the store *p = x, `e->~T()' of a scalar does nothing) */
/*@extract {'if':'FM=1', 'file':'src/inc/List.h', 'scope': r'class Vector\s*\{', 'sig': r'size_t\s+size\(\) const', 'emit':'static size_t Vector_size(const Features *self)', 'subs':[[r'm_last - m_first', 'PDIFF(m_last, m_first)', 0]], 'self':['m_first','m_last','m_end']}@*/
/*@extract {'if':'FM=1', 'file':'src/inc/List.h', 'scope': r'class Vector\s*\{', 'sig': r'size_t\s+capacity\(\) const', 'emit':'static size_t Vector_capacity(const Features *self)', 'subs':[[r'm_end - m_first', 'PDIFF(m_end, m_first)', 0]], 'self':['m_first','m_last','m_end']}@*/
/*@extract {'if':'FM=1', 'file':'src/inc/List.h', 'scope': r'class Vector\s*\{', 'sig': r'reference\s+operator \[\] \(size_t n\)', 'emit':'static uint32 * Vector_at(Features *self, size_t n)',
            'subs':[[r'size\(\)', 'Vector_size(self)', 0], [r'return m_first\[n\];', 'return &m_first[n];', 0]], 'self':['m_first','m_last','m_end']}@*/
/*@extract {'if':'FM=1', 'file':'src/inc/List.h', 'sig': r'void Vector<T>::reserve\(size_t n\)', 'emit':'static void Vector_reserve(Features *self, size_t n)', 'casts': True,
            'subs':[[r'capacity\(\)', 'Vector_capacity(self)', 0], [r'size\(\)', 'Vector_size(self)', 0], [r'std::abort\(\)', 'abort()', 0],
                    [r'checked_mul\(n,sizeof\(T\), requested\)', 'checked_mul(n, sizeof(T), &requested)', 0], [r'\bT\b', 'uint32', 0], [r'\brealloc\(', 'REALLOC_uint32(', 0]], 'self':['m_first','m_last','m_end']}@*/
/*@extract {'if':'FM=1', 'file':'src/inc/List.h', 'sig': r'typename Vector<T>::iterator Vector<T>::_insert_default\(iterator p, size_t n\)', 'emit':'static uint32 *Vector_insert_default(Features *self, uint32 *p, size_t n)',
            'subs':[[r'begin\(\) <= p && p <= end\(\)', 'PLE(begin(), p) && PLE(p, end())', 0], [r'p - begin\(\)', 'PDIFF(p, begin())', 0], [r'distance\(p,end\(\)\)', 'distance(p, self->m_last)', 0], [r'begin\(\)', 'self->m_first', 0], [r'end\(\)', 'self->m_last', 0], [r'size\(\)', 'Vector_size(self)', 0],
                    [r'reserve\(', 'Vector_reserve(self, ', 0], [r'\bT\b', 'uint32', 0]], 'self':['m_first','m_last','m_end']}@*/
/*@extract {'if':'FM=1', 'file':'src/inc/List.h', 'sig': r'void Vector<T>::insert\(iterator p, size_t n, const T & x\)', 'emit':'static void Vector_insert_n(Features *self, uint32 *p, size_t n, uint32 x)',
            'subs':[[r'_insert_default\(p, n\)', 'Vector_insert_default(self, p, n)', 0], [r'new \(p\) T\(x\);', '*p = x;', 0]]}@*/
/*@extract {'if':'FM=1', 'file':'src/inc/List.h', 'sig': r'typename Vector<T>::iterator Vector<T>::erase\(iterator first, iterator last\)', 'emit':'static uint32 *Vector_erase(Features *self, uint32 *first, uint32 *last)',
            'subs':[[r'for \(iterator e = first;', 'for (uint32 *e = first;', 0], [r'e->~T\(\);', '(void)e;', 0], [r'distance\(last,end\(\)\)', 'distance(last, self->m_last)', 0],
                    [r'\bT\b', 'uint32', 0]], 'self':['m_first','m_last','m_end']}@*/
/*@extract {'if':'FM=1', 'file':'src/inc/List.h', 'scope': r'class Vector\s*\{', 'sig': r'void\s+clear\(\)', 'emit':'static void Vector_clear(Features *self)',
            'subs':[[r'erase\(begin\(\), end\(\)\)', 'Vector_erase(self, self->m_first, self->m_last)', 0]]}@*/
/* Vector::resize is not reached from readFeats (m_defaultFeatures covers every feature word): an obligation of this unit */
static void Vector_resize_unreached(void) { __CPROVER_assert(0, "applyValToFeature does not have to grow m_defaultFeatures (bits/32+1 words cover every feature)"); __CPROVER_assume(0); }
/*@extract {'if':'FM=1', 'file':'src/inc/List.h', 'scope': r'class Vector\s*\{', 'sig': r'Vector\(size_t n, const T& value = T\(\)\)', 'ctor': True, 'emit':'static void Vector_ctor_n(Features *self, size_t n, uint32 value)',
            'subs':[[r'insert\(begin\(\), n, value\)', 'Vector_insert_n(self, self->m_first, n, value)', 0]], 'self':['m_first','m_last','m_end']}@*/
/*@extract {'if':'FM=1', 'file':'src/inc/List.h', 'scope': r'class Vector\s*\{', 'sig': r'(?<!~)Vector\(\)', 'ctor': True, 'emit':'static void Vector_ctor(Features *self)', 'self':['m_first','m_last','m_end']}@*/
/*@extract {'if':'FM=1', 'file':'src/inc/List.h', 'scope': r'class Vector\s*\{', 'sig': r'~Vector\(\)', 'emit':'static void Vector_dtor(Features *self)',
            'subs':[[r'clear\(\)', 'Vector_clear(self)', 0]], 'self':['m_first','m_last','m_end']}@*/
/* FeatureVal(int num, const FeatureMap & pMap) : Vector<uint32>(num), m_pMap(&pMap) {}   and   FeatureVal() : m_pMap(0) {}   (base-class initialisers: spec code) */
static void FeatureVal_ctor_n(Features *self, int num, const FeatureMap *pMap) { Vector_ctor_n(self, num, 0); self->m_pMap = pMap; }
static void FeatureVal_ctor(Features *self) { Vector_ctor(self); self->m_pMap = 0; }

/* ---- FeatureSetting, FeatureRef, NameAndFeatureRef */
/*@extract {'if':'FM=1', 'file':'src/inc/FeatureMap.h', 'scope': r'class FeatureSetting\s*\{', 'sig': r'FeatureSetting\(int16 theValue, uint16 labelId\)', 'ctor': True,
            'emit':'static void FeatureSetting_init(FeatureSetting *self, int16 theValue, uint16 labelId)', 'self':['m_label','m_value']}@*/
/*@extract {'if':'FM=1', 'file':'src/inc/FeatureMap.h', 'scope': r'class FeatureSetting\s*\{', 'sig': r'int16 value\(\) const', 'emit':'static int16 FeatureSetting_value(const FeatureSetting *self)', 'self':['m_label','m_value']}@*/
/*@extract {'if':'FM=1', 'file':'src/inc/FeatureMap.h', 'scope': r'class FeatureRef\s*\{', 'sig': r'uint32 maxVal\(\) const', 'emit':'static uint32 FeatureRef_maxVal(const FeatureRef *self)', 'self':['m_max']}@*/
/*@extract {'if':'FM=1', 'file':'src/inc/FeatureMap.h', 'scope': r'class FeatureRef\s*\{', 'sig': r'uint32 getId\(\) const', 'emit':'static uint32 FeatureRef_getId(const FeatureRef *self)', 'self':['m_id']}@*/
/*@extract {'if':'FM=1', 'file':'src/inc/FeatureMap.h', 'sig': r'FeatureRef::FeatureRef\(\) throw\(\)', 'ctor': True, 'emit':'static void FeatureRef_default_ctor(FeatureRef *self)',
            'self':['m_face','m_nameValues','m_mask','m_max','m_id','m_nameid','m_numSet','m_flags','m_bits','m_index']}@*/
/*@extract {'if':'FM=1', 'file':'src/FeatureMap.cpp', 'ctor': True,
   'sig': r'FeatureRef::FeatureRef\(const Face & face,\s*unsigned short & bits_offset, uint32 max_val,\s*uint32 name, uint16 uiName, flags_t flags,\s*FeatureSetting \*settings, uint16 num_set\) throw\(\)',
   'emit':'static void FeatureRef_ctor(FeatureRef *self, const Face *face, unsigned short *bits_offset, uint32 max_val, uint32 name, uint16 uiName, flags_t flags, FeatureSetting *settings, uint16 num_set)',
   'subs':[[r'&face\b', 'face', 0]], 'refs':['bits_offset'],
   'self':['m_face','m_nameValues','m_mask','m_max','m_id','m_nameid','m_numSet','m_flags','m_bits','m_index']}@*/
/*@extract {'if':'FM=1', 'file':'src/FeatureMap.cpp', 'sig': r'FeatureRef::~FeatureRef\(\) throw\(\)', 'emit':'static void FeatureRef_dtor(FeatureRef *self)', 'self':['m_nameValues']}@*/
/*@extract {'if':'FM=1', 'file':'src/FeatureMap.cpp', 'sig': r'bool FeatureRef::applyValToFeature\(uint32 val, Features & pDest\) const',
   'emit':'static bool FeatureRef_applyValToFeature(const FeatureRef *self, uint32 val, Features *pDest)',
   'subs':[[r'maxVal\(\)', 'FeatureRef_maxVal(self)', 0],
           [r'&m_face->theSill\(\)\.theFeatureMap\(\)', 'FACE_FEATUREMAP(m_face)', 0],
           [r'pDest\.size\(\)', 'Vector_size(&pDest)', 0],
           [r'pDest\.resize\(m_index\+1\)', 'Vector_resize_unreached()', 0],
           [r'pDest\[m_index\]', '(*Vector_at(&pDest, m_index))', 0]],
   'refs':['pDest'], 'self':['m_face','m_mask','m_bits','m_index','m_max']}@*/
/*@extract {'if':'FM=1', 'file':'src/inc/FeatureMap.h', 'scope': r'class NameAndFeatureRef\s*\{', 'sig': r'NameAndFeatureRef\(uint32 name = 0\)', 'ctor': True,
            'emit':'static void NameAndFeatureRef_ctor(NameAndFeatureRef *self, uint32 name)', 'self':['m_name','m_pFRef']}@*/
/*@extract {'if':'FM=1', 'file':'src/inc/FeatureMap.h', 'scope': r'class NameAndFeatureRef\s*\{', 'sig': r'NameAndFeatureRef\(FeatureRef const & p\)', 'ctor': True,
            'emit':'static void NameAndFeatureRef_from(NameAndFeatureRef *self, const FeatureRef *p)', 'subs':[[r'p\.getId\(\)', 'FeatureRef_getId(p)', 0], [r'&p\b', 'p', 0]], 'self':['m_name','m_pFRef']}@*/
/*@extract {'if':'FM=1', 'file':'src/inc/FeatureMap.h', 'scope': r'class NameAndFeatureRef\s*\{', 'sig': r'bool operator<\(const NameAndFeatureRef& rhs\) const',
            'emit':'static bool NameAndFeatureRef_less(const NameAndFeatureRef *self, const NameAndFeatureRef *rhs)', 'subs':[[r'rhs\.', 'rhs->', 0]], 'self':['m_name']}@*/
/*@extract {'if':'FM=1', 'file':'src/FeatureMap.cpp', 'sig': r'static int cmpNameAndFeatures\(const void \*ap, const void \*bp\)', 'emit':'static int cmpNameAndFeatures(const void *ap, const void *bp)', 'casts': True,
            'subs':[[r'const NameAndFeatureRef & a = \*', 'const NameAndFeatureRef * a = ', 0], [r'& b = \*', '* b = ', 0], [r'a < b', 'NameAndFeatureRef_less(a, b)', 0], [r'b < a', 'NameAndFeatureRef_less(b, a)', 0]]}@*/

/* ---- new[] / delete[] expressions (what the compiler generates around CLASS_NEW_DELETE; spec code, see the head of this file) */
static FeatureRef *new_FeatureRef_array(size_t n)
{
    FeatureRef *p = (FeatureRef *)gralloc_byte_FeatureRef(n * sizeof(FeatureRef));
    if (p) g_new_feats++;
#ifdef NEW_FEATS_MAY_FAIL
    if (!p) return p;                                     /* what the source expects (`if (!defVals || !m_feats) return false;'): then defVals is leaked */
#else
    __CPROVER_assume(p != NULL);                          /* assumption of this unit, see 'assumptions' */
#endif
    g_cookie_ptr = p; g_cookie_n = n;
    for (size_t i = 0; i < n; ++i) FeatureRef_default_ctor(&p[i]);
    return p;
}
static void delete_FeatureRef_array(FeatureRef *p)
{
    if (!p) return;
    g_del_feats++;
    __CPROVER_assert(p == g_cookie_ptr, "delete[] m_feats: the pointer is the block new FeatureRef[] returned");
    for (size_t i = g_cookie_n; i > 0; --i) FeatureRef_dtor(&p[i - 1]);
    free(p);
}
static NameAndFeatureRef *new_NameAndFeatureRef_array(size_t n)
{   /* trivially destructible: no cookie */
    NameAndFeatureRef *p = (NameAndFeatureRef *)gralloc_byte_NameAndFeatureRef(n * sizeof(NameAndFeatureRef));
    if (p) g_new_named++;
    if (p) for (size_t i = 0; i < n; ++i) NameAndFeatureRef_ctor(&p[i], 0);
    return p;
}
static void delete_NameAndFeatureRef_array(NameAndFeatureRef *p) { if (p) g_del_named++; free(p); }
#define DELETE_ARRAY(p) _Generic((p), FeatureRef *: delete_FeatureRef_array, NameAndFeatureRef *: delete_NameAndFeatureRef_array)(p)    /* delete[] p: by static type */

/* qsort (libc): insertion sort calling the caller's comparator */
typedef int cmp_fn(const void *, const void *);        /* (types.h defines int(x) as a cast macro) */
static void qsort_model(void *base, size_t n, size_t size, cmp_fn *cmp)
{
    __CPROVER_assert(size == sizeof(NameAndFeatureRef), "qsort: element size");
    NameAndFeatureRef *a = base;
    for (size_t i = 1; i < n; ++i)
        for (size_t j = i; j > 0 && cmp(&a[j - 1], &a[j]) > 0; --j) { NameAndFeatureRef t = a[j - 1]; a[j - 1] = a[j]; a[j] = t; }
}

/*@extract {'if':'FM=1', 'file':'src/FeatureMap.cpp', 'sig': r'uint16 readFeatureSettings\(const byte \* p, FeatureSetting \* s, size_t num_settings\)',
   'emit':'static uint16 readFeatureSettings(const byte *p, FeatureSetting *s, size_t num_settings)',
   'subs':[[r'be::read<(\w+)>\(p\)', r'be_read_\1(&p)', 0], [r'::new \(s\) FeatureSetting\(', 'FeatureSetting_init(s, ', 0]]}@*/

/*@extract {'if':'FM=1', 'file':'src/inc/FeatureMap.h', 'scope': r'class FeatureMap\s*\{', 'sig': r'(?<!~)FeatureMap\(\)', 'ctor': True, 'emit':'static void FeatureMap_ctor(FeatureMap *self)',
            'self':['m_numFeats','m_feats','m_pNamedFeats']}@*/
/*@extract {'if':'FM=1', 'file':'src/inc/FeatureMap.h', 'scope': r'class FeatureMap\s*\{', 'sig': r'~FeatureMap\(\)', 'emit':'static void FeatureMap_dtor(FeatureMap *self)',
            'subs':[[r'delete\s*\[\]\s*([^;]+);', r'DELETE_ARRAY(\1);', 0]],
            'self':['m_numFeats','m_feats','m_pNamedFeats']}@*/

/*@extract {'if':'FM=1', 'file':'src/FeatureMap.cpp', 'sig': r'bool FeatureMap::readFeats\(const Face & face\)', 'emit':'bool FeatureMap_readFeats(FeatureMap *self, const Face *face)',
   'subs':[[r'const Face::Table feat\(face, TtfUtil::Tag::Feat\);', 'const Table feat = FeatTable_get(face);', 0],
           [r'const byte \* p = feat;', 'const byte * p = feat._p;', 0], [r'feat\.size\(\)', 'feat._sz', 0],
           [r'be::read<(\w+)>\(p\)', r'be_read_\1(&p)', 0], [r'be::skip<(\w+)>\(p\)', r'be_skip_\1(&p)', 0],
           [r'new FeatureRef \[m_numFeats\]', 'new_FeatureRef_array(m_numFeats)', 0], [r'new NameAndFeatureRef\[m_numFeats\]', 'new_NameAndFeatureRef_array(m_numFeats)', 0],
           [r'gralloc<(uint16|FeatureSetting)>\(', r'gralloc_\1(', 0],
           [r'uiSet\[0\]\.value\(\)', 'FeatureSetting_value(&uiSet[0])', 0],
           [r'::new \(m_feats \+ i\) FeatureRef \(face, bits,', 'FeatureRef_ctor(m_feats + i, face, &bits,', 0], [r'FeatureRef::flags_t\(', 'flags_t(', 0],
           [r'new \(&m_defaultFeatures\) Features\(', 'FeatureVal_ctor_n(&m_defaultFeatures, ', 0], [r'\*this\)', 'self)', 0],
           [r'm_feats\[i\]\.applyValToFeature\(defVals\[i\], m_defaultFeatures\)', 'FeatureRef_applyValToFeature(&m_feats[i], defVals[i], &m_defaultFeatures)', 0],
           [r'm_pNamedFeats\[i\] = m_feats\[i\];', 'NameAndFeatureRef_from(&m_pNamedFeats[i], &m_feats[i]);', 0],
           [r'\bqsort\(', 'qsort_model(', 0], [r'delete\s*\[\]\s*([^;]+);', r'DELETE_ARRAY(\1);', 0]],
   'self':['m_numFeats','m_feats','m_pNamedFeats','m_defaultFeatures']}@*/

/* ------------------------------------------------------------------ harness */
#define TBLMAX 75                                         /* 12 + 3*16 + 15: a fourth record does not fit */
#define BE32(p) (((uint32)(p)[0] << 24) | ((uint32)(p)[1] << 16) | ((uint32)(p)[2] << 8) | (uint32)(p)[3])
#define BE16(p) ((uint16)(((uint16)(p)[0] << 8) | (p)[1]))
void h_readfeats(void)
{
    Face *face = malloc(sizeof(Face)); __CPROVER_assume(face != NULL);
    FeatureMap *fm = FACE_FEATUREMAP(face);
    FeatureMap_ctor(fm); FeatureVal_ctor(&fm->m_defaultFeatures);               /* FeatureMap() with its member m_defaultFeatures */
    size_t w_sz = nondet_size_t(); __CPROVER_assume(w_sz <= TBLMAX);
    const bool absent = nondet_bool();
    byte *tbl = absent ? NULL : malloc(w_sz);                                   /* exact-size object, arbitrary bytes */
    __CPROVER_assume(absent || tbl != NULL);
    /* bound: the num_settings field of the (at most three) feature records is <= 3 */
    if (tbl && w_sz >= 12) {
        const bool v1 = BE32(tbl) < 0x00020000;
        for (unsigned i = 0; i < 3; ++i) {
            const size_t at = 12 + (v1 ? 12 * i + 2 : 16 * i + 4);
            if (at + 2 <= w_sz) __CPROVER_assume(BE16(tbl + at) <= 3);
        }
    }
    g_feat.ptr = tbl; g_feat.n = w_sz; g_feat.gets = 0;
    const bool ok = FeatureMap_readFeats(fm, face);
    const uint16 nfeats = fm->m_numFeats;
    /* the local `feat' is destroyed at the return: the borrow goes back to the client, which may unmap the table */
    __CPROVER_assert(g_feat.gets == 1, "readFeats: exactly one get_table call");
    (free)(tbl);
    __CPROVER_assert(g_defvals_allocs <= 1 && g_defvals_frees == (g_defvals != NULL ? 1u : 0u), "readFeats: the scratch array defVals is freed exactly once before the call returns, on every path");
    /* ~FeatureMap, then its members */
    FeatureMap_dtor(fm);
    Vector_dtor(&fm->m_defaultFeatures);
    __CPROVER_assert(g_new_feats <= 1 && g_new_named <= 1 && g_del_feats == g_new_feats && g_del_named == g_new_named, "m_feats and m_pNamedFeats are created at most once and each block is deleted exactly once");
    __CPROVER_assert(g_allocs == g_frees, "after ~FeatureMap every block readFeats allocated has been freed (allocations == frees)");
    (free)(face);
    /* --memory-leak-check: nothing allocated by readFeats is left, on any path */
    if (ok && nfeats == 3) CANARY();            /* vacuity guard on the deepest path: three features loaded */
}
#endif

#ifdef UNIT_c16_readfeats_bitsguard
/*@extract {'if':'UNIT_c16_readfeats_bitsguard', 'file':'src/FeatureMap.cpp', 'kind':'range', 'scope': r'bool FeatureMap::readFeats\(const Face & face\)', 'start': r'if \(bits > ', 'end': r'const uint32\s+label',
            'pre':'bool readFeats_bitsguard(FeatureMap *self, unsigned short bits, uint16 * const defVals)\n{\n', 'post':'\n    return true;\n}\n',
            'subs':[[r'delete\s*\[\]\s*([^;]+);', r'DELETE_ARRAY(\1);', 0]], 'self':['m_numFeats','m_feats','m_pNamedFeats','m_defaultFeatures']}@*/
unsigned short nondet_ushort(void);
void h_bitsguard(void)
{
    Face *face = malloc(sizeof(Face)); __CPROVER_assume(face != NULL);
    FeatureMap *fm = FACE_FEATUREMAP(face);
    FeatureMap_ctor(fm); FeatureVal_ctor(&fm->m_defaultFeatures);
    /* the state at the top of the record loop: m_feats and defVals allocated, some records already constructed */
    fm->m_numFeats = 2;
    fm->m_feats = new_FeatureRef_array(2);
    fm->m_feats[0].m_nameValues = (FeatureSetting *)MALLOC_FeatureSetting(sizeof(FeatureSetting));
    uint16 *defVals = MALLOC_uint16(2 * sizeof(uint16)); __CPROVER_assume(defVals != NULL);
    const unsigned frees0 = g_frees;
    const bool go_on = readFeats_bitsguard(fm, nondet_ushort(), defVals);
    if (go_on) __CPROVER_assert(g_frees == frees0, "the guard lets the loop go on: nothing is freed");
    else __CPROVER_assert(g_defvals_frees == 1 && g_frees == frees0 + 1 && g_del_feats == 0, "the guard refuses: defVals is freed exactly once and nothing else is");
    if (go_on) free(defVals);
    FeatureMap_dtor(fm);
    Vector_dtor(&fm->m_defaultFeatures);
    __CPROVER_assert(g_allocs == g_frees, "after ~FeatureMap everything has been freed (allocations == frees)");
    (free)(face);
    CANARY();
}
#endif

/* ====================================================================================================================
 * (B) GlyphCache::~GlyphCache and the Loader it owns
 *     Extracted: GlyphCache::~GlyphCache (src/GlyphCache.cpp), sparse::~sparse (src/Sparse.cpp), Face::Table::~Table (src/inc/Face.h),
 *                Face::Table::release (src/Face.cpp); the data members of GlyphCache, GlyphCache::Loader, GlyphFace.
 *     Spec code (what the compiler generates):
 *       delete p            p == 0: nothing; else the destructor, then operator delete (CLASS_NEW_DELETE: free)
 *       delete[] p          the destructor on `cookie' elements, last to first, then free (cookie = element count of the new[] that made p)
 *       ~GlyphFace          implicit: destroys m_attrs (sparse::~sparse, extracted); Rect / Position are trivially destructible
 *       ~Loader             implicit: destroys the seven Face::Table members in reverse order of declaration (Table::~Table, extracted;
 *                           its contract is proved in c16_dtor)
 *     The client's release_table is the instrumented stub of c16_table.c (obligation: the pointer is an outstanding borrow; it then
 *     FREES the buffer), here with a ledger of seven borrows - one per table the Loader holds.
 *     The states the constructor can leave the object in (read off GlyphCache::GlyphCache and GlyphCache::glyph; unit
 *     c16_glyphcache_life runs the real constructor instead):
 *       S0  no loader, _glyphs == 0, _boxes == 0     (new Loader failed; or preloading failed: everything was given back already)
 *       S1  loader, _glyphs == 0, _num_glyphs == 0   (font without usable glyph tables; glyph 0 not loadable; _glyphs allocation failed -
 *                                                     then _boxes may exist, all zero)
 *       S2  loader, _glyphs[0.._num_glyphs) each 0 or an individually allocated GlyphFace; _boxes == 0 or an array whose entries
 *           are 0 or individually allocated blocks                                           (lazy loading)
 *       S3  no loader, _glyphs[0] = the block of new GlyphFace[_num_glyphs], _glyphs[i] = &block[i]; _boxes == 0 or an array with
 *           _boxes[0] = 0 or ONE block, the other entries pointing into that block (or stale)  (gr_face_preloadGlyphs)
 *     A GlyphFace owns its attribute map: m_attrs.m_array is the shared empty chunk, 0 (allocation failed) or a malloc'ed block.
 */
/*@unit {'name':'c16_glyphcache_dtor', 'props':['C16'], 'entry':'h_gc_dtor', 'kind':'bounded', 'unwind':4, 'defines':['GC=1'], 'checks':['--memory-leak-check'],
  'bound':'_num_glyphs in {1,2,3} (0 in the states without glyphs); every combination of the states S0-S3 above, of the typestates (empty / borrowed / owning a decompressed block) of the seven tables of the Loader, of glyph attribute maps (shared empty chunk / 0 / allocated), with and without a client release_table',
  'claims':'~GlyphCache: in every state the constructor can leave the object in, the Loader (if any) is deleted exactly once - so each of its seven tables is passed to release_table exactly once if it holds a borrow (never otherwise, never a pointer get_table did not return), or its decompressed block is freed - and every glyph, every attribute map, every box, the glyph block of a preloaded cache and both pointer arrays are freed exactly once: no allocation is left (memory-leak check), nothing is freed twice, no table is outstanding'}@*/

#ifdef GC
/* ------------------------------------------------------------------ shim structs */
typedef struct gr_face_ops {
    size_t size;
    const void *(*get_table)(const void *appFaceHandle, unsigned int name, size_t *len);
    void (*release_table)(const void *appFaceHandle, const void *table_buffer);
} gr_face_ops;
typedef struct Face { gr_face_ops m_ops; const void *m_appFaceHandle; } Face;
typedef struct Table { const Face *_f; const byte *_p; size_t _sz; bool _compressed; } Table;
typedef struct Position { float x, y; } Position;
typedef struct Rect { Position bl, tr; } Rect;
typedef uint16 key_type; typedef uint16 mapped_type; typedef unsigned long mask_t;
typedef struct chunk { mask_t mask:48; key_type offset; } chunk;                       /* sparse::chunk (SIZEOF_CHUNK = 48) */
typedef struct sparse { union { chunk *map; mapped_type *values; } m_array; key_type m_nchunks; } sparse;   /* class sparse (src/inc/Sparse.h) */
static const chunk empty_chunk = {0, 0};                                               /* sparse::empty_chunk (src/Sparse.cpp) */
typedef struct GlyphFace {
/*@extract {'if':'GC=1', 'kind':'members', 'file':'src/inc/GlyphFace.h', 'scope': r'class GlyphFace\s*\{', 'names':['m_bbox','m_advance','m_attrs']}@*/
} GlyphFace;
typedef struct GlyphBox GlyphBox;                                                       /* only pointers to boxes are handled here */
typedef struct Loader {
/*@extract {'if':'GC=1', 'kind':'members', 'file':'src/GlyphCache.cpp', 'scope': r'class GlyphCache::Loader\s*\{',
            'names':['_head','_hhea','_hmtx','_glyf','_loca','m_pGlat','m_pGloc','_long_fmt','_has_boxes','_num_glyphs_graphics','_num_glyphs_attributes','_num_attrs'], 'subs':[[r'Face::Table', 'Table']]}@*/
} Loader;
typedef struct GlyphCache {
/*@extract {'if':'GC=1', 'kind':'members', 'file':'src/inc/GlyphCache.h', 'scope': r'class GlyphCache\s*\{', 'names':['_empty_slant_box','_glyph_loader','_glyphs','_boxes','_num_glyphs','_num_attrs','_upem'],
            'subs':[[r'^const Rect', 'Rect']]}@*/
} GlyphCache;

/* ------------------------------------------------------------------ ghost: the borrow ledger (one slot per table of the Loader), new[] cookie, counters */
#define NB 7
struct {
    struct { const void *ptr; bool out; } b[NB];      /* buffers the client handed out; out = outstanding */
    unsigned gets, rels;
} g_led;
const void *g_gcookie_ptr; size_t g_gcookie_n;        /* array cookie of the new GlyphFace[n] block */
unsigned g_loader_deletes, g_glyph_dtors, g_table_dtors;

#define OUTSLOT(p, k) (g_led.b[k].out && g_led.b[k].ptr == (p))
void CB_release_table(const Face *f, const void *p)
{
    (void)f;
    const int k = OUTSLOT(p, 0) ? 0 : OUTSLOT(p, 1) ? 1 : OUTSLOT(p, 2) ? 2 : OUTSLOT(p, 3) ? 3 : OUTSLOT(p, 4) ? 4 : OUTSLOT(p, 5) ? 5 : OUTSLOT(p, 6) ? 6 : -1;
    __CPROVER_assert(k >= 0, "release_table: the pointer is an outstanding borrow (obtained from get_table and not released before)");
    g_led.rels++;
    if (k >= 0) { g_led.b[k].out = 0; free((void *)p); }     /* poison: the client may unmap it now */
}
static void client_release(const void *h, const void *p) { (void)h; (void)p; }          /* only its address is used (non-NULL release_table) */

/* ------------------------------------------------------------------ extracted code */
/*@extract {'if':'GC=1', 'file':'src/Face.cpp', 'sig': r'void Face::Table::release\(\)', 'emit':'void Table_release(Table *self)', 'casts': True,
            'subs':[[r'\(\*_f->m_ops\.release_table\)\(_f->m_appFaceHandle, ', 'CB_release_table(_f, ', 0]],
            'self':['_f','_p','_sz','_compressed']}@*/
/*@extract {'if':'GC=1', 'file':'src/inc/Face.h', 'sig': r'Face::Table::~Table\(\) throw\(\)', 'emit':'void Table_dtor(Table *self)', 'subs':[[r'release\(\)', 'Table_release(self)', 0]]}@*/
/*@extract {'if':'GC=1', 'file':'src/Sparse.cpp', 'sig': r'sparse::~sparse\(\) throw\(\)', 'emit':'void sparse_dtor(sparse *self)', 'self':['m_array','m_nchunks']}@*/

/* implicit destructors and delete expressions (spec code, see above) */
static void GlyphFace_dtor(GlyphFace *self) { g_glyph_dtors++; sparse_dtor(&self->m_attrs); }
static void Loader_dtor(Loader *self)
{
    g_table_dtors += 7;
    Table_dtor(&self->m_pGloc); Table_dtor(&self->m_pGlat); Table_dtor(&self->_loca); Table_dtor(&self->_glyf);
    Table_dtor(&self->_hmtx); Table_dtor(&self->_hhea); Table_dtor(&self->_head);
}
static void delete_Loader(Loader *p) { if (p) { g_loader_deletes++; Loader_dtor(p); free(p); } }
static void delete_GlyphFace(GlyphFace *p) { if (p) { GlyphFace_dtor(p); free(p); } }
static void delete_GlyphFace_array(GlyphFace *p)
{
    if (!p) return;
    __CPROVER_assert(p == g_gcookie_ptr, "delete[]: the pointer is the block new GlyphFace[] returned");
    for (size_t i = g_gcookie_n; i > 0; --i) GlyphFace_dtor(&p[i - 1]);
    free(p);
}

/* delete p / delete[] p: dispatch on the static type of the operand, as the compiler does (the operands are pointers to const) */
static void delete_cLoader(const Loader *p) { delete_Loader((Loader *)p); }
static void delete_cGlyphFace(const GlyphFace *p) { delete_GlyphFace((GlyphFace *)p); }
static void delete_cGlyphFace_array(const GlyphFace *p) { delete_GlyphFace_array((GlyphFace *)p); }
#define DELETE(p)       _Generic((p), const Loader *: delete_cLoader, Loader *: delete_Loader, const GlyphFace *: delete_cGlyphFace, GlyphFace *: delete_GlyphFace)(p)
#define DELETE_ARRAY(p) _Generic((p), const GlyphFace *: delete_cGlyphFace_array, GlyphFace *: delete_GlyphFace_array)(p)

/*@extract {'if':'GC=1', 'file':'src/GlyphCache.cpp', 'sig': r'GlyphCache::~GlyphCache\(\)', 'emit':'void GlyphCache_dtor(GlyphCache *self)',
            'subs':[[r'delete\s*\[\]\s*([^;]+);', r'DELETE_ARRAY(\1);', 0], [r'delete\s*([^;]+);', r'DELETE(\1);', 0]],
            'self':['_glyph_loader','_glyphs','_boxes','_num_glyphs','_num_attrs','_upem']}@*/

/* ------------------------------------------------------------------ harness helpers: objects in the states the library creates */
static Face *mk_face(bool has_release)
{
    Face *face = malloc(sizeof(Face)); __CPROVER_assume(face != NULL);
    face->m_ops.get_table = NULL; face->m_ops.release_table = has_release ? client_release : NULL; face->m_appFaceHandle = face;
    return face;
}
/* a Table in an arbitrary typestate for ledger slot k: empty / holding a borrow / owning a decompressed block */
static void mk_table(Table *t, const Face *face, unsigned k)
{
    const unsigned kind = nondet_unsigned() % 3;
    t->_f = face;
    if (kind == 0) { t->_p = NULL; t->_sz = 0; t->_compressed = nondet_bool(); }
    else if (kind == 1) { byte *b = malloc(4); __CPROVER_assume(b != NULL); g_led.b[k].ptr = b; g_led.b[k].out = 1; g_led.gets++; t->_p = b; t->_sz = 4; t->_compressed = 0; }
    else { byte *b = malloc(4); __CPROVER_assume(b != NULL); t->_p = b; t->_sz = 4; t->_compressed = 1; }
}
static Loader *mk_loader(const Face *face)
{
    Loader *l = malloc(sizeof(Loader)); __CPROVER_assume(l != NULL);
    mk_table(&l->_head, face, 0); mk_table(&l->_hhea, face, 1); mk_table(&l->_hmtx, face, 2); mk_table(&l->_glyf, face, 3);
    mk_table(&l->_loca, face, 4); mk_table(&l->m_pGlat, face, 5); mk_table(&l->m_pGloc, face, 6);
    l->_long_fmt = nondet_bool(); l->_has_boxes = nondet_bool();
    return l;
}
/* the attribute map of a glyph: the shared empty chunk (default constructed / no attributes), 0 (grzeroalloc failed) or an owned block */
static void mk_attrs(GlyphFace *g)
{
    const unsigned kind = nondet_unsigned() % 3;
    if (kind == 0) { g->m_attrs.m_array.map = (chunk *)&empty_chunk; g->m_attrs.m_nchunks = (key_type)nondet_unsigned(); }
    else if (kind == 1) { g->m_attrs.m_array.map = NULL; g->m_attrs.m_nchunks = (key_type)nondet_unsigned(); }
    else { g->m_attrs.m_array.values = malloc(8); __CPROVER_assume(g->m_attrs.m_array.values != NULL); g->m_attrs.m_nchunks = (key_type)nondet_unsigned(); }
}
#endif

#ifdef UNIT_c16_glyphcache_dtor
/* builds state `st' with K glyphs (K a constant: constant-size arrays, FRAMEWORK.md item 14) */
#define BUILD(K) do { \
    if (st == 1) { gc->_glyph_loader = mk_loader(face); \
        if (with_boxes) { gc->_boxes = malloc((K) * sizeof(GlyphBox *)); __CPROVER_assume(gc->_boxes != NULL); for (int i = 0; i < (K); ++i) gc->_boxes[i] = NULL; } } \
    else if (st == 2) { gc->_glyph_loader = mk_loader(face); gc->_num_glyphs = (K); \
        gc->_glyphs = malloc((K) * sizeof(GlyphFace *)); __CPROVER_assume(gc->_glyphs != NULL); \
        for (int i = 0; i < (K); ++i) { GlyphFace *g = NULL; if (nondet_bool()) { g = malloc(sizeof(GlyphFace)); __CPROVER_assume(g != NULL); mk_attrs(g); n_glyphs++; } gc->_glyphs[i] = g; } \
        if (with_boxes) { gc->_boxes = malloc((K) * sizeof(GlyphBox *)); __CPROVER_assume(gc->_boxes != NULL); \
            for (int i = 0; i < (K); ++i) { void *b = NULL; if (gc->_glyphs[i] && nondet_bool()) { b = malloc(16); __CPROVER_assume(b != NULL); } gc->_boxes[i] = b; } } } \
    else if (st == 3) { gc->_num_glyphs = (K); \
        gc->_glyphs = malloc((K) * sizeof(GlyphFace *)); __CPROVER_assume(gc->_glyphs != NULL); \
        GlyphFace *block = malloc((K) * sizeof(GlyphFace)); __CPROVER_assume(block != NULL); g_gcookie_ptr = block; g_gcookie_n = (K); \
        for (int i = 0; i < (K); ++i) { mk_attrs(&block[i]); gc->_glyphs[i] = &block[i]; n_glyphs++; } \
        if (with_boxes) { gc->_boxes = malloc((K) * sizeof(GlyphBox *)); __CPROVER_assume(gc->_boxes != NULL); \
            char *bb = NULL, *stale = malloc(8); (free)(stale); \
            if (nondet_bool()) { bb = malloc(16 * (K)); __CPROVER_assume(bb != NULL); } \
            gc->_boxes[0] = (GlyphBox *)bb; \
            for (int i = 1; i < (K); ++i) gc->_boxes[i] = (GlyphBox *)(bb ? bb + 16 * i : (nondet_bool() ? stale : NULL)); } } \
  } while (0)

void h_gc_dtor(void)
{
    const bool w_has_release = nondet_bool();
    Face *face = mk_face(w_has_release);
    GlyphCache *gc = malloc(sizeof(GlyphCache)); __CPROVER_assume(gc != NULL);
    const unsigned st = nondet_unsigned() % 4;                 /* S0 .. S3 */
    const unsigned w_n = nondet_unsigned();  __CPROVER_assume(w_n >= 1 && w_n <= 3);
    const bool with_boxes = nondet_bool();
    unsigned n_glyphs = 0;
    gc->_glyph_loader = NULL; gc->_glyphs = NULL; gc->_boxes = NULL; gc->_num_glyphs = 0; gc->_num_attrs = 0; gc->_upem = 0;
    if (w_n == 1) BUILD(1); else if (w_n == 2) BUILD(2); else BUILD(3);
    const bool had_loader = gc->_glyph_loader != NULL;

    GlyphCache_dtor(gc);

    __CPROVER_assert(g_loader_deletes == (had_loader ? 1u : 0u), "~GlyphCache deletes the Loader it owns exactly once");
    __CPROVER_assert(g_glyph_dtors == n_glyphs, "~GlyphCache destroys every loaded glyph exactly once");
    if (w_has_release) {
        __CPROVER_assert(g_led.rels == g_led.gets, "every table the Loader obtained from get_table was passed to release_table exactly once");
        __CPROVER_assert(!g_led.b[0].out && !g_led.b[1].out && !g_led.b[2].out && !g_led.b[3].out && !g_led.b[4].out && !g_led.b[5].out && !g_led.b[6].out,
                         "no table is outstanding after ~GlyphCache");
    } else {
        __CPROVER_assert(g_led.rels == 0, "no release_table: nothing is released");
#define KEEP(k) if (g_led.b[k].out) free((void *)g_led.b[k].ptr);
        KEEP(0) KEEP(1) KEEP(2) KEEP(3) KEEP(4) KEEP(5) KEEP(6)                              /* the client keeps ownership: not a library leak */
    }
    free(gc); free(face);
    /* --memory-leak-check: nothing the cache owned is left */
    if (st == 2 && w_n == 3 && with_boxes) CANARY();
}
#endif

/* ====================================================================================================================
 * (B') the whole life of a GlyphCache: real constructor, real lazy lookups, real destructor
 *     Extracted in addition to (B): GlyphCache::GlyphCache, GlyphCache::glyph (src/GlyphCache.cpp), GlyphCache::numGlyphs
 *       (src/inc/GlyphCache.h), Loader::operator bool / num_glyphs / num_attrs / has_boxes (src/GlyphCache.cpp), Table::operator const byte*
 *       (src/inc/Face.h), grzeroalloc<T>, gralloc<T>, checked_mul, max<T> (src/inc/Main.h), sparse::sparse() (src/inc/Sparse.h), enum gr_face_options.
 *     Ghost models WITH A BODY replace (they are what this unit does NOT look into):
 *       Loader::Loader            allocates the Loader (may fail), leaves each of its seven tables in an arbitrary typestate (a borrow is entered
 *                                 into the ledger), arbitrary flags, glyph counts <= 2
 *       Loader::read_glyph        obligation: the GlyphFace it is given is default constructed (placement new over it loses nothing); may fail
 *                                 before or after constructing the glyph in place; adds 0 or 1 to *numsubs; the attribute map it constructs is
 *                                 the shared empty chunk / 0 / an allocated block; returns 0 or the glyph it was given
 *       Loader::read_box          returns 0 or a pointer behind the box it was given (inside the block); touches no ownership
 *       Loader::units_per_em      arbitrary value
 *     new / new[] / delete / delete[] and the implicit constructors / destructors are the spec code of (B).
 */
/*@unit {'name':'c16_glyphcache_life', 'props':['C16'], 'entry':'h_gc_life', 'kind':'bounded', 'unwind':3, 'defines':['GC=1'], 'checks':['--memory-leak-check'],
  'bound':'a Loader reporting at most 2 glyphs; at most 2 lazy glyph() lookups after construction; at most one sub-box per glyph; any allocation may fail; with and without gr_face_preloadGlyphs, with and without boxes, with and without release_table',
  'claims':'GlyphCache(face, options), then up to two glyph(gid) lookups, then ~GlyphCache, with the real bodies: whatever the Loader reports and whichever allocation fails, every block the cache allocates (pointer arrays, glyphs singly or as one new[] block, attribute maps, boxes singly or as one block, the Loader) is freed exactly once, the Loader is deleted exactly once (by the constructor when preloading, else by the destructor), every table it borrowed goes back to release_table exactly once, and nothing is left (memory-leak check): the states the destructor unit c16_glyphcache_dtor enumerates are the ones the constructor produces'}@*/
#ifdef UNIT_c16_glyphcache_life
#define NG 2
typedef struct GlyphBox_ {
/*@extract {'if':'UNIT_c16_glyphcache_life', 'kind':'members', 'file':'src/inc/GlyphCache.h', 'scope': r'class GlyphBox\s*\{', 'names':['_num','_bitmap','_slant','_subs']}@*/
} GlyphBox_;
struct GlyphBox { GlyphBox_ b; };
/*@extract {'if':'UNIT_c16_glyphcache_life', 'file':'include/graphite2/Font.h', 'kind':'range', 'start': r'enum gr_face_options \{', 'end': r'\};', 'end_inclusive': True}@*/

#define counted(p) (p)
#define CS_FAIL(what) __CPROVER_assert(0, "bound: " what " is one of the sizes this unit enumerates"); __CPROVER_assume(0); return NULL
#define CS(k) if (n == (k)) return counted(malloc(k))
static void *CALLOC_ptrs(size_t n, size_t sz)
{   /* calloc(n, sizeof(pointer)) with n made concrete */
    __CPROVER_assert(sz == sizeof(void *), "element size");
    if (n == 1) return counted(calloc(1, sizeof(void *)));
    if (n == 2) return counted(calloc(2, sizeof(void *)));
    CS_FAIL("length of the glyph / box pointer arrays");
}
static void *MALLOC_boxes(size_t n)
{   /* a * sizeof(GlyphBox) + b * 8 * sizeof(float), a in 1..NG glyphs, b in 0..NG sub-boxes */
    CS(1 * sizeof(GlyphBox)); CS(1 * sizeof(GlyphBox) + 32); CS(1 * sizeof(GlyphBox) + 64);
    CS(2 * sizeof(GlyphBox)); CS(2 * sizeof(GlyphBox) + 32); CS(2 * sizeof(GlyphBox) + 64);
    CS_FAIL("size of a box block");
}
static void *MALLOC_glyphs(size_t n) { CS(1 * sizeof(GlyphFace)); CS(2 * sizeof(GlyphFace)); CS_FAIL("size of a glyph block"); }

/*@extract {'if':'UNIT_c16_glyphcache_life', 'file':'src/inc/Main.h', 'sig': r'bool checked_mul\(const size_t a, const size_t b, size_t & t\)\s*(?=\{\s*return __builtin_mul_overflow)',
            'emit':'static bool checked_mul(const size_t a, const size_t b, size_t *t)', 'refs':['t']}@*/
/*@extract {'if':'UNIT_c16_glyphcache_life', 'file':'src/inc/Main.h', 'sig': r'template <typename T> T \* gralloc\(size_t n\)', 'emit':'static char *gralloc_char(size_t n)', 'casts': True,
            'subs':[[r'checked_mul\(n, sizeof\(T\), total\)', 'checked_mul(n, sizeof(T), &total)', 0], [r'\bT\b', 'char', 0], [r'\bmalloc\(', 'MALLOC_boxes(', 0]]}@*/
/*@extract {'if':'UNIT_c16_glyphcache_life', 'file':'src/inc/Main.h', 'sig': r'template <typename T> T \* gralloc\(size_t n\)', 'emit':'static byte *gralloc_byte_glyphs(size_t n)', 'casts': True,
            'subs':[[r'checked_mul\(n, sizeof\(T\), total\)', 'checked_mul(n, sizeof(T), &total)', 0], [r'\bT\b', 'byte', 0], [r'\bmalloc\(', 'MALLOC_glyphs(', 0]]}@*/
/*@extract {'if':'UNIT_c16_glyphcache_life', 'file':'src/inc/Main.h', 'sig': r'template <typename T> T \* grzeroalloc\(size_t n\)', 'emit':'static const GlyphFace **grzeroalloc_pGlyphFace(size_t n)', 'casts': True,
            'subs':[[r'\bT\b', 'const GlyphFace *', 0], [r'\bcalloc\(', 'CALLOC_ptrs(', 0]]}@*/
/*@extract {'if':'UNIT_c16_glyphcache_life', 'file':'src/inc/Main.h', 'sig': r'template <typename T> T \* grzeroalloc\(size_t n\)', 'emit':'static GlyphBox **grzeroalloc_pGlyphBox(size_t n)', 'casts': True,
            'subs':[[r'\bT\b', 'GlyphBox *', 0], [r'\bcalloc\(', 'CALLOC_ptrs(', 0]]}@*/
/*@extract {'if':'UNIT_c16_glyphcache_life', 'file':'src/inc/Main.h', 'sig': r'inline T max\(const T a, const T b\)', 'emit':'static unsigned short max_ushort(const unsigned short a, const unsigned short b)'}@*/
/*@extract {'if':'UNIT_c16_glyphcache_life', 'file':'src/inc/Face.h', 'sig': r'Face::Table::operator const byte \* \(\) const throw\(\)', 'emit':'static const byte *Table_ptr(const Table *self)', 'self':['_p']}@*/
#define TBOOL(t) (Table_ptr(&self->t) != 0)                                    /* a Face::Table in a boolean context: operator const byte * */
/*@extract {'if':'UNIT_c16_glyphcache_life', 'file':'src/GlyphCache.cpp', 'sig': r'GlyphCache::Loader::operator bool \(\) const throw\(\)', 'emit':'static bool Loader_bool(const Loader *self)',
            'subs':[[r'_head && _hhea && _hmtx', 'TBOOL(_head) && TBOOL(_hhea) && TBOOL(_hmtx)', 0], [r'bool\(_glyf\) != bool\(_loca\)', 'TBOOL(_glyf) != TBOOL(_loca)', 0]]}@*/
/*@extract {'if':'UNIT_c16_glyphcache_life', 'file':'src/GlyphCache.cpp', 'sig': r'unsigned short int GlyphCache::Loader::num_glyphs\(\) const throw\(\)', 'emit':'static unsigned short Loader_num_glyphs(const Loader *self)',
            'subs':[[r'\bmax\(', 'max_ushort(', 0]], 'self':['_num_glyphs_graphics','_num_glyphs_attributes']}@*/
/*@extract {'if':'UNIT_c16_glyphcache_life', 'file':'src/GlyphCache.cpp', 'sig': r'unsigned short int GlyphCache::Loader::num_attrs\(\) const throw\(\)', 'emit':'static unsigned short Loader_num_attrs(const Loader *self)', 'self':['_num_attrs']}@*/
/*@extract {'if':'UNIT_c16_glyphcache_life', 'file':'src/GlyphCache.cpp', 'sig': r'bool GlyphCache::Loader::has_boxes \(\) const throw\(\)', 'emit':'static bool Loader_has_boxes(const Loader *self)', 'self':['_has_boxes']}@*/
/*@extract {'if':'UNIT_c16_glyphcache_life', 'file':'src/inc/GlyphCache.h', 'sig': r'unsigned short GlyphCache::numGlyphs\(\) const throw\(\)', 'emit':'static unsigned short GlyphCache_numGlyphs(const GlyphCache *self)', 'self':['_num_glyphs']}@*/
/*@extract {'if':'UNIT_c16_glyphcache_life', 'file':'src/inc/Sparse.h', 'sig': r'sparse::sparse\(\) throw\(\)', 'ctor': True, 'emit':'static void sparse_ctor(sparse *self)', 'casts': True,
            'strip':['graphite2::sparse::'], 'self':['m_array','m_nchunks']}@*/

/* ---- ghost models of the Loader (see the head of this part) */
unsigned g_loader_news, g_readbox_null;
static Loader *new_Loader(const Face *face)
{
    Loader *l = counted(malloc(sizeof(Loader)));
    if (!l) return NULL;
    g_loader_news++;
    mk_table(&l->_head, face, 0); mk_table(&l->_hhea, face, 1); mk_table(&l->_hmtx, face, 2); mk_table(&l->_glyf, face, 3);
    mk_table(&l->_loca, face, 4); mk_table(&l->m_pGlat, face, 5); mk_table(&l->m_pGloc, face, 6);
    l->_long_fmt = nondet_bool(); l->_has_boxes = nondet_bool();
    l->_num_glyphs_graphics = (unsigned short)nondet_unsigned(); l->_num_glyphs_attributes = (unsigned short)nondet_unsigned(); l->_num_attrs = (unsigned short)nondet_unsigned();
    __CPROVER_assume(l->_num_glyphs_graphics <= NG && l->_num_glyphs_attributes <= NG);
    return l;
}
static unsigned short Loader_units_per_em(const Loader *self) { (void)self; return (unsigned short)nondet_unsigned(); }
static const GlyphFace *Loader_read_glyph(const Loader *self, unsigned short gid, GlyphFace *glyph, int *numsubs)
{
    (void)self; (void)gid;
    __CPROVER_assert(glyph->m_attrs.m_array.map == &empty_chunk, "read_glyph is handed a default constructed GlyphFace (constructing the glyph in place loses no block)");
    if (nondet_bool()) return NULL;                              /* table lookups refuse the glyph */
    if (numsubs && nondet_bool()) *numsubs += 1;
    if (nondet_bool()) {                                         /* new (&glyph) GlyphFace(bbox, advance, first, last): sparse(first, last) */
        const unsigned kind = nondet_unsigned() % 3;
        glyph->m_attrs.m_nchunks = (key_type)nondet_unsigned();
        if (kind == 0) glyph->m_attrs.m_array.map = (chunk *)&empty_chunk;
        else if (kind == 1) glyph->m_attrs.m_array.map = NULL;
        else glyph->m_attrs.m_array.values = counted(malloc(8));
        if (glyph->m_attrs.m_array.map == NULL || nondet_bool()) return NULL;      /* !glyph.attrs() || capacity > _num_attrs */
    }
    return glyph;
}
static GlyphBox *Loader_read_box(const Loader *self, unsigned short gid, GlyphBox *curr, const GlyphFace *glyph)
{
    (void)self; (void)gid; (void)glyph;
    if (curr == NULL) { g_readbox_null++; return NULL; }         /* (the real function returns 0 only if gid has no attributes; see the report) */
    if (nondet_bool()) return NULL;
    return (GlyphBox *)((char *)curr + sizeof(GlyphBox) + (nondet_bool() ? 2 * sizeof(Rect) : 0));
}
#define M_num_glyphs_0   Loader_num_glyphs
#define M_num_attrs_0    Loader_num_attrs
#define M_units_per_em_0 Loader_units_per_em
#define M_has_boxes_0    Loader_has_boxes
#define M_read_glyph_3(l, gid, g, ns) Loader_read_glyph(l, gid, &(g), ns)      /* GlyphFace & */
#define M_read_box_3(l, gid, c, g)    Loader_read_box(l, gid, c, &(g))         /* const GlyphFace & */

/* new GlyphFace() / new GlyphFace[n]: CLASS_NEW_DELETE allocation + the (implicit) default constructor: GlyphFace() {} with members Rect(), Position(), sparse() */
static void GlyphFace_default_ctor(GlyphFace *self) { self->m_advance.x = 0; self->m_advance.y = 0; sparse_ctor(&self->m_attrs); }
static GlyphFace *new_GlyphFace(void)
{
    GlyphFace *p = (GlyphFace *)gralloc_byte_glyphs(sizeof(GlyphFace));
    if (p) GlyphFace_default_ctor(p);
    return p;
}
static GlyphFace *new_GlyphFace_array(size_t n)
{
    GlyphFace *p = (GlyphFace *)gralloc_byte_glyphs(n * sizeof(GlyphFace));
    if (!p) return p;
    __CPROVER_assert(g_gcookie_ptr == NULL, "one new GlyphFace[] per cache");
    g_gcookie_ptr = p; g_gcookie_n = n;
    for (size_t i = 0; i < n; ++i) GlyphFace_default_ctor(&p[i]);
    return p;
}
/*@extract {'if':'UNIT_c16_glyphcache_life', 'file':'src/GlyphCache.cpp', 'sig': r'const GlyphFace \*GlyphCache::glyph\(unsigned short glyphid\) const', 'emit':'const GlyphFace *GlyphCache_glyph(GlyphCache *self, unsigned short glyphid)',
            'subs':[[r'numGlyphs\(\)', 'GlyphCache_numGlyphs(self)', 0], [r'const GlyphFace \* & p = ', 'const GlyphFace * * const p_ref = &', 0], [r'(?<![\w.>])p\b', '(*p_ref)', 0],
                    [r'new GlyphFace\(\)', 'new_GlyphFace()', 0], [r'gralloc<char>\(', 'gralloc_char(', 0],
                    [r'delete\s*\[\]\s*([^;]+);', r'DELETE_ARRAY(\1);', 0], [r'delete\s*([^;]+);', r'DELETE(\1);', 0]],
            'methods':['read_glyph','read_box'], 'self':['_glyph_loader','_glyphs','_boxes','_num_glyphs','_num_attrs','_upem']}@*/
/*@extract {'if':'UNIT_c16_glyphcache_life', 'file':'src/GlyphCache.cpp', 'sig': r'GlyphCache::GlyphCache\(const Face & face, const uint32 face_options\)', 'ctor': True,
            'emit':'void GlyphCache_ctor(GlyphCache *self, const Face *face, const uint32 face_options)',
            'subs':[[r'new Loader\(face\)', 'new_Loader(face)', 0], [r'&& \*_glyph_loader &&', '&& Loader_bool(_glyph_loader) &&', 0],
                    [r'grzeroalloc<const GlyphFace \*>\(', 'grzeroalloc_pGlyphFace(', 0], [r'grzeroalloc<GlyphBox \*>\(', 'grzeroalloc_pGlyphBox(', 0],
                    [r'new GlyphFace \[_num_glyphs\]', 'new_GlyphFace_array(_num_glyphs)', 0], [r'gralloc<char>\(', 'gralloc_char(', 0],
                    [r'\bglyph\(0\)', 'GlyphCache_glyph(self, 0)', 0],
                    [r'delete\s*\[\]\s*([^;]+);', r'DELETE_ARRAY(\1);', 0], [r'delete\s*([^;]+);', r'DELETE(\1);', 0]],
            'methods':['num_glyphs','num_attrs','units_per_em','has_boxes','read_glyph','read_box'], 'self':['_glyph_loader','_glyphs','_boxes','_num_glyphs','_num_attrs','_upem']}@*/

void h_gc_life(void)
{
    const bool w_has_release = nondet_bool();
    Face *face = mk_face(w_has_release);
    GlyphCache *gc = malloc(sizeof(GlyphCache)); __CPROVER_assume(gc != NULL);
    const uint32 w_options = nondet_unsigned();

    GlyphCache_ctor(gc, face, w_options);

    const bool preloaded = gc->_glyphs != NULL && gc->_glyph_loader == NULL;
    __CPROVER_assert(gc->_glyph_loader == NULL || g_loader_deletes == 0, "the cache does not keep a pointer to a Loader it deleted");
    __CPROVER_assert(gc->_glyphs != NULL || gc->_num_glyphs == 0, "without a glyph array the cache reports no glyphs");
    /* what a shaping run does: lazy lookups (callers do not look up glyphs in a cache without glyphs: Face::readGlyphs fails then) */
    if (gc->_glyphs != NULL) {
        if (nondet_bool()) (void)GlyphCache_glyph(gc, (unsigned short)nondet_unsigned());
        if (nondet_bool()) (void)GlyphCache_glyph(gc, (unsigned short)nondet_unsigned());
    }

    GlyphCache_dtor(gc);

    __CPROVER_assert(g_loader_deletes == g_loader_news, "the Loader is deleted exactly once (by the constructor when preloading, else by the destructor)");
    if (w_has_release) {
        __CPROVER_assert(g_led.rels == g_led.gets, "every table the Loader obtained from get_table was passed to release_table exactly once");
        __CPROVER_assert(!g_led.b[0].out && !g_led.b[1].out && !g_led.b[2].out && !g_led.b[3].out && !g_led.b[4].out && !g_led.b[5].out && !g_led.b[6].out,
                         "no table is outstanding after ~GlyphCache");
    } else {
        __CPROVER_assert(g_led.rels == 0, "no release_table: nothing is released");
#define KEEP(k) if (g_led.b[k].out) free((void *)g_led.b[k].ptr);
        KEEP(0) KEEP(1) KEEP(2) KEEP(3) KEEP(4) KEEP(5) KEEP(6)
    }
    free(gc); free(face);
    if (preloaded && (w_options & gr_face_preloadGlyphs)) CANARY();   /* vacuity guard: the preloading path ran to the end */
}
#endif
