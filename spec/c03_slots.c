/* C03 / C19 / C05 - the glyph stream stays a well-formed doubly linked list under every list mutator.
 * Bounded units over a finite universe: a pool of NSLOTS slots whose link fields are arbitrary pool pointers or NULL,
 * constrained only by the well-formedness predicate; the REAL mutator body (extracted) is run on it with its loops
 * unwound (unwinding assertions on) and well-formedness plus the mutator's functional clause is asserted afterwards.
 * This is a bounded induction step "every well-formed stream of <= N slots is mapped to a well-formed stream", for all
 * shapes - labelled bounded (small-scope assumption: a violation needs no more than N slots).
 */
#include "types.h"
/*@unit {'name':'c03_reverse', 'props':['C03','C19','C06','C02','C05'], 'entry':'h_reverse', 'kind':'bounded', 'defines_quick':['NSLOTS=3'], 'defines_thorough':['NSLOTS=4'],
  'unwind_quick':6, 'unwind_thorough':7, 'bound':'pool of 3 (quick) / 4 (thorough) slots, any list shape, any assignment of bidi class 16 (non-spacing mark) to slots',
  'replay':'c03_slots', 'witness_defines':['NSLOTS=4'], 'witness_vars':['w_len','w_cls'],
  'claims':'Segment::reverseSlots maps a well-formed list to a well-formed list with the same slots and flips the reversed flag; without class-16 slots it is the exact reversal; applying it twice restores the original order (relied on by positionSlots and justify)'}@*/
/*@unit {'name':'c03_delete', 'props':['C03'], 'entry':'h_delete', 'kind':'bounded', 'defines_quick':['NSLOTS=4','OPCODES'], 'defines_thorough':['NSLOTS=5','OPCODES'],
  'unwind_quick':7, 'unwind_thorough':8, 'bound':'pool of 4 / 5 slots',
  'claims':'the delete_ opcode body unlinks exactly the current slot: the list stays well-formed, the other slots keep their order, the count drops by one, the slot is flagged deleted, highwater moves off it'}@*/
/*@unit {'name':'c03_insert', 'props':['C03','C05'], 'entry':'h_insert', 'kind':'bounded', 'defines_quick':['NSLOTS=4','OPCODES'], 'defines_thorough':['NSLOTS=5','OPCODES'],
  'unwind_quick':7, 'unwind_thorough':8, 'bound':'pool of 4 / 5 slots (one of them free, at most one deleted slot under the cursor)',
  'claims':'the insert opcode body links the new slot before the first non-deleted slot at or after the cursor (or at the end): list well-formed, count + 1, all other slots keep their order; the new slot takes before/after/original from its neighbours (so they stay valid char-info indices)'}@*/

/*@unit {'name':'c05_assoc_op', 'props':['C05','C02'], 'entry':'h_assoc', 'kind':'bounded', 'defines_quick':['NSLOTS=3','OPCODES','ASSOC'], 'defines_thorough':['NSLOTS=4','OPCODES','ASSOC'],
  'unwind_quick':5, 'unwind_thorough':6, 'unwindset':['h_assoc.0:66'], 'bound':'at most 3 / 4 slot references in the parameter list; pool of 3 / 4 slots',
  'claims':'the assoc opcode body reads exactly 1 + num parameter bytes, resolves every reference through slotat (inside the slot map), and sets the current slot to the hull [min before, max after] of the referenced slots: when those have 0 <= before <= after < n so has the current slot afterwards; with no resolvable reference it changes nothing; no other slot is written'}@*/

/*@include slots.tc@*/

/* Segment::getSlotBidiClass caches glyphAttr(gid, aBidi) in the slot: for the list structure only "some class per slot,
   stable across calls" matters - the stub returns the slot's stored class (arbitrary per slot in the harness). */
static int8 Segment_getSlotBidiClass(const Segment *self, Slot *s) { (void)self; return s->m_bidiCls; }

/*@extract {'file':'src/Segment.cpp', 'sig': r'void Segment::reverseSlots\(\)', 'emit':'void Segment_reverseSlots(Segment *self)',
   'subs':[[r'getSlotBidiClass\(', 'Segment_getSlotBidiClass(self, ', 0]],
   'methods':['next','prev'], 'self':['m_dir','m_first','m_last']}@*/

#ifdef OPCODES
/* ---- opcode bodies under the call-threaded macro environment (see spec/c07_vm.c for the environment extraction) */
typedef int32 stack_t;
typedef enum { finished = 0, stack_underflow, stack_not_empty, stack_overflow, slot_offset_out_bounds, died_early } status_t;
typedef void * instr;
typedef struct regbank { slotref is; slotref *map; SlotMap *smap_; slotref *map_base; const instr **ip_; uint8 direction; int8 flags; status_t *status_; } regbank;
bool g_died;
#define registers const byte ** dp_, stack_t ** sp_, stack_t * const sb, regbank * reg_
#define STARTOP(name) bool name(registers) {
#define ENDOP return true; }
#define EXIT(s) { g_died = true; return false; }
#define DIE { is = M_last_0(&seg); status = died_early; EXIT(1); }
#define dp (*dp_)
#define sp (*sp_)
#define reg (*reg_)
#define smap (*reg.smap_)
#define seg (*smap.segment_)
#define is reg.is
#define map reg.map
#define status (*reg.status_)
static Slot *g_free;             /* the slot Segment::newSlot hands out (taken from the pool, not in the list) */
static Slot *Segment_newSlot_0(Segment *s) { (void)s; Slot *r = g_free; g_free = (Slot *)0; return r; }
#define M_newSlot_0 Segment_newSlot_0
/*@extract {'if':'OPCODES', 'file':'src/inc/opcodes.h', 'kind':'startop', 'name':'delete_',
   'methods':['isDeleted','markDeleted','prev','next','first','last','highwater','extendLength']}@*/
/*@extract {'if':'OPCODES', 'file':'src/inc/opcodes.h', 'kind':'startop', 'name':'insert',
   'subs':[[r'&smap\[-1\]', '(&smap.m_slot_map[0])', 0]],
   'methods':['decMax','newSlot','isDeleted','prev','next','first','last','before','after','originate','original','defaultOriginal','highwater','highpassed','extendLength']}@*/
#ifdef ASSOC
/*@extract {'if':'ASSOC', 'file':'src/inc/opcodes.h', 'kind':'define', 'name':'use_params'}@*/
/*@extract {'if':'ASSOC', 'file':'src/inc/opcodes.h', 'kind':'define', 'name':'declare_params'}@*/
/*@extract {'if':'ASSOC', 'file':'src/inc/Rule.h', 'sig': r'Slot \* \* SlotMap::end\(\)', 'emit':'static Slot **SlotMap_end_0(SlotMap *self)', 'self':['m_slot_map','m_size']}@*/
/*@extract {'if':'ASSOC', 'file':'src/inc/opcodes.h', 'kind':'define', 'name':'slotat', 'subs':[[r'&smap\[-1\]', '(&smap.m_slot_map[0])', 0], [r'smap\.end\(\)', 'SlotMap_end_0(&smap)', 0], [r'Machine::', '', 0]]}@*/
/*@extract {'if':'ASSOC', 'file':'src/inc/opcodes.h', 'kind':'startop', 'name':'assoc', 'casts':True, 'methods':['before','after']}@*/
#endif
#undef dp
#undef sp
#undef reg
#undef smap
#undef seg
#undef is
#undef map
#undef status
#endif

/* ------------------------------------------------------------------ harnesses */
bool nondet_bool(void); unsigned nondet_unsigned(void);

static void copy_order(int dst[NSLOTS], const int src[NSLOTS]) { for (int i = 0; i < NSLOTS; ++i) dst[i] = src[i]; }

#ifndef OPCODES
void h_reverse(void)
{
    Segment sg;
    havoc_links();
    sg.m_first = pick_slot(); sg.m_last = pick_slot();
    int o0[NSLOTS], n0, o1[NSLOTS], n1, o2[NSLOTS], n2;
    __CPROVER_assume(wf_list(sg.m_first, sg.m_last, o0, &n0));
    int w_len = n0; int8 w_cls[NSLOTS];
    bool marks = false;
    for (int k = 0; k < NSLOTS; ++k) { w_cls[k] = (k < n0) ? g_pool[o0[k]].m_bidiCls : 0; if (k < n0 && w_cls[k] == 16) marks = true; }
    int8 dir0 = sg.m_dir;
    Segment_reverseSlots(&sg);
    __CPROVER_assert(wf_list(sg.m_first, sg.m_last, o1, &n1), "reverseSlots: the list is still a well-formed doubly linked chain");
    __CPROVER_assert(n1 == n0, "reverseSlots: same number of slots");
    for (int k = 0; k < NSLOTS; ++k) if (k < n0) __CPROVER_assert(in_order(o1, n1, o0[k]), "reverseSlots: every slot is still in the list");
    __CPROVER_assert(sg.m_dir == (int8)(dir0 ^ 64), "reverseSlots: flips the reversed flag");
    if (!marks) for (int k = 0; k < NSLOTS; ++k) if (k < n0) __CPROVER_assert(o1[k] == o0[n0 - 1 - k], "reverseSlots: exact reversal when there are no non-spacing marks");
    Segment_reverseSlots(&sg);
    __CPROVER_assert(wf_list(sg.m_first, sg.m_last, o2, &n2) && n2 == n0, "reverseSlots twice: well-formed, same length");
    for (int k = 0; k < NSLOTS; ++k) if (k < n0) __CPROVER_assert(o2[k] == o0[k], "reverseSlots twice restores the original order");
    (void)w_len;
    CANARY();
}
#else
static void setup_vm(Segment *sg, SlotMap *sm, regbank *rb, status_t *st)
{
    sm->segment_ = sg; sm->m_highwater = pick_slot(); sm->m_highpassed = nondet_bool(); sm->m_maxSize = nondet_int(); __CPROVER_assume(sm->m_maxSize > -100000);
    rb->smap_ = sm; rb->status_ = st; rb->map = &sm->m_slot_map[1 + (nondet_unsigned() % 8)];
    *st = finished; g_died = false;
}
void h_delete(void)
{
    Segment sg; SlotMap sm; regbank rb; status_t st;
    havoc_links();
    sg.m_first = pick_slot(); sg.m_last = pick_slot();
    int o0[NSLOTS], n0, o1[NSLOTS], n1;
    __CPROVER_assume(wf_list(sg.m_first, sg.m_last, o0, &n0));
    sg.m_numGlyphs = (size_t)n0;
    setup_vm(&sg, &sm, &rb, &st);
    rb.is = pick_slot();
    __CPROVER_assume(rb.is == (Slot *)0 || in_order(o0, n0, IDX(rb.is)));      /* the cursor is a slot of the stream (or NULL) */
    Slot *cur = rb.is; bool was_deleted = cur && Slot_isDeleted_0(cur);
    Slot *hw0 = sm.m_highwater;
    const byte *dpv = 0; stack_t *spv = 0;
    bool cont = delete_(&dpv, &spv, 0, &rb);
    if (!cur || was_deleted) {
        __CPROVER_assert(!cont && st == died_early, "delete_ refuses a NULL or already deleted cursor");
    } else {
        __CPROVER_assert(cont && wf_list(sg.m_first, sg.m_last, o1, &n1), "delete_: list still well-formed");
        __CPROVER_assert(n1 == n0 - 1 && sg.m_numGlyphs == (size_t)(n0 - 1), "delete_: exactly one slot fewer, slot count follows");
        __CPROVER_assert(!in_order(o1, n1, IDX(cur)) && Slot_isDeleted_0(cur), "delete_: the current slot is unlinked and flagged deleted");
        int j = 0;
        for (int k = 0; k < NSLOTS; ++k) if (k < n0 && o0[k] != IDX(cur)) { __CPROVER_assert(o1[j] == o0[k], "delete_: the other slots keep their order"); ++j; }
        __CPROVER_assert(hw0 != cur || sm.m_highwater == cur->m_next, "delete_: highwater moves to the successor");
        __CPROVER_assert(rb.is != (Slot *)0 && (rb.is == cur || in_order(o1, n1, IDX(rb.is))), "delete_: the cursor stays on the stream (previous slot) or on the deleted slot at the front");
    }
    CANARY();
}
void h_insert(void)
{
    Segment sg; SlotMap sm; regbank rb; status_t st;
    havoc_links();
    sg.m_first = pick_slot(); sg.m_last = pick_slot();
    int o0[NSLOTS], n0, o1[NSLOTS], n1;
    __CPROVER_assume(wf_list(sg.m_first, sg.m_last, o0, &n0));
    sg.m_numGlyphs = (size_t)n0;
    setup_vm(&sg, &sm, &rb, &st);
    /* a free slot that is not in the list, freshly constructed (Segment::newSlot returns reset slots) */
    g_free = pick_slot();
    __CPROVER_assume(g_free == (Slot *)0 || !in_order(o0, n0, IDX(g_free)));
    Slot *fresh = g_free;
    if (fresh) Slot_ctor(fresh, (int16 *)0);
    rb.is = pick_slot();
    /* the cursor is a slot of the stream, NULL, or a slot deleted earlier in this rule: such a slot is off the list,
       carries the DELETED mark and its next link still leads to the stream (or to NULL at the end) */
    for (int i = 0; i < NSLOTS; ++i) g_pool[i].m_flags &= ~DELETED;
    Slot *cur = rb.is;
    bool cur_deleted = cur && !in_order(o0, n0, IDX(cur));
    if (cur_deleted) {
        __CPROVER_assume(cur != fresh && (cur->m_next == (Slot *)0 || in_order(o0, n0, IDX(cur->m_next))));
        cur->m_flags |= DELETED;
    }
    Slot *iss0 = cur_deleted ? cur->m_next : cur;          /* first non-deleted slot at or after the cursor */
    /* char-info indices in range [0, M) */
    uint32 M = nondet_unsigned(); __CPROVER_assume(M >= 1 && M <= 1000);
    for (int i = 0; i < NSLOTS; ++i) __CPROVER_assume(g_pool[i].m_before < M && g_pool[i].m_after < M && g_pool[i].m_original < M);
    sg.m_defaultOriginal = 0;
    int max0 = sm.m_maxSize;
    const byte *dpv = 0; stack_t *spv = 0;
    bool cont = insert(&dpv, &spv, 0, &rb);
    if (max0 <= 1 || !fresh) {
        __CPROVER_assert(!cont && st == died_early, "insert dies when the per-pass slot budget is exhausted or no slot can be allocated");
    } else {
        __CPROVER_assert(cont && wf_list(sg.m_first, sg.m_last, o1, &n1), "insert: list still well-formed");
        __CPROVER_assert(n1 == n0 + 1 && sg.m_numGlyphs == (size_t)(n0 + 1), "insert: exactly one slot more, slot count follows");
        __CPROVER_assert(in_order(o1, n1, IDX(fresh)) && rb.is == fresh, "insert: the new slot is in the list and becomes the cursor");
        int j = 0;
        for (int k = 0; k < NSLOTS; ++k) if (k < n1 && o1[k] != IDX(fresh)) { __CPROVER_assert(j < n0 && o1[k] == o0[j], "insert: the old slots keep their order"); ++j; }
        __CPROVER_assert(iss0 == (Slot *)0 ? sg.m_last == fresh : fresh->m_next == iss0, "insert: placed before the first live slot at or after the cursor, or at the end when there is none");
        __CPROVER_assert(fresh->m_before < M && fresh->m_after < M && fresh->m_original < M, "insert: before/after/original of the new slot are valid char-info indices");
    }
    CANARY();
}
#endif

#if defined(OPCODES) && defined(ASSOC)
void h_assoc(void)
{
    Segment sg; SlotMap sm; regbank rb; status_t st;
    havoc_links();
    sg.m_first = pick_slot(); sg.m_last = pick_slot();
    setup_vm(&sg, &sm, &rb, &st);
    for (int i = 0; i < 65; ++i) sm.m_slot_map[i] = pick_slot();
    sm.m_size = nondet_unsigned(); __CPROVER_assume(sm.m_size <= 64);                    /* m_size <= MAX_SLOTS: unit c02_run_fsm */
    rb.map = &sm.m_slot_map[1 + (nondet_unsigned() % 64)];                             /* the map cursor is inside the slot map */
    rb.is = pick_slot(); __CPROVER_assume(rb.is);                                       /* a rule action runs with a current slot */
    int n = nondet_int(); __CPROVER_assume(n >= 1 && n <= 1000);                        /* number of characters of the segment */
    for (int i = 0; i < NSLOTS; ++i) __CPROVER_assume(0 <= g_pool[i].m_before && g_pool[i].m_before <= g_pool[i].m_after && g_pool[i].m_after < n);   /* C05 invariant on every slot before the action */
    unsigned w_num = nondet_unsigned(); __CPROVER_assume(w_num <= NSLOTS);
    byte *prm = malloc(1 + w_num); __CPROVER_assume(prm);                                /* exactly the parameter bytes the loader granted: 1 + num (validate_opcode: unit c02_fetch_opcode) */
    prm[0] = (byte)w_num;
    Slot saved[NSLOTS]; for (int i = 0; i < NSLOTS; ++i) saved[i] = g_pool[i];
    Slot *cur = rb.is;
    const byte *dpv = prm; stack_t *spv = 0;
    bool cont = assoc(&dpv, &spv, 0, &rb);
    __CPROVER_assert(cont && dpv == prm + 1 + w_num, "assoc consumes exactly 1 + num parameter bytes and continues");
    __CPROVER_assert(0 <= cur->m_before && cur->m_before <= cur->m_after && cur->m_after < n, "assoc: the current slot still has 0 <= before <= after < n");
    bool any = false; int mn = 0, mx = 0;
    for (unsigned k = 0; k < NSLOTS; ++k) if (k < w_num) {
        int sr = (int8)prm[1 + k];
        Slot **cell = rb.map + sr;
        /* slotat(sr): NULL when the reference leaves the window [first cell, end) */
        Slot *ts = (cell < &sm.m_slot_map[0] || cell >= &sm.m_slot_map[1] + sm.m_size) ? (Slot *)0 : *cell;
        if (ts) { int b = saved[IDX(ts)].m_before, a = saved[IDX(ts)].m_after; if (!any || b < mn) mn = b; if (!any || a > mx) mx = a; any = true; }
    }
    if (any) __CPROVER_assert(cur->m_before == mn && cur->m_after == mx, "assoc: before/after become the hull of the referenced slots (values before the action)");
    else     __CPROVER_assert(cur->m_before == saved[IDX(cur)].m_before && cur->m_after == saved[IDX(cur)].m_after, "assoc without a resolvable reference changes nothing");
    for (int i = 0; i < NSLOTS; ++i) if (&g_pool[i] != cur)
        __CPROVER_assert(g_pool[i].m_before == saved[i].m_before && g_pool[i].m_after == saved[i].m_after && g_pool[i].m_next == saved[i].m_next && g_pool[i].m_prev == saved[i].m_prev, "assoc writes no other slot");
    CANARY();
}
#endif
