/* lz4_ref.h - the oracle of C14: a reference LZ4 *block* decoder written from the LZ4 Block Format Description
 * (lz4_Block_format.md), byte-serial, no word tricks.  Hand-written spec code (trusted base), never extracted.
 *
 *   block     := sequence* last-sequence
 *   sequence  := token  [literal-length bytes]  literals  offset(LE16)  [match-length bytes]
 *   token     := (literal length nibble << 4) | match length nibble ; a nibble of 15 is extended by bytes, each added,
 *                the run stops at the first byte != 255
 *   match     := copy of (nibble + extension + 4) bytes from `offset` bytes back in the output; offset 0 is invalid;
 *                source and destination may overlap (byte-serial semantics)
 *   last-sequence := token [literal-length bytes] literals ; the block ends right after the literals
 *   end-of-block rules for encoders: the last 5 bytes are literals (LASTLITERALS); the last match starts at least 12
 *                bytes before the end of the block (MFLIMIT)
 *
 * mode LZ4REF_STRICT  : exactly the format above; any byte after the last literals is an error (what LZ4_decompress_safe does)
 * mode LZ4REF_LENIENT : additionally a sequence whose literals are followed by fewer than 2 bytes, or whose match part
 *                       leaves fewer than 6 bytes (token + LASTLITERALS) of input, ends the block after its literals and the
 *                       rest of the input is ignored ("prefix decoding": every byte produced is a byte the strict decoder
 *                       produces at the same position before it meets the malformed tail)
 */
#ifndef LZ4_REF_H
#define LZ4_REF_H
#define LZ4REF_STRICT  0
#define LZ4REF_LENIENT 1
typedef struct lz4ref_result {
    long n;             /* number of bytes produced, or -1 */
    size_t last_ll;     /* literal count of the last sequence */
    size_t nseq;        /* number of sequences with a match */
    size_t tail;        /* input bytes left after the last literals (LENIENT only; 0 in STRICT mode) */
} lz4ref_result;

static lz4ref_result lz4_ref(const unsigned char *in, size_t in_size, unsigned char *out, size_t cap, int mode)
{
    lz4ref_result r; r.n = -1; r.last_ll = 0; r.nseq = 0; r.tail = 0;
    size_t ip = 0, op = 0;
    for (;;) {
        if (ip >= in_size) return r;                               /* a sequence starts with a token */
        const unsigned token = in[ip++];
        size_t ll = token >> 4;
        if (ll == 15) {
            unsigned b;
            do { if (ip >= in_size) return r; b = in[ip++]; ll += b; } while (b == 255);
        }
        if (ll > in_size - ip) return r;                           /* literals run past the end of the block */
        if (ll > cap - op) return r;                               /* more output than announced */
        const size_t lit = ip;
        /* decide where the block ends */
        int last = (ip + ll == in_size);
        size_t ip2 = ip + ll, dist = 0, ml = 0;
        if (!last) {
            if (in_size - ip2 < 2) { if (mode == LZ4REF_LENIENT) last = 2; else return r; }
        }
        if (!last) {
            dist = (size_t)in[ip2] | ((size_t)in[ip2 + 1] << 8); ip2 += 2;
            ml = token & 15;
            if (ml == 15) {
                unsigned b;
                do { if (ip2 >= in_size) { if (mode == LZ4REF_LENIENT) { last = 2; break; } return r; } b = in[ip2++]; ml += b; } while (b == 255);
            }
            ml += 4;
            if (!last && mode == LZ4REF_LENIENT && in_size - ip2 < 6) last = 2;
        }
        for (size_t i = 0; i < ll; ++i) out[op + i] = in[lit + i];
        op += ll;
        if (last) { r.n = (long)op; r.last_ll = ll; r.tail = in_size - (lit + ll); return r; }
        if (dist == 0 || dist > op) return r;                      /* offset outside the data produced so far */
        if (ml > cap - op) return r;
        if (cap - op - ml < 5) return r;                           /* end-of-block rule: the last 5 bytes (LASTLITERALS) of the block are literals, so no match ends closer than 5 bytes to the end of the announced output (LZ4_decompress_safe: cpy > oend - LASTLITERALS is an error) */
        for (size_t i = 0; i < ml; ++i) out[op + i] = out[op - dist + i];
        op += ml; ip = ip2; r.nseq++;
    }
}
#endif
