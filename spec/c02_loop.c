/* C02 - "work bounded by the font's declared per-pass loop limits times the text length": the two places the loop limit lives.
 *   Pass::readPass header (src/Pass.cpp)  - the declared maxRuleLoop byte is stored clamped to >= 1
 *   Pass::runGraphite rule loop           - with m_iMaxLoop >= 1 the counter stays in [1, m_iMaxLoop] and after m_iMaxLoop
 *                                           consecutive rule attempts that did not reach the high-water mark the cursor is
 *                                           forced onto the high-water mark and the mark moves one slot on
 * What stays outside: that findNDoRule itself returns and that the high-water mark only moves towards the end of the stream
 * (a fact about every rule action: Pass::doAction / adjustSlot), i.e. the whole-loop termination argument; see DESIGN.md.
 */
#include "types.h"
/*@unit {'name':'c02_readpass_header', 'props':['C02','C01'], 'entry':'h_header', 'enforce':'Pass_readPass_header',
  'claims':'the fixed 40-byte header of a pass is read with exactly 40 bytes consumed, and the stored loop limit m_iMaxLoop is at least 1 whatever byte the font declares'}@*/
/*@unit {'name':'c02_rule_loop', 'props':['C02','C06'], 'entry':'h_loop', 'enforce':'Pass_runGraphite_loop', 'min_loops':1, 'defines':['LOOP'],
  'claims':'Pass::runGraphite rule loop (findNDoRule a contract stub that may move the cursor, the high-water mark and the passed flag arbitrarily): with m_iMaxLoop >= 1 the counter lc stays in [1, m_iMaxLoop], so a cursor position gets at most m_iMaxLoop consecutive rule attempts before the cursor is forced to the high-water mark and the mark advanced; the loop ends only on a NULL cursor or a failed machine'}@*/
/*@include slots.tc@*/
/*@include endian.tc@*/

#ifndef LOOP
#define be_read_byte be_read_uint8          /* typedef uint8 byte (src/inc/Main.h) */
#define be_skip_byte be_skip_uint8
typedef struct Pass {
/*@extract {'kind':'members', 'file':'src/inc/Pass.h', 'scope': r'class Pass\s*\{', 'names':['m_numCollRuns','m_kernColls','m_isReverseDir','m_iMaxLoop','m_numRules','m_numStates','m_numTransition','m_numSuccess','m_numColumns']}@*/
} Pass;
typedef struct Error { int _e; } Error;
static bool Error_test(Error *e, bool pr, int err) { return (e->_e = pr ? err : 0); }      /* Error::test (src/inc/Error.h) */
enum { E_BADCOLLISIONPASS = 1, E_BADEMPTYPASS = 2 };
enum { PASS_TYPE_POSITIONING = 2 };
bool nondet_bool(void);
static bool Silf_aCollision(void) { return nondet_bool(); }
static bool Glyphs_hasBoxes(void) { return nondet_bool(); }
static uint8 Silf_flags(void) { return nondet_bool() ? 0x20 : 0; }
static bool Face_error(Error *e) { return !e->_e; }
const byte *g_hdr; size_t g_numRanges;
#define assert(x) __CPROVER_assert((x), "source assert: " #x)
bool Pass_readPass_header(Pass *self, const byte *const pass_start, int pt, Error *e)
__CPROVER_requires(pass_start == g_hdr)
__CPROVER_assigns(*self, *e, g_numRanges)
__CPROVER_ensures(__CPROVER_return_value ==> self->m_iMaxLoop >= 1)
__CPROVER_ensures(__CPROVER_return_value ==> (self->m_numCollRuns <= 7 && self->m_kernColls <= 3));
/*@extract {'file':'src/Pass.cpp', 'kind':'range', 'scope': r'bool Pass::readPass\(const byte \* const pass_start, size_t pass_length, size_t subtable_base,',
   'start': r'const byte flags = be::read<byte>\(p\);', 'end': r'assert\(p - pass_start == 40\);', 'end_inclusive': True,
   'pre':'bool Pass_readPass_header(Pass *self, const byte *const pass_start, int pt, Error *e)\n{\n    const byte *p = pass_start; size_t numRanges; size_t subtable_base = 0;\n', 'post':'\n    g_numRanges = numRanges; (void)pcCode; (void)rcCode; (void)aCode;\n    return true;\n}\n',
   'subs':[[r'e\.test\(', 'Error_test(e, ', 0], [r'return face\.error\(e\)', 'return Face_error(e) && false', 0],
           [r'm_silf->aCollision\(\)', 'Silf_aCollision()', 0], [r'face\.glyphs\(\)\.hasBoxes\(\)', 'Glyphs_hasBoxes()', 0], [r'm_silf->flags\(\)', 'Silf_flags()', 0],
           [r'be::read<(\w+)>\(p\)', r'be_read_\1(&p)', 0], [r'be::skip<(\w+)>\(p\)', r'be_skip_\1(&p)', 0], [r'be::skip<(\w+)>\(p,\s*', r'be_skip_\1(&p, ', 0]],
   'self':['m_numCollRuns','m_kernColls','m_isReverseDir','m_iMaxLoop','m_numRules','m_numStates','m_numTransition','m_numSuccess','m_numColumns']}@*/

void h_header(void)
{
    Pass *ps = malloc(sizeof(Pass)); __CPROVER_assume(ps);
    byte *hdr = malloc(40); __CPROVER_assume(hdr);             /* pass_length >= 40 is tested before the header is read; exactly 40 here */
    g_hdr = hdr;
    Error e; e._e = 0;
    int pt = nondet_bool() ? 2 : 1;
    bool ok = Pass_readPass_header(ps, hdr, pt, &e);
    (void)ok;
    CANARY();
}
#endif

#ifdef LOOP
typedef enum { finished = 0, stack_underflow, stack_not_empty, stack_overflow, slot_offset_out_bounds, died_early } status_t;
typedef struct Machine { SlotMap *_map; status_t _status; } Machine;
typedef struct FiniteStateMachine FiniteStateMachine;
typedef struct Pass { byte m_iMaxLoop; } Pass;
Machine *g_m; const Pass *g_pass;
int g_run;                       /* ghost: consecutive rule attempts since the counter was last reset */
Slot *g_s1, *g_hw1; bool g_hp1; int g_run1;   /* ghost: cursor, high-water mark, passed flag and attempt count right after the rule ran */
Slot *nondet_slotp(void);
/* stub for Pass::findNDoRule: runs one rule (or advances the cursor when none matches); may leave the cursor, the high-water
   mark, the passed flag and the machine status in any state */
static void Pass_findNDoRule(const Pass *self, Slot **slot, Machine *m, FiniteStateMachine *fsm)
{ (void)self; (void)fsm; *slot = pick_slot(); m->_map->m_highwater = pick_slot(); m->_map->m_highpassed = nondet_int() != 0; m->_status = nondet_int() ? finished : died_early; }
bool Pass_runGraphite_loop(const Pass *self, Machine *m, FiniteStateMachine *fsm, Slot *s)
__CPROVER_requires(self == g_pass && m == g_m && self->m_iMaxLoop >= 1)          /* >= 1: unit c02_readpass_header */
__CPROVER_assigns(g_run, g_s1, g_hw1, g_hp1, g_run1, m->_map->m_highwater, m->_map->m_highpassed, m->_status)
__CPROVER_ensures(1);
/*@extract {'file':'src/Pass.cpp', 'kind':'range', 'scope': r'bool Pass::runGraphite\(vm::Machine & m, FiniteStateMachine & fsm, bool reverse\) const',
   'start': r'int lc = m_iMaxLoop;', 'end': r'\} while \(s\);', 'end_inclusive': True,
   'pre':'bool Pass_runGraphite_loop(const Pass *self, Machine *m_, FiniteStateMachine *fsm, Slot *s)\n{\n    g_run = 0;\n', 'post':'\n    return true;\n}\n',
   'subs':[[r'findNDoRule\(s, m, fsm\)', 'Pass_findNDoRule(self, &s, m_, fsm)', 1], [r'm\.status\(\) != Machine::finished', 'm_->_status != finished', 0],
           [r'm\.slotMap\(\)\.highwater\(\)', 'SlotMap_highwater_0(m_->_map)', 0], [r'm\.slotMap\(\)\.highwater\(', 'SlotMap_highwater_1(m_->_map, ', 0],
           [r'm\.slotMap\(\)\.highpassed\(\)', 'SlotMap_highpassed_0(m_->_map)', 0]],
   'methods':['next'], 'self':['m_iMaxLoop'],
   'loops':{1:'__CPROVER_assigns(s, lc, g_run, g_s1, g_hw1, g_hp1, g_run1, m_->_map->m_highwater, m_->_map->m_highpassed, m_->_status) __CPROVER_loop_invariant(lc >= 1 && lc <= self->m_iMaxLoop && g_run == self->m_iMaxLoop - lc)'},
   'inserts':[[1, '++g_run; __CPROVER_assert(g_run <= self->m_iMaxLoop, "no more than m_iMaxLoop consecutive rule attempts without a reset of the loop counter");'],
              [r'lc = m_iMaxLoop;\s*if \(s\)', 'g_run = 0; __CPROVER_assert(s == (Slot *)0 || 1, "reset");', 'before'],
              [r'if \(m\.status\(\) != Machine::finished\) return false;', 'g_s1 = s; g_hw1 = m_->_map->m_highwater; g_hp1 = m_->_map->m_highpassed; g_run1 = g_run;', 'before'],
              [1, '__CPROVER_assert(s == g_s1 || (g_s1 != (Slot *)0 && g_s1 != g_hw1 && !g_hp1 && g_run1 == self->m_iMaxLoop), "the engine resumes at the position the rule returned; the cursor is moved (onto the high-water mark) only after m_iMaxLoop consecutive attempts that neither reached nor passed the high-water mark");', 'body_end'],
              [1, '__CPROVER_assert(g_run == 0 || (s != m_->_map->m_highwater || !s), "when the counter was not reset the cursor is not on the high-water mark");', 'body_end']]}@*/

void h_loop(void)
{
    havoc_links();
    SlotMap *sm = malloc(sizeof(SlotMap)); Machine *m = malloc(sizeof(Machine)); Pass *ps = malloc(sizeof(Pass));
    __CPROVER_assume(sm && m && ps);
    m->_map = sm; g_m = m; g_pass = ps;
    sm->m_highpassed = nondet_int() != 0;
    Slot *s = pick_slot(); __CPROVER_assume(s);
    bool r = Pass_runGraphite_loop(ps, m, (FiniteStateMachine *)0, s);
    (void)r;
    CANARY();
}
#endif
